(* C13, Protobuf half: the document P2J.v denotes for a message is read back by J2P.v's denotation as the same message (up to the
   packing of numeric repeated fields), relative to the formatter contracts of the exact-decimal printer. *)
From Coq Require Import ZArith List Bool Lia.
From DG Require Import CaseFormat ProtoWireRef ProtoMsg ProtoMsgProofs Json JsonProofs Num NumProofs Base64 Base64Proofs
                       P2J P2JProofs J2P RoundTripP.
Import ListNotations.
Local Open Scope Z_scope.

Definition p2j_plain : p2j_opts := mk_p2j_opts false false.

Lemma numeric_cases k : is_numeric k = true -> In k [3; 4; 5; 8; 13; 14; 17; 18; 1; 6; 16; 2; 7; 15].
Proof.
  unfold is_numeric, wt_of_kind.
  repeat match goal with
         | |- context [k =? ?c] => destruct (Z.eqb_spec k c) as [->|?]; [intros H; cbn in H; try discriminate H; cbn; tauto|]
         end.
  cbn. discriminate.
Qed.

Lemma pj_json_not_null p : pj_finite p = true -> json_is_null (pj_json p) = false.
Proof. destruct p; cbn [pj_json pj_finite json_is_null]; intros H; try reflexivity. rewrite H. reflexivity. Qed.

Lemma byteskind_not_numeric k : is_byteskind k = true -> is_numeric k = false.
Proof.
  unfold is_byteskind. intros H. apply orb_true_iff in H. destruct H as [H|H]; apply Z.eqb_eq in H; subst; reflexivity.
Qed.

Lemma in_ub_range w z : in_ub w z = true -> 0 <= z < 2 ^ w.
Proof. unfold in_ub. intros H. apply andb_true_iff in H. destruct H as [H1 H2]. apply Z.leb_le in H1. apply Z.ltb_lt in H2. lia. Qed.

Section PRT.
  Hypothesis H64 : f64_lex_contract.
  Hypothesis H32 : f32_lex_contract.
  Variable S : schema.
  Hypothesis Hnames : schema_names_ok S.
  Variable dis : bool.

  Lemma int_leaf k x : J2P.is_int_kind k = true -> scalar_okb k x = true ->
    denote_scalar false k (JNum (fmt_int x)) = ROk (VScalar k x).
  Proof.
    intros Hk Hok. unfold denote_scalar, ev_of, denote_leaf. rewrite Hk, fmt_int_plain, parse_int_fmt_int, Hok. reflexivity.
  Qed.

  Lemma scalar_rt k x : is_numeric k = true -> scalar_okb k x = true -> float_dom k x = true ->
    exists p, pj_scalar p2j_plain k x = Some p /\ pj_finite p = true /\ denote_scalar false k (pj_json p) = ROk (VScalar k x).
  Proof.
    intros Hn Hok Hf. apply numeric_cases in Hn. cbn [In] in Hn.
    destruct Hn as [<-|[<-|[<-|[<-|[<-|[<-|[<-|[<-|[<-|[<-|[<-|[<-|[<-|[<-|[]]]]]]]]]]]]]]].
    - exists (PJInt 3 x). split; [reflexivity|]. split; [reflexivity|]. apply int_leaf; [reflexivity|exact Hok].
    - exists (PJInt 4 x). split; [reflexivity|]. split; [reflexivity|]. apply int_leaf; [reflexivity|exact Hok].
    - exists (PJInt 5 x). split; [reflexivity|]. split; [reflexivity|]. apply int_leaf; [reflexivity|exact Hok].
    - (* bool *)
      exists (PJBool (negb (x =? 0))). split; [reflexivity|]. split; [reflexivity|].
      change (scalar_okb 8 x) with ((x =? 0) || (x =? 1)) in Hok.
      apply orb_true_iff in Hok. destruct Hok as [E|E]; apply Z.eqb_eq in E; subst x; reflexivity.
    - exists (PJInt 13 x). split; [reflexivity|]. split; [reflexivity|]. apply int_leaf; [reflexivity|exact Hok].
    - (* enum *)
      exists (PJInt 14 x). split; [reflexivity|]. split; [reflexivity|].
      change (scalar_okb 14 x) with (in_sb 32 x) in Hok.
      cbn [pj_json]. unfold denote_scalar, ev_of, denote_leaf.
      change (J2P.is_int_kind 14) with false. change (14 =? 14) with true. cbn iota.
      rewrite fmt_int_plain, parse_int_fmt_int, Hok. reflexivity.
    - exists (PJInt 17 x). split; [reflexivity|]. split; [reflexivity|]. apply int_leaf; [reflexivity|exact Hok].
    - exists (PJInt 18 x). split; [reflexivity|]. split; [reflexivity|]. apply int_leaf; [reflexivity|exact Hok].
    - (* double *)
      change (scalar_okb 1 x) with (in_ub 64 x) in Hok. apply in_ub_range in Hok.
      change (float_dom 1 x) with (f64_is_finite x && negb (x =? 2 ^ 63)) in Hf.
      apply andb_true_iff in Hf. destruct Hf as [Hfin Hnz]. apply negb_true_iff in Hnz. apply Z.eqb_neq in Hnz.
      destruct (H64 x Hok Hfin Hnz) as ([[neg m] e] & Hlex & Hdec & Hnn).
      exists (PJF 1 x). split; [reflexivity|]. split; [exact Hfin|].
      cbn [pj_json]. rewrite Hfin. unfold denote_scalar, ev_of, denote_leaf.
      change (J2P.is_int_kind 1) with false. change (1 =? 14) with false. change ((1 =? 2) || (1 =? 1)) with true. cbn iota.
      rewrite Hlex. unfold not_negzero in Hnn. apply negb_true_iff in Hnn. rewrite Hnn.
      change (1 =? 2) with false. cbn iota. rewrite Hdec, Hfin. reflexivity.
    - exists (PJInt 6 x). split; [reflexivity|]. split; [reflexivity|]. apply int_leaf; [reflexivity|exact Hok].
    - exists (PJInt 16 x). split; [reflexivity|]. split; [reflexivity|]. apply int_leaf; [reflexivity|exact Hok].
    - (* float *)
      change (scalar_okb 2 x) with (in_ub 32 x) in Hok. apply in_ub_range in Hok.
      change (float_dom 2 x) with (f32_is_finite x && negb (x =? 2 ^ 31)) in Hf.
      apply andb_true_iff in Hf. destruct Hf as [Hfin Hnz]. apply negb_true_iff in Hnz. apply Z.eqb_neq in Hnz.
      destruct (H32 x Hok Hfin Hnz) as (Hw & [[neg m] e] & Hlex & Hdec & Hnn).
      exists (PJF 2 (widen32 x)). split; [reflexivity|]. split; [exact Hw|].
      cbn [pj_json]. rewrite Hw. unfold denote_scalar, ev_of, denote_leaf.
      change (J2P.is_int_kind 2) with false. change (2 =? 14) with false. change ((2 =? 2) || (2 =? 1)) with true. cbn iota.
      rewrite Hlex. unfold not_negzero in Hnn. apply negb_true_iff in Hnn. rewrite Hnn.
      change (2 =? 2) with true. cbn iota. rewrite Hdec, Hfin. reflexivity.
    - exists (PJInt 7 x). split; [reflexivity|]. split; [reflexivity|]. apply int_leaf; [reflexivity|exact Hok].
    - exists (PJInt 15 x). split; [reflexivity|]. split; [reflexivity|]. apply int_leaf; [reflexivity|exact Hok].
  Qed.

  Lemma key_rt kk key : rt_key_kind kk = true -> key_okb kk key = true -> key_dom key = true ->
    key_kind_okb kk key = true /\ denote_key false kk (key_str key) = ROk key.
  Proof.
    intros Hk Hok Hd. unfold rt_key_kind in Hk.
    destruct key as [k' v|s]; cbn [key_okb key_dom key_kind_okb key_str] in *.
    - apply andb_true_iff in Hok. destruct Hok as [Hok Hs]. apply andb_true_iff in Hok. destruct Hok as [Hkk _].
      apply Z.eqb_eq in Hkk. subst k'. rewrite Z.eqb_refl. cbn [andb].
      repeat rewrite orb_true_iff in Hk. rewrite !Z.eqb_eq in Hk.
      destruct Hk as [[[[[->| ->]| ->]| ->]| ->]| ->]; try (cbn in Hs; discriminate Hs);
        try (split; [reflexivity|]; unfold denote_key, denote_key0; cbn [Z.eqb Pos.eqb orb]; change (K_BOOL) with 8;
             cbn [Z.eqb Pos.eqb]; rewrite parse_int_fmt_int, bytes_eqb_refl, Hs; reflexivity).
      (* bool key *)
      split; [reflexivity|]. change (scalar_okb 8 v) with ((v =? 0) || (v =? 1)) in Hs.
      apply orb_true_iff in Hs. destruct Hs as [E|E]; apply Z.eqb_eq in E; subst v; reflexivity.
    - apply andb_true_iff in Hok. destruct Hok as [Hkk _]. apply Z.eqb_eq in Hkk. subst kk.
      split; [reflexivity|]. unfold denote_key, denote_key0. change (9 =? 9) with true. cbn iota. rewrite Hd. reflexivity.
  Qed.

  Definition mx {A} (g : A -> nat) (l : list A) : nat := fold_right (fun x m => Nat.max (g x) m) O l.

  (* what the induction carries for one value *)
  Definition concl (f : nat) (lbl : flabel) (t : ftype) (v : pval) (p : pj) : Prop :=
    match lbl with
    | LSingular => den_single false S (denote_members false dis S f) t (pj_json p) = ROk (p_norm v)
    | _ => forall fd, fd_label fd = lbl -> fd_type fd = t ->
                      den_field false S (denote_members false dis S f) fd (pj_json p) = ROk (Some (p_norm v))
    end.
  Definition PRT (v : pval) : Prop := forall lbl t f,
    wf_fld S lbl t v = true -> p_dom S lbl t v = true -> (depth v <= f)%nat ->
    exists p, pj_fld S p2j_plain lbl t v = Some p /\ pj_finite p = true /\ (depth v <= json_depth (pj_json p))%nat /\
              concl f lbl t v p.

  Lemma elems_rt t f (vs : list pval) :
    (forall x, In x vs -> exists p, pj_fld S p2j_plain LSingular t x = Some p /\ pj_finite p = true /\
                                    (depth x <= json_depth (pj_json p))%nat /\
                                    den_single false S (denote_members false dis S f) t (pj_json p) = ROk (p_norm x)) ->
    exists ps, seq_opt (map (fun x => pj_fld S p2j_plain LSingular t x) vs) = Some ps /\ forallb pj_finite ps = true /\
               (mx depth vs <= mx json_depth (map pj_json ps))%nat /\
               den_elems false S (denote_members false dis S f) t (map pj_json ps) = ROk (map p_norm vs).
  Proof.
    induction vs as [|x vs IH]; intros H.
    - exists []. repeat split; reflexivity.
    - destruct (H x (or_introl eq_refl)) as (p & Hp & Hfin & Hd & Hs).
      destruct IH as (ps & Hps & Hfs & Hds & He); [intros y Hy; apply H; right; exact Hy|].
      exists (p :: ps). cbn [map seq_opt forallb den_elems mx fold_right]. rewrite Hp, Hps, Hfin, Hfs, Hs. cbn [res_bind].
      rewrite He. cbn [res_bind]. repeat split; try reflexivity. unfold mx in *. lia.
  Qed.

  Lemma entries_rt kk t f (kvs : list (mkey * pval)) :
    (forall kx, In kx kvs -> key_kind_okb kk (fst kx) = true /\ denote_key false kk (key_str (fst kx)) = ROk (fst kx) /\
        exists p, pj_fld S p2j_plain LSingular t (snd kx) = Some p /\ pj_finite p = true /\
                  (depth (snd kx) <= json_depth (pj_json p))%nat /\
                  den_single false S (denote_members false dis S f) t (pj_json p) = ROk (p_norm (snd kx))) ->
    exists ms, seq_opt (map (fun kx => if key_kind_okb kk (fst kx)
                                       then option_map (fun p => (fst kx, p)) (pj_fld S p2j_plain LSingular t (snd kx))
                                       else None) kvs) = Some ms /\
               forallb (fun m => pj_finite (snd m)) ms = true /\
               (mx (fun kx => depth (snd kx)) kvs <= mx (fun m => json_depth (snd m)) (map (fun m => (key_str (fst m), pj_json (snd m))) ms))%nat /\
               den_entries false S (denote_members false dis S f) kk t (map (fun m => (key_str (fst m), pj_json (snd m))) ms) =
               ROk (map (fun kx => (fst kx, p_norm (snd kx))) kvs).
  Proof.
    induction kvs as [|kx kvs IH]; intros H.
    - exists []. repeat split; reflexivity.
    - destruct (H kx (or_introl eq_refl)) as (Hkk & Hdk & p & Hp & Hfin & Hd & Hs).
      destruct IH as (ms & Hms & Hfs & Hds & He); [intros y Hy; apply H; right; exact Hy|].
      exists ((fst kx, p) :: ms). cbn [map seq_opt forallb den_entries mx fold_right fst snd].
      rewrite Hkk, Hp. cbn [option_map]. rewrite Hms, Hfin, Hfs, Hdk. cbn [res_bind]. rewrite Hs. cbn [res_bind].
      rewrite He. cbn [res_bind]. repeat split; try reflexivity. unfold mx in *. cbn [snd]. lia.
  Qed.

  Definition member_of (md : mdesc) (nv : Z * pval) : option (list Z * pj) :=
    match find_field md (fst nv) with
    | Some fd => option_map (fun p => (fd_json fd, p)) (pj_fld S p2j_plain (fd_label fd) (fd_type fd) (snd nv))
    | None => None
    end.

  Lemma members_rt md f (fs : list (Z * pval)) : In md S ->
    (forall nv, In nv fs -> exists fd p, find_field md (fst nv) = Some fd /\
        pj_fld S p2j_plain (fd_label fd) (fd_type fd) (snd nv) = Some p /\ pj_finite p = true /\
        (depth (snd nv) <= json_depth (pj_json p))%nat /\
        den_field false S (denote_members false dis S f) fd (pj_json p) = ROk (Some (p_norm (snd nv)))) ->
    exists ms, seq_opt (map (member_of md) fs) = Some ms /\ forallb (fun m => pj_finite (snd m)) ms = true /\
               (mx (fun nv => depth (snd nv)) fs <= mx (fun m => json_depth (snd m)) (map (fun m => (fst m, pj_json (snd m))) ms))%nat /\
               den_members false dis S (denote_members false dis S f) md (map (fun m => (fst m, pj_json (snd m))) ms) =
               ROk (map (fun nv => (fst nv, p_norm (snd nv))) fs).
  Proof.
    intros Hmd. induction fs as [|nv fs IH]; intros H.
    - exists []. repeat split; reflexivity.
    - destruct (H nv (or_introl eq_refl)) as (fd & p & Hfd & Hp & Hfin & Hd & Hs).
      destruct IH as (ms & Hms & Hfs & Hds & He); [intros y Hy; apply H; right; exact Hy|].
      exists ((fd_json fd, p) :: ms). cbn [map seq_opt forallb den_members mx fold_right fst snd].
      unfold member_of at 1. rewrite Hfd, Hp. cbn [option_map]. rewrite Hms, Hfin, Hfs.
      pose proof (find_field_in md (fst nv) fd Hfd) as Hin.
      rewrite (Hnames md fd Hmd Hin). rewrite (pj_json_not_null p Hfin). cbn [negb andb].
      rewrite Hs. cbn [res_bind]. rewrite He. cbn [res_bind].
      assert (Hnum : fd_num fd = fst nv).
      { unfold find_field in Hfd. apply find_some in Hfd. destruct Hfd as [_ E]. apply Z.eqb_eq in E. exact E. }
      rewrite Hnum. repeat split; try reflexivity. unfold mx in *. cbn [snd]. lia.
  Qed.

  Lemma norm_packed_map vs : p_norm_packed (map p_norm vs) = p_norm_packed vs.
  Proof. destruct vs as [|[] ?]; reflexivity. Qed.

  Theorem prt_all : forall v, PRT v.
  Proof.
    induction v as [k x|k b|fs IH|pk vs IH|kvs IH] using pval_ind'; intros lbl t f Hw Hd Hf.
    - (* numeric scalar *)
      destruct lbl; cbn [wf_fld p_dom] in Hw, Hd; try discriminate.
      destruct t as [k'|]; [|discriminate].
      apply andb_true_iff in Hw. destruct Hw as [Hw Hok]. apply andb_true_iff in Hw. destruct Hw as [Hk Hn].
      apply Z.eqb_eq in Hk. subst k'.
      destruct (scalar_rt k x Hn Hok Hd) as (p & Hp & Hfin & Hs).
      exists p. cbn [pj_fld]. rewrite Z.eqb_refl. split; [exact Hp|]. split; [exact Hfin|]. split; [cbn [depth]; lia|].
      unfold concl. cbn [den_single]. exact Hs.
    - (* string / bytes *)
      destruct lbl; cbn [wf_fld p_dom] in Hw, Hd; try discriminate.
      destruct t as [k'|]; [|discriminate].
      apply andb_true_iff in Hw. destruct Hw as [Hw _]. apply andb_true_iff in Hw. destruct Hw as [Hk Hbk].
      apply Z.eqb_eq in Hk. subst k'. cbn [pj_fld]. rewrite Z.eqb_refl. cbn [negb].
      unfold is_byteskind in Hbk. apply orb_true_iff in Hbk. destruct Hbk as [E|E]; apply Z.eqb_eq in E; subst k.
      + change (9 =? K_STRING) with true in *. cbn iota in *.
        exists (PJStr b). split; [reflexivity|]. split; [reflexivity|]. split; [cbn [depth]; lia|].
        unfold concl. cbn [den_single pj_json]. unfold denote_scalar, ev_of, denote_leaf.
        change (J2P.is_int_kind 9) with false. change (9 =? 14) with false. change ((9 =? 2) || (9 =? 1)) with false.
        change (9 =? 8) with false. change (9 =? 9) with true. cbn iota. rewrite Hd. reflexivity.
      + change (12 =? K_STRING) with false in *. change (12 =? K_BYTES) with true. cbn iota in *.
        exists (PJB64 b). split; [reflexivity|]. split; [reflexivity|]. split; [cbn [depth]; lia|].
        unfold concl. cbn [den_single pj_json]. unfold denote_scalar, ev_of, denote_leaf.
        change (J2P.is_int_kind 12) with false. change (12 =? 14) with false. change ((12 =? 2) || (12 =? 1)) with false.
        change (12 =? 8) with false. change (12 =? 9) with false. change (12 =? 12) with true. cbn iota.
        rewrite (b64_decode_encode b (Forall_jbytes b Hd)). reflexivity.
    - (* message *)
      destruct lbl; cbn [wf_fld p_dom] in Hw, Hd; try discriminate.
      destruct t as [|name]; [discriminate|].
      destruct (find_msg S name) as [md|] eqn:Hmd; [|discriminate].
      apply andb_true_iff in Hw. destruct Hw as [_ Hw].
      rewrite forallb_forall in Hw, Hd. rewrite Forall_forall in IH.
      destruct f as [|f']; [cbn [depth] in Hf; lia|].
      assert (Hdep : forall nv, In nv fs -> (depth (snd nv) <= f')%nat).
      { intros nv Hnv. cbn [depth] in Hf.
        assert (depth (snd nv) <= mx (fun nv => depth (snd nv)) fs)%nat.
        { clear -Hnv. induction fs as [|a l IHl]; [destruct Hnv|]. unfold mx in *. cbn [fold_right].
          destruct Hnv as [->|Hnv]; [lia|]. specialize (IHl Hnv). lia. }
        unfold mx in *. lia. }
      destruct (members_rt md f' fs (find_msg_in S name md Hmd)) as (ms & Hms & Hfs & Hds & He).
      { intros nv Hnv. specialize (Hw nv Hnv). specialize (Hd nv Hnv).
        destruct (find_field md (fst nv)) as [fd|] eqn:Hfd; [|discriminate].
        apply andb_true_iff in Hw. destruct Hw as [_ Hw].
        destruct (IH nv Hnv (fd_label fd) (fd_type fd) f' Hw Hd (Hdep nv Hnv)) as (p & Hp & Hfin & Hdp & Hc).
        exists fd, p. repeat split; try assumption.
        unfold concl in Hc. destruct (fd_label fd) eqn:El.
        - unfold den_field. rewrite El, Hc. reflexivity.
        - apply Hc; [exact El | reflexivity].
        - apply Hc; [exact El | reflexivity]. }
      exists (PJObj ms). cbn [pj_fld]. rewrite Hmd. fold (member_of md). rewrite Hms. cbn [option_map pj_finite pj_json].
      split; [reflexivity|]. split; [exact Hfs|]. split.
      + cbn [depth json_depth]. unfold mx in Hds. lia.
      + unfold concl. cbn [den_single]. rewrite Hmd. cbn [andb].
        change (denote_members false dis S (Datatypes.S f') md) with (den_members false dis S (denote_members false dis S f') md).
        cbn [pj_json]. rewrite He. reflexivity.
    - (* repeated *)
      destruct lbl as [|pk'|kk]; cbn [wf_fld p_dom] in Hw, Hd; try discriminate.
      apply andb_true_iff in Hw. destruct Hw as [Hw Hes].
      apply andb_true_iff in Hw. destruct Hw as [Hw _].
      apply andb_true_iff in Hw. destruct Hw as [_ Hne]. apply negb_true_iff in Hne.
      rewrite forallb_forall in Hes, Hd. rewrite Forall_forall in IH.
      assert (Hdep : forall x, In x vs -> (depth x <= f)%nat).
      { intros x Hx. cbn [depth] in Hf.
        assert (depth x <= mx depth vs)%nat.
        { clear -Hx. induction vs as [|a l IHl]; [destruct Hx|]. unfold mx in *. cbn [fold_right].
          destruct Hx as [->|Hx]; [lia|]. specialize (IHl Hx). lia. }
        unfold mx in *. lia. }
      destruct (elems_rt t f vs) as (ps & Hps & Hfs & Hds & He).
      { intros x Hx. destruct (IH x Hx LSingular t f (Hes x Hx) (Hd x Hx) (Hdep x Hx)) as (p & Hp & Hfin & Hdp & Hc).
        exists p. repeat split; assumption. }
      exists (PJArr ps). cbn [pj_fld]. rewrite Hps. cbn [option_map pj_finite pj_json].
      split; [reflexivity|]. split; [exact Hfs|]. split.
      + cbn [depth json_depth]. unfold mx in Hds. lia.
      + unfold concl. intros fd Hl Ht. unfold den_field. rewrite Hl, Ht. cbn [pj_json]. rewrite He. cbn [res_bind].
        destruct vs as [|x vs']; [discriminate Hne|]. cbn [map].
        (* the denotation packs numeric element types: that is what p_norm records *)
        assert (Hpk : type_numeric t = p_norm_packed (x :: vs')).
        { specialize (Hes x (or_introl eq_refl)). destruct x as [k v|k b| | |]; cbn [wf_fld] in Hes; try discriminate;
            destruct t as [k'|]; try discriminate; cbn [type_numeric p_norm_packed].
          - apply andb_true_iff in Hes. destruct Hes as [Hes _]. apply andb_true_iff in Hes. destruct Hes as [E Hn].
            apply Z.eqb_eq in E. subst k'. exact Hn.
          - apply andb_true_iff in Hes. destruct Hes as [Hes _]. apply andb_true_iff in Hes. destruct Hes as [E Hb].
            apply Z.eqb_eq in E. subst k'. apply byteskind_not_numeric. exact Hb.
          - reflexivity. }
        rewrite Hpk. cbn [p_norm map]. reflexivity.
    - (* map *)
      destruct lbl as [|pk'|kk]; cbn [wf_fld p_dom] in Hw, Hd; try discriminate.
      apply andb_true_iff in Hd. destruct Hd as [Hkk Hd].
      apply andb_true_iff in Hw. destruct Hw as [Hw Hes].
      apply andb_true_iff in Hw. destruct Hw as [Hne _]. apply negb_true_iff in Hne.
      rewrite forallb_forall in Hes, Hd. rewrite Forall_forall in IH.
      assert (Hdep : forall kx, In kx kvs -> (depth (snd kx) <= f)%nat).
      { intros kx Hx. cbn [depth] in Hf.
        assert (depth (snd kx) <= mx (fun kx => depth (snd kx)) kvs)%nat.
        { clear -Hx. induction kvs as [|a l IHl]; [destruct Hx|]. unfold mx in *. cbn [fold_right].
          destruct Hx as [->|Hx]; [lia|]. specialize (IHl Hx). lia. }
        unfold mx in *. lia. }
      destruct (entries_rt kk t f kvs) as (ms & Hms & Hfs & Hds & He).
      { intros kx Hx. specialize (Hes kx Hx). specialize (Hd kx Hx).
        apply andb_true_iff in Hes. destruct Hes as [Hes _]. apply andb_true_iff in Hes. destruct Hes as [Hko Hwv].
        apply andb_true_iff in Hd. destruct Hd as [Hkd Hdv].
        destruct (key_rt kk (fst kx) Hkk Hko Hkd) as [Hk1 Hk2].
        destruct (IH kx Hx LSingular t f Hwv Hdv (Hdep kx Hx)) as (p & Hp & Hfin & Hdp & Hc).
        split; [exact Hk1|]. split; [exact Hk2|]. exists p. repeat split; assumption. }
      exists (PJMap kk ms). cbn [pj_fld]. rewrite Hms. cbn [option_map pj_finite pj_json].
      split; [reflexivity|]. split; [exact Hfs|]. split.
      + cbn [depth json_depth]. unfold mx in Hds. lia.
      + unfold concl. intros fd Hl Ht. unfold den_field. rewrite Hl, Ht. cbn [pj_json]. rewrite He. cbn [res_bind].
        destruct kvs as [|kx kvs']; [discriminate Hne|]. cbn [map p_norm]. reflexivity.
  Qed.
End PRT.

(* ------------------------------------------------------------------ top level *)
Lemma p_norm_idem : forall v, p_norm (p_norm v) = p_norm v.
Proof.
  induction v as [k x|k b|fs IH|pk vs IH|kvs IH] using pval_ind'; cbn [p_norm]; try reflexivity.
  - f_equal. rewrite map_map. apply map_ext_in. intros nv Hnv. cbn [fst snd]. rewrite Forall_forall in IH. rewrite (IH nv Hnv). reflexivity.
  - rewrite norm_packed_map. f_equal. rewrite map_map. apply map_ext_in. intros x Hx. rewrite Forall_forall in IH. exact (IH x Hx).
  - f_equal. rewrite map_map. apply map_ext_in. intros kx Hx. cbn [fst snd]. rewrite Forall_forall in IH. rewrite (IH kx Hx). reflexivity.
Qed.

(* the message read back differs from the original only in the packed flag of its repeated fields *)
Corollary m_norm_idem : forall m, m_norm (m_norm m) = m_norm m.
Proof.
  intros m. pose proof (p_norm_idem (VMsg m)) as H. cbn [p_norm] in H. inversion H as [H1]. unfold m_norm. rewrite H1. reflexivity.
Qed.

Theorem p2j_j2p_denotes : f64_lex_contract -> f32_lex_contract -> forall S dis root m,
  schema_names_ok S -> wf_msg S root m = true -> p_dom S LSingular (TMsg root) (VMsg m) = true ->
  wf_msg S root (m_norm m) = true ->
  exists j, pjson_of S p2j_plain root m = Some j /\ pdenote dis S root j = ROk (m_norm m).
Proof.
  intros H64 H32 S dis root m Hnames Hw Hd Hwn.
  destruct (prt_all H64 H32 S Hnames dis (VMsg m) LSingular (TMsg root) (depth (VMsg m)) Hw Hd (le_n _)) as (p & Hp & Hfin & Hdp & _).
  destruct (prt_all H64 H32 S Hnames dis (VMsg m) LSingular (TMsg root) (json_depth (pj_json p)) Hw Hd Hdp) as (p' & Hp' & _ & _ & Hc).
  rewrite Hp in Hp'. inversion Hp'; subst p'. clear Hp'.
  exists (pj_json p). split.
  - unfold pjson_of, pj_of. rewrite Hp, Hfin. reflexivity.
  - unfold concl in Hc. cbn [pj_fld] in Hp. unfold wf_msg in Hw. cbn [wf_fld] in Hw.
    destruct (find_msg S root) as [md|] eqn:Hmd; [|discriminate].
    destruct (seq_opt _) as [ms|] eqn:Hms in Hp; [|discriminate]. cbn [option_map] in Hp. inversion Hp; subst p. clear Hp.
    cbn [pj_json] in *. cbn [den_single] in Hc. rewrite Hmd in Hc. cbn [andb] in Hc.
    unfold pdenote, denote_top. rewrite Hmd.
    destruct (denote_members false dis S _ md _) as [fs'| |] eqn:Hdm; cbn [res_bind] in Hc; try discriminate.
    cbn [p_norm] in Hc. inversion Hc as [Hfs]. cbn [res_bind]. fold (m_norm m). rewrite Hwn. reflexivity.
Qed.

(* ... so the bytes the j2p spec emits for the document decode (proved decoder) to that message *)
Corollary p2j_j2p_bytes : f64_lex_contract -> f32_lex_contract -> forall S dis root m,
  schema_names_ok S -> wf_msg S root m = true -> p_dom S LSingular (TMsg root) (VMsg m) = true ->
  wf_msg S root (m_norm m) = true ->
  exists j b, pjson_of S p2j_plain root m = Some j /\ j2p_spec dis S root j = ROk b /\ decode_top S root b = Some (m_norm m).
Proof.
  intros H64 H32 S dis root m Hnames Hw Hd Hwn.
  destruct (p2j_j2p_denotes H64 H32 S dis root m Hnames Hw Hd Hwn) as (j & Hj & Hden).
  exists j, (encode_msg (m_norm m)). split; [exact Hj|]. split.
  - unfold j2p_spec. rewrite Hden. reflexivity.
  - apply decode_top_encode. exact Hwn.
Qed.
