(* (G) theorems: the definitions generated from proto/protowire/*.go equal the reference. *)
From Coq Require Import ZArith List Bool Lia.
From DG Require Import GoSem GoSemLemmas ProtoWireRef ProtoWireRefProofs Gen_protowire.
Import ListNotations.
Local Open Scope Z_scope.

(* ------------------------------------------------------------------ AppendVarint *)

Fixpoint chunks (n : nat) (s : Z) (v : Z) : list Z :=
  match n with
  | O => [v / 2 ^ s]
  | S n' => ((v / 2 ^ s) mod 128 + 128) :: chunks n' (s + 7) v
  end.

Lemma venc_chunks n : forall s v f, 0 <= s -> 0 <= v ->
  2 ^ (7 * Z.of_nat n) <= v / 2 ^ s < 2 ^ (7 * Z.of_nat n + 7) \/ (n = O /\ 0 <= v / 2 ^ s < 128) ->
  (n < f)%nat -> venc f (v / 2 ^ s) = chunks n s v.
Proof.
  induction n as [|n IH]; intros s v f Hs Hv Hr Hf; destruct f as [|f]; try lia.
  - cbn [venc chunks]. change (2 ^ (7 * Z.of_nat 0 + 7)) with 128 in Hr.
    destruct (Z.ltb_spec (v / 2 ^ s) 128); [reflexivity|lia].
  - destruct Hr as [Hr|[? _]]; [|discriminate].
    cbn [venc chunks].
    assert (H128 : 128 <= 2 ^ (7 * Z.of_nat (S n))).
    { change 128 with (2 ^ 7). apply Z.pow_le_mono_r; lia. }
    destruct (Z.ltb_spec (v / 2 ^ s) 128); [lia|]. f_equal.
    pose proof (pow2_pos s Hs) as Hps.
    rewrite Z.div_div by lia.
    change 128 with (2 ^ 7). rewrite <- pow2_add by lia.
    apply IH; try lia.
    left. rewrite (pow2_add s 7) by lia. rewrite (pow2_add (7 * Z.of_nat n) 7) by lia. change (2^7) with 128.
    rewrite <- Z.div_div by lia.
    replace (7 * Z.of_nat (S n)) with (7 * Z.of_nat n + 7) in Hr by lia.
    replace (7 * Z.of_nat n + 7 + 7) with ((7 * Z.of_nat n + 7) + 7) in Hr by lia.
    rewrite !pow2_add in Hr by lia. change (2^7) with 128 in Hr.
    split.
    + apply Z.div_le_lower_bound; lia.
    + apply Z.div_lt_upper_bound; lia.
Qed.

Lemma byte_lo7 v s : 0 <= v -> 0 <= s ->
  wrapu 8 (Z.lor (Z.land (Z.shiftr v s) 127) 128) = (v / 2 ^ s) mod 128 + 128.
Proof.
  intros Hv Hs. rewrite Z.shiftr_div_pow2 by lia.
  change 127 with (Z.ones 7). rewrite Z.land_ones by lia. change (2 ^ 7) with 128.
  pose proof (Z.mod_pos_bound (v / 2 ^ s) 128 ltac:(lia)).
  rewrite lor_128_small by lia. apply wrapu_small. change (2 ^ 8) with 256. lia.
Qed.

Lemma byte_hi v s : 0 <= s -> 0 <= v / 2 ^ s < 256 -> wrapu 8 (Z.shiftr v s) = v / 2 ^ s.
Proof. intros Hs H. rewrite Z.shiftr_div_pow2 by lia. apply wrapu_small. exact H. Qed.

Lemma div_range v lo hi s : 0 <= s -> 2 ^ (lo + s) <= v < 2 ^ (hi + s) -> 0 <= lo -> 0 <= hi ->
  2 ^ lo <= v / 2 ^ s < 2 ^ hi.
Proof.
  intros Hs H Hlo Hhi. rewrite !pow2_add in H by lia. pose proof (pow2_pos s Hs).
  split; [apply Z.div_le_lower_bound | apply Z.div_lt_upper_bound]; lia.
Qed.

Lemma venc_chunks0 n v f : 0 <= v ->
  2 ^ (7 * Z.of_nat n) <= v < 2 ^ (7 * Z.of_nat n + 7) \/ (n = O /\ 0 <= v < 128) ->
  (n < f)%nat -> venc f v = chunks n 0 v.
Proof.
  intros Hv Hr Hf. assert (E0 : v / 2 ^ 0 = v) by (rewrite Z.pow_0_r, Z.div_1_r; reflexivity).
  rewrite <- (venc_chunks n 0 v f); rewrite ?E0; auto; lia.
Qed.

Ltac av_mid n hi :=
  rewrite !byte_lo7 by lia;
  match goal with |- context [wrapu 8 (Z.shiftr ?v ?s)] =>
    rewrite (byte_hi v s);
    [ rewrite (venc_chunks0 n _ 10); [reflexivity|lia|left; cbn; lia|lia]
    | lia
    | pose proof (div_range v 0 7 s ltac:(lia) ltac:(cbn; lia) ltac:(lia) ltac:(lia)); cbn in *; lia ]
  end.

Theorem AppendVarint_ref b v : 0 <= v < 2 ^ 64 -> AppendVarint b v = b ++ varint_enc v.
Proof.
  intros [H0 H64]. unfold AppendVarint, varint_enc.
  repeat match goal with
  | |- context [if ?v <? ?c then _ else _] => destruct (Z.ltb_spec v c)
  end; cbv zeta; f_equal.
  - rewrite (venc_chunks0 0 v 10); try lia. cbn [chunks]. rewrite Z.pow_0_r, Z.div_1_r. f_equal.
    apply wrapu_small. change (2^8) with 256. lia.
  - av_mid 1%nat 7.
  - av_mid 2%nat 7.
  - av_mid 3%nat 7.
  - av_mid 4%nat 7.
  - av_mid 5%nat 7.
  - av_mid 6%nat 7.
  - av_mid 7%nat 7.
  - av_mid 8%nat 7.
  - rewrite !byte_lo7 by lia.
    pose proof (div_range v 0 1 63 ltac:(lia) ltac:(cbn; lia) ltac:(lia) ltac:(lia)) as Hd. cbn in Hd.
    assert (E : 1 = v / 2 ^ 63) by (cbn; lia).
    rewrite (venc_chunks0 9 v 10); [|lia|left; cbn; lia|lia].
    cbn [chunks]. repeat (apply f_equal2; [reflexivity|]). apply f_equal2; [exact E|reflexivity].
Qed.

(* ------------------------------------------------------------------ ConsumeVarint *)

(* the shape of the unrolled Go code from byte i on: k = number of further bytes that may continue *)
Fixpoint cv_steps (k : nat) (i s v : Z) (b : list Z) : Z * Z :=
  if blen b <=? i then (0, -1) else
  let y := idx b i in
  let v := wrapu 64 (v + wrapu 64 (Z.shiftl y s)) in
  match k with
  | O => if y <? 2 then (v, i + 1) else (0, -3)
  | S k' => if y <? 128 then (v, i + 1) else cv_steps k' (i + 1) (s + 7) (wrapu 64 (v - 2 ^ (s + 7))) b
  end.

Lemma ConsumeVarint_unroll b :
  ConsumeVarint b =
  if blen b <=? 0 then (0, -1) else
  let v := idx b 0 in
  if v <? 128 then (v, 1) else cv_steps 8 1 7 (wrapu 64 (v - 128)) b.
Proof. reflexivity. Qed.

Lemma cv_steps_vdec k : forall i s v pre bs,
  bytes_ok bs -> blen pre = i -> 0 <= i -> s = 7 * i -> 7 * i + 7 * Z.of_nat k = 63 -> 0 <= v < 2 ^ s ->
  cv_steps k i s v (pre ++ bs) = vdec k s v i bs.
Proof.
  induction k as [|k IH]; intros i s v pre bs Hb Hpre Hi Hs Hk Hv; subst i s.
  - cbn [cv_steps]. destruct bs as [|y r].
    + rewrite app_nil_r. destruct (Z.leb_spec (blen pre) (blen pre)); [reflexivity|lia].
    + rewrite blen_app, blen_cons. pose proof (blen_nonneg r).
      destruct (Z.leb_spec (blen pre + (blen r + 1)) (blen pre)); [lia|].
      rewrite idx_app_r. cbn [vdec]. cbv zeta.
      inversion Hb as [|? ? Hy Hr]; subst. unfold byte_ok in Hy.
      destruct (Z.ltb_spec y 2); [|reflexivity].
      assert (blen pre = 9) as E9 by lia. rewrite E9 in *.
      change (7 * 9) with 63 in *. rewrite Z.shiftl_mul_pow2 by lia.
      assert (2 ^ 64 = 2 * 2 ^ 63) as E64 by reflexivity.
      rewrite (wrapu_small 64 (y * 2 ^ 63)) by nia.
      rewrite wrapu_small by nia. reflexivity.
  - cbn [cv_steps]. destruct bs as [|y r].
    + rewrite app_nil_r. destruct (Z.leb_spec (blen pre) (blen pre)); [reflexivity|lia].
    + rewrite blen_app, blen_cons. pose proof (blen_nonneg r).
      destruct (Z.leb_spec (blen pre + (blen r + 1)) (blen pre)); [lia|].
      rewrite idx_app_r. cbn [vdec]. cbv zeta.
      inversion Hb as [|? ? Hy Hr]; subst. unfold byte_ok in Hy.
      rewrite Z.shiftl_mul_pow2 by lia.
      remember (blen pre) as i eqn:Ei.
      assert (Hp : 2 ^ (7 * i + 8) <= 2 ^ 64) by (apply Z.pow_le_mono_r; lia).
      rewrite pow2_add in Hp by lia. change (2 ^ 8) with 256 in Hp.
      pose proof (pow2_pos (7 * i) ltac:(lia)) as Hpp.
      rewrite (wrapu_small 64 (y * 2 ^ (7 * i))) by nia.
      rewrite (wrapu_small 64 (v + y * 2 ^ (7 * i))) by nia.
      destruct (Z.ltb_spec y 128); [reflexivity|].
      replace (pre ++ y :: r) with ((pre ++ [y]) ++ r) by (rewrite <- app_assoc; reflexivity).
      assert (E7 : 2 ^ (7 * i + 7) = 128 * 2 ^ (7 * i)) by (rewrite pow2_add by lia; change (2^7) with 128; lia).
      rewrite IH; auto.
      * f_equal. rewrite wrapu_small; [lia|]. nia.
      * rewrite blen_app. unfold blen at 2. cbn [length]. lia.
      * lia.
      * lia.
      * lia.
      * rewrite wrapu_small by nia. replace (7 * (i + 1)) with (7 * i + 7) by lia. nia.
Qed.

Lemma vdec_S k s a n y r :
  vdec (S k) s a n (y :: r) =
  if y <? 128 then (a + y * 2 ^ s, n + 1) else vdec k (s + 7) (a + (y - 128) * 2 ^ s) (n + 1) r.
Proof. reflexivity. Qed.

Theorem ConsumeVarint_ref bs : bytes_ok bs -> ConsumeVarint bs = varint_dec bs.
Proof.
  intros Hb. rewrite ConsumeVarint_unroll. unfold varint_dec.
  destruct bs as [|y r]; [reflexivity|].
  rewrite blen_cons. pose proof (blen_nonneg r).
  destruct (Z.leb_spec (blen r + 1) 0); [lia|].
  change (idx (y :: r) 0) with y. cbv zeta. rewrite vdec_S.
  inversion Hb as [|? ? Hy Hr]; subst. unfold byte_ok in Hy.
  destruct (Z.ltb_spec y 128).
  - f_equal. rewrite Z.pow_0_r. lia.
  - change (y :: r) with ([y] ++ r).
    assert (Ew : wrapu 64 (y - 128) = y - 128)
      by (apply wrapu_small; change (2^64) with 18446744073709551616; lia).
    rewrite (cv_steps_vdec 8 1 7 _ [y] r); auto.
    + f_equal. rewrite Ew, Z.pow_0_r. lia.
    + lia.
    + rewrite Ew. change (2^7) with 128. lia.
Qed.

(* ------------------------------------------------------------------ SizeVarint *)

Lemma size_formula_sweep :
  forallb (fun l => Z.quot (9 * l + 64) 64 =? (if l =? 0 then 1 else 1 + (l - 1) / 7)) (seqZ 0 65) = true.
Proof. vm_compute. reflexivity. Qed.

Lemma seqZ_In lo hi x : lo <= x < hi -> In x (seqZ lo hi).
Proof.
  intros H. unfold seqZ. apply in_map_iff. exists (Z.to_nat (x - lo)). split; [lia|].
  apply in_seq. lia.
Qed.

Theorem SizeVarint_ref v : 0 <= v < 2 ^ 64 -> SizeVarint v = Z.of_nat (length (varint_enc v)).
Proof.
  intros [H0 H1]. unfold SizeVarint, varint_enc.
  rewrite venc_length; [|lia|].
  2:{ change (128 ^ Z.of_nat 10) with (2 ^ 70). assert (2 ^ 64 < 2 ^ 70) by (apply Z.pow_lt_mono_r; lia). lia. }
  set (l := bits_Len64 v).
  assert (Hl : 0 <= l <= 64).
  { unfold l, bits_Len64. destruct (Z.leb_spec v 0); [lia|].
    pose proof (Z.log2_nonneg v). assert (Z.log2 v < 64) by (apply Z.log2_lt_pow2; lia). lia. }
  rewrite (wrapu_small 32 l) by (change (2^32) with 4294967296; lia).
  rewrite (wrapu_small 32 (9 * l)) by (change (2^32) with 4294967296; lia).
  rewrite (wrapu_small 32 (9 * l + 64)) by (change (2^32) with 4294967296; lia).
  pose proof size_formula_sweep as Hs. rewrite forallb_forall in Hs.
  specialize (Hs l (seqZ_In 0 65 l ltac:(lia))). apply Z.eqb_eq in Hs. rewrite Hs.
  rewrite wraps_small; [|lia|].
  2:{ change (2 ^ (64 - 1)) with 9223372036854775808. destruct (l =? 0); [lia|].
      Z.div_mod_to_equations; lia. }
  unfold l, bits_Len64.
  destruct (Z.ltb_spec v 128) as [Hlt|Hge].
  - destruct (Z.leb_spec v 0).
    + reflexivity.
    + assert (Z.log2 v < 7) by (apply Z.log2_lt_pow2; [lia|change (2^7) with 128; lia]).
      pose proof (Z.log2_nonneg v).
      destruct (Z.eqb_spec (Z.log2 v + 1) 0); [lia|].
      replace (Z.log2 v + 1 - 1) with (Z.log2 v) by lia. rewrite Z.div_small by lia. reflexivity.
  - destruct (Z.leb_spec v 0); [lia|]. pose proof (Z.log2_nonneg v).
    destruct (Z.eqb_spec (Z.log2 v + 1) 0); [lia|]. f_equal. f_equal. lia.
Qed.

(* ------------------------------------------------------------------ zig-zag *)

Theorem EncodeZigZag_ref v : - 2 ^ 63 <= v < 2 ^ 63 -> EncodeZigZag v = zigzag_enc v.
Proof.
  intros H. unfold EncodeZigZag, zigzag_enc.
  rewrite wrapu_wraps by lia. rewrite Z.shiftl_mul_pow2 by lia. change (2 ^ 1) with 2.
  rewrite Z.shiftr_div_pow2 by lia.
  change (2 ^ 63) with 9223372036854775808 in *.
  destruct (Z.ltb_spec v 0).
  - assert (v / 9223372036854775808 = -1) as -> by (Z.div_mod_to_equations; lia).
    change (wrapu 64 (-1)) with (Z.ones 64).
    rewrite lxor_ones_sub; [|lia|apply wrapu_range; lia].
    unfold wrapu. change (Z.ones 64) with 18446744073709551615.
    change (2 ^ 64) with 18446744073709551616. Z.div_mod_to_equations; lia.
  - assert (v / 9223372036854775808 = 0) as -> by (Z.div_mod_to_equations; lia).
    change (wrapu 64 0) with 0. rewrite Z.lxor_0_r. unfold wrapu.
    change (2 ^ 64) with 18446744073709551616. Z.div_mod_to_equations; lia.
Qed.

Theorem DecodeZigZag_ref x : 0 <= x < 2 ^ 64 -> DecodeZigZag x = zigzag_dec x.
Proof.
  intros H. unfold DecodeZigZag, zigzag_dec.
  rewrite Z.shiftr_div_pow2 by lia. rewrite Z.shiftl_mul_pow2 by lia.
  rewrite (Z.shiftr_div_pow2 _ 63) by lia.
  change (2 ^ 1) with 2. change (2 ^ 63) with 9223372036854775808. change (2^64) with 18446744073709551616 in H.
  assert (Hh : wraps 64 (x / 2) = x / 2).
  { apply wraps_small; [lia|]. change (2 ^ (64 - 1)) with 9223372036854775808. Z.div_mod_to_equations; lia. }
  rewrite Hh.
  even_cases x k Hk.
  - assert (wraps 64 (wraps 64 x * 9223372036854775808) / 9223372036854775808 = 0) as ->.
    { unfold wraps. change (2 ^ (64 - 1)) with 9223372036854775808. change (2 ^ 64) with 18446744073709551616.
      Z.div_mod_to_equations; lia. }
    apply Z.lxor_0_r.
  - assert (wraps 64 (wraps 64 x * 9223372036854775808) / 9223372036854775808 = -1) as ->.
    { unfold wraps. change (2 ^ (64 - 1)) with 9223372036854775808. change (2 ^ 64) with 18446744073709551616.
      Z.div_mod_to_equations; lia. }
    rewrite Z.lxor_m1_r. unfold Z.lnot. Z.div_mod_to_equations; lia.
Qed.

(* ------------------------------------------------------------------ fixed width *)

Lemma byte_of_shift v s k : s = 8 * k -> 0 <= v -> 0 <= k -> wrapu 8 (Z.shiftr v s) = (v / 256 ^ k) mod 256.
Proof.
  intros -> Hv Hk. rewrite Z.shiftr_div_pow2 by lia. unfold wrapu. change (2 ^ 8) with 256.
  rewrite Z.pow_mul_r by lia. reflexivity.
Qed.

Theorem AppendFixed32_ref b v : 0 <= v -> AppendFixed32 b v = b ++ le_enc 4 v.
Proof.
  intros Hv. unfold AppendFixed32. f_equal.
  rewrite (byte_of_shift v 0 0), (byte_of_shift v 8 1), (byte_of_shift v 16 2), (byte_of_shift v 24 3) by (reflexivity || lia).
  cbn [le_enc]. rewrite !Z.div_div by lia. rewrite Z.div_1_r. reflexivity.
Qed.

Theorem AppendFixed64_ref b v : 0 <= v -> AppendFixed64 b v = b ++ le_enc 8 v.
Proof.
  intros Hv. unfold AppendFixed64. f_equal.
  rewrite (byte_of_shift v 0 0), (byte_of_shift v 8 1), (byte_of_shift v 16 2), (byte_of_shift v 24 3),
    (byte_of_shift v 32 4), (byte_of_shift v 40 5), (byte_of_shift v 48 6), (byte_of_shift v 56 7) by (reflexivity || lia).
  cbn [le_enc]. rewrite !Z.div_div by lia. rewrite Z.div_1_r. reflexivity.
Qed.

Lemma wrapu_shiftl_byte k x s : 0 <= x < 256 -> 0 <= s -> s + 8 <= k -> wrapu k (Z.shiftl x s) = Z.shiftl x s.
Proof.
  intros Hx Hs Hk. apply wrapu_small. rewrite Z.shiftl_mul_pow2 by lia.
  assert (2 ^ (s + 8) <= 2 ^ k) by (apply Z.pow_le_mono_r; lia).
  rewrite pow2_add in H by lia. change (2 ^ 8) with 256 in H. pose proof (pow2_pos s Hs). nia.
Qed.

Ltac bytes4 b Hb :=
  destruct b as [|?a [|?c [|?d [|?e ?r]]]];
  try (cbn; reflexivity);
  repeat match goal with H : bytes_ok (_ :: _) |- _ => inversion H; clear H; subst end;
  repeat match goal with H : Forall byte_ok (_ :: _) |- _ => inversion H; clear H; subst end;
  unfold byte_ok in *.

Theorem ConsumeFixed32_ref b : bytes_ok b ->
  ConsumeFixed32 b = if blen b <? 4 then (0, -1) else (le_dec 4 b, 4).
Proof.
  intros Hb. unfold ConsumeFixed32. cbv zeta.
  destruct (Z.ltb_spec (blen b) 4) as [Hl|Hl]; [reflexivity|].
  destruct b as [|a [|c [|d [|e r]]]]; try (unfold blen in Hl; cbn [length] in Hl; lia).
  change (idx (a :: c :: d :: e :: r) 0) with a. change (idx (a :: c :: d :: e :: r) 1) with c.
  change (idx (a :: c :: d :: e :: r) 2) with d. change (idx (a :: c :: d :: e :: r) 3) with e.
  repeat match goal with H : bytes_ok (_ :: _) |- _ => inversion H; clear H; subst end.
  repeat match goal with H : Forall byte_ok (_ :: _) |- _ => inversion H; clear H; subst end.
  unfold byte_ok in *.
  rewrite !wrapu_shiftl_byte by lia. rewrite Z.shiftl_0_r.
  rewrite (lor_shiftl_add a c 8) by (try change (2^8) with 256; lia).
  rewrite (lor_shiftl_add _ d 16) by (try change (2^16) with 65536; try change (2^8) with 256; lia).
  rewrite (lor_shiftl_add _ e 24) by (try change (2^24) with 16777216; try change (2^16) with 65536; try change (2^8) with 256; lia).
  f_equal. cbn [le_dec]. change (2^8) with 256. change (2^16) with 65536. change (2^24) with 16777216. lia.
Qed.

Theorem ConsumeFixed64_ref b : bytes_ok b ->
  ConsumeFixed64 b = if blen b <? 8 then (0, -1) else (le_dec 8 b, 8).
Proof.
  intros Hb. unfold ConsumeFixed64. cbv zeta.
  destruct (Z.ltb_spec (blen b) 8) as [Hl|Hl]; [reflexivity|].
  destruct b as [|b0 [|b1 [|b2 [|b3 [|b4 [|b5 [|b6 [|b7 r]]]]]]]]; try (unfold blen in Hl; cbn [length] in Hl; lia).
  set (l := b0 :: b1 :: b2 :: b3 :: b4 :: b5 :: b6 :: b7 :: r) in *.
  change (idx l 0) with b0. change (idx l 1) with b1. change (idx l 2) with b2. change (idx l 3) with b3.
  change (idx l 4) with b4. change (idx l 5) with b5. change (idx l 6) with b6. change (idx l 7) with b7.
  subst l.
  repeat match goal with H : bytes_ok (_ :: _) |- _ => inversion H; clear H; subst end.
  repeat match goal with H : Forall byte_ok (_ :: _) |- _ => inversion H; clear H; subst end.
  unfold byte_ok in *.
  rewrite !wrapu_shiftl_byte by lia. rewrite Z.shiftl_0_r.
  rewrite (lor_shiftl_add b0 b1 8) by (cbn; lia).
  rewrite (lor_shiftl_add _ b2 16) by (cbn; lia).
  rewrite (lor_shiftl_add _ b3 24) by (cbn; lia).
  rewrite (lor_shiftl_add _ b4 32) by (cbn; lia).
  rewrite (lor_shiftl_add _ b5 40) by (cbn; lia).
  rewrite (lor_shiftl_add _ b6 48) by (cbn; lia).
  rewrite (lor_shiftl_add _ b7 56) by (cbn; lia).
  f_equal. cbn [le_dec].
  change (2 ^ 8) with 256. change (2 ^ 16) with 65536. change (2 ^ 24) with 16777216.
  change (2 ^ 32) with 4294967296. change (2 ^ 40) with 1099511627776. change (2 ^ 48) with 281474976710656.
  change (2 ^ 56) with 72057594037927936. lia.
Qed.

(* ------------------------------------------------------------------ ConsumeBytes *)

Theorem ConsumeBytes_ref b : bytes_ok b -> blen b < 2 ^ 63 ->
  ConsumeBytes b =
  let '(m, n) := varint_dec b in
  if n <? 0 then ([], n, n)
  else if m >? blen b - n then ([], -1, -1)
  else (firstn (Z.to_nat m) (skipn (Z.to_nat n) b), n, n + m).
Proof.
  intros Hb Hmax. change (2 ^ 63) with 9223372036854775808 in Hmax. unfold ConsumeBytes. cbv zeta. rewrite ConsumeVarint_ref by exact Hb.
  destruct (varint_dec b) as [m n] eqn:E.
  destruct (Z.ltb_spec n 0); [reflexivity|].
  pose proof (varint_dec_result _ _ _ E) as Hr. pose proof (varint_dec_value _ _ _ Hb E) as Hv.
  destruct Hr as [[? ?]|[[? ?]|[Hn Hn10]]]; try lia.
  assert (Hlen : blen (slice_from b n) = blen b - n).
  { unfold blen, slice_from. rewrite skipn_length. unfold blen in *. lia. }
  rewrite Hlen. rewrite wrapu_small by (unfold blen in *; change (2^64) with 18446744073709551616; lia).
  destruct (Z.gtb_spec m (blen b - n)); [reflexivity|].
  unfold slice_to, slice_from. f_equal.
  change (2 ^ 64) with 18446744073709551616 in Hv.
  rewrite (wraps_small 64 m); [|lia|]; [rewrite wraps_small; [reflexivity|lia|]|];
  change (2 ^ (64 - 1)) with 9223372036854775808; unfold blen in *; lia.
Qed.
