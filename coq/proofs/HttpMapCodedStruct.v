(* Composition: for ONE struct, the three phases of the code as transcribed in model/HttpMapCoded.v (handleHttpMappings loop, body
   member loop with the skip test, owed fields at the closing brace) compose to the table's struct_result (model/HttpMap.v):
   the same set of (id, value) pairs, or both an error.  Portable driver and native driver (field cache + hand-back). *)
From Coq Require Import ZArith List Bool Lia Permutation.
From DG Require Import ThriftWire Json JsonProofs Num HttpMap HttpMapProofs HttpMapCoded HttpMapCodedProofs.
Import ListNotations.
Local Open Scope Z_scope.

(* ------------------------------------------------------------------------------------------------ *)
(* generic: sequential writing with early exit, and the table's collect                              *)
(* ------------------------------------------------------------------------------------------------ *)
Definition entry := (Z * fres)%type.

Fixpoint run (l : list entry) (buf : list (Z * tval)) : wres :=
  match l with
  | [] => WOk buf
  | (i, r) :: rest => match to_wres i r with WOk w => run rest (buf ++ w) | WErr c => WErr c end
  end.

Definition is_err (e : entry) : bool := match snd e with FError _ => true | _ => false end.
Definition vals (l : list entry) : list (Z * tval) := flat_map (fun e => match snd e with FValue v => [(fst e, v)] | _ => [] end) l.

Lemma run_app : forall l1 l2 buf, run (l1 ++ l2) buf = match run l1 buf with WOk b => run l2 b | WErr c => WErr c end.
Proof.
  induction l1 as [|[i r] l1 IH]; intros l2 buf; simpl; [reflexivity|].
  destruct (to_wres i r); [apply IH | reflexivity].
Qed.

Lemma run_char : forall l buf,
  if existsb is_err l then exists c, run l buf = WErr c else run l buf = WOk (buf ++ vals l).
Proof.
  induction l as [|[i r] l IH]; intros buf; simpl.
  - rewrite app_nil_r. reflexivity.
  - destruct r as [v| |c]; simpl.
    + specialize (IH (buf ++ [(i, v)])). destruct (existsb is_err l); [exact IH | rewrite IH, <- app_assoc; reflexivity].
    + specialize (IH (buf ++ [])). rewrite app_nil_r in IH. rewrite app_nil_r. exact IH.
    + eexists; reflexivity.
Qed.

Lemma collect_char : forall l,
  if existsb is_err l then exists c, collect l = HErr c else collect l = HOk (vals l).
Proof.
  induction l as [|[i r] l IH]; simpl; [reflexivity|].
  destruct r as [v| |c]; simpl.
  - destruct (existsb is_err l).
    + destruct IH as [c Hc]. rewrite Hc. eexists; reflexivity.
    + rewrite IH. reflexivity.
  - exact IH.
  - eexists; reflexivity.
Qed.

Definition same_fields (a b : hres) : Prop :=
  match a, b with HOk l1, HOk l2 => Permutation l1 l2 | HErr _, HErr _ => True | _, _ => False end.

Lemma vals_perm : forall l1 l2, Permutation l1 l2 -> Permutation (vals l1) (vals l2).
Proof.
  intros l1 l2 H. induction H; simpl.
  - constructor.
  - apply Permutation_app_head. exact IHPermutation.
  - rewrite !app_assoc. apply Permutation_app_tail. apply Permutation_app_comm.
  - eapply Permutation_trans; eassumption.
Qed.

Lemma existsb_perm : forall (p : entry -> bool) l1 l2, Permutation l1 l2 -> existsb p l1 = existsb p l2.
Proof.
  intros p l1 l2 H. induction H; simpl; try congruence.
  - destruct (p x), (p y); reflexivity.
Qed.

Definition nonabs (e : entry) : bool := match snd e with FAbsent => false | _ => true end.

Lemma vals_nonabs : forall l, vals (filter nonabs l) = vals l.
Proof. induction l as [|[i r] l IH]; simpl; [reflexivity|]. destruct r; simpl; rewrite ?IH; reflexivity. Qed.
Lemma err_nonabs : forall l, existsb is_err (filter nonabs l) = existsb is_err l.
Proof. induction l as [|[i r] l IH]; simpl; [reflexivity|]. destruct r; simpl; rewrite ?IH; reflexivity. Qed.

(* the key transfer lemma: a run over entries that are, absent entries aside, a permutation of the table's entries *)
Lemma run_same_fields : forall l1 l2,
  Permutation (filter nonabs l1) (filter nonabs l2) ->
  same_fields (wres_to_hres (run l1 [])) (collect l2).
Proof.
  intros l1 l2 HP.
  pose proof (run_char l1 []) as H1. pose proof (collect_char l2) as H2.
  rewrite <- (err_nonabs l1) in H1. rewrite <- (err_nonabs l2) in H2.
  rewrite (existsb_perm is_err _ _ HP) in H1.
  destruct (existsb is_err (filter nonabs l2)).
  - destruct H1 as [c1 ->]. destruct H2 as [c2 ->]. exact I.
  - rewrite H1, H2. simpl. rewrite <- (vals_nonabs l1), <- (vals_nonabs l2). apply vals_perm. exact HP.
Qed.

(* ------------------------------------------------------------------------------------------------ *)
(* generic list facts                                                                                *)
(* ------------------------------------------------------------------------------------------------ *)
Lemma NoDup_app_intro : forall (A : Type) (l1 l2 : list A),
  NoDup l1 -> NoDup l2 -> (forall x, In x l1 -> ~ In x l2) -> NoDup (l1 ++ l2).
Proof.
  intros A l1 l2 H1 H2 Hd. induction H1 as [|x l1 Hx H1 IH]; simpl; [exact H2|].
  constructor.
  - rewrite in_app_iff. intros [H|H]; [contradiction | apply (Hd x (or_introl eq_refl) H)].
  - apply IH. intros y Hy. apply Hd. right. exact Hy.
Qed.

Lemma filter_map_comm : forall (A B : Type) (g : A -> B) (p : B -> bool) (l : list A),
  filter p (map g l) = map g (filter (fun x => p (g x)) l).
Proof. intros A B g p l. induction l as [|x l IH]; simpl; [reflexivity|]. destruct (p (g x)); simpl; rewrite IH; reflexivity. Qed.

Lemma insert_by_id_perm : forall f l, Permutation (insert_by_id f l) (f :: l).
Proof.
  intros f l. unfold insert_by_id. induction l as [|g r IH]; simpl; [apply Permutation_refl|].
  destruct (f_id f <=? f_id g); [apply Permutation_refl|].
  eapply Permutation_trans; [apply perm_skip; exact IH | apply perm_swap].
Qed.
Lemma sort_by_id_perm : forall l, Permutation (sort_by_id l) l.
Proof.
  induction l as [|f r IH]; simpl; [constructor|].
  unfold sort_by_id in *. simpl. eapply Permutation_trans; [apply insert_by_id_perm | apply perm_skip; exact IH].
Qed.

(* ------------------------------------------------------------------------------------------------ *)
(* members and fields                                                                                *)
(* ------------------------------------------------------------------------------------------------ *)
Lemma FieldByKey_some : forall fs k f, FieldByKey fs k = Some f -> In f fs /\ f_name f = k.
Proof.
  intros fs k f H. unfold FieldByKey in H. apply find_some in H. destruct H as [Hin He].
  split; [exact Hin | apply zlist_eqb_eq; exact He].
Qed.

Lemma FieldByKey_name : forall fs f, NoDup (map f_name fs) -> In f fs -> FieldByKey fs (f_name f) = Some f.
Proof.
  induction fs as [|g r IH]; intros f Hnd Hin; [contradiction|].
  unfold FieldByKey. simpl. inversion Hnd as [|? ? Hg Hr]; subst.
  destruct (zlist_eqb (f_name g) (f_name f)) eqn:E.
  - apply zlist_eqb_eq in E. destruct Hin as [->|Hin]; [reflexivity|].
    exfalso. apply Hg. rewrite E. apply in_map. exact Hin.
  - destruct Hin as [->|Hin].
    + assert (zlist_eqb (f_name f) (f_name f) = true) by (apply zlist_eqb_eq; reflexivity). congruence.
    + apply IH; assumption.
Qed.

Lemma FieldById_id : forall fs f, NoDup (map f_id fs) -> In f fs -> FieldById fs (f_id f) = Some f.
Proof.
  induction fs as [|g r IH]; intros f Hnd Hin; [contradiction|].
  unfold FieldById. simpl. inversion Hnd as [|? ? Hg Hr]; subst.
  destruct (f_id g =? f_id f) eqn:E.
  - apply Z.eqb_eq in E. destruct Hin as [->|Hin]; [reflexivity|].
    exfalso. apply Hg. rewrite E. apply in_map. exact Hin.
  - destruct Hin as [->|Hin]; [rewrite Z.eqb_refl in E; discriminate | apply IH; assumption].
Qed.

Lemma find_member_of : forall ms m name, NoDup (map fst ms) -> In m ms -> fst m = name -> find_member name ms = Some (snd m).
Proof.
  induction ms as [|x r IH]; intros m name Hnd Hin Hk; [contradiction|].
  unfold find_member. simpl. inversion Hnd as [|? ? Hx Hr]; subst.
  destruct (zlist_eqb (fst m) (fst x)) eqn:E.
  - apply zlist_eqb_eq in E. destruct Hin as [->|Hin]; [reflexivity|].
    exfalso. apply Hx. rewrite <- E. apply in_map. exact Hin.
  - destruct Hin as [->|Hin].
    + assert (zlist_eqb (fst m) (fst m) = true) by (apply zlist_eqb_eq; reflexivity). congruence.
    + apply (IH m (fst m) Hr Hin eq_refl).
Qed.

Lemma find_member_none : forall ms name, find_member name ms = None -> forall m, In m ms -> fst m <> name.
Proof.
  intros ms name H m Hin Hk. unfold find_member in H.
  destruct (find (fun m0 => zlist_eqb name (fst m0)) ms) eqn:E; [discriminate|].
  eapply find_none in E; [|exact Hin]. subst name.
  assert (zlist_eqb (fst m) (fst m) = true) by (apply zlist_eqb_eq; reflexivity). congruence.
Qed.

Lemma find_member_some_in : forall ms name j, find_member name ms = Some j -> exists m, In m ms /\ fst m = name /\ snd m = j.
Proof.
  intros ms name j H. unfold find_member in H.
  destruct (find (fun m0 => zlist_eqb name (fst m0)) ms) as [m|] eqn:E; [|discriminate].
  apply find_some in E. destruct E as [Hin He]. inversion H; subst.
  exists m. repeat split; [exact Hin | symmetry; apply zlist_eqb_eq; exact He].
Qed.

(* member_fields of HttpMap.v is the list of FieldByKey hits *)
Lemma member_fields_unfold : forall fs ms,
  member_fields fs ms = flat_map (fun m => match FieldByKey fs (fst m) with Some f => [f] | None => [] end) ms.
Proof. reflexivity. Qed.

Lemma member_fields_in_iff : forall fs ms f, NoDup (map f_name fs) ->
  In f (member_fields fs ms) <-> In f fs /\ in_body ms f = true.
Proof.
  intros fs ms f Hn. rewrite member_fields_unfold, in_flat_map. unfold in_body. split.
  - intros (m & Hm & Hf). destruct (FieldByKey fs (fst m)) as [g|] eqn:E; [|contradiction].
    destruct Hf as [->|[]]. apply FieldByKey_some in E. destruct E as [Hin Hk].
    split; [exact Hin|].
    destruct (find_member (f_name f) ms) eqn:Em; [reflexivity|].
    exfalso. eapply find_member_none; [exact Em | exact Hm | symmetry; exact Hk].
  - intros [Hin Hb]. destruct (find_member (f_name f) ms) as [j|] eqn:Em; [|discriminate].
    apply find_member_some_in in Em. destruct Em as (m & Hm & Hk & _).
    exists m. split; [exact Hm|]. rewrite Hk, (FieldByKey_name fs f Hn Hin). left; reflexivity.
Qed.

Lemma member_fields_nodup : forall fs ms, NoDup (map fst ms) -> NoDup (member_fields fs ms).
Proof.
  intros fs ms. rewrite member_fields_unfold. induction ms as [|m r IH]; intros Hnd; simpl; [constructor|].
  inversion Hnd as [|? ? Hm Hr]; subst.
  destruct (FieldByKey fs (fst m)) as [f|] eqn:E; simpl; [|apply IH; exact Hr].
  constructor; [|apply IH; exact Hr].
  rewrite in_flat_map. intros (m' & Hm' & Hf).
  destruct (FieldByKey fs (fst m')) as [g|] eqn:E'; [|contradiction]. destruct Hf as [->|[]].
  apply FieldByKey_some in E. apply FieldByKey_some in E'. destruct E as [_ E]. destruct E' as [_ E'].
  apply Hm. rewrite <- E, E'. apply in_map. exact Hm'.
Qed.

(* ------------------------------------------------------------------------------------------------ *)
(* one struct                                                                                        *)
(* ------------------------------------------------------------------------------------------------ *)
Section OneStruct.
  Variable o : hopts.
  Variable rq : request.
  Variable conv_text : tdesc -> list Z -> option tval.
  Variable conv_json : tdesc -> json -> option tval.
  Variable rec : list fdesc -> json -> fres.
  Variable fs : list fdesc.
  Variable ms : list (list Z * json).
  Hypothesis ids_nodup : NoDup (map f_id fs).
  Hypothesis names_nodup : NoDup (map f_name fs).
  Hypothesis keys_nodup : NoDup (map fst ms).
  Hypothesis reqs_valid : Forall valid_req fs.

  Definition ann (f : fdesc) : bool := nonempty (f_anns f).
  Definition fb (f : fdesc) : bool := match map_field o false f rq with DFallbackToBody => true | _ => false end.
  Definition owed0 (f : fdesc) : bool := negb (f_req f =? R_OPTIONAL).
  (* the requires bit after the mapping loop *)
  Definition B1 (f : fdesc) : bool := if ann f then fb f else owed0 f.
  Definition keep (f : fdesc) : bool := negb (ann f && negb (B1 f)).
  (* ... and after the member loop *)
  Definition B3 (f : fdesc) : bool := if in_body ms f && keep f then false else B1 f.

  Lemma fs_nodup : NoDup fs.
  Proof. eapply NoDup_map_inv; exact ids_nodup. Qed.

  Lemma same_id : forall f g, In f fs -> In g fs -> f_id f = f_id g -> f = g.
  Proof.
    intros f g Hf Hg He. pose proof (FieldById_id fs f ids_nodup Hf) as H1.
    pose proof (FieldById_id fs g ids_nodup Hg) as H2. rewrite He in H1. congruence.
  Qed.

  Section Root.
    Variable root : bool.
    Notation FR := (field_result o Spec rq conv_text conv_json rec root false ms).
    Definition E (f : fdesc) : entry := (f_id f, FR f).
    Definition e1 (f : fdesc) : entry :=
      (f_id f, match fst (hhm_step o rq conv_text conv_json rec false f) with Some r => r | None => FAbsent end).

    (* ---- phase 1 ---- *)
    Fixpoint bm_after (L : list fdesc) (bm : bitmap) : bitmap :=
      match L with [] => bm | f :: r => bm_after r (bm_set bm (f_id f) (fb f)) end.

    Lemma ph1 : forall L bm buf,
      fold_steps o rq conv_text conv_json rec false L bm buf =
      match run (map e1 L) buf with WOk b => HSt (bm_after L bm) b | WErr c => HFail c end.
    Proof.
      induction L as [|f r IH]; intros bm buf; simpl; [reflexivity|].
      unfold apply_step.
      destruct (hhm_step_bit o rq conv_text conv_json rec f) as [Hb|Hb];
        [|exfalso; eapply map_field_body_not_skipowed; exact Hb].
      rewrite Hb. fold (fb f).
      destruct (fst (hhm_step o rq conv_text conv_json rec false f)) as [r0|]; simpl.
      - destruct (to_wres (f_id f) r0); [apply IH | reflexivity].
      - rewrite app_nil_r. apply IH.
    Qed.

    Lemma bm_after_notin : forall L bm i, (forall g, In g L -> f_id g <> i) -> bm_after L bm i = bm i.
    Proof.
      induction L as [|f r IH]; intros bm i H; simpl; [reflexivity|].
      rewrite IH by (intros g Hg; apply H; right; exact Hg).
      unfold bm_set. destruct (i =? f_id f) eqn:E0; [|reflexivity].
      apply Z.eqb_eq in E0. exfalso. apply (H f (or_introl eq_refl)). symmetry; exact E0.
    Qed.

    Lemma bm_after_in : forall L bm f, NoDup (map f_id L) -> In f L -> bm_after L bm (f_id f) = fb f.
    Proof.
      induction L as [|g r IH]; intros bm f Hnd Hin; [contradiction|]. simpl.
      inversion Hnd as [|? ? Hg Hr]; subst. destruct Hin as [->|Hin].
      - rewrite bm_after_notin.
        + unfold bm_set. rewrite Z.eqb_refl. reflexivity.
        + intros h Hh He. apply Hg. rewrite <- He. apply in_map. exact Hh.
      - apply IH; assumption.
    Qed.

    Definition hfs := HttpMappingFields fs.
    Definition bm1 : bitmap := bm_after hfs (Requires fs).

    Lemma hfs_in : forall f, In f hfs <-> In f fs /\ ann f = true.
    Proof. intros f. unfold hfs, HttpMappingFields. apply filter_In. Qed.

    Lemma hfs_ids_nodup : NoDup (map f_id hfs).
    Proof.
      unfold hfs, HttpMappingFields. clear -ids_nodup. induction fs as [|f r IH]; simpl; [constructor|].
      inversion ids_nodup as [|? ? Hf Hr]; subst.
      destruct (nonempty (f_anns f)); simpl; [|apply IH; exact Hr].
      constructor; [|apply IH; exact Hr].
      intros H. apply Hf. apply in_map_iff in H. destruct H as (g & Hg & Hin). apply filter_In in Hin.
      rewrite <- Hg. apply in_map. apply Hin.
    Qed.

    Lemma bm1_char : forall f, In f fs -> bm1 (f_id f) = B1 f.
    Proof.
      intros f Hin. unfold bm1, B1. destruct (ann f) eqn:Ea.
      - apply bm_after_in; [apply hfs_ids_nodup | apply hfs_in; split; assumption].
      - rewrite bm_after_notin.
        + unfold Requires. rewrite (FieldById_id fs f ids_nodup Hin). reflexivity.
        + intros g Hg He. apply hfs_in in Hg. destruct Hg as [Hg Hag].
          assert (g = f) by (apply same_id; assumption). subst. congruence.
    Qed.

    (* ---- phase 2 ---- *)
    Definition skipped (ft : fdesc) : bool := ann ft && negb (B1 ft).

    Definition entries2 (ms' : list (list Z * json)) : list entry :=
      flat_map (fun m => match FieldByKey fs (fst m) with
                         | Some ft => if skipped ft then [] else [(f_id ft, conv_value conv_json rec (f_ty ft) (snd m))]
                         | None => []
                         end) ms'.

    Fixpoint bm_after2 (ms' : list (list Z * json)) (bm : bitmap) : bitmap :=
      match ms' with
      | [] => bm
      | m :: r => match FieldByKey fs (fst m) with
                  | Some ft => if skipped ft then bm_after2 r bm else bm_after2 r (bm_set bm (f_id ft) false)
                  | None => bm_after2 r bm
                  end
      end.

    Lemma ph2 : forall ms' bm buf,
      NoDup (map fst ms') ->
      (forall m ft, In m ms' -> FieldByKey fs (fst m) = Some ft -> bm (f_id ft) = B1 ft) ->
      members_loop conv_json rec fs ms' bm buf =
      match run (entries2 ms') buf with WOk b => HSt (bm_after2 ms' bm) b | WErr c => HFail c end.
    Proof.
      induction ms' as [|[k j] r IH]; intros bm buf Hnd Hinv; [reflexivity|].
      inversion Hnd as [|? ? Hk Hr]; subst.
      destruct (FieldByKey fs k) as [ft|] eqn:Ef.
      - rewrite (members_step conv_json rec fs k j r bm buf ft Ef).
        cbn [entries2 flat_map bm_after2 fst snd]. rewrite Ef.
        rewrite (Hinv (k, j) ft (or_introl eq_refl) Ef). fold (ann ft). fold (skipped ft).
        destruct (skipped ft) eqn:Es.
        + simpl. apply IH; [exact Hr|]. intros m ft' Hm Hf. apply (Hinv m ft' (or_intror Hm) Hf).
        + simpl. destruct (to_wres (f_id ft) (conv_value conv_json rec (f_ty ft) j)); [|reflexivity].
          fold (entries2 r). apply IH; [exact Hr|].
          intros m ft' Hm Hf. unfold bm_set.
          destruct (f_id ft' =? f_id ft) eqn:Ei; [|apply (Hinv m ft' (or_intror Hm) Hf)].
          exfalso. apply Z.eqb_eq in Ei.
          pose proof (FieldByKey_some fs _ _ Ef) as [Hin1 Hn1]. pose proof (FieldByKey_some fs _ _ Hf) as [Hin2 Hn2].
          assert (ft' = ft) by (apply same_id; assumption). subst ft'.
          apply Hk. simpl in Hn1. rewrite <- Hn1, Hn2. apply in_map. exact Hm.
      - simpl. rewrite Ef. simpl. apply IH; [exact Hr|].
        intros m ft' Hm Hf. apply (Hinv m ft' (or_intror Hm) Hf).
    Qed.

    Lemma bm_after2_notin : forall ms' bm i,
      (forall m ft, In m ms' -> FieldByKey fs (fst m) = Some ft -> skipped ft = false -> f_id ft <> i) ->
      bm_after2 ms' bm i = bm i.
    Proof.
      induction ms' as [|m r IH]; intros bm i H; simpl; [reflexivity|].
      destruct (FieldByKey fs (fst m)) as [ft|] eqn:Ef.
      - destruct (skipped ft) eqn:Es.
        + apply IH. intros m' ft' Hm'. apply H. right. exact Hm'.
        + rewrite IH by (intros m' ft' Hm'; apply H; right; exact Hm').
          unfold bm_set. destruct (i =? f_id ft) eqn:Ei; [|reflexivity].
          apply Z.eqb_eq in Ei. exfalso. apply (H m ft (or_introl eq_refl) Ef Es). symmetry; exact Ei.
      - apply IH. intros m' ft' Hm'. apply H. right. exact Hm'.
    Qed.

    Lemma bm_after2_in : forall ms' bm m ft,
      NoDup (map fst ms') -> In m ms' -> FieldByKey fs (fst m) = Some ft -> skipped ft = false ->
      bm_after2 ms' bm (f_id ft) = false.
    Proof.
      induction ms' as [|m0 r IH]; intros bm m ft Hnd Hin Hf Hs; [contradiction|].
      inversion Hnd as [|? ? Hk Hr]; subst. simpl. destruct Hin as [->|Hin].
      - rewrite Hf, Hs. rewrite bm_after2_notin.
        + unfold bm_set. rewrite Z.eqb_refl. reflexivity.
        + intros m' ft' Hm' Hf' _ He.
          pose proof (FieldByKey_some fs _ _ Hf) as [Hin1 Hn1]. pose proof (FieldByKey_some fs _ _ Hf') as [Hin2 Hn2].
          assert (ft' = ft) by (apply same_id; assumption). subst ft'.
          apply Hk. rewrite <- Hn1, Hn2. apply in_map. exact Hm'.
      - destruct (FieldByKey fs (fst m0)) as [ft0|]; [destruct (skipped ft0)|]; eapply IH; eassumption.
    Qed.

    Definition bm2 : bitmap := bm_after2 ms bm1.

    Lemma in_body_member : forall f, In f fs -> in_body ms f = true ->
      exists m, In m ms /\ FieldByKey fs (fst m) = Some f.
    Proof.
      intros f Hin Hb. unfold in_body in Hb. destruct (find_member (f_name f) ms) as [j|] eqn:Em; [|discriminate].
      apply find_member_some_in in Em. destruct Em as (m & Hm & Hk & _).
      exists m. split; [exact Hm|]. rewrite Hk. apply FieldByKey_name; assumption.
    Qed.

    Lemma bm2_char : forall f, In f fs -> bm2 (f_id f) = B3 f.
    Proof.
      intros f Hin. unfold bm2, B3, keep. fold (skipped f).
      destruct (in_body ms f) eqn:Eb; simpl.
      - destruct (in_body_member f Hin Eb) as (m & Hm & Hf).
        destruct (skipped f) eqn:Es; simpl.
        + rewrite bm_after2_notin; [apply bm1_char; exact Hin|].
          intros m' ft' Hm' Hf' Hs' He. pose proof (FieldByKey_some fs _ _ Hf') as [Hin' _].
          assert (ft' = f) by (apply same_id; assumption). subst. congruence.
        + eapply bm_after2_in; eassumption.
      - rewrite bm_after2_notin; [apply bm1_char; exact Hin|].
        intros m' ft' Hm' Hf' _ He. pose proof (FieldByKey_some fs _ _ Hf') as [Hin' Hn'].
        assert (ft' = f) by (apply same_id; assumption). subst ft'.
        unfold in_body in Eb. destruct (find_member (f_name f) ms) eqn:Em; [discriminate|].
        eapply find_member_none; [exact Em | exact Hm' | symmetry; exact Hn'].
    Qed.

    (* ---- what the entries are: the table's field results ---- *)
    Lemma e1_nonfb : forall f, ann f = true -> fb f = false -> e1 f = E f.
    Proof.
      intros f Ha Hf. unfold e1, E. f_equal. apply hhm_step_result.
      - unfold ann in Ha. destruct (f_anns f); [discriminate | discriminate].
      - unfold fb in Hf. intros Hd. rewrite Hd in Hf. discriminate.
    Qed.

    Lemma e1_fb : forall f, fb f = true -> e1 f = (f_id f, FAbsent).
    Proof.
      intros f Hf. unfold e1, hhm_step. unfold fb in Hf.
      destruct (map_field o false f rq); try discriminate. reflexivity.
    Qed.

    Lemma ph1_entries : forall L, (forall f, In f L -> ann f = true) ->
      filter nonabs (map e1 L) = filter nonabs (map E (filter (fun f => negb (fb f)) L)).
    Proof.
      induction L as [|f r IH]; intros H; simpl; [reflexivity|].
      rewrite IH by (intros g Hg; apply H; right; exact Hg).
      destruct (fb f) eqn:Ef; simpl.
      - rewrite (e1_fb f Ef). reflexivity.
      - rewrite (e1_nonfb f (H f (or_introl eq_refl)) Ef). reflexivity.
    Qed.

    Lemma fb_decision : forall f, fb f = true -> map_field o false f rq = DFallbackToBody.
    Proof. intros f H. unfold fb in H. destruct (map_field o false f rq); try discriminate. reflexivity. Qed.

    Lemma FR_member : forall m ft, In m ms -> FieldByKey fs (fst m) = Some ft -> skipped ft = false ->
      FR ft = conv_value conv_json rec (f_ty ft) (snd m).
    Proof.
      intros m ft Hm Hf Hs. pose proof (FieldByKey_some fs _ _ Hf) as [Hin Hn].
      pose proof (find_member_of ms m (f_name ft) keys_nodup Hm (eq_sym Hn)) as Hfm.
      unfold field_result. unfold skipped, B1 in Hs. fold (ann ft).
      destruct (ann ft) eqn:Ea; simpl in Hs.
      - apply negb_false_iff in Hs. rewrite (fb_decision ft Hs). rewrite Hfm. reflexivity.
      - rewrite Hfm. reflexivity.
    Qed.

    Lemma B3_true : forall f, B3 f = true -> in_body ms f = false /\ B1 f = true.
    Proof.
      intros f H. unfold B3 in H. destruct (in_body ms f) eqn:Eb; simpl in H.
      - unfold keep in H. destruct (ann f && negb (B1 f)) eqn:Es; simpl in H; [|discriminate].
        apply andb_true_iff in Es. destruct Es as [_ Es]. apply negb_true_iff in Es. split; [|congruence]. congruence.
      - split; [reflexivity | exact H].
    Qed.

    Lemma FR_unset : forall f, B3 f = true -> FR f = unset_rule o Spec rq conv_text conv_json rec root f.
    Proof.
      intros f H. destruct (B3_true f H) as [Hb H1]. unfold in_body in Hb.
      destruct (find_member (f_name f) ms) as [j|] eqn:Em; [discriminate|].
      unfold field_result. fold (ann f). unfold B1 in H1. destruct (ann f) eqn:Ea.
      - rewrite (fb_decision f H1). rewrite Em. reflexivity.
      - rewrite Em. unfold owed0 in H1. rewrite H1. reflexivity.
    Qed.

    Lemma entries2_char : forall ms', incl ms' ms ->
      entries2 ms' = map E (filter keep (member_fields fs ms')).
    Proof.
      induction ms' as [|m r IH]; intros Hincl; [reflexivity|].
      rewrite member_fields_unfold. cbn [entries2 flat_map]. fold (entries2 r).
      rewrite IH by (intros x Hx; apply Hincl; right; exact Hx). rewrite member_fields_unfold.
      destruct (FieldByKey fs (fst m)) as [ft|] eqn:Ef; [|reflexivity].
      simpl. unfold keep. fold (skipped ft). destruct (skipped ft) eqn:Es; simpl; [reflexivity|].
      f_equal. unfold E. f_equal. symmetry. apply FR_member; [apply Hincl; left; reflexivity | exact Ef | exact Es].
    Qed.

    (* ---- phase 3, portable: HandleRequires with the callback of doRecurse ---- *)
    Definition P3 : list fdesc := filter B3 (sort_by_id fs).

    Lemma marked_fields_char : marked_fields fs bm2 = P3.
    Proof.
      unfold marked_fields, P3. apply filter_ext_in. intros f Hf. apply bm2_char.
      apply (proj1 (sort_by_id_in _ _)). exact Hf.
    Qed.

    Lemma P3_in_fs : forall f, In f P3 -> In f fs /\ B3 f = true.
    Proof. intros f H. unfold P3 in H. apply filter_In in H. destruct H as [H Hb]. split; [apply (proj1 (sort_by_id_in _ _)); exact H | exact Hb]. Qed.

    Lemma wres_loop_run : forall (step : fdesc -> wres) L buf,
      (forall f, In f L -> step f = to_wres (f_id f) (FR f)) ->
      wres_loop step L buf = run (map E L) buf.
    Proof.
      intros step. induction L as [|f r IH]; intros buf H; simpl; [reflexivity|].
      rewrite (H f (or_introl eq_refl)). destruct (to_wres (f_id f) (FR f)); [|reflexivity].
      apply IH. intros g Hg. apply H. right. exact Hg.
    Qed.

    (* ---- the order in which the code visits the fields, and the table's ---- *)
    Definition CO : list fdesc := filter (fun f => negb (fb f)) hfs ++ filter keep (member_fields fs ms) ++ P3.
    Notation PO := (processing_order fs ms).

    Lemma MF_in : forall f, In f (member_fields fs ms) <-> In f fs /\ in_body ms f = true.
    Proof. intros f. apply member_fields_in_iff. exact names_nodup. Qed.

    Lemma PO_in_iff : forall f, In f PO <-> In f fs.
    Proof.
      intros f. split; [apply processing_order_in|]. intros Hin. unfold processing_order. rewrite !in_app_iff.
      destruct (nonempty (f_anns f)) eqn:Ea.
      - left. apply filter_In. split; assumption.
      - destruct (in_body ms f) eqn:Eb.
        + right; left. apply filter_In. split; [apply MF_in; split; assumption | rewrite Ea; reflexivity].
        + right; right. apply sort_by_id_in. apply filter_In. split; [exact Hin | rewrite Ea, Eb; reflexivity].
    Qed.

    Lemma PO_nodup : NoDup PO.
    Proof.
      unfold processing_order. apply NoDup_app_intro.
      - apply NoDup_filter. exact fs_nodup.
      - apply NoDup_app_intro.
        + apply NoDup_filter. apply member_fields_nodup. exact keys_nodup.
        + eapply Permutation_NoDup; [apply Permutation_sym; apply sort_by_id_perm | apply NoDup_filter; exact fs_nodup].
        + intros f H1 H2. apply filter_In in H1. destruct H1 as [H1 _]. apply MF_in in H1. destruct H1 as [_ Hb].
          apply (proj1 (sort_by_id_in _ _)) in H2. apply filter_In in H2. destruct H2 as [_ H2].
          rewrite Hb in H2. rewrite andb_false_r in H2. discriminate.
      - intros f H1 H2. apply filter_In in H1. destruct H1 as [_ Ha]. apply in_app_iff in H2. destruct H2 as [H2|H2].
        + apply filter_In in H2. destruct H2 as [_ H2]. rewrite Ha in H2. discriminate.
        + apply (proj1 (sort_by_id_in _ _)) in H2. apply filter_In in H2. destruct H2 as [_ H2]. rewrite Ha in H2. discriminate.
    Qed.

    Lemma CO_in_fs : forall f, In f CO -> In f fs.
    Proof.
      intros f H. unfold CO in H. rewrite !in_app_iff in H. destruct H as [H|[H|H]].
      - apply filter_In in H. destruct H as [H _]. apply hfs_in in H. apply H.
      - apply filter_In in H. destruct H as [H _]. apply MF_in in H. apply H.
      - apply P3_in_fs in H. apply H.
    Qed.

    Lemma keep_ann : forall f, ann f = true -> keep f = fb f.
    Proof. intros f Ha. unfold keep, B1. rewrite Ha. simpl. rewrite negb_involutive. reflexivity. Qed.

    Lemma CO_nodup : NoDup CO.
    Proof.
      unfold CO. apply NoDup_app_intro.
      - apply NoDup_filter. unfold hfs, HttpMappingFields. apply NoDup_filter. exact fs_nodup.
      - apply NoDup_app_intro.
        + apply NoDup_filter. apply member_fields_nodup. exact keys_nodup.
        + unfold P3. apply NoDup_filter. eapply Permutation_NoDup; [apply Permutation_sym; apply sort_by_id_perm | exact fs_nodup].
        + intros f H1 H2. apply filter_In in H1. destruct H1 as [H1 _]. apply MF_in in H1. destruct H1 as [_ Hb].
          apply P3_in_fs in H2. destruct H2 as [_ H2]. apply B3_true in H2. destruct H2 as [H2 _]. congruence.
      - intros f H1 H2. apply filter_In in H1. destruct H1 as [H1 Hnf]. apply hfs_in in H1. destruct H1 as [_ Ha].
        apply negb_true_iff in Hnf. apply in_app_iff in H2. destruct H2 as [H2|H2].
        + apply filter_In in H2. destruct H2 as [_ H2]. rewrite (keep_ann f Ha) in H2. congruence.
        + apply P3_in_fs in H2. destruct H2 as [_ H2]. apply B3_true in H2. destruct H2 as [_ H2].
          unfold B1 in H2. rewrite Ha in H2. congruence.
    Qed.

    (* a declared field the code never visits has an absent result *)
    Lemma not_visited_absent : forall f, In f fs -> ~ In f CO -> FR f = FAbsent.
    Proof.
      intros f Hin Hn. unfold CO in Hn. rewrite !in_app_iff in Hn.
      destruct (ann f) eqn:Ea.
      - exfalso. destruct (fb f) eqn:Ef.
        + destruct (in_body ms f) eqn:Eb.
          * apply Hn. right; left. apply filter_In. split; [apply MF_in; split; assumption | rewrite (keep_ann f Ea); exact Ef].
          * apply Hn. right; right. unfold P3. apply filter_In. split; [apply sort_by_id_in; exact Hin|].
            unfold B3. rewrite Eb. simpl. unfold B1. rewrite Ea. exact Ef.
        + apply Hn. left. apply filter_In. split; [apply hfs_in; split; assumption | rewrite Ef; reflexivity].
      - assert (Hk : keep f = true) by (unfold keep; rewrite Ea; reflexivity).
        destruct (in_body ms f) eqn:Eb.
        + exfalso. apply Hn. right; left. apply filter_In. split; [apply MF_in; split; assumption | exact Hk].
        + destruct (owed0 f) eqn:Eo.
          * exfalso. apply Hn. right; right. unfold P3. apply filter_In. split; [apply sort_by_id_in; exact Hin|].
            unfold B3. rewrite Eb. simpl. unfold B1. rewrite Ea. exact Eo.
          * unfold field_result. fold (ann f). rewrite Ea. unfold in_body in Eb.
            destruct (find_member (f_name f) ms); [discriminate|]. unfold owed0 in Eo. rewrite Eo. reflexivity.
    Qed.

    Lemma CO_PO_perm : Permutation (filter nonabs (map E CO)) (filter nonabs (map E PO)).
    Proof.
      rewrite !filter_map_comm. apply Permutation_map.
      apply NoDup_Permutation.
      - apply NoDup_filter. exact CO_nodup.
      - apply NoDup_filter. exact PO_nodup.
      - intros f. rewrite !filter_In. split.
        + intros [H Hq]. split; [apply PO_in_iff; apply CO_in_fs; exact H | exact Hq].
        + intros [H Hq]. split; [|exact Hq]. apply PO_in_iff in H.
          destruct (existsb (fun g => f_id g =? f_id f) CO) eqn:Ex.
          * apply existsb_exists in Ex. destruct Ex as (g & Hg & He). apply Z.eqb_eq in He.
            assert (g = f) by (apply same_id; [apply CO_in_fs; exact Hg | exact H | exact He]). subst. exact Hg.
          * exfalso. assert (Hc : ~ In f CO).
            { intros Hc. assert (existsb (fun g => f_id g =? f_id f) CO = true) by (apply existsb_exists; exists f; split; [exact Hc | apply Z.eqb_refl]). congruence. }
            cbv beta in Hq. unfold E, nonabs in Hq. cbn [snd] in Hq. rewrite (not_visited_absent f H Hc) in Hq. discriminate.
    Qed.

    Lemma valid_in : forall f, In f fs -> valid_req f.
    Proof. intros f H. rewrite Forall_forall in reqs_valid. apply reqs_valid. exact H. Qed.

    Lemma coded_entries_perm :
      Permutation (filter nonabs (map e1 hfs ++ entries2 ms ++ map E P3)) (filter nonabs (map E PO)).
    Proof.
      rewrite !filter_app.
      rewrite (ph1_entries hfs) by (intros f Hf; apply hfs_in in Hf; apply Hf).
      rewrite (entries2_char ms (incl_refl ms)).
      rewrite <- !filter_app, <- !map_app. exact CO_PO_perm.
    Qed.

    (* ---- portable driver ---- *)
    Lemma portable_run : forall n,
      portable_struct o rq conv_text conv_json rec rec (S n) root fs ms = run (map e1 hfs ++ entries2 ms ++ map E P3) [].
    Proof.
      intros n. unfold portable_struct. rewrite handleHttpMappings_spec. fold hfs. rewrite ph1. rewrite !run_app.
      destruct (run (map e1 hfs) []) as [b1|c]; [|reflexivity]. fold bm1. rewrite run_app.
      rewrite (ph2 ms bm1 b1 keys_nodup) by (intros m ft Hm Hf; apply bm1_char; apply (FieldByKey_some fs _ _ Hf)).
      destruct (run (entries2 ms) b1) as [b2|c]; [|reflexivity]. fold bm2.
      cbv zeta. unfold HandleRequires. rewrite marked_fields_char. apply wres_loop_run.
      intros f Hf. apply P3_in_fs in Hf. destruct Hf as [Hin Hb]. rewrite (FR_unset f Hb).
      apply portable_unset_spec. apply valid_in. exact Hin.
    Qed.

    Theorem portable_struct_refines_table : forall n,
      same_fields (wres_to_hres (portable_struct o rq conv_text conv_json rec rec (S n) root fs ms))
                  (struct_result o Spec rq conv_text conv_json rec root false fs ms).
    Proof.
      intros n. rewrite portable_run. unfold struct_result. apply run_same_fields. exact coded_entries_perm.
    Qed.

    (* ---- native driver: j2t_write_unset_fields (field cache) + handleUnmatchedFields ---- *)
    Variable docroot top : bool.
    Hypothesis root_def : docroot && top = root.

    Definition cached (f : fdesc) : bool := match write_unset_field o docroot f with UCache => true | UDirect _ => false end.

    Lemma native_unset_FR : forall f, In f fs -> B3 f = true ->
      native_unset o rq conv_text conv_json rec docroot top f = to_wres (f_id f) (FR f).
    Proof.
      intros f Hin Hb. rewrite (FR_unset f Hb). rewrite <- root_def. apply native_unset_spec. apply valid_in. exact Hin.
    Qed.

    Lemma wuf : forall L buf cache, (forall f, In f L -> In f fs /\ B3 f = true) ->
      write_unset_fields o docroot L buf cache =
      match run (map E (filter (fun f => negb (cached f)) L)) buf with
      | WOk b => inl (b, cache ++ map f_id (filter cached L))
      | WErr c => inr c
      end.
    Proof.
      induction L as [|f r IH]; intros buf cache H; simpl; [rewrite app_nil_r; reflexivity|].
      assert (Hr : forall g, In g r -> In g fs /\ B3 g = true) by (intros g Hg; apply H; right; exact Hg).
      destruct (H f (or_introl eq_refl)) as [Hin Hb].
      pose proof (native_unset_FR f Hin Hb) as Hn. unfold native_unset in Hn. unfold cached.
      destruct (write_unset_field o docroot f) as [|w] eqn:Ew; simpl.
      - rewrite (IH buf (cache ++ [f_id f]) Hr). rewrite <- app_assoc. reflexivity.
      - rewrite Hn. destruct (to_wres (f_id f) (FR f)); [apply IH; exact Hr | reflexivity].
    Qed.

    Lemma cache_fields : forall L, (forall f, In f L -> In f fs) ->
      flat_map (fun id => match FieldById fs id with Some f => [f] | None => [] end) (map f_id L) = L.
    Proof.
      induction L as [|f r IH]; intros H; simpl; [reflexivity|].
      rewrite (FieldById_id fs f ids_nodup (H f (or_introl eq_refl))). simpl. f_equal.
      apply IH. intros g Hg. apply H. right. exact Hg.
    Qed.

    Definition P3n : list fdesc := filter (fun f => negb (cached f)) P3 ++ filter cached P3.

    Lemma native_run : forall n,
      fst (native_struct o rq conv_text conv_json rec rec (S n) docroot top fs ms []) =
      run (map e1 hfs ++ entries2 ms ++ map E P3n) [].
    Proof.
      intros n. unfold native_struct.
      assert (H1 : (if nonempty (HttpMappingFields fs)
                    then handleHttpMappings o rq conv_text conv_json rec (S n) false fs (Requires fs) []
                    else HSt (Requires fs) []) = fold_steps o rq conv_text conv_json rec false hfs (Requires fs) []).
      { rewrite handleHttpMappings_spec. fold hfs. destruct hfs; reflexivity. }
      rewrite H1. rewrite ph1. rewrite run_app.
      destruct (run (map e1 hfs) []) as [b1|c]; [|reflexivity]. fold bm1. rewrite run_app.
      rewrite (ph2 ms bm1 b1 keys_nodup) by (intros m ft Hm Hf; apply bm1_char; apply (FieldByKey_some fs _ _ Hf)).
      destruct (run (entries2 ms) b1) as [b2|c]; [|reflexivity]. fold bm2.
      rewrite marked_fields_char. rewrite (wuf P3 b2 [] P3_in_fs).
      unfold P3n. rewrite map_app, run_app.
      destruct (run (map E (filter (fun f => negb (cached f)) P3)) b2) as [b3|c]; [|reflexivity].
      simpl app.
      assert (Hloop : unmatched_loop o rq conv_text conv_json rec top fs (map f_id (filter cached P3)) b3 =
                      run (map E (filter cached P3)) b3).
      { rewrite unmatched_loop_spec. rewrite cache_fields by (intros f Hf; apply filter_In in Hf; apply P3_in_fs; apply Hf).
        apply wres_loop_run. intros f Hf. apply filter_In in Hf. destruct Hf as [Hf Hc]. apply P3_in_fs in Hf. destruct Hf as [Hin Hb].
        rewrite <- (native_unset_FR f Hin Hb). unfold native_unset, cached in *.
        destruct (write_unset_field o docroot f); [reflexivity | discriminate]. }
      destruct (map f_id (filter cached P3)) as [|i r] eqn:Ec.
      - simpl. destruct (filter cached P3); [reflexivity | discriminate].
      - cbn [nonempty]. unfold handleUnmatchedFields. cbn [fst]. exact Hloop.
    Qed.

    Lemma filter_split_perm : forall (A : Type) (p : A -> bool) (l : list A),
      Permutation (filter (fun x => negb (p x)) l ++ filter p l) l.
    Proof.
      intros A p l. induction l as [|x l IH]; simpl; [constructor|].
      destruct (p x); simpl.
      - eapply Permutation_trans; [apply Permutation_sym; apply Permutation_middle | apply perm_skip; exact IH].
      - apply perm_skip. exact IH.
    Qed.

    Lemma filter_perm : forall (A : Type) (p : A -> bool) (l1 l2 : list A), Permutation l1 l2 -> Permutation (filter p l1) (filter p l2).
    Proof.
      intros A p l1 l2 H. induction H; simpl.
      - constructor.
      - destruct (p x); [apply perm_skip|]; exact IHPermutation.
      - destruct (p x), (p y); try apply perm_swap; apply Permutation_refl.
      - eapply Permutation_trans; eassumption.
    Qed.

    Theorem native_struct_refines_table : forall n,
      same_fields (wres_to_hres (fst (native_struct o rq conv_text conv_json rec rec (S n) docroot top fs ms [])))
                  (struct_result o Spec rq conv_text conv_json rec root false fs ms).
    Proof.
      intros n. rewrite native_run. unfold struct_result. apply run_same_fields.
      eapply Permutation_trans; [|exact coded_entries_perm].
      apply filter_perm. apply Permutation_app_head. apply Permutation_app_head. apply Permutation_map.
      unfold P3n. apply filter_split_perm.
    Qed.

    (* every hand-back leaves the field cache empty *)
    Lemma native_struct_cache : forall n,
      snd (native_struct o rq conv_text conv_json rec rec (S n) docroot top fs ms []) = [].
    Proof.
      intros n. unfold native_struct.
      destruct (if nonempty (HttpMappingFields fs) then _ else _); [|reflexivity].
      destruct (members_loop _ _ _ _ _ _); [|reflexivity].
      destruct (write_unset_fields _ _ _ _ _) as [[b c]|c]; [|reflexivity].
      destruct (nonempty c) eqn:En; [reflexivity | destruct c; [reflexivity | discriminate]].
    Qed.
  End Root.
End OneStruct.

(* ------------------------------------------------------------------------------------------------ *)
(* response side: the field loop of one struct = the fold of the table's resp_field                  *)
(* ------------------------------------------------------------------------------------------------ *)
Definition r_err (o : hopts) (p : fdesc * list Z) : bool := match resp_field o (fst p) (snd p) with ROError => true | _ => false end.
Definition r_body (o : hopts) (p : fdesc * list Z) : bool := in_json_body (resp_field o (fst p) (snd p)).
Definition r_deliver (o : hopts) (r : response) (p : fdesc * list Z) : response :=
  match resp_field o (fst p) (snd p) with RODelivered k key v => deliver k key v r | _ => r end.
Definition r_cookie (o : hopts) (p : fdesc * list Z) : kv :=
  match resp_field o (fst p) (snd p) with RODelivered k key v => if k =? K_COOKIE then [(key, v)] else [] | _ => [] end.

(* no field's mappings fail fatally: the member names added are exactly the fields the table puts in the body (in order), the response
   object receives exactly the table's deliveries (each field at most one, to its first succeeding target, in order); otherwise error *)
Theorem t2j_fields_loop_refines_table : forall o l names r,
  t2j_fields_loop o l names r =
  if existsb (r_err o) l then TSErr
  else TS (names ++ map (fun p => f_name (fst p)) (filter (r_body o) l)) (fold_left (r_deliver o) l r).
Proof.
  intros o l. induction l as [|[f text] rest IH]; intros names r; simpl.
  - rewrite app_nil_r. reflexivity.
  - cbn [existsb filter fold_left].
    change (r_err o (f, text)) with (match resp_field o f text with ROError => true | _ => false end).
    change (r_body o (f, text)) with (in_json_body (resp_field o f text)).
    change (r_deliver o r (f, text)) with (match resp_field o f text with RODelivered k key v => deliver k key v r | _ => r end).
    rewrite t2j_field_spec.
    destruct (resp_field o f text); cbn [in_json_body orb map fst]; rewrite ?IH; try reflexivity.
    destruct (existsb (r_err o) rest); [reflexivity|]. rewrite <- app_assoc. reflexivity.
Qed.

(* a field is never both in the body and delivered; it is neither exactly when the table says "dropped" (all mappings failed, errors
   omitted, no WriteHttpValueFallback) or "swallowed" (api.raw_uri: Response succeeds without a target) *)
Lemma resp_field_exclusive : forall o f text,
  match resp_field o f text with
  | RODelivered _ _ _ => in_json_body (resp_field o f text) = false
  | ROBody => forall k key v, resp_field o f text <> RODelivered k key v
  | _ => True
  end.
Proof. intros o f text. destruct (resp_field o f text) eqn:E; try exact I; [reflexivity | intros; discriminate]. Qed.

(* cookie setter semantics over the whole loop: the Set-Cookie lines are the initial ones followed by one line per cookie delivery *)
Lemma fold_deliver_cookies : forall o l r,
  rs_cookies (fold_left (r_deliver o) l r) = rs_cookies r ++ flat_map (r_cookie o) l.
Proof.
  intros o l. induction l as [|p rest IH]; intros r; simpl; [rewrite app_nil_r; reflexivity|].
  rewrite IH.
  change (r_deliver o r p) with (match resp_field o (fst p) (snd p) with RODelivered k key v => deliver k key v r | _ => r end).
  change (r_cookie o p) with (match resp_field o (fst p) (snd p) with RODelivered k key v => if k =? K_COOKIE then [(key, v)] else [] | _ => [] end).
  destruct (resp_field o (fst p) (snd p)); cbn [app]; try reflexivity.
  rewrite deliver_cookies. destruct (kind =? K_COOKIE); [rewrite <- app_assoc; reflexivity | reflexivity].
Qed.
