From Coq Require Import ZArith List Bool Lia.
From DG Require Import ProtoWireRef ProtoWireRefProofs ThriftWire ThriftWireProofs ThriftEnvelope.
Import ListNotations.
Local Open Scope Z_scope.

Lemma dec_int_enc4 z : - 2 ^ 31 <= z < 2 ^ 31 -> dec_int (enc_int 4 z) = z.
Proof. intros H. apply dec_int_enc_int; [lia|]. change (8 * Z.of_nat 4 - 1) with 31. exact H. Qed.

Lemma dec_int_enc2 z : - 2 ^ 15 <= z < 2 ^ 15 -> dec_int (enc_int 2 z) = z.
Proof. intros H. apply dec_int_enc_int; [lia|]. change (8 * Z.of_nat 2 - 1) with 15. exact H. Qed.

(* the version word: 0x80010000 + ty as a signed int32 is negative, its low byte is ty, its masked high half is VERSION_1 *)
Lemma version_word ty : 0 <= ty < 256 ->
  let size := dec_int (enc_int 4 (VERSION_1 + ty)) in
  size = VERSION_1 + ty - 2 ^ 32 /\ (size >? 0) = false /\ Z.land size 255 = ty /\
  Z.land (size mod 2 ^ 64) VERSION_MASK = VERSION_1.
Proof.
  intros Hty. cbv zeta.
  assert (E : dec_int (enc_int 4 (VERSION_1 + ty)) = VERSION_1 + ty - 2 ^ 32).
  { unfold dec_int. rewrite dec_uint_enc_int, enc_int_length. unfold to_s, VERSION_1.
    change (256 ^ Z.of_nat 4) with 4294967296. change (8 * Z.of_nat 4) with 32.
    change (2 ^ 32) with 4294967296. change (2 ^ (32 - 1)) with 2147483648.
    rewrite (Z.mod_small (2147549184 + ty)) by lia.
    Z.div_mod_to_equations. lia. }
  rewrite E. split; [reflexivity|]. unfold VERSION_1, VERSION_MASK in *. change (2 ^ 32) with 4294967296.
  split; [destruct (Z.gtb_spec (2147549184 + ty - 4294967296) 0); [lia|reflexivity]|].
  split.
  - change 255 with (Z.ones 8). rewrite Z.land_ones by lia. change (2 ^ 8) with 256.
    Z.div_mod_to_equations. lia.
  - assert (Em : (2147549184 + ty - 4294967296) mod 2 ^ 64 = 18446744071562133504 + ty).
    { change (2 ^ 64) with 18446744073709551616. Z.div_mod_to_equations. lia. }
    rewrite Em.
    (* bits: 0xffffffff80010000 + ty, masked with 0xffff0000 *)
    replace (18446744071562133504 + ty) with (ty + 281474976677889 * 2 ^ 16) by (change (2 ^ 16) with 65536; lia).
    change 4294901760 with (65535 * 2 ^ 16).
    rewrite <- !Z.shiftl_mul_pow2 by lia.
    apply Z.bits_inj'. intros i Hi. rewrite Z.land_spec.
    destruct (Z.lt_ge_cases i 16) as [Hlt|Hge].
    + rewrite (Z.shiftl_spec_low 65535) by lia. rewrite andb_false_r.
      change 2147549184 with (Z.shiftl 32769 16). rewrite Z.shiftl_spec_low by lia. reflexivity.
    + rewrite (Z.shiftl_spec 65535) by lia.
      change 2147549184 with (Z.shiftl 32769 16). rewrite (Z.shiftl_spec 32769) by lia.
      replace (ty + Z.shiftl 281474976677889 16) with (ty + 281474976677889 * 2 ^ 16) by (rewrite Z.shiftl_mul_pow2 by lia; reflexivity).
      replace i with ((i - 16) + 16) at 1 by lia.
      rewrite <- Z.div_pow2_bits by lia.
      rewrite Z.div_add by (change (2^16) with 65536; lia).
      rewrite (Z.div_small ty) by (change (2^16) with 65536; lia). rewrite Z.add_0_l.
      (* 281474976677889 = 0xFFFFFFFF8001 ; & 0xFFFF = 0x8001 *)
      rewrite <- Z.land_spec.
      change 65535 with (Z.ones 16). rewrite Z.land_ones by lia. reflexivity.
Qed.

Theorem unwrap_wrap body name ty id seq :
  0 <= ty < 256 -> zlen name < 2 ^ 31 -> - 2 ^ 31 <= seq < 2 ^ 31 -> - 2 ^ 15 <= id < 2 ^ 15 ->
  unwrap (wrap body name ty id seq) = Some (name, ty, seq, id, body).
Proof.
  intros Hty Hn Hseq Hid. unfold wrap, env_header, env_footer, unwrap.
  rewrite <- !app_assoc. rewrite take_enc_int.
  destruct (version_word ty Hty) as (Esz & Egt & Ety & Ever). cbv zeta in *.
  rewrite Egt, Ety, Ever. rewrite Z.eqb_refl. cbn [negb].
  rewrite take_enc_int.
  assert (0 <= zlen name) by (unfold zlen; lia).
  rewrite dec_int_enc4 by lia.
  destruct (Z.ltb_spec (zlen name) 0); [lia|].
  destruct (Z.gtb_spec (zlen name) (zlen (name ++ enc_int 4 seq ++ [T_STRUCT] ++ enc_int 2 id ++ body ++ [0]))) as [Hg|_];
    [unfold zlen in *; rewrite app_length in *; lia|].
  cbn [orb]. rewrite to_nat_zlen. rewrite take_app by reflexivity.
  rewrite take_enc_int. rewrite dec_int_enc4 by exact Hseq.
  cbn [app]. change (type_valid T_STRUCT) with true. cbn [negb]. change (T_STRUCT =? 0) with false.
  rewrite take_enc_int. rewrite dec_int_enc2 by exact Hid.
  destruct (body ++ [0]) eqn:E; [destruct body; discriminate|].
  rewrite <- E. rewrite removelast_last. reflexivity.
Qed.

Theorem header_body_footer body name ty id seq :
  wrap body name ty id seq = env_header name ty id seq ++ body ++ env_footer.
Proof. reflexivity. Qed.
