From Coq Require Import ZArith List Bool Lia.
From DG Require Import GoSem.
Import ListNotations.
Local Open Scope Z_scope.

Lemma wrapu_small k x : 0 <= x < 2 ^ k -> wrapu k x = x.
Proof. intros H. unfold wrapu. apply Z.mod_small. exact H. Qed.

Lemma wraps_small k x : 0 < k -> - 2 ^ (k - 1) <= x < 2 ^ (k - 1) -> wraps k x = x.
Proof.
  intros Hk H. unfold wraps.
  assert (E : 2 ^ k = 2 * 2 ^ (k - 1)).
  { replace k with (Z.succ (k - 1)) at 1 by lia. rewrite Z.pow_succ_r by lia. reflexivity. }
  rewrite Z.mod_small; lia.
Qed.

Lemma wrapu_range k x : 0 <= k -> 0 <= wrapu k x < 2 ^ k.
Proof. intros. unfold wrapu. apply Z.mod_pos_bound. apply Z.pow_pos_nonneg; lia. Qed.

Lemma blen_cons x l : blen (x :: l) = blen l + 1.
Proof. unfold blen. cbn [length]. lia. Qed.

Lemma blen_app a b : blen (a ++ b) = blen a + blen b.
Proof. unfold blen. rewrite app_length. lia. Qed.

Lemma blen_nonneg l : 0 <= blen l.
Proof. unfold blen. lia. Qed.

Lemma idx_app_r pre x r : idx (pre ++ x :: r) (blen pre) = x.
Proof.
  unfold idx, blen. rewrite Nat2Z.id. rewrite app_nth2 by lia.
  replace (length pre - length pre)%nat with 0%nat by lia. reflexivity.
Qed.

Lemma slice_from_app pre r : slice_from (pre ++ r) (blen pre) = r.
Proof.
  unfold slice_from, blen. rewrite Nat2Z.id. rewrite skipn_app.
  rewrite skipn_all. replace (length pre - length pre)%nat with 0%nat by lia. reflexivity.
Qed.

Lemma slice_from_0 b : slice_from b 0 = b.
Proof. reflexivity. Qed.

Lemma slice_to_app a r : slice_to (a ++ r) (blen a) = a.
Proof.
  unfold slice_to, blen. rewrite Nat2Z.id. rewrite firstn_app.
  replace (length a - length a)%nat with 0%nat by lia. rewrite firstn_all. cbn. apply app_nil_r.
Qed.

(* x xor (2^n - 1) = 2^n - 1 - x on n-bit values *)
Lemma lxor_ones_sub n x : 0 <= n -> 0 <= x < 2 ^ n -> Z.lxor x (Z.ones n) = Z.ones n - x.
Proof.
  intros Hn Hx.
  assert (Hland : Z.land x (Z.lxor x (Z.ones n)) = 0).
  { apply Z.bits_inj'. intros i Hi. rewrite Z.land_spec, Z.lxor_spec, Z.bits_0.
    destruct (Z.lt_ge_cases i n) as [Hlt|Hge].
    - rewrite Z.ones_spec_low by lia. destruct (Z.testbit x i); reflexivity.
    - assert (Z.testbit x i = false) as ->; [|reflexivity].
      destruct (Z.eq_dec x 0) as [->|Hne]; [apply Z.bits_0|].
      apply Z.bits_above_log2; [lia|].
      apply Z.lt_le_trans with n; [|exact Hge]. apply Z.log2_lt_pow2; lia. }
  pose proof (Z.add_nocarry_lxor _ _ Hland) as Hadd.
  assert (Z.lxor x (Z.lxor x (Z.ones n)) = Z.ones n) as E.
  { rewrite <- Z.lxor_assoc. rewrite Z.lxor_nilpotent. apply Z.lxor_0_l. }
  lia.
Qed.

(* y | 128 = y + 128 for y < 128 *)
Lemma lor_128_small y : 0 <= y < 128 -> Z.lor y 128 = y + 128.
Proof.
  intros H. rewrite Z.add_comm. symmetry.
  rewrite Z.add_nocarry_lxor.
  - rewrite Z.lxor_lor; [apply Z.lor_comm|].
    rewrite Z.land_comm. change 128 with (2 ^ 7).
    apply Z.bits_inj'. intros i Hi. rewrite Z.land_spec, Z.bits_0.
    destruct (Z.eq_dec i 7) as [->|Hne].
    + assert (Z.testbit y 7 = false) as ->; [|reflexivity].
      destruct (Z.eq_dec y 0) as [->|Hy]; [apply Z.bits_0|].
      apply Z.bits_above_log2; [lia|]. apply Z.log2_lt_pow2; [lia|]. change (2^7) with 128. lia.
    + rewrite Z.pow2_bits_false by lia. apply andb_false_r.
  - change 128 with (2 ^ 7).
    apply Z.bits_inj'. intros i Hi. rewrite Z.land_spec, Z.bits_0.
    destruct (Z.eq_dec i 7) as [->|Hne].
    + assert (Z.testbit y 7 = false) as ->; [|apply andb_false_r].
      destruct (Z.eq_dec y 0) as [->|Hy]; [apply Z.bits_0|].
      apply Z.bits_above_log2; [lia|]. apply Z.log2_lt_pow2; [lia|]. change (2^7) with 128. lia.
    + rewrite Z.pow2_bits_false by lia. reflexivity.
Qed.

Lemma testbit_small_high a s i : 0 <= a < 2 ^ s -> s <= i -> Z.testbit a i = false.
Proof.
  intros Ha Hi. destruct (Z.eq_dec a 0) as [->|Hne]; [apply Z.bits_0|].
  apply Z.bits_above_log2; [lia|].
  apply Z.lt_le_trans with s; [|exact Hi]. apply Z.log2_lt_pow2; lia.
Qed.

(* a | (b << s) = a + b * 2^s when a < 2^s *)
Lemma lor_shiftl_add a b s : 0 <= s -> 0 <= a < 2 ^ s -> 0 <= b ->
  Z.lor a (Z.shiftl b s) = a + b * 2 ^ s.
Proof.
  intros Hs Ha Hb.
  assert (Hland : Z.land a (Z.shiftl b s) = 0).
  { apply Z.bits_inj'. intros i Hi. rewrite Z.land_spec, Z.bits_0.
    destruct (Z.lt_ge_cases i s).
    - rewrite Z.shiftl_spec_low by lia. apply andb_false_r.
    - rewrite (testbit_small_high a s i) by lia. reflexivity. }
  rewrite <- Z.lxor_lor by exact Hland.
  rewrite <- Z.add_nocarry_lxor by exact Hland.
  rewrite Z.shiftl_mul_pow2 by lia. reflexivity.
Qed.

Lemma wraps_wrapu k x : 0 < k -> wraps k (wrapu k x) = wraps k x.
Proof.
  intros Hk. unfold wraps, wrapu.
  assert (0 < 2 ^ k) by (apply Z.pow_pos_nonneg; lia).
  rewrite Zplus_mod_idemp_l. reflexivity.
Qed.

Lemma wrapu_wraps k x : 0 < k -> wrapu k (wraps k x) = wrapu k x.
Proof.
  intros Hk. unfold wraps, wrapu.
  assert (0 < 2 ^ k) by (apply Z.pow_pos_nonneg; lia).
  rewrite Zminus_mod_idemp_l. f_equal. lia.
Qed.

Lemma wraps_range k x : 0 < k -> - 2 ^ (k - 1) <= wraps k x < 2 ^ (k - 1).
Proof.
  intros Hk. unfold wraps.
  assert (E : 2 ^ k = 2 * 2 ^ (k - 1)).
  { replace k with (Z.succ (k - 1)) at 1 by lia. rewrite Z.pow_succ_r by lia. reflexivity. }
  assert (0 < 2 ^ (k - 1)) by (apply Z.pow_pos_nonneg; lia).
  pose proof (Z.mod_pos_bound (x + 2 ^ (k - 1)) (2 ^ k)). lia.
Qed.
