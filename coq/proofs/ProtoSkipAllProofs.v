(* Theorems about model/ProtoSkipAll.v (SkipAllElements / SkipAllElementsOf):
     skip_all_packed_exact       on the canonical encoding of a packed list (any tail after it) the answer is the number of
                                 elements and exactly the bytes of tag + length + payload;
     skip_all_fixed_misaligned   a packed fixed32 / fixed64 payload whose length is not a multiple of the element width is
                                 an error, whatever the bytes. *)
From Coq Require Import ZArith List Bool Lia Arith.
From DG Require Import CaseFormat ProtoWireRef ProtoWireRefProofs ProtoMsg ProtoMsgProofs ProtoAny ProtoAnyProofs ProtoSkipAll.
Import ListNotations.
Local Open Scope Z_scope.

Lemma value_len_enc w r : wf_wval w = true ->
  value_len (wt_of_wval w) (wenc_val w ++ r) = Some (plen (wenc_val w)).
Proof.
  intros Hw. destruct w as [v|v|v|bs]; cbn [wf_wval wt_of_wval wenc_val] in *; unfold value_len; cbn [Z.eqb Pos.eqb].
  - apply andb_true_iff in Hw as [H1 H2]. apply Z.leb_le in H1. apply Z.ltb_lt in H2.
    rewrite varint_dec_enc' by lia.
    destruct (Z.ltb_spec (plen (varint_enc v)) 0) as [Hl|_]; [pose proof (plen_nonneg (varint_enc v)); lia|reflexivity].
  - rewrite plen_app, le_enc_plen. pose proof (plen_nonneg r). destruct (Z.leb_spec 8 (Z.of_nat 8 + plen r)); [reflexivity|lia].
  - rewrite plen_app, le_enc_plen. pose proof (plen_nonneg r). destruct (Z.leb_spec 4 (Z.of_nat 4 + plen r)); [reflexivity|lia].
  - apply Z.ltb_lt in Hw. pose proof (plen_nonneg bs). rewrite <- app_assoc. rewrite varint_dec_enc' by lia.
    destruct (Z.ltb_spec (plen (varint_enc (plen bs))) 0) as [Hl|_]; [pose proof (plen_nonneg (varint_enc (plen bs))); lia|].
    rewrite !plen_app. pose proof (plen_nonneg r).
    destruct (Z.leb_spec (plen bs) (plen (varint_enc (plen bs)) + (plen bs + plen r) - plen (varint_enc (plen bs)))); [reflexivity|lia].
Qed.

Lemma skip_packed_elems k xs : is_numeric k = true -> Forall (fun x => scalar_okb k x = true) xs ->
  forall fuel rest, (length xs <= fuel)%nat ->
  skip_packed fuel (wt_of_kind k) (plen (flat_map (fun x => wenc_val (scalar_to_wire k x)) xs))
              (flat_map (fun x => wenc_val (scalar_to_wire k x)) xs ++ rest) = Some (Z.of_nat (length xs)).
Proof.
  intros Hn. induction 1 as [|x xs Hx _ IH]; intros fuel rest Hf.
  - cbn [flat_map length]. destruct fuel; reflexivity.
  - cbn [flat_map]. destruct fuel as [|fuel]; [cbn in Hf; lia|].
    destruct (scalar_rt k x Hn Hx) as [_ [Hwf Hwt]].
    destruct (wenc_val_cons (scalar_to_wire k x)) as [b0 [t0 E0]].
    set (X := wenc_val (scalar_to_wire k x)) in *. set (P := flat_map (fun x => wenc_val (scalar_to_wire k x)) xs) in *.
    assert (Hpos : 0 < plen X) by (rewrite E0; unfold plen; cbn [length]; lia).
    pose proof (plen_nonneg P) as HP.
    cbn [skip_packed]. rewrite plen_app.
    destruct (Z.eqb_spec (plen X + plen P) 0); [lia|]. destruct (Z.ltb_spec (plen X + plen P) 0); [lia|].
    rewrite <- app_assoc. rewrite <- Hwt. unfold X at 1. rewrite value_len_enc by exact Hwf. fold X.
    destruct (Z.leb_spec (plen X) 0); [lia|].
    replace (plen X + plen P - plen X) with (plen P) by lia.
    replace (Z.to_nat (plen X)) with (length X) by (unfold plen; rewrite Nat2Z.id; reflexivity).
    rewrite skipn_app_len, Hwt.
    rewrite IH by (cbn in Hf; lia). cbn [length]. f_equal. lia.
Qed.

(* on the canonical encoding of a packed list: the count and exactly the bytes of the field *)
Theorem skip_all_packed_exact n k xs rest :
  1 <= n <= MAX_FIELD_NUMBER -> is_numeric k = true -> Forall (fun x => scalar_okb k x = true) xs ->
  plen (flat_map (fun x => wenc_val (scalar_to_wire k x)) xs) < 2 ^ 63 ->
  let field := wenc [(n, WBytes (flat_map (fun x => wenc_val (scalar_to_wire k x)) xs))] in
  skip_all_elements n true (wt_of_kind k) (field ++ rest) = Some (Z.of_nat (length xs), plen field).
Proof.
  intros Hn Hk Hall Hlen field. subst field.
  set (P := flat_map (fun x => wenc_val (scalar_to_wire k x)) xs) in *.
  pose proof (plen_nonneg P) as HP.
  unfold wenc. cbn [flat_map]. rewrite app_nil_r. unfold wenc_field. cbn [fst snd wt_of_wval wenc_val].
  rewrite <- !app_assoc. unfold skip_all_elements.
  rewrite consume_tag_enc by lia.
  rewrite rd_varint_enc by (change (2 ^ 64) with 18446744073709551616; change (2 ^ 63) with 9223372036854775808 in Hlen; lia).
  replace (to_s 64 (plen P)) with (plen P).
  2:{ unfold to_s. change (2 ^ (64 - 1)) with 9223372036854775808. change (2 ^ 64) with 18446744073709551616.
      change (2 ^ 63) with 9223372036854775808 in Hlen. Z.div_mod_to_equations. lia. }
  rewrite plen_app. pose proof (plen_nonneg rest).
  destruct (Z.ltb_spec (plen P) 0); [lia|]. destruct (Z.gtb_spec (plen P) (plen P + plen rest)); [lia|]. cbn [orb].
  assert (Hc : (length xs <= length P)%nat).
  { unfold P. apply flat_map_length_ge. intros x. apply scalar_enc_cons. }
  rewrite (skip_packed_elems k xs Hk Hall) by (rewrite app_length; lia).
  f_equal. f_equal. rewrite !plen_app. lia.
Qed.

(* a payload of fixed-width elements whose length is not a multiple of the width is an error *)
Lemma skip_packed_misaligned ewt w : (ewt = 5 /\ w = 4) \/ (ewt = 1 /\ w = 8) ->
  forall fuel left bs, left mod w <> 0 -> skip_packed fuel ewt left bs = None.
Proof.
  intros Hw. induction fuel as [|f IH]; intros left bs Hm.
  - cbn [skip_packed]. destruct (Z.eqb_spec left 0); [subst; destruct Hw as [[_ ->]|[_ ->]]; cbn in Hm; contradiction|].
    destruct (left <? 0); reflexivity.
  - cbn [skip_packed]. destruct (Z.eqb_spec left 0); [subst; destruct Hw as [[_ ->]|[_ ->]]; cbn in Hm; contradiction|].
    destruct (left <? 0); [reflexivity|].
    destruct Hw as [[-> ->]|[-> ->]]; unfold value_len; cbn [Z.eqb Pos.eqb].
    + destruct (4 <=? plen bs); [|reflexivity]. cbn [Z.leb Z.compare Pos.compare Pos.compare_cont].
      rewrite IH; [reflexivity|]. intros E. apply Hm. Z.div_mod_to_equations. lia.
    + destruct (8 <=? plen bs); [|reflexivity]. cbn [Z.leb Z.compare Pos.compare Pos.compare_cont].
      rewrite IH; [reflexivity|]. intros E. apply Hm. Z.div_mod_to_equations. lia.
Qed.

Theorem skip_all_fixed_misaligned n ewt w l payload rest :
  (ewt = 5 /\ w = 4) \/ (ewt = 1 /\ w = 8) -> 1 <= n <= MAX_FIELD_NUMBER -> 0 <= l < 2 ^ 63 -> l mod w <> 0 ->
  skip_all_elements n true ewt (varint_enc (n * 8 + 2) ++ varint_enc l ++ payload ++ rest) = None.
Proof.
  intros Hw Hn Hl Hm. unfold skip_all_elements.
  rewrite consume_tag_enc by lia.
  rewrite rd_varint_enc by (change (2 ^ 64) with 18446744073709551616; change (2 ^ 63) with 9223372036854775808 in Hl; lia).
  replace (to_s 64 l) with l.
  2:{ unfold to_s. change (2 ^ (64 - 1)) with 9223372036854775808. change (2 ^ 64) with 18446744073709551616.
      change (2 ^ 63) with 9223372036854775808 in Hl. Z.div_mod_to_equations. lia. }
  destruct ((l <? 0) || (l >? plen (payload ++ rest))); [reflexivity|].
  rewrite (skip_packed_misaligned ewt w Hw) by exact Hm. reflexivity.
Qed.
