(* The two shortcuts of the specification Num.fp_rounds_to (a decimal far below half the least subnormal rounds to zero, a decimal far
   above the largest finite value rounds to infinity) are consequences of its midpoint rule: the specification equals the
   shortcut-free one, [fp_rounds_to_pure], which only compares the decimal with the midpoints to the neighbouring patterns. *)
From Coq Require Import ZArith List Bool Lia.
From DG Require Import Json Num FpExact FpRound.
Import ListNotations.
Local Open Scope Z_scope.

Section Pure.
  Variables p emin : Z.
  Hypothesis Hp : 2 <= p.
  Hypothesis Hemin : emin <= 0.
  Hypothesis Hrange : 1 <= 2 - emin - p.

  Definition fp_rounds_to_pure (m e b : Z) : bool :=
    if (b <? 0) || (inf_bits p emin <? b) then false else
    if m <=? 0 then b =? 0 else rt_core p emin m e b.

  Lemma pow10_ge n : 0 <= n -> 2 ^ (3 * n) <= 10 ^ n.
  Proof. intros Hn. rewrite Z.pow_mul_r by lia. change (2 ^ 3) with 8. apply Z.pow_le_mono_l. lia. Qed.

  Lemma inf_pos : 0 < inf_bits p emin.
  Proof. unfold inf_bits. pose proof (P_pos p Hp). nia. Qed.

  (* far below the least midpoint: zero satisfies the midpoint rule *)
  Lemma tiny_core m e : 0 < m -> e + Z.log2 m / 3 + 1 < (emin - p) / 3 - 8 -> rt_core p emin m e 0 = true.
  Proof.
    intros Hm Ht. unfold rt_core. rewrite Z.eqb_refl. cbn [andb]. pose proof inf_pos as Hi.
    destruct (Z.eqb_spec 0 (inf_bits p emin)) as [|_]; [lia|].
    rewrite (cmpmid_Sb p emin Hp Hemin m e 0 ltac:(lia)).
    pose proof (Z.log2_nonneg m) as Hl. set (l := Z.log2 m) in *.
    assert (He : e < 0) by (assert (0 <= l / 3) by (apply Z.div_pos; lia); assert ((emin - p) / 3 < 0) by (apply Z.div_lt_upper_bound; lia); lia).
    assert (HS : Sb p emin 0 = 1).
    { unfold Sb. rewrite (Wb_succ p emin Hp 0) by lia. unfold Wb, Gb, fp_mant, fp_expo.
      pose proof (P_pos p Hp). rewrite Z.div_0_l, Z.mod_0_l by lia. cbn [Z.eqb]. rewrite Z.sub_diag. reflexivity. }
    rewrite HS, Z.mul_1_l. unfold X, decN, decD. destruct (Z.leb_spec 0 e); [lia|].
    assert (Hlt : m * 2 ^ (1 - emin) < 10 ^ (- e)).
    { destruct (Z.log2_spec m Hm) as [_ Hu]. fold l in Hu.
      apply Z.lt_le_trans with (2 ^ Z.succ l * 2 ^ (1 - emin)); [pose proof (pow2_pos (1 - emin) ltac:(lia)); nia|].
      rewrite <- Z.pow_add_r by lia.
      apply Z.le_trans with (2 ^ (3 * (- e))); [|apply pow10_ge; lia].
      apply Z.pow_le_mono_r; [lia|].
      assert (3 * (l / 3) >= l - 2) by (Z.div_mod_to_equations; lia).
      assert (3 * ((emin - p) / 3) <= emin - p) by (Z.div_mod_to_equations; lia). lia. }
    destruct (Z.compare_spec (m * 2 ^ (1 - emin)) (10 ^ (- e))); try lia; reflexivity.
  Qed.

  (* far above the last midpoint: the infinity pattern satisfies the midpoint rule *)
  Lemma huge_core m e : 0 < m -> (2 - emin) / 3 + 8 < e -> rt_core p emin m e (inf_bits p emin) = true.
  Proof.
    intros Hm Hh. unfold rt_core. rewrite Z.eqb_refl, andb_true_r. pose proof inf_pos as Hi. pose proof (P_pos p Hp) as HP.
    destruct (Z.eqb_spec (inf_bits p emin) 0) as [|_]; [lia|].
    rewrite (cmpmid_Sb p emin Hp Hemin m e (inf_bits p emin - 1) ltac:(lia)).
    set (kI := emin + 2 * (2 - emin - p)).
    assert (Hc : canon p emin kI (2 ^ (p - 1))) by (right; unfold kI; lia).
    destruct (mant_expo p emin Hp kI _ Hc) as [Hma Hex]. unfold kI in Hma, Hex. rewrite <- (inf_as_bits p emin) in Hma, Hex. fold kI in Hex.
    assert (HWi : Wb p emin (inf_bits p emin) = 2 ^ (p - 1) * 2 ^ (kI - emin)) by (unfold Wb; rewrite Hma, Hex; reflexivity).
    assert (HS : Sb p emin (inf_bits p emin - 1) < 2 * (2 ^ (p - 1) * 2 ^ (kI - emin))).
    { unfold Sb. replace (inf_bits p emin - 1 + 1) with (inf_bits p emin) by lia.
      pose proof (Wb_succ p emin Hp (inf_bits p emin - 1) ltac:(lia)) as Hs. replace (inf_bits p emin - 1 + 1) with (inf_bits p emin) in Hs by lia.
      pose proof (Gb_pos p emin Hp (inf_bits p emin - 1) ltac:(lia)). lia. }
    assert (He : 0 <= e) by (assert (0 <= (2 - emin) / 3) by (apply Z.div_pos; lia); lia).
    unfold X, decN, decD. destruct (Z.leb_spec 0 e); [|lia]. rewrite Z.mul_1_r.
    assert (Hge : 2 * (2 ^ (p - 1) * 2 ^ (kI - emin)) <= m * 10 ^ e * 2 ^ (1 - emin)).
    { apply Z.le_trans with (2 ^ (3 * e) * 2 ^ (1 - emin)).
      - change 2 with (2 ^ 1) at 1. rewrite <- !Z.pow_add_r by (unfold kI; lia). apply Z.pow_le_mono_r; [lia|].
        assert (3 * ((2 - emin) / 3) >= 2 - emin - 2) by (Z.div_mod_to_equations; lia). unfold kI. lia.
      - apply Z.mul_le_mono_nonneg_r; [pose proof (pow2_pos (1 - emin) ltac:(lia)); lia|].
        apply Z.le_trans with (10 ^ e); [apply pow10_ge; exact He|]. assert (0 < 10 ^ e) by (apply Z.pow_pos_nonneg; lia). nia. }
    destruct (Z.compare_spec (m * 10 ^ e * 2 ^ (1 - emin)) (Sb p emin (inf_bits p emin - 1))); try lia; reflexivity.
  Qed.

  Theorem fp_rounds_to_pure_eq : forall m e b, fp_rounds_to p emin m e b = fp_rounds_to_pure m e b.
  Proof.
    intros m e b. rewrite fp_rounds_to_unfold. unfold fp_rounds_to_pure. pose proof inf_pos as Hi.
    destruct (Z.ltb_spec b 0) as [|Hb0]; [reflexivity|]. destruct (Z.ltb_spec (inf_bits p emin) b) as [|Hbi]; [reflexivity|]. cbn [orb].
    destruct (Z.leb_spec m 0) as [|Hm]; [reflexivity|].
    destruct (Z.ltb_spec (e + Z.log2 m / 3 + 1) ((emin - p) / 3 - 8)) as [Ht|_].
    - pose proof (tiny_core m e Hm Ht) as H0.
      destruct (Z.eqb_spec b 0) as [->|Hne]; [symmetry; exact H0|].
      destruct (rt_core p emin m e b) eqn:E; [|reflexivity].
      exfalso. exact (rt_core_unique p emin Hp Hemin m e 0 b ltac:(lia) ltac:(lia) Hbi H0 E).
    - destruct (Z.ltb_spec ((2 - emin) / 3 + 8) e) as [Hh|_]; [|reflexivity].
      pose proof (huge_core m e Hm Hh) as H0.
      destruct (Z.eqb_spec b (inf_bits p emin)) as [->|Hne]; [symmetry; exact H0|].
      destruct (rt_core p emin m e b) eqn:E; [|reflexivity].
      exfalso. exact (rt_core_unique p emin Hp Hemin m e b (inf_bits p emin) Hb0 ltac:(lia) ltac:(lia) E H0).
  Qed.
End Pure.

(* what the specification says, in plain integer arithmetic: with x = N/D the decimal, Wb b the value of pattern b in units of the least
   quantum 2^emin (strictly increasing in b, FpRound.Wb_succ), a pattern is accepted iff x lies between the midpoints to its two
   neighbours, a midpoint itself being accepted only for the even pattern; nothing below pattern 0, nothing above the infinity pattern *)
Theorem fp_rounds_to_arith : forall p emin, 2 <= p -> emin <= 0 -> 1 <= 2 - emin - p -> forall m e b,
  0 < m -> 0 <= b <= inf_bits p emin ->
  fp_rounds_to p emin m e b =
  (if b =? 0 then true
   else match X emin (decN m e) ?= (Wb p emin (b - 1) + Wb p emin b) * decD e with Gt => true | Eq => Z.even b | Lt => false end) &&
  (if b =? inf_bits p emin then true
   else match X emin (decN m e) ?= (Wb p emin b + Wb p emin (b + 1)) * decD e with Lt => true | Eq => Z.even b | Gt => false end).
Proof.
  intros p emin Hp He Hr m e b Hm Hb. rewrite (fp_rounds_to_pure_eq p emin Hp He Hr). unfold fp_rounds_to_pure, rt_core.
  destruct (Z.ltb_spec b 0); [lia|]. destruct (Z.ltb_spec (inf_bits p emin) b); [lia|]. cbn [orb].
  destruct (Z.leb_spec m 0); [lia|].
  rewrite (cmpmid_Sb p emin Hp He m e b) by lia.
  destruct (Z.eqb_spec b 0) as [E|E]; [unfold Sb; reflexivity|].
  rewrite (cmpmid_Sb p emin Hp He m e (b - 1)) by lia. unfold Sb. replace (b - 1 + 1) with b by lia. reflexivity.
Qed.
