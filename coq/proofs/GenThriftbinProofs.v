(* (G) thrift/binary.go: the in-place leaf writers BinaryEncoding.Encode* and the call sequences / header arithmetic of the message,
   field, map, list and set envelopes, translated from the Go source on every build (gen/Gen_thriftbin.v), against the canonical
   encoding of model/ThriftWire.v and the envelope of model/ThriftEnvelope.v. *)
From Coq Require Import ZArith List Bool Lia.
From DG Require Import GoSem GoSemLemmas GenThriftProofs CaseFormat ProtoWireRef ThriftWire ThriftEnvelope Check20g.
From DG Require Gen_thriftbin.
Import ListNotations.
Local Open Scope Z_scope.

(* ---------------------------------------------------------------- big-endian writes *)
Lemma be_put_acc_rev n : forall v acc, be_put_acc n v acc = rev (le_enc n v) ++ acc.
Proof.
  induction n as [|n IH]; intros v acc; [reflexivity|]. cbn [be_put_acc le_enc rev]. rewrite IH, <- app_assoc. reflexivity.
Qed.

Lemma le_enc_mod n : forall v, le_enc n (v mod 256 ^ Z.of_nat n) = le_enc n v.
Proof.
  induction n as [|n IH]; intros v; [reflexivity|]. cbn [le_enc].
  rewrite Nat2Z.inj_succ, Z.pow_succ_r by lia.
  assert (P : 0 < 256 ^ Z.of_nat n) by (apply Z.pow_pos_nonneg; lia).
  rewrite Z.rem_mul_r by lia. f_equal.
  - rewrite (Z.mul_comm 256), Z.mod_add by lia. apply Z.mod_mod. lia.
  - rewrite (Z.mul_comm 256), Z.div_add by lia.
    rewrite (Z.div_small (v mod 256) 256) by (apply Z.mod_pos_bound; lia). rewrite Z.add_0_l. apply IH.
Qed.

Lemma le_enc_length n : forall v, length (le_enc n v) = n.
Proof. induction n as [|n IH]; intros v; [reflexivity|]. cbn [le_enc length]. rewrite IH. reflexivity. Qed.

Lemma be_put_enc_int (n : nat) v : be_put (Z.of_nat n) v = enc_int n v.
Proof. unfold be_put, enc_int. rewrite Nat2Z.id, be_put_acc_rev, app_nil_r, le_enc_mod. reflexivity. Qed.

Lemma enc_int_length n v : length (enc_int n v) = n.
Proof. unfold enc_int. rewrite rev_length. apply le_enc_length. Qed.

Lemma enc_int_mod n v k : k = 256 ^ Z.of_nat n -> enc_int n (v mod k) = enc_int n v.
Proof. intros ->. unfold enc_int. rewrite Z.mod_mod; [reflexivity|]. apply Z.pow_nonzero; lia. Qed.

Lemma enc_int_wrapu4 v : enc_int 4 (wrapu 32 v) = enc_int 4 v. Proof. apply enc_int_mod. reflexivity. Qed.
Lemma enc_int_wrapu2 v : enc_int 2 (wrapu 16 v) = enc_int 2 v. Proof. apply enc_int_mod. reflexivity. Qed.
Lemma enc_int_wrapu8 v : enc_int 8 (wrapu 64 v) = enc_int 8 v. Proof. apply enc_int_mod. reflexivity. Qed.

Lemma enc_int_wraps n k v : 2 ^ k = 256 ^ Z.of_nat n -> 0 < k -> enc_int n (wraps k v) = enc_int n v.
Proof.
  intros Hk Hp. unfold enc_int, wraps. f_equal. f_equal. rewrite <- Hk.
  assert (P : 0 < 2 ^ k) by (apply Z.pow_pos_nonneg; lia).
  assert (E : 2 ^ k = 2 * 2 ^ (k - 1)) by (rewrite <- Z.pow_succ_r by lia; f_equal; lia).
  rewrite Zminus_mod_idemp_l. replace (v + 2 ^ (k - 1) - 2 ^ (k - 1)) with v by lia. reflexivity.
Qed.

(* ---------------------------------------------------------------- the slice helpers against put_prefix *)
Lemma put_be_at_0 b (n : nat) v : (n <= length b)%nat ->
  Gen_thriftbin.put_be_at b 0 (Z.of_nat n) v = put_prefix b (enc_int n v).
Proof.
  intros H. unfold Gen_thriftbin.put_be_at, put_prefix. cbn [Z.to_nat firstn app]. rewrite Z.add_0_l, Nat2Z.id.
  rewrite be_put_enc_int. rewrite firstn_all2 by (rewrite enc_int_length; exact H). rewrite enc_int_length. reflexivity.
Qed.

Lemma blen_ge b (n : nat) : (Z.of_nat n <=? blen b) = true -> (n <= length b)%nat.
Proof. unfold blen. intros H. apply Z.leb_le in H. lia. Qed.
Lemma blen_lt b (n : nat) : (Z.of_nat n <=? blen b) = false -> (length b < n)%nat.
Proof. unfold blen. intros H. apply Z.leb_gt in H. lia. Qed.

Lemma skipn_add {A} (l : list A) : forall n m, skipn n (skipn m l) = skipn (m + n) l.
Proof.
  intros n m. revert l. induction m as [|m IH]; intros l; [reflexivity|].
  destruct l; [rewrite !skipn_nil; reflexivity|]. cbn [skipn Nat.add]. apply IH.
Qed.

Lemma put_prefix_length b bs : length (put_prefix b bs) = length b.
Proof.
  unfold put_prefix. rewrite app_length, firstn_length, skipn_length. lia.
Qed.

(* ---------------------------------------------------------------- Encode* = canonical encoding put over the first bytes *)
Module TB := Gen_thriftbin.

Lemma fixed_encode b (n : nat) v : 
  (if andb (0 <=? 0) (0 + Z.of_nat n <=? blen b) then Some (TB.put_be_at b 0 (Z.of_nat n) v) else None)
  = if Z.of_nat n <=? blen b then Some (put_prefix b (enc_int n v)) else None.
Proof.
  cbn [Z.leb Z.compare andb]. rewrite Z.add_0_l. destruct (Z.of_nat n <=? blen b) eqn:E; [|reflexivity].
  rewrite put_be_at_0 by (apply blen_ge; exact E). reflexivity.
Qed.

Theorem EncodeInt16_is_enc_int b v : TB.BinaryEncoding_EncodeInt16 b v = model_encode 2 b v 0 [].
Proof. unfold TB.BinaryEncoding_EncodeInt16, model_encode. cbn [Z.eqb Pos.eqb orb]. rewrite (fixed_encode b 2), enc_int_wrapu2. reflexivity. Qed.
Theorem EncodeInt32_is_enc_int b v : TB.BinaryEncoding_EncodeInt32 b v = model_encode 3 b v 0 [].
Proof. unfold TB.BinaryEncoding_EncodeInt32, model_encode. cbn [Z.eqb Pos.eqb orb]. rewrite (fixed_encode b 4), enc_int_wrapu4. reflexivity. Qed.
Theorem EncodeInt64_is_enc_int b v : TB.BinaryEncoding_EncodeInt64 b v = model_encode 4 b v 0 [].
Proof. unfold TB.BinaryEncoding_EncodeInt64, model_encode. cbn [Z.eqb Pos.eqb orb]. rewrite (fixed_encode b 8), enc_int_wrapu8. reflexivity. Qed.
Theorem EncodeDouble_is_enc_int b v : TB.BinaryEncoding_EncodeDouble b v = model_encode 5 b v 0 [].
Proof. unfold TB.BinaryEncoding_EncodeDouble, model_encode. cbn [Z.eqb Pos.eqb orb]. rewrite (fixed_encode b 8). reflexivity. Qed.

Lemma upd_at_0 b v : (1 <= length b)%nat -> TB.upd_at b 0 v = put_prefix b [v].
Proof. intros H. destruct b as [|x r]; [cbn in H; lia|]. unfold TB.upd_at, put_prefix. cbn. rewrite firstn_nil. reflexivity. Qed.

Lemma byte_encode b v : (if andb (0 <=? 0) (0 <? blen b) then Some (TB.upd_at b 0 v) else None) = if 1 <=? blen b then Some (put_prefix b [v]) else None.
Proof.
  cbn [Z.leb Z.compare andb]. destruct b as [|x r]; [reflexivity|]. unfold blen. cbn [length].
  replace (0 <? Z.of_nat (S (length r))) with true by (symmetry; apply Z.ltb_lt; lia).
  replace (1 <=? Z.of_nat (S (length r))) with true by (symmetry; apply Z.leb_le; lia). rewrite upd_at_0 by (cbn; lia). reflexivity.
Qed.

Theorem EncodeByte_is_enc_int b v : 0 <= v < 256 -> TB.BinaryEncoding_EncodeByte b v = model_encode 1 b v 0 [].
Proof.
  intros Hv. unfold TB.BinaryEncoding_EncodeByte, model_encode. cbn [Z.eqb Pos.eqb orb]. rewrite byte_encode.
  unfold enc_int. cbn [le_enc rev app Z.of_nat Pos.of_succ_nat]. change (256 ^ 1) with 256. rewrite Z.mod_mod by lia. rewrite Z.mod_small by lia. reflexivity.
Qed.

Theorem EncodeBool_is_byte b v : TB.BinaryEncoding_EncodeBool b v = model_encode 0 b (Z.b2z v) 0 [].
Proof.
  unfold TB.BinaryEncoding_EncodeBool, model_encode. cbn [Z.eqb Pos.eqb orb]. destruct v; rewrite byte_encode; reflexivity.
Qed.

(* strings: 4-byte length, then as much of the string as fits (copy) *)
Lemma string_encode b s : 
  TB.BinaryEncoding_EncodeString b s = if 4 <=? blen b then Some (put_prefix b (enc_int 4 (zlen s) ++ s)) else None.
Proof.
  unfold TB.BinaryEncoding_EncodeString. change 4 with (Z.of_nat 4) at 1 2.
  cbn [Z.leb Z.compare andb]. rewrite Z.add_0_l. change (Z.of_nat 4) with 4.
  destruct (4 <=? blen b) eqn:E; [|reflexivity].
  assert (H4 : (4 <= length b)%nat) by (apply (blen_ge b 4); exact E).
  pose proof (put_be_at_0 b 4 (wrapu 32 (blen s)) H4) as Q. change (Z.of_nat 4) with 4 in Q. rewrite Q. clear Q. rewrite enc_int_wrapu4.
  assert (L : blen (put_prefix b (enc_int 4 (blen s))) = blen b) by (unfold blen; rewrite put_prefix_length; reflexivity).
  rewrite L, E. cbn [Z.leb Z.compare andb]. f_equal.
  unfold TB.copy_at. rewrite L. unfold put_prefix, blen, zlen.
  set (hdr := enc_int 4 (Z.of_nat (length s))).
  assert (Hh : length hdr = 4%nat) by apply enc_int_length.
  rewrite (firstn_all2 hdr) by lia. rewrite Hh.
  change (Z.to_nat 4) with 4%nat.
  replace (Z.to_nat (Z.of_nat (length b) - 4)) with (length b - 4)%nat by lia.
  assert (F1 : firstn 4 (hdr ++ skipn 4 b) = hdr).
  { rewrite firstn_app, Hh, Nat.sub_diag, firstn_O, app_nil_r. apply firstn_all2. lia. }
  assert (F2 : firstn (length b) (hdr ++ s) = hdr ++ firstn (length b - 4) s).
  { rewrite firstn_app, Hh. rewrite (firstn_all2 hdr) by lia. reflexivity. }
  assert (F3 : skipn (4 + Nat.min (length b - 4) (length s)) (hdr ++ skipn 4 b) = skipn (length (hdr ++ s)) b).
  { rewrite app_length, Hh, skipn_app, Hh. rewrite (skipn_all2 hdr) by lia. cbn [app].
    destruct (Nat.le_gt_cases (length s) (length b - 4)) as [Hs|Hs].
    - rewrite Nat.min_r by exact Hs. replace (4 + length s - 4)%nat with (length s) by lia. rewrite skipn_add. f_equal.
    - rewrite Nat.min_l by lia. rewrite skipn_all2 by (rewrite skipn_length; lia). rewrite skipn_all2 by lia. reflexivity. }
  rewrite F1, F2, F3, <- app_assoc. reflexivity.
Qed.

Theorem EncodeString_is_enc b s : TB.BinaryEncoding_EncodeString b s = model_encode 6 b 0 0 s.
Proof. rewrite string_encode. reflexivity. Qed.
Theorem EncodeBinary_is_enc b s : TB.BinaryEncoding_EncodeBinary b s = model_encode 7 b 0 0 s.
Proof. change (TB.BinaryEncoding_EncodeBinary b s) with (TB.BinaryEncoding_EncodeString b s). rewrite string_encode. reflexivity. Qed.

(* a buffer with room holds exactly the canonical encoding followed by its old tail *)
Corollary EncodeInt32_canonical b v : (4 <= length b)%nat -> TB.BinaryEncoding_EncodeInt32 b v = Some (enc_int 4 v ++ skipn 4 b).
Proof.
  intros H. rewrite EncodeInt32_is_enc_int. unfold model_encode. cbn [Z.eqb Pos.eqb orb].
  replace (4 <=? blen b) with true by (symmetry; apply Z.leb_le; unfold blen; lia).
  unfold put_prefix. rewrite firstn_all2 by (rewrite enc_int_length; exact H). rewrite enc_int_length. reflexivity.
Qed.
Corollary EncodeString_canonical b s : (4 + length s <= length b)%nat ->
  TB.BinaryEncoding_EncodeString b s = Some (encode (VString s) ++ skipn (4 + length s) b).
Proof.
  intros H. rewrite EncodeString_is_enc. unfold model_encode. cbn [Z.eqb Pos.eqb orb].
  replace (4 <=? blen b) with true by (symmetry; apply Z.leb_le; unfold blen; lia).
  unfold put_prefix. cbn [encode]. rewrite firstn_all2 by (rewrite app_length, enc_int_length; exact H).
  rewrite app_length, enc_int_length. reflexivity.
Qed.

Theorem EncodeFieldBegin_is_enc b t id : 0 <= t < 256 -> TB.BinaryEncoding_EncodeFieldBegin b t id = model_encode 8 b t id [].
Proof.
  intros Ht. unfold TB.BinaryEncoding_EncodeFieldBegin, model_encode. cbn [Z.eqb Pos.eqb orb].
  assert (E1 : enc_int 1 t = [t]).
  { unfold enc_int. cbn [le_enc rev app Z.of_nat Pos.of_succ_nat]. change (256 ^ 1) with 256. rewrite Z.mod_mod by lia. rewrite Z.mod_small by lia. reflexivity. }
  rewrite E1.
  destruct b as [|x [|y [|z r]]]; try reflexivity.
  unfold blen. cbn [length].
  replace (0 <? Z.of_nat (S (S (S (length r))))) with true by (symmetry; apply Z.ltb_lt; lia).
  replace (3 <=? Z.of_nat (S (S (S (length r))))) with true by (symmetry; apply Z.leb_le; lia).
  cbn [Z.leb Z.compare andb].
  assert (L : Z.of_nat (length (TB.upd_at (x :: y :: z :: r) 0 t)) = Z.of_nat (S (S (S (length r))))) by reflexivity.
  rewrite L. replace (1 + 2 <=? Z.of_nat (S (S (S (length r))))) with true by (symmetry; apply Z.leb_le; lia).
  f_equal. unfold TB.put_be_at, TB.upd_at, put_prefix.
  change 2 with (Z.of_nat 2) at 1. rewrite be_put_enc_int.
  assert (H2 : length (enc_int 2 id) = 2%nat) by apply enc_int_length.
  destruct (enc_int 2 id) as [|a [|c [|? ?]]]; try discriminate. cbn. rewrite firstn_nil. reflexivity.
Qed.

(* ---------------------------------------------------------------- envelope writers: call sequence and header arithmetic *)
Lemma bytes_eqb_true a : forall b, bytes_eqb a b = true -> a = b.
Proof.
  induction a as [|x a IH]; intros [|y b] H; try discriminate; [reflexivity|].
  cbn in H. apply andb_true_iff in H. destruct H as [H1 H2]. apply Z.eqb_eq in H1. subst y. f_equal. apply IH. exact H2.
Qed.

(* the version word: VERSION_1 | type, as an int32, has the bytes of VERSION_1 + type *)
Lemma version_word ty : 0 <= ty < 256 ->
  enc_int 4 (wraps 32 (Z.lor TB.VERSION_1 (wrapu 32 ty))) = enc_int 4 (ThriftEnvelope.VERSION_1 + ty).
Proof.
  intros H. apply bytes_eqb_true. revert ty H.
  apply (byte_sweep (fun ty => bytes_eqb (enc_int 4 (wraps 32 (Z.lor TB.VERSION_1 (wrapu 32 ty)))) (enc_int 4 (ThriftEnvelope.VERSION_1 + ty)))).
  vm_compute. reflexivity.
Qed.

Lemma enc_int1_byte t : 0 <= t < 256 -> enc_int 1 t = [t].
Proof.
  intros Ht. unfold enc_int. cbn [le_enc rev app Z.of_nat Pos.of_succ_nat]. change (256 ^ 1) with 256.
  rewrite Z.mod_mod by lia. rewrite Z.mod_small by lia. reflexivity.
Qed.

(* WriteMessageBegin: with every primitive succeeding, the three calls WriteI32(version), WriteString(name), WriteI32(seq) - whose bytes
   are the first part of the model's envelope header *)
Theorem WriteMessageBegin_bytes name ty seq : 0 <= ty < 256 ->
  TB.BinaryProtocol_WriteMessageBegin name ty seq 0 0 0
    = (0, [(TB.Eff_WriteI32, [wraps 32 (Z.lor TB.VERSION_1 (wrapu 32 ty))]); (TB.Eff_WriteString, []); (TB.Eff_WriteI32, [seq])]) /\
  writes_bytes name (snd (TB.BinaryProtocol_WriteMessageBegin name ty seq 0 0 0)) = model_write_begin 10 name ty seq 0.
Proof.
  intros H. split; [reflexivity|].
  unfold writes_bytes, model_write_begin. cbn [TB.BinaryProtocol_WriteMessageBegin snd flat_map write_eff_bytes Z.eqb Pos.eqb negb app].
  change (TB.Eff_WriteI32 =? TB.Eff_WriteI32) with true. change (TB.Eff_WriteString =? TB.Eff_WriteString) with true.
  cbv iota. rewrite version_word by exact H. rewrite app_nil_r, <- !app_assoc. reflexivity.
Qed.

(* a failing primitive stops the sequence and its error is returned *)
Theorem WriteMessageBegin_errors name ty seq e1 e2 e3 :
  fst (TB.BinaryProtocol_WriteMessageBegin name ty seq e1 e2 e3) = (if negb (e1 =? 0) then e1 else if negb (e2 =? 0) then e2 else e3) /\
  Z.of_nat (length (snd (TB.BinaryProtocol_WriteMessageBegin name ty seq e1 e2 e3))) = (if negb (e1 =? 0) then 1 else if negb (e2 =? 0) then 2 else 3).
Proof. unfold TB.BinaryProtocol_WriteMessageBegin. destruct (e1 =? 0); cbn [negb]; [|split; reflexivity]. destruct (e2 =? 0); split; reflexivity. Qed.

(* the envelope header of the model is WriteMessageBegin followed by WriteFieldBegin(STRUCT, id) *)
Theorem env_header_is_begin_calls name ty id seq : 0 <= ty < 256 ->
  env_header name ty id seq =
    writes_bytes name (snd (TB.BinaryProtocol_WriteMessageBegin name ty seq 0 0 0)) ++
    writes_bytes [] (snd (TB.BinaryProtocol_WriteFieldBegin [] T_STRUCT id 0 0)).
Proof.
  intros H. rewrite (proj2 (WriteMessageBegin_bytes name ty seq H)). unfold model_write_begin, env_header. cbn [Z.eqb Pos.eqb].
  unfold writes_bytes. cbn [TB.BinaryProtocol_WriteFieldBegin snd flat_map write_eff_bytes Z.eqb Pos.eqb negb app].
  change (TB.Eff_WriteByte =? TB.Eff_WriteI32) with false. change (TB.Eff_WriteByte =? TB.Eff_WriteI16) with false.
  change (TB.Eff_WriteByte =? TB.Eff_WriteByte) with true. change (TB.Eff_WriteI16 =? TB.Eff_WriteI32) with false.
  change (TB.Eff_WriteI16 =? TB.Eff_WriteI16) with true. cbv iota.
  rewrite (enc_int_wraps 2 16) by (reflexivity || lia). rewrite app_nil_r. rewrite <- !app_assoc. reflexivity.
Qed.

(* field / map / list / set headers: the bytes ThriftWire.encode puts in front of a field resp. the elements *)
Theorem WriteBegin_bytes :
  (forall name t id, 0 <= t < 256 -> writes_bytes [] (snd (TB.BinaryProtocol_WriteFieldBegin name t id 0 0)) = t :: enc_int 2 id) /\
  writes_bytes [] (snd (TB.BinaryProtocol_WriteFieldStop 0)) = [0] /\
  (forall k v n, 0 <= k < 256 -> 0 <= v < 256 -> writes_bytes [] (snd (TB.BinaryProtocol_WriteMapBegin k v n 0 0 0)) = k :: v :: enc_int 4 n) /\
  (forall t n, 0 <= t < 256 -> writes_bytes [] (snd (TB.BinaryProtocol_WriteListBegin t n 0 0)) = t :: enc_int 4 n) /\
  (forall t n, 0 <= t < 256 -> writes_bytes [] (snd (TB.BinaryProtocol_WriteSetBegin t n 0 0)) = t :: enc_int 4 n).
Proof.
  assert (C1 : (TB.Eff_WriteByte =? TB.Eff_WriteI32) = false) by reflexivity.
  assert (C2 : (TB.Eff_WriteByte =? TB.Eff_WriteI16) = false) by reflexivity.
  assert (C3 : (TB.Eff_WriteByte =? TB.Eff_WriteByte) = true) by reflexivity.
  assert (C4 : (TB.Eff_WriteI16 =? TB.Eff_WriteI32) = false) by reflexivity.
  assert (C5 : (TB.Eff_WriteI16 =? TB.Eff_WriteI16) = true) by reflexivity.
  assert (C6 : (TB.Eff_WriteI32 =? TB.Eff_WriteI32) = true) by reflexivity.
  repeat split; intros; unfold writes_bytes;
    cbn [TB.BinaryProtocol_WriteFieldBegin TB.BinaryProtocol_WriteFieldStop TB.BinaryProtocol_WriteMapBegin TB.BinaryProtocol_WriteListBegin
         TB.BinaryProtocol_WriteSetBegin snd flat_map write_eff_bytes Z.eqb Pos.eqb negb app];
    rewrite ?C1, ?C2, ?C3, ?C4, ?C5, ?C6; rewrite ?app_nil_r;
    rewrite ?(enc_int_wraps 2 16), ?(enc_int_wraps 4 32) by (reflexivity || lia);
    rewrite ?enc_int1_byte by assumption; reflexivity.
Qed.

(* ---------------------------------------------------------------- envelope readers *)
Theorem TB_Type_Valid_is_type_valid t : 0 <= t < 256 -> TB.Type_Valid t = type_valid t.
Proof. intros H. apply eqb_prop. revert t H. apply byte_sweep. vm_compute. reflexivity. Qed.

(* the header test of the model's [unwrap] (ThriftEnvelope.v): first word not positive, version bits = VERSION_1 *)
Definition header_ok (size : Z) : bool :=
  negb (size >? 0) && (Z.land (size mod 2 ^ 64) ThriftEnvelope.VERSION_MASK =? ThriftEnvelope.VERSION_1).

Lemma land_mask_mod size : Z.land (size mod 2 ^ 64) ThriftEnvelope.VERSION_MASK = Z.land size TB.VERSION_MASK.
Proof.
  change TB.VERSION_MASK with ThriftEnvelope.VERSION_MASK. apply Z.bits_inj'. intros n Hn. rewrite !Z.land_spec.
  destruct (Z_lt_ge_dec n 64) as [L|G].
  - rewrite Z.mod_pow2_bits_low by lia. reflexivity.
  - assert (M : Z.testbit ThriftEnvelope.VERSION_MASK n = false).
    { apply Z.bits_above_log2; [unfold ThriftEnvelope.VERSION_MASK; lia|]. change (Z.log2 ThriftEnvelope.VERSION_MASK) with 31. lia. }
    rewrite M, !andb_false_r. reflexivity.
Qed.

(* ReadMessageBegin, fed with what its three reads return (first word, name, sequence id; no read error):
   accepted exactly when the model's header test holds, message type = low byte of the first word, name and sequence id passed on *)
Theorem ReadMessageBegin_accepts c size name seq : header_ok size = true ->
  TB.BinaryProtocol_ReadMessageBegin c size 0 name 0 seq 0 =
    (name, Z.land size 255, seq, 0, [(TB.Eff_ReadI32, []); (TB.Eff_ReadString, [Z.b2z c]); (TB.Eff_ReadI32, [])]).
Proof.
  unfold header_ok. rewrite land_mask_mod. intros H. apply andb_true_iff in H. destruct H as [H1 H2].
  unfold TB.BinaryProtocol_ReadMessageBegin. cbn [Z.eqb negb]. apply negb_true_iff in H1. rewrite H1.
  change 4294901760 with TB.VERSION_MASK. change 2147549184 with ThriftEnvelope.VERSION_1. rewrite H2. reflexivity.
Qed.

(* rejected headers: errInvalidVersion after the first read, nothing else is read *)
Theorem ReadMessageBegin_rejects c size name e2 seq e3 : header_ok size = false ->
  let '(_, _, _, err, eff) := TB.BinaryProtocol_ReadMessageBegin c size 0 name e2 seq e3 in
  err = TB.Err_errInvalidVersion /\ eff = [(TB.Eff_ReadI32, [])].
Proof.
  unfold header_ok. rewrite land_mask_mod. intros H. unfold TB.BinaryProtocol_ReadMessageBegin. cbn [Z.eqb negb].
  destruct (size >? 0); [split; reflexivity|]. cbn [negb andb] in H.
  change 4294901760 with TB.VERSION_MASK. change 2147549184 with ThriftEnvelope.VERSION_1. rewrite H. split; reflexivity.
Qed.

(* every read error becomes errInvalidVersion *)
Theorem ReadMessageBegin_read_errors c size e1 name e2 seq e3 : e1 <> 0 \/ e2 <> 0 \/ e3 <> 0 ->
  let '(_, _, _, err, _) := TB.BinaryProtocol_ReadMessageBegin c size e1 name e2 seq e3 in err = TB.Err_errInvalidVersion.
Proof.
  intros H. unfold TB.BinaryProtocol_ReadMessageBegin.
  destruct (Z.eqb_spec e1 0) as [E1|E1]; cbn [negb]; [|reflexivity].
  destruct (size >? 0); [reflexivity|]. destruct (Z.land size 4294901760 =? 2147549184); cbn [negb]; [|reflexivity].
  destruct (Z.eqb_spec e2 0) as [E2|E2]; cbn [negb]; [|reflexivity].
  destruct (Z.eqb_spec e3 0) as [E3|E3]; cbn [negb]; [|reflexivity].
  destruct H as [H|[H|H]]; contradiction.
Qed.

(* field / map / list / set headers, fed with what their reads return (no read error) *)
Theorem ReadFieldBegin_spec t x : 0 <= t < 256 ->
  TB.BinaryProtocol_ReadFieldBegin t 0 x 0 =
    if negb (type_valid t) then ([], 0, 0, TB.Err_errInvalidDataType, [(TB.Eff_ReadByte, [])])
    else if t =? 0 then ([], 0, 0, 0, [(TB.Eff_ReadByte, [])])
    else ([], t, wrapu 16 x, 0, [(TB.Eff_ReadByte, []); (TB.Eff_ReadI16, [])]).
Proof.
  intros H. unfold TB.BinaryProtocol_ReadFieldBegin. cbn [Z.eqb negb]. rewrite TB_Type_Valid_is_type_valid by exact H.
  destruct (type_valid t); cbn [negb]; [|reflexivity]. destruct (Z.eqb_spec t 0) as [E|E]; [subst t|]; reflexivity.
Qed.

Theorem ReadMapBegin_spec k v n : 0 <= k < 256 -> 0 <= v < 256 ->
  TB.BinaryProtocol_ReadMapBegin k 0 v 0 n 0 =
    if negb (type_valid k) then (0, 0, 0, TB.Err_errInvalidDataType, [(TB.Eff_ReadByte, [])])
    else if negb (type_valid v) then (0, 0, 0, TB.Err_errInvalidDataType, [(TB.Eff_ReadByte, []); (TB.Eff_ReadByte, [])])
    else if n <? 0 then (k, v, 0, TB.Err_errInvalidDataSize, [(TB.Eff_ReadByte, []); (TB.Eff_ReadByte, []); (TB.Eff_ReadI32, [])])
    else (k, v, n, 0, [(TB.Eff_ReadByte, []); (TB.Eff_ReadByte, []); (TB.Eff_ReadI32, [])]).
Proof.
  intros Hk Hv. unfold TB.BinaryProtocol_ReadMapBegin. cbn [Z.eqb negb].
  rewrite !TB_Type_Valid_is_type_valid by assumption.
  destruct (type_valid k); cbn [negb]; [|reflexivity]. destruct (type_valid v); cbn [negb]; [|reflexivity]. destruct (n <? 0); reflexivity.
Qed.

Theorem ReadListBegin_spec t n : 0 <= t < 256 ->
  TB.BinaryProtocol_ReadListBegin t 0 n 0 =
    (if negb (type_valid t) then (0, 0, TB.Err_errInvalidDataType, [(TB.Eff_ReadByte, [])])
     else if n <? 0 then (t, 0, TB.Err_errInvalidDataSize, [(TB.Eff_ReadByte, []); (TB.Eff_ReadI32, [])])
     else (t, n, 0, [(TB.Eff_ReadByte, []); (TB.Eff_ReadI32, [])])) /\
  TB.BinaryProtocol_ReadSetBegin t 0 n 0 = TB.BinaryProtocol_ReadListBegin t 0 n 0.
Proof.
  intros H. unfold TB.BinaryProtocol_ReadListBegin, TB.BinaryProtocol_ReadSetBegin. cbn [Z.eqb negb].
  rewrite TB_Type_Valid_is_type_valid by exact H.
  destruct (type_valid t); cbn [negb]; [|split; reflexivity]. destruct (n <? 0); split; reflexivity.
Qed.

(* header_ok is the test [unwrap] applies to the first word (so the generated ReadMessageBegin and the model reject the same headers) *)
Lemma unwrap_header_ok bs vb r1 : take 4 bs = Some (vb, r1) -> header_ok (dec_int vb) = false -> unwrap bs = None.
Proof.
  intros Ht H. unfold unwrap. rewrite Ht. unfold header_ok in H. cbv zeta.
  destruct (dec_int vb >? 0); [reflexivity|]. cbn [negb andb] in H. rewrite H. reflexivity.
Qed.
