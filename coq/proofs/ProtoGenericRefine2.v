(* Refinement of the other read APIs (as coded, every repair applied) to the spec:
   children listing (Load(recurse=false) / Children), bulk lookup (GetMany), conversion (Interface). *)
From Coq Require Import ZArith List Bool Lia.
From DG Require Import CaseFormat ProtoWireRef ProtoWireRefProofs ProtoMsg ProtoMsgProofs
  ProtoGeneric ProtoGenericAlg ProtoGenericDom ProtoGenericProofs ProtoGenericRefine.
Import ListNotations.
Local Open Scope Z_scope.

(* ------------------------------------------------------------------ the same-number run of handleChild *)
Lemma snr_run vals : forall pre w2 fuel fnum,
  wf_wire (map (pair fnum) vals) = true -> inert fnum w2 ->
  same_number_run (length vals + S fuel) (pre ++ wenc (map (pair fnum) vals) ++ wenc w2) (plen pre) fnum =
  SkOk (plen pre + plen (wenc (map (pair fnum) vals))).
Proof.
  induction vals as [|v vals IH]; intros pre w2 fuel fnum Hwf Hin.
  - cbn [map wenc flat_map app length plus]. change (plen (@nil Z)) with 0. rewrite Z.add_0_r.
    cbn [same_number_run].
    destruct (inert_head pre w2 fnum Hin) as [[-> E]|[num [wt [n [Hlt [Ht Hne]]]]]].
    + rewrite E, Z.ltb_irrefl. reflexivity.
    + destruct (Z.ltb_spec (plen pre) (plen (pre ++ wenc w2))); [|lia]. rewrite Ht.
      destruct (Z.eqb_spec num fnum); [contradiction|]. reflexivity.
  - cbn [map] in *. cbn [wf_wire forallb] in Hwf. apply andb_true_iff in Hwf as [Hf Hw].
    rewrite wenc_cons. cbn [length plus same_number_run]. rewrite <- app_assoc.
    destruct (record_skip pre (fnum, v) (wenc (map (pair fnum) vals) ++ wenc w2) Hf) as [Ht Hs]. cbn [fst snd] in Ht, Hs.
    pose proof (wenc_field_plen_pos (fnum, v)).
    assert (Hlt : plen pre < plen (pre ++ wenc_field (fnum, v) ++ wenc (map (pair fnum) vals) ++ wenc w2)).
    { rewrite !plen_app. pose proof (plen_nonneg (wenc (map (pair fnum) vals))). pose proof (plen_nonneg (wenc w2)). lia. }
    destruct (Z.ltb_spec (plen pre) (plen (pre ++ wenc_field (fnum, v) ++ wenc (map (pair fnum) vals) ++ wenc w2))); [|lia].
    rewrite Ht, Z.eqb_refl. cbn [negb]. rewrite Hs.
    rewrite app_assoc, <- plen_app. rewrite IH by assumption. rewrite !plen_app. f_equal. lia.
Qed.

(* ------------------------------------------------------------------ handleChild without recursion *)
Definition no_scan : Z -> flabel -> ftype -> Z -> list Z -> Z -> Z -> tres := fun _ _ _ _ _ _ _ => TErr.

(* a singular value behind its tag (a field, a list element, a map value) *)
Lemma hc_single scan pre w rest t step tagL num :
  wf_wval w = true -> elem_wt t = wt_of_wval w -> scalar_tt (kind_of_type t) ->
  handle_child all_fixes false scan (pre ++ wenc_val w ++ rest) (plen pre) tagL LSingular t num step =
  inl (Some (ATree step (kind_of_type t) (wenc_val w) [], plen pre + plen (wenc_val w))).
Proof.
  intros Hw He Ht. unfold handle_child. cbn [node_type]. rewrite (tt_test_false _ Ht).
  pose proof (plen_nonneg pre). destruct (Z.ltb_spec (plen pre) 0); [lia|].
  rewrite He, askip_val by exact Hw.
  destruct Ht as [H1 H2]. destruct (Z.eqb_spec (kind_of_type t) T_LIST); [contradiction|]. destruct (Z.eqb_spec (kind_of_type t) T_MAP); [contradiction|].
  cbn [andb orb]. rewrite slice_app. reflexivity.
Qed.

(* a LIST / MAP child of a message: the records of field n, the first one length-delimited *)
Lemma hc_run scan pre n b ws w2 lbl t step :
  wf_wire (map (pair n) (WBytes b :: ws)) = true -> inert n w2 ->
  (node_type lbl t = T_LIST \/ node_type lbl t = T_MAP) ->
  (((node_type lbl t =? T_LIST) && negb (desc_packed lbl t)) || (node_type lbl t =? T_MAP) = false -> ws = []) ->
  handle_child all_fixes false scan (pre ++ wenc (map (pair n) (WBytes b :: ws)) ++ wenc w2)
               (plen pre + plen (tagb n 2)) (plen (tagb n 2)) lbl t n step =
  inl (Some (ATree step (node_type lbl t) (wenc (map (pair n) (WBytes b :: ws))) [],
             plen pre + plen (wenc (map (pair n) (WBytes b :: ws))))).
Proof.
  intros Hwf Hin Htt Hrun. unfold handle_child.
  assert (Ett : (node_type lbl t =? T_LIST) || (node_type lbl t =? T_MAP) = true) by (destruct Htt as [-> | ->]; reflexivity).
  rewrite Ett. replace (plen pre + plen (tagb n 2) - plen (tagb n 2)) with (plen pre) by lia.
  pose proof (plen_nonneg pre). destruct (Z.ltb_spec (plen pre) 0); [lia|].
  cbn [map] in *. cbn [wf_wire forallb] in Hwf. apply andb_true_iff in Hwf as [Hf Hws].
  fold (wf_wire (map (pair n) ws)) in Hws.
  assert (Hb : wf_wval (WBytes b) = true) by (unfold wf_wfield in Hf; cbn [fst snd] in Hf; apply andb_true_iff in Hf as [_ Hf]; exact Hf).
  set (buf := pre ++ wenc ((n, WBytes b) :: map (pair n) ws) ++ wenc w2).
  assert (Eb : buf = (pre ++ tagb n 2) ++ wenc_val (WBytes b) ++ (wenc (map (pair n) ws) ++ wenc w2)).
  { unfold buf. rewrite wenc_cons, wenc_field_tagb. cbn [fst snd wt_of_wval]. repeat rewrite <- app_assoc. reflexivity. }
  assert (Eb2 : buf = ((pre ++ tagb n 2) ++ wenc_val (WBytes b)) ++ wenc (map (pair n) ws) ++ wenc w2) by (rewrite Eb; repeat rewrite <- app_assoc; reflexivity).
  rewrite <- plen_app.
  assert (Hsk : askip buf (plen (pre ++ tagb n 2)) 2 = SkOk (plen (pre ++ tagb n 2) + plen (wenc_val (WBytes b)))).
  { rewrite Eb. change 2 with (wt_of_wval (WBytes b)) at 2. apply askip_val. exact Hb. }
  rewrite Hsk. rewrite <- plen_app.
  assert (Hend : plen ((pre ++ tagb n 2) ++ wenc_val (WBytes b)) + plen (wenc (map (pair n) ws)) =
                 plen pre + plen (wenc ((n, WBytes b) :: map (pair n) ws))).
  { rewrite wenc_cons, wenc_field_tagb. cbn [fst snd wt_of_wval]. rewrite !plen_app. lia. }
  assert (Hslice : slice buf (plen pre) (plen pre + plen (wenc ((n, WBytes b) :: map (pair n) ws))) = wenc ((n, WBytes b) :: map (pair n) ws))
    by (unfold buf; apply slice_app).
  destruct (((node_type lbl t =? T_LIST) && negb (desc_packed lbl t)) || (node_type lbl t =? T_MAP)) eqn:Er.
  - assert (Hl : (length ws <= length buf)%nat).
    { rewrite Eb2, !app_length. pose proof (wenc_length_ge (map (pair n) ws)). rewrite map_length in H1. lia. }
    replace (Datatypes.S (length buf)) with (length ws + Datatypes.S (length buf - length ws))%nat by lia.
    assert (Hr : same_number_run (length ws + Datatypes.S (length buf - length ws)) buf (plen ((pre ++ tagb n 2) ++ wenc_val (WBytes b))) n
                 = SkOk (plen ((pre ++ tagb n 2) ++ wenc_val (WBytes b)) + plen (wenc (map (pair n) ws)))).
    { generalize (length buf - length ws)%nat. intros fuel. rewrite Eb2. apply snr_run; assumption. }
    rewrite Hr. cbn [andb]. rewrite Hend, Hslice. reflexivity.
  - rewrite (Hrun eq_refl) in *. cbn [map] in *. change (wenc []) with (@nil Z) in Hend. change (plen (@nil Z)) with 0 in Hend. rewrite Z.add_0_r in Hend.
    cbn [andb]. rewrite Hend, Hslice. reflexivity.
Qed.

(* ------------------------------------------------------------------ one field of a message as a child *)
Lemma sval_bytes S t x : wf_fld S LSingular t x = true -> type_numeric t = false -> exists b, sval x = WBytes b.
Proof.
  intros H Hn. destruct x as [k v|k b|fs| |]; cbn [wf_fld] in H; try discriminate.
  - destruct t as [k'|]; [|discriminate]. apply andb_true_iff in H as [H _]. apply andb_true_iff in H as [Hk Hnum].
    apply Z.eqb_eq in Hk. subst k'. cbn [type_numeric] in Hn. congruence.
  - eexists; reflexivity.
  - eexists; reflexivity.
Qed.

Lemma field_child S scan lbl t n v pre w2 step :
  wf_fld S lbl t v = true -> 1 <= n <= MAX_FIELD_NUMBER -> inert n w2 ->
  (match lbl with LRepeated p => p = type_numeric t | _ => True end) ->
  exists wt0, ctag (pre ++ wenc (wfld n v) ++ wenc w2) (plen pre) = Some (n, wt0, plen (tagb n wt0)) /\
    handle_child all_fixes false scan (pre ++ wenc (wfld n v) ++ wenc w2) (plen pre + plen (tagb n wt0)) (plen (tagb n wt0)) lbl t n step =
    inl (Some (ATree step (node_type lbl t) (node_raw lbl n v) [], plen pre + plen (wenc (wfld n v)))).
Proof.
  intros Hwf Hn Hin Hpk. pose proof (wfld_wire _ _ _ _ n Hwf Hn) as Hww.
  destruct (val_tag S lbl t n v pre (wenc w2) Hwf Hn) as [w0 [ws [Ef [Hw0 [Hws [Hc Eb]]]]]].
  exists (wt_of_wval w0). split; [exact Hc|].
  destruct lbl as [|p|kk].
  - destruct (wf_singular_facts _ _ _ Hwf) as [Hw [Hwt [Htt Ee]]].
    assert (Ew : w0 = sval v /\ ws = []) by (destruct v; cbn [wf_fld] in Hwf; try discriminate; cbn [fvals] in Ef; inversion Ef; auto).
    destruct Ew as [-> ->]. rewrite Eb. cbn [map wenc flat_map app]. rewrite <- plen_app.
    rewrite (hc_single scan (pre ++ tagb n (wt_of_wval (sval v))) (sval v) (wenc w2) t step _ n Hw (eq_sym Hwt) Htt).
    cbn [node_type node_raw]. rewrite Ee. rewrite (wfld_single _ _ _ n Hwf). cbn [wenc flat_map]. rewrite app_nil_r, wenc_field_tagb. cbn [fst snd].
    rewrite !plen_app. f_equal. f_equal. f_equal. lia.
  - destruct v as [| | |q vs|]; try (cbn [wf_fld] in Hwf; discriminate).
    destruct (wf_list_facts _ _ _ _ _ n Hwf) as [Hq [Hne [Hall Hcase]]].
    destruct (wfld_fvals _ _ _ _ n Hwf) as [Efv _]. rewrite Ef in Efv. cbn [node_type node_raw].
    destruct q.
    + destruct Hcase as [k [xs [Et [Hk [Evs [Hxs [Ew Hl]]]]]]]. subst t.
      assert (E0 : w0 = WBytes (penc k xs) /\ ws = []).
      { rewrite Ew in Efv. cbn [map] in Efv. inversion Efv as [[E1 E2]]. split; [reflexivity|]. destruct ws; [reflexivity|discriminate]. }
      destruct E0 as [-> ->]. rewrite Ew in *. cbn [wt_of_wval].
      apply (hc_run scan pre n (penc k xs) [] w2 (LRepeated p) (TScalar k) step Hww Hin); [left; reflexivity|reflexivity].
    + assert (Hnt : type_numeric t = false) by (subst p; destruct (type_numeric t); [discriminate|reflexivity]).
      destruct vs as [|x0 vs']; [contradiction|].
      assert (Hx0 : wf_fld S LSingular t x0 = true) by (inversion Hall; assumption).
      destruct (sval_bytes _ _ _ Hx0 Hnt) as [b0 Eb0].
      assert (E0 : w0 = WBytes b0) by (rewrite Hcase in Efv; cbn [map] in Efv; inversion Efv; congruence).
      subst w0. rewrite Efv in *. cbn [wt_of_wval].
      apply (hc_run scan pre n b0 ws w2 (LRepeated p) t step Hww Hin); [left; reflexivity|].
      cbn [node_type desc_packed]. rewrite Hnt, andb_false_r. cbn. discriminate.
  - destruct v as [| | | |kvs]; try (cbn [wf_fld] in Hwf; discriminate).
    destruct (wfld_fvals _ _ _ _ n Hwf) as [Efv _]. rewrite Ef in Efv. cbn [node_type node_raw]. rewrite Efv in *.
    destruct kvs as [|kx kvs']; [cbn [fvals map] in Ef; discriminate|]. cbn [fvals map] in Ef. inversion Ef; subst w0 ws. unfold entry_wval at 1 2 3 4.
    cbn [wt_of_wval]. unfold entry_wval in Hww at 1.
    apply (hc_run scan pre n _ _ w2 (LMap kk) t step Hww Hin); [right; reflexivity|]. cbn. discriminate.
Qed.

(* ------------------------------------------------------------------ scanChildren of a message *)
Definition msg_child (md : mdesc) (nv : Z * pval) : atree :=
  match find_field md (fst nv) with
  | Some fd => ATree (PField (fst nv)) (node_type (fd_label fd) (fd_type fd)) (node_raw (fd_label fd) (fst nv) (snd nv)) []
  | None => ATree (PField (fst nv)) 0 [] []
  end.

Lemma encode_msg_cons n v fs : encode_msg ((n, v) :: fs) = wenc (wfld n v) ++ encode_msg fs.
Proof. unfold encode_msg, msg_wire. cbn [flat_map fst snd]. apply wenc_app. Qed.

Lemma scan_msg_fields S scan md fs : forall pre fuel,
  fields_wf S md fs -> nodupb Z.eqb (map fst fs) = true -> forallb field_packed_okb (md_fields md) = true ->
  scan_msg all_fixes false scan (length fs + Datatypes.S fuel) md (pre ++ encode_msg fs) (plen pre) (plen pre + plen (encode_msg fs)) =
  TOk (map (msg_child md) fs) (plen pre + plen (encode_msg fs)).
Proof.
  induction fs as [|[n v] fs IH]; intros pre fuel Hf Hnd Hpk.
  - cbn [length plus scan_msg map]. change (encode_msg []) with (@nil Z). change (plen (@nil Z)) with 0.
    rewrite Z.add_0_r, Z.ltb_irrefl. reflexivity.
  - cbn [map fst nodupb] in Hnd. apply andb_true_iff in Hnd as [Hx Hnd].
    inversion Hf as [|? ? [fd [Hfd [Hn Hv]]] Hf']; subst. cbn [fst snd] in *.
    destruct (fields_wf_wire _ _ _ Hf') as [Hw2 Hne2].
    assert (Hin : inert n (msg_wire fs)).
    { split; [exact Hw2|]. apply Hne2. apply Forall_forall. intros [m x] Hmx E. cbn [fst] in E. subst m.
      apply negb_true_iff in Hx. assert (existsb (Z.eqb n) (map fst fs) = true).
      { apply existsb_exists. exists n. split; [apply (in_map fst _ _ Hmx)|apply Z.eqb_refl]. } congruence. }
    assert (Hpf : match fd_label fd with LRepeated p => p = type_numeric (fd_type fd) | _ => True end).
    { unfold find_field in Hfd. apply find_some in Hfd. destruct Hfd as [Hfin _]. rewrite forallb_forall in Hpk. specialize (Hpk _ Hfin).
      unfold field_packed_okb in Hpk. destruct (fd_label fd); auto. apply eqb_prop. exact Hpk. }
    rewrite encode_msg_cons. unfold encode_msg at 1 2.
    destruct (field_child S scan (fd_label fd) (fd_type fd) n v pre (msg_wire fs) (PField n) Hv Hn Hin Hpf) as [wt0 [Hc Hh]].
    fold (encode_msg fs). cbn [length plus scan_msg].
    pose proof (wenc_field_plen_pos) as Hpos.
    assert (Hlt : plen pre < plen pre + plen (wenc (wfld n v) ++ encode_msg fs)).
    { rewrite plen_app. destruct (wfld_fvals _ _ _ _ n Hv) as [E Hne]. destruct (fvals v) as [|w0 ws]; [contradiction|]. rewrite E. cbn [map].
      rewrite wenc_cons, plen_app. pose proof (wenc_field_plen_pos (n, w0)). pose proof (plen_nonneg (wenc (map (pair n) ws))). pose proof (plen_nonneg (encode_msg fs)). lia. }
    destruct (Z.ltb_spec (plen pre) (plen pre + plen (wenc (wfld n v) ++ encode_msg fs))); [|lia].
    unfold encode_msg in Hc, Hh |- *. rewrite Hc, Hfd. rewrite (find_field_num _ _ _ Hfd). rewrite Hh. cbn [lift].
    fold (encode_msg fs).
    replace (plen pre + plen (wenc (wfld n v))) with (plen (pre ++ wenc (wfld n v))) by (rewrite plen_app; lia).
    replace (plen pre + plen (wenc (wfld n v) ++ encode_msg fs)) with (plen (pre ++ wenc (wfld n v)) + plen (encode_msg fs)) by (rewrite !plen_app; lia).
    rewrite app_assoc. rewrite (IH (pre ++ wenc (wfld n v)) fuel Hf' Hnd Hpk). cbn [tcons map].
    unfold msg_child at 2. cbn [fst snd]. rewrite Hfd. reflexivity.
Qed.
