(* Refinement of the other read APIs (as coded, every repair applied) to the spec:
   children listing (Load(recurse=false) / Children), bulk lookup (GetMany), conversion (Interface). *)
From Coq Require Import ZArith List Bool Lia.
From DG Require Import CaseFormat ProtoWireRef ProtoWireRefProofs ProtoMsg ProtoMsgProofs
  ProtoGeneric ProtoGenericAlg ProtoGenericDom ProtoGenericKids ProtoGenericProofs ProtoGenericRefine.
Import ListNotations.
Local Open Scope Z_scope.

(* ------------------------------------------------------------------ the same-number run of handleChild *)
Lemma snr_run vals : forall pre w2 fuel fnum,
  wf_wire (map (pair fnum) vals) = true -> inert fnum w2 ->
  same_number_run (length vals + S fuel) (pre ++ wenc (map (pair fnum) vals) ++ wenc w2) (plen pre) fnum =
  SkOk (plen pre + plen (wenc (map (pair fnum) vals))).
Proof.
  induction vals as [|v vals IH]; intros pre w2 fuel fnum Hwf Hin.
  - cbn [map wenc flat_map app length plus]. change (plen (@nil Z)) with 0. rewrite Z.add_0_r.
    cbn [same_number_run].
    destruct (inert_head pre w2 fnum Hin) as [[-> E]|[num [wt [n [Hlt [Ht Hne]]]]]].
    + rewrite E, Z.ltb_irrefl. reflexivity.
    + destruct (Z.ltb_spec (plen pre) (plen (pre ++ wenc w2))); [|lia]. rewrite Ht.
      destruct (Z.eqb_spec num fnum); [contradiction|]. reflexivity.
  - cbn [map] in *. cbn [wf_wire forallb] in Hwf. apply andb_true_iff in Hwf as [Hf Hw].
    rewrite wenc_cons. cbn [length plus same_number_run]. rewrite <- app_assoc.
    destruct (record_skip pre (fnum, v) (wenc (map (pair fnum) vals) ++ wenc w2) Hf) as [Ht Hs]. cbn [fst snd] in Ht, Hs.
    pose proof (wenc_field_plen_pos (fnum, v)).
    assert (Hlt : plen pre < plen (pre ++ wenc_field (fnum, v) ++ wenc (map (pair fnum) vals) ++ wenc w2)).
    { rewrite !plen_app. pose proof (plen_nonneg (wenc (map (pair fnum) vals))). pose proof (plen_nonneg (wenc w2)). lia. }
    destruct (Z.ltb_spec (plen pre) (plen (pre ++ wenc_field (fnum, v) ++ wenc (map (pair fnum) vals) ++ wenc w2))); [|lia].
    rewrite Ht, Z.eqb_refl. cbn [negb]. rewrite Hs.
    rewrite app_assoc, <- plen_app. rewrite IH by assumption. rewrite !plen_app. f_equal. lia.
Qed.

(* ------------------------------------------------------------------ handleChild without recursion *)
Definition no_scan : Z -> flabel -> ftype -> Z -> list Z -> Z -> Z -> tres := fun _ _ _ _ _ _ _ => TErr.

(* a singular value behind its tag (a field, a list element, a map value) *)
Lemma hc_single scan pre w rest t step tagL num :
  wf_wval w = true -> elem_wt t = wt_of_wval w -> scalar_tt (kind_of_type t) ->
  handle_child all_fixes false scan (pre ++ wenc_val w ++ rest) (plen pre) tagL LSingular t num step =
  inl (Some (ATree step (kind_of_type t) (wenc_val w) [], plen pre + plen (wenc_val w))).
Proof.
  intros Hw He Ht. unfold handle_child. cbn [node_type]. rewrite (tt_test_false _ Ht).
  pose proof (plen_nonneg pre). destruct (Z.ltb_spec (plen pre) 0); [lia|].
  rewrite He, askip_val by exact Hw.
  destruct Ht as [H1 H2]. destruct (Z.eqb_spec (kind_of_type t) T_LIST); [contradiction|]. destruct (Z.eqb_spec (kind_of_type t) T_MAP); [contradiction|].
  cbn [andb orb]. rewrite slice_app. reflexivity.
Qed.

(* a LIST / MAP child of a message: the records of field n, the first one length-delimited *)
Lemma hc_run scan pre n b ws w2 lbl t step :
  wf_wire (map (pair n) (WBytes b :: ws)) = true -> inert n w2 ->
  (node_type lbl t = T_LIST \/ node_type lbl t = T_MAP) ->
  (((node_type lbl t =? T_LIST) && negb (desc_packed lbl t)) || (node_type lbl t =? T_MAP) = false -> ws = []) ->
  handle_child all_fixes false scan (pre ++ wenc (map (pair n) (WBytes b :: ws)) ++ wenc w2)
               (plen pre + plen (tagb n 2)) (plen (tagb n 2)) lbl t n step =
  inl (Some (ATree step (node_type lbl t) (wenc (map (pair n) (WBytes b :: ws))) [],
             plen pre + plen (wenc (map (pair n) (WBytes b :: ws))))).
Proof.
  intros Hwf Hin Htt Hrun. unfold handle_child.
  assert (Ett : (node_type lbl t =? T_LIST) || (node_type lbl t =? T_MAP) = true) by (destruct Htt as [-> | ->]; reflexivity).
  rewrite Ett. replace (plen pre + plen (tagb n 2) - plen (tagb n 2)) with (plen pre) by lia.
  pose proof (plen_nonneg pre). destruct (Z.ltb_spec (plen pre) 0); [lia|].
  cbn [map] in *. cbn [wf_wire forallb] in Hwf. apply andb_true_iff in Hwf as [Hf Hws].
  fold (wf_wire (map (pair n) ws)) in Hws.
  assert (Hb : wf_wval (WBytes b) = true) by (unfold wf_wfield in Hf; cbn [fst snd] in Hf; apply andb_true_iff in Hf as [_ Hf]; exact Hf).
  set (buf := pre ++ wenc ((n, WBytes b) :: map (pair n) ws) ++ wenc w2).
  assert (Eb : buf = (pre ++ tagb n 2) ++ wenc_val (WBytes b) ++ (wenc (map (pair n) ws) ++ wenc w2)).
  { unfold buf. rewrite wenc_cons, wenc_field_tagb. cbn [fst snd wt_of_wval]. repeat rewrite <- app_assoc. reflexivity. }
  assert (Eb2 : buf = ((pre ++ tagb n 2) ++ wenc_val (WBytes b)) ++ wenc (map (pair n) ws) ++ wenc w2) by (rewrite Eb; repeat rewrite <- app_assoc; reflexivity).
  rewrite <- plen_app.
  assert (Hsk : askip buf (plen (pre ++ tagb n 2)) 2 = SkOk (plen (pre ++ tagb n 2) + plen (wenc_val (WBytes b)))).
  { rewrite Eb. change 2 with (wt_of_wval (WBytes b)) at 2. apply askip_val. exact Hb. }
  rewrite Hsk. rewrite <- plen_app.
  assert (Hend : plen ((pre ++ tagb n 2) ++ wenc_val (WBytes b)) + plen (wenc (map (pair n) ws)) =
                 plen pre + plen (wenc ((n, WBytes b) :: map (pair n) ws))).
  { rewrite wenc_cons, wenc_field_tagb. cbn [fst snd wt_of_wval]. rewrite !plen_app. lia. }
  assert (Hslice : slice buf (plen pre) (plen pre + plen (wenc ((n, WBytes b) :: map (pair n) ws))) = wenc ((n, WBytes b) :: map (pair n) ws))
    by (unfold buf; apply slice_app).
  destruct (((node_type lbl t =? T_LIST) && negb (desc_packed lbl t)) || (node_type lbl t =? T_MAP)) eqn:Er.
  - assert (Hl : (length ws <= length buf)%nat).
    { rewrite Eb2, !app_length. pose proof (wenc_length_ge (map (pair n) ws)). rewrite map_length in H1. lia. }
    replace (Datatypes.S (length buf)) with (length ws + Datatypes.S (length buf - length ws))%nat by lia.
    assert (Hr : same_number_run (length ws + Datatypes.S (length buf - length ws)) buf (plen ((pre ++ tagb n 2) ++ wenc_val (WBytes b))) n
                 = SkOk (plen ((pre ++ tagb n 2) ++ wenc_val (WBytes b)) + plen (wenc (map (pair n) ws)))).
    { generalize (length buf - length ws)%nat. intros fuel. rewrite Eb2. apply snr_run; assumption. }
    rewrite Hr. cbn [andb]. rewrite Hend, Hslice. reflexivity.
  - rewrite (Hrun eq_refl) in *. cbn [map] in *. change (wenc []) with (@nil Z) in Hend. change (plen (@nil Z)) with 0 in Hend. rewrite Z.add_0_r in Hend.
    cbn [andb]. rewrite Hend, Hslice. reflexivity.
Qed.

(* ------------------------------------------------------------------ one field of a message as a child *)
Lemma sval_bytes S t x : wf_fld S LSingular t x = true -> type_numeric t = false -> exists b, sval x = WBytes b.
Proof.
  intros H Hn. destruct x as [k v|k b|fs| |]; cbn [wf_fld] in H; try discriminate.
  - destruct t as [k'|]; [|discriminate]. apply andb_true_iff in H as [H _]. apply andb_true_iff in H as [Hk Hnum].
    apply Z.eqb_eq in Hk. subst k'. cbn [type_numeric] in Hn. congruence.
  - eexists; reflexivity.
  - eexists; reflexivity.
Qed.

Lemma field_child S scan lbl t n v pre w2 step :
  wf_fld S lbl t v = true -> 1 <= n <= MAX_FIELD_NUMBER -> inert n w2 ->
  (match lbl with LRepeated p => p = type_numeric t | _ => True end) ->
  exists wt0, ctag (pre ++ wenc (wfld n v) ++ wenc w2) (plen pre) = Some (n, wt0, plen (tagb n wt0)) /\
    handle_child all_fixes false scan (pre ++ wenc (wfld n v) ++ wenc w2) (plen pre + plen (tagb n wt0)) (plen (tagb n wt0)) lbl t n step =
    inl (Some (ATree step (node_type lbl t) (node_raw lbl n v) [], plen pre + plen (wenc (wfld n v)))).
Proof.
  intros Hwf Hn Hin Hpk. pose proof (wfld_wire _ _ _ _ n Hwf Hn) as Hww.
  destruct (val_tag S lbl t n v pre (wenc w2) Hwf Hn) as [w0 [ws [Ef [Hw0 [Hws [Hc Eb]]]]]].
  exists (wt_of_wval w0). split; [exact Hc|].
  destruct lbl as [|p|kk].
  - destruct (wf_singular_facts _ _ _ Hwf) as [Hw [Hwt [Htt Ee]]].
    assert (Ew : w0 = sval v /\ ws = []) by (destruct v; cbn [wf_fld] in Hwf; try discriminate; cbn [fvals] in Ef; inversion Ef; auto).
    destruct Ew as [-> ->]. rewrite Eb. cbn [map wenc flat_map app]. rewrite <- plen_app.
    rewrite (hc_single scan (pre ++ tagb n (wt_of_wval (sval v))) (sval v) (wenc w2) t step _ n Hw (eq_sym Hwt) Htt).
    cbn [node_type node_raw]. rewrite Ee. rewrite (wfld_single _ _ _ n Hwf). cbn [wenc flat_map]. rewrite app_nil_r, wenc_field_tagb. cbn [fst snd].
    rewrite !plen_app. f_equal. f_equal. f_equal. lia.
  - destruct v as [| | |q vs|]; try (cbn [wf_fld] in Hwf; discriminate).
    destruct (wf_list_facts _ _ _ _ _ n Hwf) as [Hq [Hne [Hall Hcase]]].
    destruct (wfld_fvals _ _ _ _ n Hwf) as [Efv _]. rewrite Ef in Efv. cbn [node_type node_raw].
    destruct q.
    + destruct Hcase as [k [xs [Et [Hk [Evs [Hxs [Ew Hl]]]]]]]. subst t.
      assert (E0 : w0 = WBytes (penc k xs) /\ ws = []).
      { rewrite Ew in Efv. cbn [map] in Efv. inversion Efv as [[E1 E2]]. split; [reflexivity|]. destruct ws; [reflexivity|discriminate]. }
      destruct E0 as [-> ->]. rewrite Ew in *. cbn [wt_of_wval].
      apply (hc_run scan pre n (penc k xs) [] w2 (LRepeated p) (TScalar k) step Hww Hin); [left; reflexivity|reflexivity].
    + assert (Hnt : type_numeric t = false) by (subst p; destruct (type_numeric t); [discriminate|reflexivity]).
      destruct vs as [|x0 vs']; [contradiction|].
      assert (Hx0 : wf_fld S LSingular t x0 = true) by (inversion Hall; assumption).
      destruct (sval_bytes _ _ _ Hx0 Hnt) as [b0 Eb0].
      assert (E0 : w0 = WBytes b0) by (rewrite Hcase in Efv; cbn [map] in Efv; inversion Efv; congruence).
      subst w0. rewrite Efv in *. cbn [wt_of_wval].
      apply (hc_run scan pre n b0 ws w2 (LRepeated p) t step Hww Hin); [left; reflexivity|].
      cbn [node_type desc_packed]. rewrite Hnt, andb_false_r. cbn. discriminate.
  - destruct v as [| | | |kvs]; try (cbn [wf_fld] in Hwf; discriminate).
    destruct (wfld_fvals _ _ _ _ n Hwf) as [Efv _]. rewrite Ef in Efv. cbn [node_type node_raw]. rewrite Efv in *.
    destruct kvs as [|kx kvs']; [cbn [fvals map] in Ef; discriminate|]. cbn [fvals map] in Ef. inversion Ef; subst w0 ws. unfold entry_wval at 1 2 3 4.
    cbn [wt_of_wval]. unfold entry_wval in Hww at 1.
    apply (hc_run scan pre n _ _ w2 (LMap kk) t step Hww Hin); [right; reflexivity|]. cbn. discriminate.
Qed.

(* ------------------------------------------------------------------ scanChildren of a message *)
Definition msg_child (md : mdesc) (nv : Z * pval) : atree :=
  match find_field md (fst nv) with
  | Some fd => ATree (PField (fst nv)) (node_type (fd_label fd) (fd_type fd)) (node_raw (fd_label fd) (fst nv) (snd nv)) []
  | None => ATree (PField (fst nv)) 0 [] []
  end.

Lemma encode_msg_cons n v fs : encode_msg ((n, v) :: fs) = wenc (wfld n v) ++ encode_msg fs.
Proof. unfold encode_msg, msg_wire. cbn [flat_map fst snd]. apply wenc_app. Qed.

Lemma scan_msg_fields S scan md fs : forall pre fuel,
  fields_wf S md fs -> nodupb Z.eqb (map fst fs) = true -> forallb field_packed_okb (md_fields md) = true ->
  scan_msg all_fixes false scan (length fs + Datatypes.S fuel) md (pre ++ encode_msg fs) (plen pre) (plen pre + plen (encode_msg fs)) =
  TOk (map (msg_child md) fs) (plen pre + plen (encode_msg fs)).
Proof.
  induction fs as [|[n v] fs IH]; intros pre fuel Hf Hnd Hpk.
  - cbn [length plus scan_msg map]. change (encode_msg []) with (@nil Z). change (plen (@nil Z)) with 0.
    rewrite Z.add_0_r, Z.ltb_irrefl. reflexivity.
  - cbn [map fst nodupb] in Hnd. apply andb_true_iff in Hnd as [Hx Hnd].
    inversion Hf as [|? ? [fd [Hfd [Hn Hv]]] Hf']; subst. cbn [fst snd] in *.
    destruct (fields_wf_wire _ _ _ Hf') as [Hw2 Hne2].
    assert (Hin : inert n (msg_wire fs)).
    { split; [exact Hw2|]. apply Hne2. apply Forall_forall. intros [m x] Hmx E. cbn [fst] in E. subst m.
      apply negb_true_iff in Hx. assert (existsb (Z.eqb n) (map fst fs) = true).
      { apply existsb_exists. exists n. split; [apply (in_map fst _ _ Hmx)|apply Z.eqb_refl]. } congruence. }
    assert (Hpf : match fd_label fd with LRepeated p => p = type_numeric (fd_type fd) | _ => True end).
    { unfold find_field in Hfd. apply find_some in Hfd. destruct Hfd as [Hfin _]. rewrite forallb_forall in Hpk. specialize (Hpk _ Hfin).
      unfold field_packed_okb in Hpk. destruct (fd_label fd); auto. apply eqb_prop. exact Hpk. }
    rewrite encode_msg_cons. unfold encode_msg at 1 2.
    destruct (field_child S scan (fd_label fd) (fd_type fd) n v pre (msg_wire fs) (PField n) Hv Hn Hin Hpf) as [wt0 [Hc Hh]].
    fold (encode_msg fs). cbn [length plus scan_msg].
    pose proof (wenc_field_plen_pos) as Hpos.
    assert (Hlt : plen pre < plen pre + plen (wenc (wfld n v) ++ encode_msg fs)).
    { rewrite plen_app. destruct (wfld_fvals _ _ _ _ n Hv) as [E Hne]. destruct (fvals v) as [|w0 ws]; [contradiction|]. rewrite E. cbn [map].
      rewrite wenc_cons, plen_app. pose proof (wenc_field_plen_pos (n, w0)). pose proof (plen_nonneg (wenc (map (pair n) ws))). pose proof (plen_nonneg (encode_msg fs)). lia. }
    destruct (Z.ltb_spec (plen pre) (plen pre + plen (wenc (wfld n v) ++ encode_msg fs))); [|lia].
    unfold encode_msg in Hc, Hh |- *. rewrite Hc, Hfd. rewrite (find_field_num _ _ _ Hfd). rewrite Hh. cbn [lift].
    fold (encode_msg fs).
    replace (plen pre + plen (wenc (wfld n v))) with (plen (pre ++ wenc (wfld n v))) by (rewrite plen_app; lia).
    replace (plen pre + plen (wenc (wfld n v) ++ encode_msg fs)) with (plen (pre ++ wenc (wfld n v)) + plen (encode_msg fs)) by (rewrite !plen_app; lia).
    rewrite app_assoc. rewrite (IH (pre ++ wenc (wfld n v)) fuel Hf' Hnd Hpk). cbn [tcons map].
    unfold msg_child at 2. cbn [fst snd]. rewrite Hfd. reflexivity.
Qed.

(* ------------------------------------------------------------------ scanChildren of a list *)
Lemma scan_packed_run k xs : forall scan pre rest fuel i llen,
  is_numeric k = true -> Forall (fun x => scalar_okb k x = true) xs ->
  scan_packed all_fixes false scan (length xs + Datatypes.S fuel) (TScalar k) (pre ++ penc k xs ++ rest) (plen pre)
              (plen pre + plen (penc k xs)) llen i =
  TOk (index_children (TScalar k) i (map (VScalar k) xs)) (plen pre + plen (penc k xs)).
Proof.
  induction xs as [|x xs IH]; intros scan pre rest fuel i llen Hk Hall.
  - cbn [length plus scan_packed map index_children penc flat_map]. change (plen (@nil Z)) with 0. rewrite Z.add_0_r, Z.ltb_irrefl. reflexivity.
  - assert (Hx : scalar_okb k x = true) by (inversion Hall; assumption).
    assert (Hxs : Forall (fun x => scalar_okb k x = true) xs) by (inversion Hall; assumption).
    rewrite penc_cons. pose proof (scalar_val_plen_pos k x). pose proof (plen_nonneg (penc k xs)).
    cbn [length plus scan_packed]. rewrite plen_app.
    destruct (Z.ltb_spec (plen pre) (plen pre + (plen (wenc_val (scalar_to_wire k x)) + plen (penc k xs)))); [|lia].
    destruct (scalar_rt k x Hk Hx) as [_ [Hwf Hwt]]. rewrite <- app_assoc.
    rewrite (hc_single scan pre (scalar_to_wire k x) (penc k xs ++ rest) (TScalar k) (PIndex i) llen 0 Hwf (eq_sym Hwt) (kind_small_numeric _ Hk)).
    cbn [lift]. rewrite app_assoc.
    replace (plen pre + plen (wenc_val (scalar_to_wire k x))) with (plen (pre ++ wenc_val (scalar_to_wire k x))) by (rewrite plen_app; lia).
    replace (plen pre + (plen (wenc_val (scalar_to_wire k x)) + plen (penc k xs))) with (plen (pre ++ wenc_val (scalar_to_wire k x)) + plen (penc k xs)) by (rewrite plen_app; lia).
    rewrite (IH scan _ rest fuel (i + 1) llen Hk Hxs). cbn [tcons map index_children kind_of_type]. reflexivity.
Qed.

Lemma scan_unpacked_run S t vs : forall scan pre fuel i fnum,
  Forall (fun x => wf_fld S LSingular t x = true) vs -> wf_wire (map (pair fnum) (map sval vs)) = true ->
  scan_unpacked all_fixes false scan (length vs + Datatypes.S fuel) t (pre ++ wenc (map (pair fnum) (map sval vs))) (plen pre) fnum i =
  TOk (index_children t i vs) (plen pre + plen (wenc (map (pair fnum) (map sval vs)))).
Proof.
  induction vs as [|x vs IH]; intros scan pre fuel i fnum Hall Hww.
  - cbn [length plus scan_unpacked map wenc flat_map index_children]. rewrite app_nil_r. change (plen (@nil Z)) with 0.
    rewrite Z.add_0_r, Z.ltb_irrefl. reflexivity.
  - assert (Hx : wf_fld S LSingular t x = true) by (inversion Hall; assumption).
    assert (Hxs : Forall (fun x => wf_fld S LSingular t x = true) vs) by (inversion Hall; assumption).
    cbn [map] in *. cbn [wf_wire forallb] in Hww. apply andb_true_iff in Hww as [Hf Hws]. fold (wf_wire (map (pair fnum) (map sval vs))) in Hws.
    destruct (wf_singular_facts _ _ _ Hx) as [Hw [Hwt [Htt Ee]]].
    rewrite wenc_cons. cbn [length plus scan_unpacked].
    destruct (record_skip pre (fnum, sval x) (wenc (map (pair fnum) (map sval vs))) Hf) as [Hc _]. cbn [fst snd] in Hc.
    pose proof (wenc_field_plen_pos (fnum, sval x)). pose proof (plen_nonneg (wenc (map (pair fnum) (map sval vs)))).
    rewrite plen_app at 1.
    destruct (Z.ltb_spec (plen pre) (plen pre + plen (wenc_field (fnum, sval x) ++ wenc (map (pair fnum) (map sval vs))))); [|rewrite plen_app in *; lia].
    rewrite Hc, Z.eqb_refl. cbn [negb].
    set (tg := tagb fnum (wt_of_wval (sval x))).
    assert (Eb : pre ++ wenc_field (fnum, sval x) ++ wenc (map (pair fnum) (map sval vs)) =
                 (pre ++ tg) ++ wenc_val (sval x) ++ wenc (map (pair fnum) (map sval vs))).
    { rewrite wenc_field_tagb. cbn [fst snd]. fold tg. repeat rewrite <- app_assoc. reflexivity. }
    rewrite Eb. rewrite <- plen_app.
    rewrite (hc_single scan (pre ++ tg) (sval x) _ t (PIndex i) (plen tg) 0 Hw (eq_sym Hwt) Htt). cbn [lift].
    rewrite <- plen_app. rewrite app_assoc.
    rewrite (IH scan ((pre ++ tg) ++ wenc_val (sval x)) fuel (i + 1) fnum Hxs Hws). cbn [tcons index_children]. rewrite Ee.
    f_equal. rewrite wenc_field_tagb. cbn [fst snd]. fold tg. rewrite !plen_app. lia.
Qed.

(* ------------------------------------------------------------------ scanChildren of a map *)
Lemma scan_map_run S kk t kvs : forall scan pre fuel fnum,
  (kk =? 9) || kind_is_int kk = true -> 1 <= fnum <= MAX_FIELD_NUMBER ->
  Forall (fun kx => key_okb kk (fst kx) = true /\ wf_fld S LSingular t (snd kx) = true /\ wf_entry (entry_of kx) = true) kvs ->
  plen (pre ++ wenc (map (erec fnum) (map entry_of kvs))) < 9223372036854775808 ->
  scan_map all_fixes false scan (length kvs + Datatypes.S fuel) kk t (pre ++ wenc (map (erec fnum) (map entry_of kvs))) (plen pre) fnum =
  TOk (map (fun kx => ATree (key_step (fst kx)) (kind_of_type t) (encode_elem (snd kx)) []) kvs)
      (plen pre + plen (wenc (map (erec fnum) (map entry_of kvs)))).
Proof.
  induction kvs as [|[k x] kvs IH]; intros scan pre fuel fnum Hkk Hn Hall Hlen.
  - cbn [length plus scan_map map wenc flat_map]. rewrite app_nil_r. change (plen (@nil Z)) with 0. rewrite Z.add_0_r, Z.ltb_irrefl. reflexivity.
  - assert (Hkx : key_okb kk k = true /\ wf_fld S LSingular t x = true /\ wf_entry (entry_of (k, x)) = true) by (inversion Hall; assumption).
    assert (Hall' : Forall (fun kx => key_okb kk (fst kx) = true /\ wf_fld S LSingular t (snd kx) = true /\ wf_entry (entry_of kx) = true) kvs)
      by (inversion Hall; assumption).
    destruct Hkx as [Hk [Hx Hwe]]. cbn [fst snd] in Hk, Hx.
    destruct (wf_singular_facts _ _ _ Hx) as [Hw [Hwt [Htt Ee]]].
    set (e := entry_of (k, x)) in *. set (rest := wenc (map (erec fnum) (map entry_of kvs))).
    unfold wf_entry in Hwe. apply andb_true_iff in Hwe as [Hwe Hl]. apply andb_true_iff in Hwe as [Hkw Hxw]. apply Z.ltb_lt in Hl.
    pose proof (ebody_plen_pos e) as Hpos.
    set (tg := tagb fnum 2). set (lenb := varint_enc (plen (ebody e))).
    set (t1 := tagb 1 (wt_of_wval (kval (fst e)))). set (kb := wenc_val (kval (fst e))).
    set (t2 := tagb 2 (wt_of_wval (snd e))). set (xb := wenc_val (snd e)).
    cbn [map]. fold e. rewrite wenc_cons. fold rest.
    set (buf := pre ++ wenc_field (erec fnum e) ++ rest).
    assert (E0 : buf = pre ++ tg ++ (lenb ++ t1 ++ kb ++ t2 ++ xb ++ rest)).
    { unfold buf. rewrite erec_enc. unfold evalb. fold tg lenb. unfold ebody. fold t1 kb t2 xb. repeat rewrite <- app_assoc. reflexivity. }
    assert (E1 : buf = (pre ++ tg) ++ lenb ++ (t1 ++ kb ++ t2 ++ xb ++ rest)) by (rewrite E0; repeat rewrite <- app_assoc; reflexivity).
    assert (E2 : buf = (pre ++ tg ++ lenb) ++ t1 ++ (kb ++ t2 ++ xb ++ rest)) by (rewrite E0; repeat rewrite <- app_assoc; reflexivity).
    assert (E3 : buf = (pre ++ tg ++ lenb ++ t1) ++ kb ++ (t2 ++ xb ++ rest)) by (rewrite E0; repeat rewrite <- app_assoc; reflexivity).
    assert (E4 : buf = (pre ++ tg ++ lenb ++ t1 ++ kb) ++ t2 ++ (xb ++ rest)) by (rewrite E0; repeat rewrite <- app_assoc; reflexivity).
    assert (E5 : buf = (pre ++ tg ++ lenb ++ t1 ++ kb ++ t2) ++ xb ++ rest) by (rewrite E0; repeat rewrite <- app_assoc; reflexivity).
    assert (E6 : buf = (pre ++ wenc_field (erec fnum e)) ++ rest) by (unfold buf; rewrite <- app_assoc; reflexivity).
    assert (Hlen' : plen buf < 9223372036854775808) by (unfold buf, rest; cbn [map] in Hlen; rewrite wenc_cons in Hlen; exact Hlen).
    assert (Hbl : plen (ebody e) <= plen buf).
    { rewrite E0, !plen_app. unfold ebody. fold t1 kb t2 xb. rewrite !plen_app.
      pose proof (plen_nonneg pre). pose proof (plen_nonneg tg). pose proof (plen_nonneg lenb). pose proof (plen_nonneg rest). lia. }
    assert (Hlt : plen pre < plen buf).
    { rewrite E0, !plen_app. unfold tg, tagb. destruct (varint_enc_cons (fnum * 8 + 2)) as [b [tt E]]. rewrite E, plen_cons.
      pose proof (plen_nonneg tt). pose proof (plen_nonneg lenb). pose proof (plen_nonneg t1). pose proof (plen_nonneg kb).
      pose proof (plen_nonneg t2). pose proof (plen_nonneg xb). pose proof (plen_nonneg rest). lia. }
    cbn [length plus scan_map]. destruct (Z.ltb_spec (plen pre) (plen buf)); [|lia].
    assert (Hc0 : ctag buf (plen pre) = Some (fnum, 2, plen tg)).
    { rewrite E0. unfold tg. apply ctag_enc; [exact Hn|unfold wt_ok; auto]. }
    rewrite Hc0, Z.eqb_refl. cbn [negb].
    assert (Hal : aread_length buf (plen pre + plen tg) = Some (plen (ebody e), plen (pre ++ tg ++ lenb))).
    { unfold aread_length. rewrite <- plen_app. rewrite E1. unfold lenb. rewrite cvar_enc by (change (2 ^ 64) with 18446744073709551616; lia).
      rewrite to_s64_small by lia. fold lenb. rewrite !plen_app. f_equal. f_equal. lia. }
    rewrite Hal. destruct (Z.leb_spec (plen (ebody e)) 0); [lia|].
    assert (Hc1 : ctag buf (plen (pre ++ tg ++ lenb)) = Some (1, wt_of_wval (kval (fst e)), plen t1)).
    { rewrite E2. unfold t1. apply ctag_enc; [unfold MAX_FIELD_NUMBER; lia|apply wt_of_wval_ok]. }
    rewrite Hc1.
    replace (plen (pre ++ tg ++ lenb) + plen t1) with (plen (pre ++ tg ++ lenb ++ t1)) by (rewrite !plen_app; lia).
    assert (Hkey : (if kk =? 9
                    then match aread_string buf (plen (pre ++ tg ++ lenb ++ t1)) with Some (b, r) => Some (PStrKey b, r) | None => None end
                    else if kind_is_int kk
                         then match aread_int buf (plen (pre ++ tg ++ lenb ++ t1)) kk with Some (x0, r) => Some (PIntKey x0, r) | None => None end
                         else None) = Some (key_step k, plen (pre ++ tg ++ lenb ++ t1 ++ kb))).
    { unfold e, entry_of in kb, t1. cbn [fst snd] in kb, t1. unfold kb, kval in *.
      destruct k as [k' v|bs]; cbn [key_okb] in Hk.
      - apply andb_true_iff in Hk as [Hk Hok]. apply andb_true_iff in Hk as [Ek Hnum]. apply Z.eqb_eq in Ek. subst k'.
        destruct (Z.eqb_spec kk 9) as [->|_]; [cbn in Hnum; discriminate|].
        assert (Hki : kind_is_int kk = true) by (apply orb_true_iff in Hkk; destruct Hkk as [E|E]; [discriminate E|exact E]).
        rewrite Hki. cbn [key_field snd key_step] in *. rewrite E3. rewrite aread_int_enc by assumption.
        rewrite !plen_app. f_equal. f_equal. unfold kval. cbn [key_field snd fst]. lia.
      - apply andb_true_iff in Hk as [Ek Hlb]. apply Z.eqb_eq in Ek. subst kk. cbn [Z.eqb Pos.eqb]. apply Z.ltb_lt in Hlb.
        cbn [key_field snd key_step] in *. rewrite E3. unfold kval. cbn [key_field snd fst]. rewrite aread_string_enc by exact Hlb.
        rewrite !plen_app. f_equal. f_equal. unfold kval. cbn [key_field snd fst]. lia. }
    rewrite Hkey.
    assert (Hc2 : ctag buf (plen (pre ++ tg ++ lenb ++ t1 ++ kb)) = Some (2, wt_of_wval (snd e), plen t2)).
    { rewrite E4. unfold t2. apply ctag_enc; [unfold MAX_FIELD_NUMBER; lia|apply wt_of_wval_ok]. }
    rewrite Hc2.
    replace (plen (pre ++ tg ++ lenb ++ t1 ++ kb) + plen t2) with (plen (pre ++ tg ++ lenb ++ t1 ++ kb ++ t2)) by (rewrite !plen_app; lia).
    assert (Eend : plen (pre ++ tg ++ lenb ++ t1 ++ kb ++ t2) + plen (wenc_val (sval x)) = plen (pre ++ wenc_field (erec fnum e))).
    { rewrite erec_enc. unfold evalb. fold tg lenb. unfold ebody. fold t1 kb t2 xb. unfold xb, e, entry_of. cbn [snd]. rewrite !plen_app. lia. }
    assert (Hh : handle_child all_fixes false scan buf (plen (pre ++ tg ++ lenb ++ t1 ++ kb ++ t2)) (plen t2) LSingular t 0 (key_step k) =
                 inl (Some (ATree (key_step k) (kind_of_type t) (wenc_val (sval x)) [], plen (pre ++ wenc_field (erec fnum e))))).
    { rewrite E5. unfold xb, e, entry_of. cbn [snd].
      rewrite (hc_single scan _ (sval x) rest t (key_step k) (plen t2) 0 Hw (eq_sym Hwt) Htt). rewrite Eend. reflexivity. }
    rewrite Hh. cbn [lift]. rewrite E6.
    assert (Hlen'' : plen ((pre ++ wenc_field (erec fnum e)) ++ wenc (map (erec fnum) (map entry_of kvs))) < 9223372036854775808)
      by (fold rest; rewrite <- E6; exact Hlen').
    unfold rest at 1.
    rewrite (IH scan (pre ++ wenc_field (erec fnum e)) fuel fnum Hkk Hn Hall' Hlen'').
    cbn [tcons map fst snd]. rewrite Ee. f_equal. fold rest. rewrite !plen_app. lia.
Qed.

(* ------------------------------------------------------------------ Load(recurse=false) / Children of a node *)
Lemma find_msg_in S name md : find_msg S name = Some md -> In md S.
Proof. unfold find_msg. intros H. apply find_some in H. tauto. Qed.

Lemma fuel_split (a b : nat) : (a <= b)%nat -> exists f, Datatypes.S b = (a + Datatypes.S f)%nat.
Proof. intros. exists (b - a)%nat. lia. Qed.

Lemma plen_len {A} (l : list A) : plen l = Z.of_nat (length l).
Proof. reflexivity. Qed.

Lemma encode_msg_len S md fs : fields_wf S md fs -> (length fs <= length (encode_msg fs))%nat.
Proof.
  intros H. induction H as [|[n v] fs [fd [_ [_ Hv]]] _ IH]; [cbn; lia|].
  rewrite encode_msg_cons, app_length. cbn [length snd] in *.
  destruct (wfld_fvals _ _ _ _ n Hv) as [E Hne]. destruct (fvals v) as [|w0 ws]; [contradiction|]. rewrite E. cbn [map].
  rewrite wenc_cons, app_length. pose proof (wenc_field_plen_pos (n, w0)) as Hp. rewrite plen_len in Hp. lia.
Qed.

Theorem load_root_children S root m :
  schema_packed_okb S = true -> wf_msg S root m = true ->
  a_load all_fixes S false (root_node root (encode_msg m)) =
  TOk (spec_children S LSingular (TMsg root) (VMsg m)) (plen (encode_msg m)).
Proof.
  intros Hpk Hwf. destruct (wf_msg_facts _ _ _ Hwf) as [md [Hfm [Hnd [_ Hfs]]]].
  unfold a_load, root_node. cbn [an_t an_raw an_lbl an_ty an_num a_scan]. unfold scan_children.
  change (K_MESSAGE =? K_MESSAGE) with true. cbn iota. rewrite Hfm.
  destruct (fuel_split _ _ (encode_msg_len _ _ _ Hfs)) as [f Ef]. rewrite Ef.
  assert (Hp : forallb field_packed_okb (md_fields md) = true).
  { unfold schema_packed_okb in Hpk. rewrite forallb_forall in Hpk. apply Hpk. apply (find_msg_in _ _ _ Hfm). }
  pose proof (scan_msg_fields S (a_scan (length (encode_msg m)) all_fixes S false) md m [] f Hfs Hnd Hp) as H.
  cbn [app] in H. change (plen (@nil Z)) with 0 in H. rewrite !Z.add_0_l in H.
  rewrite Z.add_0_l. rewrite H. unfold spec_children. rewrite Hfm. reflexivity.
Qed.

Lemma penc_len k xs : (length xs <= length (penc k xs))%nat.
Proof. unfold penc. apply flat_map_length_ge. intros x. apply scalar_enc_cons. Qed.

Lemma wenc_len w : (length w <= length (wenc w))%nat.
Proof. unfold wenc. apply flat_map_length_ge. intros x. apply wenc_field_cons. Qed.

(* a LIST node, as every lookup / listing returns it: all the records of the field *)
Definition list_node (p : bool) (t : ftype) (num sz : Z) (v : pval) : anode :=
  mk_anode T_LIST (wenc (wfld num v)) sz false (LRepeated p) t num.
Definition map_node (kk : Z) (t : ftype) (num sz : Z) (v : pval) : anode :=
  mk_anode T_MAP (wenc (wfld num v)) sz false (LMap kk) t num.

Theorem load_list_children S p t num sz q vs :
  p = type_numeric t -> 1 <= num <= MAX_FIELD_NUMBER ->
  wf_fld S (LRepeated p) t (VList q vs) = true ->
  plen (wenc (wfld num (VList q vs))) < 2 ^ 63 ->
  a_load all_fixes S false (list_node p t num sz (VList q vs)) =
  TOk (spec_children S (LRepeated p) t (VList q vs)) (plen (wenc (wfld num (VList q vs)))).
Proof.
  intros Hp Hn Hwf Hlen. destruct (wf_list_facts _ _ _ _ _ num Hwf) as [Hq [Hne [Hall Hshape]]].
  unfold a_load, list_node. cbn [an_t an_raw an_lbl an_ty an_num a_scan spec_children]. unfold scan_children.
  change (T_LIST =? K_MESSAGE) with false. change (T_LIST =? T_LIST) with true. cbn iota.
  destruct q.
  - destruct Hshape as [k [xs [Et [Hk [Evs [Hxs [Ew Hpl]]]]]]]. subst t vs. cbn [type_numeric]. rewrite Hk.
    rewrite Ew in *. set (tg := tagb num 2). set (lenb := varint_enc (plen (penc k xs))).
    assert (E0 : wenc [(num, WBytes (penc k xs))] = [] ++ tg ++ lenb ++ penc k xs).
    { unfold wenc. cbn [flat_map]. rewrite app_nil_r, wenc_field_tagb. reflexivity. }
    set (buf := wenc [(num, WBytes (penc k xs))]) in *.
    assert (Hc : ctag buf 0 = Some (num, 2, plen tg)).
    { rewrite E0. change 0 with (plen (@nil Z)). unfold tg. apply ctag_enc; [exact Hn|unfold wt_ok; auto]. }
    rewrite Hc.
    assert (Hbl : plen (penc k xs) <= plen buf).
    { rewrite E0. cbn [app]. rewrite !plen_app. pose proof (plen_nonneg tg). pose proof (plen_nonneg lenb). lia. }
    pose proof (plen_nonneg (penc k xs)) as Hpn.
    assert (Hal : aread_length buf (0 + plen tg) = Some (plen (penc k xs), plen (tg ++ lenb))).
    { unfold aread_length. rewrite Z.add_0_l. replace buf with (tg ++ lenb ++ penc k xs ++ []) by (rewrite E0, app_nil_r; reflexivity).
      unfold lenb. rewrite cvar_enc by lia.
      rewrite to_s64_small by (change (2 ^ 63) with 9223372036854775808 in Hlen; lia). fold lenb. rewrite !plen_app. reflexivity. }
    rewrite Hal.
    assert (Hfu : (length xs <= length buf)%nat).
    { pose proof (penc_len k xs). rewrite !plen_len in Hbl. lia. }
    destruct (fuel_split _ _ Hfu) as [f Ef]. rewrite Ef.
    replace buf with ((tg ++ lenb) ++ penc k xs ++ []) by (rewrite E0, app_nil_r, <- app_assoc; reflexivity).
    rewrite (scan_packed_run k xs _ (tg ++ lenb) [] f 0 (plen (penc k xs)) Hk Hxs).
    f_equal. rewrite app_nil_r, !plen_app. lia.
  - symmetry in Hq. rewrite <- Hp in Hq. assert (Hnn : type_numeric t = false) by (destruct p; [discriminate Hq|congruence]).
    rewrite Hnn. rewrite Hshape in *.
    assert (Hw : wf_wire (map (pair num) (map sval vs)) = true).
    { destruct (wfld_fvals _ _ _ _ num Hwf) as [E _]. rewrite Hshape in E. rewrite E. apply map_pair_wf; [exact Hn|apply (fvals_wf _ _ _ _ Hwf)]. }
    assert (Hfu : (length vs <= length (wenc (map (pair num) (map sval vs))))%nat).
    { pose proof (wenc_len (map (pair num) (map sval vs))) as H. rewrite !map_length in H. exact H. }
    destruct (fuel_split _ _ Hfu) as [f Ef]. rewrite Ef.
    pose proof (scan_unpacked_run S t vs (a_scan (length (wenc (map (pair num) (map sval vs)))) all_fixes S false) [] f 0 num Hall Hw) as H.
    cbn [app] in H. change (plen (@nil Z)) with 0 in H. rewrite Z.add_0_l in H. exact H.
Qed.

Theorem load_map_children S kk t num sz kvs :
  (kk =? 9) || kind_is_int kk = true -> 1 <= num <= MAX_FIELD_NUMBER ->
  wf_fld S (LMap kk) t (VMap kvs) = true ->
  plen (wenc (wfld num (VMap kvs))) < 2 ^ 63 ->
  a_load all_fixes S false (map_node kk t num sz (VMap kvs)) =
  TOk (spec_children S (LMap kk) t (VMap kvs)) (plen (wenc (wfld num (VMap kvs)))).
Proof.
  intros Hkk Hn Hwf Hlen. destruct (wf_map_facts _ _ _ _ num Hwf) as [Hne [Ew Hall]].
  unfold a_load, map_node. cbn [an_t an_raw an_lbl an_ty an_num a_scan spec_children]. unfold scan_children.
  change (T_MAP =? K_MESSAGE) with false. change (T_MAP =? T_LIST) with false. change (T_MAP =? T_MAP) with true. cbn iota.
  rewrite Ew in *.
  assert (Hfu : (length kvs <= length (wenc (map (erec num) (map entry_of kvs))))%nat).
  { pose proof (wenc_len (map (erec num) (map entry_of kvs))) as H. rewrite !map_length in H. exact H. }
  destruct (fuel_split _ _ Hfu) as [f Ef]. rewrite Ef.
  pose proof (scan_map_run S kk t kvs (a_scan (length (wenc (map (erec num) (map entry_of kvs)))) all_fixes S false) [] f num Hkk Hn Hall) as H.
  cbn [app] in H. change (plen (@nil Z)) with 0 in H. rewrite Z.add_0_l in H. apply H.
  change (2 ^ 63) with 9223372036854775808 in Hlen. exact Hlen.
Qed.

(* ------------------------------------------------------------------ the listed children are the one-step lookups *)
Lemma beqb_true a : forall b, bytes_eqb a b = true -> a = b.
Proof.
  induction a as [|x a IH]; intros [|y b] H; try discriminate; [reflexivity|].
  cbn in H. apply andb_true_iff in H. destruct H as [H1 H2]. apply Z.eqb_eq in H1. subst y. f_equal. apply IH. exact H2.
Qed.

Lemma find_kid_msg md n fs :
  find_kid (PField n) (map (msg_child md) fs) =
  match assoc_z n fs with Some x => Some (msg_child md (n, x)) | None => None end.
Proof.
  induction fs as [|[m x] fs IH]; [reflexivity|].
  cbn [map assoc_z].
  assert (Hs : exists tt raw, msg_child md (m, x) = ATree (PField m) tt raw []).
  { unfold msg_child. cbn [fst snd]. destruct (find_field md m); eauto. }
  destruct Hs as [tt [raw Hs]]. rewrite Hs. cbn [find_kid step_eqb].
  destruct (Z.eqb_spec m n) as [->|Hne]; [rewrite Hs; reflexivity|exact IH].
Qed.

Theorem children_lookup_msg S name num0 fs n :
  wf_fld S LSingular (TMsg name) (VMsg fs) = true ->
  find_kid (PField n) (spec_children S LSingular (TMsg name) (VMsg fs)) =
  child_of_lres (PField n) (plookup S LSingular (TMsg name) num0 (VMsg fs) [PField n]).
Proof.
  intros Hwf. destruct (wf_msg_facts _ _ _ Hwf) as [md [Hfm [Hnd [_ Hfs]]]].
  cbn [plookup is_field_step negb spec_children step_field]. rewrite Hfm.
  change (map _ fs) with (map (msg_child md) fs). rewrite find_kid_msg.
  destruct (assoc_z n fs) as [x|] eqn:Ha.
  - destruct (assoc_z_split _ _ _ Ha) as [fs1 [fs2 [E _]]]. subst fs. destruct (fields_wf_app _ _ _ _ Hfs) as [_ H2].
    inversion H2 as [|? ? [fd [Hfd _]] _]; subst. cbn [fst] in Hfd. rewrite Hfd. rewrite (find_field_num _ _ _ Hfd), Ha.
    cbn [plookup child_of_lres]. unfold msg_child. cbn [fst snd]. rewrite Hfd. reflexivity.
  - destruct (find_field md n) as [fd|] eqn:Hfd; [|reflexivity]. rewrite (find_field_num _ _ _ Hfd), Ha. reflexivity.
Qed.

Lemma find_kid_index t i vs : forall j,
  find_kid (PIndex i) (index_children t j vs) =
  if i <? j then None
  else match nth_error vs (Z.to_nat (i - j)) with
       | Some x => Some (ATree (PIndex i) (kind_of_type t) (encode_elem x) [])
       | None => None
       end.
Proof.
  induction vs as [|x vs IH]; intros j.
  - cbn [index_children find_kid]. destruct (i <? j); [reflexivity|]. destruct (Z.to_nat (i - j)); reflexivity.
  - cbn [index_children find_kid step_eqb]. destruct (Z.eqb_spec j i) as [->|Hne].
    + rewrite Z.ltb_irrefl, Z.sub_diag. reflexivity.
    + rewrite IH. destruct (Z.ltb_spec i (j + 1)); destruct (Z.ltb_spec i j); try lia; [reflexivity|].
      replace (Z.to_nat (i - j)) with (Datatypes.S (Z.to_nat (i - (j + 1)))) by lia. reflexivity.
Qed.

Theorem children_lookup_list S p t num q vs i :
  find_kid (PIndex i) (spec_children S (LRepeated p) t (VList q vs)) =
  child_of_lres (PIndex i) (plookup S (LRepeated p) t num (VList q vs) [PIndex i]).
Proof.
  cbn [spec_children plookup]. rewrite find_kid_index, Z.sub_0_r.
  destruct (i <? 0); [reflexivity|]. destruct (nth_error vs (Z.to_nat i)); reflexivity.
Qed.

Definition map_child (t : ftype) (kx : mkey * pval) : atree :=
  ATree (key_step (fst kx)) (kind_of_type t) (encode_elem (snd kx)) [].

Lemma find_kid_str t b kvs :
  find_kid (PStrKey b) (map (map_child t) kvs) =
  match assoc_key (KStr b) kvs with Some x => Some (ATree (PStrKey b) (kind_of_type t) (encode_elem x) []) | None => None end.
Proof.
  induction kvs as [|[k x] kvs IH]; [reflexivity|].
  cbn [map assoc_key]. unfold map_child at 1. cbn [fst snd find_kid]. destruct k as [kk v|b']; cbn [key_step step_eqb mkey_eqb].
  - exact IH.
  - destruct (bytes_eqb b' b) eqn:E; [|exact IH]. apply beqb_true in E. subst b'. reflexivity.
Qed.

Lemma find_kid_int t i kvs : to_s 64 i = i ->
  find_kid (PIntKey i) (map (map_child t) kvs) =
  match find (fun kx => key_matches i (fst kx)) kvs with
  | Some kx => Some (ATree (PIntKey i) (kind_of_type t) (encode_elem (snd kx)) [])
  | None => None
  end.
Proof.
  intros Hi. induction kvs as [|[k x] kvs IH]; [reflexivity|].
  cbn [map find]. unfold map_child at 1. cbn [fst snd find_kid]. destruct k as [kk v|b']; cbn [key_step step_eqb key_matches].
  - rewrite Hi. destruct (Z.eqb_spec (to_s 64 v) i) as [->|Hne]; [reflexivity|exact IH].
  - exact IH.
Qed.

Lemma keys_all_int kk kvs b : (kk =? 9) = false ->
  Forall (fun kx : mkey * pval => key_okb kk (fst kx) = true) kvs -> assoc_key (KStr b) kvs = None.
Proof.
  intros Hk H. induction H as [|[k x] kvs Hx _ IH]; [reflexivity|].
  cbn [assoc_key fst] in *. destruct k as [k' v|b']; cbn [mkey_eqb]; [exact IH|].
  cbn [key_okb] in Hx. rewrite Hk in Hx. discriminate.
Qed.

Lemma keys_all_str kvs i :
  Forall (fun kx : mkey * pval => key_okb 9 (fst kx) = true) kvs -> find (fun kx => key_matches i (fst kx)) kvs = None.
Proof.
  intros H. induction H as [|[k x] kvs Hx _ IH]; [reflexivity|].
  cbn [find fst] in *. destruct k as [k' v|b']; cbn [key_matches]; [|exact IH].
  cbn [key_okb] in Hx. apply andb_true_iff in Hx as [Hx _]. apply andb_true_iff in Hx as [_ Hx]. discriminate.
Qed.

Theorem children_lookup_map S kk t num kvs st :
  wf_fld S (LMap kk) t (VMap kvs) = true -> listing_step st = true ->
  match st with PStrKey _ | PIntKey _ => True | _ => False end ->
  find_kid st (spec_children S (LMap kk) t (VMap kvs)) =
  child_of_lres st (plookup S (LMap kk) t num (VMap kvs) [st]).
Proof.
  intros Hwf Hst Hk. destruct (wf_map_facts _ _ _ _ num Hwf) as [_ [_ Hall]].
  assert (Hkeys : Forall (fun kx : mkey * pval => key_okb kk (fst kx) = true) kvs)
    by (eapply Forall_impl; [|exact Hall]; intros a Ha; cbn beta in Ha; destruct Ha as [Ha _]; exact Ha).
  cbn [spec_children plookup]. change (map _ kvs) with (map (map_child t) kvs).
  destruct st as [| | |b|i]; try contradiction.
  - rewrite find_kid_str. destruct (Z.eqb_spec kk 9) as [->|Hne].
    + destruct (assoc_key (KStr b) kvs); reflexivity.
    + rewrite (keys_all_int kk kvs b) by (try apply Z.eqb_neq; assumption). reflexivity.
  - assert (Hi : to_s 64 i = i).
    { cbn [listing_step step_okb] in Hst. apply andb_true_iff in Hst as [H1 H2]. apply Z.leb_le in H1. apply Z.ltb_lt in H2.
      unfold to_s. change (2 ^ (64 - 1)) with 9223372036854775808. change (2 ^ 64) with 18446744073709551616.
      change (2 ^ 63) with 9223372036854775808 in *. rewrite Z.mod_small by lia. lia. }
    rewrite (find_kid_int t i kvs Hi). destruct (Z.eqb_spec kk 9) as [->|Hne].
    + rewrite keys_all_str by exact Hkeys. reflexivity.
    + destruct (find (fun kx => key_matches i (fst kx)) kvs); reflexivity.
Qed.

(* ------------------------------------------------------------------ the children's spans are consecutive and cover the payload *)
Lemma single_span S t n v : wf_fld S LSingular t v = true ->
  wenc (wfld n v) = tag_bytes n (elem_wt t) ++ encode_elem v.
Proof.
  intros H. destruct (wf_singular_facts _ _ _ H) as [_ [Hwt [_ Ee]]].
  rewrite (wfld_single _ _ _ n H). unfold wenc. cbn [flat_map]. rewrite app_nil_r, wenc_field_tagb. cbn [fst snd].
  rewrite Hwt, Ee. reflexivity.
Qed.

Theorem payload_cover_msg S name fs : wf_fld S LSingular (TMsg name) (VMsg fs) = true ->
  payload_of_children S LSingular (TMsg name) 0 (VMsg fs) = Some (encode_msg fs).
Proof.
  intros Hwf. destruct (wf_msg_facts _ _ _ Hwf) as [md [Hfm [_ [_ Hfs]]]].
  cbn [payload_of_children]. rewrite Hfm. f_equal. clear Hwf.
  induction Hfs as [|[n v] fs [fd [Hfd [_ Hv]]] _ IH]; [reflexivity|].
  cbn [flat_map]. rewrite encode_msg_cons, IH. f_equal. unfold kid_field_span. cbn [fst snd] in *. rewrite Hfd.
  destruct (fd_label fd) eqn:El; cbn [node_raw]; try reflexivity.
  symmetry. apply (single_span S _ n v Hv).
Qed.

Theorem payload_cover_list S p t num q vs : wf_fld S (LRepeated p) t (VList q vs) = true ->
  payload_of_children S (LRepeated p) t num (VList q vs) = Some (wenc (wfld num (VList q vs))).
Proof.
  intros Hwf. destruct (wf_list_facts _ _ _ _ _ num Hwf) as [_ [_ [Hall Hshape]]].
  cbn [payload_of_children]. destruct q.
  - destruct Hshape as [k [xs [Et [Hk [Evs [Hxs [Ew _]]]]]]]. rewrite Ew. f_equal.
    assert (E : flat_map encode_elem vs = penc k xs).
    { subst vs t. clear Ew Hwf. induction xs as [|x xs IH]; [reflexivity|].
      cbn [map flat_map] in *. rewrite penc_cons. inversion Hall as [|? ? Hx Hr]; subst. inversion Hxs as [|? ? _ Hxr]; subst.
      rewrite (IH Hr Hxr). reflexivity. }
    rewrite E. unfold wenc. cbn [flat_map]. rewrite app_nil_r. reflexivity.
  - rewrite Hshape. f_equal. clear Hshape Hwf. induction Hall as [|x vs Hx _ IH]; [reflexivity|].
    cbn [map flat_map]. rewrite wenc_cons, IH. f_equal. unfold kid_elem_span.
    rewrite <- (single_span S t num x Hx), (wfld_single _ _ _ num Hx). unfold wenc. cbn [flat_map]. rewrite app_nil_r. reflexivity.
Qed.

Theorem payload_cover_map S kk t num kvs : wf_fld S (LMap kk) t (VMap kvs) = true ->
  payload_of_children S (LMap kk) t num (VMap kvs) = Some (wenc (wfld num (VMap kvs))).
Proof.
  intros Hwf. destruct (wf_map_facts _ _ _ _ num Hwf) as [_ [Ew Hall]].
  cbn [payload_of_children]. rewrite Ew. f_equal. clear Ew Hwf.
  induction Hall as [|[k x] kvs [_ [Hx _]] _ IH]; [reflexivity|].
  cbn [map flat_map]. rewrite wenc_cons, IH. f_equal. cbn [snd] in Hx.
  destruct (wf_singular_facts _ _ _ Hx) as [_ [Hwt [_ Ee]]].
  rewrite erec_enc. unfold kid_entry_span, evalb, ebody, entry_of, kval. cbn [fst snd]. rewrite Hwt, Ee. reflexivity.
Qed.
