(* Theorems about the reference wire primitives (model/ProtoWireRef.v). *)
From Coq Require Import ZArith List Bool Lia.
From DG Require Import ProtoWireRef.
Import ListNotations.
Local Open Scope Z_scope.

Lemma pow2_pos n : 0 <= n -> 0 < 2 ^ n.
Proof. intros. apply Z.pow_pos_nonneg; lia. Qed.

Lemma pow2_add a b : 0 <= a -> 0 <= b -> 2 ^ (a + b) = 2 ^ a * 2 ^ b.
Proof. intros. apply Z.pow_add_r; lia. Qed.

(* ---- venc ---- *)

Lemma venc_nonempty f v : venc (S f) v <> [].
Proof. cbn [venc]. destruct (v <? 128); discriminate. Qed.

Lemma venc_bytes_ok f v : 0 <= v -> (v < 128 ^ Z.of_nat f) -> bytes_ok (venc f v).
Proof.
  revert v. induction f as [|f IH]; intros v H0 H; cbn [venc]; [constructor|].
  destruct (Z.ltb_spec v 128) as [Hlt|Hge].
  - constructor; [unfold byte_ok; lia|constructor].
  - constructor.
    + unfold byte_ok. pose proof (Z.mod_pos_bound v 128). lia.
    + apply IH; [apply Z.div_pos; lia|].
      apply Z.div_lt_upper_bound; [lia|].
      rewrite Nat2Z.inj_succ, Z.pow_succ_r in H by lia. lia.
Qed.

Lemma varint_enc_bytes_ok v : 0 <= v < 2 ^ 64 -> bytes_ok (varint_enc v).
Proof. intros H. apply venc_bytes_ok; [lia|]. change (128 ^ Z.of_nat 10) with (2 ^ 70). 
  assert (2 ^ 64 < 2 ^ 70) by (apply Z.pow_lt_mono_r; lia). lia. Qed.

(* decode after encode, general position *)
Lemma vdec_venc k : forall shift acc n v r,
  0 <= shift -> 0 <= v -> v < 2 ^ (7 * Z.of_nat k + 1) ->
  vdec k shift acc n (venc (S k) v ++ r) =
  (acc + v * 2 ^ shift, n + Z.of_nat (length (venc (S k) v))).
Proof.
  induction k as [|k IH]; intros shift acc n v r Hs Hv Hlt.
  - cbn [venc]. change (7 * Z.of_nat 0 + 1) with 1 in Hlt. change (2 ^ 1) with 2 in Hlt.
    destruct (Z.ltb_spec v 128) as [H|H]; [|lia].
    cbn [app vdec length]. destruct (Z.ltb_spec v 2); [|lia]. f_equal.
  - remember (S k) as k1. cbn [venc].
    destruct (Z.ltb_spec v 128) as [H|H].
    + subst k1. cbn [app vdec length]. destruct (Z.ltb_spec v 128); [|lia]. f_equal.
    + cbn [app length]. subst k1. cbn [vdec].
      assert (Hm := Z.mod_pos_bound v 128 ltac:(lia)).
      destruct (Z.ltb_spec (v mod 128 + 128) 128); [lia|].
      rewrite IH.
      * f_equal; [|rewrite !Nat2Z.inj_succ; lia].
        replace (v mod 128 + 128 - 128) with (v mod 128) by lia.
        rewrite pow2_add by lia. change (2 ^ 7) with 128.
        pose proof (Z.div_mod v 128 ltac:(lia)). nia.
      * lia.
      * apply Z.div_pos; lia.
      * apply Z.div_lt_upper_bound; [lia|].
        replace (7 * Z.of_nat (S k) + 1) with (7 + (7 * Z.of_nat k + 1)) in Hlt by lia.
        rewrite pow2_add in Hlt by lia. change (2 ^ 7) with 128 in Hlt. exact Hlt.
Qed.

Theorem varint_dec_enc v r : 0 <= v < 2 ^ 64 ->
  varint_dec (varint_enc v ++ r) = (v, Z.of_nat (length (varint_enc v))).
Proof.
  intros [H0 H1]. unfold varint_dec, varint_enc.
  rewrite (vdec_venc 9 0 0 0 v r); [|lia|lia|exact H1].
  f_equal. rewrite Z.pow_0_r. lia.
Qed.

Lemma venc_length_bounds f v : (1 <= length (venc (S f) v) <= S f)%nat.
Proof.
  revert v. induction f as [|f IH]; intros v.
  - cbn [venc]. destruct (v <? 128); cbn; lia.
  - remember (S f) as f1. cbn [venc]. destruct (v <? 128); cbn [length]; [lia|].
    subst f1. specialize (IH (v / 128)). lia.
Qed.

(* canonical length: 1 + floor(log2 v / 7) *)
Lemma venc_length f : forall v, 0 <= v -> v < 128 ^ Z.of_nat (S f) ->
  Z.of_nat (length (venc (S f) v)) = if v <? 128 then 1 else 1 + Z.log2 v / 7.
Proof.
  induction f as [|f IH]; intros v H0 H1.
  - change (128 ^ Z.of_nat 1) with 128 in H1. cbn [venc].
    destruct (Z.ltb_spec v 128); [reflexivity|lia].
  - remember (S f) as f1. cbn [venc].
    destruct (Z.ltb_spec v 128) as [H|H]; [reflexivity|].
    cbn [length]. rewrite Nat2Z.inj_succ. subst f1. rewrite IH.
    + assert (Hlog : Z.log2 v = Z.log2 (v / 128) + 7).
      { change 128 with (2 ^ 7). rewrite <- Z.shiftr_div_pow2 by lia.
        rewrite Z.log2_shiftr by lia. 
        assert (7 <= Z.log2 v) by (change 7 with (Z.log2 128); apply Z.log2_le_mono; lia). lia. }
      destruct (Z.ltb_spec (v / 128) 128) as [H2|H2].
      * rewrite Hlog.
        assert (0 <= Z.log2 (v / 128) < 7).
        { split; [apply Z.log2_nonneg|].
          destruct (Z.eq_dec (v / 128) 0) as [->|Hne]; [cbn; lia|].
          apply Z.log2_lt_pow2; [|change (2^7) with 128; lia].
          assert (0 <= v / 128) by (apply Z.div_pos; lia). lia. }
        replace (Z.log2 (v / 128) + 7) with (Z.log2 (v / 128) + 1 * 7) by lia.
        rewrite Z.div_add by lia. rewrite Z.div_small by lia. lia.
      * rewrite Hlog. replace (Z.log2 (v / 128) + 7) with (Z.log2 (v / 128) + 1 * 7) by lia.
        rewrite Z.div_add by lia. lia.
    + apply Z.div_pos; lia.
    + apply Z.div_lt_upper_bound; [lia|].
      rewrite (Nat2Z.inj_succ (S f)), Z.pow_succ_r in H1 by lia. exact H1.
Qed.

(* decoder results are always well-formed: consumed count within input, or an error code *)
Lemma vdec_result k : forall shift acc n bs v m,
  vdec k shift acc n bs = (v, m) ->
  (m = -1 /\ v = 0) \/ (m = -3 /\ v = 0) \/ (n + 1 <= m <= n + Z.of_nat (length bs) /\ m <= n + Z.of_nat k + 1).
Proof.
  induction k as [|k IH]; intros shift acc n bs v m H; destruct bs as [|y r]; cbn [vdec] in H.
  - inversion H; auto.
  - destruct (y <? 2); inversion H; subst; cbn [length]; [right; right|auto]. lia.
  - inversion H; auto.
  - destruct (y <? 128).
    + inversion H; subst. right; right. cbn [length]. lia.
    + apply IH in H. cbn [length]. destruct H as [H|[H|H]]; auto. right; right. lia.
Qed.

Theorem varint_dec_result bs v m : varint_dec bs = (v, m) ->
  (m = -1 /\ v = 0) \/ (m = -3 /\ v = 0) \/ (1 <= m <= Z.of_nat (length bs) /\ m <= 10).
Proof. intros H. apply vdec_result in H. cbn in H. intuition lia. Qed.

(* decoded values fit in 64 bits *)
Lemma vdec_value_bound k : forall shift acc n bs v m,
  bytes_ok bs -> 0 <= shift -> shift + 7 * Z.of_nat k = 63 -> 0 <= acc < 2 ^ shift ->
  vdec k shift acc n bs = (v, m) -> 0 <= v < 2 ^ 64.
Proof.
  induction k as [|k IH]; intros shift acc n bs v m Hb Hs He Ha H; destruct bs as [|y r]; cbn [vdec] in H.
  - inversion H. pose proof (pow2_pos 64). lia.
  - change (Z.of_nat 0) with 0 in He. assert (shift = 63) by lia. subst shift.
    destruct (Z.ltb_spec y 2); inversion H; subst; [|pose proof (pow2_pos 64); lia].
    inversion Hb; subst. unfold byte_ok in *. change (2^64) with (2 * 2^63). nia.
  - inversion H. pose proof (pow2_pos 64). lia.
  - inversion Hb as [|? ? Hy Hr]; subst. unfold byte_ok in Hy.
    assert (Hp : 2 ^ (shift + 8) <= 2 ^ 64) by (apply Z.pow_le_mono_r; lia).
    rewrite pow2_add in Hp by lia. change (2 ^ 8) with 256 in Hp.
    destruct (Z.ltb_spec y 128).
    + inversion H; subst. nia.
    + eapply IH in H; eauto; try lia.
      rewrite pow2_add by lia. change (2^7) with 128. nia.
Qed.

Theorem varint_dec_value bs v m : bytes_ok bs -> varint_dec bs = (v, m) -> 0 <= v < 2 ^ 64.
Proof. intros Hb H. eapply (vdec_value_bound 9 0 0 0); eauto; cbn; lia. Qed.

(* ---- zig-zag ---- *)
Ltac even_cases x k Hk :=
  let E := fresh "E" in
  destruct (Z.even x) eqn:E;
  [ apply Z.even_spec in E; destruct E as [k Hk]
  | assert (Z.odd x = true) as O by (rewrite <- Z.negb_even, E; reflexivity);
    apply Z.odd_spec in O; destruct O as [k Hk] ].

Theorem zigzag_dec_enc v : zigzag_dec (zigzag_enc v) = v.
Proof.
  unfold zigzag_dec, zigzag_enc. destruct (Z.ltb_spec v 0);
  match goal with |- context [Z.even ?x] => even_cases x k Hk end;
  Z.div_mod_to_equations; lia.
Qed.

Theorem zigzag_enc_dec x : 0 <= x -> zigzag_enc (zigzag_dec x) = x.
Proof.
  intros Hx. unfold zigzag_dec, zigzag_enc.
  even_cases x k Hk;
  match goal with |- context [?a <? 0] => destruct (Z.ltb_spec a 0) end;
  Z.div_mod_to_equations; lia.
Qed.

Theorem zigzag_enc_range v : - 2 ^ 63 <= v < 2 ^ 63 -> 0 <= zigzag_enc v < 2 ^ 64.
Proof. unfold zigzag_enc. change (2^64) with (2 * 2^63). destruct (Z.ltb_spec v 0); lia. Qed.

Theorem zigzag_dec_range x : 0 <= x < 2 ^ 64 -> - 2 ^ 63 <= zigzag_dec x < 2 ^ 63.
Proof.
  intros H. unfold zigzag_dec. change (2^64) with (2 * 2^63) in H.
  destruct (Z.even x).
  - split; [pose proof (Z.div_pos x 2); lia | apply Z.div_lt_upper_bound; lia].
  - assert (0 <= (x + 1) / 2) by (apply Z.div_pos; lia).
    assert ((x + 1) / 2 <= 2 ^ 63) by (apply Z.div_le_upper_bound; lia). lia.
Qed.

(* ---- fixed width little endian ---- *)
Lemma le_dec_enc n : forall v r, 0 <= v < 256 ^ Z.of_nat n -> le_dec n (le_enc n v ++ r) = v.
Proof.
  induction n as [|n IH]; intros v r H.
  - cbn in *. lia.
  - cbn [le_enc le_dec app]. rewrite IH.
    + pose proof (Z.div_mod v 256). lia.
    + rewrite Nat2Z.inj_succ, Z.pow_succ_r in H by lia.
      split; [apply Z.div_pos; lia | apply Z.div_lt_upper_bound; lia].
Qed.

Lemma le_enc_length n v : length (le_enc n v) = n.
Proof. revert v; induction n; intros; cbn; auto. Qed.

Lemma le_enc_bytes_ok n v : bytes_ok (le_enc n v).
Proof.
  revert v; induction n as [|n IH]; intros v; cbn [le_enc]; constructor; [|apply IH].
  unfold byte_ok. apply Z.mod_pos_bound. lia.
Qed.

Lemma le_enc_dec n : forall bs, bytes_ok bs -> length bs = n -> le_enc n (le_dec n bs) = bs.
Proof.
  induction n as [|n IH]; intros bs Hb Hl; destruct bs as [|x r]; try discriminate; [reflexivity|].
  inversion Hb; subst. cbn [le_dec le_enc]. unfold byte_ok in *.
  assert (E : (x + 256 * le_dec n r) / 256 = le_dec n r /\ (x + 256 * le_dec n r) mod 256 = x)
    by (Z.div_mod_to_equations; lia).
  destruct E as [E1 E2]. rewrite E1, E2. f_equal. apply IH; auto.
Qed.

Lemma le_dec_range n : forall bs, bytes_ok bs -> 0 <= le_dec n bs < 256 ^ Z.of_nat n.
Proof.
  induction n as [|n IH]; intros bs Hb; [cbn; lia|].
  rewrite Nat2Z.inj_succ, Z.pow_succ_r by lia.
  destruct bs as [|x r]; cbn [le_dec].
  - assert (0 < 256 ^ Z.of_nat n) by (apply Z.pow_pos_nonneg; lia). lia.
  - inversion Hb; subst. specialize (IH r H2). unfold byte_ok in *. lia.
Qed.
