(* C04: Node.SetMany at algorithm level (model/ThriftEditMany.v) refines the AST-level edits.
   replaceMany's single pass over the address-sorted PathNodes = the sequence of single splices (Node.replace) applied from
   the highest address down; each of those is one ast_set on the value edited so far; the not-found pass + the splices at
   the front of the container = the insertions.  *)
From Coq Require Import ZArith List Bool Lia.
From DG Require Import ProtoWireRef ProtoWireRefProofs ThriftWire ThriftWireProofs ThriftCanonProofs CaseFormat ThriftGeneric ThriftGenericProofs
  ThriftEdit ThriftEditProofs ThriftEditBytes ThriftEditBytesProofs ThriftEditMany.
Import ListNotations.
Local Open Scope Z_scope.

(* ================= slices ================= *)
Lemma firstn_plus {A} (l : list A) : forall a b, firstn (a + b) l = firstn a l ++ firstn b (skipn a l).
Proof.
  intros a. revert l. induction a as [|a IH]; intros l b; [reflexivity|].
  destruct l as [|x l]; cbn [Nat.add firstn skipn app]; [destruct b; reflexivity|]. rewrite IH. reflexivity.
Qed.

Lemma bfirstn_plus a b (l : list Z) : 0 <= a -> 0 <= b -> bfirstn (a + b) l = bfirstn a l ++ bfirstn b (bskipn a l).
Proof. intros Ha Hb. unfold bfirstn, bskipn. rewrite Z2Nat.inj_add by lia. apply firstn_plus. Qed.

Lemma skipn_plus {A} (l : list A) : forall a b, skipn b (skipn a l) = skipn (a + b) l.
Proof.
  intros a. revert l. induction a as [|a IH]; intros l b; [reflexivity|].
  destruct l as [|x l]; cbn [Nat.add skipn]; [destruct b; reflexivity|]. apply IH.
Qed.

Lemma bskipn_bskipn a b (l : list Z) : 0 <= a -> 0 <= b -> bskipn b (bskipn a l) = bskipn (a + b) l.
Proof. intros Ha Hb. unfold bskipn. rewrite skipn_plus. f_equal. lia. Qed.

Lemma bfirstn_bskipn (n : Z) (l : list Z) : bfirstn n l ++ bskipn n l = l.
Proof. apply firstn_skipn. Qed.

Lemma bskipn_all n (l : list Z) : zlen l <= n -> bskipn n l = [].
Proof. intros H. unfold bskipn. apply skipn_all2. unfold zlen in H. lia. Qed.

Lemma bfirstn_nil n : bfirstn n (@nil Z) = [].
Proof. unfold bfirstn. apply firstn_nil. Qed.

Lemma zlen_bfirstn n (l : list Z) : 0 <= n <= zlen l -> zlen (bfirstn n l) = n.
Proof. intros H. unfold zlen, bfirstn in *. rewrite firstn_length. lia. Qed.

(* ================= replaceMany's pass ================= *)
(* what the pass emits from [cur] on, [rest] being the buffer from there *)
Fixpoint tailres (rest : list Z) (cur : Z) (ps : list (pn (list Z))) : list Z :=
  match ps with
  | [] => rest
  | p :: r => bfirstn (pn_v p - cur) rest ++ pn_x p ++ tailres (bskipn (pn_v p + pn_l p - cur) rest) (pn_v p + pn_l p) r
  end.

Fixpoint chain_ok {A} (a len : Z) (l : list (pn A)) : Prop :=
  match l with
  | [] => a <= len
  | p :: r => a <= pn_v p /\ 0 <= pn_l p /\ chain_ok (pn_v p + pn_l p) len r
  end.

Lemma chain_okb_ok {A} len (l : list (pn A)) : forall a, chain_okb a len l = true -> chain_ok a len l.
Proof.
  induction l as [|p r IH]; intros a H; cbn [chain_okb chain_ok] in *.
  - apply Z.leb_le. exact H.
  - apply andb_true_iff in H. destruct H as [H H3]. apply andb_true_iff in H. destruct H as [H1 H2].
    apply Z.leb_le in H1, H2. auto.
Qed.

Lemma chain_ok_le {A} len (l : list (pn A)) : forall a, chain_ok a len l -> a <= len.
Proof.
  induction l as [|p r IH]; intros a H; cbn [chain_ok] in H; [exact H|].
  destruct H as [H1 [H2 H3]]. specialize (IH _ H3). lia.
Qed.

Lemma chain_ok_weaken {A} len (l : list (pn A)) a b : b <= a -> chain_ok a len l -> chain_ok b len l.
Proof. destruct l as [|p r]; cbn [chain_ok]; intros; [lia|]. destruct H0 as [? [? ?]]. repeat split; auto; lia. Qed.

Lemma chain_ok_map {A B} (f : pn A -> pn B) len (l : list (pn A)) :
  (forall p, pn_v (f p) = pn_v p /\ pn_l (f p) = pn_l p) -> forall a, chain_ok a len l -> chain_ok a len (map f l).
Proof.
  intros Hf. induction l as [|p r IH]; intros a H; cbn [map chain_ok] in *; [exact H|].
  destruct (Hf p) as [E1 E2]. rewrite E1, E2. destruct H as [H1 [H2 H3]]. auto.
Qed.

(* the loop = the accumulated buffer followed by [tailres] *)
Lemma loop_tail bs : forall ps offset buf, 0 <= offset -> chain_ok offset (zlen bs) ps ->
  replace_many_loop bs (zlen bs) ps offset buf = Some (buf ++ tailres (bskipn offset bs) offset ps).
Proof.
  induction ps as [|p r IH]; intros offset buf H0 Hc; cbn [replace_many_loop tailres].
  - destruct (Z.ltb_spec offset (zlen bs)); [reflexivity|]. rewrite bskipn_all by lia. rewrite app_nil_r. reflexivity.
  - cbn [chain_ok] in Hc. destruct Hc as [H1 [H2 H3]]. pose proof (chain_ok_le _ _ _ H3) as Hle.
    rewrite (bskipn_bskipn offset (pn_v p + pn_l p - offset)) by lia.
    replace (offset + (pn_v p + pn_l p - offset)) with (pn_v p + pn_l p) by lia.
    destruct (Z.ltb_spec offset (zlen bs)) as [Hlt|Hge].
    + destruct (Z.ltb_spec (pn_v p - offset) 0); [lia|].
      rewrite IH by (try lia; exact H3). rewrite <- !app_assoc. reflexivity.
    + rewrite IH by (try lia; exact H3). rewrite (bskipn_all offset) by lia. rewrite bfirstn_nil.
      cbn [app]. rewrite <- !app_assoc. reflexivity.
Qed.

(* one splice of Node.replace per node *)
Definition splice (p : pn (list Z)) (acc : list Z) : list Z := replace acc (pn_v p) (pn_v p + pn_l p) (pn_x p).

Lemma split3 (bs : list Z) v l : 0 <= v -> 0 <= l -> v + l <= zlen bs ->
  exists P1 M P3, bs = P1 ++ M ++ P3 /\ zlen P1 = v /\ zlen M = l.
Proof.
  intros Hv Hl Hlen. exists (bfirstn v bs), (bfirstn l (bskipn v bs)), (bskipn l (bskipn v bs)).
  split; [rewrite bfirstn_bskipn, bfirstn_bskipn; reflexivity|].
  split; [apply zlen_bfirstn; lia|]. apply zlen_bfirstn. unfold zlen, bskipn in *. rewrite skipn_length. lia.
Qed.

(* the single pass = the splices applied from the LAST node to the first *)
Lemma splice_tail bs : forall ps a, 0 <= a -> chain_ok a (zlen bs) ps ->
  fold_right splice bs ps = bfirstn a bs ++ tailres (bskipn a bs) a ps.
Proof.
  induction ps as [|p r IH]; intros a Ha Hc; cbn [fold_right tailres].
  - symmetry. apply bfirstn_bskipn.
  - cbn [chain_ok] in Hc. destruct Hc as [H1 [H2 H3]]. pose proof (chain_ok_le _ _ _ H3) as Hle.
    rewrite (IH (pn_v p + pn_l p)) by (try lia; exact H3).
    rewrite (bskipn_bskipn a (pn_v p + pn_l p - a)) by lia.
    replace (a + (pn_v p + pn_l p - a)) with (pn_v p + pn_l p) by lia.
    rewrite app_assoc. rewrite <- (bfirstn_plus a (pn_v p - a)) by lia. replace (a + (pn_v p - a)) with (pn_v p) by lia.
    destruct (split3 bs (pn_v p) (pn_l p) ltac:(lia) H2 Hle) as [P1 [M [P3 [E [L1 L2]]]]].
    set (T := tailres (bskipn (pn_v p + pn_l p) bs) (pn_v p + pn_l p) r).
    assert (E1 : bfirstn (pn_v p + pn_l p) bs = P1 ++ M).
    { rewrite E, app_assoc. apply bfirstn_app_n. rewrite zlen_app. lia. }
    assert (E2 : bfirstn (pn_v p) bs = P1) by (rewrite E; apply bfirstn_app_n; lia).
    rewrite E1, E2. unfold splice. rewrite <- app_assoc. rewrite replace_mid by lia. reflexivity.
Qed.

(* ================= isort only looks at (address, length) ================= *)
Lemma pn_insert_map {A B} (g : A -> B) (x : pn A) (l : list (pn A)) :
  pn_insert (fst x, g (snd x)) (map (fun p => (fst p, g (snd p))) l) = map (fun p => (fst p, g (snd p))) (pn_insert x l).
Proof.
  induction l as [|y r IH]; [reflexivity|]. cbn [map pn_insert].
  change (pn_less (fst y, g (snd y)) (fst x, g (snd x))) with (pn_less y x).
  destruct (pn_less y x); cbn [map]; [rewrite IH|]; reflexivity.
Qed.

Lemma isort_map {A B} (g : A -> B) (l : list (pn A)) :
  isort (map (fun p => (fst p, g (snd p))) l) = map (fun p => (fst p, g (snd p))) (isort l).
Proof.
  unfold isort. induction l as [|x r IH]; [reflexivity|]. cbn [map fold_right]. rewrite IH. apply pn_insert_map.
Qed.

(* ================= getMany against the AST ================= *)
Definition node_of (v : tval) (s : pstep) : gnode :=
  match lookup1 v s with
  | LFound c o => GNode (type_of c) o (o + zlen (encode c))
  | _ => GNone
  end.

Lemma get_one_refines v s : good v -> api_fits (api_of s) (type_of v) = true ->
  get_one (api_of s) (type_of v) (encode v) s = Some (node_of v s).
Proof.
  intros Hg Hf. unfold get_one, node_of. rewrite Z.eqb_refl. cbn [negb].
  pose proof (search1_refines v s [] Hg) as HS. rewrite app_nil_r in HS.
  destruct v as [?|?|?|?|?|?|?|fs|kt vt es|et es|et es]; destruct s as [id|i|ks|n|b]; try discriminate Hf; cbn [lookup1] in *.
  - (* struct / field *)
    destruct (find_field id fs 0) as [c o| |] eqn:E; cbn [sres_matches] in HS.
    + destruct HS as [r' HS]. rewrite HS.
      assert (Gc : good c) by (eapply (lookup1_good (VStruct fs) (PField id)); [exact Hg|exact E]).
      rewrite skip_go_encode by exact Gc. rewrite zlen_app. do 2 f_equal. lia.
    + rewrite HS. reflexivity.
    + pose proof (find_field_gfind id fs 0) as Hx. rewrite E in Hx. cbn [lsub] in Hx.
      destruct (gfind (fun i => i =? id) fs); discriminate Hx.
  - (* map / string key *)
    cbn [encode nth]. cbn [key_kind_ok]. destruct (kt =? T_STRING) eqn:Ek; cbn [negb]; [|reflexivity].
    destruct (find_key (str_key_is ks) es 6) as [c o| |] eqn:E; cbn [sres_matches] in HS.
    + destruct HS as [r' HS]. cbn [encode] in HS. rewrite HS.
      assert (Gc : good c) by (eapply (lookup1_good (VMap kt vt es) (PStrKey ks)); [exact Hg|cbn [lookup1]; rewrite Ek; exact E]).
      rewrite skip_go_encode by exact Gc. rewrite zlen_app. do 2 f_equal. lia.
    + cbn [encode] in HS. rewrite HS. reflexivity.
    + pose proof (find_key_gfind (str_key_is ks) es 6) as Hx. rewrite E in Hx. cbn [lsub] in Hx.
      destruct (gfind (str_key_is ks) es); discriminate Hx.
  - (* map / integer key *)
    cbn [encode nth]. cbn [key_kind_ok]. destruct (is_int_type kt) eqn:Ek; cbn [negb]; [|reflexivity].
    destruct (find_key (int_key_is n) es 6) as [c o| |] eqn:E; cbn [sres_matches] in HS.
    + destruct HS as [r' HS]. cbn [encode] in HS. rewrite HS.
      assert (Gc : good c) by (eapply (lookup1_good (VMap kt vt es) (PIntKey n)); [exact Hg|cbn [lookup1]; rewrite Ek; exact E]).
      rewrite skip_go_encode by exact Gc. rewrite zlen_app. do 2 f_equal. lia.
    + cbn [encode] in HS. rewrite HS. reflexivity.
    + pose proof (find_key_gfind (int_key_is n) es 6) as Hx. rewrite E in Hx. cbn [lsub] in Hx.
      destruct (gfind (int_key_is n) es); discriminate Hx.
  - (* map / raw key *)
    destruct (find_key (bin_key_is b) es 6) as [c o| |] eqn:E; cbn [sres_matches] in HS.
    + destruct HS as [r' HS]. rewrite HS.
      assert (Gc : good c) by (eapply (lookup1_good (VMap kt vt es) (PBinKey b)); [exact Hg|exact E]).
      rewrite skip_go_encode by exact Gc. rewrite zlen_app. do 2 f_equal. lia.
    + rewrite HS. reflexivity.
    + pose proof (find_key_gfind (bin_key_is b) es 6) as Hx. rewrite E in Hx. cbn [lsub] in Hx.
      destruct (gfind (bin_key_is b) es); discriminate Hx.
  - (* set / index *)
    destruct (Z.ltb_spec i 0); [reflexivity|].
    destruct (find_index (Z.to_nat i) es 5) as [c o| |] eqn:E; cbn [sres_matches] in HS.
    + destruct HS as [r' HS]. rewrite HS.
      assert (Gc : good c).
      { eapply (lookup1_good (VSet et es) (PIndex i)); [exact Hg|]. cbn [lookup1]. destruct (Z.ltb_spec i 0); [lia|exact E]. }
      rewrite skip_go_encode by exact Gc. rewrite zlen_app. do 2 f_equal. lia.
    + rewrite HS. reflexivity.
    + pose proof (find_index_nth es (Z.to_nat i) 5) as Hx. rewrite E in Hx. cbn [lsub] in Hx.
      destruct (nth_error es (Z.to_nat i)); discriminate Hx.
  - (* list / index *)
    destruct (Z.ltb_spec i 0); [reflexivity|].
    destruct (find_index (Z.to_nat i) es 5) as [c o| |] eqn:E; cbn [sres_matches] in HS.
    + destruct HS as [r' HS]. rewrite HS.
      assert (Gc : good c).
      { eapply (lookup1_good (VList et es) (PIndex i)); [exact Hg|]. cbn [lookup1]. destruct (Z.ltb_spec i 0); [lia|exact E]. }
      rewrite skip_go_encode by exact Gc. rewrite zlen_app. do 2 f_equal. lia.
    + rewrite HS. reflexivity.
    + pose proof (find_index_nth es (Z.to_nat i) 5) as Hx. rewrite E in Hx. cbn [lsub] in Hx.
      destruct (nth_error es (Z.to_nat i)); discriminate Hx.
Qed.

Lemma get_all_refines v api (ss : list pstep) : good v -> api_fits api (type_of v) = true ->
  forallb (fun s => api_of s =? api) ss = true ->
  get_all api (type_of v) (encode v) ss = Some (map (node_of v) ss).
Proof.
  intros Hg Hf. induction ss as [|s r IH]; intros Ha; [reflexivity|].
  cbn [forallb] in Ha. apply andb_true_iff in Ha. destruct Ha as [Hs Hr]. apply Z.eqb_eq in Hs. subst api.
  cbn [get_all map]. rewrite (get_one_refines v s Hg Hf), (IH Hr). reflexivity.
Qed.

(* ================= one replacement = one splice = one ast_set ================= *)
Lemma present_step v s x c o : good v -> lookup1 v s = LFound c o -> type_of c = type_of x ->
  exists v', ast_set true [s] x v = Some (v', true) /\
             encode v' = replace (encode v) o (o + zlen (encode c)) (encode x).
Proof.
  intros Hg L Ht.
  assert (Hd : set_dom [s] v = true) by (cbn [set_dom]; rewrite L; reflexivity).
  pose proof (set_spec [s] x v 0 Hg Hd) as HS. cbn [wlookup lookup] in HS. rewrite L in HS.
  destruct (ast_set true [s] x v) as [[v' [|]]|].
  - destruct HS as [sub [pre [post [Hl [_ [_ [E E']]]]]]]. inversion Hl; subst sub. exists v'. split; [reflexivity|].
    rewrite E at 1. rewrite replace_mid by lia. exact E'.
  - destruct HS as [ct [pos [q [ls [_ [Hw _]]]]]]. discriminate Hw.
  - rewrite Ht, Z.eqb_refl in HS. discriminate HS.
Qed.

Definition rq_bytes (r : rq) : list Z := encode (snd (snd r)).
Definition fb (p : pn rq) : pn (list Z) := (fst p, rq_bytes (snd p)).

Lemma repl_chain : forall l v v1, repl_desc v l = Some v1 ->
  encode v1 = fold_left (fun b p => splice (fb p) b) l (encode v).
Proof.
  induction l as [|p r IH]; intros v v1 H; cbn [repl_desc fold_left] in *; [inversion H; reflexivity|].
  destruct (snd (pn_x p)) as [s x] eqn:Ep.
  destruct (lookup1 v s) as [c o| |] eqn:L; try discriminate H.
  destruct ((o =? pn_v p) && (zlen (encode c) =? pn_l p) && (type_of c =? type_of x) && wf x && wf v && (depth v <=? max_skip_depth)%nat) eqn:Ec;
    [|discriminate H].
  repeat (apply andb_true_iff in Ec; destruct Ec as [Ec ?]).
  apply Z.eqb_eq in Ec. match goal with H : (zlen (encode c) =? pn_l p) = true |- _ => apply Z.eqb_eq in H; rename H into El end.
  match goal with H : (type_of c =? type_of x) = true |- _ => apply Z.eqb_eq in H; rename H into Et end.
  match goal with H : (depth v <=? max_skip_depth)%nat = true |- _ => apply Nat.leb_le in H; rename H into Hdp end.
  assert (Hg : good v) by (split; assumption).
  destruct (present_step v s x c o Hg L Et) as [v' [Hs He]]. rewrite Hs in H.
  rewrite (IH v' v1 H). f_equal. rewrite He. unfold splice, fb, rq_bytes, pn_v, pn_l, pn_x. cbn [fst snd].
  unfold pn_x in Ep. rewrite Ep. cbn [snd]. unfold pn_v, pn_l in *. rewrite <- Ec, <- El. reflexivity.
Qed.

Lemma fold_right_fb (bs : list Z) (l : list (pn rq)) :
  fold_right (fun p b => splice (fb p) b) bs l = fold_right splice bs (map fb l).
Proof. induction l as [|p r IH]; [reflexivity|]. cbn [map fold_right]. rewrite IH. reflexivity. Qed.

Lemma repl_desc_bytes v rep v1 : repl_desc v (rev rep) = Some v1 ->
  encode v1 = fold_right splice (encode v) (map fb rep).
Proof.
  intros H. rewrite (repl_chain _ _ _ H). rewrite <- fold_right_fb.
  rewrite <- (rev_involutive rep) at 2. rewrite fold_left_rev_right. reflexivity.
Qed.

(* ================= the not-found pass when nothing is absent ================= *)
Definition enc_req (it : pstep * tval) : mreq := (fst it, type_of (snd it), encode (snd it)).

Lemma nf_pass_present v ct sp bs : forall items j,
  Forall (fun it => exists c o, lookup1 v (fst it) = LFound c o) items ->
  nf_pass ct sp bs (map enc_req items) (map (node_of v) (map fst items)) = Some (bs, map fb (plan_from v j items)).
Proof.
  induction items as [|[s x] r IH]; intros j HF; [reflexivity|].
  inversion HF as [|? ? [c [o L]] HF']; subst. cbn [fst] in L.
  cbn [map enc_req fst snd nf_pass plan_from]. unfold node_of at 1. rewrite L. rewrite (IH (S j) HF').
  unfold plan_entry. cbn [fst]. rewrite L. unfold fb, rq_bytes. cbn [fst snd map].
  replace (o + zlen (encode c) - o) with (zlen (encode c)) by lia. reflexivity.
Qed.

Lemma plan_all_present v : forall items j, filter is_abs (plan_from v j items) = [] ->
  Forall (fun it => exists c o, lookup1 v (fst it) = LFound c o) items.
Proof.
  induction items as [|it r IH]; intros j H; [constructor|]. cbn [plan_from filter] in H.
  unfold plan_entry in H. destruct (lookup1 v (fst it)) as [c o| |] eqn:L.
  - unfold is_abs, pn_l in H. cbn [fst snd] in H. pose proof (encode_len_pos c) as Hp.
    destruct (Z.eqb_spec (zlen (encode c)) 0); [lia|]. constructor; [exists c, o; exact L|]. eapply IH. exact H.
  - unfold is_abs, pn_l in H. cbn [fst snd] in H. discriminate H.
  - unfold is_abs, pn_l in H. cbn [fst snd] in H. discriminate H.
Qed.

Lemma forallb_map' {A B} (f : A -> B) (g : B -> bool) (l : list A) : forallb g (map f l) = forallb (fun a => g (f a)) l.
Proof. induction l as [|a l IH]; [reflexivity|]. cbn [map forallb]. rewrite IH. reflexivity. Qed.

(* the statement of the full refinement (insertions included) *)
Definition set_many_refines_statement : Prop :=
  forall v items v2, wf v = true -> (depth v <= max_skip_depth)%nat -> set_many_spec v items = Some v2 ->
    set_many_bytes (type_of v) (encode v) (map enc_req items) = MOk (encode v2).

(* ================= replacements only ================= *)
Theorem set_many_refines_partial : forall v items v2,
  wf v = true -> (depth v <= max_skip_depth)%nat -> set_many_spec v items = Some v2 ->
  filter is_abs (plan_from v 0 items) = [] ->
  set_many_bytes (type_of v) (encode v) (map enc_req items) = MOk (encode v2).
Proof.
  intros v items v2 Hw Hdp HS Habs. assert (Hg : good v) by (split; assumption).
  destruct items as [|[s0 x0] r]; [cbn in HS; inversion HS; reflexivity|].
  unfold set_many_spec in HS. set (items := (s0, x0) :: r) in *.
  destruct (api_fits (api_of s0) (type_of v)) eqn:Ef; [|discriminate HS]. cbn [negb] in HS.
  destruct (forallb (fun it => api_of (fst it) =? api_of s0) items) eqn:Ea; [|discriminate HS]. cbn [negb] in HS.
  cbv zeta in HS. rewrite Habs in HS. cbn [length firstn skipn map] in HS.
  change (nat_list_eqb [] []) with true in HS. cbn [negb] in HS.
  cbn [forallb negb] in HS.
  destruct (forallb (fun p => negb (is_abs p)) (isort (plan_from v 0 items))); [|discriminate HS]. cbn [negb] in HS.
  destruct (chain_okb (nf_start (type_of v)) (zlen (encode v)) (isort (plan_from v 0 items))) eqn:Ec; [|discriminate HS].
  cbn [negb] in HS.
  destruct (repl_desc v (rev (isort (plan_from v 0 items)))) as [v1|] eqn:Er; [|discriminate HS].
  cbn [ins_many] in HS. inversion HS; subst v2. clear HS.
  (* the byte side *)
  unfold set_many_bytes. unfold items at 1. cbn [map enc_req fst snd]. fold (enc_req (s0, x0)). change (enc_req (s0, x0) :: map enc_req r) with (map enc_req items).
  rewrite Ef. cbn [negb].
  assert (Em : map (fun it : pstep * Z * list Z => fst (fst it)) (map enc_req items) = map fst items) by (rewrite map_map; reflexivity).
  rewrite Em. rewrite (get_all_refines v (api_of s0) (map fst items) Hg Ef) by (rewrite forallb_map'; exact Ea).
  rewrite (nf_pass_present v _ _ _ items 0 (plan_all_present v items 0 Habs)).
  assert (Efb : map fb (plan_from v 0 items) = map (fun p => (fst p, rq_bytes (snd p))) (plan_from v 0 items)) by reflexivity.
  rewrite Efb, isort_map. fold fb.
  pose proof (chain_okb_ok _ _ _ Ec) as Hc.
  assert (Hsp : 0 <= nf_start (type_of v)) by (unfold nf_start; destruct (type_of v =? T_STRUCT); [lia|]; destruct (type_of v =? T_MAP); lia).
  assert (Hc0 : chain_ok 0 (zlen (encode v)) (map fb (isort (plan_from v 0 items)))).
  { apply chain_ok_map; [intros p; split; reflexivity|]. eapply chain_ok_weaken; [|exact Hc]. exact Hsp. }
  rewrite loop_tail by (try lia; exact Hc0).
  rewrite (repl_desc_bytes _ _ _ Er). rewrite (splice_tail _ _ 0 ltac:(lia) Hc0).
  reflexivity.
Qed.

(* ================================================================================================================
   INSERTIONS
   ================================================================================================================ *)
(* setNotFound split into its two effects: the bytes to splice in, and the count patch *)
Definition snf_new (ct : Z) (s : pstep) (ktb xt : Z) (xb : list Z) : option (list Z) :=
  if ct =? T_STRUCT then Some ((match to_raw s xt with Some k => k | None => [] end) ++ xb)
  else if (ct =? T_LIST) || (ct =? T_SET) then Some xb
  else if ct =? T_MAP then match to_raw s ktb with Some key => Some (key ++ xb) | None => None end
  else None.
Definition bump1 (ct sp : Z) (bs : list Z) : list Z := if ct =? T_STRUCT then bs else patch_count bs (sp - 4) 1.

Lemma snf_eq ct sp s bs xb xt : set_not_found ct sp s bs xb xt =
  match snf_new ct s (nth (Z.to_nat (sp - 6)) bs 0) xt xb with Some nb => Some (bump1 ct sp bs, nb) | None => None end.
Proof.
  unfold set_not_found, snf_new, bump1. destruct (ct =? T_STRUCT); [reflexivity|].
  destruct ((ct =? T_LIST) || (ct =? T_SET)); [reflexivity|]. destruct (ct =? T_MAP); [|reflexivity].
  destruct (to_raw s (nth (Z.to_nat (sp - 6)) bs 0)); reflexivity.
Qed.

Definition cnext (ct : Z) (C : list Z) : list Z := if ct =? T_STRUCT then C else enc_int 4 (dec_int C + 1).
Definition cshape (ct : Z) (C : list Z) : Prop := (ct =? T_STRUCT) = true \/ zlen C = 4.

Lemma cnext_shape ct C : cshape ct C -> cshape ct (cnext ct C).
Proof. unfold cshape, cnext. intros [H|H]; [left; exact H|]. destruct (ct =? T_STRUCT); [left; reflexivity|right; apply zlen_enc_int]. Qed.

Fixpoint citer (ct : Z) (n : nat) (C : list Z) : list Z := match n with O => C | S n' => cnext ct (citer ct n' C) end.

Lemma iter_shape ct C n : cshape ct C -> cshape ct (citer ct n C).
Proof. intros H. induction n as [|n IH]; [exact H|]. cbn [citer]. apply cnext_shape. exact IH. Qed.

Lemma cnext_len ct C : cshape ct C -> zlen (cnext ct C) = zlen C.
Proof. unfold cshape, cnext. intros [H|H]; [rewrite H; reflexivity|]. destruct (ct =? T_STRUCT); [reflexivity|]. rewrite zlen_enc_int. lia. Qed.

Lemma iter_len ct C n : cshape ct C -> zlen (citer ct n C) = zlen C.
Proof. intros H. induction n as [|n IH]; [reflexivity|]. cbn [citer]. rewrite cnext_len by (apply iter_shape; exact H). exact IH. Qed.

Lemma bump1_decomp ct sp Hp C R : cshape ct C -> zlen (Hp ++ C) = sp ->
  bump1 ct sp (Hp ++ C ++ R) = Hp ++ cnext ct C ++ R.
Proof.
  unfold cshape, bump1, cnext. intros Hs Hl. destruct (ct =? T_STRUCT); [reflexivity|].
  destruct Hs as [Hs|Hs]; [discriminate Hs|]. rewrite zlen_app in Hl.
  unfold patch_count. replace (sp - 4) with (zlen Hp) by lia. rewrite bskipn_app.
  rewrite (bfirstn_app_n 4 C R) by lia. apply write_i32_mid; [exact Hs|reflexivity].
Qed.

(* header of a container value: the bytes before the count, the count bytes *)
Definition hp_of (v : tval) : list Z :=
  match v with VMap kt vt _ => [kt; vt] | VSet et _ => [et] | VList et _ => [et] | _ => [] end.
Definition cnt_of (v : tval) : list Z :=
  match v with VMap _ _ es => enc_int 4 (zlen es) | VSet _ es => enc_int 4 (zlen es) | VList _ es => enc_int 4 (zlen es) | _ => [] end.

Definition is_cont (t : Z) : Prop := t = T_STRUCT \/ t = T_LIST \/ t = T_SET \/ t = T_MAP.

Lemma api_fits_cont api t : api_fits api t = true -> is_cont t.
Proof.
  unfold api_fits, is_cont. destruct (api =? 1); [intros H; apply Z.eqb_eq in H; auto|].
  destruct (api =? 2); intros H.
  - apply orb_true_iff in H. destruct H as [H|H]; apply Z.eqb_eq in H; auto.
  - apply Z.eqb_eq in H. auto.
Qed.

Lemma encode_hdr v : is_cont (type_of v) ->
  exists R, encode v = hp_of v ++ cnt_of v ++ R /\ zlen (hp_of v ++ cnt_of v) = nf_start (type_of v) /\ cshape (type_of v) (cnt_of v).
Proof.
  intros Hc. destruct v as [?|?|?|?|?|?|?|fs|kt vt es|et es|et es];
    try (exfalso; destruct Hc as [H|[H|[H|H]]]; discriminate H); cbn [encode hp_of cnt_of type_of app].
  - eexists. split; [reflexivity|]. split; [reflexivity|]. left. reflexivity.
  - eexists. split; [reflexivity|]. split; [rewrite !zlen_cons, zlen_enc_int; reflexivity|]. right. apply zlen_enc_int.
  - eexists. split; [reflexivity|]. split; [rewrite !zlen_cons, zlen_enc_int; reflexivity|]. right. apply zlen_enc_int.
  - eexists. split; [reflexivity|]. split; [rewrite !zlen_cons, zlen_enc_int; reflexivity|]. right. apply zlen_enc_int.
Qed.

(* the key-type byte setNotFound reads at sp - 6 *)
Lemma ktb_map Hp X : (2 <= length Hp)%nat -> nth (Z.to_nat (nf_start T_MAP - 6)) (Hp ++ X) 0 = nth 0 Hp 0.
Proof. intros H. change (Z.to_nat (nf_start T_MAP - 6)) with 0%nat. destruct Hp as [|a Hp]; [cbn in H; lia|reflexivity]. Qed.

Lemma snf_new_irrel ct s k1 k2 xt xb : ct <> T_MAP -> snf_new ct s k1 xt xb = snf_new ct s k2 xt xb.
Proof.
  intros H. unfold snf_new. destruct (ct =? T_STRUCT); [reflexivity|]. destruct ((ct =? T_LIST) || (ct =? T_SET)); [reflexivity|].
  destruct (Z.eqb_spec ct T_MAP); [contradiction|reflexivity].
Qed.

Lemma ins_front_insert_at s x v : ins_front s x v = insert_at true s x v.
Proof.
  destruct v as [?|?|?|?|?|?|?|fs|kt vt es|et es|et es].
  9: { rewrite insert_at_map_eq. destruct s; reflexivity. }
  all: destruct s; reflexivity.
Qed.

(* Part C: the insertions of the spec, in bytes.  [Hp ++ C] is the header of the container (count bytes C), R1 its body *)
Lemma ins_many_bytes ct Hp : is_cont ct -> (ct = T_MAP -> (2 <= length Hp)%nat) ->
  forall abs v1 v2 C R1, ins_many abs v1 = Some v2 -> type_of v1 = ct -> cshape ct C -> zlen (Hp ++ C) = nf_start ct ->
    encode v1 = Hp ++ C ++ R1 ->
    exists news,
      Forall2 (fun it nb => snf_new ct (fst it) (nth 0 Hp 0) (type_of (snd it)) (encode (snd it)) = Some nb) abs news /\
      encode v2 = Hp ++ citer ct (length abs) C ++ concat news ++ R1 /\ type_of v2 = ct.
Proof.
  intros Hcont Hmap. induction abs as [|[s x] r IH]; intros v1 v2 C R1 H Ht Hs Hl E.
  - cbn [ins_many] in H. inversion H; subst v2. exists []. split; [constructor|]. split; [exact E|exact Ht].
  - cbn [ins_many] in H. destruct (ins_many r v1) as [v'|] eqn:Er; [|discriminate H].
    destruct (wf x && wf v' && (depth v' <=? max_skip_depth)%nat && ins_ok s x v' && raw_key_ok s v') eqn:Ec; [|discriminate H].
    destruct (and5_inv _ _ _ _ _ Ec) as [Hwx [Hwv [Hdv [Hok Hraw]]]]. apply Nat.leb_le in Hdv.
    destruct (IH v1 v' C R1 Er Ht Hs Hl E) as [news [HF [E' Ht']]].
    rewrite ins_front_insert_at in H.
    assert (Hg' : good v') by (split; assumption).
    destruct (insert_base s x v' v2 Hg' H Hraw [] []) as [bs' [nb [H1 H2]]].
    cbn [app] in H1, H2. rewrite app_nil_r in H1, H2. rewrite zlen_nil in H1, H2. rewrite Ht' in H1, H2.
    replace (0 + nf_start ct) with (nf_start ct) in H1, H2 by lia.
    rewrite snf_eq in H1.
    set (Cr := citer ct (length r) C) in *.
    assert (Hsr : cshape ct Cr) by (apply iter_shape; exact Hs).
    assert (Hlr : zlen (Hp ++ Cr) = nf_start ct) by (unfold Cr; rewrite zlen_app, (iter_len ct C _ Hs), <- zlen_app; exact Hl).
    assert (Hk : snf_new ct s (nth (Z.to_nat (nf_start ct - 6)) (encode v') 0) (type_of x) (encode x) =
                 snf_new ct s (nth 0 Hp 0) (type_of x) (encode x)).
    { destruct (Z.eq_dec ct T_MAP) as [Em|Em]; [|apply snf_new_irrel; exact Em].
      rewrite E'. rewrite Em. rewrite ktb_map by (apply Hmap; exact Em). reflexivity. }
    rewrite Hk in H1. destruct (snf_new ct s (nth 0 Hp 0) (type_of x) (encode x)) as [nb'|] eqn:En; [|discriminate H1].
    inversion H1; subst bs' nb. clear H1.
    exists (nb' :: news). split; [constructor; [exact En|exact HF]|].
    split.
    + rewrite <- H2. rewrite E'. rewrite (bump1_decomp ct _ Hp Cr (concat news ++ R1) Hsr Hlr).
      rewrite (app_assoc Hp). rewrite replace_ins by (rewrite zlen_app, (cnext_len _ _ Hsr), <- zlen_app; symmetry; exact Hlr).
      cbn [length citer concat]. fold Cr. rewrite <- !app_assoc. reflexivity.
    + rewrite <- Ht'. eapply child_inserted_type. eapply insert_at_inserted. exact H.
Qed.

Lemma citer_comm ct n C : citer ct n (cnext ct C) = cnext ct (citer ct n C).
Proof. induction n as [|n IH]; [reflexivity|]. cbn [citer]. rewrite IH. reflexivity. Qed.

Definition nbf (ct ktb : Z) (it : pstep * tval) : list Z :=
  match snf_new ct (fst it) ktb (type_of (snd it)) (encode (snd it)) with Some nb => nb | None => [] end.
Definition fbm (ct ktb : Z) (p : pn rq) : pn (list Z) :=
  (fst p, if is_abs p then nbf ct ktb (snd (pn_x p)) else rq_bytes (snd p)).

Lemma filter_cons' {A} (f : A -> bool) a l : filter f (a :: l) = if f a then a :: filter f l else filter f l.
Proof. reflexivity. Qed.

(* Part D: the not-found pass in closed form *)
Lemma nf_pass_closed v ct Hp R : type_of v = ct -> (ct = T_MAP -> (2 <= length Hp)%nat) ->
  forall items j C, cshape ct C -> zlen (Hp ++ C) = nf_start ct ->
  (forall p, In p (plan_from v j items) -> is_abs p = true ->
     snf_new ct (fst (snd (pn_x p))) (nth 0 Hp 0) (type_of (snd (snd (pn_x p)))) (encode (snd (snd (pn_x p)))) <> None) ->
  nf_pass ct (nf_start ct) (Hp ++ C ++ R) (map enc_req items) (map (node_of v) (map fst items)) =
    Some (Hp ++ citer ct (length (filter is_abs (plan_from v j items))) C ++ R, map (fbm ct (nth 0 Hp 0)) (plan_from v j items)).
Proof.
  intros Ht Hmap. induction items as [|[s x] r IH]; intros j C Hs Hl Hok; [reflexivity|].
  cbn [map enc_req fst snd nf_pass plan_from]. unfold node_of at 1. unfold plan_entry. cbn [fst].
  destruct (lookup1 v s) as [c o| |] eqn:L.
  - (* found *)
    assert (Hna : @is_abs rq (o, zlen (encode c), (j, (s, x))) = false).
    { unfold is_abs, pn_l. cbn [fst snd]. pose proof (encode_len_pos c). destruct (Z.eqb_spec (zlen (encode c)) 0); [lia|reflexivity]. }
    rewrite filter_cons', Hna.
    rewrite (IH (S j) C Hs Hl).
    + cbn [map]. unfold fbm. rewrite Hna. unfold rq_bytes. cbn [fst snd].
      replace (o + zlen (encode c) - o) with (zlen (encode c)) by lia. reflexivity.
    + intros p Hin. apply Hok. cbn [plan_from]. right. exact Hin.
  - (* absent *)
    assert (Ha : @is_abs rq (nf_start (type_of v), 0, (j, (s, x))) = true) by reflexivity.
    rewrite filter_cons', Ha. cbn [length citer].
    rewrite snf_eq.
    assert (Hk : snf_new ct s (nth (Z.to_nat (nf_start ct - 6)) (Hp ++ C ++ R) 0) (type_of x) (encode x) =
                 snf_new ct s (nth 0 Hp 0) (type_of x) (encode x)).
    { destruct (Z.eq_dec ct T_MAP) as [Em|Em]; [|apply snf_new_irrel; exact Em].
      rewrite Em. rewrite ktb_map by (apply Hmap; exact Em). reflexivity. }
    rewrite Hk.
    pose proof (Hok (nf_start (type_of v), 0, (j, (s, x))) ltac:(cbn [plan_from]; unfold plan_entry; cbn [fst]; rewrite L; left; reflexivity) Ha) as Hnn.
    unfold pn_x in Hnn. cbn [fst snd] in Hnn.
    destruct (snf_new ct s (nth 0 Hp 0) (type_of x) (encode x)) as [nb|] eqn:En; [|contradiction].
    assert (Hhead : fbm ct (nth 0 Hp 0) (nf_start (type_of v), 0, (j, (s, x))) = (nf_start ct, 0, nb)).
    { unfold fbm. rewrite Ha. unfold nbf, pn_x. cbn [fst snd]. rewrite En, Ht. reflexivity. }
    rewrite (bump1_decomp ct _ Hp C R Hs Hl).
    rewrite (IH (S j) (cnext ct C) (cnext_shape _ _ Hs)).
    + rewrite citer_comm. cbn [map]. rewrite Hhead. reflexivity.
    + rewrite zlen_app, (cnext_len _ _ Hs), <- zlen_app. exact Hl.
    + intros p Hin. apply Hok. cbn [plan_from]. right. exact Hin.
  - (* a step that does not fit: treated as absent, as above *)
    assert (Ha : @is_abs rq (nf_start (type_of v), 0, (j, (s, x))) = true) by reflexivity.
    rewrite filter_cons', Ha. cbn [length citer].
    rewrite snf_eq.
    assert (Hk : snf_new ct s (nth (Z.to_nat (nf_start ct - 6)) (Hp ++ C ++ R) 0) (type_of x) (encode x) =
                 snf_new ct s (nth 0 Hp 0) (type_of x) (encode x)).
    { destruct (Z.eq_dec ct T_MAP) as [Em|Em]; [|apply snf_new_irrel; exact Em].
      rewrite Em. rewrite ktb_map by (apply Hmap; exact Em). reflexivity. }
    rewrite Hk.
    pose proof (Hok (nf_start (type_of v), 0, (j, (s, x))) ltac:(cbn [plan_from]; unfold plan_entry; cbn [fst]; rewrite L; left; reflexivity) Ha) as Hnn.
    unfold pn_x in Hnn. cbn [fst snd] in Hnn.
    destruct (snf_new ct s (nth 0 Hp 0) (type_of x) (encode x)) as [nb|] eqn:En; [|contradiction].
    assert (Hhead : fbm ct (nth 0 Hp 0) (nf_start (type_of v), 0, (j, (s, x))) = (nf_start ct, 0, nb)).
    { unfold fbm. rewrite Ha. unfold nbf, pn_x. cbn [fst snd]. rewrite En, Ht. reflexivity. }
    rewrite (bump1_decomp ct _ Hp C R Hs Hl).
    rewrite (IH (S j) (cnext ct C) (cnext_shape _ _ Hs)).
    + rewrite citer_comm. cbn [map]. rewrite Hhead. reflexivity.
    + rewrite zlen_app, (cnext_len _ _ Hs), <- zlen_app. exact Hl.
    + intros p Hin. apply Hok. cbn [plan_from]. right. exact Hin.
Qed.

(* ---- the pass over insertion points at sp followed by the existing nodes ---- *)
Lemma tailres_advance rest cur a ps : cur <= a ->
  match ps with [] => True | p :: _ => a <= pn_v p /\ 0 <= pn_l p end ->
  tailres rest cur ps = bfirstn (a - cur) rest ++ tailres (bskipn (a - cur) rest) a ps.
Proof.
  intros Hc Hp. destruct ps as [|p r]; cbn [tailres]; [symmetry; apply bfirstn_bskipn|]. destruct Hp as [H1 H2].
  rewrite (bskipn_bskipn (a - cur) (pn_v p + pn_l p - a)) by lia.
  replace (a - cur + (pn_v p + pn_l p - a)) with (pn_v p + pn_l p - cur) by lia.
  rewrite (app_assoc (bfirstn (a - cur) rest)). rewrite <- (bfirstn_plus (a - cur) (pn_v p - a)) by lia.
  replace (a - cur + (pn_v p - a)) with (pn_v p - cur) by lia. reflexivity.
Qed.

Lemma tailres_ins sp P : match P with [] => True | p :: _ => sp <= pn_v p /\ 0 <= pn_l p end ->
  forall news rest cur, cur <= sp ->
  tailres rest cur (map (fun nb => (sp, 0, nb)) news ++ P) =
    bfirstn (sp - cur) rest ++ concat news ++ tailres (bskipn (sp - cur) rest) sp P.
Proof.
  intros HP. induction news as [|nb r IH]; intros rest cur Hc.
  - cbn [map app concat]. apply tailres_advance; assumption.
  - cbn [map app concat tailres]. unfold pn_v, pn_l, pn_x. cbn [fst snd].
    replace (sp + 0) with sp by lia. rewrite (IH _ sp) by lia.
    replace (sp - sp) with 0 by lia. change (bfirstn 0 (bskipn (sp - cur) rest)) with (@nil Z).
    change (bskipn 0 (bskipn (sp - cur) rest)) with (bskipn (sp - cur) rest). cbn [app]. rewrite <- !app_assoc. reflexivity.
Qed.

(* ---- isort: key-preserving maps, membership, length ---- *)
Lemma pn_insert_mapf {A B} (f : pn A -> pn B) (Hf : forall p, fst (f p) = fst p) (x : pn A) (l : list (pn A)) :
  pn_insert (f x) (map f l) = map f (pn_insert x l).
Proof.
  induction l as [|y r IH]; [reflexivity|]. cbn [map pn_insert].
  assert (E : pn_less (f y) (f x) = pn_less y x) by (unfold pn_less, pn_v, pn_l; rewrite !Hf; reflexivity).
  rewrite E. destruct (pn_less y x); cbn [map]; [rewrite IH|]; reflexivity.
Qed.

Lemma isort_mapf {A B} (f : pn A -> pn B) (Hf : forall p, fst (f p) = fst p) (l : list (pn A)) :
  isort (map f l) = map f (isort l).
Proof. unfold isort. induction l as [|x r IH]; [reflexivity|]. cbn [map fold_right]. rewrite IH. apply pn_insert_mapf. exact Hf. Qed.

Lemma pn_insert_in {A} (x p : pn A) l : In p (pn_insert x l) <-> p = x \/ In p l.
Proof.
  induction l as [|y r IH]; cbn [pn_insert In]; [intuition|].
  destruct (pn_less y x); cbn [In]; [rewrite IH|]; intuition.
Qed.

Lemma isort_in {A} (p : pn A) l : In p (isort l) <-> In p l.
Proof.
  unfold isort. induction l as [|x r IH]; cbn [fold_right In]; [reflexivity|]. rewrite pn_insert_in, IH. intuition.
Qed.

Lemma pn_insert_length {A} (x : pn A) l : length (pn_insert x l) = S (length l).
Proof. induction l as [|y r IH]; [reflexivity|]. cbn [pn_insert]. destruct (pn_less y x); cbn [length]; [rewrite IH|]; reflexivity. Qed.

Lemma isort_length {A} (l : list (pn A)) : length (isort l) = length l.
Proof. unfold isort. induction l as [|x r IH]; [reflexivity|]. cbn [fold_right length]. rewrite pn_insert_length, IH. reflexivity. Qed.

Lemma filter_length_le' {A} (f : A -> bool) l : (length (filter f l) <= length l)%nat.
Proof. induction l as [|a l IH]; [reflexivity|]. cbn [filter]. destruct (f a); cbn [length]; lia. Qed.

Lemma plan_abs_v v : forall items j p, In p (plan_from v j items) -> is_abs p = true ->
  fst p = (nf_start (type_of v), 0).
Proof.
  induction items as [|it r IH]; intros j p Hin Ha; [contradiction|]. cbn [plan_from In] in Hin. destruct Hin as [E|Hin]; [|eapply IH; eassumption].
  subst p. unfold plan_entry in *. destruct (lookup1 v (fst it)) as [c o| |]; try reflexivity.
  unfold is_abs, pn_l in Ha. cbn [fst snd] in Ha. pose proof (encode_len_pos c). apply Z.eqb_eq in Ha. lia.
Qed.

Lemma repl_desc_type : forall l v v1, repl_desc v l = Some v1 -> type_of v1 = type_of v.
Proof.
  induction l as [|p r IH]; intros v v1 H; cbn [repl_desc] in H; [inversion H; reflexivity|].
  destruct (snd (pn_x p)) as [s x]. destruct (lookup1 v s) as [c o| |]; try discriminate H.
  destruct ((o =? pn_v p) && (zlen (encode c) =? pn_l p) && (type_of c =? type_of x) && wf x && wf v && (depth v <=? max_skip_depth)%nat);
    [|discriminate H].
  destruct (ast_set true [s] x v) as [[v' ex]|] eqn:Es; [|discriminate H].
  rewrite (IH _ _ H). eapply ast_set_type. exact Es.
Qed.

Lemma Forall2_in_l {A B} (P : A -> B -> Prop) l l' a : Forall2 P l l' -> In a l -> exists b, P a b.
Proof.
  intros HF. induction HF as [|x y l l' Hxy HF IH]; intros Hin; [contradiction|].
  destruct Hin as [E|Hin]; [subst; exists y; exact Hxy|apply IH; exact Hin].
Qed.

Lemma chain_ok_ins' sp len (P : list (pn (list Z))) : chain_ok sp len P ->
  forall news, chain_ok sp len (map (fun nb => (sp, 0, nb)) news ++ P).
Proof.
  intros HP. induction news as [|nb r IH]; [exact HP|]. cbn [map app chain_ok]. unfold pn_v, pn_l. cbn [fst snd].
  replace (sp + 0) with sp by lia. repeat split; try lia. exact IH.
Qed.

Lemma ins_bytes_map ct ktb sp : forall (ins : list (pn rq)) news,
  Forall (fun p => fst p = (sp, 0) /\ is_abs p = true) ins ->
  Forall2 (fun it nb => snf_new ct (fst it) ktb (type_of (snd it)) (encode (snd it)) = Some nb) (map (fun p => snd (pn_x p)) ins) news ->
  map (fbm ct ktb) ins = map (fun nb => (sp, 0, nb)) news.
Proof.
  induction ins as [|p r IH]; intros news HF H2; cbn [map] in *.
  - inversion H2; reflexivity.
  - inversion H2 as [|? nb ? news' Hh Ht]; subst. inversion HF as [|? ? [Hp Ha] HF']; subst.
    cbn [map]. rewrite (IH _ HF' Ht). f_equal. unfold fbm. rewrite Ha, Hp. unfold nbf. unfold rq in *. rewrite Hh. reflexivity.
Qed.

Lemma hp_map_len v : type_of v = T_MAP -> (2 <= length (hp_of v))%nat.
Proof. destruct v; cbn [type_of hp_of length]; try discriminate; intros; lia. Qed.

(* ================= the full refinement ================= *)
Theorem set_many_refines : set_many_refines_statement.
Proof.
  intros v items v2 Hw Hdp HS. assert (Hg : good v) by (split; assumption).
  destruct items as [|[s0 x0] r]; [cbn in HS; inversion HS; reflexivity|].
  unfold set_many_spec in HS. set (items := (s0, x0) :: r) in *.
  destruct (api_fits (api_of s0) (type_of v)) eqn:Ef; [|discriminate HS]. cbn [negb] in HS.
  destruct (forallb (fun it => api_of (fst it) =? api_of s0) items) eqn:Ea; [|discriminate HS]. cbn [negb] in HS.
  cbv zeta in HS.
  set (pl := plan_from v 0 items) in *. set (srt := isort pl) in *. set (k := length (filter is_abs pl)) in *.
  set (ins := firstn k srt) in *. set (rep := skipn k srt) in *.
  match type of HS with (if negb ?b then None else _) = _ => destruct b eqn:Enl; [cbn [negb] in HS|discriminate HS] end.
  match type of HS with (if negb ?b then None else _) = _ => destruct b eqn:Eia; [cbn [negb] in HS|discriminate HS] end.
  match type of HS with (if negb ?b then None else _) = _ => destruct b eqn:Era; [cbn [negb] in HS|discriminate HS] end.
  match type of HS with (if negb ?b then None else _) = _ => destruct b eqn:Ec; [cbn [negb] in HS|discriminate HS] end.
  destruct (repl_desc v (rev rep)) as [v1|] eqn:Er; [|discriminate HS].
  (* header of the container *)
  pose proof (api_fits_cont _ _ Ef) as Hcont.
  destruct (encode_hdr v Hcont) as [R [E [Hl Hs]]].
  set (ct := type_of v) in *. set (sp := nf_start ct) in *. set (Hp := hp_of v) in *. set (C := cnt_of v) in *.
  assert (Hmap : ct = T_MAP -> (2 <= length Hp)%nat) by (apply hp_map_len).
  assert (Hsp : 0 <= sp) by (unfold sp, nf_start; destruct (ct =? T_STRUCT); [lia|]; destruct (ct =? T_MAP); lia).
  assert (Hsrt : srt = ins ++ rep) by (symmetry; apply firstn_skipn).
  pose proof (chain_okb_ok _ _ _ Ec) as Hc.
  set (repb := map fb rep).
  assert (Hcb : chain_ok sp (zlen (encode v)) repb) by (apply chain_ok_map; [intros p; split; reflexivity|exact Hc]).
  (* the replacements: encode v1 *)
  assert (E1 : encode v1 = Hp ++ C ++ tailres R sp repb).
  { rewrite (repl_desc_bytes _ _ _ Er). fold repb. rewrite (splice_tail _ _ sp Hsp Hcb).
    rewrite E. rewrite (app_assoc Hp C R). rewrite (bfirstn_app_n sp (Hp ++ C) R) by (symmetry; exact Hl).
    rewrite (bskipn_app_n sp (Hp ++ C) R) by (symmetry; exact Hl). rewrite <- app_assoc. reflexivity. }
  pose proof (repl_desc_type _ _ _ Er) as Ht1. fold ct in Ht1.
  (* the insertions: encode v2 *)
  destruct (ins_many_bytes ct Hp Hcont Hmap _ v1 v2 C (tailres R sp repb) HS Ht1 Hs Hl E1) as [news [HF2 [E2 _]]].
  rewrite map_length in E2.
  (* every insertion point of the plan is one of [ins] *)
  assert (Hins : Forall (fun p => fst p = (sp, 0) /\ is_abs p = true) ins).
  { rewrite Forall_forall. intros p Hin. rewrite forallb_forall in Eia. pose proof (Eia p Hin) as Ha. split; [|exact Ha].
    apply (plan_abs_v v items 0 p); [|exact Ha]. apply isort_in. fold pl. fold srt. rewrite Hsrt. apply in_or_app. left. exact Hin. }
  assert (Hok : forall p, In p pl -> is_abs p = true ->
            snf_new ct (fst (snd (pn_x p))) (nth 0 Hp 0) (type_of (snd (snd (pn_x p)))) (encode (snd (snd (pn_x p)))) <> None).
  { intros p Hin Ha. apply isort_in in Hin. fold srt in Hin. rewrite Hsrt in Hin. apply in_app_or in Hin. destruct Hin as [Hin|Hin].
    - destruct (Forall2_in_l _ _ _ (snd (pn_x p)) HF2 (in_map _ _ _ Hin)) as [nb Hnb]. rewrite Hnb. discriminate.
    - rewrite forallb_forall in Era. pose proof (Era p Hin) as Hn. rewrite Ha in Hn. discriminate Hn. }
  assert (Hk : length ins = k).
  { unfold ins. apply firstn_length_le. unfold srt. rewrite isort_length. apply filter_length_le'. }
  (* the byte side *)
  unfold set_many_bytes. unfold items at 1. cbn [map enc_req fst snd]. fold (enc_req (s0, x0)).
  change (enc_req (s0, x0) :: map enc_req r) with (map enc_req items).
  fold ct. rewrite Ef. cbn [negb].
  assert (Em : map (fun it : pstep * Z * list Z => fst (fst it)) (map enc_req items) = map fst items) by (rewrite map_map; reflexivity).
  rewrite Em. pose proof (get_all_refines v (api_of s0) (map fst items) Hg Ef ltac:(rewrite forallb_map'; exact Ea)) as Hga.
  fold ct in Hga. rewrite Hga. clear Hga.
  fold sp. rewrite E.
  pose proof (nf_pass_closed v ct Hp R eq_refl Hmap items 0 C Hs Hl Hok) as Hnf. fold sp in Hnf. fold pl in Hnf. fold k in Hnf.
  rewrite Hnf. clear Hnf.
  set (B' := Hp ++ citer ct k C ++ R).
  rewrite (isort_mapf (fbm ct (nth 0 Hp 0)) (fun p => eq_refl)). fold srt. rewrite Hsrt, map_app.
  rewrite (ins_bytes_map ct (nth 0 Hp 0) sp ins news Hins HF2).
  assert (Erep : map (fbm ct (nth 0 Hp 0)) rep = repb).
  { unfold repb. apply map_ext_in. intros p Hin. rewrite forallb_forall in Era. pose proof (Era p Hin) as Hn.
    unfold fbm, fb. destruct (is_abs p); [discriminate Hn|reflexivity]. }
  rewrite Erep.
  assert (HlB : zlen B' = zlen (encode v)).
  { unfold B'. rewrite E, !zlen_app, (iter_len ct C k Hs). reflexivity. }
  assert (Hc0 : chain_ok 0 (zlen B') (map (fun nb => (sp, 0, nb)) news ++ repb)).
  { rewrite HlB. eapply chain_ok_weaken; [exact Hsp|]. apply chain_ok_ins'. exact Hcb. }
  rewrite loop_tail by (try lia; exact Hc0). cbn [app]. change (bskipn 0 B') with B'.
  assert (HP : match repb with [] => True | p :: _ => sp <= pn_v p /\ 0 <= pn_l p end).
  { destruct repb as [|p rr]; [exact I|]. cbn [chain_ok] in Hcb. tauto. }
  f_equal. etransitivity; [apply (tailres_ins sp repb HP news B' 0 Hsp)|]. replace (sp - 0) with sp by lia.
  assert (Hlk : zlen (Hp ++ citer ct k C) = sp) by (rewrite zlen_app, (iter_len ct C k Hs), <- zlen_app; exact Hl).
  unfold B'. rewrite (app_assoc Hp (citer ct k C) R).
  rewrite (bfirstn_app_n sp (Hp ++ citer ct k C) R) by (symmetry; exact Hlk).
  rewrite (bskipn_app_n sp (Hp ++ citer ct k C) R) by (symmetry; exact Hlk).
  rewrite E2. rewrite <- !app_assoc. f_equal. f_equal. f_equal. symmetry. exact Hk.
Qed.

(* each insertion is what ast_set does for a last step that addresses nothing at that moment *)
Lemma ins_front_is_ast_set s x v v' : lookup1 v s = LNotFound -> ins_front s x v = Some v' ->
  ast_set true [s] x v = Some (v', false).
Proof.
  intros L H. rewrite ins_front_insert_at in H. rewrite ast_set_cons_eq.
  pose proof (descend_spec (ast_set true [] x) s v) as HD. pose proof (lsub_lookup1 v s) as HL. rewrite L in HL. cbn [lsub] in HL.
  destruct (descend (ast_set true [] x) s v) as [| |v1 e1].
  - rewrite H. reflexivity.
  - destruct HD as [HD|[c [HD _]]]; rewrite HD in HL; discriminate HL.
  - destruct HD as [c [c' [HD _]]]. rewrite HD in HL. discriminate HL.
Qed.

(* an error of SetMany comes before anything is written: a request list of the wrong family for the node *)
Lemma set_many_bytes_err t bs s0 xt xb r : api_fits (api_of s0) t = false -> set_many_bytes t bs ((s0, xt, xb) :: r) = MErr.
Proof. intros H. unfold set_many_bytes. rewrite H. reflexivity. Qed.

(* replaceMany's single pass = Node.replace applied once per node, from the highest address down *)
Theorem replace_many_is_splices bs ps : chain_ok 0 (zlen bs) ps ->
  replace_many_loop bs (zlen bs) ps 0 [] = Some (fold_right splice bs ps).
Proof.
  intros Hc. rewrite loop_tail by (try lia; exact Hc). rewrite (splice_tail bs ps 0 ltac:(lia) Hc). reflexivity.
Qed.
