(* C04: Node.SetMany at algorithm level (model/ThriftEditMany.v) refines the AST-level edits.
   replaceMany's single pass over the address-sorted PathNodes = the sequence of single splices (Node.replace) applied from
   the highest address down; each of those is one ast_set on the value edited so far; the not-found pass + the splices at
   the front of the container = the insertions.  *)
From Coq Require Import ZArith List Bool Lia.
From DG Require Import ProtoWireRef ProtoWireRefProofs ThriftWire ThriftWireProofs ThriftCanonProofs CaseFormat ThriftGeneric ThriftGenericProofs
  ThriftEdit ThriftEditProofs ThriftEditBytes ThriftEditBytesProofs ThriftEditMany.
Import ListNotations.
Local Open Scope Z_scope.

(* ================= slices ================= *)
Lemma firstn_plus {A} (l : list A) : forall a b, firstn (a + b) l = firstn a l ++ firstn b (skipn a l).
Proof.
  intros a. revert l. induction a as [|a IH]; intros l b; [reflexivity|].
  destruct l as [|x l]; cbn [Nat.add firstn skipn app]; [destruct b; reflexivity|]. rewrite IH. reflexivity.
Qed.

Lemma bfirstn_plus a b (l : list Z) : 0 <= a -> 0 <= b -> bfirstn (a + b) l = bfirstn a l ++ bfirstn b (bskipn a l).
Proof. intros Ha Hb. unfold bfirstn, bskipn. rewrite Z2Nat.inj_add by lia. apply firstn_plus. Qed.

Lemma skipn_plus {A} (l : list A) : forall a b, skipn b (skipn a l) = skipn (a + b) l.
Proof.
  intros a. revert l. induction a as [|a IH]; intros l b; [reflexivity|].
  destruct l as [|x l]; cbn [Nat.add skipn]; [destruct b; reflexivity|]. apply IH.
Qed.

Lemma bskipn_bskipn a b (l : list Z) : 0 <= a -> 0 <= b -> bskipn b (bskipn a l) = bskipn (a + b) l.
Proof. intros Ha Hb. unfold bskipn. rewrite skipn_plus. f_equal. lia. Qed.

Lemma bfirstn_bskipn (n : Z) (l : list Z) : bfirstn n l ++ bskipn n l = l.
Proof. apply firstn_skipn. Qed.

Lemma bskipn_all n (l : list Z) : zlen l <= n -> bskipn n l = [].
Proof. intros H. unfold bskipn. apply skipn_all2. unfold zlen in H. lia. Qed.

Lemma bfirstn_nil n : bfirstn n (@nil Z) = [].
Proof. unfold bfirstn. apply firstn_nil. Qed.

Lemma zlen_bfirstn n (l : list Z) : 0 <= n <= zlen l -> zlen (bfirstn n l) = n.
Proof. intros H. unfold zlen, bfirstn in *. rewrite firstn_length. lia. Qed.

(* ================= replaceMany's pass ================= *)
(* what the pass emits from [cur] on, [rest] being the buffer from there *)
Fixpoint tailres (rest : list Z) (cur : Z) (ps : list (pn (list Z))) : list Z :=
  match ps with
  | [] => rest
  | p :: r => bfirstn (pn_v p - cur) rest ++ pn_x p ++ tailres (bskipn (pn_v p + pn_l p - cur) rest) (pn_v p + pn_l p) r
  end.

Fixpoint chain_ok {A} (a len : Z) (l : list (pn A)) : Prop :=
  match l with
  | [] => a <= len
  | p :: r => a <= pn_v p /\ 0 <= pn_l p /\ chain_ok (pn_v p + pn_l p) len r
  end.

Lemma chain_okb_ok {A} len (l : list (pn A)) : forall a, chain_okb a len l = true -> chain_ok a len l.
Proof.
  induction l as [|p r IH]; intros a H; cbn [chain_okb chain_ok] in *.
  - apply Z.leb_le. exact H.
  - apply andb_true_iff in H. destruct H as [H H3]. apply andb_true_iff in H. destruct H as [H1 H2].
    apply Z.leb_le in H1, H2. auto.
Qed.

Lemma chain_ok_le {A} len (l : list (pn A)) : forall a, chain_ok a len l -> a <= len.
Proof.
  induction l as [|p r IH]; intros a H; cbn [chain_ok] in H; [exact H|].
  destruct H as [H1 [H2 H3]]. specialize (IH _ H3). lia.
Qed.

Lemma chain_ok_weaken {A} len (l : list (pn A)) a b : b <= a -> chain_ok a len l -> chain_ok b len l.
Proof. destruct l as [|p r]; cbn [chain_ok]; intros; [lia|]. destruct H0 as [? [? ?]]. repeat split; auto; lia. Qed.

Lemma chain_ok_map {A B} (f : pn A -> pn B) len (l : list (pn A)) :
  (forall p, pn_v (f p) = pn_v p /\ pn_l (f p) = pn_l p) -> forall a, chain_ok a len l -> chain_ok a len (map f l).
Proof.
  intros Hf. induction l as [|p r IH]; intros a H; cbn [map chain_ok] in *; [exact H|].
  destruct (Hf p) as [E1 E2]. rewrite E1, E2. destruct H as [H1 [H2 H3]]. auto.
Qed.

(* the loop = the accumulated buffer followed by [tailres] *)
Lemma loop_tail bs : forall ps offset buf, 0 <= offset -> chain_ok offset (zlen bs) ps ->
  replace_many_loop bs (zlen bs) ps offset buf = Some (buf ++ tailres (bskipn offset bs) offset ps).
Proof.
  induction ps as [|p r IH]; intros offset buf H0 Hc; cbn [replace_many_loop tailres].
  - destruct (Z.ltb_spec offset (zlen bs)); [reflexivity|]. rewrite bskipn_all by lia. rewrite app_nil_r. reflexivity.
  - cbn [chain_ok] in Hc. destruct Hc as [H1 [H2 H3]]. pose proof (chain_ok_le _ _ _ H3) as Hle.
    rewrite (bskipn_bskipn offset (pn_v p + pn_l p - offset)) by lia.
    replace (offset + (pn_v p + pn_l p - offset)) with (pn_v p + pn_l p) by lia.
    destruct (Z.ltb_spec offset (zlen bs)) as [Hlt|Hge].
    + destruct (Z.ltb_spec (pn_v p - offset) 0); [lia|].
      rewrite IH by (try lia; exact H3). rewrite <- !app_assoc. reflexivity.
    + rewrite IH by (try lia; exact H3). rewrite (bskipn_all offset) by lia. rewrite bfirstn_nil.
      cbn [app]. rewrite <- !app_assoc. reflexivity.
Qed.

(* one splice of Node.replace per node *)
Definition splice (p : pn (list Z)) (acc : list Z) : list Z := replace acc (pn_v p) (pn_v p + pn_l p) (pn_x p).

Lemma split3 (bs : list Z) v l : 0 <= v -> 0 <= l -> v + l <= zlen bs ->
  exists P1 M P3, bs = P1 ++ M ++ P3 /\ zlen P1 = v /\ zlen M = l.
Proof.
  intros Hv Hl Hlen. exists (bfirstn v bs), (bfirstn l (bskipn v bs)), (bskipn l (bskipn v bs)).
  split; [rewrite bfirstn_bskipn, bfirstn_bskipn; reflexivity|].
  split; [apply zlen_bfirstn; lia|]. apply zlen_bfirstn. unfold zlen, bskipn in *. rewrite skipn_length. lia.
Qed.

(* the single pass = the splices applied from the LAST node to the first *)
Lemma splice_tail bs : forall ps a, 0 <= a -> chain_ok a (zlen bs) ps ->
  fold_right splice bs ps = bfirstn a bs ++ tailres (bskipn a bs) a ps.
Proof.
  induction ps as [|p r IH]; intros a Ha Hc; cbn [fold_right tailres].
  - symmetry. apply bfirstn_bskipn.
  - cbn [chain_ok] in Hc. destruct Hc as [H1 [H2 H3]]. pose proof (chain_ok_le _ _ _ H3) as Hle.
    rewrite (IH (pn_v p + pn_l p)) by (try lia; exact H3).
    rewrite (bskipn_bskipn a (pn_v p + pn_l p - a)) by lia.
    replace (a + (pn_v p + pn_l p - a)) with (pn_v p + pn_l p) by lia.
    rewrite app_assoc. rewrite <- (bfirstn_plus a (pn_v p - a)) by lia. replace (a + (pn_v p - a)) with (pn_v p) by lia.
    destruct (split3 bs (pn_v p) (pn_l p) ltac:(lia) H2 Hle) as [P1 [M [P3 [E [L1 L2]]]]].
    set (T := tailres (bskipn (pn_v p + pn_l p) bs) (pn_v p + pn_l p) r).
    assert (E1 : bfirstn (pn_v p + pn_l p) bs = P1 ++ M).
    { rewrite E, app_assoc. apply bfirstn_app_n. rewrite zlen_app. lia. }
    assert (E2 : bfirstn (pn_v p) bs = P1) by (rewrite E; apply bfirstn_app_n; lia).
    rewrite E1, E2. unfold splice. rewrite <- app_assoc. rewrite replace_mid by lia. reflexivity.
Qed.

(* ================= isort only looks at (address, length) ================= *)
Lemma pn_insert_map {A B} (g : A -> B) (x : pn A) (l : list (pn A)) :
  pn_insert (fst x, g (snd x)) (map (fun p => (fst p, g (snd p))) l) = map (fun p => (fst p, g (snd p))) (pn_insert x l).
Proof.
  induction l as [|y r IH]; [reflexivity|]. cbn [map pn_insert].
  change (pn_less (fst y, g (snd y)) (fst x, g (snd x))) with (pn_less y x).
  destruct (pn_less y x); cbn [map]; [rewrite IH|]; reflexivity.
Qed.

Lemma isort_map {A B} (g : A -> B) (l : list (pn A)) :
  isort (map (fun p => (fst p, g (snd p))) l) = map (fun p => (fst p, g (snd p))) (isort l).
Proof.
  unfold isort. induction l as [|x r IH]; [reflexivity|]. cbn [map fold_right]. rewrite IH. apply pn_insert_map.
Qed.

(* ================= getMany against the AST ================= *)
Definition node_of (v : tval) (s : pstep) : gnode :=
  match lookup1 v s with
  | LFound c o => GNode (type_of c) o (o + zlen (encode c))
  | _ => GNone
  end.

Lemma get_one_refines v s : good v -> api_fits (api_of s) (type_of v) = true ->
  get_one (api_of s) (type_of v) (encode v) s = Some (node_of v s).
Proof.
  intros Hg Hf. unfold get_one, node_of. rewrite Z.eqb_refl. cbn [negb].
  pose proof (search1_refines v s [] Hg) as HS. rewrite app_nil_r in HS.
  destruct v as [?|?|?|?|?|?|?|fs|kt vt es|et es|et es]; destruct s as [id|i|ks|n|b]; try discriminate Hf; cbn [lookup1] in *.
  - (* struct / field *)
    destruct (find_field id fs 0) as [c o| |] eqn:E; cbn [sres_matches] in HS.
    + destruct HS as [r' HS]. rewrite HS.
      assert (Gc : good c) by (eapply (lookup1_good (VStruct fs) (PField id)); [exact Hg|exact E]).
      rewrite skip_go_encode by exact Gc. rewrite zlen_app. do 2 f_equal. lia.
    + rewrite HS. reflexivity.
    + pose proof (find_field_gfind id fs 0) as Hx. rewrite E in Hx. cbn [lsub] in Hx.
      destruct (gfind (fun i => i =? id) fs); discriminate Hx.
  - (* map / string key *)
    cbn [encode nth]. cbn [key_kind_ok]. destruct (kt =? T_STRING) eqn:Ek; cbn [negb]; [|reflexivity].
    destruct (find_key (str_key_is ks) es 6) as [c o| |] eqn:E; cbn [sres_matches] in HS.
    + destruct HS as [r' HS]. cbn [encode] in HS. rewrite HS.
      assert (Gc : good c) by (eapply (lookup1_good (VMap kt vt es) (PStrKey ks)); [exact Hg|cbn [lookup1]; rewrite Ek; exact E]).
      rewrite skip_go_encode by exact Gc. rewrite zlen_app. do 2 f_equal. lia.
    + cbn [encode] in HS. rewrite HS. reflexivity.
    + pose proof (find_key_gfind (str_key_is ks) es 6) as Hx. rewrite E in Hx. cbn [lsub] in Hx.
      destruct (gfind (str_key_is ks) es); discriminate Hx.
  - (* map / integer key *)
    cbn [encode nth]. cbn [key_kind_ok]. destruct (is_int_type kt) eqn:Ek; cbn [negb]; [|reflexivity].
    destruct (find_key (int_key_is n) es 6) as [c o| |] eqn:E; cbn [sres_matches] in HS.
    + destruct HS as [r' HS]. cbn [encode] in HS. rewrite HS.
      assert (Gc : good c) by (eapply (lookup1_good (VMap kt vt es) (PIntKey n)); [exact Hg|cbn [lookup1]; rewrite Ek; exact E]).
      rewrite skip_go_encode by exact Gc. rewrite zlen_app. do 2 f_equal. lia.
    + cbn [encode] in HS. rewrite HS. reflexivity.
    + pose proof (find_key_gfind (int_key_is n) es 6) as Hx. rewrite E in Hx. cbn [lsub] in Hx.
      destruct (gfind (int_key_is n) es); discriminate Hx.
  - (* map / raw key *)
    destruct (find_key (bin_key_is b) es 6) as [c o| |] eqn:E; cbn [sres_matches] in HS.
    + destruct HS as [r' HS]. rewrite HS.
      assert (Gc : good c) by (eapply (lookup1_good (VMap kt vt es) (PBinKey b)); [exact Hg|exact E]).
      rewrite skip_go_encode by exact Gc. rewrite zlen_app. do 2 f_equal. lia.
    + rewrite HS. reflexivity.
    + pose proof (find_key_gfind (bin_key_is b) es 6) as Hx. rewrite E in Hx. cbn [lsub] in Hx.
      destruct (gfind (bin_key_is b) es); discriminate Hx.
  - (* set / index *)
    destruct (Z.ltb_spec i 0); [reflexivity|].
    destruct (find_index (Z.to_nat i) es 5) as [c o| |] eqn:E; cbn [sres_matches] in HS.
    + destruct HS as [r' HS]. rewrite HS.
      assert (Gc : good c).
      { eapply (lookup1_good (VSet et es) (PIndex i)); [exact Hg|]. cbn [lookup1]. destruct (Z.ltb_spec i 0); [lia|exact E]. }
      rewrite skip_go_encode by exact Gc. rewrite zlen_app. do 2 f_equal. lia.
    + rewrite HS. reflexivity.
    + pose proof (find_index_nth es (Z.to_nat i) 5) as Hx. rewrite E in Hx. cbn [lsub] in Hx.
      destruct (nth_error es (Z.to_nat i)); discriminate Hx.
  - (* list / index *)
    destruct (Z.ltb_spec i 0); [reflexivity|].
    destruct (find_index (Z.to_nat i) es 5) as [c o| |] eqn:E; cbn [sres_matches] in HS.
    + destruct HS as [r' HS]. rewrite HS.
      assert (Gc : good c).
      { eapply (lookup1_good (VList et es) (PIndex i)); [exact Hg|]. cbn [lookup1]. destruct (Z.ltb_spec i 0); [lia|exact E]. }
      rewrite skip_go_encode by exact Gc. rewrite zlen_app. do 2 f_equal. lia.
    + rewrite HS. reflexivity.
    + pose proof (find_index_nth es (Z.to_nat i) 5) as Hx. rewrite E in Hx. cbn [lsub] in Hx.
      destruct (nth_error es (Z.to_nat i)); discriminate Hx.
Qed.

Lemma get_all_refines v api (ss : list pstep) : good v -> api_fits api (type_of v) = true ->
  forallb (fun s => api_of s =? api) ss = true ->
  get_all api (type_of v) (encode v) ss = Some (map (node_of v) ss).
Proof.
  intros Hg Hf. induction ss as [|s r IH]; intros Ha; [reflexivity|].
  cbn [forallb] in Ha. apply andb_true_iff in Ha. destruct Ha as [Hs Hr]. apply Z.eqb_eq in Hs. subst api.
  cbn [get_all map]. rewrite (get_one_refines v s Hg Hf), (IH Hr). reflexivity.
Qed.

(* ================= one replacement = one splice = one ast_set ================= *)
Lemma present_step v s x c o : good v -> lookup1 v s = LFound c o -> type_of c = type_of x ->
  exists v', ast_set true [s] x v = Some (v', true) /\
             encode v' = replace (encode v) o (o + zlen (encode c)) (encode x).
Proof.
  intros Hg L Ht.
  assert (Hd : set_dom [s] v = true) by (cbn [set_dom]; rewrite L; reflexivity).
  pose proof (set_spec [s] x v 0 Hg Hd) as HS. cbn [wlookup lookup] in HS. rewrite L in HS.
  destruct (ast_set true [s] x v) as [[v' [|]]|].
  - destruct HS as [sub [pre [post [Hl [_ [_ [E E']]]]]]]. inversion Hl; subst sub. exists v'. split; [reflexivity|].
    rewrite E at 1. rewrite replace_mid by lia. exact E'.
  - destruct HS as [ct [pos [q [ls [_ [Hw _]]]]]]. discriminate Hw.
  - rewrite Ht, Z.eqb_refl in HS. discriminate HS.
Qed.

Definition rq_bytes (r : rq) : list Z := encode (snd (snd r)).
Definition fb (p : pn rq) : pn (list Z) := (fst p, rq_bytes (snd p)).

Lemma repl_chain : forall l v v1, repl_desc v l = Some v1 ->
  encode v1 = fold_left (fun b p => splice (fb p) b) l (encode v).
Proof.
  induction l as [|p r IH]; intros v v1 H; cbn [repl_desc fold_left] in *; [inversion H; reflexivity|].
  destruct (snd (pn_x p)) as [s x] eqn:Ep.
  destruct (lookup1 v s) as [c o| |] eqn:L; try discriminate H.
  destruct ((o =? pn_v p) && (zlen (encode c) =? pn_l p) && (type_of c =? type_of x) && wf x && wf v && (depth v <=? max_skip_depth)%nat) eqn:Ec;
    [|discriminate H].
  repeat (apply andb_true_iff in Ec; destruct Ec as [Ec ?]).
  apply Z.eqb_eq in Ec. match goal with H : (zlen (encode c) =? pn_l p) = true |- _ => apply Z.eqb_eq in H; rename H into El end.
  match goal with H : (type_of c =? type_of x) = true |- _ => apply Z.eqb_eq in H; rename H into Et end.
  match goal with H : (depth v <=? max_skip_depth)%nat = true |- _ => apply Nat.leb_le in H; rename H into Hdp end.
  assert (Hg : good v) by (split; assumption).
  destruct (present_step v s x c o Hg L Et) as [v' [Hs He]]. rewrite Hs in H.
  rewrite (IH v' v1 H). f_equal. rewrite He. unfold splice, fb, rq_bytes, pn_v, pn_l, pn_x. cbn [fst snd].
  unfold pn_x in Ep. rewrite Ep. cbn [snd]. unfold pn_v, pn_l in *. rewrite <- Ec, <- El. reflexivity.
Qed.

Lemma fold_right_fb (bs : list Z) (l : list (pn rq)) :
  fold_right (fun p b => splice (fb p) b) bs l = fold_right splice bs (map fb l).
Proof. induction l as [|p r IH]; [reflexivity|]. cbn [map fold_right]. rewrite IH. reflexivity. Qed.

Lemma repl_desc_bytes v rep v1 : repl_desc v (rev rep) = Some v1 ->
  encode v1 = fold_right splice (encode v) (map fb rep).
Proof.
  intros H. rewrite (repl_chain _ _ _ H). rewrite <- fold_right_fb.
  rewrite <- (rev_involutive rep) at 2. rewrite fold_left_rev_right. reflexivity.
Qed.

(* ================= the not-found pass when nothing is absent ================= *)
Definition enc_req (it : pstep * tval) : mreq := (fst it, type_of (snd it), encode (snd it)).

Lemma nf_pass_present v ct sp bs : forall items j,
  Forall (fun it => exists c o, lookup1 v (fst it) = LFound c o) items ->
  nf_pass ct sp bs (map enc_req items) (map (node_of v) (map fst items)) = Some (bs, map fb (plan_from v j items)).
Proof.
  induction items as [|[s x] r IH]; intros j HF; [reflexivity|].
  inversion HF as [|? ? [c [o L]] HF']; subst. cbn [fst] in L.
  cbn [map enc_req fst snd nf_pass plan_from]. unfold node_of at 1. rewrite L. rewrite (IH (S j) HF').
  unfold plan_entry. cbn [fst]. rewrite L. unfold fb, rq_bytes. cbn [fst snd map].
  replace (o + zlen (encode c) - o) with (zlen (encode c)) by lia. reflexivity.
Qed.

Lemma plan_all_present v : forall items j, filter is_abs (plan_from v j items) = [] ->
  Forall (fun it => exists c o, lookup1 v (fst it) = LFound c o) items.
Proof.
  induction items as [|it r IH]; intros j H; [constructor|]. cbn [plan_from filter] in H.
  unfold plan_entry in H. destruct (lookup1 v (fst it)) as [c o| |] eqn:L.
  - unfold is_abs, pn_l in H. cbn [fst snd] in H. pose proof (encode_len_pos c) as Hp.
    destruct (Z.eqb_spec (zlen (encode c)) 0); [lia|]. constructor; [exists c, o; exact L|]. eapply IH. exact H.
  - unfold is_abs, pn_l in H. cbn [fst snd] in H. discriminate H.
  - unfold is_abs, pn_l in H. cbn [fst snd] in H. discriminate H.
Qed.

Lemma forallb_map' {A B} (f : A -> B) (g : B -> bool) (l : list A) : forallb g (map f l) = forallb (fun a => g (f a)) l.
Proof. induction l as [|a l IH]; [reflexivity|]. cbn [map forallb]. rewrite IH. reflexivity. Qed.

(* the statement of the full refinement (insertions included) *)
Definition set_many_refines_statement : Prop :=
  forall v items v2, wf v = true -> (depth v <= max_skip_depth)%nat -> set_many_spec v items = Some v2 ->
    set_many_bytes (type_of v) (encode v) (map enc_req items) = MOk (encode v2).

(* ================= replacements only ================= *)
Theorem set_many_refines_partial : forall v items v2,
  wf v = true -> (depth v <= max_skip_depth)%nat -> set_many_spec v items = Some v2 ->
  filter is_abs (plan_from v 0 items) = [] ->
  set_many_bytes (type_of v) (encode v) (map enc_req items) = MOk (encode v2).
Proof.
  intros v items v2 Hw Hdp HS Habs. assert (Hg : good v) by (split; assumption).
  destruct items as [|[s0 x0] r]; [cbn in HS; inversion HS; reflexivity|].
  unfold set_many_spec in HS. set (items := (s0, x0) :: r) in *.
  destruct (api_fits (api_of s0) (type_of v)) eqn:Ef; [|discriminate HS]. cbn [negb] in HS.
  destruct (forallb (fun it => api_of (fst it) =? api_of s0) items) eqn:Ea; [|discriminate HS]. cbn [negb] in HS.
  cbv zeta in HS. rewrite Habs in HS. cbn [length firstn skipn map] in HS.
  change (nat_list_eqb [] []) with true in HS. cbn [negb] in HS.
  destruct (forallb (fun p => negb (is_abs p)) (isort (plan_from v 0 items))); [|discriminate HS]. cbn [negb] in HS.
  destruct (chain_okb (nf_start (type_of v)) (zlen (encode v)) (isort (plan_from v 0 items))) eqn:Ec; [|discriminate HS].
  cbn [negb] in HS.
  destruct (repl_desc v (rev (isort (plan_from v 0 items)))) as [v1|] eqn:Er; [|discriminate HS].
  cbn [ins_many] in HS. inversion HS; subst v2. clear HS.
  (* the byte side *)
  unfold set_many_bytes. unfold items at 1. cbn [map enc_req fst snd]. fold (enc_req (s0, x0)). change (enc_req (s0, x0) :: map enc_req r) with (map enc_req items).
  rewrite Ef. cbn [negb].
  assert (Em : map (fun it : pstep * Z * list Z => fst (fst it)) (map enc_req items) = map fst items) by (rewrite map_map; reflexivity).
  rewrite Em. rewrite (get_all_refines v (api_of s0) (map fst items) Hg Ef) by (rewrite forallb_map'; exact Ea).
  rewrite (nf_pass_present v _ _ _ items 0 (plan_all_present v items 0 Habs)).
  assert (Efb : map fb (plan_from v 0 items) = map (fun p => (fst p, rq_bytes (snd p))) (plan_from v 0 items)) by reflexivity.
  rewrite Efb, isort_map. fold fb.
  pose proof (chain_okb_ok _ _ _ Ec) as Hc.
  assert (Hsp : 0 <= nf_start (type_of v)) by (unfold nf_start; destruct (type_of v =? T_STRUCT); [lia|]; destruct (type_of v =? T_MAP); lia).
  assert (Hc0 : chain_ok 0 (zlen (encode v)) (map fb (isort (plan_from v 0 items)))).
  { apply chain_ok_map; [intros p; split; reflexivity|]. eapply chain_ok_weaken; [|exact Hc]. exact Hsp. }
  rewrite loop_tail by (try lia; exact Hc0).
  rewrite (repl_desc_bytes _ _ _ Er). rewrite (splice_tail _ _ 0 ltac:(lia) Hc0).
  reflexivity.
Qed.
