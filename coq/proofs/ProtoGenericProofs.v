(* Lemmas about the lookup spec (model/ProtoGeneric.v) and its relation to the proved codec. *)
From Coq Require Import ZArith List Bool Lia.
From DG Require Import CaseFormat ProtoWireRef ProtoWireRefProofs ProtoMsg ProtoMsgProofs ProtoGeneric ProtoGenericAlg.
Import ListNotations.
Local Open Scope Z_scope.

Lemma plookup_nil S lbl t n v : plookup S lbl t n v [] = LFound lbl t n v.
Proof. reflexivity. Qed.

(* a field step into a present field continues below it with the field's declared label and type *)
Lemma plookup_field_present S name md fd num0 fs n x p :
  find_msg S name = Some md -> find_field md n = Some fd -> assoc_z (fd_num fd) fs = Some x ->
  plookup S LSingular (TMsg name) num0 (VMsg fs) (PField n :: p) =
  plookup S (fd_label fd) (fd_type fd) (fd_num fd) x p.
Proof. intros H1 H2 H3. cbn [plookup is_field_step negb]. rewrite H1. cbn [step_field]. rewrite H2, H3. reflexivity. Qed.

Lemma plookup_name_present S name md fd num0 fs s x p :
  find_msg S name = Some md -> find_field_name md s = Some fd -> assoc_z (fd_num fd) fs = Some x ->
  plookup S LSingular (TMsg name) num0 (VMsg fs) (PName s :: p) =
  plookup S (fd_label fd) (fd_type fd) (fd_num fd) x p.
Proof. intros H1 H2 H3. cbn [plookup is_field_step negb]. rewrite H1. cbn [step_field]. rewrite H2, H3. reflexivity. Qed.

(* not-found exactly when the declared field is absent from the message *)
Lemma plookup_field_absent S name md fd num0 fs n p :
  find_msg S name = Some md -> find_field md n = Some fd -> assoc_z (fd_num fd) fs = None ->
  plookup S LSingular (TMsg name) num0 (VMsg fs) (PField n :: p) = LNotFound (is_nil p).
Proof. intros H1 H2 H3. cbn [plookup is_field_step negb]. rewrite H1. cbn [step_field]. rewrite H2, H3. reflexivity. Qed.

Lemma plookup_index S q q' t n vs i x p :
  0 <= i -> nth_error vs (Z.to_nat i) = Some x ->
  plookup S (LRepeated q) t n (VList q' vs) (PIndex i :: p) = plookup S LSingular t n x p.
Proof. intros H0 H. cbn [plookup]. destruct (Z.ltb_spec i 0); [lia|]. rewrite H. reflexivity. Qed.

Lemma plookup_index_out_of_range S q q' t n vs i p :
  i < 0 \/ nth_error vs (Z.to_nat i) = None ->
  plookup S (LRepeated q) t n (VList q' vs) (PIndex i :: p) = LNotFound (is_nil p).
Proof. intros H. cbn [plookup]. destruct (Z.ltb_spec i 0); [reflexivity|]. destruct H as [H|H]; [lia|]. rewrite H. reflexivity. Qed.

Lemma plookup_str_key S t n kvs k x p :
  assoc_key (KStr k) kvs = Some x ->
  plookup S (LMap 9) t n (VMap kvs) (PStrKey k :: p) = plookup S LSingular t n x p.
Proof. intros H. cbn [plookup]. cbn [Z.eqb Pos.eqb]. rewrite H. reflexivity. Qed.

(* paths compose *)
Lemma plookup_app S p : forall lbl t n v lbl' t' n' v' q,
  plookup S lbl t n v p = LFound lbl' t' n' v' ->
  plookup S lbl t n v (p ++ q) = plookup S lbl' t' n' v' q.
Proof.
  induction p as [|s p IH]; intros lbl t n v lbl' t' n' v' q H.
  - cbn in H. inversion H. reflexivity.
  - cbn [app]. cbn [plookup] in *.
    destruct lbl as [|pk|kk]; destruct v as [| |fs|pq vs|kvs]; try discriminate.
    + destruct (negb (is_field_step s)); [discriminate|].
      destruct t as [|name]; [discriminate|]. destruct (find_msg S name) as [md|]; [|discriminate].
      destruct (step_field md s) as [fd|]; [|discriminate].
      destruct (assoc_z (fd_num fd) fs) as [x|]; [|discriminate]. apply IH. exact H.
    + destruct s; try discriminate. destruct (i <? 0); [discriminate|].
      destruct (nth_error vs (Z.to_nat i)) as [x|]; [|discriminate]. apply IH. exact H.
    + destruct s; try discriminate.
      * destruct (kk =? 9); [|discriminate]. destruct (assoc_key (KStr s) kvs) as [x|]; [|discriminate]. apply IH. exact H.
      * destruct (kk =? 9); [discriminate|].
        destruct (find (fun kx => key_matches k (fst kx)) kvs) as [kx|]; [|discriminate]. apply IH. exact H.
Qed.

(* the value read back from the canonical encoding answers every path as the original message does *)
Theorem plookup_decode_encode S root m p :
  wf_msg S root m = true ->
  option_map (fun m' => plookup_root S root m' p) (decode_top S root (encode_msg m)) = Some (plookup_root S root m p).
Proof. intros H. rewrite decode_top_encode by exact H. reflexivity. Qed.

(* the records of a present field are a contiguous slice of the message encoding *)
Lemma field_span fs : forall n v, assoc_z n fs = Some v ->
  exists pre post, encode_msg fs = pre ++ wenc (wfld n v) ++ post.
Proof.
  induction fs as [|[m x] fs IH]; intros n v H; [discriminate|].
  cbn [assoc_z] in H. unfold encode_msg, msg_wire. cbn [flat_map fst snd]. rewrite wenc_app.
  destruct (Z.eqb_spec m n) as [->|Hne].
  - inversion H; subst. exists [], (wenc (flat_map (fun nv => wfld (fst nv) (snd nv)) fs)). reflexivity.
  - destruct (IH n v H) as [pre [post E]]. unfold encode_msg, msg_wire in E. rewrite E.
    exists (wenc (wfld m x) ++ pre), post. rewrite <- app_assoc. reflexivity.
Qed.

(* ... and for a singular field that slice is the tag followed by the node bytes (encode_elem) *)
Lemma single_field_bytes S t v n : wf_fld S LSingular t v = true ->
  wenc (wfld n v) = varint_enc (n * 8 + wt_of_wval (sval v)) ++ encode_elem v.
Proof.
  intros H. unfold encode_elem. rewrite (wfld_single _ _ _ n H), (wfld_single _ _ _ 1 H).
  cbn [wenc flat_map]. rewrite app_nil_r. reflexivity.
Qed.

Theorem found_field_raw_is_slice S name md fd fs n x :
  find_msg S name = Some md -> find_field md n = Some fd -> assoc_z (fd_num fd) fs = Some x ->
  plookup S LSingular (TMsg name) 0 (VMsg fs) [PField n] = LFound (fd_label fd) (fd_type fd) (fd_num fd) x /\
  exists pre post, encode_msg fs = pre ++ wenc (wfld (fd_num fd) x) ++ post.
Proof.
  intros H1 H2 H3. split.
  - rewrite (plookup_field_present _ _ _ _ _ _ _ _ _ H1 H2 H3). reflexivity.
  - apply field_span. exact H3.
Qed.

(* ---- the algorithm as coded does NOT refine the spec: concrete witnesses (the known findings) *)
Definition S_w : schema :=
  [mk_mdesc [77] [mk_fdesc 1 [97] [97] (LRepeated true) (TScalar 6);      (* repeated fixed64 a = 1 *)
                  mk_fdesc 2 [98] [98] (LRepeated true) (TScalar 5);      (* repeated int32 b = 2 *)
                  mk_fdesc 3 [99] [99] (LRepeated false) (TScalar 9);     (* repeated string c = 3 *)
                  mk_fdesc 4 [100] [100] LSingular (TMsg [77])]].          (* M d = 4 *)

(* 703: a packed fixed64 list whose bytes are not varints: GetByPath([1]) panics instead of returning the list *)
Example gbp_packed_fixed_refuted :
  let m := [(1, VList true [VScalar 6 (2 ^ 64 - 1)])] in
  wf_msg S_w [77] m = true /\
  plookup_root S_w [77] m [PField 1] = LFound (LRepeated true) (TScalar 6) 1 (VList true [VScalar 6 (2 ^ 64 - 1)]) /\
  gbp no_fixes S_w [77] (encode_msg m) [PField 1] = GPanicA.
Proof. vm_compute. repeat split. Qed.

(* 701: index -1 and index = length are reported as found *)
Example gbp_index_bounds_refuted :
  let m := [(2, VList true [VScalar 5 7; VScalar 5 8]); (3, VList false [VBytes 9 [120]])] in
  wf_msg S_w [77] m = true /\
  plookup_root S_w [77] m [PField 2; PIndex (-1)] = LNotFound true /\
  gbp no_fixes S_w [77] (encode_msg m) [PField 2; PIndex (-1)] = GFoundA 5 [7] 0 /\
  plookup_root S_w [77] m [PField 2; PIndex 2] = LNotFound true /\
  gbp no_fixes S_w [77] (encode_msg m) [PField 2; PIndex 2] = GFoundA 5 [26] 0.
Proof. vm_compute. repeat split. Qed.

(* 702: index 0 of an unpacked list: the cursor is already past the element tag *)
Example gbp_index0_unpacked_refuted :
  let m := [(3, VList false [VBytes 9 [120; 121]; VBytes 9 [122]])] in
  wf_msg S_w [77] m = true /\
  plookup_root S_w [77] m [PField 3; PIndex 0] = LFound LSingular (TScalar 9) 3 (VBytes 9 [120; 121]) /\
  gbp no_fixes S_w [77] (encode_msg m) [PField 3; PIndex 0] = GErrA /\
  gbp no_fixes S_w [77] (encode_msg m) [PField 3; PIndex 1] = GFoundA 9 [1; 122] 0.
Proof. vm_compute. repeat split. Qed.

(* 704: the unpacked list of the inner message runs on into the next sibling of the OUTER message
   that carries the same field number *)
Example gbp_overrun_refuted :
  let inner := [(3, VList false [VBytes 9 [120]])] in
  let m := [(3, VList false [VBytes 9 [121]]); (4, VMsg inner)] in
  let m' := [(4, VMsg inner); (3, VList false [VBytes 9 [121]])] in      (* field order as written by a non-sorting encoder *)
  wf_msg S_w [77] m' = true /\
  plookup_root S_w [77] m' [PField 4; PField 3] = LFound (LRepeated false) (TScalar 9) 3 (VList false [VBytes 9 [120]]) /\
  gbp no_fixes S_w [77] (encode_msg m') [PField 4; PField 3] = GFoundA 19 [26; 1; 120; 26; 1; 121] 2.
Proof. vm_compute. repeat split. Qed.

(* with every recorded repair applied (flags of ProtoGenericAlg all set) the same witnesses agree with the spec *)
Definition all_fixes : fixes := mk_fixes true true true true true true true true true true.
Example gbp_repaired_on_witnesses :
  gbp all_fixes S_w [77] (encode_msg [(1, VList true [VScalar 6 (2 ^ 64 - 1)])]) [PField 1]
    = GFoundA 19 (encode_msg [(1, VList true [VScalar 6 (2 ^ 64 - 1)])]) 1 /\
  (let m := [(2, VList true [VScalar 5 7; VScalar 5 8]); (3, VList false [VBytes 9 [120]])] in
   gbp all_fixes S_w [77] (encode_msg m) [PField 2; PIndex (-1)] = GNotFoundA /\
   gbp all_fixes S_w [77] (encode_msg m) [PField 2; PIndex 2] = GNotFoundA /\
   gbp all_fixes S_w [77] (encode_msg m) [PField 2; PIndex 1] = GFoundA 5 [8] 0) /\
  (let m := [(3, VList false [VBytes 9 [120; 121]; VBytes 9 [122]])] in
   gbp all_fixes S_w [77] (encode_msg m) [PField 3; PIndex 0] = GFoundA 9 [2; 120; 121] 0 /\
   gbp all_fixes S_w [77] (encode_msg m) [PField 3; PIndex 2] = GNotFoundA) /\
  (let m' := [(4, VMsg [(3, VList false [VBytes 9 [120]])]); (3, VList false [VBytes 9 [121]])] in
   gbp all_fixes S_w [77] (encode_msg m') [PField 4; PField 3] = GFoundA 19 [26; 1; 120] 1).
Proof. vm_compute. repeat split. Qed.
