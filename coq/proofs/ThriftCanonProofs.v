(* The Thrift binary encoding is canonical for the proved decoder: whatever byte string [decode] accepts is the
   encoding of the value it returns (followed by the rest it returns), and that value has the requested type.
   Together with decode_encode (ThriftWireProofs) this makes encode / decode mutually inverse on byte strings.
   Used by C04's byte-level theorems: a raw (binary) map key that decodes IS the encoding of the key it denotes. *)
From Coq Require Import ZArith List Bool Lia.
From DG Require Import ProtoWireRef ProtoWireRefProofs ThriftWire ThriftWireProofs.
Import ListNotations.
Local Open Scope Z_scope.

(* ---------------- integers ---------------- *)
Lemma enc_int_to_s n z : enc_int n (to_s (8 * Z.of_nat n) z) = enc_int n z.
Proof.
  unfold enc_int. f_equal. f_equal. rewrite pow256_pow2. unfold to_s.
  rewrite Zminus_mod_idemp_l. f_equal. lia.
Qed.

Lemma bytes_ok_rev bs : bytes_ok bs -> bytes_ok (rev bs).
Proof. unfold bytes_ok. apply Forall_rev. Qed.

Lemma enc_int_dec_uint n x : length x = n -> bytes_ok x -> enc_int n (dec_uint x) = x.
Proof.
  intros L B. unfold enc_int, dec_uint. rewrite L.
  rewrite Z.mod_small by (apply le_dec_range; apply bytes_ok_rev; exact B).
  rewrite le_enc_dec; [apply rev_involutive|apply bytes_ok_rev; exact B|rewrite rev_length; exact L].
Qed.

Lemma enc_int_dec_int n x : length x = n -> bytes_ok x -> enc_int n (dec_int x) = x.
Proof.
  intros L B. unfold dec_int. rewrite L. rewrite enc_int_to_s. apply enc_int_dec_uint; assumption.
Qed.

(* ---------------- slices ---------------- *)
Lemma take_some n bs x r : take n bs = Some (x, r) -> bs = x ++ r /\ length x = n.
Proof.
  unfold take. destruct (Nat.leb_spec n (length bs)) as [H|H]; [|discriminate].
  intros E. inversion E; subst. split; [symmetry; apply firstn_skipn|]. rewrite firstn_length. lia.
Qed.

Lemma bytes_ok_app a b : bytes_ok (a ++ b) -> bytes_ok a /\ bytes_ok b.
Proof. unfold bytes_ok. apply Forall_app. Qed.

Lemma bytes_ok_cons a b : bytes_ok (a :: b) -> byte_ok a /\ bytes_ok b.
Proof. intros H. inversion H; subst. split; assumption. Qed.

(* ---------------- scalars ---------------- *)
Lemma dec_scalar_canon t bs v r : bytes_ok bs -> dec_scalar t bs = Some (v, r) -> bs = encode v ++ r /\ type_of v = t.
Proof.
  intros B. unfold dec_scalar.
  destruct (Z.eqb_spec t T_BOOL) as [->|_].
  { destruct bs as [|b bs']; [discriminate|]. intros E; inversion E; subst. split; reflexivity. }
  destruct (Z.eqb_spec t T_BYTE) as [->|_].
  { destruct (take 1 bs) as [[x r']|] eqn:T; [|discriminate]. intros E; inversion E; subst.
    destruct (take_some _ _ _ _ T) as [Eb L]. subst bs. destruct (bytes_ok_app _ _ B) as [Bx _].
    cbn [encode type_of]. rewrite (enc_int_dec_int 1 x L Bx). split; reflexivity. }
  destruct (Z.eqb_spec t T_I16) as [->|_].
  { destruct (take 2 bs) as [[x r']|] eqn:T; [|discriminate]. intros E; inversion E; subst.
    destruct (take_some _ _ _ _ T) as [Eb L]. subst bs. destruct (bytes_ok_app _ _ B) as [Bx _].
    cbn [encode type_of]. rewrite (enc_int_dec_int 2 x L Bx). split; reflexivity. }
  destruct (Z.eqb_spec t T_I32) as [->|_].
  { destruct (take 4 bs) as [[x r']|] eqn:T; [|discriminate]. intros E; inversion E; subst.
    destruct (take_some _ _ _ _ T) as [Eb L]. subst bs. destruct (bytes_ok_app _ _ B) as [Bx _].
    cbn [encode type_of]. rewrite (enc_int_dec_int 4 x L Bx). split; reflexivity. }
  destruct (Z.eqb_spec t T_I64) as [->|_].
  { destruct (take 8 bs) as [[x r']|] eqn:T; [|discriminate]. intros E; inversion E; subst.
    destruct (take_some _ _ _ _ T) as [Eb L]. subst bs. destruct (bytes_ok_app _ _ B) as [Bx _].
    cbn [encode type_of]. rewrite (enc_int_dec_int 8 x L Bx). split; reflexivity. }
  destruct (Z.eqb_spec t T_DOUBLE) as [->|_].
  { destruct (take 8 bs) as [[x r']|] eqn:T; [|discriminate]. intros E; inversion E; subst.
    destruct (take_some _ _ _ _ T) as [Eb L]. subst bs. destruct (bytes_ok_app _ _ B) as [Bx _].
    cbn [encode type_of]. rewrite (enc_int_dec_uint 8 x L Bx). split; reflexivity. }
  destruct (Z.eqb_spec t T_STRING) as [->|_]; [|discriminate].
  destruct (take 4 bs) as [[x r1]|] eqn:T; [|discriminate]. cbv zeta.
  destruct (Z.ltb_spec (dec_int x) 0) as [|Hn]; [discriminate|].
  destruct (take (Z.to_nat (dec_int x)) r1) as [[s r2]|] eqn:T2; [|discriminate]. intros E; inversion E; subst.
  destruct (take_some _ _ _ _ T) as [Eb L]. destruct (take_some _ _ _ _ T2) as [Eb2 L2]. subst bs r1.
  destruct (bytes_ok_app _ _ B) as [Bx _].
  cbn [encode type_of]. replace (zlen s) with (dec_int x) by (unfold zlen; lia).
  rewrite (enc_int_dec_int 4 x L Bx). rewrite <- app_assoc. split; reflexivity.
Qed.

(* ---------------- the loops, for any element decoder that is canonical ---------------- *)
Section Loops.
  Variable dec : Z -> list Z -> option (tval * list Z).
  Hypothesis Hdec : forall t bs v r, bytes_ok bs -> dec t bs = Some (v, r) -> bs = encode v ++ r /\ type_of v = t.

  Lemma dec_fields_canon : forall fuel bs fs r, bytes_ok bs -> dec_fields dec fuel bs = Some (fs, r) ->
    bs = flat_map (fun f => type_of (snd f) :: enc_int 2 (fst f) ++ encode (snd f)) fs ++ 0 :: r.
  Proof.
    induction fuel as [|fuel IH]; intros bs fs r B H; [discriminate H|].
    cbn [dec_fields] in H. destruct bs as [|t bs']; [discriminate H|].
    destruct (Z.eqb_spec t 0) as [->|_]. { inversion H; subst. reflexivity. }
    destruct (take 2 bs') as [[idb r2]|] eqn:T; [|discriminate H].
    destruct (dec t r2) as [[x r3]|] eqn:D; [|discriminate H].
    destruct (dec_fields dec fuel r3) as [[fs' r4]|] eqn:F; [|discriminate H]. inversion H; subst.
    destruct (take_some _ _ _ _ T) as [Eb L]. subst bs'.
    destruct (bytes_ok_cons _ _ B) as [_ B1]. destruct (bytes_ok_app _ _ B1) as [Bid B2].
    destruct (Hdec _ _ _ _ B2 D) as [E2 Ty]. subst r2. destruct (bytes_ok_app _ _ B2) as [_ B3].
    rewrite (IH _ _ _ B3 F). cbn [flat_map fst snd]. rewrite Ty, (enc_int_dec_int 2 idb L Bid).
    cbn [app]. rewrite <- !app_assoc. reflexivity.
  Qed.

  Lemma dec_elems_canon : forall n t bs es r, bytes_ok bs -> dec_elems dec n t bs = Some (es, r) ->
    bs = flat_map encode es ++ r /\ length es = n.
  Proof.
    induction n as [|n IH]; intros t bs es r B H; cbn [dec_elems] in H.
    - inversion H; subst. split; reflexivity.
    - destruct (dec t bs) as [[x r1]|] eqn:D; [|discriminate H].
      destruct (dec_elems dec n t r1) as [[xs r2]|] eqn:F; [|discriminate H]. inversion H; subst.
      destruct (Hdec _ _ _ _ B D) as [E Ty]. subst bs. destruct (bytes_ok_app _ _ B) as [_ B1].
      destruct (IH _ _ _ _ B1 F) as [E1 L1]. subst r1. cbn [flat_map length]. rewrite <- app_assoc. split; [reflexivity|lia].
  Qed.

  Lemma dec_pairs_canon : forall n kt vt bs es r, bytes_ok bs -> dec_pairs dec n kt vt bs = Some (es, r) ->
    bs = flat_map (fun e => encode (fst e) ++ encode (snd e)) es ++ r /\ length es = n.
  Proof.
    induction n as [|n IH]; intros kt vt bs es r B H; cbn [dec_pairs] in H.
    - inversion H; subst. split; reflexivity.
    - destruct (dec kt bs) as [[k r1]|] eqn:D; [|discriminate H].
      destruct (dec vt r1) as [[x r2]|] eqn:D2; [|discriminate H].
      destruct (dec_pairs dec n kt vt r2) as [[xs r3]|] eqn:F; [|discriminate H]. inversion H; subst.
      destruct (Hdec _ _ _ _ B D) as [E Ty]. subst bs. destruct (bytes_ok_app _ _ B) as [_ B1].
      destruct (Hdec _ _ _ _ B1 D2) as [E2 Ty2]. subst r1. destruct (bytes_ok_app _ _ B1) as [_ B2].
      destruct (IH _ _ _ _ _ B2 F) as [E3 L3]. subst r2. cbn [flat_map length fst snd]. rewrite <- !app_assoc. split; [reflexivity|lia].
  Qed.
End Loops.

Lemma dec_count_canon bs n r : bytes_ok bs -> dec_count bs = Some (n, r) ->
  forall {A} (l : list A), length l = n -> bs = enc_int 4 (zlen l) ++ r.
Proof.
  intros B H A l L. unfold dec_count in H. destruct (take 4 bs) as [[x r1]|] eqn:T; [|discriminate H]. cbv zeta in H.
  destruct (Z.ltb_spec (dec_int x) 0) as [|Hn]; [discriminate H|].
  destruct (dec_int x >? zlen r1); [discriminate H|]. inversion H; subst.
  destruct (take_some _ _ _ _ T) as [Eb Lx]. subst bs. destruct (bytes_ok_app _ _ B) as [Bx _].
  replace (zlen l) with (dec_int x) by (unfold zlen; lia). rewrite (enc_int_dec_int 4 x Lx Bx). reflexivity.
Qed.

(* ================= the decoder accepts only canonical encodings ================= *)
Theorem decode_canonical : forall d t bs v r, bytes_ok bs -> decode d t bs = Some (v, r) ->
  bs = encode v ++ r /\ type_of v = t.
Proof.
  induction d as [|d IH]; intros t bs v r B H.
  - cbn [decode] in H. destruct (is_scalar t); [apply dec_scalar_canon; assumption|discriminate H].
  - destruct (is_scalar t) eqn:Es; [rewrite (decode_scalar _ _ _ Es) in H; apply dec_scalar_canon; assumption|].
    cbn [decode] in H. rewrite Es in H.
    destruct (Z.eqb_spec t T_STRUCT) as [->|_].
    { destruct (dec_fields (decode d) (S (length bs)) bs) as [[fs r1]|] eqn:F; [|discriminate H]. inversion H; subst.
      rewrite (dec_fields_canon (decode d) IH _ _ _ _ B F). cbn [encode type_of]. rewrite <- app_assoc. split; reflexivity. }
    destruct (Z.eqb_spec t T_MAP) as [->|_].
    { destruct bs as [|kt [|vt bs']]; try discriminate H.
      destruct (dec_count bs') as [[n r2]|] eqn:C; [|discriminate H].
      destruct (dec_pairs (decode d) n kt vt r2) as [[es r3]|] eqn:F; [|discriminate H]. inversion H; subst.
      destruct (bytes_ok_cons _ _ B) as [_ B1]. destruct (bytes_ok_cons _ _ B1) as [_ B2].
      pose proof (fun A l L => dec_count_canon bs' n r2 B2 C (A := A) l L) as HC.
      assert (B3 : bytes_ok r2).
      { unfold dec_count in C. destruct (take 4 bs') as [[x r1]|] eqn:T; [|discriminate C]. cbv zeta in C.
        destruct (dec_int x <? 0); [discriminate C|]. destruct (dec_int x >? zlen r1); [discriminate C|]. inversion C; subst.
        destruct (take_some _ _ _ _ T) as [Eb _]. subst bs'. apply (bytes_ok_app _ _ B2). }
      destruct (dec_pairs_canon (decode d) IH _ _ _ _ _ _ B3 F) as [E L]. subst r2.
      rewrite (HC _ es L). cbn [encode type_of app]. rewrite <- app_assoc. split; reflexivity. }
    destruct ((t =? T_SET) || (t =? T_LIST)) eqn:Esl; [|discriminate H].
    destruct bs as [|et bs']; [discriminate H|].
    destruct (dec_count bs') as [[n r2]|] eqn:C; [|discriminate H].
    destruct (dec_elems (decode d) n et r2) as [[es r3]|] eqn:F; [|discriminate H]. inversion H; subst.
    destruct (bytes_ok_cons _ _ B) as [_ B1].
    pose proof (fun A l L => dec_count_canon bs' n r2 B1 C (A := A) l L) as HC.
    assert (B3 : bytes_ok r2).
    { unfold dec_count in C. destruct (take 4 bs') as [[x r1]|] eqn:T; [|discriminate C]. cbv zeta in C.
      destruct (dec_int x <? 0); [discriminate C|]. destruct (dec_int x >? zlen r1); [discriminate C|]. inversion C; subst.
      destruct (take_some _ _ _ _ T) as [Eb _]. subst bs'. apply (bytes_ok_app _ _ B1). }
    destruct (dec_elems_canon (decode d) IH _ _ _ _ _ B3 F) as [E L]. subst r2.
    destruct (Z.eqb_spec t T_SET) as [->|Hns].
    + rewrite (HC _ es L). cbn [encode type_of app]. rewrite <- app_assoc. split; reflexivity.
    + cbn [orb] in Esl. apply Z.eqb_eq in Esl. subst t.
      rewrite (HC _ es L). cbn [encode type_of app]. rewrite <- app_assoc. split; reflexivity.
Qed.

Corollary decode_all_canonical t bs v : bytes_ok bs -> decode_all t bs = Some v -> bs = encode v /\ type_of v = t.
Proof.
  intros B H. unfold decode_all in H. destruct (decode (S (length bs)) t bs) as [[v' [|? ?]]|] eqn:D; try discriminate H.
  inversion H; subst. destruct (decode_canonical _ _ _ _ _ B D) as [E Ty]. rewrite app_nil_r in E. split; assumption.
Qed.
