(* Thrift -> JSON model: the text of the model's conversion is always a well-formed document that parses back;
   members are exactly the declared keys of the present known fields in wire order; integers are exact. *)
From Coq Require Import ZArith List Bool Lia.
From DG Require Import ProtoWireRef ThriftWire Json Num Base64 T2J JsonProofs NumProofs Base64Proofs ThriftWireProofs.
Import ListNotations.
Local Open Scope Z_scope.

(* ------------------------------------------------------------------ number lexemes as DFA runs *)
Fixpoint run (st : nst) (l : list Z) : option nst :=
  match l with
  | [] => Some st
  | c :: r => match num_step st c with Some st' => run st' r | None => None end
  end.

Lemma run_app : forall a b st, run st (a ++ b) = match run st a with Some s => run s b | None => None end.
Proof.
  induction a as [|c a IH]; intros b st; [reflexivity|].
  cbn [app run]. destruct (num_step st c); [apply IH | reflexivity].
Qed.

Lemma run_scan : forall l st st', run st l = Some st' -> num_acc st' = true -> scan_num st l = Some (l, []).
Proof.
  induction l as [|c r IH]; intros st st' H Ha.
  - cbn in H. inversion H; subst. cbn. rewrite Ha. reflexivity.
  - cbn [run] in H. cbn [scan_num]. destruct (num_step st c) as [s|]; [|discriminate].
    rewrite (IH s st' H Ha). reflexivity.
Qed.

Lemma run_okb : forall l st', run N0 l = Some st' -> num_acc st' = true -> num_okb l = true.
Proof. intros l st' H Ha. unfold num_okb. rewrite (run_scan l N0 st' H Ha). reflexivity. Qed.

Lemma run_digits : forall ds st, (st = NInt \/ st = NFrac \/ st = NExp) -> forallb is_digit ds = true -> run st ds = Some st.
Proof.
  induction ds as [|d t IH]; intros st Hst H; [reflexivity|].
  cbn in H. apply andb_true_iff in H. destruct H as [Hd Ht].
  cbn [run]. assert (E : num_step st d = Some st) by (destruct Hst as [-> | [-> | ->]]; cbn; rewrite Hd; reflexivity).
  rewrite E. apply IH; assumption.
Qed.

(* digits of a natural number, read from the start or after a minus sign: state NZero for "0", NInt otherwise *)
Lemma run_fmt_nat : forall st n, 0 <= n -> (st = N0 \/ st = NMinus) ->
  run st (fmt_nat n) = Some (if n =? 0 then NZero else NInt).
Proof.
  intros st n Hn Hst. destruct (fmt_nat_spec n Hn) as (Hd & _ & Hh).
  destruct (fmt_nat n) as [|d t]; [discriminate Hh|].
  cbn in Hd. apply andb_true_iff in Hd. destruct Hd as [Hd Ht].
  pose proof (proj1 (is_digit_range d) Hd) as Hr.
  unfold head_ok in Hh.
  assert (Hstep : num_step st d = Some (if d =? 48 then NZero else NInt)).
  { destruct Hst as [-> | ->]; cbn [num_step].
    - destruct (Z.eqb_spec d 45) as [E|_]; [lia|]. destruct (d =? 48); [reflexivity|]. rewrite Hd. reflexivity.
    - destruct (d =? 48); [reflexivity|]. rewrite Hd. reflexivity. }
  cbn [run]. rewrite Hstep.
  destruct (n =? 0).
  - apply andb_true_iff in Hh. destruct Hh as [H48 Hnil]. rewrite H48. destruct t; [reflexivity|discriminate].
  - apply negb_true_iff in Hh. rewrite Hh. apply run_digits; auto.
Qed.

(* exponent part: 'e' '-' digits *)
Lemma run_neg_exp : forall st k, k < 0 -> (st = NZero \/ st = NInt) -> run st (101 :: fmt_int k) = Some NExp.
Proof.
  intros st k Hk Hst. unfold fmt_int. destruct (Z.ltb_spec k 0) as [_|]; [|lia].
  assert (E1 : num_step st 101 = Some NE) by (destruct Hst as [-> | ->]; reflexivity).
  cbn [run]. rewrite E1. change (num_step NE 45) with (Some NESign).
  destruct (fmt_nat_spec (- k)) as (Hd & _ & Hh); [lia|].
  destruct (fmt_nat (- k)) as [|d t]; [discriminate Hh|].
  cbn in Hd. apply andb_true_iff in Hd. destruct Hd as [Hd Ht].
  cbn [run num_step]. rewrite Hd. apply run_digits; auto.
Qed.

Lemma run_minus : forall l, run N0 (45 :: l) = run NMinus l.
Proof. reflexivity. Qed.

Theorem num_okb_f64_exact : forall bits, num_okb (f64_exact_lexeme bits) = true.
Proof.
  intros bits. unfold f64_exact_lexeme.
  set (ex := (bits / 2 ^ 52) mod 2048). set (fr := bits mod 2 ^ 52).
  set (m := if ex =? 0 then fr else fr + 2 ^ 52).
  set (k := (if ex =? 0 then 1 else ex) - 1075).
  assert (Hfr : 0 <= fr) by (apply Z.mod_pos_bound; lia).
  assert (Hm : 0 <= m) by (unfold m; destruct (ex =? 0); lia).
  assert (body : forall st, st = N0 \/ st = NMinus ->
            exists s, run st (if m =? 0 then [48] else if 0 <=? k then fmt_nat (m * 2 ^ k) else fmt_nat (m * 5 ^ (- k)) ++ 101 :: fmt_int k) = Some s /\ num_acc s = true).
  { intros st Hst. destruct (Z.eqb_spec m 0) as [E|Ne].
    - exists NZero. split; [|reflexivity]. destruct Hst as [-> | ->]; reflexivity.
    - destruct (Z.leb_spec 0 k) as [Hk|Hk].
      + rewrite (run_fmt_nat st _); [|apply Z.mul_nonneg_nonneg; [lia | apply Z.pow_nonneg; lia] | exact Hst].
        destruct (m * 2 ^ k =? 0); eexists; split; reflexivity.
      + rewrite run_app.
        rewrite (run_fmt_nat st _); [|apply Z.mul_nonneg_nonneg; [lia | apply Z.pow_nonneg; lia] | exact Hst].
        exists NExp. split; [|reflexivity].
        destruct (m * 5 ^ (- k) =? 0); apply run_neg_exp; auto. }
  destruct (2 ^ 63 <=? bits).
  - destruct (body NMinus (or_intror eq_refl)) as (s & Hs & Ha).
    apply (run_okb _ s); [|exact Ha]. cbn [app]. rewrite run_minus. exact Hs.
  - destruct (body N0 (or_introl eq_refl)) as (s & Hs & Ha).
    apply (run_okb _ s); [|exact Ha]. cbn [app]. exact Hs.
Qed.

(* the characters of a number lexeme are bytes *)
Lemma numchar_byte : forall c, is_numchar c = true -> jbyte_okb c = true.
Proof.
  intros c H. unfold is_numchar, is_digit, is_e in H. unfold jbyte_okb.
  assert (R : 43 <= c <= 101).
  { repeat rewrite orb_true_iff in H. rewrite andb_true_iff in H. rewrite !Z.leb_le in H. rewrite !Z.eqb_eq in H. lia. }
  apply andb_true_iff; split; [apply Z.leb_le | apply Z.ltb_lt]; lia.
Qed.

Lemma scan_bytes : forall l st l' r, scan_num st l = Some (l', r) -> jbytes_okb l' = true.
Proof.
  induction l as [|c t IH]; intros st l' r H.
  - cbn in H. destruct (num_acc st); inversion H; reflexivity.
  - cbn [scan_num] in H. destruct (num_step st c) as [s|] eqn:E.
    + destruct (scan_num s t) as [[l1 r1]|] eqn:E2; [|discriminate]. inversion H; subst.
      cbn. rewrite (numchar_byte c (num_step_numchar _ _ _ E)). exact (IH _ _ _ E2).
    + destruct (num_acc st); inversion H; reflexivity.
Qed.

Lemma num_okb_bytes : forall l, num_okb l = true -> jbytes_okb l = true.
Proof.
  intros l H. unfold num_okb in H. destruct (scan_num N0 l) as [[l' r]|] eqn:E; [|discriminate].
  destruct r; [|discriminate].
  destruct (scan_num_app l N0 l' [] E eq_refl) as [-> _]. exact (scan_bytes _ _ _ _ E).
Qed.

(* ------------------------------------------------------------------ expected trees print to well-formed documents *)
Section JexpInd.
  Variable P : jexp -> Prop.
  Hypothesis HBool : forall b, P (EBool b).
  Hypothesis HInt : forall z, P (EInt z).
  Hypothesis HDouble : forall b, P (EDouble b).
  Hypothesis HStr : forall s, P (EStr s).
  Hypothesis HQuoted : forall e, P e -> P (EQuoted e).
  Hypothesis HStrV : forall s, P (EStrV s).
  Hypothesis HByteV : forall z, P (EByteV z).
  Hypothesis HArr : forall xs, Forall P xs -> P (EArr xs).
  Hypothesis HObj : forall ms, Forall (fun m => P (snd m)) ms -> P (EObj ms).
  Fixpoint jexp_ind' (e : jexp) : P e :=
    match e with
    | EBool b => HBool b | EInt z => HInt z | EDouble b => HDouble b | EStr s => HStr s
    | EQuoted e' => HQuoted e' (jexp_ind' e')
    | EStrV s => HStrV s | EByteV z => HByteV z
    | EArr xs => HArr xs ((fix go (l : list jexp) : Forall P l :=
                             match l with [] => Forall_nil _ | x :: l' => Forall_cons x (jexp_ind' x) (go l') end) xs)
    | EObj ms => HObj ms ((fix go (l : list (list Z * jexp)) : Forall (fun m => P (snd m)) l :=
                             match l with [] => Forall_nil _ | m :: l' => Forall_cons m (jexp_ind' (snd m)) (go l') end) ms)
    end.
End JexpInd.

Theorem to_json_wf : forall e, jexp_bytes e = true -> json_wf (to_json e) = true.
Proof.
  induction e as [b | z | b | s | e IH | s | z | xs IH | ms IH] using jexp_ind'; intros Hb; cbn [to_json json_wf jexp_bytes] in *.
  - reflexivity.
  - apply num_okb_fmt_int.
  - apply num_okb_f64_exact.
  - exact Hb.
  - specialize (IH Hb). destruct (to_json e); cbn [json_wf] in *; try exact IH; try reflexivity.
    apply num_okb_bytes. exact IH.
  - exact Hb.
  - apply num_okb_bytes. apply num_okb_fmt_int.
  - rewrite forallb_forall in *. intros j Hj. apply in_map_iff in Hj. destruct Hj as (x & <- & Hx).
    rewrite Forall_forall in IH. apply IH; [exact Hx | apply Hb; exact Hx].
  - rewrite forallb_forall in *. intros n Hn. apply in_map_iff in Hn. destruct Hn as (m & <- & Hm).
    cbn [fst snd]. specialize (Hb m Hm). apply andb_true_iff in Hb. destruct Hb as [Hk Hv].
    rewrite Hk. rewrite Forall_forall in IH. apply (IH m Hm Hv).
Qed.

(* the model's text is never malformed: it is parsed back to the very document it prints *)
Theorem model_text_parses : forall e, jexp_bytes e = true ->
  json_parse (json_print (to_json e)) = Some (to_json e).
Proof. intros e Hb. apply json_parse_print. apply to_json_wf. exact Hb. Qed.

(* ------------------------------------------------------------------ integers are exact *)
Lemma span_digits_nil_rest : forall ds, forallb is_digit ds = true -> span_digits ds = (ds, []).
Proof. exact span_digits_all. Qed.

Lemma lex_decimal_fmt_int : forall z, lex_decimal (fmt_int z) = Some (z <? 0, Z.abs z, 0).
Proof.
  intros z. unfold lex_decimal. rewrite num_okb_fmt_int. cbn [negb].
  unfold fmt_int. destruct (Z.ltb_spec z 0) as [Hneg|Hpos].
  - rewrite Z.eqb_refl. destruct (fmt_nat_spec (- z)) as (Hd & Hv & _); [lia|].
    rewrite (span_digits_all _ Hd). rewrite app_nil_r, Hv. cbn [length]. replace (- z) with (Z.abs z) by lia. reflexivity.
  - destruct (fmt_nat_spec z Hpos) as (Hd & Hv & Hh).
    destruct (fmt_nat z) as [|d t] eqn:E; [discriminate Hh|].
    assert (Hd0 : is_digit d = true) by (cbn in Hd; apply andb_true_iff in Hd; tauto).
    apply is_digit_range in Hd0. destruct (Z.eqb_spec d 45) as [E45|_]; [lia|].
    rewrite (span_digits_all _ Hd). rewrite app_nil_r, Hv. cbn [length]. replace z with (Z.abs z) at 1 by lia. reflexivity.
Qed.

Theorem lex_eq_int_fmt_int : forall z, lex_eq_int (fmt_int z) z = true.
Proof.
  intros z. unfold lex_eq_int. rewrite lex_decimal_fmt_int. unfold dec_eq_int.
  destruct (Z.eqb_spec (Z.abs z) 0) as [E|Ne]; [apply Z.eqb_eq; lia|].
  rewrite Bool.eqb_reflx. cbn [negb].
  change (0 <=? 0) with true. cbn iota.
  destruct (Z.ltb_spec (Z.log2 (Z.abs z) + 1) 0) as [H|_]; [pose proof (Z.log2_nonneg (Z.abs z)); lia|].
  apply Z.eqb_eq. change (10 ^ 0) with 1. lia.
Qed.

(* a decimal literal denotes z exactly when it is the canonical literal's value: the comparison is sound for canonical text *)
Theorem lex_eq_int_fmt_int_inv : forall z w, lex_eq_int (fmt_int z) w = true -> w = z.
Proof.
  intros z w H. unfold lex_eq_int in H. rewrite lex_decimal_fmt_int in H. unfold dec_eq_int in H.
  destruct (Z.eqb_spec (Z.abs z) 0) as [E|Ne]; [apply Z.eqb_eq in H; lia|].
  destruct (Bool.eqb (z <? 0) (w <? 0)) eqn:Es; [|discriminate]. cbn [negb] in H.
  change (0 <=? 0) with true in H. cbn iota in H.
  destruct (Z.log2 (Z.abs w) + 1 <? 0); [discriminate|].
  apply Z.eqb_eq in H. change (10 ^ 0) with 1 in H.
  apply Bool.eqb_prop in Es.
  destruct (Z.ltb_spec z 0), (Z.ltb_spec w 0); try discriminate; lia.
Qed.

(* ------------------------------------------------------------------ members of a struct *)
Definition declared_keys (fs : list (fmeta * tdesc)) (vs : list (Z * tval)) : list (list Z) :=
  flat_map (fun iv => match find_field fs (fst iv) with Some f => [f_key (fst f)] | None => [] end) vs.

Lemma members_of_keys : forall (l : list fres) ms, members_of l = inl ms ->
  map fst ms = flat_map (fun x => match x with FMem k _ => [k] | _ => [] end) l.
Proof.
  induction l as [|x l IH]; intros ms H; cbn [members_of] in H.
  - inversion H. reflexivity.
  - destruct x as [|c|k e].
    + cbn [flat_map app]. apply IH. exact H.
    + discriminate.
    + destruct (members_of l) as [ms'|c]; [|discriminate]. inversion H; subst.
      cbn [flat_map map fst app]. f_equal. apply IH. reflexivity.
Qed.

Lemma members_of_no_err : forall (l : list fres) ms, members_of l = inl ms -> forall c, ~ In (FErr c) l.
Proof.
  induction l as [|x l IH]; intros ms H c Hin; [destruct Hin|].
  cbn [members_of] in H. destruct Hin as [->|Hin]; [discriminate|].
  destruct x as [|c'|k e]; [exact (IH ms H c Hin) | discriminate |].
  destruct (members_of l) as [ms'|]; [|discriminate]. exact (IH ms' eq_refl c Hin).
Qed.

(* the members of the object are exactly the declared keys of the fields that are present and known, in wire order;
   an unknown field is dropped, and only when DisallowUnknownField is off *)
Theorem json_of_members_exact : forall o fs vs ms,
  json_of o (DStruct fs) (VStruct vs) = TOk (EObj ms) ->
  map fst ms = declared_keys fs vs /\
  (o_disallow_unknown o = true -> forall iv, In iv vs -> find_field fs (fst iv) <> None) /\
  missing_required fs (map fst vs) = false.
Proof.
  intros o fs vs ms H. cbn [json_of] in H.
  set (g := fun iv : Z * tval =>
              match find_field fs (fst iv) with
              | None => if o_disallow_unknown o then FErr E_UNKNOWN else FDrop
              | Some f =>
                match (if o_value_mapping o && f_jsconv (fst f) then jsconv o (snd iv) else json_of o (snd f) (snd iv)) with
                | TOk e => FMem (f_key (fst f)) e
                | TExc _ => FErr 0
                | TErr c => FErr c
                end
              end) in *.
  destruct (members_of (map g vs)) as [ms'|c] eqn:E; [|discriminate].
  destruct (missing_required fs (map fst vs)) eqn:Emr; [discriminate|].
  inversion H; subst ms'. split; [|split; [|reflexivity]].
  - rewrite (members_of_keys _ _ E). unfold declared_keys.
    pose proof (members_of_no_err _ _ E) as Hne.
    clear E H Emr. induction vs as [|iv vs IH]; [reflexivity|].
    cbn [map flat_map]. f_equal.
    + assert (Hiv : forall c, g iv <> FErr c) by (intros c Hc; apply (Hne c); left; exact Hc).
      unfold g in *. destruct (find_field fs (fst iv)) as [f|].
      * destruct (if o_value_mapping o && f_jsconv (fst f) then jsconv o (snd iv) else json_of o (snd f) (snd iv)); try reflexivity;
        exfalso; eapply Hiv; reflexivity.
      * destruct (o_disallow_unknown o); [exfalso; eapply Hiv; reflexivity | reflexivity].
    + apply IH. intros c Hc. apply (Hne c). right. exact Hc.
  - intros Hdis iv Hin Hnone.
    apply (members_of_no_err _ _ E E_UNKNOWN).
    apply in_map_iff. exists iv. split; [|exact Hin]. unfold g. rewrite Hnone, Hdis. reflexivity.
Qed.

(* with DisallowUnknownField an unknown field makes the conversion fail *)
Theorem json_of_unknown_disallowed : forall o fs vs,
  o_disallow_unknown o = true -> (exists iv, In iv vs /\ find_field fs (fst iv) = None) ->
  exists c, json_of o (DStruct fs) (VStruct vs) = TErr c.
Proof.
  intros o fs vs Hdis (iv & Hin & Hnone).
  destruct (json_of o (DStruct fs) (VStruct vs)) as [e|e|c] eqn:E; [| |exists c; reflexivity]; exfalso.
  - assert (He : exists ms, e = EObj ms).
    { cbn [json_of] in E. destruct (members_of _) as [ms|]; [|discriminate].
      destruct (missing_required _ _); [discriminate|]. inversion E. eexists; reflexivity. }
    destruct He as [ms ->]. destruct (json_of_members_exact o fs vs ms E) as (_ & H & _).
    exact (H Hdis iv Hin Hnone).
  - cbn [json_of] in E. destruct (members_of _); [|discriminate].
    destruct (missing_required _ _); discriminate.
Qed.

(* ------------------------------------------------------------------ the denotation of a well-formed value contains only bytes *)
Lemma b64_char_byte : forall n, 0 <= n < 64 -> jbyte_okb (b64_char n) = true.
Proof. intros n Hn. apply (Z_range_forallb (fun n => jbyte_okb (b64_char n)) 64); [vm_compute; reflexivity | exact Hn]. Qed.

Lemma b64_encode_bytes : forall bs, Forall byte bs -> jbytes_okb (b64_encode bs) = true.
Proof.
  induction bs as [| a | a b | a b c r IH] using list_ind3; intros Hb.
  - reflexivity.
  - inversion Hb as [|? ? Ha _]; subst. cbn [b64_encode jbytes_okb forallb].
    rewrite (b64_char_byte _ (idx0 a Ha)), (b64_char_byte _ (idx1' a Ha)). reflexivity.
  - inversion Hb as [|? ? Ha Hb']; subst. inversion Hb' as [|? ? Hbb _]; subst. cbn [b64_encode jbytes_okb forallb].
    rewrite (b64_char_byte _ (idx0 a Ha)), (b64_char_byte _ (idx1 a b Ha Hbb)), (b64_char_byte _ (idx2' b Hbb)). reflexivity.
  - inversion Hb as [|? ? Ha Hb']; subst. inversion Hb' as [|? ? Hbb Hb'']; subst. inversion Hb'' as [|? ? Hc Hr]; subst.
    cbn [b64_encode jbytes_okb forallb].
    rewrite (b64_char_byte _ (idx0 a Ha)), (b64_char_byte _ (idx1 a b Ha Hbb)), (b64_char_byte _ (idx2 b c Hbb Hc)), (b64_char_byte _ (idx3 c Hc)).
    exact (IH Hr).
Qed.

Lemma bytes_okb_Forall : forall s, bytes_okb s = true -> Forall byte s.
Proof.
  intros s H. unfold bytes_okb in H. rewrite forallb_forall in H. apply Forall_forall. intros c Hc.
  specialize (H c Hc). unfold byte_okb in H. apply andb_true_iff in H. rewrite Z.leb_le, Z.ltb_lt in H. exact H.
Qed.

Lemma wf_string_bytes : forall s, wf (VString s) = true -> jbytes_okb s = true.
Proof. intros s H. cbn in H. apply andb_true_iff in H. exact (proj1 H). Qed.

Lemma fmt_int_bytes : forall z, jbytes_okb (fmt_int z) = true.
Proof. intros z. apply num_okb_bytes. apply num_okb_fmt_int. Qed.

Lemma find_field_in : forall fs id f, find_field fs id = Some f -> In f fs.
Proof.
  induction fs as [|x fs IH]; intros id f H; [discriminate|].
  cbn in H. destruct (f_id (fst x) =? id); [inversion H; left; reflexivity | right; eapply IH; eauto].
Qed.

Lemma all_ok_forall : forall (l : list tres) xs (Q : jexp -> Prop), all_ok l = inl xs ->
  (forall e, In (TOk e) l -> Q e) -> Forall Q xs.
Proof.
  induction l as [|x l IH]; intros xs Q H HQ; cbn [all_ok] in H.
  - inversion H. constructor.
  - destruct x as [e|e|c]; try discriminate.
    destruct (all_ok l) as [es|] eqn:E; [|discriminate]. inversion H; subst.
    constructor; [apply HQ; left; reflexivity | apply (IH es Q eq_refl); intros e' He'; apply HQ; right; exact He'].
Qed.

Lemma forallb_Forall_true : forall (A : Type) (f : A -> bool) l, Forall (fun x => f x = true) l -> forallb f l = true.
Proof. intros A f l H. apply forallb_forall. rewrite Forall_forall in H. exact H. Qed.

Lemma jsconv_scalar_bytes : forall o x e, wf x = true -> jsconv_scalar o x = TOk e -> jexp_bytes e = true.
Proof.
  intros o x e Hw H. destruct x; cbn [jsconv_scalar] in H; inversion H; subst; try reflexivity.
  cbn [jexp_bytes]. apply wf_string_bytes. exact Hw.
Qed.

Lemma wf_list_elems : forall et es, wf (VList et es) = true -> forall x, In x es -> wf x = true.
Proof.
  intros et es H x Hx. cbn [wf] in H. repeat (apply andb_true_iff in H; destruct H as [H ?]).
  match goal with H' : forallb _ es = true |- _ => rewrite forallb_forall in H'; specialize (H' x Hx); apply andb_true_iff in H'; exact (proj2 H') end.
Qed.
Lemma wf_set_elems : forall et es, wf (VSet et es) = true -> forall x, In x es -> wf x = true.
Proof.
  intros et es H x Hx. cbn [wf] in H. repeat (apply andb_true_iff in H; destruct H as [H ?]).
  match goal with H' : forallb _ es = true |- _ => rewrite forallb_forall in H'; specialize (H' x Hx); apply andb_true_iff in H'; exact (proj2 H') end.
Qed.
Lemma wf_struct_fields : forall vs, wf (VStruct vs) = true -> forall iv, In iv vs -> wf (snd iv) = true.
Proof.
  intros vs H iv Hin. cbn [wf] in H. rewrite forallb_forall in H. specialize (H iv Hin). apply andb_true_iff in H. exact (proj2 H).
Qed.
Lemma wf_map_entries : forall kt vt es, wf (VMap kt vt es) = true -> forall e, In e es -> wf (fst e) = true /\ wf (snd e) = true.
Proof.
  intros kt vt es H e Hin. cbn [wf] in H. repeat (apply andb_true_iff in H; destruct H as [H ?]).
  match goal with H' : forallb _ es = true |- _ => rewrite forallb_forall in H'; specialize (H' e Hin);
    repeat (apply andb_true_iff in H'; destruct H' as [H' ?]) end. split; assumption.
Qed.

Lemma jsconv_bytes : forall o x e, wf x = true -> jsconv o x = TOk e -> jexp_bytes e = true.
Proof.
  intros o x e Hw H. destruct x; try (exact (jsconv_scalar_bytes o _ e Hw H)).
  cbn [jsconv] in H. destruct (all_ok (map (jsconv_scalar o) elems)) as [xs|] eqn:E; [|discriminate]. inversion H; subst.
  cbn [jexp_bytes]. apply forallb_Forall_true.
  apply (all_ok_forall _ xs (fun e => jexp_bytes e = true) E).
  intros e' He'. apply in_map_iff in He'. destruct He' as (y & Hy & Hin).
  exact (jsconv_scalar_bytes o y e' (wf_list_elems _ _ Hw y Hin) Hy).
Qed.

Lemma members_of_forall : forall (l : list fres) ms (Q : list Z -> jexp -> Prop), members_of l = inl ms ->
  (forall k e, In (FMem k e) l -> Q k e) -> Forall (fun m => Q (fst m) (snd m)) ms.
Proof.
  induction l as [|x l IH]; intros ms Q H HQ; cbn [members_of] in H.
  - inversion H. constructor.
  - destruct x as [|c|k e].
    + apply (IH ms Q H). intros k e Hin. apply HQ. right. exact Hin.
    + discriminate.
    + destruct (members_of l) as [ms'|] eqn:E; [|discriminate]. inversion H; subst.
      constructor; [apply HQ; left; reflexivity | apply (IH ms' Q eq_refl); intros k' e' Hin; apply HQ; right; exact Hin].
Qed.

Lemma keyed_forall : forall ks vs ms (Q : list Z -> jexp -> Prop), keyed ks vs = inl ms ->
  (forall k, In (Some k) ks -> forall e, In (TOk e) vs -> Q k e) -> Forall (fun m => Q (fst m) (snd m)) ms.
Proof.
  induction ks as [|k ks IH]; intros vs ms Q H HQ.
  - cbn in H. inversion H. constructor.
  - destruct vs as [|v vs]; [cbn in H; destruct k; inversion H; constructor|].
    cbn [keyed] in H. destruct k as [k|]; [|discriminate].
    destruct v as [e|e|c]; try discriminate.
    destruct (keyed ks vs) as [ms'|] eqn:E; [|discriminate]. inversion H; subst.
    constructor.
    + apply HQ; left; reflexivity.
    + apply (IH vs ms' Q E). intros k' Hk' e' He'. apply HQ; right; assumption.
Qed.

Definition BytesP (o : Z) (v : tval) : Prop :=
  forall d e, wf v = true -> desc_ok d = true -> json_of o d v = TOk e -> jexp_bytes e = true.

Lemma key_of_bytes : forall o k s, wf k = true -> key_of o k = Some s -> jbytes_okb s = true.
Proof.
  intros o k s Hw H. destruct k; cbn [key_of] in H; inversion H; subst; try apply fmt_int_bytes.
  apply wf_string_bytes. exact Hw.
Qed.

Theorem json_of_bytes : forall o v, BytesP o v.
Proof.
  intros o. induction v as [b | z | z | z | z | z | s | vs IH | kt vt es IH | et es IH | et es IH] using tval_ind';
    intros d e Hw Hd H; cbn [json_of] in H.
  - inversion H; reflexivity.
  - inversion H; reflexivity.
  - inversion H; reflexivity.
  - inversion H; reflexivity.
  - inversion H. destruct (o_int642string o); reflexivity.
  - inversion H; reflexivity.
  - pose proof (wf_string_bytes s Hw) as Hs.
    destruct d as [| [|] | | |]; inversion H; subst; cbn [jexp_bytes]; try exact Hs.
    destruct (o_no_base64 o); [exact Hs|]. apply b64_encode_bytes. apply bytes_okb_Forall.
    cbn in Hw. apply andb_true_iff in Hw. exact (proj1 Hw).
  - destruct d as [| | fs | |]; try discriminate.
    match type of H with match members_of ?l with _ => _ end = _ => destruct (members_of l) as [ms|] eqn:E end; [|discriminate].
    destruct (missing_required fs (map fst vs)); [discriminate|]. inversion H; subst.
    cbn [jexp_bytes]. apply forallb_Forall_true.
    apply (members_of_forall _ ms (fun k e => jbytes_okb k && jexp_bytes e = true) E).
    intros k e' Hin. apply in_map_iff in Hin. destruct Hin as (iv & Hg & Hiv).
    destruct (find_field fs (fst iv)) as [f|] eqn:Ef; [|destruct (o_disallow_unknown o); discriminate].
    pose proof (find_field_in _ _ _ Ef) as Hfin.
    cbn [desc_ok] in Hd. rewrite forallb_forall in Hd. specialize (Hd f Hfin). apply andb_true_iff in Hd. destruct Hd as [Hk Hdf].
    pose proof (wf_struct_fields vs Hw iv Hiv) as Hwx.
    rewrite Forall_forall in IH.
    destruct (o_value_mapping o && f_jsconv (fst f)).
    + destruct (jsconv o (snd iv)) as [e1|e1|c1] eqn:Ej; inversion Hg; subst.
      rewrite Hk. exact (jsconv_bytes o _ _ Hwx Ej).
    + destruct (json_of o (snd f) (snd iv)) as [e1|e1|c1] eqn:Ej; inversion Hg; subst.
      rewrite Hk. exact (IH iv Hiv (snd f) e' Hwx Hdf Ej).
  - destruct d as [| | | dk dv |]; try discriminate.
    match type of H with match keyed ?a ?b with _ => _ end = _ => destruct (keyed a b) as [ms|] eqn:E end; [|discriminate].
    inversion H; subst. cbn [jexp_bytes]. apply forallb_Forall_true.
    cbn [desc_ok] in Hd. apply andb_true_iff in Hd. destruct Hd as [Hdk Hdv].
    rewrite Forall_forall in IH.
    apply (keyed_forall _ _ ms (fun k e => jbytes_okb k && jexp_bytes e = true) E).
    intros k Hk e' He'.
    apply in_map_iff in Hk. destruct Hk as (en & Hkey & Hen).
    apply in_map_iff in He'. destruct He' as (en' & Hval & Hen').
    destruct (wf_map_entries _ _ _ Hw en Hen) as [Hwk _].
    destruct (wf_map_entries _ _ _ Hw en' Hen') as [_ Hwv].
    rewrite (key_of_bytes o _ _ Hwk Hkey).
    exact (proj2 (IH en' Hen') dv e' Hwv Hdv Hval).
  - destruct d as [| | | | s de]; try discriminate.
    destruct (all_ok (map (json_of o de) es)) as [xs|] eqn:E; [|discriminate]. inversion H; subst.
    cbn [jexp_bytes]. apply forallb_Forall_true.
    apply (all_ok_forall _ xs (fun e => jexp_bytes e = true) E).
    intros e' He'. apply in_map_iff in He'. destruct He' as (y & Hy & Hin).
    rewrite Forall_forall in IH. exact (IH y Hin de e' (wf_set_elems _ _ Hw y Hin) Hd Hy).
  - destruct d as [| | | | s de]; try discriminate.
    destruct (all_ok (map (json_of o de) es)) as [xs|] eqn:E; [|discriminate]. inversion H; subst.
    cbn [jexp_bytes]. apply forallb_Forall_true.
    apply (all_ok_forall _ xs (fun e => jexp_bytes e = true) E).
    intros e' He'. apply in_map_iff in He'. destruct He' as (y & Hy & Hin).
    rewrite Forall_forall in IH. exact (IH y Hin de e' (wf_list_elems _ _ Hw y Hin) Hd Hy).
Qed.

(* ------------------------------------------------------------------ the root walk *)
Lemma field_value_bytes : forall o f x e, wf x = true -> desc_ok (snd f) = true ->
  field_value o f x = TOk e -> jexp_bytes e = true.
Proof.
  intros o f x e Hw Hd H. unfold field_value in H.
  destruct (o_value_mapping o && f_jsconv (fst f)); [exact (jsconv_bytes o x e Hw H) | exact (json_of_bytes o x (snd f) e Hw Hd H)].
Qed.

Definition member_ok (m : list Z * jexp) : bool := jbytes_okb (fst m) && jexp_bytes (snd m).

Lemma root_walk_bytes : forall o fs vs acc seen bs e,
  desc_ok (DStruct fs) = true -> (forall iv, In iv vs -> wf (snd iv) = true) ->
  forallb member_ok acc = true ->
  (fst (root_walk o fs vs acc seen bs) = TOk e \/ fst (root_walk o fs vs acc seen bs) = TExc e) ->
  jexp_bytes e = true.
Proof.
  intros o fs. induction vs as [|[id x] r IH]; intros acc seen bs e Hd Hw Hacc H.
  - cbn [root_walk fst] in H. destruct (missing_required fs seen); destruct H as [H|H]; try discriminate.
    inversion H; subst. cbn [jexp_bytes]. apply forallb_forall. intros m Hm. apply in_rev in Hm.
    rewrite forallb_forall in Hacc. exact (Hacc m Hm).
  - cbn [root_walk] in H.
    assert (Hwr : forall iv, In iv r -> wf (snd iv) = true) by (intros iv Hiv; apply Hw; right; exact Hiv).
    assert (Hwx : wf x = true) by (apply (Hw (id, x)); left; reflexivity).
    destruct (find_field fs id) as [f|] eqn:Ef.
    + pose proof (find_field_in _ _ _ Ef) as Hfin.
      assert (Hdf : jbytes_okb (f_key (fst f)) = true /\ desc_ok (snd f) = true).
      { cbn [desc_ok] in Hd. rewrite forallb_forall in Hd. specialize (Hd f Hfin). apply andb_true_iff in Hd. exact Hd. }
      destruct Hdf as [Hk Hdf].
      destruct (o_thrift_base o && o_base_in_ctx o && f_respbase (fst f)).
      * exact (IH acc (id :: seen) (Some x) e Hd Hwr Hacc H).
      * destruct (o_convert_exception o && negb (id =? 0)).
        -- destruct (field_value o f x) as [e1|e1|c1] eqn:Ev; cbn [fst] in H.
           ++ destruct (negb (forallb (fun m => jexp_finite (snd m)) acc)); [destruct H; discriminate|].
              destruct (missing_required fs (id :: seen)); destruct H as [H|H]; try discriminate.
              inversion H; subst. exact (field_value_bytes o f x e Hwx Hdf Ev).
           ++ destruct H; discriminate.
           ++ destruct H; discriminate.
        -- destruct (field_value o f x) as [e1|e1|c1] eqn:Ev; cbn [fst] in H.
           ++ apply (IH ((f_key (fst f), e1) :: acc) (id :: seen) bs e Hd Hwr); [|exact H].
              cbn [forallb]. rewrite Hacc. unfold member_ok. cbn [fst snd].
              rewrite Hk, (field_value_bytes o f x e1 Hwx Hdf Ev). reflexivity.
           ++ destruct H; discriminate.
           ++ destruct H; discriminate.
    + destruct (o_disallow_unknown o); [cbn [fst] in H; destruct H; discriminate|].
      exact (IH acc seen bs e Hd Hwr Hacc H).
Qed.

Theorem t2j_spec_bytes : forall o d v e, wf v = true -> desc_ok d = true ->
  (fst (t2j_spec o d v) = TOk e \/ fst (t2j_spec o d v) = TExc e) -> jexp_bytes e = true.
Proof.
  intros o d v e Hw Hd H.
  assert (Hj : forall d' , desc_ok d' = true -> (json_of o d' v = TOk e \/ json_of o d' v = TExc e) -> jexp_bytes e = true).
  { intros d' Hd' [H1|H1]; [exact (json_of_bytes o v d' e Hw Hd' H1)|].
    (* json_of never yields TExc *)
    exfalso. destruct v; cbn [json_of] in H1; try discriminate;
    repeat match type of H1 with
    | match ?d with _ => _ end = _ => destruct d; try discriminate
    | (if ?b then _ else _) = _ => destruct b; try discriminate
    end. }
  unfold t2j_spec in H.
  destruct d as [t | b | fs | dk dv | s de]; try (cbn [fst] in H; exact (Hj _ Hd H)).
  destruct v as [ | | | | | | | vs | | | ]; try (cbn [fst] in H; exact (Hj _ Hd H)).
  apply (root_walk_bytes o fs vs [] [] None e Hd); [exact (wf_struct_fields vs Hw) | reflexivity | exact H].
Qed.

(* THE MODEL NEVER EMITS MALFORMED JSON: whenever the model's conversion of a well-formed value under a descriptor with
   byte-string keys yields a text, that text is one complete JSON document (and it is the canonical print of what it parses to) *)
Theorem t2j_text_wellformed : forall o d v txt, wf v = true -> desc_ok d = true ->
  t2j_text o d v = Some txt -> exists j, json_parse txt = Some j /\ json_print j = txt /\ json_wf j = true.
Proof.
  intros o d v txt Hw Hd H. unfold t2j_text in H.
  destruct (fst (t2j_spec o d v)) as [e|e|c] eqn:E; try discriminate.
  destruct (jexp_finite e); [|discriminate]. inversion H; subst.
  pose proof (t2j_spec_bytes o d v e Hw Hd (or_introl E)) as Hb.
  exists (to_json e). split; [exact (model_text_parses e Hb) | split; [reflexivity | exact (to_json_wf e Hb)]].
Qed.

(* ------------------------------------------------------------------ what an accepted document looks like *)
Lemma zlist_eqb_refl : forall a, zlist_eqb a a = true.
Proof. intros a. apply zlist_eqb_eq. reflexivity. Qed.

(* an accepted object has exactly the expected member names, in the expected order *)
Theorem jmatch_obj_keys : forall ms j, jmatch (EObj ms) j = true -> exists ns, j = JObj ns /\ map fst ns = map fst ms.
Proof.
  intros ms j H. destruct j as [| | | | |ns]; try discriminate. exists ns. split; [reflexivity|].
  cbn [jmatch] in H. revert ns H. induction ms as [|m ms IH]; intros [|n ns] H; try discriminate; [reflexivity|].
  apply andb_true_iff in H. destruct H as [H1 H2]. apply andb_true_iff in H1. destruct H1 as [Hk _].
  apply zlist_eqb_eq in Hk. cbn [map]. rewrite Hk. f_equal. exact (IH ns H2).
Qed.

Theorem jmatch_str_exact : forall s j, jmatch (EStr s) j = true -> j = JStr s.
Proof.
  intros s j H. destruct j; try discriminate. cbn [jmatch] in H. apply zlist_eqb_eq in H. subst. reflexivity.
Qed.

Theorem jmatch_arr_length : forall xs j, jmatch (EArr xs) j = true -> exists ys, j = JArr ys /\ length ys = length xs.
Proof.
  intros xs j H. destruct j as [| | | |ys|]; try discriminate. exists ys. split; [reflexivity|].
  cbn [jmatch] in H. revert ys H. induction xs as [|x xs IH]; intros [|y ys] H; try discriminate; [reflexivity|].
  apply andb_true_iff in H. destruct H as [_ H2]. cbn [length]. f_equal. exact (IH ys H2).
Qed.

(* the model's own document satisfies the comparison (trees without doubles: the float text is the one thing
   that is checked per output by dec2f64 instead of being proved) *)
Fixpoint jexp_nodouble (e : jexp) : bool :=
  match e with
  | EDouble _ => false
  | EQuoted e' => match e' with EInt _ => true | _ => false end
  | EArr xs => forallb jexp_nodouble xs
  | EObj ms => forallb (fun m => jexp_nodouble (snd m)) ms
  | _ => true
  end.

Theorem jmatch_to_json : forall e, jexp_nodouble e = true -> jmatch e (to_json e) = true.
Proof.
  induction e as [b | z | b | s | e IH | s | z | xs IH | ms IH] using jexp_ind'; intros Hn; cbn [to_json jmatch jexp_nodouble] in *.
  - destruct b; reflexivity.
  - apply lex_eq_int_fmt_int.
  - discriminate.
  - apply zlist_eqb_refl.
  - destruct e; try discriminate. cbn [to_json jmatch]. rewrite num_okb_fmt_int, lex_eq_int_fmt_int. reflexivity.
  - apply zlist_eqb_refl.
  - unfold match_quoted_int. rewrite num_okb_fmt_int, lex_eq_int_fmt_int. reflexivity.
  - induction xs as [|x xs IHx]; [reflexivity|].
    cbn [map]. inversion IH as [|? ? Hx Hxs]; subst. cbn [forallb] in Hn. apply andb_true_iff in Hn. destruct Hn as [Hn1 Hn2].
    rewrite (Hx Hn1). cbn [andb]. exact (IHx Hxs Hn2).
  - induction ms as [|m ms IHm]; [reflexivity|].
    cbn [map fst snd]. inversion IH as [|? ? Hm Hms]; subst. cbn [forallb] in Hn. apply andb_true_iff in Hn. destruct Hn as [Hn1 Hn2].
    rewrite zlist_eqb_refl, (Hm Hn1). cbn [andb]. exact (IHm Hms Hn2).
Qed.
