(* C15 — parse_refines_pelab: the descriptor graph built by the memoising traversal (memo keyed by the
   fully-qualified name) is pelab's table, node by node, including recursive and mutually recursive types. *)
From Coq Require Import ZArith List Bool Lia.
From DG Require Import CaseFormat PIdl PIdlParse Check15 PIdlProofs PIdlMemoProofs.
Import ListNotations.
Local Open Scope Z_scope.

(* ------------------------------------------------------------------------------------------------ *)
(* generic list facts *)

Lemma filter_length_le : forall (A : Type) (p q : A -> bool) l,
  (forall x, q x = true -> p x = true) -> (length (filter q l) <= length (filter p l))%nat.
Proof.
  intros A p q. induction l as [|x r IH]; intro H; cbn; [lia|]. specialize (IH H).
  destruct (q x) eqn:Q; [rewrite (H x Q); cbn; lia|]. destruct (p x); cbn; lia.
Qed.

Lemma filter_length_lt : forall (A : Type) (p q : A -> bool) l x0,
  (forall x, q x = true -> p x = true) -> In x0 l -> p x0 = true -> q x0 = false ->
  (length (filter q l) < length (filter p l))%nat.
Proof.
  intros A p q. induction l as [|x r IH]; intros x0 H I P Q; [destruct I|]. cbn.
  destruct I as [I|I].
  - subst x. rewrite P, Q. cbn. pose proof (filter_length_le A p q r H). lia.
  - specialize (IH x0 H I P Q). destruct (q x) eqn:Qx; [rewrite (H x Qx); cbn; lia|]. destruct (p x); cbn; lia.
Qed.

Lemma filter_length_bound : forall (A : Type) (p : A -> bool) l, (length (filter p l) <= length l)%nat.
Proof. intros A p. induction l as [|x r IH]; cbn; [lia|]. destruct (p x); cbn; lia. Qed.

Lemma Forall2_snoc : forall (A B : Type) (R : A -> B -> Prop) l1 l2 a b,
  Forall2 R l1 l2 -> R a b -> Forall2 R (l1 ++ [a]) (l2 ++ [b]).
Proof. intros A B R l1 l2 a b H. induction H; cbn; intros; constructor; auto. Qed.

Lemma Forall2_impl : forall (A B : Type) (R S : A -> B -> Prop) l1 l2,
  (forall a b, R a b -> S a b) -> Forall2 R l1 l2 -> Forall2 S l1 l2.
Proof. intros A B R S l1 l2 H F. induction F; constructor; auto. Qed.

(* ------------------------------------------------------------------------------------------------ *)
(* monotonicity of the graph relations when nodes are added / finished *)

Lemma named_ext : forall a b j q, ext a b -> named a j q -> named b j q.
Proof. intros a b j q E [P [fs H]]. split; [exact P|]. destruct (E _ _ _ H) as [fs' H']. exists fs'. exact H'. Qed.

Lemma ref_ok_ext : forall a b x y, ext a b -> ref_ok a x y -> ref_ok b x y.
Proof. intros a b [q|] [j|] E H; cbn in *; try exact H. exact (named_ext a b j q E H). Qed.

Lemma frel_ext : forall a b f g, ext a b -> frel a f g -> frel b f g.
Proof. intros a b f g E [A [B C]]. split; [exact A|]. split; eapply ref_ok_ext; eassumption. Qed.

Lemma node_done_ext : forall tbl a b nm fs, ext a b -> node_done tbl a nm fs -> node_done tbl b nm fs.
Proof.
  intros tbl a b nm fs E [mfs [L F]]. exists mfs. split; [exact L|].
  eapply Forall2_impl; [|exact F]. intros x y. apply frel_ext. exact E.
Qed.

(* nodes outside the open set O (the descriptors still under construction) are never touched again *)
Definition ext_O (O : list nat) (a b : nodes_t) : Prop :=
  forall i nm fs, nth_error a i = Some (nm, fs) ->
    (exists fs', nth_error b i = Some (nm, fs')) /\ (~ In i O -> nth_error b i = Some (nm, fs)).

Lemma ext_O_ext : forall O a b, ext_O O a b -> ext a b.
Proof. intros O a b H i nm fs N. exact (proj1 (H i nm fs N)). Qed.

Lemma ext_O_refl : forall O a, ext_O O a a.
Proof. intros O a i nm fs H. split; [exists fs; exact H | intros _; exact H]. Qed.

Lemma ext_O_trans : forall O a b c, ext_O O a b -> ext_O O b c -> ext_O O a c.
Proof.
  intros O a b c H1 H2 i nm fs N. destruct (H1 _ _ _ N) as [[fs1 N1] K1]. destruct (H2 _ _ _ N1) as [[fs2 N2] K2].
  split; [exists fs2; exact N2|]. intro NI. specialize (K1 NI). exact (proj2 (H2 _ _ _ K1) NI).
Qed.

Lemma ext_O_weaken : forall O x a b, ext_O (x :: O) a b -> (forall nm fs, nth_error a x <> Some (nm, fs)) -> ext_O O a b.
Proof.
  intros O x a b H NX i nm fs N. destruct (H _ _ _ N) as [A B]. split; [exact A|]. intro NI. apply B.
  intros [E|E]; [subst i; exact (NX _ _ N) | exact (NI E)].
Qed.

Lemma ext_O_app : forall O (a : nodes_t) x, ext_O O a (a ++ [x]).
Proof.
  intros O a x i nm fs H. assert (L : (i < length a)%nat) by (apply nth_error_Some; congruence).
  rewrite nth_error_app1 by exact L. split; [exists fs; exact H | intros _; exact H].
Qed.

Lemma ext_O_set_node : forall O (l : nodes_t) n nm fs0 fs, nth_error l n = Some (nm, fs0) -> In n O -> ext_O O l (set_node n (nm, fs) l).
Proof.
  intros O l n nm fs0 fs H IO i nm' fs' H'. rewrite set_node_nth.
  destruct (Nat.eqb_spec i n) as [E|E]; cbn [andb].
  - subst i. rewrite H in H'. inversion H'; subst.
    assert (L : (n < length l)%nat) by (apply nth_error_Some; congruence).
    apply Nat.ltb_lt in L. rewrite L. split; [exists fs; reflexivity | intro NI; contradiction].
  - split; [exists fs'; exact H' | intros _; exact H'].
Qed.

(* ------------------------------------------------------------------------------------------------ *)
(* the traversal *)

Section Graph.
  Variable keyf : qname -> bytes.
  Variable tbl : msgtab.
  (* the memo keys of the declared messages are pairwise different (fully-qualified names are) *)
  Hypothesis Hinj : NoDup (map keyf (map fst tbl)).
  (* every message reference of the table points into the table (references resolvable) *)
  Hypothesis Hclosed : tbl_closed tbl.
  (* shape of non-map fields as elab_field builds them: Elem().Message() is the message of a list, nothing otherwise *)
  Definition field_shaped (f : mfield qname) : Prop :=
    mf_map f = false -> mf_emsg f = (if mf_list f then mf_tmsg f else None).
  Hypothesis Hshaped : forall m fs f, In (m, fs) tbl -> In f fs -> field_shaped f.

  Lemma names_nodup : NoDup (map fst tbl).
  Proof. exact (NoDup_map_inv keyf (map fst tbl) Hinj). Qed.

  Lemma declared_lookup : forall m, declared tbl m -> exists fs, lookup_msg tbl m = Some fs /\ In (m, fs) tbl.
  Proof.
    intros m D. unfold declared in D. apply in_map_iff in D. destruct D as [[m' fs] [E I]]. cbn in E. subst m'.
    exists fs. split; [apply lookup_msg_in; [exact names_nodup | exact I] | exact I].
  Qed.

  Lemma key_injective : forall a b, declared tbl a -> declared tbl b -> keyf a = keyf b -> a = b.
  Proof. intros a b A B E. exact (NoDup_map_injective_on _ _ keyf (map fst tbl) a b Hinj A B E). Qed.

  (* ---- state invariant, relative to the set O of descriptors under construction *)
  Definition Inv (O : list nat) (st : qstate) : Prop :=
    cache_inv keyf st /\ names_declared tbl (q_nodes st) /\
    (forall i nm fs, nth_error (q_nodes st) i = Some (nm, fs) -> ~ In i O -> node_done tbl (q_nodes st) nm fs).

  (* ---- fuel: declared names not yet registered for the current parse target *)
  Definition tagged (target : Z) (c : list (bytes * (Z * Z))) (k : bytes) : bool :=
    match cache_get c k with Some (tg, _) => tg =? target | None => false end.
  Definition pending (target : Z) (c : list (bytes * (Z * Z))) : nat :=
    length (filter (fun k => negb (tagged target c k)) (map keyf (map fst tbl))).
  Definition tag_mono (target : Z) (c c' : list (bytes * (Z * Z))) : Prop :=
    forall k, tagged target c k = true -> tagged target c' k = true.

  Lemma tag_mono_refl : forall t c, tag_mono t c c.
  Proof. intros t c k H. exact H. Qed.
  Lemma tag_mono_trans : forall t a b c, tag_mono t a b -> tag_mono t b c -> tag_mono t a c.
  Proof. intros t a b c H1 H2 k H. exact (H2 k (H1 k H)). Qed.

  Lemma pending_mono : forall t c c', tag_mono t c c' -> (pending t c' <= pending t c)%nat.
  Proof.
    intros t c c' M. unfold pending. apply filter_length_le. intros k H.
    apply negb_true_iff in H. apply negb_true_iff. destruct (tagged t c k) eqn:E; [|reflexivity].
    rewrite (M k E) in H. discriminate.
  Qed.

  Lemma tagged_set : forall t c k nd k', tagged t (fnm_set c k (t, nd)) k' = if bytes_eqb k k' then true else tagged t c k'.
  Proof.
    intros t c k nd k'. unfold tagged. rewrite cache_get_set. destruct (bytes_eqb k k'); [apply Z.eqb_refl | reflexivity].
  Qed.

  Lemma tag_mono_set : forall t c k nd, tag_mono t c (fnm_set c k (t, nd)).
  Proof. intros t c k nd k' H. rewrite tagged_set. destruct (bytes_eqb k k'); [reflexivity | exact H]. Qed.

  Lemma pending_set_lt : forall t c m nd, declared tbl m -> tagged t c (keyf m) = false ->
    (pending t (fnm_set c (keyf m) (t, nd)) < pending t c)%nat.
  Proof.
    intros t c m nd D T. unfold pending. apply (filter_length_lt _ _ _ _ (keyf m)).
    - intros k H. apply negb_true_iff in H. apply negb_true_iff. rewrite tagged_set in H.
      destruct (bytes_eqb (keyf m) k); [discriminate | exact H].
    - apply in_map. exact D.
    - rewrite T. reflexivity.
    - rewrite tagged_set, bytes_eqb_refl. reflexivity.
  Qed.

  Lemma pending_bound : forall t c, (pending t c <= length tbl)%nat.
  Proof. intros t c. unfold pending. etransitivity; [apply filter_length_bound|]. rewrite !map_length. lia. Qed.

  (* ---- what one call of parseMessage guarantees *)
  Definition post (target : Z) (O : list nat) (m : qname) (st : qstate) (r : Z * qstate) : Prop :=
    Inv O (snd r) /\ ext_O O (q_nodes st) (q_nodes (snd r)) /\
    tag_mono target (q_cache st) (q_cache (snd r)) /\ named (q_nodes (snd r)) (fst r) m.

  Definition rec_spec (target : Z) (B : nat) (rec : qname -> qstate -> Z * qstate) : Prop :=
    forall O m st, declared tbl m -> Inv O st -> (pending target (q_cache st) <= B)%nat -> post target O m st (rec m st).

  Definition field_wf (f : mfield qname) : Prop := field_closed tbl f /\ field_shaped f.

  Lemma qfield_step_spec : forall target B rec O out s f,
    rec_spec target B rec -> field_wf f -> Inv O s -> (pending target (q_cache s) <= B)%nat ->
    exists g s', qfield_step rec (out, s) f = (g :: out, s') /\
      Inv O s' /\ ext_O O (q_nodes s) (q_nodes s') /\ tag_mono target (q_cache s) (q_cache s') /\ frel (q_nodes s') f g.
  Proof.
    intros target B rec O out s f R [[Ct Ce] SH] I P. unfold qfield_step.
    destruct (mf_map f) eqn:MAP.
    - (* map: value message first, then the entry message *)
      destruct (mf_emsg f) as [v|] eqn:EM.
      + destruct (R O v s (Ce v eq_refl) I P) as [I1 [E1 [T1 N1]]]. destruct (rec v s) as [i s1]. cbn [fst snd] in *.
        assert (P1 : (pending target (q_cache s1) <= B)%nat) by (pose proof (pending_mono _ _ _ T1); lia).
        destruct (mf_tmsg f) as [w|] eqn:TM.
        * destruct (R O w s1 (Ct w eq_refl) I1 P1) as [I2 [E2 [T2 N2]]]. destruct (rec w s1) as [j s2]. cbn [fst snd] in *.
          eexists; eexists. split; [reflexivity|]. split; [exact I2|]. split; [exact (ext_O_trans _ _ _ _ E1 E2)|].
          split; [exact (tag_mono_trans _ _ _ _ T1 T2)|].
          split; [reflexivity|]. cbn. rewrite TM, EM. split; [exact N2 | exact (named_ext _ _ _ _ (ext_O_ext _ _ _ E2) N1)].
        * eexists; eexists. split; [reflexivity|]. split; [exact I1|]. split; [exact E1|]. split; [exact T1|].
          split; [reflexivity|]. cbn. rewrite TM, EM. split; [constructor | exact N1].
      + destruct (mf_tmsg f) as [w|] eqn:TM.
        * destruct (R O w s (Ct w eq_refl) I P) as [I2 [E2 [T2 N2]]]. destruct (rec w s) as [j s2]. cbn [fst snd] in *.
          eexists; eexists. split; [reflexivity|]. split; [exact I2|]. split; [exact E2|]. split; [exact T2|].
          split; [reflexivity|]. cbn. rewrite TM, EM. split; [exact N2 | constructor].
        * eexists; eexists. split; [reflexivity|]. split; [exact I|]. split; [apply ext_O_refl|]. split; [apply tag_mono_refl|].
          split; [reflexivity|]. cbn. rewrite TM, EM. split; constructor.
    - specialize (SH MAP). destruct (mf_tmsg f) as [w|] eqn:TM.
      + destruct (R O w s (Ct w eq_refl) I P) as [I2 [E2 [T2 N2]]]. destruct (rec w s) as [j s2]. cbn [fst snd] in *.
        eexists; eexists. split; [reflexivity|]. split; [exact I2|]. split; [exact E2|]. split; [exact T2|].
        split; [reflexivity|]. cbn. rewrite TM, SH. split; [exact N2|]. destruct (mf_list f); [exact N2 | constructor].
      + eexists; eexists. split; [reflexivity|]. split; [exact I|]. split; [apply ext_O_refl|]. split; [apply tag_mono_refl|].
        split; [reflexivity|]. cbn. rewrite TM, SH. destruct (mf_list f); split; constructor.
  Qed.

  Lemma qfields_spec : forall target B rec O fs pre out s,
    rec_spec target B rec -> Forall field_wf fs -> Inv O s -> (pending target (q_cache s) <= B)%nat ->
    Forall2 (frel (q_nodes s)) pre (rev out) ->
    exists out' s', fold_left (qfield_step rec) fs (out, s) = (out', s') /\
      Inv O s' /\ ext_O O (q_nodes s) (q_nodes s') /\ tag_mono target (q_cache s) (q_cache s') /\
      Forall2 (frel (q_nodes s')) (pre ++ fs) (rev out').
  Proof.
    intros target B rec O fs. induction fs as [|f r IH]; intros pre out s R W I P F; cbn [fold_left].
    - exists out, s. rewrite app_nil_r. split; [reflexivity|]. split; [exact I|]. split; [apply ext_O_refl|]. split; [apply tag_mono_refl | exact F].
    - inversion W as [|? ? Wf Wr]; subst.
      destruct (qfield_step_spec target B rec O out s f R Wf I P) as [g [s1 [Q [I1 [E1 [T1 G1]]]]]].
      rewrite Q.
      assert (P1 : (pending target (q_cache s1) <= B)%nat) by (pose proof (pending_mono _ _ _ T1); lia).
      assert (F1 : Forall2 (frel (q_nodes s1)) (pre ++ [f]) (rev (g :: out))).
      { cbn [rev]. apply Forall2_snoc; [|exact G1]. eapply Forall2_impl; [|exact F].
        intros a b. apply frel_ext. exact (ext_O_ext _ _ _ E1). }
      destruct (IH (pre ++ [f]) (g :: out) s1 R Wr I1 P1 F1) as [out' [s' [Q' [I' [E' [T' F']]]]]].
      exists out', s'. split; [exact Q'|]. split; [exact I'|]. split; [exact (ext_O_trans _ _ _ _ E1 E')|].
      split; [exact (tag_mono_trans _ _ _ _ T1 T')|]. rewrite <- app_assoc in F'. exact F'.
  Qed.

  Lemma decls_wf : forall m fs, In (m, fs) tbl -> Forall field_wf fs.
  Proof. intros m fs I. apply Forall_forall. intros f If. split; [exact (Hclosed m fs f I If) | exact (Hshaped m fs f I If)]. Qed.

  Lemma qmiss_spec : forall target B fuel' O m st,
    rec_spec target B (qparse keyf tbl fuel' target) -> declared tbl m -> Inv O st ->
    tagged target (q_cache st) (keyf m) = false -> (pending target (q_cache st) <= S B)%nat ->
    post target O m st (qmiss keyf tbl fuel' target m st).
  Proof.
    intros target B fuel' O m st R D [CI [ND DN]] T P. unfold qmiss.
    set (n := length (q_nodes st)).
    set (nd := Z.of_nat n).
    set (st1 := {| q_cache := fnm_set (q_cache st) (keyf m) (target, nd); q_nodes := q_nodes st ++ [(m, [])] |}).
    destruct (declared_lookup m D) as [decls [L IT]]. rewrite L.
    assert (TN : Z.to_nat nd = n) by (unfold nd; apply Nat2Z.id).
    assert (N1 : nth_error (q_nodes st1) n = Some (m, [])).
    { cbn [q_nodes st1]. rewrite nth_error_app2 by (unfold n; lia). unfold n. rewrite Nat.sub_diag. reflexivity. }
    assert (E01 : ext_O (n :: O) (q_nodes st) (q_nodes st1)) by (apply ext_O_app).
    assert (I1 : Inv (n :: O) st1).
    { split; [|split].
      - intros k tg x H. cbn [q_cache q_nodes st1] in *. rewrite cache_get_set in H.
        destruct (bytes_eqb (keyf m) k) eqn:E.
        + apply bytes_eqb_eq in E. inversion H; subst tg x. split; [unfold nd; lia|].
          exists m, []. split; [rewrite TN; exact N1 | exact E].
        + apply (node_keyed_ext keyf (q_nodes st)); [apply ext_app | exact (CI _ _ _ H)].
      - intros i nm fs H. cbn [q_nodes st1] in H. destruct (Nat.lt_ge_cases i n) as [Lt|Ge].
        + rewrite nth_error_app1 in H by exact Lt. exact (ND _ _ _ H).
        + rewrite nth_error_app2 in H by exact Ge. destruct (i - length (q_nodes st))%nat as [|k]; cbn in H.
          * inversion H; subst. exact D.
          * destruct k; discriminate.
      - intros i nm fs H NI. cbn [q_nodes st1] in *.
        assert (Lt : (i < n)%nat).
        { assert (i < length (q_nodes st ++ [(m, [])]))%nat by (apply nth_error_Some; congruence).
          rewrite app_length in H0. cbn in H0. fold n in H0. assert (i <> n) by (intro; apply NI; left; congruence). lia. }
        rewrite nth_error_app1 in H by exact Lt.
        apply (node_done_ext tbl (q_nodes st)); [apply ext_app|]. apply (DN _ _ _ H). intro IO. apply NI. right. exact IO. }
    assert (P1 : (pending target (q_cache st1) <= B)%nat).
    { cbn [q_cache st1]. pose proof (pending_set_lt target (q_cache st) m nd D T). lia. }
    destruct (qfields_spec target B _ (n :: O) decls [] [] st1 R (decls_wf m decls IT) I1 P1 (Forall2_nil _))
      as [rfs [st2 [Q [I2 [E12 [T12 F2]]]]]].
    rewrite Q. cbn [app] in F2. rewrite TN.
    destruct (proj1 (E12 _ _ _ N1)) as [fs2 N2].
    assert (E2F : ext_O (n :: O) (q_nodes st2) (set_node n (m, rev rfs) (q_nodes st2))).
    { apply (ext_O_set_node _ _ _ _ fs2); [exact N2 | left; reflexivity]. }
    assert (NF : nth_error (set_node n (m, rev rfs) (q_nodes st2)) n = Some (m, rev rfs)).
    { rewrite set_node_nth. rewrite Nat.eqb_refl.
      assert (Lt : (n < length (q_nodes st2))%nat) by (apply nth_error_Some; congruence).
      apply Nat.ltb_lt in Lt. rewrite Lt. reflexivity. }
    destruct I2 as [CI2 [ND2 DN2]].
    unfold post. cbn [fst snd q_nodes q_cache].
    split; [split; [|split]|split; [|split]].
    - apply (cache_inv_ext keyf (q_cache st2) (q_nodes st2)); [exact (ext_O_ext _ _ _ E2F)|]. destruct st2; exact CI2.
    - apply names_declared_set_node; assumption.
    - intros i nm fs H NI. cbn [q_nodes] in H |- *. destruct (Nat.eq_dec i n) as [E|E].
      + subst i. rewrite NF in H. inversion H; subst nm fs. exists decls. split; [exact L|].
        eapply Forall2_impl; [|exact F2]. intros a b. apply frel_ext. exact (ext_O_ext _ _ _ E2F).
      + rewrite set_node_nth in H. apply Nat.eqb_neq in E. rewrite E in H. cbn [andb] in H.
        apply (node_done_ext tbl (q_nodes st2)); [exact (ext_O_ext _ _ _ E2F)|].
        apply (DN2 _ _ _ H). intros [X|X]; [apply Nat.eqb_neq in E; congruence | exact (NI X)].
    - apply (ext_O_weaken O n).
      + exact (ext_O_trans _ _ _ _ E01 (ext_O_trans _ _ _ _ E12 E2F)).
      + intros nm fs H. assert (X : nth_error (q_nodes st) n = None) by (apply nth_error_None; unfold n; lia). congruence.
    - exact (tag_mono_trans _ _ _ _ (tag_mono_set target (q_cache st) (keyf m) nd) T12).
    - split; [unfold nd; lia|]. exists (rev rfs). rewrite TN. exact NF.
  Qed.

  Lemma qparse_spec : forall B target, rec_spec target B (qparse keyf tbl (S B) target).
  Proof.
    induction B as [|B IH]; intros target O m st D I P;
      (destruct (match cache_get (q_cache st) (keyf m) with
                 | Some (tg, nd) => if tg =? target then Some nd else None
                 | None => None end) as [nd|] eqn:H;
       [ (* memo hit: the registered (possibly still open) descriptor of this very declaration *)
         cbn [qparse]; rewrite H; unfold post; cbn [fst snd];
         split; [exact I|]; split; [apply ext_O_refl|]; split; [apply tag_mono_refl|];
         destruct I as [CI [ND _]];
         destruct (cache_get (q_cache st) (keyf m)) as [[tg nd']|] eqn:C; [|discriminate];
         destruct (tg =? target); [|discriminate]; inversion H; subst nd';
         destruct (CI _ _ _ C) as [P0 [nm [fs [N K]]]];
         assert (nm = m) by (apply key_injective; [exact (ND _ _ _ N) | exact D | exact K]); subst nm;
         split; [exact P0 | exists fs; exact N]
       | ]).
    - (* no fuel left for a miss: impossible, a missed declared name is still pending *)
      exfalso.
      assert (T : tagged target (q_cache st) (keyf m) = false).
      { unfold tagged. destruct (cache_get (q_cache st) (keyf m)) as [[tg x]|]; [|reflexivity]. destruct (tg =? target); [discriminate | reflexivity]. }
      pose proof (pending_set_lt target (q_cache st) m 0 D T). lia.
    - rewrite (qparse_unfold_miss keyf tbl (S B) target m st H).
      assert (T : tagged target (q_cache st) (keyf m) = false).
      { unfold tagged. destruct (cache_get (q_cache st) (keyf m)) as [[tg x]|]; [|reflexivity]. destruct (tg =? target); [discriminate | reflexivity]. }
      exact (qmiss_spec target B (S B) O m st (IH target) D I T P).
  Qed.
End Graph.

(* ------------------------------------------------------------------------------------------------ *)
(* a whole parse: all selected methods, request (target 0) then response (target 1), one memo table *)

Section Service.
  Variable keyf : qname -> bytes.
  Variable tbl : msgtab.
  Hypothesis Hinj : NoDup (map keyf (map fst tbl)).
  Hypothesis Hclosed : tbl_closed tbl.
  Hypothesis Hshaped : forall m fs f, In (m, fs) tbl -> In f fs -> field_shaped f.

  Definition opt_declared (q : option qname) : Prop := match q with Some m => declared tbl m | None => True end.
  Definition root_named (nodes : nodes_t) (q : option qname) (i : Z) : Prop :=
    match q with Some m => named nodes i m | None => i = -1 end.
  Definition entry_named (nodes : nodes_t) (e : pmethod * Z * Z) : Prop :=
    root_named nodes (pm_in (fst (fst e))) (snd (fst e)) /\ root_named nodes (pm_out (fst (fst e))) (snd e).
  Definition method_roots_declared (pm : pmethod) : Prop := opt_declared (pm_in pm) /\ opt_declared (pm_out pm).

  Lemma root_named_ext : forall a b q i, ext a b -> root_named a q i -> root_named b q i.
  Proof. intros a b [m|] i E H; cbn in *; [exact (named_ext _ _ _ _ E H) | exact H]. Qed.

  Lemma qparse_opt_spec : forall B target q st, (length tbl <= B)%nat -> opt_declared q -> Inv keyf tbl [] st ->
    let r := qparse_opt keyf tbl (S B) target q st in
    Inv keyf tbl [] (snd r) /\ ext (q_nodes st) (q_nodes (snd r)) /\ root_named (q_nodes (snd r)) q (fst r).
  Proof.
    intros B target [m|] st LB D I; cbn [qparse_opt].
    - assert (P : (pending keyf tbl target (q_cache st) <= B)%nat) by (pose proof (pending_bound keyf tbl target (q_cache st)); lia).
      destruct (qparse_spec keyf tbl Hinj Hclosed Hshaped B target [] m st D I P) as [I' [E' [_ N']]].
      split; [exact I'|]. split; [exact (ext_O_ext _ _ _ E') | exact N'].
    - cbn. split; [exact I|]. split; [apply ext_refl | reflexivity].
  Qed.

  Lemma qmethods_fold_graph : forall B ms acc, (length tbl <= B)%nat -> Forall method_roots_declared ms ->
    Inv keyf tbl [] (snd acc) -> Forall (entry_named (q_nodes (snd acc))) (fst acc) ->
    let r := fold_left (qmethod_step keyf tbl (S B)) ms acc in
    Inv keyf tbl [] (snd r) /\ Forall (entry_named (q_nodes (snd r))) (fst r) /\
    map (fun e => fst (fst e)) (fst r) = map (fun e => fst (fst e)) (fst acc) ++ ms.
  Proof.
    intros B ms. induction ms as [|pm r IH]; intros [out s] LB D I F; cbn [fold_left].
    - cbn [fst snd]. rewrite app_nil_r. split; [exact I|]. split; [exact F | reflexivity].
    - inversion D as [|? ? [Di Do] Dr]; subst. cbn [fst snd] in *.
      remember (qmethod_step keyf tbl (S B) (out, s) pm) as acc1 eqn:Q. unfold qmethod_step in Q.
      pose proof (qparse_opt_spec B 0 (pm_in pm) s LB Di I) as [I1 [E1 R1]].
      destruct (qparse_opt keyf tbl (S B) 0 (pm_in pm) s) as [i s1]. cbn [fst snd] in *.
      pose proof (qparse_opt_spec B 1 (pm_out pm) s1 LB Do I1) as [I2 [E2 R2]].
      destruct (qparse_opt keyf tbl (S B) 1 (pm_out pm) s1) as [o s2]. cbn [fst snd] in *. subst acc1.
      assert (F2 : Forall (entry_named (q_nodes s2)) (out ++ [(pm, i, o)])).
      { apply Forall_app. split.
        - eapply Forall_impl; [|exact F]. intros e [A C].
          split; [exact (root_named_ext _ _ _ _ (ext_trans _ _ _ E1 E2) A) | exact (root_named_ext _ _ _ _ (ext_trans _ _ _ E1 E2) C)].
        - constructor; [|constructor]. split; cbn [fst snd]; [exact (root_named_ext _ _ _ _ E2 R1) | exact R2]. }
      destruct (IH (out ++ [(pm, i, o)], s2) LB Dr I2 F2) as [I' [F' M']].
      split; [exact I'|]. split; [exact F'|]. rewrite M'. cbn [fst]. rewrite map_app. cbn. rewrite <- app_assoc. reflexivity.
  Qed.

  Lemma Inv_empty : Inv keyf tbl [] {| q_cache := []; q_nodes := [] |}.
  Proof.
    split; [apply cache_inv_empty|]. split; intros i nm fs H; destruct i; discriminate.
  Qed.

  (* the graph of a whole parse: every node carries the elaborated fields of the declaration it was built from, every
     reference points to a node built from the referenced declaration, every method root is its declared type *)
  Lemma qmethods_graph : forall B ms, (length tbl <= B)%nat -> Forall method_roots_declared ms ->
    let r := qmethods keyf tbl (S B) ms in
    map (fun e => fst (fst e)) (fst r) = ms /\
    Forall (entry_named (q_nodes (snd r))) (fst r) /\
    (forall i nm fs, nth_error (q_nodes (snd r)) i = Some (nm, fs) -> node_done tbl (q_nodes (snd r)) nm fs) /\
    names_declared tbl (q_nodes (snd r)).
  Proof.
    intros B ms LB D. unfold qmethods.
    destruct (qmethods_fold_graph B ms ([], {| q_cache := []; q_nodes := [] |}) LB D Inv_empty (Forall_nil _)) as [[CI [ND DN]] [F M]].
    split; [exact M|]. split; [exact F|]. split; [|exact ND]. intros i nm fs H. apply (DN i nm fs H). intros [].
  Qed.
End Service.

(* ------------------------------------------------------------------------------------------------ *)
(* what the field relation preserves; lookups through related field lists *)

Lemma frel_attrs : forall nodes f g, frel nodes f g ->
  mf_num g = mf_num f /\ mf_name g = mf_name f /\ mf_json g = mf_json f /\ mf_kind g = mf_kind f /\ mf_ty g = mf_ty f /\
  mf_list g = mf_list f /\ mf_map g = mf_map f /\ mf_packed g = mf_packed f /\ mf_keyty g = mf_keyty f /\ mf_elemty g = mf_elemty f.
Proof. intros nodes f g [E _]. rewrite E. cbn. repeat split. Qed.

Lemma frel_columns : forall nodes mfs fs, Forall2 (frel nodes) mfs fs ->
  map mf_num fs = map mf_num mfs /\ map mf_name fs = map mf_name mfs /\ map mf_json fs = map mf_json mfs.
Proof.
  intros nodes mfs fs F. induction F as [|f g mfs fs R F IH]; cbn; [repeat split|].
  destruct IH as [A [B C]]. destruct (frel_attrs _ _ _ R) as [N [M [J _]]]. rewrite A, B, C, N, M, J. repeat split.
Qed.

Definition opt_frel (nodes : nodes_t) (a : option (mfield qname)) (b : option (mfield Z)) : Prop :=
  match a, b with Some f, Some g => frel nodes f g | None, None => True | _, _ => False end.

Lemma assoc_last_frel : forall nodes mfs fs, Forall2 (frel nodes) mfs fs -> forall n,
  opt_frel nodes (assoc_last n (map (fun f => (mf_num f, f)) mfs)) (assoc_last n (map (fun g => (mf_num g, g)) fs)).
Proof.
  intros nodes mfs fs F. induction F as [|f g mfs fs R F IH]; intro n; cbn [map assoc_last]; [exact Logic.I|].
  specialize (IH n).
  destruct (assoc_last n (map (fun f => (mf_num f, f)) mfs)) as [f'|], (assoc_last n (map (fun g => (mf_num g, g)) fs)) as [g'|];
    cbn in IH; try contradiction; [exact IH|].
  destruct (frel_attrs _ _ _ R) as [N _]. rewrite N. destruct (mf_num f =? n); [exact R | exact Logic.I].
Qed.

Lemma assocb_last_frel : forall nodes mfs fs, Forall2 (frel nodes) mfs fs -> forall k,
  opt_frel nodes (assocb_last k (flat_map (fun f => [(mf_name f, f); (mf_json f, f)]) mfs))
                 (assocb_last k (flat_map (fun g => [(mf_name g, g); (mf_json g, g)]) fs)).
Proof.
  intros nodes mfs fs F. induction F as [|f g mfs fs R F IH]; intro k; cbn [flat_map app assocb_last]; [exact Logic.I|].
  specialize (IH k).
  destruct (assocb_last k (flat_map (fun f => [(mf_name f, f); (mf_json f, f)]) mfs)) as [f'|],
           (assocb_last k (flat_map (fun g => [(mf_name g, g); (mf_json g, g)]) fs)) as [g'|];
    cbn in IH; try contradiction; [exact IH|].
  destruct (frel_attrs _ _ _ R) as [_ [M [J _]]]. rewrite M, J.
  destruct (bytes_eqb (mf_json f) k); [exact R|]. destruct (bytes_eqb (mf_name f) k); [exact R | exact Logic.I].
Qed.

(* ByNumber / ByName / ByJSONName on a node of the traversal answer as on pelab's descriptor *)
Lemma lookups_through_frel : forall nodes mfs fs, Forall2 (frel nodes) mfs fs ->
  (forall n, match by_number_spec mfs n, by_number_spec fs n with
             | LRes a, LRes b => opt_frel nodes a b | LPanic, LPanic => True | _, _ => False end) /\
  (forall k, opt_frel nodes (by_key_spec mfs k) (by_key_spec fs k)).
Proof.
  intros nodes mfs fs F. split.
  - intro n. unfold by_number_spec. destruct (n <? 0); [exact Logic.I|]. exact (assoc_last_frel nodes mfs fs F n).
  - intro k. exact (assocb_last_frel nodes mfs fs F k).
Qed.

(* ------------------------------------------------------------------------------------------------ *)
(* instantiation: the table of a valid schema, the memo keyed by the fully-qualified name *)

Lemma msg_table_shaped : forall s m fs f, In (m, fs) (msg_table s) -> In f fs -> field_shaped f.
Proof.
  intros s m fs f Hm Hf.
  destruct (msg_table_only_declared s m fs Hm) as [g [Hg [[fds [Hd E]]|[m0 [fds [fd [Hd [Hfd [Hmap [Em E]]]]]]]]]]; subst fs.
  - apply in_map_iff in Hf. destruct Hf as [fd [E Hfd]]. subst f. unfold field_shaped, elab_field.
    destruct (elem_of (symtab_of s g) m fd) as [ek em].
    destruct (fd_label fd =? 0); [cbn; reflexivity|]. destruct (fd_label fd =? 1); cbn; [reflexivity | discriminate].
  - unfold entry_fields in Hf. destruct (elem_of (symtab_of s g) m0 fd) as [ek em].
    destruct Hf as [Hf|[Hf|[]]]; subst f; intros _; reflexivity.
Qed.

Lemma resolve_msg_declared : forall s f scope ref q, In f s -> resolve_msg (symtab_of s f) scope ref = Some q ->
  declared (msg_table s) q.
Proof.
  intros s f scope ref q Hf H. unfold resolve_msg in H.
  destruct (resolve (symtab_of s f) scope ref) as [[q' k]|] eqn:R; [|discriminate].
  destruct (Z.eqb_spec k S_MSG); [|discriminate]. inversion H; subst.
  exact (visible_msg_in_table s f q Hf (proj1 (resolve_sound _ _ _ _ _ R))).
Qed.

Lemma pelab_roots_declared : forall mode s, Forall (method_roots_declared (msg_table s)) (pd_methods (pelab mode s)).
Proof.
  intros mode s. destruct s as [|f0 r].
  - cbn [pelab pd_methods main_file pf_svcs]. unfold select_svcs. destruct (mode =? 0), (mode =? 1); cbn; constructor.
  - apply Forall_forall. intros pm H. cbn [pelab pd_methods] in H.
    apply in_flat_map in H. destruct H as [sv [_ H]]. apply in_map_iff in H. destruct H as [md [E _]]. subst pm.
    assert (Hf : In (main_file (f0 :: r)) (f0 :: r)) by (left; reflexivity).
    unfold method_roots_declared, opt_declared, elab_method. cbn [pm_in pm_out]. split.
    + destruct (resolve_msg _ _ (md_in md)) as [q|] eqn:R; [|exact Logic.I]. exact (resolve_msg_declared _ _ _ _ _ Hf R).
    + destruct (resolve_msg _ _ (md_out md)) as [q|] eqn:R; [|exact Logic.I]. exact (resolve_msg_declared _ _ _ _ _ Hf R).
Qed.

(* parse_refines_pelab: for every valid schema (references resolvable: schema_ok; fully-qualified names unique)
   and every ParseServiceMode, the graph the traversal builds IS pelab's descriptor:
   (1) one entry per selected method, in order;
   (2) each request / response root is a node built from the declared request / response type;
   (3) EVERY node (hence every node reachable from a root, through any number of recursive / mutually recursive
       references) carries the elaborated field list of the declaration it was built from — number, name, JSON
       name, kind, type, list / map, packedness, map key / element type — and each message-typed field points to a
       node built from the declaration with the resolved FULL name;
   (4) every node is built from a declared message (or synthetic map entry). *)
Lemma parse_refines_pelab : forall mode s,
  schema_ok mode s = true -> NoDup (map key_full (map fst (msg_table s))) ->
  let d := pelab mode s in
  let r := parse_service mode s in
  let nodes := q_nodes (snd r) in
  map (fun e => fst (fst e)) (fst r) = pd_methods d /\
  Forall (entry_named nodes) (fst r) /\
  (forall i nm fs, nth_error nodes i = Some (nm, fs) ->
     exists mfs, lookup_msg (pd_msgs d) nm = Some mfs /\ Forall2 (frel nodes) mfs fs) /\
  names_declared (pd_msgs d) nodes.
Proof.
  intros mode s OK ND. cbn zeta. unfold parse_service, parse_fuel. cbn [pelab pd_msgs pd_methods].
  exact (qmethods_graph key_full (msg_table s) ND (msg_table_closed mode s OK) (msg_table_shaped s)
           (length (msg_table s)) _ (le_n _) (pelab_roots_declared mode s)).
Qed.

(* walking the graph along message-typed fields visits the declarations the specification names *)
Lemma graph_follow_eq : forall tbl (nodes : nodes_t),
  (forall i nm fs, nth_error nodes i = Some (nm, fs) -> node_done tbl nodes nm fs) ->
  forall path i q, named nodes i q -> q_follow nodes path i = spec_follow tbl path q.
Proof.
  intros tbl nodes AD. induction path as [|n p IH]; intros i q [P [fs N]].
  - cbn. rewrite N. destruct (AD _ _ _ N) as [mfs [L _]]. rewrite L. reflexivity.
  - cbn [q_follow spec_follow]. rewrite N. destruct (AD _ _ _ N) as [mfs [L F]]. rewrite L.
    pose proof (proj1 (lookups_through_frel nodes mfs fs F) n) as R.
    destruct (by_number_spec mfs n) as [|[f|]], (by_number_spec fs n) as [|[g|]]; cbn in R; try contradiction; try reflexivity.
    destruct R as [_ [RT _]]. destruct (mf_tmsg f) as [q'|], (mf_tmsg g) as [j|]; cbn in RT; try contradiction; [|reflexivity].
    exact (IH j q' RT).
Qed.

(* ------------------------------------------------------------------------------------------------ *)
(* corollaries on the traversal's output *)

Lemma frel_numbers_ok : forall nodes mfs fs, Forall2 (frel nodes) mfs fs -> numbers_ok mfs -> numbers_ok fs.
Proof.
  intros nodes mfs fs F [N P]. destruct (frel_columns nodes mfs fs F) as [C _]. split; [rewrite C; exact N|].
  clear N C. induction F as [|f g mfs fs R F IH]; [constructor|]. inversion P; subst.
  constructor; [destruct (frel_attrs _ _ _ R) as [E _]; rewrite E; assumption | apply IH; assumption].
Qed.

(* a node built from a DECLARED message carries the elaboration of that declaration's fields *)
Lemma parse_node_is_declaration : forall mode s f nm fds i fs,
  schema_ok mode s = true -> NoDup (map key_full (map fst (msg_table s))) ->
  In f s -> In (DMsg nm fds) (pf_decls f) ->
  nth_error (q_nodes (snd (parse_service mode s))) i = Some (nm, fs) ->
  Forall2 (frel (q_nodes (snd (parse_service mode s)))) (map (elab_field (symtab_of s f) nm) fds) fs.
Proof.
  intros mode s f nm fds i fs OK ND Hf Hd N.
  destruct (parse_refines_pelab mode s OK ND) as [_ [_ [G _]]]. cbn zeta in G.
  destruct (G i nm fs N) as [mfs [L F]].
  rewrite (pelab_fields_exact mode s f nm fds (schema_ok_names_unique mode s OK) Hf Hd) in L. inversion L; subst. exact F.
Qed.

(* lookup by number on a node of the traversal: exact, for every n >= 0 *)
Lemma parse_lookup_by_number_exact : forall mode s f nm fds i fs n g,
  schema_ok mode s = true -> NoDup (map key_full (map fst (msg_table s))) ->
  In f s -> In (DMsg nm fds) (pf_decls f) ->
  nth_error (q_nodes (snd (parse_service mode s))) i = Some (nm, fs) -> 0 <= n ->
  (by_number fs n = LRes (Some g) <-> In g fs /\ mf_num g = n).
Proof.
  intros mode s f nm fds i fs n g OK ND Hf Hd N Hn.
  pose proof (parse_node_is_declaration mode s f nm fds i fs OK ND Hf Hd N) as F.
  apply lookup_by_number_exact; [|exact Hn]. apply (frel_numbers_ok _ _ _ F).
  apply decl_ok_numbers. exact (schema_ok_decl_ok mode s f _ OK Hf Hd).
Qed.

(* ... and it is pelab's answer, field for field (by number, by name, by JSON name) *)
Lemma parse_lookups_refine_pelab : forall mode s i nm fs,
  schema_ok mode s = true -> NoDup (map key_full (map fst (msg_table s))) ->
  nth_error (q_nodes (snd (parse_service mode s))) i = Some (nm, fs) ->
  exists mfs, lookup_msg (pd_msgs (pelab mode s)) nm = Some mfs /\
    (forall n, match by_number_spec mfs n, by_number_spec fs n with
               | LRes a, LRes b => opt_frel (q_nodes (snd (parse_service mode s))) a b | LPanic, LPanic => True | _, _ => False end) /\
    (forall k, opt_frel (q_nodes (snd (parse_service mode s))) (by_key_spec mfs k) (by_key_spec fs k)).
Proof.
  intros mode s i nm fs OK ND N. destruct (parse_refines_pelab mode s OK ND) as [_ [_ [G _]]]. cbn zeta in G.
  destruct (G i nm fs N) as [mfs [L F]]. exists mfs. split; [exact L|]. exact (lookups_through_frel _ mfs fs F).
Qed.

(* from any method root, any path of message-typed fields reaches the node of the declaration pelab names *)
Lemma parse_follow_eq : forall mode s path i q,
  schema_ok mode s = true -> NoDup (map key_full (map fst (msg_table s))) ->
  named (q_nodes (snd (parse_service mode s))) i q ->
  q_follow (q_nodes (snd (parse_service mode s))) path i = spec_follow (pd_msgs (pelab mode s)) path q.
Proof.
  intros mode s path i q OK ND N. destruct (parse_refines_pelab mode s OK ND) as [_ [_ [G _]]]. cbn zeta in G.
  apply graph_follow_eq; [|exact N]. intros j nm fs H. exact (G j nm fs H).
Qed.

(* two nodes of one parse target built from the same declaration are the same node: the memo never duplicates
   (stated on the memo: an entry for (key, target) is reused) — and nodes of different declarations differ *)
Lemma named_functional : forall (nodes : nodes_t) i q q', named nodes i q -> named nodes i q' -> q = q'.
Proof. intros nodes i q q' [_ [fs H]] [_ [fs' H']]. rewrite H in H'. inversion H'; reflexivity. Qed.

Lemma witness_parse_service :
  let r := parse_service 0 witness_schema in
  NoDup (map key_full (map fst (msg_table witness_schema))) /\
  match fst r with (_, i, _) :: _ => q_follow (q_nodes (snd r)) [2; 1] i | [] => None end = Some [w_p; w_B; w_Item].
Proof. split; [apply (nodupb_sound _ _ bytes_eqb_eq); vm_compute; reflexivity | vm_compute; reflexivity]. Qed.
