(* C02 — the portable JSON -> Thrift walk over the raw text (model/J2TWalk.v) computes, on the canonical text of a JSON AST,
   what the AST-level specification (model/J2T.v, strict policy) computes:
     j2t_walk_refines_spec / j2t_walk_top_refines_spec   (domain: walk_ok_opts, defs_plain, wdom below)
   plus: kind mismatches on canonical text (walk_kind_mismatch, walk_num_mismatch, walk_int_mismatch), the string-for-a-non-string
   descriptor case (walk_string_mismatch, j2t_walk_string_mismatch_rejected, walk_rejects_kind_mismatch), the "-0" drift (walk_neg_zero_double),
   and fuel adequacy for ANY text (walk_short, walk_fuel_adequate, j2t_walk_never_fuel).
   Token-level lemmas are in J2TWalkTok.v. *)
From Coq Require Import ZArith List Bool Lia.
From DG Require Import ProtoWireRef ThriftWire ThriftWireProofs Json JsonProofs Num NumProofs F64Exact Base64 Base64Proofs
                       J2T J2TProofs J2TWalk J2TWalkTok.
Import ListNotations.
Local Open Scope Z_scope.

Lemma Ok_inj : forall a b, Ok a = Ok b -> a = b.
Proof. congruence. Qed.

(* ------------------------------------------------------------------ the domain of the theorem *)

(* options: the walk's write-unset-fields switches are off, value mapping is off *)
Definition walk_ok_opts (o : wopts) : bool := negb (w_vm o) && negb (w_wreq o) && negb (w_wdef o) && negb (w_wopt o).
(* descriptors: every field is default (0) or optional (2) requireness — no required field (nothing is checked / filled in at '}') *)
Definition sd_plain (sd : sdef) : bool := forallb (fun f => (f_req f =? 0) || (f_req f =? 2)) sd.
Definition defs_plain (D : defs) : bool := forallb sd_plain D.

(* JSON number at a double position: anything but a plain integer lexeme "-0", "-00", ... (the code reads it as int64 0 and yields +0.0,
   the specification -0.0).  [neg_zero_int l = lex_is_plain_int l && (head l is '-') && (digits denote 0)], see neg_zero_int_eq. *)
Definition dbl_num_dom (l : list Z) : bool := negb (neg_zero_int l).
(* string holding a number at a double position (String2Int64) / double map key: any lexeme (strconv.ParseFloat keeps the sign of -0) *)
Definition dbl_str_dom (l : list Z) : bool := true.

Lemma neg_zero_int_eq : forall l, neg_zero_int l =
  lex_is_plain_int l && match l with c :: t => (c =? 45) && (digits_val t 0 =? 0) | [] => false end.
Proof. reflexivity. Qed.
Definition unk_dom (x : json) : bool := true.           (* value of a member unknown to the struct: any (SkipValue, see skip_value_print) *)

Definition num_dom (t : ty) (l : list Z) : bool :=
  if is_int_ty t then lex_is_plain_int l else match t with TDouble => dbl_num_dom l | _ => true end.
Definition strnum_dom (t : ty) (x : list Z) : bool :=
  if is_int_ty t then lex_is_plain_int x else match t with TDouble => dbl_str_dom x | _ => true end.

Section Dom.
  Variable D : defs.
  Fixpoint wdom (t : ty) (j : json) {struct j} : bool :=
    match j with
    | JNull | JBool _ => true
    | JNum l => num_dom t l
    | JStr x => strnum_dom t x
    | JArr xs => match t with TList e | TSet e => forallb (wdom e) xs | _ => true end
    | JObj ms =>
      match t with
      | TMap k v => forallb (fun m => strnum_dom k (fst m) && wdom v (snd m)) ms
      | TStruct i =>
        match nth_error D i with
        | Some sd => forallb (fun m => match find_field sd (fst m) with
                                       | Some f => wdom (f_ty f) (snd m)
                                       | None => unk_dom (snd m)
                                       end) ms
        | None => true
        end
      | _ => true
      end
    end.
End Dom.

Lemma dbl_num_walk : forall l r b, dbl_num_dom l = true -> num_okb l = true -> stop r = true -> num_strict TDouble l = Ok b ->
  exists tk, decode_value (l ++ r) = Some (tk, r) /\
             ((exists bits, tk = TkDbl bits /\ b = enc_int 8 bits) \/ (exists z, tk = TkInt z /\ b = enc_int 8 (i64_to_f64 z))).
Proof.
  intros l r b Hd Hok Hr Hs. unfold dbl_num_dom in Hd. apply negb_true_iff in Hd.
  unfold num_strict in Hs. rewrite Hok in Hs. cbn [negb] in Hs.
  destruct (lex2f64 l) as [bits|] eqn:El; [|discriminate]. destruct (f64_is_finite bits) eqn:Ef; [|discriminate].
  apply Ok_inj in Hs. subst b.
  destruct (decode_value_f64 l r bits Hok Hr El Ef Hd) as (tk & Hdv & [->|(z & -> & Hz)]).
  - exists (TkDbl bits). split; [exact Hdv|]. left. eexists; split; reflexivity.
  - exists (TkInt z). split; [exact Hdv|]. right. exists z. split; [reflexivity|]. rewrite Hz. reflexivity.
Qed.

Lemma dbl_str_parse : forall x b, dbl_str_dom x = true -> num_okb x = true -> num_strict TDouble x = Ok b ->
  exists bits, go_parse_float x = PFOk bits /\ b = enc_int 8 bits.
Proof.
  intros x b _ Hok Hs. unfold num_strict in Hs. rewrite Hok in Hs. cbn [negb] in Hs.
  destruct (lex2f64 x) as [bits|] eqn:El; [|discriminate]. destruct (f64_is_finite bits) eqn:Ef; [|discriminate].
  apply Ok_inj in Hs. subst b. exists bits. split; [|reflexivity]. apply go_parse_float_lex; assumption.
Qed.

Lemma skip_unknown : forall x r, unk_dom x = true -> json_wf x = true -> stop r = true ->
  skip_value (json_print x ++ r) = Some r.
Proof. intros x r _. apply skip_value_print. Qed.

(* ------------------------------------------------------------------ small facts *)

Ltac lens2 := repeat first [ progress (rewrite app_length in * ) | progress (cbn [length print_mtail print_tail fst snd] in * ) ].

Lemma rconcat_cons_ok {A} (f : A -> res) x l body : rconcat f (x :: l) = Ok body ->
  exists bx bl, f x = Ok bx /\ rconcat f l = Ok bl /\ body = bx ++ bl.
Proof.
  cbn [rconcat]. destruct (f x) as [bx|]; [|discriminate]. destruct (rconcat f l) as [bl|]; [|discriminate].
  intros H. injection H as <-. eauto.
Qed.

Lemma count_nonnull_cons : forall x l, count_nonnull (x :: l) = (if is_null x then 0 else 1) + count_nonnull l.
Proof. intros. unfold count_nonnull, zlen. cbn [filter]. destruct (is_null x); cbn [negb length]; lia. Qed.

Lemma is_null_eq : forall x, is_null x = true -> x = JNull.
Proof. destruct x; intros H; try discriminate; reflexivity. Qed.

Lemma print_member_app : forall k x rest, print_member json_print (k, x) ++ rest = quote_ref k ++ 58 :: json_print x ++ rest.
Proof. intros. unfold print_member. cbn [fst snd]. rewrite <- app_assoc. reflexivity. Qed.

Lemma quote_ref_length : forall k, (2 <= length (quote_ref k))%nat.
Proof. intros. unfold quote_ref. cbn [length]. rewrite app_length. cbn [length]. lia. Qed.

(* requires bitmap *)
Lemma ins_sorted_in : forall x y l, In x (ins_sorted y l) -> x = y \/ In x l.
Proof.
  intros x y. induction l as [|a l IH]; cbn [ins_sorted]; intros H.
  - destruct H as [<-|[]]. left; reflexivity.
  - destruct (y <? a); [destruct H as [<-|H]; [left; reflexivity|right; exact H]|].
    destruct (y =? a); [right; exact H|].
    destruct H as [<-|H]; [right; left; reflexivity|]. destruct (IH H) as [->|H']; [left; reflexivity|right; right; exact H'].
Qed.

Lemma bm_init_incl : forall sd id, In id (bm_init sd) -> In id (map f_id sd).
Proof.
  induction sd as [|f sd IH]; intros id H; [destruct H|]. unfold bm_init in H. cbn [fold_right] in H. fold (bm_init sd) in H.
  cbn [map]. destruct (f_req f =? 2); [right; apply IH; exact H|].
  destruct (ins_sorted_in _ _ _ H) as [->|H']; [left; reflexivity|right; apply IH; exact H'].
Qed.

Lemma bm_clear_incl : forall i bm id, In id (bm_clear i bm) -> In id bm.
Proof. intros i bm id H. unfold bm_clear in H. apply filter_In in H. tauto. Qed.

Lemma handle_requires_plain : forall o sd bm, w_wreq o = false -> w_wdef o = false -> w_wopt o = false -> sd_plain sd = true ->
  (forall id, In id bm -> In id (map f_id sd)) -> handle_requires o sd bm = WOk [] [].
Proof.
  intros o sd bm H1 H2 H3 Hp. induction bm as [|id bm IH]; intros Hin; [reflexivity|].
  cbn [handle_requires].
  destruct (find_id sd id) as [f|] eqn:E.
  - unfold find_id in E. apply find_some in E. destruct E as [Hf _].
    unfold sd_plain in Hp. rewrite forallb_forall in Hp. specialize (Hp f Hf).
    rewrite H1, H2, H3. cbn [negb]. rewrite !andb_true_r.
    apply orb_true_iff in Hp. destruct Hp as [Hp|Hp]; apply Z.eqb_eq in Hp; rewrite Hp; cbn [Z.eqb orb andb];
      apply IH; intros i Hi; apply Hin; right; exact Hi.
  - exfalso. specialize (Hin id (or_introl eq_refl)). apply in_map_iff in Hin. destruct Hin as (f & Hid & Hf).
    unfold find_id in E. pose proof (find_none _ _ E f Hf) as Hn. cbn beta in Hn. rewrite Hid, Z.eqb_refl in Hn. discriminate.
Qed.

(* ------------------------------------------------------------------ one level of the walk, per token *)

Section Main.
  Variable D : defs.
  Variable o : wopts.
  Hypothesis Ho : walk_ok_opts o = true.
  Hypothesis HD : defs_plain D = true.

  Lemma Ho_vm : w_vm o = false.
  Proof. unfold walk_ok_opts in Ho. destruct (w_vm o); [discriminate|reflexivity]. Qed.
  Lemma Ho_wreq : w_wreq o = false.
  Proof. unfold walk_ok_opts in Ho. destruct (w_vm o), (w_wreq o); try discriminate; reflexivity. Qed.
  Lemma Ho_wdef : w_wdef o = false.
  Proof. unfold walk_ok_opts in Ho. destruct (w_vm o), (w_wreq o), (w_wdef o); try discriminate; reflexivity. Qed.
  Lemma Ho_wopt : w_wopt o = false.
  Proof. unfold walk_ok_opts in Ho. destruct (w_vm o), (w_wreq o), (w_wdef o), (w_wopt o); try discriminate; reflexivity. Qed.

  Lemma walk_null : forall f t r, walk D o (S f) t (lit_null ++ r) = WNull r.
  Proof. reflexivity. Qed.

  Ltac walk_tok H := match type of H with decode_value ?bs = _ => destruct bs; [cbn in H; discriminate H|]; cbn [walk]; rewrite H end.

  Lemma walk_tok_true : forall f bs r, decode_value bs = Some (TkTrue, r) -> walk D o (S f) TBool bs = WOk [1] r.
  Proof. intros f bs r H. walk_tok H. reflexivity. Qed.
  Lemma walk_tok_false : forall f bs r, decode_value bs = Some (TkFalse, r) -> walk D o (S f) TBool bs = WOk [0] r.
  Proof. intros f bs r H. walk_tok H. reflexivity. Qed.
  Lemma walk_tok_int : forall f t bs z r, decode_value bs = Some (TkInt z, r) -> is_int_ty t = true ->
    walk D o (S f) t bs = WOk (write_int t z) r.
  Proof. intros f t bs z r H Ht. walk_tok H. rewrite Ht. reflexivity. Qed.
  Lemma walk_tok_int_dbl : forall f bs z r, decode_value bs = Some (TkInt z, r) ->
    walk D o (S f) TDouble bs = WOk (enc_int 8 (i64_to_f64 z)) r.
  Proof. intros f bs z r H. walk_tok H. reflexivity. Qed.
  Lemma walk_tok_dbl : forall f bs b r, decode_value bs = Some (TkDbl b, r) ->
    walk D o (S f) TDouble bs = WOk (enc_int 8 b) r.
  Proof. intros f bs b r H. walk_tok H. reflexivity. Qed.

  Lemma walk_str_string : forall f bs lit esc r str, decode_value bs = Some (TkStr lit esc, r) -> tok_string lit esc = Some str ->
    walk D o (S f) TString bs = WOk (str_bytes str) r.
  Proof. intros f bs lit esc r str H H0. walk_tok H. rewrite H0. reflexivity. Qed.
  Lemma walk_str_binary_raw : forall f bs lit esc r str, decode_value bs = Some (TkStr lit esc, r) -> tok_string lit esc = Some str ->
    w_nob64 o = true -> walk D o (S f) TBinary bs = WOk (str_bytes str) r.
  Proof. intros f bs lit esc r str H H0 Hn. walk_tok H. rewrite H0, Hn. reflexivity. Qed.
  Lemma walk_str_binary_b64 : forall f bs lit esc r str b, decode_value bs = Some (TkStr lit esc, r) -> tok_string lit esc = Some str ->
    w_nob64 o = false -> go_b64 str = Some b -> walk D o (S f) TBinary bs = WOk (str_bytes b) r.
  Proof. intros f bs lit esc r str b H H0 Hn Hb. walk_tok H. rewrite H0, Hn. cbn [negb andb]. rewrite Hb. reflexivity. Qed.
  Lemma walk_str_int : forall f t bs lit esc r str z, decode_value bs = Some (TkStr lit esc, r) -> tok_string lit esc = Some str ->
    is_int_ty t = true -> w_s2i o = true -> str <> [] -> go_parse_int str = Some z ->
    walk D o (S f) t bs = WOk (write_int t z) r.
  Proof.
    intros f t bs lit esc r str z H H0 Ht Hs Hne Hz. walk_tok H. rewrite H0, Hs, Ht.
    destruct str as [|c q]; [contradiction|]. rewrite Hz.
    destruct t; try discriminate Ht; reflexivity.
  Qed.
  Lemma walk_str_dbl : forall f bs lit esc r str bits, decode_value bs = Some (TkStr lit esc, r) -> tok_string lit esc = Some str ->
    w_s2i o = true -> str <> [] -> go_parse_float str = PFOk bits ->
    walk D o (S f) TDouble bs = WOk (enc_int 8 bits) r.
  Proof.
    intros f bs lit esc r str bits H H0 Hs Hne Hz. walk_tok H. rewrite H0, Hs.
    destruct str as [|c q]; [contradiction|]. cbn [andb is_string_ty is_int_ty]. rewrite Hz. reflexivity.
  Qed.

  Definition arr_entry (f : nat) (e : ty) (r : list Z) : wres :=
    match peek r with
    | Some (PEndArr, _ :: r') => WOk (tcode e :: enc_int 4 0) r'
    | _ => arr_loop (walk D o f) f e r 0 []
    end.
  Definition map_entry_w (f : nat) (k v : ty) (r : list Z) : wres :=
    match peek r with
    | Some (PEndObj, _ :: r') => WOk (tcode k :: tcode v :: enc_int 4 0) r'
    | _ => map_loop (walk D o f) f k v r 0 []
    end.
  Definition struct_entry (f : nat) (sd : sdef) (r : list Z) : wres :=
    match peek r with
    | Some (PEndObj, _ :: r') =>
      match handle_requires o sd (bm_init sd) with
      | WOk t' _ => WOk (t' ++ [0]) r'
      | e => e
      end
    | _ => struct_loop o (walk D o f) f sd r (bm_init sd) []
    end.

  Lemma walk_tok_list : forall f e bs r, decode_value bs = Some (TkArr, r) -> walk D o (S f) (TList e) bs = arr_entry f e r.
  Proof. intros f e bs r H. walk_tok H. reflexivity. Qed.
  Lemma walk_tok_set : forall f e bs r, decode_value bs = Some (TkArr, r) -> walk D o (S f) (TSet e) bs = arr_entry f e r.
  Proof. intros f e bs r H. walk_tok H. reflexivity. Qed.
  Lemma walk_tok_map : forall f k v bs r, decode_value bs = Some (TkObj, r) -> walk D o (S f) (TMap k v) bs = map_entry_w f k v r.
  Proof. intros f k v bs r H. walk_tok H. reflexivity. Qed.
  Lemma walk_tok_struct : forall f i sd bs r, decode_value bs = Some (TkObj, r) -> nth_error D i = Some sd ->
    walk D o (S f) (TStruct i) bs = struct_entry f sd r.
  Proof. intros f i sd bs r H Hsd. walk_tok H. rewrite Hsd. reflexivity. Qed.

  Lemma peek_starts_cases : forall bs X, starts_value bs ->
    peek (bs ++ X) = None \/ exists tk p, peek (bs ++ X) = Some (tk, p) /\ tk <> PEndArr /\ tk <> PEndObj.
  Proof.
    intros bs X (c & t & -> & Hw & H93 & H125). cbn [app]. unfold peek, skip_blank. cbn [skip_ws]. rewrite Hw, H93, H125.
    repeat match goal with |- context [if ?b then _ else _] => destruct b end;
      try (left; reflexivity); right; do 2 eexists; (split; [reflexivity|]); split; discriminate.
  Qed.

  Lemma arr_entry_nonempty : forall f e bs X, starts_value bs -> arr_entry f e (bs ++ X) = arr_loop (walk D o f) f e (bs ++ X) 0 [].
  Proof.
    intros f e bs X H. unfold arr_entry. destruct (peek_starts_cases bs X H) as [Hp|(tk & p & Hp & N1 & N2)]; rewrite Hp; [reflexivity|].
    destruct tk; try reflexivity. contradiction.
  Qed.
  Lemma arr_entry_empty : forall f e r, arr_entry f e (93 :: r) = WOk (tcode e :: enc_int 4 0) r.
  Proof. reflexivity. Qed.
  Lemma map_entry_nonempty : forall f k v t, map_entry_w f k v (34 :: t) = map_loop (walk D o f) f k v (34 :: t) 0 [].
  Proof. reflexivity. Qed.
  Lemma map_entry_empty : forall f k v r, map_entry_w f k v (125 :: r) = WOk (tcode k :: tcode v :: enc_int 4 0) r.
  Proof. reflexivity. Qed.
  Lemma struct_entry_nonempty : forall f sd t, struct_entry f sd (34 :: t) = struct_loop o (walk D o f) f sd (34 :: t) (bm_init sd) [].
  Proof. reflexivity. Qed.
  Lemma struct_entry_empty : forall f sd r, struct_entry f sd (125 :: r) =
    match handle_requires o sd (bm_init sd) with WOk t' _ => WOk (t' ++ [0]) r | e => e end.
  Proof. reflexivity. Qed.

  (* map keys *)
  Lemma walk_key_ok : forall k key kb, strnum_dom k key = true -> key_bytes strict k key = Ok kb -> walk_key k key = WOk kb [].
  Proof.
    intros k key kb Hd Hk.
    destruct (is_int_ty k) eqn:Hi.
    - unfold strnum_dom in Hd. rewrite Hi in Hd.
      assert (Hs : num_strict k key = Ok kb).
      { destruct k; try discriminate Hi; cbn [key_bytes strict p_key_prefix p_num] in Hk;
          (destruct (num_okb key); [exact Hk|discriminate]). }
      destruct (num_strict_plain_inv k key kb Hi Hd Hs) as (n & w & z & Hw & Hz & Hin & ->).
      pose proof (go_parse_int_plain key z Hd Hz (in_sb_i64 w z (int_width_k k n w Hw) Hin)) as Hg.
      unfold walk_key. rewrite Hi, Hg, (write_int_width k n w z Hw).
      destruct k; try discriminate Hi; reflexivity.
    - destruct k; try discriminate Hi; cbn [key_bytes strict p_key_prefix p_num] in Hk; try discriminate Hk.
      + unfold strnum_dom in Hd. cbn [is_int_ty] in Hd.
        destruct (num_okb key) eqn:Hn; [|discriminate].
        destruct (dbl_str_parse key kb Hd Hn Hk) as (bits & Hp & ->).
        unfold walk_key. cbn [is_string_ty is_int_ty]. rewrite Hp. reflexivity.
      + injection Hk as <-. reflexivity.
      + injection Hk as <-. reflexivity.
  Qed.

  (* ---------------------------------------------------------------- the statement for one value *)
  Definition WS (j : json) : Prop :=
    json_wf j = true -> json_utf8 j = true ->
    forall fuel t s r b, wdom D t j = true -> j2t_val strict D (jopts_of o) t s j = Ok b -> stop r = true ->
    (length (json_print j ++ r) < fuel)%nat -> walk D o fuel t (json_print j ++ r) = WOk b r.

  Definition elem_fun (e : ty) (s : Z) (x : json) : res :=
    if is_null x then Ok [] else j2t_val strict D (jopts_of o) e (s + 1) x.

  Lemma elem_step : forall fw e s x rest bx, WS x -> json_wf x = true -> json_utf8 x = true -> wdom D e x = true ->
    elem_fun e s x = Ok bx -> stop rest = true -> (length (json_print x ++ rest) < fw)%nat ->
    (x = JNull /\ bx = [] /\ walk D o fw e (json_print x ++ rest) = WNull rest) \/
    (is_null x = false /\ walk D o fw e (json_print x ++ rest) = WOk bx rest).
  Proof.
    intros fw e s x rest bx HW Wx Ux Dx He Hr Hl. unfold elem_fun in He. destruct (is_null x) eqn:N.
    - left. apply is_null_eq in N. subst x. injection He as <-. split; [reflexivity|]. split; [reflexivity|].
      destruct fw as [|f]; [lia|]. apply walk_null.
    - right. split; [reflexivity|]. apply (HW Wx Ux fw e (s + 1) rest bx Dx He Hr Hl).
  Qed.

  (* ---------------------------------------------------------------- arrays *)
  Lemma arr_loop_ok : forall fw e s l x fuel r size acc body,
    Forall WS (x :: l) -> forallb json_wf (x :: l) = true -> forallb json_utf8 (x :: l) = true ->
    forallb (wdom D e) (x :: l) = true ->
    rconcat (elem_fun e s) (x :: l) = Ok body -> stop r = true ->
    (length (json_print x ++ print_tail json_print 93 l ++ r) < fuel)%nat ->
    (length (json_print x ++ print_tail json_print 93 l ++ r) < fw)%nat ->
    arr_loop (walk D o fw) fuel e (json_print x ++ print_tail json_print 93 l ++ r) size acc =
    WOk (tcode e :: enc_int 4 (size + count_nonnull (x :: l)) ++ concat (rev acc) ++ body) r.
  Proof.
    intros fw e s. induction l as [|y l IH]; intros x fuel r size acc body HW Hwf Hu Hdom Hb Hr Hf Hfw;
      (destruct fuel as [|f]; [lia|]);
      inversion HW as [|? ? HWx HWl]; subst;
      cbn [forallb] in Hwf, Hu, Hdom;
      apply andb_true_iff in Hwf; destruct Hwf as [Wx Wl];
      apply andb_true_iff in Hu; destruct Hu as [Ux Ul];
      apply andb_true_iff in Hdom; destruct Hdom as [Dx Dl];
      destruct (rconcat_cons_ok _ _ _ _ Hb) as (bx & bl & Ex & El & ->);
      cbn [arr_loop].
    - cbn [rconcat] in El. injection El as <-.
      destruct (elem_step fw e s x (print_tail json_print 93 [] ++ r) bx HWx Wx Ux Dx Ex eq_refl Hfw) as [(-> & -> & Hw)|(N & Hw)];
        rewrite Hw; cbn [print_tail app]; rewrite peek_endarr.
      + change (count_nonnull [JNull]) with 0. rewrite Z.add_0_r, app_nil_r. reflexivity.
      + rewrite count_nonnull_cons, N. change (count_nonnull []) with 0. rewrite Z.add_0_r.
        cbn [rev]. rewrite concat_app. cbn [concat]. rewrite !app_nil_r. reflexivity.
    - assert (Hst : stop (print_tail json_print 93 (y :: l) ++ r) = true) by reflexivity.
      assert (Hl2 : (length (json_print y ++ print_tail json_print 93 l ++ r) < f)%nat) by (lens; lia).
      assert (Hl3 : (length (json_print y ++ print_tail json_print 93 l ++ r) < fw)%nat) by (lens; lia).
      destruct (elem_step fw e s x (print_tail json_print 93 (y :: l) ++ r) bx HWx Wx Ux Dx Ex Hst Hfw) as [(-> & -> & Hw)|(N & Hw)];
        rewrite Hw; cbn [print_tail app]; rewrite peek_comma; rewrite <- app_assoc.
      + rewrite (IH y f r size acc bl HWl Wl Ul Dl El Hr Hl2 Hl3).
        rewrite (count_nonnull_cons JNull). cbn [is_null]. rewrite Z.add_0_l. reflexivity.
      + rewrite (IH y f r (size + 1) (bx :: acc) bl HWl Wl Ul Dl El Hr Hl2 Hl3).
        rewrite (count_nonnull_cons x), N. rewrite Z.add_assoc.
        cbn [rev]. rewrite concat_app. cbn [concat]. rewrite app_nil_r, <- !app_assoc. reflexivity.
  Qed.

  (* ---------------------------------------------------------------- maps *)
  Definition mwf (m : list Z * json) : bool := jbytes_okb (fst m) && json_wf (snd m).
  Definition mu8 (m : list Z * json) : bool := utf8_valid (fst m) && json_utf8 (snd m).

  Lemma map_loop_ok : forall fw kt v s l m fuel r size acc body,
    Forall (fun m => WS (snd m)) (m :: l) -> forallb mwf (m :: l) = true -> forallb mu8 (m :: l) = true ->
    forallb (fun m => strnum_dom kt (fst m) && wdom D v (snd m)) (m :: l) = true ->
    rconcat (map_entry strict D (jopts_of o) kt v s) (m :: l) = Ok body -> stop r = true ->
    (length (print_member json_print m ++ print_mtail json_print l ++ r) < fuel)%nat ->
    (length (print_member json_print m ++ print_mtail json_print l ++ r) < fw)%nat ->
    map_loop (walk D o fw) fuel kt v (print_member json_print m ++ print_mtail json_print l ++ r) size acc =
    WOk (tcode kt :: tcode v :: enc_int 4 (size + count_nonnull (map snd (m :: l))) ++ concat (rev acc) ++ body) r.
  Proof.
    intros fw kt v s. induction l as [|y l IH]; intros [k x] fuel r size acc body HW Hwf Hu Hdom Hb Hr Hf Hfw;
      (destruct fuel as [|f]; [lia|]);
      inversion HW as [|? ? HWx HWl]; subst;
      cbn [forallb] in Hwf, Hu, Hdom;
      apply andb_true_iff in Hwf; destruct Hwf as [Wm Wl];
      apply andb_true_iff in Hu; destruct Hu as [Um Ul];
      apply andb_true_iff in Hdom; destruct Hdom as [Dm Dl];
      unfold mwf in Wm; unfold mu8 in Um; cbn [fst snd] in Wm, Um, Dm, HWx;
      apply andb_true_iff in Wm; destruct Wm as [Wk Wx];
      apply andb_true_iff in Um; destruct Um as [Uk Ux];
      apply andb_true_iff in Dm; destruct Dm as [Dk Dx];
      destruct (rconcat_cons_ok _ _ _ _ Hb) as (bm & bl & Em & El & ->);
      unfold map_entry in Em; cbn [fst snd] in Em;
      (destruct (key_bytes strict kt k) as [kb|] eqn:Ek; [|discriminate Em]); cbn [rbind] in Em;
      pose proof (walk_key_ok kt k kb Dk Ek) as Hkey;
      cbn [map_loop]; rewrite print_member_app in Hf, Hfw |- *;
      rewrite (decode_value_quote k _ Wk), (tok_string_quote k Wk Uk), Hkey, peek_colon;
      pose proof (quote_ref_length k) as Hql.
    - cbn [rconcat] in El. injection El as <-.
      assert (Ex : elem_fun v s x = Ok (if is_null x then [] else skipn (length kb) bm)).
      { unfold elem_fun. destruct (is_null x); [reflexivity|].
        destruct (j2t_val strict D (jopts_of o) v (s + 1) x) as [vb|]; [|discriminate Em]. cbn [rbind] in Em. injection Em as <-.
        rewrite skipn_app, skipn_all, Nat.sub_diag. reflexivity. }
      assert (Hl1 : (length (json_print x ++ print_mtail json_print [] ++ r) < fw)%nat) by (lens2; lia).
      destruct (elem_step fw v s x (print_mtail json_print [] ++ r) _ HWx Wx Ux Dx Ex eq_refl Hl1) as [(-> & _ & Hw)|(N & Hw)];
        rewrite Hw; cbn [print_mtail app]; rewrite peek_endobj.
      + cbn [is_null] in Em. injection Em as <-. cbn [map snd]. change (count_nonnull [JNull]) with 0.
        rewrite Z.add_0_r, app_nil_r. reflexivity.
      + rewrite N in Em. destruct (j2t_val strict D (jopts_of o) v (s + 1) x) as [vb|]; [|discriminate Em]. cbn [rbind] in Em. injection Em as <-.
        rewrite N. rewrite skipn_app, skipn_all, Nat.sub_diag. cbn [skipn app].
        cbn [map snd]. rewrite count_nonnull_cons, N. change (count_nonnull []) with 0. rewrite Z.add_0_r.
        cbn [rev]. rewrite concat_app. cbn [concat]. rewrite !app_nil_r. reflexivity.
    - assert (Ex : elem_fun v s x = Ok (if is_null x then [] else skipn (length kb) bm)).
      { unfold elem_fun. destruct (is_null x); [reflexivity|].
        destruct (j2t_val strict D (jopts_of o) v (s + 1) x) as [vb|]; [|discriminate Em]. cbn [rbind] in Em. injection Em as <-.
        rewrite skipn_app, skipn_all, Nat.sub_diag. reflexivity. }
      assert (Hst : stop (print_mtail json_print (y :: l) ++ r) = true) by reflexivity.
      assert (Hl1 : (length (json_print x ++ print_mtail json_print (y :: l) ++ r) < fw)%nat) by (lens2; lia).
      assert (Hl2 : (length (print_member json_print y ++ print_mtail json_print l ++ r) < f)%nat).
      { lens2; lia. }
      assert (Hl3 : (length (print_member json_print y ++ print_mtail json_print l ++ r) < fw)%nat).
      { lens2; lia. }
      destruct (elem_step fw v s x (print_mtail json_print (y :: l) ++ r) _ HWx Wx Ux Dx Ex Hst Hl1) as [(-> & _ & Hw)|(N & Hw)];
        rewrite Hw; cbn [print_mtail app]; rewrite peek_comma; rewrite <- app_assoc.
      + cbn [is_null] in Em. injection Em as <-.
        rewrite (IH y f r size acc bl HWl Wl Ul Dl El Hr Hl2 Hl3).
        cbn [map snd]. rewrite (count_nonnull_cons JNull). cbn [is_null]. rewrite Z.add_0_l. reflexivity.
      + rewrite N in Em. destruct (j2t_val strict D (jopts_of o) v (s + 1) x) as [vb|]; [|discriminate Em]. cbn [rbind] in Em. injection Em as <-.
        rewrite N. rewrite skipn_app, skipn_all, Nat.sub_diag. cbn [skipn app].
        rewrite (IH y f r (size + 1) ((kb ++ vb) :: acc) bl HWl Wl Ul Dl El Hr Hl2 Hl3).
        cbn [map snd]. rewrite (count_nonnull_cons x), N. rewrite Z.add_assoc.
        cbn [rev]. rewrite concat_app. cbn [concat]. rewrite app_nil_r, <- !app_assoc. reflexivity.
  Qed.

  (* ---------------------------------------------------------------- structs *)
  Definition sdom (sd : sdef) (m : list Z * json) : bool :=
    match find_field sd (fst m) with Some f => wdom D (f_ty f) (snd m) | None => unk_dom (snd m) end.

  Definition struct_next (fw f : nat) (sd : sdef) (bm' : list Z) (acc' : list (list Z)) (r2 : list Z) : wres :=
    match peek r2 with
    | Some (PComma, _ :: r') => struct_loop o (walk D o fw) f sd r' bm' acc'
    | Some (PEndObj, _ :: r') =>
      match handle_requires o sd bm' with
      | WOk t _ => WOk (concat (rev acc') ++ t ++ [0]) r'
      | e => e
      end
    | _ => WErr W_OTHER
    end.

  Lemma struct_member_step : forall fw f sd s k x rest bm acc bmem,
    WS x -> jbytes_okb k = true -> json_wf x = true -> utf8_valid k = true -> json_utf8 x = true ->
    sdom sd (k, x) = true -> struct_member strict D (jopts_of o) sd s (k, x) = Ok bmem -> stop rest = true ->
    (forall id, In id bm -> In id (map f_id sd)) ->
    (length (print_member json_print (k, x) ++ rest) < fw)%nat ->
    exists bm' acc', (forall id, In id bm' -> In id (map f_id sd)) /\ concat (rev acc') = concat (rev acc) ++ bmem /\
      struct_loop o (walk D o fw) (S f) sd (print_member json_print (k, x) ++ rest) bm acc = struct_next fw f sd bm' acc' rest.
  Proof.
    intros fw f sd s k x rest bm acc bmem HWx Wk Wx Uk Ux Dm Em Hst Hbm Hfw.
    cbn [struct_loop]. rewrite print_member_app in Hfw |- *.
    rewrite (decode_value_quote k _ Wk), (tok_string_quote k Wk Uk), peek_colon.
    pose proof (quote_ref_length k) as Hql.
    assert (Hl1 : (length (json_print x ++ rest) < fw)%nat) by (lens2; lia).
    unfold struct_member in Em. unfold sdom in Dm. cbn [fst snd] in Em, Dm.
    destruct (find_field sd k) as [ft|] eqn:Ff.
    - cbn [jopts_of o_vm] in Em. rewrite Ho_vm in Em |- *. cbn [andb] in Em |- *.
      destruct (is_null x) eqn:N.
      + apply is_null_eq in N. subst x. injection Em as <-.
        destruct fw as [|fw']; [lia|]. cbn [json_print]. rewrite walk_null.
        exists (if f_req ft =? 2 then bm_clear (f_id ft) bm else bm), acc.
        split; [|split; [rewrite app_nil_r; reflexivity|reflexivity]].
        intros id Hid. destruct (f_req ft =? 2); [apply Hbm; apply (bm_clear_incl _ _ _ Hid)|apply Hbm; exact Hid].
      + destruct (j2t_val strict D (jopts_of o) (f_ty ft) (s + 1) x) as [vb|] eqn:Ev; [|discriminate Em].
        cbn [rbind] in Em. injection Em as <-.
        rewrite (HWx Wx Ux fw (f_ty ft) (s + 1) rest vb Dm Ev Hst Hl1).
        exists (bm_clear (f_id ft) bm), ((field_header ft ++ vb) :: acc).
        split; [|split; [|reflexivity]].
        * intros id Hid. apply Hbm. apply (bm_clear_incl _ _ _ Hid).
        * cbn [rev]. rewrite concat_app. cbn [concat]. rewrite app_nil_r. reflexivity.
    - cbn [jopts_of o_disallow_unknown] in Em. destruct (w_du o); [discriminate Em|]. injection Em as <-.
      rewrite (skip_unknown x rest Dm Wx Hst).
      exists bm, acc. split; [exact Hbm|]. split; [rewrite app_nil_r; reflexivity|reflexivity].
  Qed.

  Lemma struct_next_ok : forall fw sd s, sd_plain sd = true -> forall l fuel r bm acc body,
    Forall (fun m => WS (snd m)) l -> forallb mwf l = true -> forallb mu8 l = true -> forallb (sdom sd) l = true ->
    rconcat (struct_member strict D (jopts_of o) sd s) l = Ok body -> stop r = true ->
    (forall id, In id bm -> In id (map f_id sd)) ->
    (length (print_mtail json_print l ++ r) <= fuel)%nat -> (length (print_mtail json_print l ++ r) < fw)%nat ->
    struct_next fw fuel sd bm acc (print_mtail json_print l ++ r) = WOk (concat (rev acc) ++ body ++ [0]) r.
  Proof.
    intros fw sd s Hp. induction l as [|[k x] l IH]; intros fuel r bm acc body HW Hwf Hu Hdom Hb Hr Hbm Hf Hfw.
    - cbn [rconcat] in Hb. injection Hb as <-. cbn [print_mtail app]. unfold struct_next. rewrite peek_endobj.
      rewrite (handle_requires_plain o sd bm Ho_wreq Ho_wdef Ho_wopt Hp Hbm). reflexivity.
    - inversion HW as [|? ? HWx HWl]; subst. cbn [forallb] in Hwf, Hu, Hdom.
      apply andb_true_iff in Hwf. destruct Hwf as [Wm Wl].
      apply andb_true_iff in Hu. destruct Hu as [Um Ul].
      apply andb_true_iff in Hdom. destruct Hdom as [Dm Dl].
      unfold mwf in Wm. unfold mu8 in Um. cbn [fst snd] in Wm, Um, HWx.
      apply andb_true_iff in Wm. destruct Wm as [Wk Wx].
      apply andb_true_iff in Um. destruct Um as [Uk Ux].
      destruct (rconcat_cons_ok _ _ _ _ Hb) as (bmem & bl & Em & El & ->).
      cbn [print_mtail app] in Hf, Hfw |- *. rewrite <- app_assoc in Hf, Hfw |- *.
      unfold struct_next at 1. rewrite peek_comma.
      destruct fuel as [|f]; [cbn [length] in Hf; lia|].
      assert (Hst : stop (print_mtail json_print l ++ r) = true) by apply stop_mtail.
      assert (Hfw1 : (length (print_member json_print (k, x) ++ print_mtail json_print l ++ r) < fw)%nat) by (cbn [length] in Hfw; lia).
      destruct (struct_member_step fw f sd s k x (print_mtail json_print l ++ r) bm acc bmem HWx Wk Wx Uk Ux Dm Em Hst Hbm Hfw1)
        as (bm' & acc' & Hbm' & Hacc & ->).
      pose proof (quote_ref_length k) as Hql.
      rewrite (IH f r bm' acc' bl HWl Wl Ul Dl El Hr Hbm').
      + rewrite Hacc, <- !app_assoc. reflexivity.
      + rewrite print_member_app in Hf. lens2. lia.
      + rewrite print_member_app in Hfw. lens2. lia.
  Qed.

  Lemma struct_entry_member : forall f sd m X,
    struct_entry f sd (print_member json_print m ++ X) = struct_loop o (walk D o f) f sd (print_member json_print m ++ X) (bm_init sd) [].
  Proof. intros f sd [k x] X. reflexivity. Qed.
  Lemma map_entry_member : forall f k v m X,
    map_entry_w f k v (print_member json_print m ++ X) = map_loop (walk D o f) f k v (print_member json_print m ++ X) 0 [].
  Proof. intros f k v [kk x] X. reflexivity. Qed.

  Lemma sd_plain_nth : forall i sd, nth_error D i = Some sd -> sd_plain sd = true.
  Proof.
    intros i sd H. apply nth_error_In in H. unfold defs_plain in HD. rewrite forallb_forall in HD. apply HD. exact H.
  Qed.

  (* ---------------------------------------------------------------- main induction *)
  Theorem walk_value_ok : forall j, WS j.
  Proof.
    induction j as [| b | l | x | xs IHxs | ms IHms] using json_ind'; intros Hw Hu fuel t s r bb Hdom Hspec Hr Hf.
    - cbn in Hspec. discriminate.
    - destruct t; cbn [j2t_val] in Hspec; try discriminate. apply Ok_inj in Hspec; subst bb. destruct fuel as [|f]; [cbn in Hf; lia|].
      destruct b; cbn [json_print].
      + apply walk_tok_true. apply dv_true.
      + apply walk_tok_false. apply dv_false.
    - (* number *)
      cbn [json_print json_wf wdom j2t_val strict p_num] in *. destruct fuel as [|f]; [lia|].
      destruct (is_num_ty t) eqn:Hn; [|discriminate].
      destruct (is_int_ty t) eqn:Hi.
      + unfold num_dom in Hdom. rewrite Hi in Hdom.
        destruct (num_strict_plain_inv t l bb Hi Hdom Hspec) as (n & w & z & Hwd & Hz & Hin & ->).
        pose proof (decode_value_plain l r z Hdom Hr Hz (in_sb_i64 w z (int_width_k t n w Hwd) Hin)) as Hdv.
        rewrite (walk_tok_int f t _ z r Hdv Hi), (write_int_width t n w z Hwd). reflexivity.
      + destruct t; try discriminate Hn; try discriminate Hi. unfold num_dom in Hdom. cbn [is_int_ty] in Hdom.
        destruct (dbl_num_walk l r bb Hdom Hw Hr Hspec) as (tk & Hdv & [(bits & -> & ->)|(z & -> & ->)]).
        * apply (walk_tok_dbl f _ bits r Hdv).
        * apply (walk_tok_int_dbl f _ z r Hdv).
    - (* string *)
      cbn [json_print json_wf json_utf8 wdom] in *. destruct fuel as [|f]; [lia|].
      pose proof (decode_value_quote x r Hw) as Hdv. pose proof (tok_string_quote x Hw Hu) as Hts.
      destruct (is_int_ty t) eqn:Hi.
      + assert (Hs : w_s2i o = true /\ num_okb x = true /\ num_strict t x = Ok bb).
        { destruct t; try discriminate Hi; cbn [j2t_val is_num_ty andb jopts_of o_str2int strict p_num] in Hspec;
            (destruct (w_s2i o); [|discriminate]); (destruct (num_okb x); [|discriminate]); auto. }
        destruct Hs as (Hs & Hn & Hst). unfold strnum_dom in Hdom. rewrite Hi in Hdom.
        destruct (num_strict_plain_inv t x bb Hi Hdom Hst) as (n & w & z & Hwd & Hz & Hin & ->).
        pose proof (go_parse_int_plain x z Hdom Hz (in_sb_i64 w z (int_width_k t n w Hwd) Hin)) as Hg.
        assert (Hne : x <> []) by (destruct (num_ok_head x Hn) as (c & q & -> & _); discriminate).
        rewrite (walk_str_int f t _ _ _ r x z Hdv Hts Hi Hs Hne Hg), (write_int_width t n w z Hwd). reflexivity.
      + destruct t; try discriminate Hi; cbn [j2t_val is_num_ty andb jopts_of o_str2int o_nob64 strict p_num] in Hspec;
          try discriminate Hspec.
        * (* double *)
          destruct (w_s2i o) eqn:Hs; [|discriminate]. destruct (num_okb x) eqn:Hn; [|discriminate].
          unfold strnum_dom in Hdom. cbn [is_int_ty] in Hdom.
          destruct (dbl_str_parse x bb Hdom Hn Hspec) as (bits & Hp & ->).
          assert (Hne : x <> []) by (destruct (num_ok_head x Hn) as (c & q & -> & _); discriminate).
          apply (walk_str_dbl f _ _ _ r x bits Hdv Hts Hs Hne Hp).
        * apply Ok_inj in Hspec; subst bb. apply (walk_str_string f _ _ _ r x Hdv Hts).
        * destruct (w_nob64 o) eqn:Hb.
          -- apply Ok_inj in Hspec; subst bb. apply (walk_str_binary_raw f _ _ _ r x Hdv Hts Hb).
          -- destruct (b64_decode x) as [bin|] eqn:E64; [|discriminate]. apply Ok_inj in Hspec; subst bb.
             apply (walk_str_binary_b64 f _ _ _ r x bin Hdv Hts Hb (go_b64_decode x bin E64)).
    - (* array *)
      destruct t; cbn [j2t_val] in Hspec; try discriminate Hspec;
        (destruct fuel as [|f]; [lia|]); (destruct (nonempty xs && (max_level <=? s)); [discriminate|]);
        (destruct (rconcat (elem_fun t s) xs) as [body|] eqn:Eb; [|unfold elem_fun in Eb; rewrite Eb in Hspec; discriminate]);
        unfold elem_fun in Hspec; pose proof Eb as Eb'; unfold elem_fun in Eb'; rewrite Eb' in Hspec; clear Eb';
        cbn [rbind] in Hspec; apply Ok_inj in Hspec; subst bb;
        cbn [wdom json_wf json_utf8] in Hdom, Hw, Hu;
        (destruct xs as [|x l];
         [ cbn [json_print app]; first [rewrite (walk_tok_list f t _ _ (dv_arr _)) | rewrite (walk_tok_set f t _ _ (dv_arr _))];
           rewrite arr_entry_empty; cbn [rconcat] in Eb; injection Eb as <-; change (count_nonnull []) with 0;
           rewrite app_nil_r; reflexivity
         | cbn [json_print app] in Hf |- *; rewrite <- app_assoc in Hf |- *;
           first [rewrite (walk_tok_list f t _ _ (dv_arr _)) | rewrite (walk_tok_set f t _ _ (dv_arr _))];
           pose proof Hw as Hw'; cbn [forallb] in Hw'; apply andb_true_iff in Hw'; destruct Hw' as [Wx _];
           rewrite (arr_entry_nonempty f t _ _ (print_starts x Wx));
           cbn [length] in Hf;
           rewrite (arr_loop_ok f t s l x f r 0 [] body IHxs Hw Hu Hdom Eb Hr); [|lia|lia];
           cbn [rev concat app]; rewrite Z.add_0_l; reflexivity ]).
    - (* object *)
      destruct t; cbn [j2t_val] in Hspec; try discriminate Hspec; (destruct fuel as [|f]; [lia|]).
      + (* struct *)
        destruct (nth_error D i) as [sd|] eqn:Hsd; [|discriminate].
        destruct (nonempty ms && (max_level <=? s)); [discriminate|].
        destruct (rconcat (struct_member strict D (jopts_of o) sd s) ms) as [body|] eqn:Eb;
          [|unfold struct_member in Eb; rewrite Eb in Hspec; discriminate].
        pose proof Eb as Eb'; unfold struct_member in Eb'; rewrite Eb' in Hspec; clear Eb'.
        cbn [rbind] in Hspec. apply Ok_inj in Hspec; subst bb.
        pose proof (sd_plain_nth i sd Hsd) as Hp.
        cbn [wdom json_wf json_utf8] in Hdom, Hw, Hu. rewrite Hsd in Hdom.
        destruct ms as [|[k x] l].
        * cbn [json_print app]. rewrite (walk_tok_struct f i sd _ _ (dv_obj _) Hsd), struct_entry_empty.
          rewrite (handle_requires_plain o sd (bm_init sd) Ho_wreq Ho_wdef Ho_wopt Hp (bm_init_incl sd)).
          cbn [rconcat] in Eb. injection Eb as <-. reflexivity.
        * cbn [json_print app] in Hf |- *. rewrite <- app_assoc in Hf |- *. cbn [length] in Hf.
          rewrite (walk_tok_struct f i sd _ _ (dv_obj _) Hsd), struct_entry_member.
          inversion IHms as [|? ? HWx HWl]; subst. cbn [forallb] in Hw, Hu, Hdom.
          apply andb_true_iff in Hw. destruct Hw as [Wm Wl].
          apply andb_true_iff in Hu. destruct Hu as [Um Ul].
          apply andb_true_iff in Hdom. destruct Hdom as [Dm Dl].
          cbn [fst snd] in Wm, Um, HWx.
          apply andb_true_iff in Wm. destruct Wm as [Wk Wx].
          apply andb_true_iff in Um. destruct Um as [Uk Ux].
          destruct (rconcat_cons_ok _ _ _ _ Eb) as (bmem & bl & Em & El & ->).
          destruct f as [|f']; [lia|].
          assert (Hst : stop (print_mtail json_print l ++ r) = true) by apply stop_mtail.
          assert (Hfw1 : (length (print_member json_print (k, x) ++ print_mtail json_print l ++ r) < S f')%nat) by lia.
          destruct (struct_member_step (S f') f' sd s k x (print_mtail json_print l ++ r) (bm_init sd) [] bmem
                      HWx Wk Wx Uk Ux Dm Em Hst (bm_init_incl sd) Hfw1) as (bm' & acc' & Hbm' & Hacc & ->).
          pose proof (quote_ref_length k) as Hql.
          rewrite (struct_next_ok (S f') sd s Hp l f' r bm' acc' bl HWl Wl Ul Dl El Hr Hbm').
          -- rewrite Hacc. cbn [rev concat app]. rewrite <- !app_assoc. reflexivity.
          -- rewrite print_member_app in Hf. lens2. lia.
          -- rewrite print_member_app in Hf. lens2. lia.
      + (* map *)
        destruct (nonempty ms && (max_level <=? s)); [discriminate|].
        destruct (rconcat (map_entry strict D (jopts_of o) t1 t2 s) ms) as [body|] eqn:Eb;
          [|unfold map_entry in Eb; rewrite Eb in Hspec; discriminate].
        pose proof Eb as Eb'; unfold map_entry in Eb'; rewrite Eb' in Hspec; clear Eb'.
        cbn [rbind] in Hspec. apply Ok_inj in Hspec; subst bb.
        cbn [wdom json_wf json_utf8] in Hdom, Hw, Hu.
        destruct ms as [|m l].
        * cbn [json_print app]. rewrite (walk_tok_map f t1 t2 _ _ (dv_obj _)), map_entry_empty.
          cbn [rconcat] in Eb. injection Eb as <-. cbn [map]. change (count_nonnull []) with 0. rewrite app_nil_r. reflexivity.
        * cbn [json_print app] in Hf |- *. rewrite <- app_assoc in Hf |- *. cbn [length] in Hf.
          rewrite (walk_tok_map f t1 t2 _ _ (dv_obj _)), map_entry_member.
          rewrite (map_loop_ok f t1 t2 s l m f r 0 [] body IHms Hw Hu Hdom Eb Hr); [|lia|lia].
          cbn [rev concat app]. rewrite Z.add_0_l. reflexivity.
  Qed.

  Theorem j2t_walk_refines_spec : forall j t s r b fuel,
    json_wf j = true -> json_utf8 j = true -> wdom D t j = true ->
    j2t_val strict D (jopts_of o) t s j = Ok b -> stop r = true ->
    (length (json_print j ++ r) < fuel)%nat ->
    walk D o fuel t (json_print j ++ r) = WOk b r.
  Proof. intros j t s r b fuel Hw Hu Hd Hs Hr Hf. exact (walk_value_ok j Hw Hu fuel t s r b Hd Hs Hr Hf). Qed.

  Corollary j2t_walk_top_refines_spec : forall j t s b,
    json_wf j = true -> json_utf8 j = true -> wdom D t j = true ->
    j2t_val strict D (jopts_of o) t s j = Ok b ->
    j2t_walk D o t (json_print j) = TOk b.
  Proof.
    intros j t s b Hw Hu Hd Hs. unfold j2t_walk.
    destruct (json_print j) as [|c q] eqn:E.
    { destruct (print_starts j Hw) as (c & q & E' & _). rewrite E in E'. discriminate. }
    assert (Hc : is_string_ty t && negb (c =? 34) = false).
    { destruct (is_string_ty t) eqn:Hst; [|reflexivity].
      destruct t; try discriminate Hst; destruct j; cbn [j2t_val is_num_ty andb] in Hs; try discriminate Hs;
        cbn [json_print] in E; unfold quote_ref in E; injection E as <- _; reflexivity. }
    rewrite Hc.
    pose proof (walk_value_ok j Hw Hu (S (length (c :: q))) t s [] b Hd Hs eq_refl) as H.
    rewrite app_nil_r, E in H. rewrite H; [reflexivity|]. lia.
  Qed.
End Main.

(* ------------------------------------------------------------------ kind mismatches on canonical text (no hypothesis on options / descriptors) *)
Section Mismatch.
  Variable D : defs.
  Variable o : wopts.

  Ltac walk_tok H := match type of H with decode_value ?bs = _ => destruct bs; [cbn in H; discriminate H|]; cbn [walk]; rewrite H end.

  (* true / false for a non-bool descriptor, '[' for a non-list/set descriptor, '{' for a non-map/struct descriptor: ERR_DISMATCH_TYPE *)
  Theorem walk_kind_mismatch : forall j t f r,
    kind_ok (jopts_of o) t j = false -> match j with JBool _ | JArr _ | JObj _ => True | _ => False end ->
    walk D o (S f) t (json_print j ++ r) = WErr W_DISMATCH.
  Proof.
    intros j t f r Hk Hj. destruct j as [| b | l | x | xs | ms]; try contradiction.
    - assert (H : exists tk, decode_value (json_print (JBool b) ++ r) = Some (tk, r) /\ (tk = TkTrue \/ tk = TkFalse)).
      { destruct b; eexists; (split; [first [apply dv_true | apply dv_false]|]); auto. }
      destruct H as (tk & H & Htk). walk_tok H.
      destruct Htk as [-> | ->]; destruct t; try reflexivity; discriminate Hk.
    - assert (H : decode_value (json_print (JArr xs) ++ r) = Some (TkArr, tl (json_print (JArr xs) ++ r))) by reflexivity.
      walk_tok H. destruct t; try reflexivity; discriminate Hk.
    - assert (H : decode_value (json_print (JObj ms) ++ r) = Some (TkObj, tl (json_print (JObj ms) ++ r))) by reflexivity.
      walk_tok H. destruct t; try reflexivity; discriminate Hk.
  Qed.

  (* an integer literal (int64 range) for a descriptor that is not numeric *)
  Theorem walk_int_mismatch : forall l z t f r,
    lex_is_plain_int l = true -> parse_int l = Some z -> in_i64 z = true -> stop r = true -> is_num_ty t = false ->
    walk D o (S f) t (l ++ r) = WErr W_DISMATCH.
  Proof.
    intros l z t f r Hp Hz Hin Hr Ht. pose proof (decode_value_plain l r z Hp Hr Hz Hin) as H.
    walk_tok H. destruct t; try reflexivity; discriminate Ht.
  Qed.

  (* any number lexeme for a descriptor that is not numeric *)
  Theorem walk_num_mismatch : forall l t f r,
    num_okb l = true -> stop r = true -> is_num_ty t = false -> walk D o (S f) t (l ++ r) = WErr W_DISMATCH.
  Proof.
    intros l t f r Hok Hr Ht. destruct (decode_value_numtok l r Hok Hr) as (tk & H & Htk).
    walk_tok H. destruct tk; try contradiction; destruct t; try reflexivity; discriminate Ht.
  Qed.

  (* DRIFT (as coded): the integer literal "-0" for a double descriptor is read as int64 0 and written as +0.0; the specification
     (lex2f64) keeps the sign: -0.0.  This is the one lexeme class excluded from [wdom] at double positions. *)
  Example walk_neg_zero_double :
    walk D o 3 TDouble [45; 48] = WOk (enc_int 8 0) [] /\
    j2t_val strict D (jopts_of o) TDouble 1 (JNum [45; 48]) = Ok (enc_int 8 (2 ^ 63)).
  Proof. split; vm_compute; reflexivity. Qed.

  (* a JSON string at a descriptor that does not take one (bool, containers, numbers without String2Int64) is a type mismatch
     (since /repo 11a56b9; before, it fell out of the switch: finding 212) *)
  Theorem walk_string_mismatch : forall x t f r,
    jbytes_okb x = true -> utf8_valid x = true -> kind_ok (jopts_of o) t (JStr x) = false ->
    walk D o (S f) t (quote_ref x ++ r) = WErr W_DISMATCH.
  Proof.
    intros x t f r Hw Hu Hk.
    pose proof (decode_value_quote x r Hw) as H. pose proof (tok_string_quote x Hw Hu) as Hts.
    walk_tok H. rewrite Hts.
    destruct t; cbn [kind_ok jopts_of o_str2int] in Hk; try discriminate Hk; cbn [andb is_string_ty is_int_ty]; rewrite ?Hk, ?andb_false_r; reflexivity.
  Qed.

  (* the former witness of finding 212, now a regression statement: the top-level conversion is an error on both sides *)
  Corollary j2t_walk_string_mismatch_rejected : forall x t,
    jbytes_okb x = true -> utf8_valid x = true -> kind_ok (jopts_of o) t (JStr x) = false ->
    j2t_walk D o t (json_print (JStr x)) = TErr W_DISMATCH /\ exists c, j2t_val strict D (jopts_of o) t 1 (JStr x) = Err c.
  Proof.
    intros x t Hw Hu Hk. split.
    - assert (Hs : is_string_ty t = false) by (destruct t; try reflexivity; discriminate Hk).
      cbn [json_print]. unfold j2t_walk, quote_ref at 1. rewrite Hs. cbn [andb].
      change (34 :: escape x ++ [34]) with (quote_ref x).
      pose proof (walk_string_mismatch x t (length (quote_ref x)) [] Hw Hu Hk) as H. rewrite app_nil_r in H. rewrite H. reflexivity.
    - apply j2t_rejects_kind_mismatch_lemma. exact Hk.
  Qed.

  (* the clean error side: EVERY kind contradiction at the value the walk stands on is an error of the walk (null excepted: it is
     reported to the enclosing container, which drops the member; at the top level it is an error as well) *)
  Theorem walk_rejects_kind_mismatch : forall j t f r,
    json_wf j = true -> json_utf8 j = true -> stop r = true ->
    kind_ok (jopts_of o) t j = false -> j <> JNull ->
    walk D o (S f) t (json_print j ++ r) = WErr W_DISMATCH.
  Proof.
    intros j t f r Hw Hu Hr Hk Hn.
    destruct j as [| b | l | x | xs | ms].
    - contradiction.
    - apply walk_kind_mismatch; [exact Hk | exact I].
    - cbn [json_print]. apply walk_num_mismatch; [exact Hw | exact Hr |].
      destruct t; cbn [kind_ok] in Hk; try discriminate Hk; reflexivity.
    - cbn [json_print]. apply walk_string_mismatch; [exact Hw | exact Hu | exact Hk].
    - apply walk_kind_mismatch; [exact Hk | exact I].
    - apply walk_kind_mismatch; [exact Hk | exact I].
  Qed.

  (* top level (BinaryConv.do + doGo), for a descriptor that is not string-typed (for STRING / binary a text that does not start with
     the quote is, as documented, not JSON but the string itself) *)
  Theorem j2t_walk_rejects_kind_mismatch : forall j t,
    json_wf j = true -> json_utf8 j = true -> is_string_ty t = false -> kind_ok (jopts_of o) t j = false ->
    exists c, j2t_walk D o t (json_print j) = TErr c.
  Proof.
    intros j t Hw Hu Hs Hk.
    destruct (print_starts j Hw) as (c & tl & E & _).
    unfold j2t_walk. rewrite E. rewrite Hs. cbn [andb]. rewrite <- E.
    destruct j as [| b | l | x | xs | ms].
    - exists W_OTHER. cbn. reflexivity.
    - exists W_DISMATCH. pose proof (walk_rejects_kind_mismatch (JBool b) t (length (json_print (JBool b))) [] Hw Hu eq_refl Hk) as H.
      rewrite app_nil_r in H. rewrite H; [reflexivity | discriminate].
    - exists W_DISMATCH. pose proof (walk_rejects_kind_mismatch (JNum l) t (length (json_print (JNum l))) [] Hw Hu eq_refl Hk) as H.
      rewrite app_nil_r in H. rewrite H; [reflexivity | discriminate].
    - exists W_DISMATCH. pose proof (walk_rejects_kind_mismatch (JStr x) t (length (json_print (JStr x))) [] Hw Hu eq_refl Hk) as H.
      rewrite app_nil_r in H. rewrite H; [reflexivity | discriminate].
    - exists W_DISMATCH. pose proof (walk_rejects_kind_mismatch (JArr xs) t (length (json_print (JArr xs))) [] Hw Hu eq_refl Hk) as H.
      rewrite app_nil_r in H. rewrite H; [reflexivity | discriminate].
    - exists W_DISMATCH. pose proof (walk_rejects_kind_mismatch (JObj ms) t (length (json_print (JObj ms))) [] Hw Hu eq_refl Hk) as H.
      rewrite app_nil_r in H. rewrite H; [reflexivity | discriminate].
  Qed.
End Mismatch.

(* ------------------------------------------------------------------ fuel adequacy: the walk never runs out of fuel
   (every loop iteration and every nesting level consumes at least one byte) — for ANY text, options and descriptors *)

Lemma skip_ws_len : forall bs, (length (skip_ws bs) <= length bs)%nat.
Proof. induction bs as [|c r IH]; cbn [skip_ws length]; [lia|]. destruct (is_ws c); cbn [length]; lia. Qed.

Lemma match_lit_len : forall lit bs r, match_lit lit bs = Some r -> (length r <= length bs)%nat.
Proof.
  induction lit as [|x lit IH]; intros bs r H; cbn [match_lit] in H.
  - inversion H; subst. lia.
  - destruct bs as [|c t]; [discriminate|]. destruct (c =? x); [|discriminate]. apply IH in H. cbn [length]. lia.
Qed.

Lemma scan_str_len : forall n bs l e t, (length bs <= n)%nat -> scan_str bs = Some (l, e, t) -> (length t <= length bs)%nat.
Proof.
  induction n as [|n IH]; intros bs l e t Hn H.
  - destruct bs; [|cbn in Hn; lia]. cbn in H. inversion H; subst. lia.
  - destruct bs as [|c r]; [cbn in H; inversion H; subst; lia|]. cbn [scan_str] in H. cbn [length] in Hn. destruct (c =? 92).
    + destruct r as [|x r2]; [discriminate|]. destruct (scan_str r2) as [[[l1 e1] t1]|] eqn:E; [|discriminate].
      inversion H; subst. apply IH in E; cbn [length] in *; lia.
    + destruct (c =? 34); [inversion H; subst; cbn [length]; lia|].
      destruct (scan_str r) as [[[l1 e1] t1]|] eqn:E; [|discriminate]. inversion H; subst. apply IH in E; cbn [length] in *; lia.
Qed.

Lemma skip_string_len : forall bs l e t, skip_string bs = Some (l, e, t) -> (length t < length bs)%nat.
Proof.
  intros bs l e t H. unfold skip_string in H. destruct bs as [|q [|a r]]; try discriminate.
  destruct (scan_str (a :: r)) as [[[l1 e1] t1]|] eqn:E; [|discriminate]. inversion H; subst.
  apply (scan_str_len _ _ _ _ _ (le_n _)) in E. cbn [length] in *. lia.
Qed.

Lemma span_digits_len : forall bs ds r, span_digits bs = (ds, r) -> (length r <= length bs)%nat.
Proof.
  induction bs as [|c t IH]; intros ds r H; cbn [span_digits] in H; [inversion H; subst; lia|].
  destruct (is_digit c); [|inversion H; subst; lia].
  destruct (span_digits t) as [ds1 r1] eqn:E. inversion H; subst. specialize (IH _ _ eq_refl). cbn [length]. lia.
Qed.

Lemma span_numchars_len : forall bs l r, span_numchars bs = (l, r) -> (length r <= length bs)%nat.
Proof.
  induction bs as [|c t IH]; intros ds r H; cbn [span_numchars] in H; [inversion H; subst; lia|].
  destruct (is_dec_float_char c); [|inversion H; subst; lia].
  destruct (span_numchars t) as [ds1 r1] eqn:E. inversion H; subst. specialize (IH _ _ eq_refl). cbn [length]. lia.
Qed.

Lemma decode_float_len : forall sgn p tk r, decode_float sgn p = Some (tk, r) -> (length r <= length p)%nat /\ is_numtok tk.
Proof.
  intros sgn p tk r H. unfold decode_float in H. destruct (span_numchars p) as [l t] eqn:E.
  destruct (go_float_dec (sgn ++ l)); [|discriminate]. inversion H; subst. split; [apply (span_numchars_len _ _ _ E)|exact I].
Qed.

Lemma decode_number_len : forall bs tk r, decode_number bs = Some (tk, r) -> (length r <= length bs)%nat /\ is_numtok tk.
Proof.
  intros bs tk r H. unfold decode_number in H. destruct bs as [|c t]; [discriminate H|].
  destruct (c =? 45); cbv beta iota zeta in H.
  - destruct t as [|c2 t2]; [discriminate H|].
    destruct (span_digits (c2 :: t2)) as [ds r0] eqn:Es. pose proof (span_digits_len _ _ _ Es) as Hl.
    match type of H with (if ?b then _ else _) = _ => destruct b end.
    + apply decode_float_len in H. cbn [length] in *. split; [lia|tauto].
    + destruct ds; [discriminate|]. match type of H with (if ?b then _ else _) = _ => destruct b end.
      * inversion H; subst. cbn [length] in *. split; [lia|exact I].
      * apply decode_float_len in H. cbn [length] in *. split; [lia|tauto].
  - destruct (span_digits (c :: t)) as [ds r0] eqn:Es. pose proof (span_digits_len _ _ _ Es) as Hl.
    match type of H with (if ?b then _ else _) = _ => destruct b end.
    + apply decode_float_len in H. cbn [length] in *. split; [lia|tauto].
    + destruct ds; [discriminate|]. match type of H with (if ?b then _ else _) = _ => destruct b end.
      * inversion H; subst. cbn [length] in *. split; [lia|exact I].
      * apply decode_float_len in H. cbn [length] in *. split; [lia|tauto].
Qed.

Lemma decode_value_len : forall bs tk r, decode_value bs = Some (tk, r) ->
  (length r <= length bs)%nat /\ match tk with TkStr _ _ | TkObj | TkArr => (length r < length bs)%nat | _ => True end.
Proof.
  intros bs tk r H. unfold decode_value, skip_blank in H. pose proof (skip_ws_len bs) as Hw.
  destruct (skip_ws bs) as [|c q] eqn:E; [discriminate|]. cbn [length] in Hw.
  destruct (c =? 110).
  { unfold decode_lit in H. destruct (match_lit lit_null (c :: q)) eqn:El; [|discriminate]. inversion H; subst.
    apply match_lit_len in El. cbn [length] in El. split; [lia|exact I]. }
  destruct (c =? 34).
  { destruct (skip_string (c :: q)) as [[[l e] t]|] eqn:El; [|discriminate]. inversion H; subst.
    apply skip_string_len in El. cbn [length] in El. split; lia. }
  destruct (c =? 123); [inversion H; subst; split; lia|].
  destruct (c =? 91); [inversion H; subst; split; lia|].
  destruct (c =? 116).
  { unfold decode_lit in H. destruct (match_lit lit_true (c :: q)) eqn:El; [|discriminate]. inversion H; subst.
    apply match_lit_len in El. cbn [length] in El. split; [lia|exact I]. }
  destruct (c =? 102).
  { unfold decode_lit in H. destruct (match_lit lit_false (c :: q)) eqn:El; [|discriminate]. inversion H; subst.
    apply match_lit_len in El. cbn [length] in El. split; [lia|exact I]. }
  match type of H with (if ?b then _ else _) = _ => destruct b end; [|discriminate].
  apply decode_number_len in H. destruct H as [H1 H2]. cbn [length] in H1. split; [lia|]. destruct tk; try exact I; contradiction.
Qed.

Lemma peek_len : forall bs tk p, peek bs = Some (tk, p) -> (length p <= length bs)%nat.
Proof.
  intros bs tk p H. unfold peek, skip_blank in H. pose proof (skip_ws_len bs) as Hw.
  destruct (skip_ws bs) as [|c q] eqn:E; [discriminate|].
  repeat match type of H with (if ?b then _ else _) = _ => destruct b end; try discriminate; inversion H; subst; exact Hw.
Qed.

Lemma skip_pair_len : forall n0 bs l rc n inq r, (length bs <= n0)%nat -> skip_pair l rc n inq bs = Some r -> (length r <= length bs)%nat.
Proof.
  induction n0 as [|n0 IH]; intros bs l rc n inq r Hn H.
  - destruct bs; [discriminate|cbn in Hn; lia].
  - destruct bs as [|c t]; [discriminate|]. cbn [skip_pair] in H. cbn [length] in Hn |- *.
    destruct (c =? 92).
    { destruct t as [|x r2]; [discriminate|]. apply IH in H; cbn [length] in *; lia. }
    destruct (c =? 34); [apply IH in H; lia|].
    destruct ((c =? l) && negb inq); [apply IH in H; lia|].
    destruct ((c =? rc) && negb inq); [|apply IH in H; lia].
    destruct n as [|[|n']]; [discriminate|inversion H; subst; lia|apply IH in H; lia].
Qed.

Lemma skip_num_len : forall bs first pointer exponent lastdig needdig prev r,
  skip_num first pointer exponent lastdig needdig prev bs = Some r -> (length r <= length bs)%nat.
Proof.
  induction bs as [|c t IH]; intros first pointer exponent lastdig needdig prev r H; cbn [skip_num] in H.
  - destruct needdig; [discriminate|inversion H; subst; lia].
  - cbn [length].
    repeat match type of H with
    | (if ?b then _ else _) = _ => destruct b
    | (match ?x with [] => _ | _ :: _ => _ end) = _ => destruct x eqn:?
    end; try discriminate; try (apply IH in H; cbn [length] in *; lia); try (inversion H; subst; cbn [length]; lia).
Qed.

Lemma skip_value_len : forall bs r, skip_value bs = Some r -> (length r <= length bs)%nat.
Proof.
  intros bs r H. unfold skip_value, skip_blank in H. pose proof (skip_ws_len bs) as Hw.
  destruct (skip_ws bs) as [|c q] eqn:E; [discriminate|]. cbn [length] in Hw.
  destruct (c =? 110); [unfold decode_lit in H; apply match_lit_len in H; cbn [length] in H; lia|].
  destruct (c =? 34).
  { destruct (skip_string (c :: q)) as [[[l e] t]|] eqn:El; [|discriminate]. inversion H; subst.
    apply skip_string_len in El. cbn [length] in El. lia. }
  destruct (c =? 123); [destruct q; [discriminate|]; apply (skip_pair_len _ _ _ _ _ _ _ (le_n _)) in H; lia|].
  destruct (c =? 91); [destruct q; [discriminate|]; apply (skip_pair_len _ _ _ _ _ _ _ (le_n _)) in H; lia|].
  destruct (c =? 116); [unfold decode_lit in H; apply match_lit_len in H; cbn [length] in H; lia|].
  destruct (c =? 102); [unfold decode_lit in H; apply match_lit_len in H; cbn [length] in H; lia|].
  match type of H with (if ?b then _ else _) = _ => destruct b end; [|discriminate].
  unfold skip_number in H. destruct (c =? 45); apply skip_num_len in H; cbn [length] in H; lia.
Qed.

Definition short (bs : list Z) (w : wres) : Prop :=
  match w with WOk _ r | WNull r => (length r <= length bs)%nat | _ => True end.
Definition nofuel (w : wres) : Prop := w <> WErr W_FUEL.

Lemma short_trans : forall r bs w, short r w -> (length r <= length bs)%nat -> short bs w.
Proof. intros r bs w H Hl. destruct w; cbn [short] in *; try exact I; lia. Qed.

Ltac nf := unfold nofuel, W_OTHER, W_FUEL, W_DISMATCH, W_UNKNOWN, W_MISSREQ; discriminate.

Lemma handle_requires_cases : forall o sd bm,
  (exists t, handle_requires o sd bm = WOk t []) \/ handle_requires o sd bm = WErr W_OTHER \/ handle_requires o sd bm = WErr W_MISSREQ.
Proof.
  intros o sd. induction bm as [|id bm IH]; cbn [handle_requires]; [left; eexists; reflexivity|].
  destruct (find_id sd id) as [f|]; [|right; left; reflexivity].
  destruct ((f_req f =? 1) && negb (w_wreq o)); [right; right; reflexivity|].
  destruct (((f_req f =? 0) && negb (w_wdef o)) || ((f_req f =? 2) && negb (w_wopt o))); [exact IH|].
  destruct IH as [(t & ->)|[-> | ->]]; [left; eexists; reflexivity|right; left; reflexivity|right; right; reflexivity].
Qed.

Lemma walk_key_short : forall k key bs, short bs (walk_key k key).
Proof.
  intros k key bs. unfold walk_key. destruct (is_string_ty k); [cbn; lia|].
  destruct (is_int_ty k); [destruct (go_parse_int key); cbn; try lia; exact I|].
  destruct k; try exact I. destruct (go_parse_float key); cbn; try lia; exact I.
Qed.

Section Fuel.
  Variable D : defs.
  Variable o : wopts.

  Section LoopsFuel.
    Variable rec : ty -> list Z -> wres.
    Hypothesis Hrec : forall t bs, short bs (rec t bs).

    Lemma arr_loop_short : forall fuel e bs size acc, short bs (arr_loop rec fuel e bs size acc).
    Proof.
      induction fuel as [|f IH]; intros e bs size acc; cbn [arr_loop]; [exact I|].
      pose proof (Hrec e bs) as Hs.
      destruct (rec e bs) as [d r|r|c|]; cbn [short] in Hs |- *; try exact I;
        (destruct (peek r) as [[tk p]|] eqn:Hp; [|exact I]); apply peek_len in Hp;
        destruct tk; try exact I; destruct p as [|a r']; try exact I; cbn [length] in Hp;
        first [ apply (short_trans r'); [apply IH|lia] | cbn [short]; lia ].
    Qed.

    Lemma map_loop_short : forall fuel k v bs size acc, short bs (map_loop rec fuel k v bs size acc).
    Proof.
      induction fuel as [|f IH]; intros k v bs size acc; cbn [map_loop]; [exact I|].
      destruct (decode_value bs) as [[tk r]|] eqn:Hdv; [|exact I]. apply decode_value_len in Hdv. destruct Hdv as [Hl _].
      destruct tk; try exact I. destruct (tok_string lit esc); [|exact I].
      pose proof (walk_key_short k l bs) as Hks. destruct (walk_key k l) as [kb x|x|c|]; try exact Hks. clear Hks.
      destruct (peek r) as [[tk p]|] eqn:Hp; [|exact I]. apply peek_len in Hp.
      destruct tk; try exact I. destruct p as [|a r1]; try exact I. cbn [length] in Hp.
      pose proof (Hrec v r1) as Hs.
      destruct (rec v r1) as [d r2|r2|c|]; cbn [short] in Hs |- *; try exact I;
        (destruct (peek r2) as [[tk2 p2]|] eqn:Hp2; [|exact I]); apply peek_len in Hp2;
        destruct tk2; try exact I; destruct p2 as [|a2 r']; try exact I; cbn [length] in Hp2;
        first [ apply (short_trans r'); [apply IH|lia] | cbn [short]; lia ].
    Qed.

    Lemma struct_loop_short : forall fuel sd bs bm acc, short bs (struct_loop o rec fuel sd bs bm acc).
    Proof.
      induction fuel as [|f IH]; intros sd bs bm acc; cbn [struct_loop]; [exact I|].
      destruct (decode_value bs) as [[tk r]|] eqn:Hdv; [|exact I]. apply decode_value_len in Hdv. destruct Hdv as [Hl _].
      destruct tk; try exact I. destruct (tok_string lit esc); [|exact I].
      destruct (peek r) as [[tk p]|] eqn:Hp; [|exact I]. apply peek_len in Hp.
      destruct tk; try exact I. destruct p as [|a r1]; try exact I. cbn [length] in Hp.
      assert (Hnext : forall bm' acc' r2, (length r2 <= length r1)%nat ->
        short bs match peek r2 with
                 | Some (PComma, _ :: r') => struct_loop o rec f sd r' bm' acc'
                 | Some (PEndObj, _ :: r') =>
                   match handle_requires o sd bm' with
                   | WOk t _ => WOk (concat (rev acc') ++ t ++ [0]) r'
                   | e => e
                   end
                 | _ => WErr W_OTHER
                 end).
      { intros bm' acc' r2 H2. destruct (peek r2) as [[tk2 p2]|] eqn:Hp2; [|exact I]. apply peek_len in Hp2.
        destruct tk2; try exact I; destruct p2 as [|a2 r']; try exact I; cbn [length] in Hp2.
        - apply (short_trans r'); [apply IH|lia].
        - destruct (handle_requires_cases o sd bm') as [(t & ->)|[-> | ->]]; cbn [short]; try exact I. lia. }
      destruct (find_field sd l) as [ft|].
      - destruct (w_vm o && f_vm ft); [exact I|].
        pose proof (Hrec (f_ty ft) r1) as Hs.
        destruct (rec (f_ty ft) r1) as [d r2|r2|c|]; cbn [short] in Hs; try exact I; apply Hnext; exact Hs.
      - destruct (w_du o); [exact I|]. destruct (skip_value r1) as [r2|] eqn:Hsk; [|exact I].
        apply Hnext. apply skip_value_len. exact Hsk.
    Qed.
  End LoopsFuel.

  Lemma walk_short : forall fuel t bs, short bs (walk D o fuel t bs).
  Proof.
    induction fuel as [|f IH]; intros t bs; [exact I|].
    destruct bs as [|c0 q0]; [cbn; lia|]. cbn [walk].
    destruct (decode_value (c0 :: q0)) as [[tk r]|] eqn:Hdv; [|exact I]. apply decode_value_len in Hdv. destruct Hdv as [Hl Hst].
    destruct tk.
    - exact Hl.
    - destruct t; try exact I. exact Hl.
    - destruct t; try exact I. exact Hl.
    - destruct (is_int_ty t); [exact Hl|]. destruct t; try exact I. exact Hl.
    - destruct (is_int_ty t); [exact Hl|]. destruct t; try exact I. exact Hl.
    - destruct (tok_string lit esc); [|exact I].
      repeat match goal with
      | |- short _ (if ?b then _ else _) => destruct b
      | |- short _ (match go_b64 ?x with _ => _ end) => destruct (go_b64 x)
      | |- short _ (match go_parse_int ?x with _ => _ end) => destruct (go_parse_int x)
      | |- short _ (match go_parse_float ?x with _ => _ end) => destruct (go_parse_float x)
      end; try exact I; try exact Hl.
    - destruct t; try exact I.
      + destruct (nth_error D i) as [sd|]; [|exact I].
        destruct (peek r) as [[tk p]|] eqn:Hp; [|apply (short_trans r); [apply struct_loop_short; exact IH|lia]].
        pose proof (peek_len _ _ _ Hp) as Hpl.
        destruct tk; try (apply (short_trans r); [apply struct_loop_short; exact IH|lia]).
        destruct p as [|a r']; [apply (short_trans r); [apply struct_loop_short; exact IH|lia]|].
        cbn [length] in Hpl.
        destruct (handle_requires_cases o sd (bm_init sd)) as [(t' & ->)|[-> | ->]]; cbn [short]; try exact I. lia.
      + destruct (peek r) as [[tk p]|] eqn:Hp; [|apply (short_trans r); [apply map_loop_short; exact IH|lia]].
        pose proof (peek_len _ _ _ Hp) as Hpl.
        destruct tk; try (apply (short_trans r); [apply map_loop_short; exact IH|lia]).
        destruct p as [|a r']; [apply (short_trans r); [apply map_loop_short; exact IH|lia]|].
        cbn [length short] in *. lia.
    - destruct t; try exact I.
      + destruct (peek r) as [[tk p]|] eqn:Hp; [|apply (short_trans r); [apply arr_loop_short; exact IH|lia]].
        pose proof (peek_len _ _ _ Hp) as Hpl.
        destruct tk; try (apply (short_trans r); [apply arr_loop_short; exact IH|lia]).
        destruct p as [|a r']; [apply (short_trans r); [apply arr_loop_short; exact IH|lia]|].
        cbn [length short] in *. lia.
      + destruct (peek r) as [[tk p]|] eqn:Hp; [|apply (short_trans r); [apply arr_loop_short; exact IH|lia]].
        pose proof (peek_len _ _ _ Hp) as Hpl.
        destruct tk; try (apply (short_trans r); [apply arr_loop_short; exact IH|lia]).
        destruct p as [|a r']; [apply (short_trans r); [apply arr_loop_short; exact IH|lia]|].
        cbn [length short] in *. lia.
  Qed.
End Fuel.

Lemma walk_key_nofuel : forall k key, nofuel (walk_key k key).
Proof.
  intros k key. unfold walk_key. destruct (is_string_ty k); [nf|].
  destruct (is_int_ty k); [destruct (go_parse_int key); nf|].
  destruct k; try nf. destruct (go_parse_float key); nf.
Qed.

Section FuelAdequate.
  Variable D : defs.
  Variable o : wopts.

  Section LoopsNF.
    Variable rec : ty -> list Z -> wres.
    Hypothesis Hrec : forall t bs, short bs (rec t bs).

    Lemma arr_loop_nofuel : forall fuel e bs size acc, (length bs < fuel)%nat ->
      (forall t bs', (length bs' <= length bs)%nat -> nofuel (rec t bs')) -> nofuel (arr_loop rec fuel e bs size acc).
    Proof.
      induction fuel as [|f IH]; intros e bs size acc Hf Hnf; [lia|]. cbn [arr_loop].
      pose proof (Hrec e bs) as Hs. pose proof (Hnf e bs (le_n _)) as Hn.
      destruct (rec e bs) as [d r|r|c|]; cbn [short] in Hs; try exact Hn; try nf;
        (destruct (peek r) as [[tk p]|] eqn:Hp; [|nf]); apply peek_len in Hp;
        destruct tk; try nf; destruct p as [|a r']; try nf; cbn [length] in Hp;
        (apply IH; [lia|intros t bs' Hb; apply Hnf; lia]).
    Qed.

    Lemma map_loop_nofuel : forall fuel k v bs size acc, (length bs < fuel)%nat ->
      (forall t bs', (length bs' <= length bs)%nat -> nofuel (rec t bs')) -> nofuel (map_loop rec fuel k v bs size acc).
    Proof.
      induction fuel as [|f IH]; intros k v bs size acc Hf Hnf; [lia|]. cbn [map_loop].
      destruct (decode_value bs) as [[tk r]|] eqn:Hdv; [|nf]. apply decode_value_len in Hdv. destruct Hdv as [Hl Hst].
      destruct tk; try nf. destruct (tok_string lit esc); [|nf].
      pose proof (walk_key_nofuel k l) as Hkn. destruct (walk_key k l) as [kb x|x|c|]; try exact Hkn. clear Hkn.
      destruct (peek r) as [[tk p]|] eqn:Hp; [|nf]. apply peek_len in Hp.
      destruct tk; try nf. destruct p as [|a r1]; try nf. cbn [length] in Hp.
      pose proof (Hrec v r1) as Hs. assert (Hn : nofuel (rec v r1)) by (apply Hnf; lia).
      destruct (rec v r1) as [d r2|r2|c|]; cbn [short] in Hs; try exact Hn; try nf;
        (destruct (peek r2) as [[tk2 p2]|] eqn:Hp2; [|nf]); apply peek_len in Hp2;
        destruct tk2; try nf; destruct p2 as [|a2 r']; try nf; cbn [length] in Hp2;
        (apply IH; [lia|intros t bs' Hb; apply Hnf; lia]).
    Qed.

    Lemma struct_loop_nofuel : forall fuel sd bs bm acc, (length bs < fuel)%nat ->
      (forall t bs', (length bs' <= length bs)%nat -> nofuel (rec t bs')) -> nofuel (struct_loop o rec fuel sd bs bm acc).
    Proof.
      induction fuel as [|f IH]; intros sd bs bm acc Hf Hnf; [lia|]. cbn [struct_loop].
      destruct (decode_value bs) as [[tk r]|] eqn:Hdv; [|nf]. apply decode_value_len in Hdv. destruct Hdv as [Hl Hst].
      destruct tk; try nf. destruct (tok_string lit esc); [|nf].
      destruct (peek r) as [[tk p]|] eqn:Hp; [|nf]. apply peek_len in Hp.
      destruct tk; try nf. destruct p as [|a r1]; try nf. cbn [length] in Hp.
      assert (Hnext : forall bm' acc' r2, (length r2 <= length r1)%nat ->
        nofuel match peek r2 with
               | Some (PComma, _ :: r') => struct_loop o rec f sd r' bm' acc'
               | Some (PEndObj, _ :: r') =>
                 match handle_requires o sd bm' with
                 | WOk t _ => WOk (concat (rev acc') ++ t ++ [0]) r'
                 | e => e
                 end
               | _ => WErr W_OTHER
               end).
      { intros bm' acc' r2 H2. destruct (peek r2) as [[tk2 p2]|] eqn:Hp2; [|nf]. apply peek_len in Hp2.
        destruct tk2; try nf; destruct p2 as [|a2 r']; try nf; cbn [length] in Hp2.
        - apply IH; [lia|intros t bs' Hb; apply Hnf; lia].
        - destruct (handle_requires_cases o sd bm') as [(t & ->)|[-> | ->]]; nf. }
      destruct (find_field sd l) as [ft|].
      - destruct (w_vm o && f_vm ft); [nf|].
        pose proof (Hrec (f_ty ft) r1) as Hs. assert (Hn : nofuel (rec (f_ty ft) r1)) by (apply Hnf; lia).
        destruct (rec (f_ty ft) r1) as [d r2|r2|c|]; cbn [short] in Hs; try exact Hn; try nf; apply Hnext; exact Hs.
      - destruct (w_du o); [nf|]. destruct (skip_value r1) as [r2|] eqn:Hsk; [|nf].
        apply Hnext. apply skip_value_len. exact Hsk.
    Qed.
  End LoopsNF.

  (* the fuel [j2t_walk] gives (S (length text)) is enough: W_FUEL is unreachable *)
  Theorem walk_fuel_adequate : forall fuel t bs, (length bs < fuel)%nat -> nofuel (walk D o fuel t bs).
  Proof.
    induction fuel as [|f IH]; intros t bs Hf; [lia|].
    destruct bs as [|c0 q0]; [nf|]. cbn [walk].
    destruct (decode_value (c0 :: q0)) as [[tk r]|] eqn:Hdv; [|nf]. apply decode_value_len in Hdv. destruct Hdv as [Hl Hst].
    cbn [length] in Hf, Hl, Hst.
    assert (Hrecnf : forall bs0 : list Z, (length bs0 < f)%nat -> forall t' (bs' : list Z), (length bs' <= length bs0)%nat -> nofuel (walk D o f t' bs'))
      by (intros bs0 H0 t' bs' Hb; apply IH; lia).
    destruct tk.
    - nf.
    - destruct t; nf.
    - destruct t; nf.
    - destruct (is_int_ty t); [nf|]. destruct t; nf.
    - destruct (is_int_ty t); [nf|]. destruct t; nf.
    - destruct (tok_string lit esc); [|nf].
      repeat match goal with
      | |- nofuel (if ?b then _ else _) => destruct b
      | |- nofuel (match go_b64 ?x with _ => _ end) => destruct (go_b64 x)
      | |- nofuel (match go_parse_int ?x with _ => _ end) => destruct (go_parse_int x)
      | |- nofuel (match go_parse_float ?x with _ => _ end) => destruct (go_parse_float x)
      end; try nf.
    - destruct t; try nf.
      + destruct (nth_error D i) as [sd|]; [|nf].
        assert (Hloop : nofuel (struct_loop o (walk D o f) f sd r (bm_init sd) []))
          by (apply struct_loop_nofuel; [apply walk_short|lia|apply Hrecnf; lia]).
        destruct (peek r) as [[tk p]|] eqn:Hp; [|exact Hloop].
        destruct tk; try exact Hloop. destruct p as [|a r']; [exact Hloop|].
        destruct (handle_requires_cases o sd (bm_init sd)) as [(t' & ->)|[-> | ->]]; nf.
      + assert (Hloop : nofuel (map_loop (walk D o f) f t1 t2 r 0 []))
          by (apply map_loop_nofuel; [apply walk_short|lia|apply Hrecnf; lia]).
        destruct (peek r) as [[tk p]|] eqn:Hp; [|exact Hloop].
        destruct tk; try exact Hloop. destruct p as [|a r']; [exact Hloop|]. nf.
    - destruct t; try nf.
      + assert (Hloop : nofuel (arr_loop (walk D o f) f t r 0 []))
          by (apply arr_loop_nofuel; [apply walk_short|lia|apply Hrecnf; lia]).
        destruct (peek r) as [[tk p]|] eqn:Hp; [|exact Hloop].
        destruct tk; try exact Hloop. destruct p as [|a r']; [exact Hloop|]. nf.
      + assert (Hloop : nofuel (arr_loop (walk D o f) f t r 0 []))
          by (apply arr_loop_nofuel; [apply walk_short|lia|apply Hrecnf; lia]).
        destruct (peek r) as [[tk p]|] eqn:Hp; [|exact Hloop].
        destruct tk; try exact Hloop. destruct p as [|a r']; [exact Hloop|]. nf.
  Qed.

  Corollary j2t_walk_never_fuel : forall t text, j2t_walk D o t text <> TErr W_FUEL.
  Proof.
    intros t text. unfold j2t_walk. destruct text as [|c q]; [destruct t; nf|].
    set (src := if is_string_ty t && negb (c =? 34) then quote_ref (c :: q) else c :: q).
    pose proof (walk_fuel_adequate (S (length src)) t src (Nat.lt_succ_diag_r _)) as H.
    destruct (walk D o (S (length src)) t src) as [d r|r|e|]; try nf.
    intros E. apply H. inversion E. reflexivity.
  Qed.
End FuelAdequate.
