From Coq Require Import ZArith List Bool Arith Lia.
From DG Require Import ProtoWireRef ProtoWireRefProofs ProtoSpecLen.
Import ListNotations.

Lemma firstn_app_exact {A} (l r : list A) : firstn (length l) (l ++ r) = l.
Proof. rewrite firstn_app, Nat.sub_diag, firstn_all. cbn. apply app_nil_r. Qed.
Lemma skipn_app_exact {A} (l r : list A) : skipn (length l) (l ++ r) = r.
Proof. rewrite skipn_app, Nat.sub_diag, skipn_all. reflexivity. Qed.

(* the shifting algorithm is correct for EVERY prefix, payload and every content of the spare capacity *)
Theorem finish_spec_correct prefix x payload junk :
  (length payload < 2 ^ 31)%nat -> (9 <= length junk)%nat ->
  finish_spec (prefix ++ [x] ++ payload) junk (length prefix)
  = prefix ++ varint_enc (Z.of_nat (length payload)) ++ payload.
Proof.
  intros Hlen Hj. unfold finish_spec, speculative_length.
  assert (Hm : (length (prefix ++ [x] ++ payload) - length prefix - 1 = length payload)%nat).
  { rewrite !app_length. cbn. lia. }
  rewrite Hm. set (ve := varint_enc (Z.of_nat (length payload))).
  assert (Hvl : (1 <= length ve <= 10)%nat) by (unfold ve, varint_enc; apply venc_length_bounds).
  destruct (Nat.eqb_spec (length ve) 1) as [H1|H1].
  - (* one-byte length: overwrite the placeholder *)
    unfold overwrite_at. rewrite H1.
    rewrite firstn_app_exact.
    replace (length prefix + 1)%nat with (length (prefix ++ [x])) by (rewrite app_length; cbn; lia).
    rewrite (app_assoc prefix [x] payload), skipn_app_exact. reflexivity.
  - (* longer length: grow, shift the payload right, then write the varint *)
    set (n := (length prefix + length ve + length payload)%nat).
    assert (Hb : length (prefix ++ [x] ++ payload) = (length prefix + 1 + length payload)%nat)
      by (rewrite !app_length; cbn; lia).
    (* the re-sliced buffer is prefix ++ [x] ++ payload ++ (some junk of length |ve| - 1) *)
    assert (Hrs : reslice (prefix ++ [x] ++ payload) junk n
                  = prefix ++ [x] ++ payload ++ firstn (length ve - 1) junk).
    { unfold reslice. rewrite firstn_app, Hb.
      rewrite firstn_all2 by (rewrite Hb; unfold n; lia).
      replace (n - (length prefix + 1 + length payload))%nat with (length ve - 1)%nat by (unfold n; lia).
      rewrite <- !app_assoc. reflexivity. }
    rewrite Hrs. set (jk := firstn (length ve - 1) junk).
    assert (Hjk : length jk = (length ve - 1)%nat) by (unfold jk; rewrite firstn_length; lia).
    set (buf := prefix ++ [x] ++ payload ++ jk).
    assert (Hbuf : length buf = n) by (unfold buf, n; rewrite !app_length; change (length [x]) with 1%nat; lia).
    unfold copy_within. rewrite Hbuf.
    replace (Nat.min (n - (length prefix + length ve)) (n - (length prefix + 1)))%nat with (length payload) by (unfold n; lia).
    (* skipn (|prefix|+1) buf = payload ++ jk *)
    assert (Hsk : skipn (length prefix + 1) buf = payload ++ jk).
    { unfold buf. replace (length prefix + 1)%nat with (length (prefix ++ [x])) by (rewrite app_length; cbn; lia).
      rewrite (app_assoc prefix [x]), skipn_app_exact. reflexivity. }
    rewrite Hsk, firstn_app_exact.
    replace (skipn (length prefix + length ve + length payload) buf) with (@nil Z)
      by (symmetry; apply skipn_all2; rewrite Hbuf; unfold n; lia).
    rewrite app_nil_r.
    (* now overwrite the varint *)
    unfold overwrite_at.
    assert (Hf1 : firstn (length prefix) (firstn (length prefix + length ve) buf ++ payload) = prefix).
    { rewrite firstn_app, firstn_firstn.
      replace (Nat.min (length prefix) (length prefix + length ve)) with (length prefix) by lia.
      rewrite firstn_length, Hbuf.
      replace (length prefix - Nat.min (length prefix + length ve) n)%nat with 0%nat by (unfold n; lia).
      unfold buf. rewrite firstn_app_exact.
      cbn [firstn]. apply app_nil_r. }
    rewrite Hf1. f_equal. f_equal.
    assert (Hl : length (firstn (length prefix + length ve) buf) = (length prefix + length ve)%nat)
      by (rewrite firstn_length, Hbuf; unfold n; lia).
    rewrite <- Hl at 1. apply skipn_app_exact.
Qed.

(* the placeholder byte and the junk never leak: the result depends on prefix and payload only *)
Corollary finish_spec_independent prefix x x' payload junk junk' :
  (length payload < 2 ^ 31)%nat -> (9 <= length junk)%nat -> (9 <= length junk')%nat ->
  finish_spec (prefix ++ [x] ++ payload) junk (length prefix) = finish_spec (prefix ++ [x'] ++ payload) junk' (length prefix).
Proof. intros. rewrite !finish_spec_correct by assumption. reflexivity. Qed.

(* nested use (inner message finished first, then the outer one): lengths at every depth are consistent *)
Corollary finish_spec_nested p1 x1 p2 x2 payload j1 j2 :
  let inner := varint_enc (Z.of_nat (length payload)) ++ payload in
  (length payload < 2 ^ 31)%nat -> (length (p2 ++ inner) < 2 ^ 31)%nat -> (9 <= length j1)%nat -> (9 <= length j2)%nat ->
  finish_spec (finish_spec ((p1 ++ [x1] ++ p2) ++ [x2] ++ payload) j1 (length (p1 ++ [x1] ++ p2))) j2 (length p1)
  = p1 ++ varint_enc (Z.of_nat (length (p2 ++ inner))) ++ p2 ++ inner.
Proof.
  intros inner H1 H2 Hj1 Hj2. rewrite finish_spec_correct by assumption.
  fold inner. rewrite <- !app_assoc. cbn [app].
  change (p1 ++ x1 :: p2 ++ inner) with (p1 ++ [x1] ++ (p2 ++ inner)).
  rewrite finish_spec_correct by assumption. reflexivity.
Qed.
