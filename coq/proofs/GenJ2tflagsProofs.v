(* (G) conv/j2t toFlags, translated from the Go source on every build (gen/Gen_j2tflags.v, constants gen/Gen_nativetypes.v):
   each option sets exactly its bit of the native flag word, and the word decodes to the models' option records. *)
From Coq Require Import ZArith List Bool Lia.
From DG Require Import GoSem CaseFormat Gen_nativetypes Gen_j2tflags NativeFlags Check20g.
From DG Require J2T Requireness.
Import ListNotations.
Local Open Scope Z_scope.

(* the Go constants (internal/native/types) are the ones of native/thrift.h *)
Lemma go_flag_constants_are_native :
  [F_ALLOW_UNKNOWN; F_WRITE_DEFAULT; F_VALUE_MAPPING; F_HTTP_MAPPING; F_STRING_INT; F_WRITE_REQUIRE; F_NO_BASE64; F_WRITE_OPTIONAL; F_TRACE_BACK]
  = native_flag_list.
Proof. reflexivity. Qed.

(* pairwise distinct single bits: bit k for the k-th flag *)
Lemma go_flag_constants_single_bits :
  map Z.log2 [F_ALLOW_UNKNOWN; F_WRITE_DEFAULT; F_VALUE_MAPPING; F_HTTP_MAPPING; F_STRING_INT; F_WRITE_REQUIRE; F_NO_BASE64; F_WRITE_OPTIONAL; F_TRACE_BACK]
    = [0; 1; 2; 3; 4; 5; 6; 7; 8] /\
  Forall (fun f => f = 2 ^ Z.log2 f)
    [F_ALLOW_UNKNOWN; F_WRITE_DEFAULT; F_VALUE_MAPPING; F_HTTP_MAPPING; F_STRING_INT; F_WRITE_REQUIRE; F_NO_BASE64; F_WRITE_OPTIONAL; F_TRACE_BACK].
Proof. split; [reflexivity|]. repeat constructor. Qed.

Ltac all_opts o := destruct o as [a b c d e f g h i j]; destruct a, b, c, d, e, f, g, h, i, j; reflexivity.

(* the word is the sum of the selected bits (so: exactly these bits, nothing else) *)
Lemma toFlags_exact o :
  toFlags o =
    bit_if (toFlags_opts_WriteDefaultField o) F_WRITE_DEFAULT + bit_if (negb (toFlags_opts_DisallowUnknownField o)) F_ALLOW_UNKNOWN +
    bit_if (toFlags_opts_EnableValueMapping o) F_VALUE_MAPPING + bit_if (toFlags_opts_EnableHttpMapping o) F_HTTP_MAPPING +
    bit_if (toFlags_opts_String2Int64 o) F_STRING_INT + bit_if (toFlags_opts_WriteRequireField o) F_WRITE_REQUIRE +
    bit_if (toFlags_opts_NoBase64Binary o) F_NO_BASE64 + bit_if (toFlags_opts_WriteOptionalField o) F_WRITE_OPTIONAL +
    bit_if (toFlags_opts_ReadHttpValueFallback o || (toFlags_opts_EnableHttpMapping o && toFlags_opts_TracebackRequredOrRootFields o)) F_TRACE_BACK.
Proof. all_opts o. Qed.

(* every flag test of the native code reads back the option (DisallowUnknownField: absence of F_ALLOW_UNKNOWN) *)
Lemma toFlags_tests o :
  flag_on (toFlags o) NF_WRITE_DEFAULT = toFlags_opts_WriteDefaultField o /\
  flag_on (toFlags o) NF_ALLOW_UNKNOWN = negb (toFlags_opts_DisallowUnknownField o) /\
  flag_on (toFlags o) NF_VALUE_MAPPING = toFlags_opts_EnableValueMapping o /\
  flag_on (toFlags o) NF_HTTP_MAPPING = toFlags_opts_EnableHttpMapping o /\
  flag_on (toFlags o) NF_STRING_INT = toFlags_opts_String2Int64 o /\
  flag_on (toFlags o) NF_WRITE_REQUIRE = toFlags_opts_WriteRequireField o /\
  flag_on (toFlags o) NF_NO_BASE64 = toFlags_opts_NoBase64Binary o /\
  flag_on (toFlags o) NF_WRITE_OPTIONAL = toFlags_opts_WriteOptionalField o /\
  flag_on (toFlags o) NF_TRACE_BACK = (toFlags_opts_ReadHttpValueFallback o || (toFlags_opts_EnableHttpMapping o && toFlags_opts_TracebackRequredOrRootFields o)).
Proof. destruct o as [a b c d e f g h i j]; destruct a, b, c, d, e, f, g, h, i, j; repeat split; reflexivity. Qed.

Lemma toFlags_range o : 0 <= toFlags o < 512.
Proof. destruct o as [a b c d e f g h i j]; destruct a, b, c, d, e, f, g, h, i, j; vm_compute; split; congruence. Qed.

(* for EVERY setting of the nine options: what the native converter reads in the flag word is the model's option record *)
Lemma toFlags_jopts o :
  jopts_of_flags (toFlags o) =
  J2T.mkOpts (toFlags_opts_DisallowUnknownField o) (toFlags_opts_String2Int64 o) (toFlags_opts_NoBase64Binary o) (toFlags_opts_EnableValueMapping o).
Proof. all_opts o. Qed.

Lemma toFlags_wopts o :
  wopts_of_flags (toFlags o) =
  {| Requireness.w_require := toFlags_opts_WriteRequireField o; Requireness.w_default := toFlags_opts_WriteDefaultField o;
     Requireness.w_optional := toFlags_opts_WriteOptionalField o; Requireness.w_disallow_unknown := toFlags_opts_DisallowUnknownField o |}.
Proof. all_opts o. Qed.

(* the conv.Options the harness builds from a model option record (every other option off) *)
Definition opts_of_jopts (o : J2T.jopts) : toFlags_opts :=
  {| toFlags_opts_DisallowUnknownField := J2T.o_disallow_unknown o; toFlags_opts_EnableHttpMapping := false;
     toFlags_opts_EnableValueMapping := J2T.o_vm o; toFlags_opts_NoBase64Binary := J2T.o_nob64 o; toFlags_opts_ReadHttpValueFallback := false;
     toFlags_opts_String2Int64 := J2T.o_str2int o; toFlags_opts_TracebackRequredOrRootFields := false; toFlags_opts_WriteDefaultField := false; toFlags_opts_WriteOptionalField := false;
     toFlags_opts_WriteRequireField := false |}.
Definition opts_of_wopts (w : Requireness.wopts) : toFlags_opts :=
  {| toFlags_opts_DisallowUnknownField := Requireness.w_disallow_unknown w; toFlags_opts_EnableHttpMapping := false;
     toFlags_opts_EnableValueMapping := false; toFlags_opts_NoBase64Binary := false; toFlags_opts_ReadHttpValueFallback := false;
     toFlags_opts_String2Int64 := false; toFlags_opts_TracebackRequredOrRootFields := false; toFlags_opts_WriteDefaultField := Requireness.w_default w;
     toFlags_opts_WriteOptionalField := Requireness.w_optional w; toFlags_opts_WriteRequireField := Requireness.w_require w |}.

Lemma flags_of_jopts_is_toFlags o : flags_of_jopts o = toFlags (opts_of_jopts o).
Proof. destruct o as [a b c d]; destruct a, b, c, d; reflexivity. Qed.

Lemma flags_of_wopts_is_toFlags w : flags_of_wopts w = toFlags (opts_of_wopts w).
Proof. destruct w as [a b c d]; destruct a, b, c, d; reflexivity. Qed.

Lemma jopts_flags_roundtrip o : jopts_of_flags (toFlags (opts_of_jopts o)) = o.
Proof. destruct o as [a b c d]; destruct a, b, c, d; reflexivity. Qed.

Lemma wopts_flags_roundtrip w : wopts_of_flags (toFlags (opts_of_wopts w)) = w.
Proof. destruct w as [a b c d]; destruct a, b, c, d; reflexivity. Qed.

Lemma toFlags_of_bits b : toFlags (opts_of_bits b) = nflags_of_bits b.
Proof.
  rewrite toFlags_exact. unfold opts_of_bits, nflags_of_bits. cbn [toFlags_opts_WriteDefaultField toFlags_opts_DisallowUnknownField
    toFlags_opts_EnableValueMapping toFlags_opts_EnableHttpMapping toFlags_opts_String2Int64 toFlags_opts_WriteRequireField
    toFlags_opts_NoBase64Binary toFlags_opts_WriteOptionalField toFlags_opts_ReadHttpValueFallback toFlags_opts_TracebackRequredOrRootFields]. reflexivity.
Qed.

(* the two expectations of check 291 / 1691 coincide: agreement with the generated definition IS agreement with the native word *)
Lemma check_toflags_codes b flags : (toFlags (opts_of_bits b) =? flags) = (nflags_of_bits b =? flags).
Proof. rewrite toFlags_of_bits. reflexivity. Qed.

(* C17: the conv.Options the HTTP-mapping harness builds from the model's option record (c17Opts: EnableHttpMapping always on) *)
From DG Require HttpMap.
Definition opts_of_hopts (h : HttpMap.hopts) : toFlags_opts :=
  {| toFlags_opts_DisallowUnknownField := false; toFlags_opts_EnableHttpMapping := true; toFlags_opts_EnableValueMapping := false;
     toFlags_opts_NoBase64Binary := HttpMap.o_nob64 h; toFlags_opts_ReadHttpValueFallback := HttpMap.o_rhf h;
     toFlags_opts_String2Int64 := false; toFlags_opts_TracebackRequredOrRootFields := HttpMap.o_tb h; toFlags_opts_WriteDefaultField := HttpMap.o_wd h;
     toFlags_opts_WriteOptionalField := HttpMap.o_wo h; toFlags_opts_WriteRequireField := HttpMap.o_wr h |}.

Lemma toFlags_hopts h :
  flag_on (toFlags (opts_of_hopts h)) NF_HTTP_MAPPING = true /\
  flag_on (toFlags (opts_of_hopts h)) NF_ALLOW_UNKNOWN = true /\
  flag_on (toFlags (opts_of_hopts h)) NF_WRITE_REQUIRE = HttpMap.o_wr h /\
  flag_on (toFlags (opts_of_hopts h)) NF_WRITE_DEFAULT = HttpMap.o_wd h /\
  flag_on (toFlags (opts_of_hopts h)) NF_WRITE_OPTIONAL = HttpMap.o_wo h /\
  flag_on (toFlags (opts_of_hopts h)) NF_TRACE_BACK = (HttpMap.o_rhf h || HttpMap.o_tb h) /\
  flag_on (toFlags (opts_of_hopts h)) NF_NO_BASE64 = HttpMap.o_nob64 h /\
  flag_on (toFlags (opts_of_hopts h)) NF_VALUE_MAPPING = false /\ flag_on (toFlags (opts_of_hopts h)) NF_STRING_INT = false.
Proof. pose proof (toFlags_tests (opts_of_hopts h)) as T. cbn [opts_of_hopts toFlags_opts_WriteDefaultField toFlags_opts_DisallowUnknownField
    toFlags_opts_EnableValueMapping toFlags_opts_EnableHttpMapping toFlags_opts_String2Int64 toFlags_opts_WriteRequireField
    toFlags_opts_NoBase64Binary toFlags_opts_WriteOptionalField toFlags_opts_ReadHttpValueFallback toFlags_opts_TracebackRequredOrRootFields negb andb] in T. tauto. Qed.
