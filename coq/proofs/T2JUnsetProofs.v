(* json_ofw / t2j_specw (write-unset options) extend json_of / t2j_spec: equal when both options are off; members of a
   struct = declared keys of the present known fields in wire order, then the written unset fields. *)
From Coq Require Import ZArith List Bool Lia.
From DG Require Import ProtoWireRef ThriftWire Json Num Base64 T2J T2JUnset ThriftWireProofs T2JProofs.
Import ListNotations.
Local Open Scope Z_scope.

Lemma existsb_insert : forall (p : fmeta * tdesc -> bool) f l, existsb p (insert_fld f l) = p f || existsb p l.
Proof.
  intros p f. induction l as [|g r IH]; [reflexivity|].
  cbn [insert_fld]. destruct (f_id (fst f) <=? f_id (fst g)); [reflexivity|].
  cbn [existsb]. rewrite IH. destruct (p f), (p g); reflexivity.
Qed.

Lemma existsb_sort : forall p fs, existsb p (sort_flds fs) = existsb p fs.
Proof.
  intros p. induction fs as [|f fs IH]; [reflexivity|].
  unfold sort_flds in *. cbn [fold_right existsb]. rewrite existsb_insert, IH. reflexivity.
Qed.

Lemma unset_walk_off : forall o l present, o_write_default o = false -> o_write_required o = false ->
  unset_walk o l present = if missing_required l present then inr E_REQUIRED else inl [].
Proof.
  intros o l present Hd Hr. induction l as [|f r IH]; [reflexivity|].
  cbn [unset_walk]. unfold missing_required in *. cbn [existsb]. unfold is_present.
  destruct (existsb (fun id => id =? f_id (fst f)) present) eqn:Ep.
  - rewrite andb_false_r. cbn [orb]. exact IH.
  - cbn [negb]. rewrite andb_true_r. destruct (f_req (fst f) =? 1) eqn:E1.
    + rewrite Hr. reflexivity.
    + cbn [orb]. rewrite Hd, andb_false_r. exact IH.
Qed.

Lemma unset_members_off : forall o fs present, o_write_default o = false -> o_write_required o = false ->
  unset_members o fs present = if missing_required fs present then inr E_REQUIRED else inl [].
Proof.
  intros o fs present Hd Hr. unfold unset_members. rewrite (unset_walk_off o _ present Hd Hr).
  unfold missing_required. rewrite existsb_sort. reflexivity.
Qed.

Section Off.
  Variable o : Z.
  Hypothesis Hd : o_write_default o = false.
  Hypothesis Hr : o_write_required o = false.

  Theorem json_ofw_off : forall v d, json_ofw o d v = json_of o d v.
  Proof.
    induction v as [b | z | z | z | z | z | s | vs IH | kt vt es IH | et es IH | et es IH] using tval_ind'; intros d;
      try reflexivity.
    - cbn [json_ofw json_of]. destruct d as [| | fs | |]; try reflexivity.
      rewrite (unset_members_off o fs _ Hd Hr).
      assert (E : map (fun iv : Z * tval =>
                match find_field fs (fst iv) with
                | None => if o_disallow_unknown o then FErr E_UNKNOWN else FDrop
                | Some f =>
                  match (if o_value_mapping o && f_jsconv (fst f) then jsconv o (snd iv) else json_ofw o (snd f) (snd iv)) with
                  | TOk e => FMem (f_key (fst f)) e | TExc _ => FErr 0 | TErr c => FErr c
                  end
                end) vs =
              map (fun iv : Z * tval =>
                match find_field fs (fst iv) with
                | None => if o_disallow_unknown o then FErr E_UNKNOWN else FDrop
                | Some f =>
                  match (if o_value_mapping o && f_jsconv (fst f) then jsconv o (snd iv) else json_of o (snd f) (snd iv)) with
                  | TOk e => FMem (f_key (fst f)) e | TExc _ => FErr 0 | TErr c => FErr c
                  end
                end) vs).
      { apply map_ext_in. intros iv Hin. rewrite Forall_forall in IH.
        destruct (find_field fs (fst iv)); [|reflexivity]. rewrite (IH iv Hin). reflexivity. }
      rewrite E. destruct (members_of _) as [ms|c]; [|reflexivity].
      destruct (missing_required fs (map fst vs)); [reflexivity|]. rewrite app_nil_r. reflexivity.
    - cbn [json_ofw json_of]. destruct d as [| | | dk dv |]; try reflexivity.
      assert (E : map (fun e : tval * tval => json_ofw o dv (snd e)) es = map (fun e => json_of o dv (snd e)) es).
      { apply map_ext_in. intros e Hin. rewrite Forall_forall in IH. exact (proj2 (IH e Hin) dv). }
      rewrite E. reflexivity.
    - cbn [json_ofw json_of]. destruct d as [| | | | s de]; try reflexivity.
      assert (E : map (json_ofw o de) es = map (json_of o de) es).
      { apply map_ext_in. intros e Hin. rewrite Forall_forall in IH. exact (IH e Hin de). }
      rewrite E. reflexivity.
    - cbn [json_ofw json_of]. destruct d as [| | | | s de]; try reflexivity.
      assert (E : map (json_ofw o de) es = map (json_of o de) es).
      { apply map_ext_in. intros e Hin. rewrite Forall_forall in IH. exact (IH e Hin de). }
      rewrite E. reflexivity.
  Qed.

  Lemma field_valuew_off : forall f x, field_valuew o f x = field_value o f x.
  Proof. intros f x. unfold field_valuew, field_value. rewrite json_ofw_off. reflexivity. Qed.

  Lemma root_walkw_off : forall fs vs acc seen bs, root_walkw o fs vs acc seen bs = root_walk o fs vs acc seen bs.
  Proof.
    intros fs. induction vs as [|[id x] r IH]; intros acc seen bs.
    - cbn [root_walkw root_walk]. rewrite (unset_members_off o fs seen Hd Hr).
      destruct (missing_required fs seen); [reflexivity|]. rewrite app_nil_r. reflexivity.
    - cbn [root_walkw root_walk]. destruct (find_field fs id) as [f|]; [|destruct (o_disallow_unknown o); [reflexivity | apply IH]].
      destruct (o_thrift_base o && o_base_in_ctx o && f_respbase (fst f)); [apply IH|].
      rewrite field_valuew_off.
      destruct (o_convert_exception o && negb (id =? 0)).
      + destruct (field_value o f x); try reflexivity.
        rewrite (unset_members_off o fs _ Hd Hr). destruct (missing_required fs (id :: seen)); reflexivity.
      + destruct (field_value o f x); try reflexivity. apply IH.
  Qed.

  Theorem t2j_specw_off : forall d v, t2j_specw o d v = t2j_spec o d v.
  Proof.
    intros d v. unfold t2j_specw, t2j_spec.
    destruct d; try (rewrite json_ofw_off; reflexivity).
    destruct v; try (rewrite json_ofw_off; reflexivity). apply root_walkw_off.
  Qed.
End Off.

(* members with the write options: present known fields in wire order, then the written unset fields (ascending id) *)
Theorem json_ofw_members : forall o fs vs ms,
  json_ofw o (DStruct fs) (VStruct vs) = TOk (EObj ms) ->
  exists us, unset_members o fs (map fst vs) = inl us /\ map fst ms = declared_keys fs vs ++ map fst us.
Proof.
  intros o fs vs ms H. cbn [json_ofw] in H.
  set (g := fun iv : Z * tval =>
              match find_field fs (fst iv) with
              | None => if o_disallow_unknown o then FErr E_UNKNOWN else FDrop
              | Some f =>
                match (if o_value_mapping o && f_jsconv (fst f) then jsconv o (snd iv) else json_ofw o (snd f) (snd iv)) with
                | TOk e => FMem (f_key (fst f)) e
                | TExc _ => FErr 0
                | TErr c => FErr c
                end
              end) in *.
  destruct (members_of (map g vs)) as [ms'|c] eqn:E; [|discriminate].
  destruct (unset_members o fs (map fst vs)) as [us|c] eqn:Eu; [|discriminate].
  inversion H; subst ms. exists us. split; [reflexivity|].
  rewrite map_app. f_equal.
  rewrite (members_of_keys _ _ E). unfold declared_keys.
  pose proof (members_of_no_err _ _ E) as Hne.
  clear E H Eu. induction vs as [|iv vs IH]; [reflexivity|].
  cbn [map flat_map]. f_equal.
  - assert (Hiv : forall c, g iv <> FErr c) by (intros c Hc; apply (Hne c); left; exact Hc).
    unfold g in *. destruct (find_field fs (fst iv)) as [f|].
    + destruct (if o_value_mapping o && f_jsconv (fst f) then jsconv o (snd iv) else json_ofw o (snd f) (snd iv)); try reflexivity;
      exfalso; eapply Hiv; reflexivity.
    + destruct (o_disallow_unknown o); [exfalso; eapply Hiv; reflexivity | reflexivity].
  - apply IH. intros c Hc. apply (Hne c). right. exact Hc.
Qed.

(* every written unset member is a declared field that was not met: required (only under WriteRequireField) or of
   default requiredness (only under WriteDefaultField); its key is the alias, its value the zero value *)
Theorem unset_walk_sound : forall o l present us, unset_walk o l present = inl us ->
  forall m, In m us -> exists f, In f l /\ m = (f_key (fst f), zero_of (snd f)) /\ is_present present f = false /\
    ((f_req (fst f) = 1 /\ o_write_required o = true) \/ (f_req (fst f) = 0 /\ o_write_default o = true)).
Proof.
  intros o. induction l as [|f r IH]; intros present us H m Hm; cbn [unset_walk] in H.
  - inversion H; subst. destruct Hm.
  - assert (Hrec : forall us', unset_walk o r present = inl us' -> In m us' ->
              exists f0, In f0 (f :: r) /\ m = (f_key (fst f0), zero_of (snd f0)) /\ is_present present f0 = false /\
                ((f_req (fst f0) = 1 /\ o_write_required o = true) \/ (f_req (fst f0) = 0 /\ o_write_default o = true))).
    { intros us' E Hin. destruct (IH present us' E m Hin) as (f0 & Hf0 & Hrest). exists f0. split; [right; exact Hf0 | exact Hrest]. }
    destruct (is_present present f) eqn:Ep; [exact (Hrec us H Hm)|].
    destruct (f_req (fst f) =? 1) eqn:E1.
    + destruct (o_write_required o) eqn:Ew; [|discriminate].
      destruct (unset_walk o r present) as [us'|] eqn:E; [|discriminate]. inversion H; subst.
      destruct Hm as [<-|Hm]; [|exact (Hrec us' eq_refl Hm)].
      exists f. split; [left; reflexivity|]. split; [reflexivity|]. split; [exact Ep|]. left. split; [apply Z.eqb_eq; exact E1 | reflexivity].
    + destruct ((f_req (fst f) =? 0) && o_write_default o) eqn:E0; [|exact (Hrec us H Hm)].
      apply andb_true_iff in E0. destruct E0 as [E0 Ew].
      destruct (unset_walk o r present) as [us'|] eqn:E; [|discriminate]. inversion H; subst.
      destruct Hm as [<-|Hm]; [|exact (Hrec us' eq_refl Hm)].
      exists f. split; [left; reflexivity|]. split; [reflexivity|]. split; [exact Ep|]. right. split; [apply Z.eqb_eq; exact E0 | exact Ew].
Qed.
