(* C14 — the Thrift IDL compiler as coded (coq/model/IdlParse.v) refines the elaboration specification (coq/model/Idl.v). *)
From Coq Require Import ZArith List Bool Lia Arith.
From DG Require Import CaseFormat GoSem Lookup LookupProofs Idl IdlProofs IdlParse.
Import ListNotations.
Local Open Scope Z_scope.

(* ------------------------------------------------------------------ the domain of the theorem (computable) *)

(* no file includes, under alias al, a file that itself has an include with alias al: a key "al.T" written in one tree can then
   never be read in the tree it leads to (see parse_cache_sound: qualified keys land in the fresh cache of the referenced tree) *)
Definition no_alias_clash (p : program) : bool :=
  forallb (fun f => forallb (fun inc => match get_file p (snd inc) with
                                        | Some g => negb (is_some (lookup (fst inc) (fl_includes g)))
                                        | None => true
                                        end) (fl_includes f)) p.

(* the features whose outcome depends on WHERE a struct is first compiled (root of a request / response or nested) are off:
   thrift base fields (EnableThriftBase) and the api.body fast path; with them the Go descriptor of a struct reached both as a
   root and nested is whichever was compiled first — that sharing is covered by check 1409, not by the specification *)
(* well-scoped: every include-qualified name written in a file goes through an include of that file *)
Fixpoint names_ok (p : program) (f : ifile) (t : texpr) : bool :=
  match t with
  | TBase _ => true
  | TList e | TSet e => names_ok p f e
  | TMap k v => names_ok p f k && names_ok p f v
  | TNamed n => match fst (split_last_dot n) with [] => true | pkg => is_some (get_ref p f pkg) end
  end.
Definition scoped_file (p : program) (f : ifile) : bool :=
  forallb (fun td => names_ok p f (snd td)) (fl_typedefs f) &&
  forallb (fun s => forallb (fun fd => names_ok p f (f_type fd)) (s_fields s)) (fl_structs f) &&
  forallb (fun sv => forallb (fun fn => names_ok p f (fn_ret fn) && forallb (fun a => names_ok p f (f_type a)) (fn_args fn)
                                        && forallb (fun a => names_ok p f (f_type a)) (fn_throws fn)) (sv_funcs sv)) (fl_svcs f).
Definition well_scoped (p : program) : bool := forallb (scoped_file p) p.

Definition pdomain (p : program) (o : popts) : bool :=
  negb (o_base o) && negb (o_bodyfast o) && no_alias_clash p && well_scoped p.

(* ------------------------------------------------------------------ what a reference must denote *)

Definition tree_of (p : program) (fi : Z) (f : ifile) (pkg : name) : option (Z * ifile) :=
  match pkg with [] => Some (fi, f) | _ => get_ref p f pkg end.

Section Refine.
Variable p : program.
Variable o : popts.

(* r denotes type expression t read in tree fi for parse target [target], in descriptor graph [heap] *)
Inductive resolves (heap : list pnode) (target : Z) : Z -> ifile -> texpr -> pref -> Prop :=
| RBase fi f b : resolves heap target fi f (TBase b) (PBase (base_code b) (b =? 8))
| RList fi f e r : resolves heap target fi f e r -> resolves heap target fi f (TList e) (PList r)
| RSet fi f e r : resolves heap target fi f e r -> resolves heap target fi f (TSet e) (PSet r)
| RMap fi f k v rk rv : resolves heap target fi f k rk -> resolves heap target fi f v rv -> resolves heap target fi f (TMap k v) (PMap rk rv)
| RTypedef fi f n pkg tn ti tf t' r :
    split_last_dot n = (pkg, tn) -> tree_of p fi f pkg = Some (ti, tf) -> lookup tn (fl_typedefs tf) = Some t' ->
    resolves heap target ti tf t' r -> resolves heap target fi f (TNamed n) r
| REnum fi f n pkg tn ti tf vs :
    split_last_dot n = (pkg, tn) -> tree_of p fi f pkg = Some (ti, tf) -> lookup tn (fl_typedefs tf) = None ->
    lookup tn (fl_enums tf) = Some vs -> resolves heap target fi f (TNamed n) (PBase (if o_enum64 o then 10 else 8) false)
| RStruct fi f n pkg tn ti tf s a nd :
    split_last_dot n = (pkg, tn) -> tree_of p fi f pkg = Some (ti, tf) -> lookup tn (fl_typedefs tf) = None ->
    lookup tn (fl_enums tf) = None -> get_slike tf tn = Some s ->
    nth_error heap a = Some nd -> pn_file nd = ti -> pn_sname nd = tn -> pn_target nd = target -> pn_tname nd = n ->
    resolves heap target fi f (TNamed n) (PStruct a).

(* a finished struct descriptor is the image of the struct-like its label names *)
Definition field_ok (heap : list pnode) (target ti : Z) (tf : ifile) (kind : Z) (fd : ifield) (mr : fmeta * pref) : Prop :=
  fst mr = elab_meta_code true p o tf kind false fd (pref_code (snd mr)) /\ resolves heap target ti tf (f_type fd) (snd mr).

Definition pkeys_of (ms : list (fmeta * pref)) : list (name * Z) :=
  flat_map (fun md => reg_keys (o_mapway o) (m_id (fst md)) (m_name (fst md)) (m_alias (fst md))) ms.

Definition node_ok (heap : list pnode) (nd : pnode) : Prop :=
  exists tf s, get_file p (pn_file nd) = Some tf /\ get_slike tf (pn_sname nd) = Some s /\ pn_annos nd = struct_annos o tf s /\
               Forall2 (field_ok heap (pn_target nd) (pn_file nd) tf (s_kind s)) (kept_fields (pn_target nd) (s_fields s)) (pn_fields nd) /\
               pn_keys nd = pkeys_of (pn_fields nd).

(* the struct-like that key n denotes when read in tree fi (None: a typedef, an enum, or nothing) *)
Definition struct_of (fi : Z) (f : ifile) (n : name) : option (Z * name) :=
  let '(pkg, tn) := split_last_dot n in
  match tree_of p fi f pkg with
  | None => None
  | Some (ti, tf) =>
    match lookup tn (fl_typedefs tf), lookup tn (fl_enums tf), get_slike tf tn with
    | None, None, Some _ => Some (ti, tn)
    | _, _, _ => None
    end
  end.

(* a cache entry of the cache used with tree fi: it points to a descriptor compiled for the entry's target whose label is the
   struct-like the key denotes in that tree — or the key cannot be read in that tree at all (a qualified key registered in the
   fresh cache of the tree it leads to) *)
Definition entry_ok (heap : list pnode) (fi : Z) (e : centry) : Prop :=
  exists nd f, nth_error heap (ce_addr e) = Some nd /\ pn_target nd = ce_target e /\ pn_tname nd = ce_key e /\ get_file p fi = Some f /\
    (struct_of fi f (ce_key e) = Some (pn_file nd, pn_sname nd) \/
     (exists pkg tn, split_last_dot (ce_key e) = (pkg, tn) /\ pkg <> [] /\ get_ref p f pkg = None)).

Definition INV (st : pstate) : Prop :=
  (forall a nd, nth_error (ps_heap st) a = Some nd -> pn_done nd = true -> node_ok (ps_heap st) nd) /\
  (forall cid fi c, nth_error (ps_caches st) cid = Some (fi, c) -> Forall (entry_ok (ps_heap st) fi) c).

Definition same_label (a b : pnode) : Prop :=
  pn_file a = pn_file b /\ pn_sname a = pn_sname b /\ pn_target a = pn_target b /\ pn_tname a = pn_tname b /\ pn_annos a = pn_annos b.

(* the heap only grows, labels never change, finished descriptors are never touched, descriptors under construction stay so,
   everything new is finished; caches keep their tree *)
Definition ext (st st' : pstate) : Prop :=
  (length (ps_heap st) <= length (ps_heap st'))%nat /\
  (forall a nd, nth_error (ps_heap st) a = Some nd ->
     exists nd', nth_error (ps_heap st') a = Some nd' /\ same_label nd nd' /\ pn_done nd' = pn_done nd /\ (pn_done nd = true -> nd' = nd)) /\
  (forall a nd', nth_error (ps_heap st') a = Some nd' -> (length (ps_heap st) <= a)%nat -> pn_done nd' = true) /\
  (length (ps_caches st) <= length (ps_caches st'))%nat /\
  (forall cid fi c, nth_error (ps_caches st) cid = Some (fi, c) -> exists c', nth_error (ps_caches st') cid = Some (fi, c')).

Lemma ext_refl st : ext st st.
Proof.
  repeat split; try lia.
  - intros a nd H. exists nd. repeat split; auto.
  - intros a nd' H Hl. assert (nth_error (ps_heap st) a <> None) by congruence. apply nth_error_Some in H0. lia.
  - intros cid fi c H. exists c. exact H.
Qed.

Lemma ext_trans a b c : ext a b -> ext b c -> ext a c.
Proof.
  intros [A1 [A2 [A3 [A4 A5]]]] [B1 [B2 [B3 [B4 B5]]]]. repeat split; try lia.
  - intros x nd H. destruct (A2 x nd H) as [nd1 [H1 [L1 [D1 E1]]]]. destruct (B2 x nd1 H1) as [nd2 [H2 [L2 [D2 E2]]]].
    exists nd2. split; [exact H2|]. split.
    + destruct L1 as [? [? [? [? ?]]]], L2 as [? [? [? [? ?]]]]. repeat split; congruence.
    + split; [congruence|]. intros Hd. rewrite E2 by congruence. apply E1. exact Hd.
  - intros x nd' H Hl. destruct (Nat.le_gt_cases (length (ps_heap b)) x) as [Hx|Hx]; [apply (B3 x nd' H Hx)|].
    assert (Hs : nth_error (ps_heap b) x <> None) by (apply nth_error_Some; exact Hx).
    destruct (nth_error (ps_heap b) x) as [nb|] eqn:Eb; [|contradiction].
    destruct (B2 x nb Eb) as [nd2 [H2 [_ [D2 _]]]]. rewrite H in H2. inversion H2. subst. rewrite D2. apply (A3 x nb Eb Hl).
  - intros cid fi cc H. destruct (A5 _ _ _ H) as [c1 H1]. apply (B5 _ _ _ H1).
Qed.

Lemma resolves_ext heap heap' target fi f t r :
  (forall a nd, nth_error heap a = Some nd -> exists nd', nth_error heap' a = Some nd' /\ same_label nd nd') ->
  resolves heap target fi f t r -> resolves heap' target fi f t r.
Proof.
  intros Hl H. induction H; try (econstructor; eauto; fail).
  destruct (Hl _ _ H4) as [nd' [Hn [L1 [L2 [L3 [L4 L5]]]]]].
  eapply RStruct; eauto; congruence.
Qed.

Lemma ext_labels st st' : ext st st' ->
  forall a nd, nth_error (ps_heap st) a = Some nd -> exists nd', nth_error (ps_heap st') a = Some nd' /\ same_label nd nd'.
Proof. intros [_ [H _]] a nd Hn. destruct (H a nd Hn) as [nd' [H1 [H2 _]]]. exists nd'. auto. Qed.

Lemma fields_ok_ext heap heap' target ti tf kind l l' :
  (forall a x, nth_error heap a = Some x -> exists x', nth_error heap' a = Some x' /\ same_label x x') ->
  Forall2 (field_ok heap target ti tf kind) l l' -> Forall2 (field_ok heap' target ti tf kind) l l'.
Proof.
  intros Hl H. induction H as [|fd mr l l' [Hm Hr] _ IH]; constructor; [|exact IH]. split; [exact Hm|]. eapply resolves_ext; eauto.
Qed.

Lemma node_ok_ext heap heap' nd :
  (forall a x, nth_error heap a = Some x -> exists x', nth_error heap' a = Some x' /\ same_label x x') ->
  node_ok heap nd -> node_ok heap' nd.
Proof.
  intros Hl [tf [s [H1 [H2 [H3 [H4 H5]]]]]]. exists tf, s. repeat split; try assumption.
  eapply fields_ok_ext; eauto.
Qed.

Lemma entry_ok_ext heap heap' fi e :
  (forall a x, nth_error heap a = Some x -> exists x', nth_error heap' a = Some x' /\ same_label x x') ->
  entry_ok heap fi e -> entry_ok heap' fi e.
Proof.
  intros Hl [nd [f [H1 [H2 [H3 [H4 H5]]]]]]. destruct (Hl _ _ H1) as [nd' [Hn [L1 [L2 [L3 [L4 L5]]]]]].
  exists nd', f. split; [exact Hn|]. split; [congruence|]. split; [congruence|]. split; [exact H4|].
  destruct H5 as [H5|H5]; [left; rewrite <- L1, <- L2; exact H5|right; exact H5].
Qed.

(* ------------------------------------------------------------------ primitives of the state *)

Lemma nth_error_upd_list {A} n m (f : A -> A) l :
  nth_error (upd_list n f l) m = if (m =? n)%nat then option_map f (nth_error l m) else nth_error l m.
Proof.
  revert n m. induction l as [|y l IH]; intros [|n] [|m]; simpl; try reflexivity.
  - destruct (m =? n)%nat; reflexivity.
  - apply IH.
Qed.

Lemma upd_list_length {A} n (f : A -> A) l : length (upd_list n f l) = length l.
Proof. revert n. induction l as [|y l IH]; intros [|n]; simpl; try reflexivity. rewrite IH. reflexivity. Qed.

Definition cache_has (st : pstate) (cid : nat) (fi : Z) : Prop := exists c, nth_error (ps_caches st) cid = Some (fi, c).

Lemma cache_has_ext st st' cid fi : ext st st' -> cache_has st cid fi -> cache_has st' cid fi.
Proof. intros [_ [_ [_ [_ H]]]] [c Hc]. apply (H _ _ _ Hc). Qed.

Lemma same_label_refl nd : same_label nd nd.
Proof. repeat split. Qed.

Lemma labels_id heap : forall a (x : pnode), nth_error heap a = Some x -> exists x', nth_error heap a = Some x' /\ same_label x x'.
Proof. intros a x H. exists x. split; [exact H|apply same_label_refl]. Qed.

(* new_cache *)
Lemma new_cache_inv st ti : INV st -> INV (fst (new_cache st ti)).
Proof.
  intros [H1 H2]. unfold new_cache. simpl. split; [exact H1|].
  intros cid fi c Hn. simpl in Hn. destruct (Nat.lt_ge_cases cid (length (ps_caches st))) as [Hl|Hl].
  - rewrite nth_error_app1 in Hn by exact Hl. apply (H2 _ _ _ Hn).
  - rewrite nth_error_app2 in Hn by exact Hl. destruct (cid - length (ps_caches st))%nat as [|k]; simpl in Hn.
    + inversion Hn. constructor.
    + destruct k; discriminate.
Qed.

Lemma new_cache_ext st ti : ext st (fst (new_cache st ti)).
Proof.
  unfold new_cache. simpl. repeat split; simpl; try lia.
  - intros a nd H. exists nd. repeat split; auto.
  - intros a nd' H Hl. assert (nth_error (ps_heap st) a <> None) by congruence. apply nth_error_Some in H0. lia.
  - rewrite app_length. simpl. lia.
  - intros cid fi c H. exists c. rewrite nth_error_app1; [exact H|]. apply nth_error_Some. congruence.
Qed.

Lemma new_cache_has st ti : cache_has (fst (new_cache st ti)) (snd (new_cache st ti)) ti.
Proof. unfold new_cache, cache_has. simpl. exists []. rewrite nth_error_app2 by lia. rewrite Nat.sub_diag. reflexivity. Qed.

(* lookups *)
Lemma lookup_in {A} n (l : list (name * A)) v : lookup n l = Some v -> In (n, v) l.
Proof.
  induction l as [|[k x] l IH]; simpl; [discriminate|]. destruct (name_eqb n k) eqn:E.
  - intros H. inversion H. subst. apply key_eqb_eq in E. subst. left. reflexivity.
  - intros H. right. apply IH. exact H.
Qed.

Lemma get_file_in fi f : get_file p fi = Some f -> In f p.
Proof. unfold get_file. destruct (fi <? 0); [discriminate|]. apply nth_error_In. Qed.

Lemma get_ref_file f pkg i f' : get_ref p f pkg = Some (i, f') -> get_file p i = Some f' /\ lookup pkg (fl_includes f) = Some i.
Proof.
  unfold get_ref. destruct (lookup pkg (fl_includes f)) as [j|]; [|discriminate].
  destruct (get_file p j) eqn:E; [|discriminate]. intros H. inversion H. subst. auto.
Qed.

Lemma tree_of_file fi f pkg ti tf : get_file p fi = Some f -> tree_of p fi f pkg = Some (ti, tf) -> get_file p ti = Some tf.
Proof.
  intros Hf. unfold tree_of. destruct pkg; [intros H; inversion H; subst; exact Hf|].
  intros H. apply get_ref_file in H. apply H.
Qed.

Lemma find_struct_in k n l s : find_struct k n l = Some s -> In s l.
Proof.
  induction l as [|x l IH]; simpl; [discriminate|]. destruct ((s_kind x =? k) && name_eqb n (s_name x)).
  - intros H. inversion H. left. reflexivity.
  - intros H. right. apply IH. exact H.
Qed.

Lemma get_slike_in tf tn s : get_slike tf tn = Some s -> In s (fl_structs tf).
Proof.
  unfold get_slike. destruct (find_struct 1 tn (fl_structs tf)) eqn:E1; [intros H; inversion H; subst; eapply find_struct_in; eauto|].
  destruct (find_struct 0 tn (fl_structs tf)) eqn:E0; [intros H; inversion H; subst; eapply find_struct_in; eauto|].
  intros H. eapply find_struct_in; eauto.
Qed.

(* ------------------------------------------------------------------ the domain hypotheses *)

Hypothesis Hbase : o_base o = false.
Hypothesis Hfast : o_bodyfast o = false.
Hypothesis Hclash : no_alias_clash p = true.
Hypothesis Hscoped : well_scoped p = true.

Lemma mapped_group_root k root l : mapped_group k root false l = mapped_group k false false l.
Proof.
  unfold mapped_group. induction l as [|a l IH]; simpl; [reflexivity|]. rewrite IH. f_equal.
  destruct (name_eqb (a_key a) k); [|reflexivity]. destruct (name_eqb k n_go_tag); [reflexivity|]. rewrite andb_false_r. reflexivity.
Qed.

Lemma meta_root_irrelevant tf kind root fd c :
  elab_meta_code true p o tf kind root fd c = elab_meta_code true p o tf kind false fd c.
Proof.
  unfold elab_meta_code. rewrite Hbase, Hfast. simpl. unfold alias_of, key_candidates. rewrite !mapped_group_root. reflexivity.
Qed.

Lemma scoped_in f : In f p -> scoped_file p f = true.
Proof. intros H. unfold well_scoped in Hscoped. rewrite forallb_forall in Hscoped. apply Hscoped. exact H. Qed.

Lemma scoped_typedef f tn t' : In f p -> lookup tn (fl_typedefs f) = Some t' -> names_ok p f t' = true.
Proof.
  intros Hin Hl. pose proof (scoped_in f Hin) as H. unfold scoped_file in H.
  apply andb_true_iff in H. destruct H as [H _]. apply andb_true_iff in H. destruct H as [H _].
  rewrite forallb_forall in H. apply (H (tn, t')). apply lookup_in. exact Hl.
Qed.

Lemma scoped_field f s fd : In f p -> In s (fl_structs f) -> In fd (s_fields s) -> names_ok p f (f_type fd) = true.
Proof.
  intros Hin Hs Hfd. pose proof (scoped_in f Hin) as H. unfold scoped_file in H.
  apply andb_true_iff in H. destruct H as [H _]. apply andb_true_iff in H. destruct H as [_ H].
  rewrite forallb_forall in H. specialize (H s Hs). rewrite forallb_forall in H. apply H. exact Hfd.
Qed.

(* the key of an include-qualified name cannot be read in the tree it leads to *)
Lemma foreign_key_unreadable fi f pkg i f' :
  get_file p fi = Some f -> pkg <> [] -> get_ref p f pkg = Some (i, f') -> get_ref p f' pkg = None.
Proof.
  intros Hf Hne Hr. apply get_ref_file in Hr. destruct Hr as [Hg Hl].
  unfold no_alias_clash in Hclash. rewrite forallb_forall in Hclash. specialize (Hclash f (get_file_in _ _ Hf)).
  rewrite forallb_forall in Hclash. specialize (Hclash (pkg, i) (lookup_in _ _ _ Hl)). simpl in Hclash. rewrite Hg in Hclash.
  unfold get_ref. destruct (lookup pkg (fl_includes f')); [discriminate|reflexivity].
Qed.

(* ------------------------------------------------------------------ the field loop *)

Lemma pfields_spec (rec : pstate -> texpr -> option (pstate * pref)) ti tf kind root target tc key :
  In tf p ->
  (forall st t st' r, INV st -> cache_has st tc ti -> names_ok p tf t = true -> rec st t = Some (st', r) ->
                      INV st' /\ ext st st' /\ resolves (ps_heap st') target ti tf t r) ->
  forall fs st st' ms ks,
  (forall fd, In fd fs -> names_ok p tf (f_type fd) = true) ->
  INV st -> cache_has st tc ti -> pfields rec p o tf kind root target tc key st fs = Some (st', ms, ks) ->
  INV st' /\ ext st st' /\ Forall2 (field_ok (ps_heap st') target ti tf kind) (kept_fields target fs) ms /\ ks = pkeys_of ms.
Proof.
  intros Htf Hrec. induction fs as [|fd fs IH]; intros st st' ms ks Hn Hinv Hc; simpl.
  - intros H. inversion H. subst. split; [exact Hinv|]. split; [apply ext_refl|]. split; [constructor|reflexivity].
  - destruct (f_id fd <? 0); [discriminate|]. rewrite Hbase. simpl.
    unfold kept_fields. simpl. destruct (field_kept target fd) eqn:Ek.
    + destruct (rec st (f_type fd)) as [[st1 d]|] eqn:Er; [|discriminate].
      destruct (Hrec _ _ _ _ Hinv Hc (Hn fd (or_introl eq_refl)) Er) as [Hinv1 [Hext1 Hres1]].
      destruct (pfields rec p o tf kind root target tc key st1 fs) as [[[st2 ms'] ks']|] eqn:Ef; [|discriminate].
      intros H. inversion H. subst.
      destruct (IH st1 st' ms' ks' (fun fd' Hi => Hn fd' (or_intror Hi)) Hinv1 (cache_has_ext _ _ _ _ Hext1 Hc) Ef) as [Hinv2 [Hext2 [Hf2 Hk2]]].
      split; [exact Hinv2|]. split; [eapply ext_trans; eauto|]. split.
      * constructor; [|exact Hf2]. split; [simpl; apply meta_root_irrelevant|]. simpl.
        eapply resolves_ext; [apply (ext_labels _ _ Hext2)|exact Hres1].
      * simpl. rewrite Hk2. reflexivity.
    + intros H. apply IH; auto. intros fd' Hi. apply Hn. right. exact Hi.
Qed.

(* ------------------------------------------------------------------ compiling one struct-like: allocate, register, fields, finish *)

Definition finish (ms : list (fmeta * pref)) (ks : list (name * Z)) (nd : pnode) : pnode :=
  PNode (pn_file nd) (pn_target nd) (pn_tname nd) (pn_sname nd) ms ks (pn_annos nd) true.

Lemma Forall_filter {A} (P : A -> Prop) f l : Forall P l -> Forall P (filter f l).
Proof. induction 1; simpl; [constructor|]. destruct (f x); [constructor|]; assumption. Qed.

Lemma pstruct_spec (rec : pstate -> texpr -> option (pstate * pref)) ti tf tc n tn s target root st_a st3 ms ks :
  get_file p ti = Some tf -> get_slike tf tn = Some s ->
  (forall st t st' r, INV st -> cache_has st tc ti -> names_ok p tf t = true -> rec st t = Some (st', r) ->
                      INV st' /\ ext st st' /\ resolves (ps_heap st') target ti tf t r) ->
  INV st_a -> cache_has st_a tc ti ->
  (struct_of ti tf n = Some (ti, tn) \/ (exists pkg tn', split_last_dot n = (pkg, tn') /\ pkg <> [] /\ get_ref p tf pkg = None)) ->
  let a := length (ps_heap st_a) in
  let st1 := fst (alloc_node st_a (PNode ti target n tn [] [] (struct_annos o tf s) false)) in
  let st2 := set_cache st1 tc (fun c => cache_put c n target a) in
  pfields rec p o tf (s_kind s) root target tc n st2 (s_fields s) = Some (st3, ms, ks) ->
  let st4 := set_node st3 a (finish ms ks) in
  INV st4 /\ ext st_a st4 /\
  exists nd, nth_error (ps_heap st4) a = Some nd /\ pn_file nd = ti /\ pn_sname nd = tn /\ pn_target nd = target /\ pn_tname nd = n.
Proof.
  intros Hf Hs Hrec [Hh Hc] Hhas Hkey a st1 st2 Hpf st4.
  set (nd0 := PNode ti target n tn [] [] (struct_annos o tf s) false) in *.
  assert (Hheap2 : ps_heap st2 = ps_heap st_a ++ [nd0]) by reflexivity.
  assert (Hlab12 : forall x y, nth_error (ps_heap st_a) x = Some y -> exists y', nth_error (ps_heap st2) x = Some y' /\ same_label y y').
  { intros x y H. exists y. split; [|apply same_label_refl]. rewrite Hheap2. rewrite nth_error_app1; [exact H|]. apply nth_error_Some. congruence. }
  assert (Hnd0 : nth_error (ps_heap st2) a = Some nd0).
  { rewrite Hheap2. rewrite nth_error_app2 by (unfold a; lia). unfold a. rewrite Nat.sub_diag. reflexivity. }
  (* INV after allocation and registration *)
  assert (Hinv2 : INV st2).
  { split.
    - intros x y Hx Hd. rewrite Hheap2 in Hx. destruct (Nat.lt_ge_cases x (length (ps_heap st_a))) as [Hl|Hl].
      + rewrite nth_error_app1 in Hx by exact Hl. eapply node_ok_ext; [exact Hlab12|]. apply (Hh x y Hx Hd).
      + rewrite nth_error_app2 in Hx by exact Hl. destruct (x - length (ps_heap st_a))%nat as [|k]; simpl in Hx.
        * inversion Hx. subst. discriminate.
        * destruct k; discriminate.
    - intros cid fi c Hn. unfold st2, set_cache in Hn. simpl in Hn. rewrite nth_error_upd_list in Hn.
      destruct (cid =? tc)%nat eqn:Ec.
      + apply Nat.eqb_eq in Ec. subst cid. destruct Hhas as [c0 Hc0]. simpl in Hn. rewrite Hc0 in Hn. simpl in Hn. inversion Hn. subst.
        unfold cache_put. constructor.
        * exists nd0, tf. simpl. repeat split; assumption.
        * apply Forall_filter. eapply Forall_impl; [|apply (Hc _ _ _ Hc0)]. intros e He. eapply entry_ok_ext; [exact Hlab12|exact He].
      + eapply Forall_impl; [|apply (Hc _ _ _ Hn)]. intros e He. eapply entry_ok_ext; [exact Hlab12|exact He]. }
  assert (Hhas2 : cache_has st2 tc ti).
  { destruct Hhas as [c0 Hc0]. unfold cache_has, st2, set_cache. simpl. rewrite nth_error_upd_list, Nat.eqb_refl. simpl. rewrite Hc0. simpl. eexists. reflexivity. }
  pose proof (get_file_in _ _ Hf) as Htf.
  destruct (pfields_spec rec ti tf (s_kind s) root target tc n Htf Hrec (s_fields s) st2 st3 ms ks) as [Hinv3 [Hext3 [Hfo Hks]]]; auto.
  { intros fd Hfd. eapply scoped_field; eauto. eapply get_slike_in; eauto. }
  destruct Hext3 as [E1 [E2 [E3 [E4 E5]]]].
  destruct (E2 a nd0 Hnd0) as [nd3 [Hn3 [[L1 [L2 [L3 [L4 L5]]]] [Hd3 _]]]]. simpl in L1, L2, L3, L4, L5, Hd3.
  assert (Hheap4 : forall x, nth_error (ps_heap st4) x = if (x =? a)%nat then Some (finish ms ks nd3) else nth_error (ps_heap st3) x).
  { intros x. unfold st4, set_node. simpl. rewrite nth_error_upd_list. destruct (x =? a)%nat eqn:Ex; [|reflexivity].
    apply Nat.eqb_eq in Ex. subst x. rewrite Hn3. reflexivity. }
  assert (Hlab34 : forall x y, nth_error (ps_heap st3) x = Some y -> exists y', nth_error (ps_heap st4) x = Some y' /\ same_label y y').
  { intros x y H. rewrite Hheap4. destruct (x =? a)%nat eqn:Ex.
    - apply Nat.eqb_eq in Ex. subst x. rewrite Hn3 in H. inversion H. subst. eexists. split; [reflexivity|]. repeat split.
    - exists y. split; [exact H|apply same_label_refl]. }
  destruct Hinv3 as [Hh3 Hc3].
  split; [|split].
  - (* INV st4 *)
    split.
    + intros x y Hx Hd. rewrite Hheap4 in Hx. destruct (x =? a)%nat eqn:Ex.
      * inversion Hx. subst y. exists tf, s. simpl. rewrite <- L1, <- L2, <- L3, <- L5. simpl.
        repeat split; try assumption.
        eapply fields_ok_ext; [exact Hlab34|exact Hfo].
      * eapply node_ok_ext; [exact Hlab34|]. apply (Hh3 x y Hx Hd).
    + intros cid fi c Hn. unfold st4, set_node in Hn. simpl in Hn.
      eapply Forall_impl; [|apply (Hc3 _ _ _ Hn)]. intros e He. eapply entry_ok_ext; [exact Hlab34|exact He].
  - (* ext st_a st4 *)
    assert (Hlen4 : length (ps_heap st4) = length (ps_heap st3)) by (unfold st4, set_node; simpl; apply upd_list_length).
    assert (Hlen2 : length (ps_heap st2) = S (length (ps_heap st_a))) by (rewrite Hheap2, app_length; simpl; lia).
    repeat split.
    + lia.
    + intros x y Hx. assert (Hxl : (x < length (ps_heap st_a))%nat) by (apply nth_error_Some; congruence).
      assert (Hx2 : nth_error (ps_heap st2) x = Some y) by (rewrite Hheap2, nth_error_app1; assumption).
      destruct (E2 x y Hx2) as [y' [Hy' R]]. exists y'. split; [|exact R].
      rewrite Hheap4. assert ((x =? a)%nat = false) by (apply Nat.eqb_neq; unfold a; lia). rewrite H. exact Hy'.
    + intros x y' Hx Hl. rewrite Hheap4 in Hx. destruct (x =? a)%nat eqn:Ex; [inversion Hx; reflexivity|].
      apply Nat.eqb_neq in Ex. apply (E3 x y' Hx). unfold a in Ex. lia.
    + unfold st4, set_node. simpl. unfold st2, set_cache in E4. simpl in E4. rewrite upd_list_length in E4. exact E4.
    + intros cid fi c Hn. unfold st4, set_node. simpl.
      assert (exists c2, nth_error (ps_caches st2) cid = Some (fi, c2)).
      { unfold st2, set_cache. simpl. rewrite nth_error_upd_list. rewrite Hn. simpl. destruct (cid =? tc)%nat; eexists; reflexivity. }
      destruct H as [c2 H2]. apply (E5 _ _ _ H2).
  - exists (finish ms ks nd3). rewrite Hheap4, Nat.eqb_refl. split; [reflexivity|]. simpl. repeat split; congruence.
Qed.

(* ------------------------------------------------------------------ parseType *)

Lemma cache_find_key c k e : cache_find c k = Some e -> In e c /\ ce_key e = k.
Proof.
  induction c as [|x c IH]; simpl; [discriminate|]. destruct (name_eqb k (ce_key x)) eqn:E.
  - intros H. inversion H. subst. apply key_eqb_eq in E. auto.
  - intros H. destruct (IH H). auto.
Qed.

Lemma struct_of_resolves heap target fi f n a nd :
  struct_of fi f n = Some (pn_file nd, pn_sname nd) -> nth_error heap a = Some nd -> pn_target nd = target -> pn_tname nd = n ->
  resolves heap target fi f (TNamed n) (PStruct a).
Proof.
  unfold struct_of. destruct (split_last_dot n) as [pkg tn] eqn:Es. destruct (tree_of p fi f pkg) as [[ti tf]|] eqn:Et; [|discriminate].
  destruct (lookup tn (fl_typedefs tf)) eqn:E1; [discriminate|]. destruct (lookup tn (fl_enums tf)) eqn:E2; [discriminate|].
  destruct (get_slike tf tn) eqn:E3; [|discriminate]. intros H Hn Ht Hnm. inversion H. eapply RStruct; eauto.
Qed.

Lemma ptype_spec : forall fuel st fi f cid rdepth target t st' r,
  get_file p fi = Some f -> INV st -> cache_has st cid fi -> names_ok p f t = true ->
  ptype fuel p o st fi f cid rdepth target t = Some (st', r) ->
  INV st' /\ ext st st' /\ resolves (ps_heap st') target fi f t r.
Proof.
  induction fuel as [|fuel IH]; intros st fi f cid rdepth target t st' r Hf Hinv Hhas Hok; [discriminate|].
  destruct t as [b|e|e|k v|n]; cbn [ptype].
  - intros H. inversion H. subst. split; [exact Hinv|]. split; [apply ext_refl|constructor].
  - destruct (ptype fuel p o st fi f cid (rdepth + 1) target e) as [[st1 r1]|] eqn:E; [|discriminate].
    simpl in Hok. intros H. inversion H. subst. destruct (IH _ _ _ _ _ _ _ _ _ Hf Hinv Hhas Hok E) as [A [B C]]. split; [exact A|]. split; [exact B|constructor; exact C].
  - destruct (ptype fuel p o st fi f cid (rdepth + 1) target e) as [[st1 r1]|] eqn:E; [|discriminate].
    simpl in Hok. intros H. inversion H. subst. destruct (IH _ _ _ _ _ _ _ _ _ Hf Hinv Hhas Hok E) as [A [B C]]. split; [exact A|]. split; [exact B|constructor; exact C].
  - simpl in Hok. apply andb_true_iff in Hok. destruct Hok as [Hk Hv].
    destruct (ptype fuel p o st fi f cid (rdepth + 1) target k) as [[st1 rk]|] eqn:E1; [|discriminate].
    destruct (IH _ _ _ _ _ _ _ _ _ Hf Hinv Hhas Hk E1) as [A1 [B1 C1]].
    destruct (ptype fuel p o st1 fi f cid (rdepth + 1) target v) as [[st2 rv]|] eqn:E2; [|discriminate].
    destruct (IH _ _ _ _ _ _ _ _ _ Hf A1 (cache_has_ext _ _ _ _ B1 Hhas) Hv E2) as [A2 [B2 C2]].
    intros H. inversion H. subst. split; [exact A2|]. split; [eapply ext_trans; eauto|].
    constructor; [|exact C2]. eapply resolves_ext; [apply (ext_labels _ _ B2)|exact C1].
  - (* named type *)
    destruct (match cache_find (get_cache st cid) n with
              | Some e => if ce_target e =? target then Some (ce_addr e) else None
              | None => None
              end) as [a|] eqn:Eh.
    + (* cache hit *)
      destruct (cache_find (get_cache st cid) n) as [e|] eqn:Ecf; [|discriminate].
      destruct (ce_target e =? target) eqn:Et; [|discriminate]. inversion Eh. subst a.
      intros H. inversion H. subst. split; [exact Hinv|]. split; [apply ext_refl|].
      destruct Hhas as [c Hc]. destruct Hinv as [_ Hci]. specialize (Hci _ _ _ Hc).
      unfold get_cache in Ecf. erewrite nth_error_nth in Ecf by exact Hc. simpl in Ecf.
      destruct (cache_find_key _ _ _ Ecf) as [Hin Hkey]. rewrite Forall_forall in Hci. destruct (Hci e Hin) as [nd [f0 [H1 [H2 [H3 [H4 H5]]]]]].
      rewrite Hf in H4. inversion H4. subst f0. apply Z.eqb_eq in Et.
      destruct H5 as [H5|[pkg [tn [Hs [Hne Hr]]]]].
      * eapply struct_of_resolves; eauto; congruence.
      * exfalso. simpl in Hok. rewrite <- Hkey, Hs in Hok. simpl in Hok. destruct pkg; [contradiction|]. rewrite Hr in Hok. discriminate.
    + (* cache miss *)
      clear Eh. destruct (split_last_dot n) as [pkg tn] eqn:Es.
      assert (Htree : forall X,
                match pkg with
                | [] => Some (st, fi, f, cid)
                | _ :: _ => match get_ref p f pkg with
                            | Some (i, f') => let '(st', c') := new_cache st i in Some (st', i, f', c')
                            | None => None
                            end
                end = Some X ->
                let '(st_a, ti, tf, tc) := X in
                INV st_a /\ ext st st_a /\ cache_has st_a tc ti /\ get_file p ti = Some tf /\ tree_of p fi f pkg = Some (ti, tf) /\
                (pkg = [] \/ (pkg <> [] /\ get_ref p tf pkg = None))).
      { intros [[[st_a ti] tf] tc]. destruct pkg as [|c0 pkg0].
        - intros H. inversion H. subst. split; [exact Hinv|]. split; [apply ext_refl|]. split; [exact Hhas|]. split; [exact Hf|]. split; [reflexivity|left; reflexivity].
        - destruct (get_ref p f (c0 :: pkg0)) as [[i f']|] eqn:Er; [|discriminate].
          intros H. unfold new_cache in H. inversion H. subst.
          split; [apply (new_cache_inv st ti Hinv)|]. split; [apply (new_cache_ext st ti)|]. split; [apply (new_cache_has st ti)|].
          split; [apply (get_ref_file _ _ _ _ Er)|]. split; [exact Er|]. right. split; [discriminate|].
          eapply foreign_key_unreadable; eauto. discriminate. }
      match goal with |- match ?T with _ => _ end = _ -> _ => destruct T as [[[[st_a ti] tf] tc]|] eqn:Etr; [|discriminate] end.
      specialize (Htree _ eq_refl). simpl in Htree. destruct Htree as [Ha [Hea [Hca [Hfa [Hto Hkc]]]]].
      pose proof (get_file_in _ _ Hfa) as Hin.
      destruct (lookup tn (fl_typedefs tf)) as [t'|] eqn:Etd.
      * intros H. destruct (IH _ _ _ _ _ _ _ _ _ Hfa Ha Hca (scoped_typedef _ _ _ Hin Etd) H) as [A [B C]].
        split; [exact A|]. split; [eapply ext_trans; eauto|]. eapply RTypedef; eauto.
      * destruct (lookup tn (fl_enums tf)) as [vs|] eqn:Een.
        -- intros H. inversion H. subst. split; [exact Ha|]. split; [exact Hea|]. eapply REnum; eauto.
        -- destruct (get_slike tf tn) as [s|] eqn:Esl; [|discriminate].
           unfold alloc_node.
           destruct (pfields (fun st' t' => ptype fuel p o st' ti tf tc (rdepth + 1) target t') p o tf (s_kind s) (rdepth =? 0) target tc n _ (s_fields s))
             as [[[st3 ms] ks]|] eqn:Epf; [|discriminate].
           intros H. inversion H. subst st' r. clear H.
           assert (Hkey : struct_of ti tf n = Some (ti, tn) \/
                          (exists pkg0 tn0, split_last_dot n = (pkg0, tn0) /\ pkg0 <> [] /\ get_ref p tf pkg0 = None)).
           { destruct Hkc as [Hk|[Hk1 Hk2]].
             - left. subst pkg. simpl in Hto. inversion Hto. subst. unfold struct_of. rewrite Es. simpl. rewrite Etd, Een, Esl. reflexivity.
             - right. exists pkg, tn. auto. }
           destruct (pstruct_spec (fun st' t' => ptype fuel p o st' ti tf tc (rdepth + 1) target t') ti tf tc n tn s target (rdepth =? 0) st_a st3 ms ks Hfa Esl) as [A [B [nd [N1 [N2 [N3 [N4 N5]]]]]]]; auto.
           { intros st0 t0 st0' r0 I0 C0 K0 R0. apply (IH _ _ _ _ _ _ _ _ _ Hfa I0 C0 K0 R0). }
           split; [exact A|]. split; [eapply ext_trans; eauto|]. eapply RStruct; eauto.
Qed.

(* ------------------------------------------------------------------ reading the finished graph back: unroll = elab *)

Lemma unroll_list heap sd e : unroll heap sd (PList e) = DList (unroll heap sd e).
Proof. destruct sd; reflexivity. Qed.
Lemma unroll_set heap sd e : unroll heap sd (PSet e) = DSet (unroll heap sd e).
Proof. destruct sd; reflexivity. Qed.
Lemma unroll_map heap sd k v : unroll heap sd (PMap k v) = DMap (unroll heap sd k) (unroll heap sd v).
Proof. destruct sd; reflexivity. Qed.
Lemma unroll_base heap sd c b : unroll heap sd (PBase c b) = DBase c b.
Proof. destruct sd; reflexivity. Qed.
Lemma unroll_struct_0 heap a : unroll heap 0 (PStruct a) = DCut.
Proof. reflexivity. Qed.
Lemma unroll_struct_S heap sd a nd : nth_error heap a = Some nd ->
  unroll heap (S sd) (PStruct a) = DStruct (pn_tname nd) (pn_sname nd) (map (fun mf => (fst mf, unroll heap sd (snd mf))) (pn_fields nd)) (pn_keys nd) (pn_annos nd).
Proof. intros H. simpl. rewrite H. reflexivity. Qed.

Lemma desc_code_unroll heap sd r : desc_code (unroll heap sd r) = pref_code r.
Proof.
  destruct r; try (destruct sd; reflexivity).
  destruct sd; [reflexivity|]. simpl. destruct (nth_error heap a); reflexivity.
Qed.

Lemma tree_of_elab fi f pkg ti tf : tree_of p fi f pkg = Some (ti, tf) ->
  match pkg with [] => Some f | _ => option_map snd (get_ref p f pkg) end = Some tf.
Proof. unfold tree_of. destruct pkg; [intros H; inversion H; reflexivity|]. intros H. rewrite H. reflexivity. Qed.

Lemma pkeys_cons mr l : pkeys_of (mr :: l) = reg_keys (o_mapway o) (m_id (fst mr)) (m_name (fst mr)) (m_alias (fst mr)) ++ pkeys_of l.
Proof. reflexivity. Qed.

(* the fields of a finished node against elab_fields *)
Lemma fields_unroll heap sd target ti tf kind root (rec : texpr -> option tdesc) :
  (forall fd r d, resolves heap target ti tf (f_type fd) r -> rec (f_type fd) = Some d -> unroll heap sd r = d) ->
  forall fs pfs ms ks,
  Forall2 (field_ok heap target ti tf kind) (kept_fields target fs) pfs ->
  elab_fields rec true p o tf kind root target fs = Some (ms, ks) ->
  map (fun mf => (fst mf, unroll heap sd (snd mf))) pfs = ms /\ pkeys_of pfs = ks.
Proof.
  intros Hrec. induction fs as [|fd fs IH]; intros pfs ms ks Hf; simpl.
  - intros H. inversion H. subst. inversion Hf. subst. split; reflexivity.
  - destruct (f_id fd <? 0); [discriminate|]. unfold kept_fields in Hf. simpl in Hf. destruct (field_kept target fd) eqn:Ek.
    + inversion Hf as [|x mr l l' [Hm Hr] Hrest]. subst.
      destruct (rec (f_type fd)) as [d|] eqn:Er; [|discriminate].
      destruct (elab_fields rec true p o tf kind root target fs) as [[ms' ks']|] eqn:Ef; [|discriminate].
      intros H. inversion H. subst. destruct (IH l' ms' ks' Hrest eq_refl) as [I1 I2].
      pose proof (Hrec fd (snd mr) d Hr Er) as Hu.
      assert (Hmeta : fst mr = elab_meta true p o tf kind root fd d).
      { unfold elab_meta. rewrite meta_root_irrelevant. rewrite Hm. rewrite <- Hu. rewrite desc_code_unroll. reflexivity. }
      split.
      * simpl. rewrite I1, Hu, Hmeta. reflexivity.
      * rewrite pkeys_cons, I2, Hmeta. reflexivity.
    + intros H. apply IH; assumption.
Qed.

Section Closed.
Variable heap : list pnode.
Hypothesis Hclosed : forall a nd, nth_error heap a = Some nd -> node_ok heap nd.

Lemma unroll_elab : forall fuel sd fi f rdepth target t r e,
  get_file p fi = Some f -> resolves heap target fi f t r ->
  elab_type true fuel p o f sd rdepth target t = Some e -> unroll heap sd r = e.
Proof.
  induction fuel as [|fuel IH]; intros sd fi f rdepth target t r e Hf Hr; [discriminate|].
  destruct t as [b|t1|t1|k v|n]; cbn [elab_type]; inversion Hr; subst.
  - intros H. inversion H. apply unroll_base.
  - destruct (elab_type true fuel p o f sd (rdepth + 1) target t1) eqn:E; [|discriminate]. intros H. inversion H.
    rewrite unroll_list. f_equal. eapply IH; eauto.
  - destruct (elab_type true fuel p o f sd (rdepth + 1) target t1) eqn:E; [|discriminate]. intros H. inversion H.
    rewrite unroll_set. f_equal. eapply IH; eauto.
  - destruct (elab_type true fuel p o f sd (rdepth + 1) target k) eqn:E1; [|discriminate].
    destruct (elab_type true fuel p o f sd (rdepth + 1) target v) eqn:E2; [|discriminate]. intros H. inversion H.
    rewrite unroll_map. f_equal; eapply IH; eauto.
  - (* typedef *)
    match goal with Hs : split_last_dot _ = _, Ht : tree_of p fi f _ = Some _, Hl : lookup _ (fl_typedefs _) = Some _, Hres : resolves _ _ _ _ _ r |- _ =>
      rewrite Hs, (tree_of_elab _ _ _ _ _ Ht), Hl; intros H; eapply IH; [eapply tree_of_file; eauto|exact Hres|exact H] end.
  - (* enum *)
    match goal with Hs : split_last_dot _ = _, Ht : tree_of p fi f _ = Some _, Hl : lookup _ (fl_typedefs _) = None, He : lookup _ (fl_enums _) = Some _ |- _ =>
      rewrite Hs, (tree_of_elab _ _ _ _ _ Ht), Hl, He; intros H; inversion H; apply unroll_base end.
  - (* struct-like *)
    match goal with Hs : split_last_dot _ = _, Ht : tree_of p fi f _ = Some (?ti, ?tf), Hl : lookup _ (fl_typedefs _) = None, He : lookup _ (fl_enums _) = None,
                    Hg : get_slike _ _ = Some ?s, Hn : nth_error heap _ = Some ?nd |- _ =>
      rewrite Hs, (tree_of_elab _ _ _ _ _ Ht), Hl, He, Hg; pose proof (tree_of_file _ _ _ _ _ Hf Ht) as Htf;
      rename Hn into Hnd; rename Hg into Hsl end.
    destruct sd as [|sd]; [intros H; inversion H; reflexivity|].
    destruct (elab_fields _ true p o tf (s_kind s) (rdepth =? 0) (pn_target nd) (s_fields s)) as [[ms ks]|] eqn:Ef; [|discriminate].
    intros H. inversion H. subst e. rewrite (unroll_struct_S _ _ _ _ Hnd).
    destruct (Hclosed _ _ Hnd) as [tf0 [s0 [G1 [G2 [G3 [G4 G5]]]]]].
    rewrite Htf in G1. inversion G1. subst tf0. rewrite Hsl in G2. inversion G2. subst s0.
    destruct (fields_unroll heap sd (pn_target nd) (pn_file nd) tf (s_kind s) (rdepth =? 0)
                (elab_type true fuel p o tf sd (rdepth + 1) (pn_target nd))) with (fs := s_fields s) (pfs := pn_fields nd) (ms := ms) (ks := ks) as [F1 F2]; auto.
    { intros fd r0 d Hres Hel. eapply IH; eauto. }
    rewrite F1, G5, F2, G3. reflexivity.
Qed.
End Closed.

(* ------------------------------------------------------------------ functions *)

Definition alldone (st : pstate) : Prop := forall a nd, nth_error (ps_heap st) a = Some nd -> pn_done nd = true.

Lemma ext_alldone st st' : ext st st' -> alldone st -> alldone st'.
Proof.
  intros [E1 [E2 [E3 _]]] Hd a nd' Hn. destruct (Nat.lt_ge_cases a (length (ps_heap st))) as [Hl|Hl]; [|apply (E3 a nd' Hn Hl)].
  assert (Hs : nth_error (ps_heap st) a <> None) by (apply nth_error_Some; exact Hl).
  destruct (nth_error (ps_heap st) a) as [nd|] eqn:En; [|contradiction].
  destruct (E2 a nd En) as [nd2 [H2 [_ [D2 _]]]]. rewrite Hn in H2. inversion H2. subst. rewrite D2. apply (Hd a nd En).
Qed.

Lemma has_base_false st r : INV st -> alldone st -> node_has_request_base st r = false.
Proof.
  intros [Hh _] Hd. destruct r; try reflexivity. simpl. destruct (nth_error (ps_heap st) a) as [nd|] eqn:En; [|reflexivity].
  destruct (Hh a nd En (Hd a nd En)) as [tf [s [_ [_ [_ [Hf _]]]]]].
  induction Hf as [|fd mr l l' [Hm _] _ IH]; [reflexivity|]. simpl. rewrite IH, orb_false_r. rewrite Hm.
  unfold elab_meta_code. simpl. rewrite Hbase. reflexivity.
Qed.

Definition fn_scoped (f : ifile) (fn : ifunc) : Prop :=
  names_ok p f (fn_ret fn) = true /\ (forall a, In a (fn_args fn) -> names_ok p f (f_type a) = true) /\
  (forall a, In a (fn_throws fn) -> names_ok p f (f_type a) = true).

Definition req_res (heap : list pnode) (fi : Z) (f : ifile) (fn : ifunc) (q : option pwrap) : Prop :=
  if o_fnmode o =? 2 then q = None
  else exists a rest r, fn_args fn = a :: rest /\ resolves heap 0 fi f (f_type a) r /\
                        q = Some (PWrap [(empty_meta (f_id a) (f_name a) [], r)] [(f_name a, f_id a)]).

Definition resp_res (heap : list pnode) (fi : Z) (f : ifile) (fn : ifunc) (w : option pwrap) : Prop :=
  if o_fnmode o =? 1 then w = None
  else exists r, resolves heap 1 fi f (fn_ret fn) r /\
       match fn_throws fn with
       | [] => w = Some (PWrap [(empty_meta 0 [] [], r)] [([], 0)])
       | e :: _ => exists re, resolves heap 2 fi f (f_type e) re /\
                   w = Some (PWrap [(empty_meta 0 [] [], r); (empty_meta (f_id e) (f_name e) (f_name e), re)] [([], 0); (f_name e, f_id e)])
       end.

Definition func_res (heap : list pnode) (x : Z * ifile * ifunc) (pf : pfunc) : Prop :=
  let '(fi, f, fn) := x in
  pf_name pf = fn_name fn /\ pf_oneway pf = fn_oneway fn /\ pf_hasbase pf = false /\ fn_args fn <> [] /\
  req_res heap fi f fn (pf_req pf) /\ resp_res heap fi f fn (pf_resp pf).

Lemma func_res_ext heap heap' x pf :
  (forall a nd, nth_error heap a = Some nd -> exists nd', nth_error heap' a = Some nd' /\ same_label nd nd') ->
  func_res heap x pf -> func_res heap' x pf.
Proof.
  intros Hl. destruct x as [[fi f] fn]. intros [A [B [C [D [E F]]]]]. repeat split; try assumption.
  - unfold req_res in *. destruct (o_fnmode o =? 2); [exact E|]. destruct E as [a [rest [r [E1 [E2 E3]]]]].
    exists a, rest, r. repeat split; try assumption. eapply resolves_ext; eauto.
  - unfold resp_res in *. destruct (o_fnmode o =? 1); [exact F|]. destruct F as [r [F1 F2]]. exists r. split; [eapply resolves_ext; eauto|].
    destruct (fn_throws fn); [exact F2|]. destruct F2 as [re [F3 F4]]. exists re. split; [eapply resolves_ext; eauto|exact F4].
Qed.

Lemma pfunction_spec st fi f cid names fn st' pf :
  get_file p fi = Some f -> fn_scoped f fn -> INV st -> alldone st -> cache_has st cid fi ->
  pfunction p o st fi f cid names fn = Some (st', pf) ->
  INV st' /\ ext st st' /\ alldone st' /\ func_res (ps_heap st') (fi, f, fn) pf.
Proof.
  intros Hf [Sr [Sa St]] Hinv Hd Hhas. unfold pfunction. destruct (existsb (name_eqb (fn_name fn)) names); [discriminate|].
  destruct (fn_args fn) as [|a rest] eqn:Eargs; [discriminate|].
  (* request *)
  assert (Hreq : forall X, (if o_fnmode o =? 2 then Some (st, None, false)
                            else match prequest p o st fi f cid fn with Some (st1, w, b) => Some (st1, Some w, b) | None => None end) = Some X ->
                 let '(st1, q, hb) := X in INV st1 /\ ext st st1 /\ alldone st1 /\ hb = false /\ req_res (ps_heap st1) fi f fn q).
  { intros [[st1 q] hb]. unfold req_res. destruct (o_fnmode o =? 2).
    - intros H. inversion H. subst. split; [exact Hinv|]. split; [apply ext_refl|]. split; [exact Hd|]. split; reflexivity.
    - unfold prequest. rewrite Eargs.
      destruct (ptype parse_fuel p o st fi f cid 0 0 (f_type a)) as [[st2 r]|] eqn:Ep; [|discriminate].
      intros H. inversion H. subst.
      destruct (ptype_spec _ _ _ _ _ _ _ _ _ _ Hf Hinv Hhas (Sa a (or_introl eq_refl)) Ep) as [A [B C]].
      pose proof (ext_alldone _ _ B Hd) as D.
      split; [exact A|]. split; [exact B|]. split; [exact D|]. split; [apply has_base_false; assumption|].
      exists a, rest, r. split; [reflexivity|]. split; [exact C|reflexivity]. }
  match goal with |- match ?T with _ => _ end = _ -> _ => destruct T as [[[st1 q] hb]|] eqn:Erq; [|discriminate] end.
  specialize (Hreq _ eq_refl). simpl in Hreq. destruct Hreq as [A1 [B1 [D1 [Hhb Q1]]]].
  assert (Hresp : forall X, (if o_fnmode o =? 1 then Some (st1, None)
                             else match presponse p o st1 fi f cid fn with Some (st2, w) => Some (st2, Some w) | None => None end) = Some X ->
                 let '(st2, w) := X in INV st2 /\ ext st1 st2 /\ alldone st2 /\ resp_res (ps_heap st2) fi f fn w).
  { intros [st2 w]. unfold resp_res. destruct (o_fnmode o =? 1).
    - intros H. inversion H. subst. split; [exact A1|]. split; [apply ext_refl|]. split; [exact D1|reflexivity].
    - unfold presponse.
      destruct (ptype parse_fuel p o st1 fi f cid 0 1 (fn_ret fn)) as [[st3 r]|] eqn:Ep; [|discriminate].
      destruct (ptype_spec _ _ _ _ _ _ _ _ _ _ Hf A1 (cache_has_ext _ _ _ _ B1 Hhas) Sr Ep) as [A [B C]].
      destruct (fn_throws fn) as [|e thr] eqn:Ethr.
      + intros H. inversion H. subst. split; [exact A|]. split; [exact B|]. split; [exact (ext_alldone _ _ B D1)|]. exists r. split; [exact C|reflexivity].
      + destruct (ptype parse_fuel p o st3 fi f cid 0 2 (f_type e)) as [[st4 re]|] eqn:Ep2; [|discriminate].
        intros H. inversion H. subst.
        destruct (ptype_spec _ _ _ _ _ _ _ _ _ _ Hf A (cache_has_ext _ _ _ _ B (cache_has_ext _ _ _ _ B1 Hhas)) (St e (or_introl eq_refl)) Ep2) as [A2 [B2 C2]].
        split; [exact A2|]. split; [exact (ext_trans _ _ _ B B2)|]. split; [exact (ext_alldone _ _ (ext_trans _ _ _ B B2) D1)|].
        exists r. split; [eapply resolves_ext; [apply (ext_labels _ _ B2)|exact C]|]. exists re. split; [exact C2|reflexivity]. }
  match goal with |- match ?T with _ => _ end = _ -> _ => destruct T as [[st2 w]|] eqn:Ers; [|discriminate] end.
  specialize (Hresp _ eq_refl). simpl in Hresp. destruct Hresp as [A2 [B2 [D2 R2]]].
  intros H. inversion H. subst. split; [exact A2|]. split; [eapply ext_trans; eauto|]. split; [exact D2|].
  simpl. rewrite Eargs. repeat split; try assumption; try discriminate.
  unfold req_res in *. destruct (o_fnmode o =? 2); [exact Q1|]. destruct Q1 as [a0 [rest0 [r0 [Q2 [Q3 Q4]]]]].
  exists a0, rest0, r0. repeat split; try assumption. eapply resolves_ext; [apply (ext_labels _ _ B2)|exact Q3].
Qed.

Lemma existsb_map_fst {A B C} (g : A -> bool) (h : B -> C) (l : list (A * B)) :
  existsb (fun x => g (fst x)) (map (fun mf => (fst mf, h (snd mf))) l) = existsb (fun x => g (fst x)) l.
Proof. induction l as [|x l IH]; simpl; [reflexivity|]. rewrite IH. reflexivity. Qed.

Lemma func_unroll heap sd fi f fn pf d :
  (forall a nd, nth_error heap a = Some nd -> node_ok heap nd) ->
  get_file p fi = Some f -> func_res heap (fi, f, fn) pf -> elab_func true 64 p o f sd fn = Some d -> unroll_func heap sd pf = d.
Proof.
  intros Hcl Hf [A [B [C [D [E F]]]]]. unfold elab_func, unroll_func.
  (* request side *)
  assert (Hq : forall X, (if o_fnmode o =? 2 then Some None
                          else match elab_request true 64 p o f sd fn with Some (d0, b) => Some (Some (d0, b)) | None => None end) = Some X ->
               option_map (unroll_wrap heap sd) (pf_req pf) = option_map fst X /\ match X with Some (_, b) => b | None => false end = false).
  { intros X. unfold req_res in E. destruct (o_fnmode o =? 2).
    - intros H. inversion H. subst. rewrite E. split; reflexivity.
    - destruct E as [a [rest [r [E1 [E2 E3]]]]]. unfold elab_request. rewrite E1.
      destruct (elab_type true 64 p o f sd 0 0 (f_type a)) as [d0|] eqn:Ee; [|discriminate].
      intros H. inversion H. subst. rewrite E3. simpl. unfold unroll_wrap. simpl.
      rewrite (unroll_elab heap Hcl _ _ _ _ _ _ _ _ _ Hf E2 Ee). split; [reflexivity|].
      (* no request base: EnableThriftBase is off *)
      pose proof (unroll_elab heap Hcl _ _ _ _ _ _ _ _ _ Hf E2 Ee) as Hu. subst d0.
      destruct r; try (destruct sd; reflexivity). destruct sd; [reflexivity|]. simpl.
      destruct (nth_error heap a0) as [nd|] eqn:En; [|reflexivity]. simpl.
      destruct (Hcl _ _ En) as [tf [s [_ [_ [_ [Hfo _]]]]]]. rewrite existsb_map_fst.
      induction Hfo as [|fd mr l l' [Hm _] _ IH]; [reflexivity|]. simpl. rewrite IH, orb_false_r. rewrite Hm.
      unfold elab_meta_code. simpl. rewrite Hbase. reflexivity. }
  assert (Hs : forall Y, (if o_fnmode o =? 1 then Some None
                          else match elab_response true 64 p o f sd fn with Some d0 => Some (Some d0) | None => None end) = Some Y ->
               option_map (unroll_wrap heap sd) (pf_resp pf) = Y).
  { intros Y. unfold resp_res in F. destruct (o_fnmode o =? 1).
    - intros H. inversion H. rewrite F. reflexivity.
    - destruct F as [r [F1 F2]]. unfold elab_response.
      destruct (elab_type true 64 p o f sd 0 1 (fn_ret fn)) as [d0|] eqn:Ee; [|discriminate].
      pose proof (unroll_elab heap Hcl _ _ _ _ _ _ _ _ _ Hf F1 Ee) as Hu.
      destruct (fn_throws fn) as [|e thr].
      + intros H. inversion H. rewrite F2. simpl. unfold unroll_wrap. simpl. rewrite Hu. reflexivity.
      + destruct F2 as [re [F3 F4]]. destruct (elab_type true 64 p o f sd 0 2 (f_type e)) as [de|] eqn:Ee2; [|discriminate].
        intros H. inversion H. rewrite F4. simpl. unfold unroll_wrap. simpl. rewrite Hu.
        rewrite (unroll_elab heap Hcl _ _ _ _ _ _ _ _ _ Hf F3 Ee2). reflexivity. }
  destruct (if o_fnmode o =? 2 then Some None else _) as [X|] eqn:EX.
  - destruct (if o_fnmode o =? 1 then Some None else _) as [Y|] eqn:EY.
    + destruct (fn_args fn) eqn:Ea; [contradiction|]. intros H. inversion H.
      destruct (Hq X eq_refl) as [Q1 Q2]. rewrite (Hs Y eq_refl), Q1, Q2, A, B, C. reflexivity.
    + destruct (fn_args fn); discriminate.
  - destruct (fn_args fn); discriminate.
Qed.

(* ------------------------------------------------------------------ the function list *)

Definition tc_ok (st : pstate) (tc : list (Z * nat)) : Prop := forall fi c, assocZ fi tc = Some c -> cache_has st c fi.

Definition item_ok (x : Z * ifile * ifunc) : Prop := let '(fi, f, fn) := x in get_file p fi = Some f /\ fn_scoped f fn.

Lemma pfunctions_spec : forall l st tc names stF pfs,
  Forall item_ok l -> INV st -> alldone st -> tc_ok st tc ->
  pfunctions p o st tc names l = Some (stF, pfs) ->
  INV stF /\ ext st stF /\ alldone stF /\ Forall2 (func_res (ps_heap stF)) l pfs.
Proof.
  induction l as [|[[fi f] fn] l IH]; intros st tc names stF pfs Hl Hinv Hd Htc; simpl.
  - intros H. inversion H. subst. split; [exact Hinv|]. split; [apply ext_refl|]. split; [exact Hd|constructor].
  - inversion Hl as [|x l0 Hx Hl']. subst. simpl in Hx. destruct Hx as [Hf Hsc].
    assert (Htcache : forall X, tree_cache st tc fi = X -> let '(st1, tc1, cid) := X in
                      INV st1 /\ ext st st1 /\ alldone st1 /\ tc_ok st1 tc1 /\ cache_has st1 cid fi).
    { intros [[st1 tc1] cid]. unfold tree_cache. destruct (assocZ fi tc) as [c|] eqn:Ea.
      - intros H. inversion H. subst. split; [exact Hinv|]. split; [apply ext_refl|]. split; [exact Hd|]. split; [exact Htc|apply Htc; exact Ea].
      - unfold new_cache. intros H. inversion H. subst.
        pose proof (new_cache_ext st fi) as He. unfold new_cache in He. simpl in He.
        split; [apply (new_cache_inv st fi Hinv)|]. split; [exact He|]. split; [exact (ext_alldone _ _ He Hd)|]. split.
        + intros fi' c'. simpl. destruct (fi' =? fi) eqn:E.
          * apply Z.eqb_eq in E. subst. intros H1. inversion H1. apply (new_cache_has st fi).
          * intros H1. eapply cache_has_ext; [exact He|]. apply Htc. exact H1.
        + apply (new_cache_has st fi). }
    destruct (tree_cache st tc fi) as [[st1 tc1] cid] eqn:Etc. specialize (Htcache _ eq_refl). simpl in Htcache.
    destruct Htcache as [A1 [B1 [D1 [T1 C1]]]].
    destruct (pfunction p o st1 fi f cid names fn) as [[st2 pf]|] eqn:Epf; [|discriminate].
    destruct (pfunction_spec _ _ _ _ _ _ _ _ Hf Hsc A1 D1 C1 Epf) as [A2 [B2 [D2 R2]]].
    destruct (pfunctions p o st2 tc1 (fn_name fn :: names) l) as [[st3 pfs']|] eqn:Er; [|discriminate].
    intros H. inversion H. subst.
    destruct (IH st2 tc1 (fn_name fn :: names) stF pfs' Hl' A2 D2) as [A3 [B3 [D3 R3]]]; [|exact Er|].
    { intros fi' c' Hc'. eapply cache_has_ext; [exact B2|]. apply T1. exact Hc'. }
    split; [exact A3|]. split; [exact (ext_trans _ _ _ (ext_trans _ _ _ B1 B2) B3)|]. split; [exact D3|].
    constructor; [|exact R3]. eapply func_res_ext; [apply (ext_labels _ _ B3)|exact R2].
Qed.

Lemma funcs_unroll heap sd :
  (forall a nd, nth_error heap a = Some nd -> node_ok heap nd) ->
  forall l pfs ds, Forall item_ok l -> Forall2 (func_res heap) l pfs ->
  elab_funcs true 64 p o sd (map (fun x => (snd (fst x), snd x)) l) = Some ds -> map (unroll_func heap sd) pfs = ds.
Proof.
  intros Hcl. induction l as [|[[fi f] fn] l IH]; intros pfs ds Hl Hr; inversion Hr; subst; simpl.
  - intros H. inversion H. reflexivity.
  - inversion Hl as [|x l0 Hx Hl']. subst. simpl in Hx. destruct Hx as [Hf _].
    destruct (elab_func true 64 p o f sd fn) as [d|] eqn:Ed; [|discriminate].
    destruct (elab_funcs true 64 p o sd (map (fun x => (snd (fst x), snd x)) l)) as [ds'|] eqn:Er; [|discriminate].
    intros H. inversion H. subst. f_equal; [eapply func_unroll; eauto|]. apply IH; auto.
Qed.

(* getAllFuncs as transcribed = the specification's function list, and every item is a function of a file of the program *)
Lemma find_svc_in n l s : find_svc n l = Some s -> In s l.
Proof. induction l as [|x l IH]; simpl; [discriminate|]. destruct (name_eqb n (sv_name x)); [intros H; inversion H; left; reflexivity|intros H; right; auto]. Qed.

Lemma all_funcs_ix_strip : forall fuel fi f s,
  map (fun x => (snd (fst x), snd x)) (all_funcs_ix fuel p fi f s) = all_funcs fuel true p f s.
Proof.
  induction fuel as [|fuel IH]; intros fi f s; [reflexivity|]. simpl. rewrite map_app, map_map. simpl. f_equal.
  destruct (sv_extends s) as [|c ext]; [reflexivity|]. destruct (split_last_dot (c :: ext)) as [pkg sn].
  destruct pkg as [|c0 pkg].
  - destruct (find_svc sn (fl_svcs f)); [apply IH|reflexivity].
  - destruct (get_ref p f (c0 :: pkg)) as [[i f']|]; [|reflexivity]. destruct (find_svc sn (fl_svcs f')); [apply IH|reflexivity].
Qed.

Lemma all_funcs_ix_strip_flat fuel fi f svcs :
  map (fun x => (snd (fst x), snd x)) (flat_map (all_funcs_ix fuel p fi f) svcs) = flat_map (all_funcs fuel true p f) svcs.
Proof.
  induction svcs as [|s svcs IH]; [reflexivity|]. cbn [flat_map]. rewrite map_app, IH, all_funcs_ix_strip. reflexivity.
Qed.

Lemma all_funcs_ix_ok : forall fuel fi f s, get_file p fi = Some f -> In s (fl_svcs f) -> Forall item_ok (all_funcs_ix fuel p fi f s).
Proof.
  induction fuel as [|fuel IH]; intros fi f s Hf Hs; [constructor|]. simpl. apply Forall_app. split.
  - apply Forall_forall. intros x Hx. apply in_map_iff in Hx. destruct Hx as [fn [<- Hfn]]. split; [exact Hf|].
    pose proof (scoped_in f (get_file_in _ _ Hf)) as Hsc. unfold scoped_file in Hsc. apply andb_true_iff in Hsc. destruct Hsc as [_ Hsc].
    rewrite forallb_forall in Hsc. specialize (Hsc s Hs). rewrite forallb_forall in Hsc. specialize (Hsc fn Hfn).
    apply andb_true_iff in Hsc. destruct Hsc as [Hsc H3]. apply andb_true_iff in Hsc. destruct Hsc as [H1 H2].
    rewrite forallb_forall in H2, H3. repeat split; auto.
  - destruct (sv_extends s) as [|c ext]; [constructor|]. destruct (split_last_dot (c :: ext)) as [pkg sn].
    destruct pkg as [|c0 pkg].
    + destruct (find_svc sn (fl_svcs f)) eqn:E; [|constructor]. apply IH; [exact Hf|eapply find_svc_in; eauto].
    + destruct (get_ref p f (c0 :: pkg)) as [[i f']|] eqn:Er; [|constructor].
      destruct (find_svc sn (fl_svcs f')) eqn:E; [|constructor]. apply IH; [apply (get_ref_file _ _ _ _ Er)|eapply find_svc_in; eauto].
Qed.

Lemma selected_in main sn svcs : selected_services o main = Some (sn, svcs) -> forall s, In s svcs -> In s (fl_svcs main).
Proof.
  unfold selected_services. destruct (fl_svcs main) as [|s0 l] eqn:E; [discriminate|].
  destruct (o_svcname o) as [|c0 nm0].
  - destruct (o_svcmode o =? 0).
    + destruct (rev (s0 :: l)) eqn:Er; [discriminate|]. intros H. inversion H. subst. intros s1 [<-|[]].
      apply in_rev. rewrite Er. left. reflexivity.
    + destruct (o_svcmode o =? 1); intros H; inversion H; subst; [intros s1 [<-|[]]; left; reflexivity|auto].
  - destruct (find_svc (c0 :: nm0) (s0 :: l)) eqn:Ef; [|discriminate]. intros H. inversion H. subst. intros s1 [<-|[]]. eapply find_svc_in; eauto.
Qed.

(* ------------------------------------------------------------------ the theorem *)

Theorem parse_refines_elab_sec st sn pfs sd e :
  parse p o = Some (st, sn, pfs) -> elab true true sd p o = Some e -> unroll_service sd (parse p o) = Some e.
Proof.
  intros Hp He. rewrite Hp. unfold parse in Hp. unfold elab in He. destruct p as [|main rest] eqn:Eprog; [discriminate|]. rewrite <- Eprog in *.
  destruct (selected_services o main) as [[sn0 svcs]|] eqn:Es; [|discriminate].
  destruct (pfunctions p o (PState [] []) [] [] (flat_map (all_funcs_ix 16 p 0 main) svcs)) as [[st0 pfs0]|] eqn:Epf; [|discriminate].
  inversion Hp. subst st0 sn0 pfs0. clear Hp.
  destruct (has_dup _); [discriminate|].
  destruct (elab_funcs true 64 p o sd (flat_map (all_funcs 16 true p main) svcs)) as [ds|] eqn:Ed; [|discriminate].
  inversion He. subst e. clear He.
  assert (Hmain : get_file p 0 = Some main) by (rewrite Eprog; reflexivity).
  assert (Hitems : Forall item_ok (flat_map (all_funcs_ix 16 p 0 main) svcs)).
  { apply Forall_forall. intros x Hx. apply in_flat_map in Hx. destruct Hx as [s [Hs Hx]].
    pose proof (all_funcs_ix_ok 16 0 main s Hmain (selected_in _ _ _ Es s Hs)) as H. rewrite Forall_forall in H. apply H. exact Hx. }
  destruct (pfunctions_spec _ (PState [] []) [] [] st pfs Hitems) as [A [B [D R]]]; [| | |exact Epf|].
  { split; [intros a nd H; destruct a; discriminate|intros cid fi c H; destruct cid; discriminate]. }
  { intros a nd H. destruct a; discriminate. }
  { intros fi c H. discriminate. }
  assert (Hcl : forall a nd, nth_error (ps_heap st) a = Some nd -> node_ok (ps_heap st) nd).
  { intros a nd H. destruct A as [A _]. apply (A a nd H). apply (D a nd H). }
  cbn [unroll_service]. f_equal. f_equal.
  apply (funcs_unroll _ sd Hcl _ _ _ Hitems R).
  rewrite all_funcs_ix_strip_flat. exact Ed.
Qed.

(* a cache hit returns the descriptor of the type the key denotes in the tree the cache belongs to (seeded change C14-1) *)
Theorem cache_hit_sound_sec st cid fi f c n e target :
  INV st -> nth_error (ps_caches st) cid = Some (fi, c) -> get_file p fi = Some f -> names_ok p f (TNamed n) = true ->
  cache_find c n = Some e -> ce_target e = target ->
  exists nd ti tn, nth_error (ps_heap st) (ce_addr e) = Some nd /\ struct_of fi f n = Some (ti, tn) /\
                   pn_file nd = ti /\ pn_sname nd = tn /\ pn_target nd = target /\ pn_tname nd = n.
Proof.
  intros [_ Hc] Hn Hf Hok Hfind Ht. specialize (Hc _ _ _ Hn). destruct (cache_find_key _ _ _ Hfind) as [Hin Hkey].
  rewrite Forall_forall in Hc. destruct (Hc e Hin) as [nd [f0 [H1 [H2 [H3 [H4 H5]]]]]]. rewrite Hf in H4. inversion H4. subst f0.
  destruct H5 as [H5|[pkg [tn [Hs [Hne Hr]]]]].
  - exists nd, (pn_file nd), (pn_sname nd). rewrite <- Hkey. repeat split; auto; congruence.
  - exfalso. simpl in Hok. rewrite <- Hkey, Hs in Hok. simpl in Hok. destruct pkg; [contradiction|]. rewrite Hr in Hok. discriminate.
Qed.

(* ... and every state the compiler goes through satisfies INV: in particular the final one *)
Theorem parse_inv_sec st sn pfs : parse p o = Some (st, sn, pfs) -> INV st /\ alldone st.
Proof.
  intros Hp. unfold parse in Hp. destruct p as [|main rest] eqn:Eprog; [discriminate|]. rewrite <- Eprog in *.
  destruct (selected_services o main) as [[sn0 svcs]|] eqn:Es; [|discriminate].
  destruct (pfunctions p o (PState [] []) [] [] (flat_map (all_funcs_ix 16 p 0 main) svcs)) as [[st0 pfs0]|] eqn:Epf; [|discriminate].
  inversion Hp. subst st0 sn0 pfs0. clear Hp.
  assert (Hmain : get_file p 0 = Some main) by (rewrite Eprog; reflexivity).
  assert (Hitems : Forall item_ok (flat_map (all_funcs_ix 16 p 0 main) svcs)).
  { apply Forall_forall. intros x Hx. apply in_flat_map in Hx. destruct Hx as [s [Hs Hx]].
    pose proof (all_funcs_ix_ok 16 0 main s Hmain (selected_in _ _ _ Es s Hs)) as H. rewrite Forall_forall in H. apply H. exact Hx. }
  destruct (pfunctions_spec _ (PState [] []) [] [] st pfs Hitems) as [A [B [D R]]]; [| | |exact Epf|].
  { split; [intros a nd H; destruct a; discriminate|intros cid fi c H; destruct cid; discriminate]. }
  { intros a nd H. destruct a; discriminate. }
  { intros fi c H. discriminate. }
  split; assumption.
Qed.
End Refine.

(* ------------------------------------------------------------------ closed statements *)

Lemma pdomain_split p o : pdomain p o = true -> o_base o = false /\ o_bodyfast o = false /\ no_alias_clash p = true /\ well_scoped p = true.
Proof.
  unfold pdomain. intros H. apply andb_true_iff in H. destruct H as [H H4]. apply andb_true_iff in H. destruct H as [H H3].
  apply andb_true_iff in H. destruct H as [H1 H2]. apply negb_true_iff in H1. apply negb_true_iff in H2. auto.
Qed.

(* the Thrift IDL compiler as coded refines the elaboration specification: whenever both are defined, the descriptor graph built
   by the transcription (with its compiling caches), read back to ANY depth, is the tree elab produces — fields exactly the kept
   declared ones with the same columns, type graph identical incl. recursive / mutually recursive structs through the cache,
   typedef chains, include-qualified names resolved in the right file, functions exact *)
Theorem parse_refines_elab p o :
  pdomain p o = true ->
  forall st sn pfs sd e, parse p o = Some (st, sn, pfs) -> elab true true sd p o = Some e -> unroll_service sd (parse p o) = Some e.
Proof.
  intros Hd. destruct (pdomain_split p o Hd) as [H1 [H2 [H3 H4]]]. intros st sn pfs sd e. apply (parse_refines_elab_sec p o H1 H2 H3 H4).
Qed.

(* every finished struct descriptor in the graph is the image of the declared struct-like its label names: the kept fields one
   by one (in order) with the columns of elab_meta, each field type denoting what the declaration says (resolves) *)
Theorem parse_nodes_exact p o :
  pdomain p o = true ->
  forall st sn pfs, parse p o = Some (st, sn, pfs) ->
  forall a nd, nth_error (ps_heap st) a = Some nd -> node_ok p o (ps_heap st) nd.
Proof.
  intros Hd st sn pfs Hp a nd Hn. destruct (pdomain_split p o Hd) as [H1 [H2 [H3 H4]]].
  destruct (parse_inv_sec p o H1 H2 H3 H4 st sn pfs Hp) as [[A _] D]. apply (A a nd Hn). apply (D a nd Hn).
Qed.

(* cache soundness (the class of seeded change C14-1): in the final state — and, by ptype_spec, in every intermediate one — a
   cache hit for key n in the cache of tree fi returns the descriptor of the struct-like that n denotes IN THAT TREE *)
Theorem parse_cache_sound p o :
  pdomain p o = true ->
  forall st sn pfs, parse p o = Some (st, sn, pfs) ->
  forall cid fi f c n e, nth_error (ps_caches st) cid = Some (fi, c) -> get_file p fi = Some f -> names_ok p f (TNamed n) = true ->
  cache_find c n = Some e ->
  exists nd ti tn, nth_error (ps_heap st) (ce_addr e) = Some nd /\ struct_of p fi f n = Some (ti, tn) /\
                   pn_file nd = ti /\ pn_sname nd = tn /\ pn_target nd = ce_target e /\ pn_tname nd = n.
Proof.
  intros Hd st sn pfs Hp cid fi f c n e Hn Hf Hok Hfind. destruct (pdomain_split p o Hd) as [H1 [H2 [H3 H4]]].
  destruct (parse_inv_sec p o H1 H2 H3 H4 st sn pfs Hp) as [A _].
  apply (cache_hit_sound_sec p o st cid fi f c n e (ce_target e) A Hn Hf Hok Hfind eq_refl).
Qed.

(* the same for any state reached from a state satisfying the invariant by one parseType call *)
Theorem ptype_preserves_inv p o :
  pdomain p o = true ->
  forall fuel st fi f cid rdepth target t st' r,
  get_file p fi = Some f -> INV p o st -> cache_has st cid fi -> names_ok p f t = true ->
  ptype fuel p o st fi f cid rdepth target t = Some (st', r) ->
  INV p o st' /\ ext st st' /\ resolves p o (ps_heap st') target fi f t r.
Proof. intros Hd. destruct (pdomain_split p o Hd) as [H1 [H2 [H3 H4]]]. apply (ptype_spec p o H1 H2 H3 H4). Qed.

(* ------------------------------------------------------------------ annotation-driven columns *)

(* api.none removes a field from RESPONSE descriptors only: it stays in requests and in exceptions (seeded change C14-9);
   dynamicgo.deprecated removes it everywhere *)
Theorem api_none_targets fd :
  has_anno n_deprecated (f_annos fd) = false ->
  field_kept 0 fd = true /\ field_kept 2 fd = true /\ field_kept 1 fd = negb (has_anno n_api_none (f_annos fd)).
Proof. intros H. unfold field_kept, field_skipped. rewrite H. simpl. repeat split. Qed.

Theorem deprecated_everywhere fd target : has_anno n_deprecated (f_annos fd) = true -> field_kept target fd = false.
Proof. intros H. unfold field_kept, field_skipped. rewrite H. reflexivity. Qed.

(* alias precedence: an api.key annotation with exactly one value wins over go.tag / api.body whatever the order of the
   annotations; without any single-valued candidate the alias is the field name *)
Theorem alias_api_key_first root fast fname annos v rest :
  flat_map (fun a => if name_eqb (a_key a) n_api_key then [a_vals a] else []) annos = [v] :: rest ->
  alias_of root fast fname annos = v.
Proof. intros H. unfold alias_of, key_candidates. rewrite H. reflexivity. Qed.

Theorem alias_default root fast fname annos : first_single (key_candidates root fast annos) = None -> alias_of root fast fname annos = fname.
Proof. intros H. unfold alias_of. rewrite H. reflexivity. Qed.
