(* WriteStringWithDesc / ReadStringWithDesc as coded (model/ThriftText.v) against the Thrift binary encoding:
     write_string_desc_canonical   the canonical spelling of a conforming scalar / string value is written as [encode v]
     write_string_desc_leaf_error  on a scalar / string descriptor a text that is not accepted is an error with nothing written
     write_string_desc_list        a comma-joined list of canonical spellings is written as the encoded list
     read_string_desc_canonical    ReadStringWithDesc prints the canonical spelling; write_read_string: the round trip *)
From Coq Require Import ZArith List Bool Lia.
From DG Require Import CaseFormat ProtoWireRef ProtoWireRefProofs ThriftWire ThriftWireProofs ThriftGeneric ThriftEnvelope
  ThriftAnyDesc ThriftAnyDescProofs Json Num NumProofs Base64 Base64Proofs ThriftText.
Import ListNotations.
Local Open Scope Z_scope.

(* ------------------------------------------------------------------ the text primitives on canonical spellings *)
Lemma text_int_fmt_int z : in_sb 64 z = true -> text_int (fmt_int z) = Some z.
Proof.
  intros Hz. pose proof (parse_int_fmt_int z) as P. unfold text_int.
  destruct (fmt_int z) as [|c r] eqn:E; [discriminate P|].
  destruct (c =? 43) eqn:E43.
  - apply Z.eqb_eq in E43. subst c. discriminate P.
  - rewrite P. unfold in_int64. rewrite Hz. reflexivity.
Qed.

Lemma in_sb_widen k z : in_sb k z = true -> 0 < k <= 64 -> in_sb 64 z = true.
Proof.
  intros H Hk. apply in_sb_true in H. unfold in_sb.
  assert (2 ^ (k - 1) <= 2 ^ (64 - 1)) by (apply Z.pow_le_mono_r; lia).
  apply andb_true_iff. split; [apply Z.leb_le|apply Z.ltb_lt]; lia.
Qed.

Lemma b64_char_ge n : 0 <= n < 64 -> 43 <= b64_char n.
Proof.
  intros H. unfold b64_char.
  destruct (Z.ltb_spec n 26); [lia|]. destruct (Z.ltb_spec n 52); [lia|]. destruct (Z.ltb_spec n 62); [lia|].
  destruct (n =? 62); lia.
Qed.

Lemma b64_encode_chars : forall bs, Forall byte bs -> Forall (fun c => 43 <= c) (b64_encode bs).
Proof.
  induction bs as [| a | a b | a b c r IH] using list_ind3; intros Hb.
  - constructor.
  - inversion Hb as [|? ? Ha _]; subst. cbn [b64_encode].
    repeat constructor; try lia; apply b64_char_ge; [apply idx0|apply idx1']; assumption.
  - inversion Hb as [|? ? Ha Hb']; subst. inversion Hb' as [|? ? Hbb _]; subst. cbn [b64_encode].
    repeat constructor; try lia; apply b64_char_ge; [apply idx0|apply idx1|apply idx2']; assumption.
  - inversion Hb as [|? ? Ha Hb']; subst. inversion Hb' as [|? ? Hbb Hb'']; subst. inversion Hb'' as [|? ? Hc Hr]; subst.
    cbn [b64_encode].
    repeat (constructor; [apply b64_char_ge; first [apply idx0; assumption|apply idx1; assumption|apply idx2; assumption|apply idx3; assumption]|]).
    apply IH. exact Hr.
Qed.

Lemma strip_crlf_id s : Forall (fun c => 43 <= c) s -> strip_crlf s = s.
Proof.
  induction 1 as [|c s Hc _ IH]; [reflexivity|]. cbn [strip_crlf filter].
  destruct (Z.eqb_spec c 10); [lia|]. destruct (Z.eqb_spec c 13); [lia|]. cbn [orb negb]. f_equal. exact IH.
Qed.

Lemma bytes_okb_Forall s : bytes_okb s = true -> Forall byte s.
Proof.
  unfold bytes_okb. rewrite forallb_forall, Forall_forall. intros H x Hx. specialize (H x Hx).
  unfold byte_okb in H. apply andb_true_iff in H. destruct H as [H0 H1]. apply Z.leb_le in H0. apply Z.ltb_lt in H1.
  unfold byte. lia.
Qed.

Lemma text_b64_encode s : bytes_okb s = true -> text_b64 (b64_encode s) = Some s.
Proof.
  intros H. apply bytes_okb_Forall in H. unfold text_b64.
  rewrite strip_crlf_id by (apply b64_encode_chars; exact H). apply b64_decode_encode. exact H.
Qed.

(* ------------------------------------------------------------------ canonical spellings are written as the encoding *)
Theorem write_string_desc_canonical fd b64 d v b :
  is_leaf v = true -> wf v = true -> conf true d v = true -> bools01 v = true -> doubles_ok fd v = true ->
  write_string_desc b64 d b (canon_text fd b64 d v) = (b ++ encode v, 0).
Proof.
  intros Hl Hw Hc Hb Hd. destruct v; try discriminate Hl; destruct d; cbn [conf] in Hc; try discriminate.
  - apply Z.eqb_eq in Hc. subst t. cbn [bools01] in Hb.
    apply orb_true_iff in Hb. destruct Hb as [E|E]; apply Z.eqb_eq in E; subst raw; reflexivity.
  - apply Z.eqb_eq in Hc. subst t. cbn [wf] in Hw. cbn [write_string_desc canon_text encode]. unfold text_scalar.
    change (T_BYTE =? T_BOOL) with false. change (T_BYTE =? T_BYTE) with true. cbv iota.
    rewrite text_int_fmt_int.
    + rewrite enc_int1, Z.mod_mod by lia. reflexivity.
    + assert (0 <= z mod 256 < 256) by (apply Z.mod_pos_bound; lia). unfold in_sb.
      apply andb_true_iff. split; [apply Z.leb_le|apply Z.ltb_lt]; change (2 ^ (64 - 1)) with 9223372036854775808; lia.
  - apply Z.eqb_eq in Hc. subst t. cbn [wf] in Hw. cbn [write_string_desc canon_text encode]. unfold text_scalar.
    change (T_I16 =? T_BOOL) with false. change (T_I16 =? T_BYTE) with false. change (T_I16 =? T_I16) with true. cbv iota.
    rewrite text_int_fmt_int by (apply (in_sb_widen 16); [exact Hw|lia]). reflexivity.
  - apply Z.eqb_eq in Hc. subst t. cbn [wf] in Hw. cbn [write_string_desc canon_text encode]. unfold text_scalar.
    change (T_I32 =? T_BOOL) with false. change (T_I32 =? T_BYTE) with false. change (T_I32 =? T_I16) with false.
    change (T_I32 =? T_I32) with true. cbv iota.
    rewrite text_int_fmt_int by (apply (in_sb_widen 32); [exact Hw|lia]). reflexivity.
  - apply Z.eqb_eq in Hc. subst t. cbn [wf] in Hw. cbn [write_string_desc canon_text encode]. unfold text_scalar.
    change (T_I64 =? T_BOOL) with false. change (T_I64 =? T_BYTE) with false. change (T_I64 =? T_I16) with false.
    change (T_I64 =? T_I32) with false. change (T_I64 =? T_I64) with true. cbv iota.
    rewrite text_int_fmt_int by exact Hw. reflexivity.
  - apply Z.eqb_eq in Hc. subst t. cbn [doubles_ok] in Hd. unfold fd_ok_at in Hd. apply andb_true_iff in Hd. destruct Hd as [Hf Hx].
    cbn [write_string_desc canon_text encode]. unfold text_scalar.
    change (T_DOUBLE =? T_BOOL) with false. change (T_DOUBLE =? T_BYTE) with false. change (T_DOUBLE =? T_I16) with false.
    change (T_DOUBLE =? T_I32) with false. change (T_DOUBLE =? T_I64) with false. change (T_DOUBLE =? T_DOUBLE) with true. cbv iota.
    unfold text_f64. destruct (lex2f64 (fd bits)) as [y|]; [|discriminate]. apply Z.eqb_eq in Hx. subst y. rewrite Hf. reflexivity.
  - cbn [wf] in Hw. apply andb_true_iff in Hw. destruct Hw as [Hs _].
    cbn [write_string_desc canon_text encode]. destruct bin; [destruct b64|]; cbn [andb].
    + rewrite text_b64_encode by exact Hs. reflexivity.
    + reflexivity.
    + rewrite andb_false_r. reflexivity.
Qed.

(* the signed spelling of a BYTE is accepted as well *)
Theorem write_string_desc_byte_signed b64 z b : in_sb 8 z = true ->
  write_string_desc b64 (AScalar T_BYTE) b (fmt_int z) = (b ++ encode (VByte z), 0).
Proof.
  intros Hz. cbn [write_string_desc encode]. unfold text_scalar.
  change (T_BYTE =? T_BOOL) with false. change (T_BYTE =? T_BYTE) with true. cbv iota.
  rewrite text_int_fmt_int by (apply (in_sb_widen 8); [exact Hz|lia]). rewrite enc_int1. reflexivity.
Qed.

(* ------------------------------------------------------------------ the error side *)
(* on a scalar / string descriptor whatever is not accepted leaves the buffer as it was *)
Theorem write_string_desc_leaf_error b64 d b s :
  match d with AScalar _ | AString _ | AMap _ _ | AStruct _ => True | _ => False end ->
  snd (write_string_desc b64 d b s) <> 0 -> fst (write_string_desc b64 d b s) = b.
Proof.
  intros Hd. destruct d as [t|bin| | | |]; try contradiction; cbn [write_string_desc]; try reflexivity.
  - unfold text_scalar.
    destruct (t =? T_BOOL); [destruct (text_bool s); cbn [fst snd]; [congruence|reflexivity]|].
    destruct (t =? T_BYTE); [destruct (text_int s); cbn [fst snd]; [congruence|reflexivity]|].
    destruct (t =? T_I16); [destruct (text_int s); cbn [fst snd]; [congruence|reflexivity]|].
    destruct (t =? T_I32); [destruct (text_int s); cbn [fst snd]; [congruence|reflexivity]|].
    destruct (t =? T_I64); [destruct (text_int s); cbn [fst snd]; [congruence|reflexivity]|].
    destruct (t =? T_DOUBLE); [destruct (text_f64 s) as [[x|]|]; cbn [fst snd]; [congruence|reflexivity|reflexivity]|].
    reflexivity.
  - destruct (b64 && bin); [destruct (text_b64 s)|]; cbn [fst snd]; congruence.
Qed.

(* which texts are errors: integers by ParseInt (syntax or beyond int64 - NOT beyond the width of the type, which is truncated),
   booleans by ParseBool, doubles beyond the largest double, base64 that does not decode; maps and structs always *)
Theorem write_string_desc_errors b64 b s :
  (forall t, is_int_type t = true -> text_int s = None -> write_string_desc b64 (AScalar t) b s = (b, 1)) /\
  (text_bool s = None -> write_string_desc b64 (AScalar T_BOOL) b s = (b, 1)) /\
  (text_f64 s = Some None -> write_string_desc b64 (AScalar T_DOUBLE) b s = (b, 1)) /\
  (text_b64 s = None -> write_string_desc true (AString true) b s = (b, 1)) /\
  (forall k e, write_string_desc b64 (AMap k e) b s = (b, 1)) /\ (forall fs, write_string_desc b64 (AStruct fs) b s = (b, 1)).
Proof.
  repeat split.
  - intros t Ht E. cbn [write_string_desc]. unfold text_scalar, is_int_type in *.
    destruct (t =? T_BOOL) eqn:E0; [apply Z.eqb_eq in E0; subst t; discriminate Ht|].
    rewrite E. repeat match goal with |- context [if ?c then _ else _] => destruct c end; try reflexivity.
    discriminate Ht.
  - intros E. cbn [write_string_desc]. unfold text_scalar. change (T_BOOL =? T_BOOL) with true. cbv iota. rewrite E. reflexivity.
  - intros E. cbn [write_string_desc]. unfold text_scalar.
    change (T_DOUBLE =? T_BOOL) with false. change (T_DOUBLE =? T_BYTE) with false. change (T_DOUBLE =? T_I16) with false.
    change (T_DOUBLE =? T_I32) with false. change (T_DOUBLE =? T_I64) with false. change (T_DOUBLE =? T_DOUBLE) with true. cbv iota.
    rewrite E. reflexivity.
  - intros E. cbn [write_string_desc andb]. rewrite E. reflexivity.
Qed.

(* as coded: a text beyond the width of the integer type is NOT an error, it is truncated *)
Theorem write_string_desc_truncates b64 b s z :
  text_int s = Some z ->
  write_string_desc b64 (AScalar T_BYTE) b s = (b ++ [z mod 256], 0) /\
  write_string_desc b64 (AScalar T_I16) b s = (b ++ enc_int 2 z, 0) /\
  write_string_desc b64 (AScalar T_I32) b s = (b ++ enc_int 4 z, 0).
Proof.
  intros E. cbn [write_string_desc]. unfold text_scalar. rewrite E. repeat split; reflexivity.
Qed.

(* ------------------------------------------------------------------ lists: strings.Split and the element loop *)
Lemma split_comma_nonempty s : split_comma s <> [].
Proof.
  induction s as [|c r IH]; cbn [split_comma]; [discriminate|].
  destruct (split_comma r) as [|h t]; [discriminate|]. destruct (c =? 44); discriminate.
Qed.

Lemma split_no_comma s : no_comma s = true -> split_comma s = [s].
Proof.
  induction s as [|c r IH]; intros H; [reflexivity|].
  cbn [no_comma forallb] in H. apply andb_true_iff in H. destruct H as [Hc Hr]. apply negb_true_iff in Hc.
  cbn [split_comma]. rewrite (IH Hr), Hc. reflexivity.
Qed.

Lemma split_app_comma x t : no_comma x = true -> split_comma (x ++ 44 :: t) = x :: split_comma t.
Proof.
  induction x as [|c r IH]; intros H.
  - cbn [app split_comma]. destruct (split_comma t) as [|h tl] eqn:E; [exfalso; apply (split_comma_nonempty t E)|]. reflexivity.
  - cbn [no_comma forallb] in H. apply andb_true_iff in H. destruct H as [Hc Hr]. apply negb_true_iff in Hc.
    cbn [app split_comma]. rewrite (IH Hr), Hc. reflexivity.
Qed.

Lemma split_join l : l <> [] -> Forall (fun x => no_comma x = true) l -> split_comma (join_with 44 l) = l.
Proof.
  induction l as [|x l IH]; intros Hne H; [contradiction|].
  inversion H as [|? ? Hx Hl]; subst. destruct l as [|y l'].
  - cbn [join_with]. apply split_no_comma. exact Hx.
  - change (join_with 44 (x :: y :: l')) with (x ++ 44 :: join_with 44 (y :: l')).
    rewrite split_app_comma by exact Hx. rewrite IH; [reflexivity|discriminate|exact Hl].
Qed.

Lemma write_pieces_ok rec (tx : tval -> list Z) es :
  Forall (fun x => forall b, rec b (tx x) = (b ++ encode x, 0)) es ->
  forall b, write_pieces rec b (map tx es) = (b ++ flat_map encode es, 0).
Proof.
  induction 1 as [|x es Hx _ IH]; intros b; cbn [map write_pieces flat_map]; [rewrite app_nil_r; reflexivity|].
  rewrite Hx, wbind_ok, IH, <- app_assoc. reflexivity.
Qed.

(* a non-empty list / set of scalars or strings, spelled canonically and joined by commas (no spelling holds a comma) *)
Theorem write_string_desc_list fd b64 (set : bool) e es b :
  es <> [] -> Forall (fun x => is_leaf x = true /\ wf x = true /\ conf true e x = true /\ bools01 x = true /\
                               doubles_ok fd x = true /\ no_comma (canon_text fd b64 e x) = true) es ->
  write_string_desc b64 (if set then ASet e else AList e) b (join_with 44 (map (canon_text fd b64 e) es))
  = (b ++ encode (if set then VSet (dtype e) es else VList (dtype e) es), 0).
Proof.
  intros Hne H.
  assert (Hsplit : split_comma (join_with 44 (map (canon_text fd b64 e) es)) = map (canon_text fd b64 e) es).
  { apply split_join; [destruct es; [contradiction|discriminate]|].
    rewrite Forall_forall in *. intros t Ht. apply in_map_iff in Ht. destruct Ht as [x [E Hin]]. subst t. apply (H x Hin). }
  assert (Hw : write_pieces (write_string_desc b64 e) (b ++ dtype e :: enc_int 4 (zlen (map (canon_text fd b64 e) es))) (map (canon_text fd b64 e) es)
               = ((b ++ dtype e :: enc_int 4 (zlen es)) ++ flat_map encode es, 0)).
  { rewrite zlen_map. apply write_pieces_ok. rewrite Forall_forall in *. intros x Hin b'.
    destruct (H x Hin) as (Hl & Hwf & Hc & Hb & Hd & _). apply write_string_desc_canonical; assumption. }
  destruct set; cbn [write_string_desc encode]; rewrite Hsplit, Hw, <- app_assoc; reflexivity.
Qed.

(* ------------------------------------------------------------------ ReadStringWithDesc prints the canonical spelling *)
Theorem read_string_desc_canonical fd b64 d v n r :
  is_leaf v = true -> wf v = true -> conf true d v = true ->
  read_string_desc fd b64 (S n) d (encode v ++ r) = Some (canon_text fd b64 d v, r).
Proof.
  intros Hl Hw Hc. destruct v; try discriminate Hl; destruct d; cbn [conf] in Hc; try discriminate.
  - apply Z.eqb_eq in Hc. subst t. reflexivity.
  - apply Z.eqb_eq in Hc. subst t. cbn [read_string_desc encode canon_text]. rewrite enc_int1. reflexivity.
  - apply Z.eqb_eq in Hc. subst t. cbn [read_string_desc encode canon_text wf] in *. unfold read_text_scalar.
    change (T_I16 =? T_BOOL) with false. change (T_I16 =? T_BYTE) with false. change (T_I16 =? T_I16) with true. cbv iota.
    rewrite take_enc_int, dec_int_enc_int; [reflexivity|lia|apply in_sb_true in Hw; exact Hw].
  - apply Z.eqb_eq in Hc. subst t. cbn [read_string_desc encode canon_text wf] in *. unfold read_text_scalar.
    change (T_I32 =? T_BOOL) with false. change (T_I32 =? T_BYTE) with false. change (T_I32 =? T_I16) with false.
    change (T_I32 =? T_I32) with true. cbv iota.
    rewrite take_enc_int, dec_int_enc_int; [reflexivity|lia|apply in_sb_true in Hw; exact Hw].
  - apply Z.eqb_eq in Hc. subst t. cbn [read_string_desc encode canon_text wf] in *. unfold read_text_scalar.
    change (T_I64 =? T_BOOL) with false. change (T_I64 =? T_BYTE) with false. change (T_I64 =? T_I16) with false.
    change (T_I64 =? T_I32) with false. change (T_I64 =? T_I64) with true. cbv iota.
    rewrite take_enc_int, dec_int_enc_int; [reflexivity|lia|apply in_sb_true in Hw; exact Hw].
  - apply Z.eqb_eq in Hc. subst t. cbn [read_string_desc encode canon_text wf] in *. unfold read_text_scalar.
    change (T_DOUBLE =? T_BOOL) with false. change (T_DOUBLE =? T_BYTE) with false. change (T_DOUBLE =? T_I16) with false.
    change (T_DOUBLE =? T_I32) with false. change (T_DOUBLE =? T_I64) with false. change (T_DOUBLE =? T_DOUBLE) with true. cbv iota.
    rewrite take_enc_int, dec_uint_enc_int.
    apply andb_true_iff in Hw. destruct Hw as [H0 H1]. apply Z.leb_le in H0. apply Z.ltb_lt in H1.
    rewrite Z.mod_small; [reflexivity|]. change (256 ^ Z.of_nat 8) with (2 ^ 64). lia.
  - cbn [wf] in Hw. apply andb_true_iff in Hw. destruct Hw as [_ Hlen]. apply Z.ltb_lt in Hlen.
    cbn [read_string_desc encode canon_text]. rewrite <- app_assoc, read_strbytes_ok by exact Hlen.
    destruct bin; [destruct b64|]; cbn [andb]; try reflexivity. rewrite andb_false_r. reflexivity.
Qed.

(* ReadStringWithDesc then WriteStringWithDesc reproduces the bytes of every scalar / string value *)
Theorem write_read_string fd b64 d v n r b :
  is_leaf v = true -> wf v = true -> conf true d v = true -> bools01 v = true -> doubles_ok fd v = true ->
  exists txt, read_string_desc fd b64 (S n) d (encode v ++ r) = Some (txt, r) /\
              write_string_desc b64 d b txt = (b ++ encode v, 0).
Proof.
  intros Hl Hw Hc Hb Hd. exists (canon_text fd b64 d v). split.
  - apply read_string_desc_canonical; assumption.
  - apply write_string_desc_canonical; assumption.
Qed.
