(* C06 "decoders survive arbitrary bytes": TOTALITY of the list-based byte walkers on ARBITRARY byte lists.
   In the models a read past the end is None by construction and every loop runs on an internal fuel, so a None / error
   answer could in principle mean "fuel exhausted" rather than "rejected".  Here: no well-formedness hypothesis at all;
   every loop iteration consumes at least one byte or returns, hence the fuel the models give themselves is always enough:
   the answer is the same for every larger fuel.  Plus the progress lemmas (remainders are strictly shorter suffixes of
   the input) and "the span handed back lies inside the buffer". *)
From Coq Require Import ZArith List Bool Lia.
From DG Require Import ProtoWireRef ProtoWireRefProofs ThriftWire ThriftWireProofs ThriftGeneric ThriftGenericProofs.
Import ListNotations.
Local Open Scope Z_scope.

(* ====================================================================================================== *)
(* (1) ThriftWire.skip / ThriftGeneric.get_by_path                                                          *)
(* ====================================================================================================== *)

(* ---- elementary reads ---- *)
Lemma take_some n bs x r : take n bs = Some (x, r) -> x = firstn n bs /\ r = skipn n bs /\ (n <= length bs)%nat.
Proof.
  unfold take. destruct (n <=? length bs)%nat eqn:E; [|discriminate].
  intros H. inversion H. apply Nat.leb_le in E. auto.
Qed.

Lemma take_len n bs x r : take n bs = Some (x, r) -> (length bs = n + length r)%nat /\ length x = n.
Proof.
  intros H. apply take_some in H. destruct H as (-> & -> & Hn).
  rewrite skipn_length, firstn_length. lia.
Qed.

Lemma drop_some n bs r : drop n bs = Some r -> 0 <= n /\ n <= zlen bs /\ r = skipn (Z.to_nat n) bs.
Proof.
  unfold drop. destruct (n <? 0) eqn:E1; [discriminate|]. destruct (n >? zlen bs) eqn:E2; [discriminate|].
  intros H. inversion H. apply Z.ltb_ge in E1. rewrite Z.gtb_ltb in E2. apply Z.ltb_ge in E2. auto.
Qed.

Lemma drop_len n bs r : drop n bs = Some r -> 0 <= n /\ zlen bs = n + zlen r.
Proof.
  intros H. apply drop_some in H. destruct H as (H0 & H1 & ->). split; [assumption|].
  unfold zlen in *. rewrite skipn_length. lia.
Qed.

Lemma skipstr_len bs r : skipstr bs = Some r -> (4 + length r <= length bs)%nat.
Proof.
  unfold skipstr. destruct (take 4 bs) as [[x r1]|] eqn:E; [|discriminate].
  apply take_len in E. destruct (dec_int x <? 0); [discriminate|].
  intros H. apply drop_len in H. unfold zlen in H. lia.
Qed.

Lemma skip_count_len bs n r : skip_count bs = Some (n, r) -> (length bs = 4 + length r)%nat /\ 0 <= n /\ r = skipn 4 bs.
Proof.
  unfold skip_count. destruct (take 4 bs) as [[x r1]|] eqn:E; [|discriminate].
  destruct (dec_int x <? 0) eqn:E1; [discriminate|]. intros H. inversion H. subst.
  apply Z.ltb_ge in E1. pose proof (take_len _ _ _ _ E). apply take_some in E. intuition.
Qed.

(* ---- the loops of skip, for any one-level-down skipper whose remainders are no longer than its inputs ---- *)
Section SkipLoopsShrink.
  Variable skp : Z -> list Z -> option (list Z).
  Hypothesis skp_le : forall t b r, skp t b = Some r -> (length r <= length b)%nat.

  Lemma skip_one_le t bs r : skip_one skp t bs = Some r -> (length r <= length bs)%nat.
  Proof.
    unfold skip_one. destruct (fixed_size t >? 0).
    - intros H. apply drop_len in H. unfold zlen in H. lia.
    - destruct (t =? T_STRING).
      + intros H. apply skipstr_len in H. lia.
      + apply skp_le.
  Qed.

  (* one field = type byte + 2 id bytes + the value: the remainder after a field is >= 3 bytes shorter *)
  Lemma skip_fields_step t r r2 r3 :
    drop 2 r = Some r2 -> (if fixed_size t >? 0 then drop (fixed_size t) r2 else skp t r2) = Some r3 ->
    (3 + length r3 <= length (t :: r))%nat.
  Proof.
    intros H2 H3. apply drop_len in H2. cbn [length].
    assert (length r3 <= length r2)%nat.
    { destruct (fixed_size t >? 0).
      - apply drop_len in H3. unfold zlen in H3. lia.
      - eapply skp_le; eassumption. }
    unfold zlen in H2. lia.
  Qed.

  Lemma skip_fields_shrinks : forall f bs r, skip_fields skp f bs = Some r -> (length r < length bs)%nat.
  Proof.
    induction f as [|f IH]; intros bs r; cbn [skip_fields]; [discriminate|].
    destruct bs as [|t r0]; [discriminate|].
    destruct (t =? 0). { intros H; inversion H; subst. cbn [length]. lia. }
    destruct (drop 2 r0) as [r2|] eqn:E2; [|discriminate]. cbv zeta.
    destruct (if fixed_size t >? 0 then drop (fixed_size t) r2 else skp t r2) as [r3|] eqn:E3; [|discriminate].
    intros H. apply IH in H. pose proof (skip_fields_step _ _ _ _ E2 E3). lia.
  Qed.

  Lemma skip_elems_le : forall n t bs r, skip_elems skp n t bs = Some r -> (length r <= length bs)%nat.
  Proof.
    induction n as [|n IH]; intros t bs r; cbn [skip_elems].
    - intros H; inversion H; lia.
    - destruct (skip_one skp t bs) as [r1|] eqn:E; [|discriminate]. intros H. apply IH in H. apply skip_one_le in E. lia.
  Qed.

  Lemma skip_pairs_le : forall n kt vt bs r, skip_pairs skp n kt vt bs = Some r -> (length r <= length bs)%nat.
  Proof.
    induction n as [|n IH]; intros kt vt bs r; cbn [skip_pairs].
    - intros H; inversion H; lia.
    - destruct (skip_one skp kt bs) as [r1|] eqn:E; [|discriminate].
      destruct (skip_one skp vt r1) as [r2|] eqn:E2; [|discriminate].
      intros H. apply IH in H. apply skip_one_le in E. apply skip_one_le in E2. lia.
  Qed.

  (* fuel stability of the field loop: ANY two fuels above the number of bytes give the same answer *)
  Lemma skip_fields_fuel_stable_sec : forall f f' bs, (length bs < f)%nat -> (length bs < f')%nat ->
    skip_fields skp f bs = skip_fields skp f' bs.
  Proof.
    induction f as [|f IH]; intros f' bs Hf Hf'; [lia|]. destruct f' as [|f']; [lia|]. cbn [skip_fields].
    destruct bs as [|t r0]; [reflexivity|].
    destruct (t =? 0); [reflexivity|].
    destruct (drop 2 r0) as [r2|] eqn:E2; [|reflexivity]. cbv zeta.
    destruct (if fixed_size t >? 0 then drop (fixed_size t) r2 else skp t r2) as [r3|] eqn:E3; [|reflexivity].
    pose proof (skip_fields_step _ _ _ _ E2 E3). apply IH; lia.
  Qed.
End SkipLoopsShrink.

Theorem skip_fields_fuel_stable : forall skp f f' bs,
  (forall t b r, skp t b = Some r -> (length r <= length b)%nat) ->
  (length bs < f)%nat -> (length bs < f')%nat -> skip_fields skp f bs = skip_fields skp f' bs.
Proof. intros. apply skip_fields_fuel_stable_sec; assumption. Qed.

(* ---- skip: every skipped value takes at least one byte, at every depth budget, on arbitrary bytes ---- *)
Theorem skip_shrinks : forall d t bs r, skip d t bs = Some r -> (length r < length bs)%nat.
Proof.
  induction d as [|d IH]; intros t bs r; [discriminate|].
  assert (Hle : forall t b r, skip d t b = Some r -> (length r <= length b)%nat).
  { intros t0 b r0 H. apply IH in H. lia. }
  rewrite skip_S. cbv zeta.
  destruct (fixed_size t >? 0) eqn:Ef.
  { intros H. apply drop_len in H. rewrite Z.gtb_ltb in Ef. apply Z.ltb_lt in Ef. unfold zlen in H. lia. }
  destruct (t =? T_STRING). { intros H. apply skipstr_len in H. lia. }
  destruct (t =? T_STRUCT). { apply skip_fields_shrinks. assumption. }
  destruct (t =? T_MAP).
  { destruct bs as [|kt [|vt r0]]; try discriminate.
    destruct (skip_count r0) as [[sz r2]|] eqn:Ec; [|discriminate]. apply skip_count_len in Ec. cbn [length].
    destruct ((fixed_size kt >? 0) && (fixed_size vt >? 0)).
    - intros H. apply drop_len in H. unfold zlen in H. lia.
    - destruct (sz >? zlen r2); [discriminate|]. intros H. apply skip_pairs_le in H; [lia|assumption]. }
  destruct ((t =? T_SET) || (t =? T_LIST)); [|discriminate].
  destruct bs as [|et r0]; try discriminate.
  destruct (skip_count r0) as [[sz r2]|] eqn:Ec; [|discriminate]. apply skip_count_len in Ec. cbn [length].
  destruct (fixed_size et >? 0).
  - intros H. apply drop_len in H. unfold zlen in H. lia.
  - destruct (sz >? zlen r2); [discriminate|]. intros H. apply skip_elems_le in H; [lia|assumption].
Qed.

Corollary skip_go_shrinks t bs r : skip_go t bs = Some r -> (length r < length bs)%nat.
Proof. apply skip_shrinks. Qed.

Corollary skip_go_zlen t bs r : skip_go t bs = Some r -> zlen r < zlen bs.
Proof. intros H. apply skip_go_shrinks in H. unfold zlen. lia. Qed.

(* the struct loop inside skip: the fuel S (length bs) it gives itself is enough, any larger fuel gives the same answer *)
Corollary skip_struct_fuel_stable d f bs : (length bs < f)%nat ->
  skip_fields (skip d) f bs = skip (S d) T_STRUCT bs.
Proof.
  intros Hf. change (skip (S d) T_STRUCT bs) with (skip_fields (skip d) (S (length bs)) bs).
  apply skip_fields_fuel_stable; [|assumption|lia].
  intros t b r H. apply skip_shrinks in H. lia.
Qed.

(* ---- the remainder is a SUFFIX of the input ---- *)
Definition suffix_of (r bs : list Z) : Prop := exists n, r = skipn n bs.

Lemma suffix_refl bs : suffix_of bs bs.
Proof. exists 0%nat. reflexivity. Qed.

Lemma skipn_skipn_add {A} : forall m (l : list A) n, skipn n (skipn m l) = skipn (m + n) l.
Proof.
  induction m as [|m IH]; intros l n; [reflexivity|]. destruct l as [|x l]; cbn [skipn Nat.add].
  - destruct n; reflexivity.
  - apply IH.
Qed.

Lemma suffix_trans a b c : suffix_of a b -> suffix_of b c -> suffix_of a c.
Proof. intros [n ->] [m ->]. exists (m + n)%nat. apply skipn_skipn_add. Qed.

Lemma suffix_skipn n bs : suffix_of (skipn n bs) bs.
Proof. exists n. reflexivity. Qed.

Lemma suffix_cons x r bs : suffix_of r bs -> suffix_of r (x :: bs).
Proof. intros [n ->]. exists (S n). reflexivity. Qed.

Lemma suffix_length r bs : suffix_of r bs -> (length r <= length bs)%nat.
Proof. intros [n ->]. rewrite skipn_length. lia. Qed.

Lemma drop_suffix n bs r : drop n bs = Some r -> suffix_of r bs.
Proof. intros H. apply drop_some in H. destruct H as (_ & _ & ->). apply suffix_skipn. Qed.

Lemma take_suffix n bs x r : take n bs = Some (x, r) -> suffix_of r bs.
Proof. intros H. apply take_some in H. destruct H as (_ & -> & _). apply suffix_skipn. Qed.

Lemma skipstr_suffix bs r : skipstr bs = Some r -> suffix_of r bs.
Proof.
  unfold skipstr. destruct (take 4 bs) as [[x r1]|] eqn:E; [|discriminate].
  destruct (dec_int x <? 0); [discriminate|]. intros H.
  eapply suffix_trans; [eapply drop_suffix; eassumption|eapply take_suffix; eassumption].
Qed.

Lemma skip_count_suffix bs n r : skip_count bs = Some (n, r) -> suffix_of r bs.
Proof. intros H. apply skip_count_len in H. destruct H as (_ & _ & ->). apply suffix_skipn. Qed.

Section SkipLoopsSuffix.
  Variable skp : Z -> list Z -> option (list Z).
  Hypothesis skp_suf : forall t b r, skp t b = Some r -> suffix_of r b.

  Lemma skip_one_suffix t bs r : skip_one skp t bs = Some r -> suffix_of r bs.
  Proof.
    unfold skip_one. destruct (fixed_size t >? 0); [apply drop_suffix|].
    destruct (t =? T_STRING); [apply skipstr_suffix|apply skp_suf].
  Qed.

  Lemma skip_fields_suffix : forall f bs r, skip_fields skp f bs = Some r -> suffix_of r bs.
  Proof.
    induction f as [|f IH]; intros bs r; cbn [skip_fields]; [discriminate|].
    destruct bs as [|t r0]; [discriminate|].
    destruct (t =? 0). { intros H; inversion H; subst. apply suffix_cons, suffix_refl. }
    destruct (drop 2 r0) as [r2|] eqn:E2; [|discriminate]. cbv zeta.
    destruct (if fixed_size t >? 0 then drop (fixed_size t) r2 else skp t r2) as [r3|] eqn:E3; [|discriminate].
    intros H. apply IH in H. apply suffix_cons. apply drop_suffix in E2.
    assert (suffix_of r3 r2). { destruct (fixed_size t >? 0); [eapply drop_suffix|eapply skp_suf]; eassumption. }
    eapply suffix_trans; [eassumption|]. eapply suffix_trans; eassumption.
  Qed.

  Lemma skip_elems_suffix : forall n t bs r, skip_elems skp n t bs = Some r -> suffix_of r bs.
  Proof.
    induction n as [|n IH]; intros t bs r; cbn [skip_elems].
    - intros H; inversion H; apply suffix_refl.
    - destruct (skip_one skp t bs) as [r1|] eqn:E; [|discriminate]. intros H. apply IH in H. apply skip_one_suffix in E.
      eapply suffix_trans; eassumption.
  Qed.

  Lemma skip_pairs_suffix : forall n kt vt bs r, skip_pairs skp n kt vt bs = Some r -> suffix_of r bs.
  Proof.
    induction n as [|n IH]; intros kt vt bs r; cbn [skip_pairs].
    - intros H; inversion H; apply suffix_refl.
    - destruct (skip_one skp kt bs) as [r1|] eqn:E; [|discriminate].
      destruct (skip_one skp vt r1) as [r2|] eqn:E2; [|discriminate].
      intros H. apply IH in H. apply skip_one_suffix in E. apply skip_one_suffix in E2.
      eapply suffix_trans; [eassumption|]. eapply suffix_trans; eassumption.
  Qed.
End SkipLoopsSuffix.

Theorem skip_suffix : forall d t bs r, skip d t bs = Some r -> suffix_of r bs.
Proof.
  induction d as [|d IH]; intros t bs r; [discriminate|].
  rewrite skip_S. cbv zeta.
  destruct (fixed_size t >? 0); [apply drop_suffix|].
  destruct (t =? T_STRING); [apply skipstr_suffix|].
  destruct (t =? T_STRUCT); [apply skip_fields_suffix; assumption|].
  destruct (t =? T_MAP).
  { destruct bs as [|kt [|vt r0]]; try discriminate.
    destruct (skip_count r0) as [[sz r2]|] eqn:Ec; [|discriminate]. apply skip_count_suffix in Ec.
    assert (forall x, suffix_of x r2 -> suffix_of x (kt :: vt :: r0)).
    { intros x Hx. do 2 apply suffix_cons. eapply suffix_trans; eassumption. }
    destruct ((fixed_size kt >? 0) && (fixed_size vt >? 0)).
    - intros Hd. apply drop_suffix in Hd. auto.
    - destruct (sz >? zlen r2); [discriminate|]. intros Hd. apply skip_pairs_suffix in Hd; auto. }
  destruct ((t =? T_SET) || (t =? T_LIST)); [|discriminate].
  destruct bs as [|et r0]; try discriminate.
  destruct (skip_count r0) as [[sz r2]|] eqn:Ec; [|discriminate]. apply skip_count_suffix in Ec.
  assert (forall x, suffix_of x r2 -> suffix_of x (et :: r0)).
  { intros x Hx. apply suffix_cons. eapply suffix_trans; eassumption. }
  destruct (fixed_size et >? 0).
  - intros Hd. apply drop_suffix in Hd. auto.
  - destruct (sz >? zlen r2); [discriminate|]. intros Hd. apply skip_elems_suffix in Hd; auto.
Qed.

(* (stated on skip_go and proved by [apply] on the goal: converting a HYPOTHESIS about skip_go into one about
   skip max_skip_depth makes the kernel unfold the 1023-deep fixpoint) *)
Corollary skip_go_suffix_of t bs r : skip_go t bs = Some r -> suffix_of r bs.
Proof. apply skip_suffix. Qed.

(* skip returns a strictly shorter suffix: r = skipn n bs with 1 <= n <= |bs| *)
Corollary skip_go_suffix t bs r : skip_go t bs = Some r ->
  exists n, (1 <= n <= length bs)%nat /\ r = skipn n bs.
Proof.
  intros H. pose proof (skip_go_shrinks _ _ _ H) as Hl. apply skip_go_suffix_of in H. destruct H as [n ->].
  rewrite skipn_length in Hl. exists (Nat.min n (length bs)). split; [lia|].
  destruct (Nat.le_ge_cases n (length bs)).
  - rewrite Nat.min_l by assumption. reflexivity.
  - rewrite Nat.min_r by assumption. rewrite skipn_all. apply skipn_all2. assumption.
Qed.

(* ---- the byte-level searches ---- *)
Theorem search_field_fuel_stable : forall f f' id bs off, (length bs < f)%nat -> (length bs < f')%nat ->
  search_field f id bs off = search_field f' id bs off.
Proof.
  induction f as [|f IH]; intros f' id bs off Hf Hf'; [lia|]. destruct f' as [|f']; [lia|]. cbn [search_field].
  destruct bs as [|t r]; [reflexivity|].
  destruct (t =? 0); [reflexivity|].
  destruct (take 2 r) as [[idb r2]|] eqn:E2; [|reflexivity]. apply take_len in E2.
  destruct (dec_int idb =? id); [reflexivity|].
  destruct (skip_go t r2) as [r3|] eqn:E3; [|reflexivity]. apply skip_go_shrinks in E3.
  cbn [length] in *. apply IH; lia.
Qed.

(* search results: the found element starts at off + (bytes consumed), and the rest is no longer than the input *)
Definition sres_inside (sr : sres) (bs : list Z) (off : Z) : Prop :=
  match sr with
  | SFound _ o rest => o = off + (zlen bs - zlen rest) /\ zlen rest <= zlen bs /\ suffix_of rest bs
  | _ => True
  end.

Lemma search_field_inside : forall f id bs off, sres_inside (search_field f id bs off) bs off.
Proof.
  induction f as [|f IH]; intros id bs off; cbn [search_field]; [exact I|].
  destruct bs as [|t r]; [exact I|].
  destruct (t =? 0); [exact I|].
  destruct (take 2 r) as [[idb r2]|] eqn:E2; [|exact I]. pose proof (take_suffix _ _ _ _ E2) as S2. apply take_len in E2.
  destruct (dec_int idb =? id).
  { cbn [sres_inside]. unfold zlen. cbn [length]. split; [lia|]. split; [lia|]. apply suffix_cons; assumption. }
  destruct (skip_go t r2) as [r3|] eqn:E3; [|exact I].
  pose proof (skip_go_suffix_of _ _ _ E3) as S3. apply skip_go_shrinks in E3.
  specialize (IH id r3 (off + 3 + (zlen r2 - zlen r3))).
  destruct (search_field f id r3 _) as [t' o rest| |]; try exact I.
  cbn [sres_inside] in *. destruct IH as (Ho & Hl & Hs). unfold zlen in *. cbn [length].
  split; [lia|]. split; [lia|]. apply suffix_cons. eapply suffix_trans; [eassumption|]. eapply suffix_trans; eassumption.
Qed.

Lemma search_nth_inside : forall n et bs off, sres_inside (search_nth n et bs off) bs off.
Proof.
  induction n as [|n IH]; intros et bs off; cbn [search_nth].
  - cbn. split; [lia|]. split; [lia|apply suffix_refl].
  - destruct (skip_go et bs) as [r|] eqn:E; [|exact I].
    pose proof (skip_go_suffix_of _ _ _ E) as S1. apply skip_go_shrinks in E.
    specialize (IH et r (off + (zlen bs - zlen r))).
    destruct (search_nth n et r _) as [t' o rest| |]; try exact I.
    cbn [sres_inside] in *. destruct IH as (Ho & Hl & Hs). unfold zlen in *.
    split; [lia|]. split; [lia|]. eapply suffix_trans; eassumption.
Qed.

Lemma search_index_inside i bs : sres_inside (search_index i bs) bs 0.
Proof.
  unfold search_index. destruct bs as [|et r]; [exact I|].
  destruct (skip_count r) as [[sz r2]|] eqn:Ec; [|exact I].
  pose proof (skip_count_suffix _ _ _ Ec) as Sc. apply skip_count_len in Ec.
  destruct (i <? 0); [exact I|]. destruct (i >=? sz); [exact I|].
  pose proof (search_nth_inside (Z.to_nat i) et r2 5) as H.
  destruct (search_nth _ et r2 5) as [t' o rest| |]; try exact I.
  cbn [sres_inside] in *. destruct H as (Ho & Hl & Hs). unfold zlen in *. cbn [length].
  split; [lia|]. split; [lia|]. apply suffix_cons. eapply suffix_trans; eassumption.
Qed.

Lemma search_pairs_inside rdkey vt :
  (forall b hit r, rdkey b = Some (hit, r) -> suffix_of r b) ->
  forall n bs off, sres_inside (search_pairs n rdkey vt bs off) bs off.
Proof.
  intros Hk. induction n as [|n IH]; intros bs off; cbn [search_pairs]; [exact I|].
  destruct (rdkey bs) as [[hit r]|] eqn:E; [|exact I]. apply Hk in E. pose proof (suffix_length _ _ E) as L1.
  cbv zeta. destruct hit.
  { cbn. unfold zlen. split; [lia|]. split; [lia|assumption]. }
  destruct (skip_go vt r) as [r2|] eqn:E2; [|exact I].
  pose proof (skip_go_suffix_of _ _ _ E2) as S2. apply skip_go_shrinks in E2.
  specialize (IH r2 (off + (zlen bs - zlen r) + (zlen r - zlen r2))).
  destruct (search_pairs n rdkey vt r2 _) as [t' o rest| |]; try exact I.
  cbn [sres_inside] in *. destruct IH as (Ho & Hl & Hs). unfold zlen in *.
  split; [lia|]. split; [lia|]. eapply suffix_trans; [eassumption|]. eapply suffix_trans; eassumption.
Qed.

Lemma dec_scalar_suffix t bs v r : dec_scalar t bs = Some (v, r) -> suffix_of r bs.
Proof.
  unfold dec_scalar.
  destruct (t =? T_BOOL). { destruct bs; [discriminate|]. intros H; inversion H; subst. apply suffix_cons, suffix_refl. }
  destruct (t =? T_BYTE). { destruct (take 1 bs) as [[x r1]|] eqn:E; [|discriminate]. intros H; inversion H; subst. eapply take_suffix; eassumption. }
  destruct (t =? T_I16). { destruct (take 2 bs) as [[x r1]|] eqn:E; [|discriminate]. intros H; inversion H; subst. eapply take_suffix; eassumption. }
  destruct (t =? T_I32). { destruct (take 4 bs) as [[x r1]|] eqn:E; [|discriminate]. intros H; inversion H; subst. eapply take_suffix; eassumption. }
  destruct (t =? T_I64). { destruct (take 8 bs) as [[x r1]|] eqn:E; [|discriminate]. intros H; inversion H; subst. eapply take_suffix; eassumption. }
  destruct (t =? T_DOUBLE). { destruct (take 8 bs) as [[x r1]|] eqn:E; [|discriminate]. intros H; inversion H; subst. eapply take_suffix; eassumption. }
  destruct (t =? T_STRING); [|discriminate].
  destruct (take 4 bs) as [[x r1]|] eqn:E; [|discriminate]. cbv zeta.
  destruct (dec_int x <? 0); [discriminate|].
  destruct (take (Z.to_nat (dec_int x)) r1) as [[s r2]|] eqn:E2; [|discriminate].
  intros H; inversion H; subst. eapply suffix_trans; eapply take_suffix; eassumption.
Qed.

Lemma rd_str_key_suffix s b hit r : rd_str_key s b = Some (hit, r) -> suffix_of r b.
Proof.
  unfold rd_str_key. destruct (dec_scalar T_STRING b) as [[v r1]|] eqn:E; [|discriminate].
  apply dec_scalar_suffix in E. destruct v; try discriminate. intros H; inversion H; subst. assumption.
Qed.

Lemma rd_int_key_suffix kt n b hit r : rd_int_key kt n b = Some (hit, r) -> suffix_of r b.
Proof.
  unfold rd_int_key. destruct (dec_scalar kt b) as [[v r1]|] eqn:E; [|discriminate].
  apply dec_scalar_suffix in E. destruct (int_of_key v); [|discriminate]. intros H; inversion H; subst. assumption.
Qed.

Lemma rd_bin_key_suffix kt k b hit r : rd_bin_key kt k b = Some (hit, r) -> suffix_of r b.
Proof.
  unfold rd_bin_key. destruct (skip_go kt b) as [r1|] eqn:E; [|discriminate].
  apply skip_go_suffix_of in E. intros H; inversion H; subst. assumption.
Qed.

Lemma search_map_inside s bs : sres_inside (search_map s bs) bs 0.
Proof.
  unfold search_map. destruct bs as [|kt [|vt r]]; try exact I.
  destruct (skip_count r) as [[sz r2]|] eqn:Ec; [|exact I].
  pose proof (skip_count_suffix _ _ _ Ec) as Sc. apply skip_count_len in Ec. cbv zeta.
  assert (G : forall rdkey, (forall b hit r, rdkey b = Some (hit, r) -> suffix_of r b) ->
              sres_inside (search_pairs (Z.to_nat (Z.min sz (zlen r2 + 1))) rdkey vt r2 6) (kt :: vt :: r) 0).
  { intros rdkey Hk. pose proof (search_pairs_inside rdkey vt Hk (Z.to_nat (Z.min sz (zlen r2 + 1))) r2 6) as H.
    destruct (search_pairs _ rdkey vt r2 6) as [t' o rest| |]; try exact I.
    cbn [sres_inside] in *. destruct H as (Ho & Hl & Hs). unfold zlen in *. cbn [length].
    split; [lia|]. split; [lia|]. do 2 apply suffix_cons. eapply suffix_trans; eassumption. }
  destruct s; try exact I.
  - destruct (kt =? T_STRING); [|exact I]. apply G. apply rd_str_key_suffix.
  - destruct (is_int_type kt); [|exact I]. apply G. apply rd_int_key_suffix.
  - apply G. apply rd_bin_key_suffix.
Qed.

Theorem search1_inside t s bs : sres_inside (search1 t s bs) bs 0.
Proof.
  unfold search1. destruct s.
  - destruct (t =? T_STRUCT); [apply search_field_inside|exact I].
  - destruct ((t =? T_LIST) || (t =? T_SET)); [apply search_index_inside|exact I].
  - destruct (t =? T_MAP); [apply search_map_inside|exact I].
  - destruct (t =? T_MAP); [apply search_map_inside|exact I].
  - destruct (t =? T_MAP); [apply search_map_inside|exact I].
Qed.

(* the span handed back by get_by_path lies inside the buffer (and is not empty) — on arbitrary bytes *)
Theorem get_by_path_in_bounds : forall p t bs off t' s e,
  get_by_path t bs off p = GFound t' s e -> off <= s /\ s < e /\ e <= off + zlen bs.
Proof.
  induction p as [|st p IH]; intros t bs off t' s e; cbn [get_by_path].
  - destruct (skip_go t bs) as [r|] eqn:E; [|discriminate]. apply skip_go_shrinks in E.
    intros H; inversion H; subst. unfold zlen. lia.
  - pose proof (search1_inside t st bs) as Hs.
    destruct (search1 t st bs) as [t1 o rest| |]; try discriminate.
    cbn [sres_inside] in Hs. destruct Hs as (Ho & Hl & _).
    intros H. apply IH in H. pose proof (zlen_nonneg rest). lia.
Qed.

(* ---- fuel-explicit copies: the field search runs on the fuel f at EVERY step of the path ---- *)
Definition search1_f (f : nat) (t : Z) (s : pstep) (bs : list Z) : sres :=
  match s with
  | PField id => if t =? T_STRUCT then search_field f id bs 0 else SErr
  | PIndex i => if (t =? T_LIST) || (t =? T_SET) then search_index i bs else SErr
  | _ => if t =? T_MAP then search_map s bs else SErr
  end.

Fixpoint get_by_path_f (f : nat) (t : Z) (bs : list Z) (off : Z) (p : list pstep) : gres :=
  match p with
  | [] => match skip_go t bs with
          | Some r => GFound t off (off + (zlen bs - zlen r))
          | None => GErr
          end
  | s :: p' =>
    match search1_f f t s bs with
    | SFound t' o rest => get_by_path_f f t' rest (off + o) p'
    | SNotFound => GNotFound
    | SErr => GErr
    end
  end.

Lemma search1_f_total f t s bs : (length bs < f)%nat -> search1_f f t s bs = search1 t s bs.
Proof.
  intros Hf. unfold search1_f, search1. destruct s; try reflexivity.
  destruct (t =? T_STRUCT); [|reflexivity]. apply search_field_fuel_stable; lia.
Qed.

(* every fuel above the length of the ROOT buffer gives the model's answer: an SErr/GErr of get_by_path is never
   "the field loop ran out of fuel" *)
Theorem get_by_path_total : forall p f t bs off, (length bs < f)%nat ->
  get_by_path_f f t bs off p = get_by_path t bs off p.
Proof.
  induction p as [|st p IH]; intros f t bs off Hf; cbn [get_by_path_f get_by_path]; [reflexivity|].
  rewrite search1_f_total by assumption.
  pose proof (search1_inside t st bs) as Hs.
  destruct (search1 t st bs) as [t1 o rest| |]; try reflexivity.
  cbn [sres_inside] in Hs. destruct Hs as (_ & Hl & _). apply IH. unfold zlen in Hl. lia.
Qed.

(* ====================================================================================================== *)
(* (2) T2JBytes: the Thrift -> JSON byte walk                                                               *)
(* ====================================================================================================== *)
From DG Require Import Json Num Base64 T2J T2JUnset T2JBytes.

Lemma rd_int_len n bs z r : rd_int n bs = Some (z, r) -> (length bs = n + length r)%nat.
Proof.
  unfold rd_int. destruct (take n bs) as [[x r1]|] eqn:E; [|discriminate]. intros H; inversion H; subst.
  apply take_len in E. lia.
Qed.

Lemma rd_uint_len n bs z r : rd_uint n bs = Some (z, r) -> (length bs = n + length r)%nat.
Proof.
  unfold rd_uint. destruct (take n bs) as [[x r1]|] eqn:E; [|discriminate]. intros H; inversion H; subst.
  apply take_len in E. lia.
Qed.

Lemma rd_bytes_len bs s r : rd_bytes bs = Some (s, r) -> (4 + length r <= length bs)%nat.
Proof.
  unfold rd_bytes. destruct (rd_int 4 bs) as [[n r1]|] eqn:E; [|discriminate]. apply rd_int_len in E.
  destruct ((n <? 0) || (n >? zlen r1)); [discriminate|]. intros H; inversion H; subst.
  rewrite skipn_length. lia.
Qed.

Lemma find_field_in fs : forall id fl, T2J.find_field fs id = Some fl -> In fl fs.
Proof.
  induction fs as [|f fs IH]; intros id fl; cbn [T2J.find_field]; [discriminate|].
  destruct (f_id (fst f) =? id).
  - intros H; inversion H; subst. left; reflexivity.
  - intros H. right. eapply IH; eassumption.
Qed.

Section T2JWalkTotal.
  Variable fd : Z -> list Z.
  Variable o : Z.

  (* scalars take >= 1 byte, strings >= 4, map keys >= 1 *)
  Lemma walk_scalar_shrinks t bs txt r : walk_scalar fd o t bs = Some (txt, r) -> (length r < length bs)%nat.
  Proof.
    unfold walk_scalar.
    destruct (t =? T_BOOL). { destruct bs; [discriminate|]. intros H; inversion H; subst. cbn [length]. lia. }
    destruct (t =? T_BYTE). { destruct (rd_int 1 bs) as [[z r1]|] eqn:E; [|discriminate]. intros H; inversion H; subst. apply rd_int_len in E. lia. }
    destruct (t =? T_I16). { destruct (rd_int 2 bs) as [[z r1]|] eqn:E; [|discriminate]. intros H; inversion H; subst. apply rd_int_len in E. lia. }
    destruct (t =? T_I32). { destruct (rd_int 4 bs) as [[z r1]|] eqn:E; [|discriminate]. intros H; inversion H; subst. apply rd_int_len in E. lia. }
    destruct (t =? T_I64). { destruct (rd_int 8 bs) as [[z r1]|] eqn:E; [|discriminate]. intros H; inversion H; subst. apply rd_int_len in E. lia. }
    destruct (t =? T_DOUBLE); [|discriminate].
    destruct (rd_uint 8 bs) as [[z r1]|] eqn:E; [|discriminate]. destruct (f64_is_finite z); [|discriminate].
    intros H; inversion H; subst. apply rd_uint_len in E. lia.
  Qed.

  Lemma walk_string_shrinks b bs txt r : walk_string o b bs = Some (txt, r) -> (4 + length r <= length bs)%nat.
  Proof.
    unfold walk_string. destruct (rd_bytes bs) as [[s r1]|] eqn:E; [|discriminate]. intros H; inversion H; subst.
    apply rd_bytes_len in E. assumption.
  Qed.

  Lemma walk_key_t_shrinks t bs txt r : walk_key_t o t bs = Some (txt, r) -> (length r < length bs)%nat.
  Proof.
    unfold walk_key_t.
    destruct (t =? T_BYTE). { destruct (rd_int 1 bs) as [[z r1]|] eqn:E; [|discriminate]. intros H; inversion H; subst. apply rd_int_len in E. lia. }
    destruct (t =? T_I16). { destruct (rd_int 2 bs) as [[z r1]|] eqn:E; [|discriminate]. intros H; inversion H; subst. apply rd_int_len in E. lia. }
    destruct (t =? T_I32). { destruct (rd_int 4 bs) as [[z r1]|] eqn:E; [|discriminate]. intros H; inversion H; subst. apply rd_int_len in E. lia. }
    destruct (t =? T_I64). { destruct (rd_int 8 bs) as [[z r1]|] eqn:E; [|discriminate]. intros H; inversion H; subst. apply rd_int_len in E. lia. }
    destruct (t =? T_STRING); [|discriminate].
    destruct (rd_bytes bs) as [[s r1]|] eqn:E; [|discriminate]. intros H; inversion H; subst. apply rd_bytes_len in E. lia.
  Qed.

  Lemma walk_key_shrinks dk bs txt r : walk_key o dk bs = Some (txt, r) -> (length r < length bs)%nat.
  Proof. apply walk_key_t_shrinks. Qed.

  (* value mapping (api.js_conv): one quoted scalar, or a list of quoted scalars; every case consumes >= 1 byte *)
  Lemma walk_vm_scalar_shrinks t bs txt r : walk_vm_scalar fd o t bs = Some (txt, r) -> (length r < length bs)%nat.
  Proof.
    unfold walk_vm_scalar. destruct (t =? T_DOUBLE); [|apply walk_key_t_shrinks].
    destruct (rd_uint 8 bs) as [[z r1]|] eqn:E; [|discriminate]. destruct (f64_is_finite z); [|discriminate].
    intros H; inversion H; subst. apply rd_uint_len in E. lia.
  Qed.

  Lemma walk_vm_elems_le : forall n et c bs txt r, walk_vm_elems fd o n et c bs = Some (txt, r) -> (length r <= length bs)%nat.
  Proof.
    induction n as [|n IH]; intros et c bs txt r; cbn [walk_vm_elems].
    - intros H; inversion H; subst. lia.
    - destruct (walk_vm_scalar fd o et bs) as [[t1 r1]|] eqn:E1; [|discriminate]. apply walk_vm_scalar_shrinks in E1.
      destruct (walk_vm_elems fd o n et true r1) as [[tl r2]|] eqn:E2; [|discriminate]. apply IH in E2.
      intros H; inversion H; subst. lia.
  Qed.

  Lemma walk_vm_shrinks d bs txt r : walk_vm fd o d bs = Some (txt, r) -> (length r < length bs)%nat.
  Proof.
    unfold walk_vm. destruct d as [t|b|fs|dk dv|s de]; try apply walk_vm_scalar_shrinks.
    destruct s; [apply walk_vm_scalar_shrinks|].
    destruct bs as [|et r0]; [discriminate|].
    destruct (negb (valid_ttype et)); [discriminate|].
    destruct (skip_count r0) as [[sz r2]|] eqn:Ec; [|discriminate]. apply skip_count_len in Ec.
    destruct (sz >? zlen r2); [discriminate|].
    destruct (walk_vm_elems fd o (Z.to_nat sz) et false r2) as [[t r3]|] eqn:E; [|discriminate]. apply walk_vm_elems_le in E.
    intros H; inversion H; subst. cbn [length]. lia.
  Qed.

  (* ---- the loops, for any one-level-down walker whose remainders are no longer than its inputs ---- *)
  Section LoopsShrink.
    Variable rec : tdesc -> list Z -> option (list Z * list Z).
    Variable bx : fmeta -> bool.
    Hypothesis rec_le : forall d b t r, rec d b = Some (t, r) -> (length r <= length b)%nat.

    (* the value of a known field: by value mapping or by the one-level-down walker *)
    Lemma field_value_le (fl : fmeta * tdesc) r2 t1 r3 :
      (if o_value_mapping o && f_jsconv (fst fl) then walk_vm fd o (snd fl) r2 else rec (snd fl) r2) = Some (t1, r3) ->
      (length r3 <= length r2)%nat.
    Proof.
      destruct (o_value_mapping o && f_jsconv (fst fl)).
      - intros H. apply walk_vm_shrinks in H. lia.
      - apply rec_le.
    Qed.

    Lemma walk_fields_shrinks : forall f fs c bm bs txt r,
      walk_fields fd o rec bx f fs c bm bs = Some (txt, r) -> (length r < length bs)%nat.
    Proof.
      induction f as [|f IH]; intros fs c bm bs txt r; cbn [walk_fields]; [discriminate|].
      destruct bs as [|t r0]; [discriminate|].
      destruct (negb (valid_ttype t)); [discriminate|].
      destruct (t =? 0).
      { destruct (walk_unsets fd o (sort_flds fs) bm c); [|discriminate]. intros H; inversion H; subst. cbn [length]. lia. }
      destruct (rd_int 2 r0) as [[id r2]|] eqn:E2; [|discriminate]. apply rd_int_len in E2. cbn [length].
      destruct (T2J.find_field fs id) as [fl|].
      - destruct (bx (fst fl)).
        { destruct (skip_go T_STRUCT r2) as [r3|] eqn:E3; [|discriminate]. apply skip_go_shrinks in E3.
          intros H. apply IH in H. lia. }
        destruct (if o_value_mapping o && f_jsconv (fst fl) then walk_vm fd o (snd fl) r2 else rec (snd fl) r2)
          as [[t1 r3]|] eqn:E3; [|discriminate]. apply field_value_le in E3.
        destruct (walk_fields fd o rec bx f fs true (bm_clear id bm) r3) as [[tl r4]|] eqn:E4; [|discriminate].
        apply IH in E4. intros H; inversion H; subst. lia.
      - destruct (o_disallow_unknown o); [discriminate|].
        destruct (skip_go t r2) as [r3|] eqn:E3; [|discriminate]. apply skip_go_shrinks in E3.
        intros H. apply IH in H. lia.
    Qed.

    Lemma walk_elems_le : forall n de c bs txt r, walk_elems rec n de c bs = Some (txt, r) -> (length r <= length bs)%nat.
    Proof.
      induction n as [|n IH]; intros de c bs txt r; cbn [walk_elems].
      - intros H; inversion H; subst. lia.
      - destruct (rec de bs) as [[t1 r1]|] eqn:E1; [|discriminate]. apply rec_le in E1.
        destruct (walk_elems rec n de true r1) as [[tl r2]|] eqn:E2; [|discriminate]. apply IH in E2.
        intros H; inversion H; subst. lia.
    Qed.

    Lemma walk_pairs_le : forall n dk dv c bs txt r, walk_pairs o rec n dk dv c bs = Some (txt, r) -> (length r <= length bs)%nat.
    Proof.
      induction n as [|n IH]; intros dk dv c bs txt r; cbn [walk_pairs].
      - intros H; inversion H; subst. lia.
      - destruct (walk_key o dk bs) as [[kt r0]|] eqn:E0; [|discriminate]. apply walk_key_shrinks in E0.
        destruct (rec dv r0) as [[t1 r1]|] eqn:E1; [|discriminate]. apply rec_le in E1.
        destruct (walk_pairs o rec n dk dv true r1) as [[tl r2]|] eqn:E2; [|discriminate]. apply IH in E2.
        intros H; inversion H; subst. lia.
    Qed.
  End LoopsShrink.

  (* ---- a: every value the walk reads takes at least one byte, at every nesting budget, on arbitrary bytes ---- *)
  Theorem t2j_walk_shrinks : forall n d bs txt r, t2j_walk_gen fd o n d bs = Some (txt, r) -> (length r < length bs)%nat.
  Proof.
    induction n as [|n IH]; intros d bs txt r; destruct d as [t|b|fs|dk dv|s de]; cbn [t2j_walk_gen];
      try discriminate; try apply walk_scalar_shrinks;
      try (intros H; apply walk_string_shrinks in H; lia).
    - destruct (walk_fields fd o (t2j_walk_gen fd o n) (fun _ => false) (S (length bs)) fs false (bm_init fs) bs) as [[t r1]|] eqn:E; [|discriminate].
      apply walk_fields_shrinks in E.
      + intros H; inversion H; subst. assumption.
      + intros d0 b0 t0 r0 H0. apply IH in H0. lia.
    - destruct bs as [|kt [|vt r0]]; try discriminate.
      destruct (negb (valid_ttype kt && valid_ttype vt)); [discriminate|].
      destruct (skip_count r0) as [[sz r2]|] eqn:Ec; [|discriminate]. apply skip_count_len in Ec.
      destruct (negb ((kt =? desc_type dk) && (vt =? desc_type dv))); [discriminate|].
      destruct (sz >? zlen r2); [discriminate|].
      destruct (walk_pairs o (t2j_walk_gen fd o n) (Z.to_nat sz) dk dv false r2) as [[t r3]|] eqn:E; [|discriminate].
      apply walk_pairs_le in E.
      + intros H; inversion H; subst. cbn [length]. lia.
      + intros d0 b0 t0 r1 H0. apply IH in H0. lia.
    - destruct bs as [|et r0]; try discriminate.
      destruct (negb (valid_ttype et)); [discriminate|].
      destruct (skip_count r0) as [[sz r2]|] eqn:Ec; [|discriminate]. apply skip_count_len in Ec.
      destruct (negb (et =? desc_type de)); [discriminate|].
      destruct (sz >? zlen r2); [discriminate|].
      destruct (walk_elems (t2j_walk_gen fd o n) (Z.to_nat sz) de false r2) as [[t r3]|] eqn:E; [|discriminate].
      apply walk_elems_le in E.
      + intros H; inversion H; subst. cbn [length]. lia.
      + intros d0 b0 t0 r1 H0. apply IH in H0. lia.
  Qed.

  Lemma t2j_walk_le n d bs txt r : t2j_walk_gen fd o n d bs = Some (txt, r) -> (length r <= length bs)%nat.
  Proof. intros H. apply t2j_walk_shrinks in H. lia. Qed.

  (* ---- b: the loops do not depend on the fuel, nor on the one-level-down walker outside the buffers it can be
     handed (suffixes of the current buffer) ---- *)
  Section LoopsExt.
    Variables rec rec' : tdesc -> list Z -> option (list Z * list Z).
    Variable bx : fmeta -> bool.
    Hypothesis rec'_le : forall d b t r, rec' d b = Some (t, r) -> (length r <= length b)%nat.

    Lemma walk_fields_ext_fuel : forall f f' fs c bm bs, (length bs < f)%nat -> (length bs < f')%nat ->
      (forall fl b, In fl fs -> (length b <= length bs)%nat -> rec (snd fl) b = rec' (snd fl) b) ->
      walk_fields fd o rec bx f fs c bm bs = walk_fields fd o rec' bx f' fs c bm bs.
    Proof.
      induction f as [|f IH]; intros f' fs c bm bs Hf Hf' Hext; [lia|]. destruct f' as [|f']; [lia|]. cbn [walk_fields].
      destruct bs as [|t r0]; [reflexivity|].
      destruct (negb (valid_ttype t)); [reflexivity|].
      destruct (t =? 0); [reflexivity|].
      destruct (rd_int 2 r0) as [[id r2]|] eqn:E2; [|reflexivity]. apply rd_int_len in E2. cbn [length] in *.
      destruct (T2J.find_field fs id) as [fl|] eqn:Ef.
      - apply find_field_in in Ef. destruct (bx (fst fl)).
        { destruct (skip_go T_STRUCT r2) as [r3|] eqn:E3; [|reflexivity]. apply skip_go_shrinks in E3.
          apply IH; [lia|lia|]. intros fl0 b Hin Hb. apply Hext; [assumption|lia]. }
        rewrite (Hext fl r2 Ef) by lia.
        destruct (if o_value_mapping o && f_jsconv (fst fl) then walk_vm fd o (snd fl) r2 else rec' (snd fl) r2)
          as [[t1 r3]|] eqn:E3; [|reflexivity]. apply (field_value_le rec' rec'_le) in E3.
        rewrite (IH f' fs true (bm_clear id bm) r3); [reflexivity|lia|lia|].
        intros fl0 b Hin Hb. apply Hext; [assumption|lia].
      - destruct (o_disallow_unknown o); [reflexivity|].
        destruct (skip_go t r2) as [r3|] eqn:E3; [|reflexivity]. apply skip_go_shrinks in E3.
        apply IH; [lia|lia|]. intros fl0 b Hin Hb. apply Hext; [assumption|lia].
    Qed.

    Lemma walk_elems_ext : forall n de c bs,
      (forall b, (length b <= length bs)%nat -> rec de b = rec' de b) ->
      walk_elems rec n de c bs = walk_elems rec' n de c bs.
    Proof.
      induction n as [|n IH]; intros de c bs Hext; cbn [walk_elems]; [reflexivity|].
      rewrite Hext by lia.
      destruct (rec' de bs) as [[t1 r1]|] eqn:E1; [|reflexivity]. apply rec'_le in E1.
      rewrite (IH de true r1); [reflexivity|]. intros b Hb. apply Hext. lia.
    Qed.

    Lemma walk_pairs_ext : forall n dk dv c bs,
      (forall b, (length b <= length bs)%nat -> rec dv b = rec' dv b) ->
      walk_pairs o rec n dk dv c bs = walk_pairs o rec' n dk dv c bs.
    Proof.
      induction n as [|n IH]; intros dk dv c bs Hext; cbn [walk_pairs]; [reflexivity|].
      destruct (walk_key o dk bs) as [[kt r0]|] eqn:E0; [|reflexivity]. apply walk_key_shrinks in E0.
      rewrite Hext by lia.
      destruct (rec' dv r0) as [[t1 r1]|] eqn:E1; [|reflexivity]. apply rec'_le in E1.
      rewrite (IH dk dv true r1); [reflexivity|]. intros b Hb. apply Hext. lia.
    Qed.
  End LoopsExt.

  Theorem walk_fields_fuel_stable rec bx :
    (forall d b t r, rec d b = Some (t, r) -> (length r <= length b)%nat) ->
    forall f f' fs c bm bs, (length bs < f)%nat -> (length bs < f')%nat ->
    walk_fields fd o rec bx f fs c bm bs = walk_fields fd o rec bx f' fs c bm bs.
  Proof. intros Hle f f' fs c bm bs Hf Hf'. apply walk_fields_ext_fuel; auto. Qed.

  (* ---- c: the nesting budget: the walk descends only along the descriptor, which is a finite tree ---- *)
  Fixpoint desc_height (d : tdesc) : nat :=
    match d with
    | DScalar _ | DString _ => O
    | DStruct fs => S (fold_right (fun f m => Nat.max (desc_height (snd f)) m) O fs)
    | DMap dk dv => S (Nat.max (desc_height dk) (desc_height dv))
    | DList _ de => S (desc_height de)
    end.

  Lemma desc_height_field (fs : list (fmeta * tdesc)) fl n :
    (fold_right (fun f m => Nat.max (desc_height (snd f)) m) O fs <= n)%nat -> In fl fs -> (desc_height (snd fl) <= n)%nat.
  Proof.
    intros H Hin. apply (fold_max_le (fun f => desc_height (snd f))) in H.
    rewrite Forall_forall in H. apply H. assumption.
  Qed.

  Theorem t2j_walk_depth_stable : forall n n' d bs, (desc_height d <= n)%nat -> (desc_height d <= n')%nat ->
    t2j_walk_gen fd o n d bs = t2j_walk_gen fd o n' d bs.
  Proof.
    induction n as [|n IH]; intros n' d bs Hn Hn'; destruct d as [t|b|fs|dk dv|s de]; cbn [desc_height] in Hn, Hn';
      try lia; destruct n' as [|n']; try lia; cbn [t2j_walk_gen]; try reflexivity.
    - rewrite (walk_fields_ext_fuel (t2j_walk_gen fd o n) (t2j_walk_gen fd o n') (fun _ => false) (t2j_walk_le n')
                 (S (length bs)) (S (length bs)) fs false (bm_init fs) bs); [reflexivity|lia|lia|].
      intros fl b Hin _. apply IH; eapply desc_height_field; try eassumption; lia.
    - destruct bs as [|kt [|vt r0]]; try reflexivity.
      destruct (negb (valid_ttype kt && valid_ttype vt)); [reflexivity|].
      destruct (skip_count r0) as [[sz r2]|]; [|reflexivity].
      destruct (negb ((kt =? desc_type dk) && (vt =? desc_type dv))); [reflexivity|].
      destruct (sz >? zlen r2); [reflexivity|].
      rewrite (walk_pairs_ext (t2j_walk_gen fd o n) (t2j_walk_gen fd o n') (t2j_walk_le n')); [reflexivity|].
      intros b _. apply IH; lia.
    - destruct bs as [|et r0]; try reflexivity.
      destruct (negb (valid_ttype et)); [reflexivity|].
      destruct (skip_count r0) as [[sz r2]|]; [|reflexivity].
      destruct (negb (et =? desc_type de)); [reflexivity|].
      destruct (sz >? zlen r2); [reflexivity|].
      rewrite (walk_elems_ext (t2j_walk_gen fd o n) (t2j_walk_gen fd o n') (t2j_walk_le n')); [reflexivity|].
      intros b _. apply IH; lia.
  Qed.

  (* ---- d: fuel-explicit copy: ONE field-loop fuel lf, used at every struct of the walk ---- *)
  Fixpoint t2j_walk_f (lf : nat) (n : nat) (d : tdesc) (bs : list Z) {struct n} : option (list Z * list Z) :=
    match d with
    | DScalar t => walk_scalar fd o t bs
    | DString b => walk_string o b bs
    | DStruct fs =>
      match n with
      | O => None
      | S n' =>
        match walk_fields fd o (t2j_walk_f lf n') (fun _ => false) lf fs false (bm_init fs) bs with
        | Some (t, r) => Some (123 :: t, r)
        | None => None
        end
      end
    | DMap dk dv =>
      match n with
      | O => None
      | S n' =>
        match bs with
        | kt :: vt :: r =>
          if negb (valid_ttype kt && valid_ttype vt) then None else
          match skip_count r with
          | None => None
          | Some (sz, r2) =>
            if negb ((kt =? desc_type dk) && (vt =? desc_type dv)) then None
            else if sz >? zlen r2 then None
            else match walk_pairs o (t2j_walk_f lf n') (Z.to_nat sz) dk dv false r2 with
                 | Some (t, r3) => Some (123 :: t, r3)
                 | None => None
                 end
          end
        | _ => None
        end
      end
    | DList _ de =>
      match n with
      | O => None
      | S n' =>
        match bs with
        | et :: r =>
          if negb (valid_ttype et) then None else
          match skip_count r with
          | None => None
          | Some (sz, r2) =>
            if negb (et =? desc_type de) then None
            else if sz >? zlen r2 then None
            else match walk_elems (t2j_walk_f lf n') (Z.to_nat sz) de false r2 with
                 | Some (t, r3) => Some (91 :: t, r3)
                 | None => None
                 end
          end
        | _ => None
        end
      end
    end.

  (* same nesting budget, any field-loop fuel above the length of the buffer: the model's answer *)
  Lemma t2j_walk_f_eq : forall n lf d bs, (length bs < lf)%nat -> t2j_walk_f lf n d bs = t2j_walk_gen fd o n d bs.
  Proof.
    induction n as [|n IH]; intros lf d bs Hlf; destruct d as [t|b|fs|dk dv|s de]; cbn [t2j_walk_f t2j_walk_gen]; try reflexivity.
    - rewrite (walk_fields_ext_fuel (t2j_walk_f lf n) (t2j_walk_gen fd o n) (fun _ => false) (t2j_walk_le n)
                 lf (S (length bs)) fs false (bm_init fs) bs); [reflexivity|lia|lia|].
      intros fl b _ Hb. apply IH. lia.
    - destruct bs as [|kt [|vt r0]]; try reflexivity.
      destruct (negb (valid_ttype kt && valid_ttype vt)); [reflexivity|].
      destruct (skip_count r0) as [[sz r2]|] eqn:Ec; [|reflexivity]. apply skip_count_len in Ec.
      destruct (negb ((kt =? desc_type dk) && (vt =? desc_type dv))); [reflexivity|].
      destruct (sz >? zlen r2); [reflexivity|].
      rewrite (walk_pairs_ext (t2j_walk_f lf n) (t2j_walk_gen fd o n) (t2j_walk_le n)); [reflexivity|].
      intros b Hb. apply IH. cbn [length] in Hlf. lia.
    - destruct bs as [|et r0]; try reflexivity.
      destruct (negb (valid_ttype et)); [reflexivity|].
      destruct (skip_count r0) as [[sz r2]|] eqn:Ec; [|reflexivity]. apply skip_count_len in Ec.
      destruct (negb (et =? desc_type de)); [reflexivity|].
      destruct (sz >? zlen r2); [reflexivity|].
      rewrite (walk_elems_ext (t2j_walk_f lf n) (t2j_walk_gen fd o n) (t2j_walk_le n)); [reflexivity|].
      intros b Hb. apply IH. cbn [length] in Hlf. lia.
  Qed.

  (* field fuel > |root buffer| and nesting budget >= height of the descriptor: the answer, whatever the two fuels.
     So  |bs| + 1  and  desc_height d  suffice, and more never changes the answer: a None of the walk is never
     "out of fuel" *)
  Theorem t2j_walk_total : forall lf lf' n n' d bs,
    (length bs < lf)%nat -> (length bs < lf')%nat -> (desc_height d <= n)%nat -> (desc_height d <= n')%nat ->
    t2j_walk_f lf n d bs = t2j_walk_f lf' n' d bs /\ t2j_walk_f lf n d bs = t2j_walk_gen fd o n' d bs.
  Proof.
    intros lf lf' n n' d bs Hlf Hlf' Hn Hn'.
    rewrite !t2j_walk_f_eq by assumption. split; apply t2j_walk_depth_stable; assumption.
  Qed.
End T2JWalkTotal.

(* the instance the checks run: t2j_walk = t2j_walk_gen f64_exact_lexeme *)
Corollary t2j_walk_budget_stable n n' o d bs : (desc_height d <= n)%nat -> (desc_height d <= n')%nat ->
  t2j_walk n o d bs = t2j_walk n' o d bs.
Proof. apply t2j_walk_depth_stable. Qed.

Corollary t2j_walk_progress n o d bs txt r : t2j_walk n o d bs = Some (txt, r) -> (length r < length bs)%nat.
Proof. apply t2j_walk_shrinks. Qed.

(* ====================================================================================================== *)
(* (3) P2JBytes: the protobuf -> JSON byte walk                                                             *)
(* ====================================================================================================== *)
From DG Require Import CaseFormat ProtoMsg P2J P2JBytes.

(* ---- elementary reads ---- *)
Lemma ptake_len n bs x r : ProtoMsg.take n bs = Some (x, r) ->
  0 <= n /\ (length bs = Z.to_nat n + length r)%nat /\ length x = Z.to_nat n.
Proof.
  unfold ProtoMsg.take. destruct ((0 <=? n) && (n <=? plen bs)) eqn:E; [|discriminate].
  apply andb_true_iff in E. destruct E as [E1 E2]. apply Z.leb_le in E1. apply Z.leb_le in E2. unfold plen in E2.
  intros H; inversion H; subst. rewrite skipn_length, firstn_length. lia.
Qed.

(* a successful varint read consumes between 1 and |bs| bytes *)
Lemma varint_dec_skip bs v n : varint_dec bs = (v, n) -> (n <? 0) = false ->
  (length (skipn (Z.to_nat n) bs) < length bs)%nat.
Proof.
  intros H Hn. apply Z.ltb_ge in Hn. apply varint_dec_result in H. rewrite skipn_length. lia.
Qed.

Theorem wdec_val_shrinks wt bs v r : wdec_val wt bs = Some (v, r) -> (length r < length bs)%nat.
Proof.
  unfold wdec_val.
  destruct (wt =? 0).
  { destruct (varint_dec bs) as [x n] eqn:E. destruct (n <? 0) eqn:En; [discriminate|].
    intros H; inversion H; subst. eapply varint_dec_skip; eassumption. }
  destruct (wt =? 1).
  { destruct (ProtoMsg.take 8 bs) as [[x r1]|] eqn:E; [|discriminate]. intros H; inversion H; subst.
    apply ptake_len in E. lia. }
  destruct (wt =? 5).
  { destruct (ProtoMsg.take 4 bs) as [[x r1]|] eqn:E; [|discriminate]. intros H; inversion H; subst.
    apply ptake_len in E. lia. }
  destruct (wt =? 2); [|discriminate].
  destruct (varint_dec bs) as [l n] eqn:E. destruct (n <? 0) eqn:En; [discriminate|].
  pose proof (varint_dec_skip _ _ _ E En) as Hs.
  destruct (ProtoMsg.take l (skipn (Z.to_nat n) bs)) as [[x r1]|] eqn:Et; [|discriminate].
  intros H; inversion H; subst. apply ptake_len in Et. lia.
Qed.

(* a length-delimited value: the payload AND the rest together are strictly shorter than the input (the length
   prefix takes at least one byte) *)
Lemma wdec_val_bytes_len wt bs b r : wdec_val wt bs = Some (WBytes b, r) -> (length b + length r < length bs)%nat.
Proof.
  unfold wdec_val.
  destruct (wt =? 0). { destruct (varint_dec bs) as [x n]. destruct (n <? 0); discriminate. }
  destruct (wt =? 1). { destruct (ProtoMsg.take 8 bs) as [[x r1]|]; discriminate. }
  destruct (wt =? 5). { destruct (ProtoMsg.take 4 bs) as [[x r1]|]; discriminate. }
  destruct (wt =? 2); [|discriminate].
  destruct (varint_dec bs) as [l n] eqn:E. destruct (n <? 0) eqn:En; [discriminate|].
  pose proof (varint_dec_skip _ _ _ E En) as Hs.
  destruct (ProtoMsg.take l (skipn (Z.to_nat n) bs)) as [[x r1]|] eqn:Et; [|discriminate].
  intros H; inversion H; subst. apply ptake_len in Et. lia.
Qed.

Lemma rd_tag_shrinks bs num wt r : rd_tag bs = Some (num, wt, r) -> (length r < length bs)%nat.
Proof.
  unfold rd_tag. destruct (varint_dec bs) as [tag n] eqn:E. destruct (n <? 0) eqn:En; [discriminate|]. cbv zeta.
  destruct ((tag / 8 >? 2147483647) || (tag / 8 <? 1)); [discriminate|].
  intros H; inversion H; subst. eapply varint_dec_skip; eassumption.
Qed.

Lemma rd_len_shrinks bs l r : rd_len bs = Some (l, r) -> (length r < length bs)%nat.
Proof.
  unfold rd_len. destruct (varint_dec bs) as [x n] eqn:E. destruct (n <? 0) eqn:En; [discriminate|].
  intros H; inversion H; subst. eapply varint_dec_skip; eassumption.
Qed.

Lemma skip_val_le wt bs r : skip_val wt bs = Some r -> (length r <= length bs)%nat.
Proof.
  unfold skip_val. destruct ((wt =? 0) || (wt =? 1) || (wt =? 2) || (wt =? 5)).
  - destruct (wdec_val wt bs) as [[v r1]|] eqn:E; [|discriminate]. intros H; inversion H; subst.
    apply wdec_val_shrinks in E. lia.
  - intros H; inversion H; subst. lia.
Qed.

Section P2JWalkTotal.
  Variable fl : Z -> list Z.
  Variable o : p2j_opts.

  (* ---- progress: for ANY one-level-down message walker (it only yields text; remainders come from the wire reads) ---- *)
  Section P2JShrink.
    Variable rec : list Z -> list Z -> option text.

    Lemma read_single_shrinks t bs x r : read_single fl o rec t bs = Some (x, r) -> (length r < length bs)%nat.
    Proof.
      unfold read_single. destruct t as [k|name].
      - destruct (is_byteskind k).
        + destruct (wdec_val 2 bs) as [[w r1]|] eqn:E; [|discriminate]. destruct w; try discriminate.
          intros H; inversion H; subst. eapply wdec_val_shrinks; eassumption.
        + destruct (is_numeric k); [|discriminate].
          destruct (wdec_val (wt_of_kind k) bs) as [[w r1]|] eqn:E; [|discriminate].
          destruct (value_text fl o k (go_value k (wval_u w))); [|discriminate].
          intros H; inversion H; subst. eapply wdec_val_shrinks; eassumption.
      - destruct (wdec_val 2 bs) as [[w r1]|] eqn:E; [|discriminate]. destruct w; try discriminate.
        destruct (rec name bs0); [|discriminate].
        intros H; inversion H; subst. eapply wdec_val_shrinks; eassumption.
    Qed.

    Lemma unpacked_loop_le : forall f t n bs more rest,
      unpacked_loop fl o rec f t n bs = Some (more, rest) -> (length rest <= length bs)%nat.
    Proof.
      induction f as [|f IH]; intros t n bs more rest; destruct bs as [|c bs]; cbn [unpacked_loop];
        try discriminate; try (intros H; inversion H; subst; cbn [length]; lia).
      destruct (rd_tag (c :: bs)) as [[[num wt] r]|] eqn:Et; [|discriminate]. apply rd_tag_shrinks in Et.
      destruct (negb (num =? n)). { intros H; inversion H; subst. lia. }
      destruct (read_single fl o rec t r) as [[x r']|] eqn:Es; [|discriminate]. apply read_single_shrinks in Es.
      destruct (unpacked_loop fl o rec f t n r') as [[m rs]|] eqn:El; [|discriminate]. apply IH in El.
      intros H; inversion H; subst. lia.
    Qed.

    Lemma read_entry_shrinks kk t bs x r : read_entry fl o rec kk t bs = Some (x, r) -> (length r < length bs)%nat.
    Proof.
      unfold read_entry.
      destruct (rd_len bs) as [[l r0]|] eqn:E0; [|discriminate]. apply rd_len_shrinks in E0.
      destruct (rd_tag r0) as [[[n1 w1] r1]|] eqn:E1; [|discriminate]. apply rd_tag_shrinks in E1.
      destruct (read_single fl o rec (TScalar kk) r1) as [[k r2]|] eqn:E2; [|discriminate]. apply read_single_shrinks in E2.
      cbv zeta.
      destruct (rd_tag r2) as [[[n3 w3] r3]|] eqn:E3; [|discriminate]. apply rd_tag_shrinks in E3.
      destruct (read_single fl o rec t r3) as [[v r4]|] eqn:E4; [|discriminate]. apply read_single_shrinks in E4.
      intros H; inversion H; subst. lia.
    Qed.

    Lemma map_loop_le : forall f kk t n bs more rest,
      map_loop fl o rec f kk t n bs = Some (more, rest) -> (length rest <= length bs)%nat.
    Proof.
      induction f as [|f IH]; intros kk t n bs more rest; destruct bs as [|c bs]; cbn [map_loop];
        try discriminate; try (intros H; inversion H; subst; cbn [length]; lia).
      destruct (rd_tag (c :: bs)) as [[[num wt] r]|] eqn:Et; [|discriminate]. apply rd_tag_shrinks in Et.
      destruct (negb (num =? n)). { intros H; inversion H; subst. lia. }
      destruct (read_entry fl o rec kk t r) as [[x r']|] eqn:Es; [|discriminate]. apply read_entry_shrinks in Es.
      destruct (map_loop fl o rec f kk t n r') as [[m rs]|] eqn:El; [|discriminate]. apply IH in El.
      intros H; inversion H; subst. lia.
    Qed.

    Lemma walk_list_shrinks n t wt bs x r : walk_list fl o rec n t wt bs = Some (x, r) -> (length r < length bs)%nat.
    Proof.
      unfold walk_list. destruct ((wt =? 2) && type_numeric t).
      - destruct (rd_len bs) as [[l r0]|] eqn:E0; [|discriminate]. apply rd_len_shrinks in E0.
        destruct (ProtoMsg.take l r0) as [[payload rest]|] eqn:E1; [|discriminate]. apply ptake_len in E1.
        destruct (packed_loop fl o rec (S (length payload)) t payload); [|discriminate].
        intros H; inversion H; subst. lia.
      - destruct (read_single fl o rec t bs) as [[y r0]|] eqn:E0; [|discriminate]. apply read_single_shrinks in E0.
        destruct (unpacked_loop fl o rec (S (length r0)) t n r0) as [[m rs]|] eqn:E1; [|discriminate].
        apply unpacked_loop_le in E1. intros H; inversion H; subst. lia.
    Qed.

    Lemma walk_map_shrinks n kk t bs x r : walk_map fl o rec n kk t bs = Some (x, r) -> (length r < length bs)%nat.
    Proof.
      unfold walk_map.
      destruct (read_entry fl o rec kk t bs) as [[y r0]|] eqn:E0; [|discriminate]. apply read_entry_shrinks in E0.
      destruct (map_loop fl o rec (S (length r0)) kk t n r0) as [[m rs]|] eqn:E1; [|discriminate].
      apply map_loop_le in E1. intros H; inversion H; subst. lia.
    Qed.

    Lemma walk_field_shrinks fd wt bs x r : walk_field fl o rec fd wt bs = Some (x, r) -> (length r < length bs)%nat.
    Proof.
      unfold walk_field. destruct (fd_label fd).
      - apply read_single_shrinks.
      - apply walk_list_shrinks.
      - apply walk_map_shrinks.
    Qed.
  End P2JShrink.

  (* ---- the loops depend neither on their fuel (any fuel >= the number of bytes) nor on the one-level-down walker
     outside the bodies it can be handed: a nested body is cut out of the current buffer after a length prefix, so
     it is STRICTLY shorter than the buffer ---- *)
  Section P2JExt.
    Variables rec rec' : list Z -> list Z -> option text.

    Lemma read_single_ext t bs :
      (forall name b, (length b < length bs)%nat -> rec name b = rec' name b) ->
      read_single fl o rec t bs = read_single fl o rec' t bs.
    Proof.
      intros Hext. unfold read_single. destruct t as [k|name]; [reflexivity|].
      destruct (wdec_val 2 bs) as [[w r1]|] eqn:E; [|reflexivity]. destruct w; try reflexivity.
      apply wdec_val_bytes_len in E. rewrite Hext by lia. reflexivity.
    Qed.

    Lemma packed_loop_ext_fuel : forall f f' t payload, (length payload <= f)%nat -> (length payload <= f')%nat ->
      (forall name b, (length b < length payload)%nat -> rec name b = rec' name b) ->
      packed_loop fl o rec f t payload = packed_loop fl o rec' f' t payload.
    Proof.
      induction f as [|f IH]; intros f' t payload Hf Hf' Hext; destruct payload as [|c p];
        try (destruct f'; reflexivity); cbn [length] in Hf; try lia.
      destruct f' as [|f']; cbn [length] in Hf'; try lia. cbn [packed_loop].
      rewrite (read_single_ext t (c :: p) Hext).
      destruct (read_single fl o rec' t (c :: p)) as [[x r]|] eqn:E; [|reflexivity]. apply read_single_shrinks in E.
      cbn [length] in E. destruct r as [|c' r]; [reflexivity|].
      rewrite (IH f' t (c' :: r)); [reflexivity|lia|lia|].
      intros name b Hb. apply Hext. cbn [length] in *. lia.
    Qed.

    Lemma unpacked_loop_ext_fuel : forall f f' t n bs, (length bs <= f)%nat -> (length bs <= f')%nat ->
      (forall name b, (length b < length bs)%nat -> rec name b = rec' name b) ->
      unpacked_loop fl o rec f t n bs = unpacked_loop fl o rec' f' t n bs.
    Proof.
      induction f as [|f IH]; intros f' t n bs Hf Hf' Hext; destruct bs as [|c p];
        try (destruct f'; reflexivity); cbn [length] in Hf; try lia.
      destruct f' as [|f']; cbn [length] in Hf'; try lia. cbn [unpacked_loop].
      destruct (rd_tag (c :: p)) as [[[num wt] r]|] eqn:Et; [|reflexivity]. apply rd_tag_shrinks in Et. cbn [length] in Et.
      destruct (negb (num =? n)); [reflexivity|].
      rewrite (read_single_ext t r) by (intros name b Hb; apply Hext; cbn [length]; lia).
      destruct (read_single fl o rec' t r) as [[x r']|] eqn:E; [|reflexivity]. apply read_single_shrinks in E.
      rewrite (IH f' t n r'); [reflexivity|lia|lia|].
      intros name b Hb. apply Hext. cbn [length]. lia.
    Qed.

    Lemma walk_list_ext n t wt bs :
      (forall name b, (length b < length bs)%nat -> rec name b = rec' name b) ->
      walk_list fl o rec n t wt bs = walk_list fl o rec' n t wt bs.
    Proof.
      intros Hext. unfold walk_list. destruct ((wt =? 2) && type_numeric t).
      - destruct (rd_len bs) as [[l r0]|] eqn:E0; [|reflexivity]. apply rd_len_shrinks in E0.
        destruct (ProtoMsg.take l r0) as [[payload rest]|] eqn:E1; [|reflexivity]. apply ptake_len in E1.
        rewrite (packed_loop_ext_fuel (S (length payload)) (S (length payload)) t payload); [reflexivity|lia|lia|].
        intros name b Hb. apply Hext. lia.
      - rewrite (read_single_ext t bs Hext).
        destruct (read_single fl o rec' t bs) as [[y r0]|] eqn:E0; [|reflexivity]. apply read_single_shrinks in E0.
        rewrite (unpacked_loop_ext_fuel (S (length r0)) (S (length r0)) t n r0); [reflexivity|lia|lia|].
        intros name b Hb. apply Hext. lia.
    Qed.

    Lemma read_entry_ext kk t bs :
      (forall name b, (length b < length bs)%nat -> rec name b = rec' name b) ->
      read_entry fl o rec kk t bs = read_entry fl o rec' kk t bs.
    Proof.
      intros Hext. unfold read_entry.
      destruct (rd_len bs) as [[l r0]|] eqn:E0; [|reflexivity]. apply rd_len_shrinks in E0.
      destruct (rd_tag r0) as [[[n1 w1] r1]|] eqn:E1; [|reflexivity]. apply rd_tag_shrinks in E1.
      rewrite (read_single_ext (TScalar kk) r1) by (intros name b Hb; apply Hext; lia).
      destruct (read_single fl o rec' (TScalar kk) r1) as [[k r2]|] eqn:E2; [|reflexivity]. apply read_single_shrinks in E2.
      cbv zeta.
      destruct (rd_tag r2) as [[[n3 w3] r3]|] eqn:E3; [|reflexivity]. apply rd_tag_shrinks in E3.
      rewrite (read_single_ext t r3) by (intros name b Hb; apply Hext; lia).
      reflexivity.
    Qed.

    Lemma map_loop_ext_fuel : forall f f' kk t n bs, (length bs <= f)%nat -> (length bs <= f')%nat ->
      (forall name b, (length b < length bs)%nat -> rec name b = rec' name b) ->
      map_loop fl o rec f kk t n bs = map_loop fl o rec' f' kk t n bs.
    Proof.
      induction f as [|f IH]; intros f' kk t n bs Hf Hf' Hext; destruct bs as [|c p];
        try (destruct f'; reflexivity); cbn [length] in Hf; try lia.
      destruct f' as [|f']; cbn [length] in Hf'; try lia. cbn [map_loop].
      destruct (rd_tag (c :: p)) as [[[num wt] r]|] eqn:Et; [|reflexivity]. apply rd_tag_shrinks in Et. cbn [length] in Et.
      destruct (negb (num =? n)); [reflexivity|].
      rewrite (read_entry_ext kk t r) by (intros name b Hb; apply Hext; cbn [length]; lia).
      destruct (read_entry fl o rec' kk t r) as [[x r']|] eqn:E; [|reflexivity]. apply read_entry_shrinks in E.
      rewrite (IH f' kk t n r'); [reflexivity|lia|lia|].
      intros name b Hb. apply Hext. cbn [length]. lia.
    Qed.

    Lemma walk_map_ext n kk t bs :
      (forall name b, (length b < length bs)%nat -> rec name b = rec' name b) ->
      walk_map fl o rec n kk t bs = walk_map fl o rec' n kk t bs.
    Proof.
      intros Hext. unfold walk_map. rewrite (read_entry_ext kk t bs Hext).
      destruct (read_entry fl o rec' kk t bs) as [[y r0]|] eqn:E0; [|reflexivity]. apply read_entry_shrinks in E0.
      rewrite (map_loop_ext_fuel (S (length r0)) (S (length r0)) kk t n r0); [reflexivity|lia|lia|].
      intros name b Hb. apply Hext. lia.
    Qed.

    Lemma walk_field_ext fd wt bs :
      (forall name b, (length b < length bs)%nat -> rec name b = rec' name b) ->
      walk_field fl o rec fd wt bs = walk_field fl o rec' fd wt bs.
    Proof.
      intros Hext. unfold walk_field. destruct (fd_label fd).
      - apply read_single_ext; assumption.
      - apply walk_list_ext; assumption.
      - apply walk_map_ext; assumption.
    Qed.

    (* in the message loop a nested body comes after a tag AND a length prefix: at least 2 bytes shorter *)
    Lemma pwalk_fields_ext_fuel : forall f f' md c bs, (length bs <= f)%nat -> (length bs <= f')%nat ->
      (forall name b, (2 + length b <= length bs)%nat -> rec name b = rec' name b) ->
      P2JBytes.walk_fields fl o rec f md c bs = P2JBytes.walk_fields fl o rec' f' md c bs.
    Proof.
      induction f as [|f IH]; intros f' md c bs Hf Hf' Hext; destruct bs as [|c0 p];
        try (destruct f'; reflexivity); cbn [length] in Hf; try lia.
      destruct f' as [|f']; cbn [length] in Hf'; try lia. cbn [P2JBytes.walk_fields].
      destruct (rd_tag (c0 :: p)) as [[[num wt] r]|] eqn:Et; [|reflexivity]. apply rd_tag_shrinks in Et. cbn [length] in Et.
      destruct (ProtoMsg.find_field md num) as [fd|].
      - rewrite (walk_field_ext fd wt r) by (intros name b Hb; apply Hext; cbn [length]; lia).
        destruct (walk_field fl o rec' fd wt r) as [[x r']|] eqn:E; [|reflexivity]. apply walk_field_shrinks in E.
        rewrite (IH f' md true r'); [reflexivity|lia|lia|].
        intros name b Hb. apply Hext. cbn [length]. lia.
      - destruct (o_disallow_unknown o); [reflexivity|].
        destruct (skip_val wt r) as [r'|] eqn:E; [|reflexivity]. apply skip_val_le in E.
        apply IH; [lia|lia|]. intros name b Hb. apply Hext. cbn [length]. lia.
    Qed.
  End P2JExt.

  (* ---- b: fuel stability of the four loops, for any one-level-down walker ---- *)
  Theorem packed_loop_fuel_stable rec f f' t payload : (length payload <= f)%nat -> (length payload <= f')%nat ->
    packed_loop fl o rec f t payload = packed_loop fl o rec f' t payload.
  Proof. intros. apply packed_loop_ext_fuel; auto. Qed.

  Theorem unpacked_loop_fuel_stable rec f f' t n bs : (length bs <= f)%nat -> (length bs <= f')%nat ->
    unpacked_loop fl o rec f t n bs = unpacked_loop fl o rec f' t n bs.
  Proof. intros. apply unpacked_loop_ext_fuel; auto. Qed.

  Theorem map_loop_fuel_stable rec f f' kk t n bs : (length bs <= f)%nat -> (length bs <= f')%nat ->
    map_loop fl o rec f kk t n bs = map_loop fl o rec f' kk t n bs.
  Proof. intros. apply map_loop_ext_fuel; auto. Qed.

  Theorem p2j_walk_fields_fuel_stable rec f f' md c bs : (length bs <= f)%nat -> (length bs <= f')%nat ->
    P2JBytes.walk_fields fl o rec f md c bs = P2JBytes.walk_fields fl o rec f' md c bs.
  Proof. intros. apply pwalk_fields_ext_fuel; auto. Qed.

  (* ---- c: the nesting fuel.  A nested body is at least 2 bytes shorter than its parent, so a body of L bytes nests
     at most L/2 + 1 deep: every fuel f with L < 2 f gives the same answer ---- *)
  Theorem walk_msg_depth_stable_half Sc : forall f f' name body,
    (length body < 2 * f)%nat -> (length body < 2 * f')%nat ->
    walk_msg fl o Sc f name body = walk_msg fl o Sc f' name body.
  Proof.
    induction f as [|f IH]; intros f' name body Hf Hf'; [lia|]. destruct f' as [|f']; [lia|].
    cbn [walk_msg]. unfold walk_body. destruct (find_msg Sc name) as [md|]; [|reflexivity].
    rewrite (pwalk_fields_ext_fuel (walk_msg fl o Sc f) (walk_msg fl o Sc f')
               (S (length body)) (S (length body)) md false body); [reflexivity|lia|lia|].
    intros nm b Hb. apply IH; lia.
  Qed.

  Theorem walk_msg_depth_stable Sc : forall f f' name body,
    (length body < f)%nat -> (length body < f')%nat ->
    walk_msg fl o Sc f name body = walk_msg fl o Sc f' name body.
  Proof. intros f f' name body Hf Hf'. apply walk_msg_depth_stable_half; lia. Qed.
End P2JWalkTotal.

(* the model's entry point: the fuel |bs| + 1 gives the answer of every larger fuel: a None of p2j_walk with such a fuel
   is never "out of fuel" *)
Corollary p2j_walk_total f o Sc name bs : (length bs < f)%nat ->
  p2j_walk f o Sc name bs = p2j_walk (S (length bs)) o Sc name bs.
Proof. intros Hf. unfold p2j_walk, p2j_walk_gen. apply walk_msg_depth_stable; lia. Qed.

Corollary p2j_walk_gen_total fl f o Sc name bs : (length bs < f)%nat ->
  p2j_walk_gen fl f o Sc name bs = p2j_walk_gen fl (S (length bs)) o Sc name bs.
Proof. intros Hf. unfold p2j_walk_gen. apply walk_msg_depth_stable; lia. Qed.

(* ---- fuel-explicit copy of the P2J walk: ONE loop fuel lf handed to every loop (packed run, unpacked run, map run,
   message loop) and a nesting fuel df.  Only the five functions that fix a fuel are copied; read_single, read_entry and
   the three inner loops are the model's own. ---- *)
Section P2JWalkExplicitFuel.
  Variable fl : Z -> list Z.
  Variable o : p2j_opts.
  Variable Sc : schema.
  Variable lf : nat.

  Section LevelF.
    Variable rec : list Z -> list Z -> option text.

    Definition walk_list_f (n : Z) (t : ftype) (wt : Z) (bs : list Z) : option (text * list Z) :=
      if (wt =? 2) && type_numeric t then
        match rd_len bs with
        | None => None
        | Some (l, r) =>
          match ProtoMsg.take l r with
          | None => None
          | Some (payload, rest) =>
            match packed_loop fl o rec lf t payload with
            | Some x => Some (91 :: x ++ [93], rest)
            | None => None
            end
          end
        end
      else
        match read_single fl o rec t bs with
        | None => None
        | Some (x, r) =>
          match unpacked_loop fl o rec lf t n r with
          | Some (more, rest) => Some (91 :: x ++ more ++ [93], rest)
          | None => None
          end
        end.

    Definition walk_map_f (n kk : Z) (t : ftype) (bs : list Z) : option (text * list Z) :=
      match read_entry fl o rec kk t bs with
      | None => None
      | Some (x, r) =>
        match map_loop fl o rec lf kk t n r with
        | Some (more, rest) => Some (123 :: x ++ more ++ [125], rest)
        | None => None
        end
      end.

    Definition walk_field_f (fd : fdesc) (wt : Z) (bs : list Z) : option (text * list Z) :=
      match fd_label fd with
      | LSingular => read_single fl o rec (fd_type fd) bs
      | LRepeated _ => walk_list_f (fd_num fd) (fd_type fd) wt bs
      | LMap kk => walk_map_f (fd_num fd) kk (fd_type fd) bs
      end.

    Fixpoint walk_fields_f (fuel : nat) (md : mdesc) (comma : bool) (bs : list Z) : option text :=
      match bs with
      | [] => Some []
      | _ :: _ =>
        match fuel with
        | O => None
        | S f =>
          match rd_tag bs with
          | None => None
          | Some (num, wt, r) =>
            match ProtoMsg.find_field md num with
            | None =>
              if o_disallow_unknown o then None
              else match skip_val wt r with Some r' => walk_fields_f f md comma r' | None => None end
            | Some fd =>
              match walk_field_f fd wt r with
              | None => None
              | Some (x, r') =>
                match walk_fields_f f md true r' with
                | Some more => Some ((if comma then [44] else []) ++ quote_ref (fd_json fd) ++ 58 :: x ++ more)
                | None => None
                end
              end
            end
          end
        end
      end.

    Definition walk_body_f (name : list Z) (body : list Z) : option text :=
      match find_msg Sc name with
      | Some md =>
        match walk_fields_f lf md false body with
        | Some x => Some (123 :: x ++ [125])
        | None => None
        end
      | None => None
      end.

    (* with lf >= the number of bytes of the buffer, the copies are the model's functions, for any rec *)
    Lemma walk_list_f_eq n t wt bs : (length bs <= lf)%nat -> walk_list_f n t wt bs = walk_list fl o rec n t wt bs.
    Proof.
      intros Hlf. unfold walk_list_f, walk_list. destruct ((wt =? 2) && type_numeric t).
      - destruct (rd_len bs) as [[l r0]|] eqn:E0; [|reflexivity]. apply rd_len_shrinks in E0.
        destruct (ProtoMsg.take l r0) as [[payload rest]|] eqn:E1; [|reflexivity]. apply ptake_len in E1.
        rewrite (packed_loop_fuel_stable fl o rec lf (S (length payload)) t payload) by lia. reflexivity.
      - destruct (read_single fl o rec t bs) as [[y r0]|] eqn:E0; [|reflexivity]. apply read_single_shrinks in E0.
        rewrite (unpacked_loop_fuel_stable fl o rec lf (S (length r0)) t n r0) by lia. reflexivity.
    Qed.

    Lemma walk_map_f_eq n kk t bs : (length bs <= lf)%nat -> walk_map_f n kk t bs = walk_map fl o rec n kk t bs.
    Proof.
      intros Hlf. unfold walk_map_f, walk_map.
      destruct (read_entry fl o rec kk t bs) as [[y r0]|] eqn:E0; [|reflexivity]. apply read_entry_shrinks in E0.
      rewrite (map_loop_fuel_stable fl o rec lf (S (length r0)) kk t n r0) by lia. reflexivity.
    Qed.

    Lemma walk_field_f_eq fd wt bs : (length bs <= lf)%nat -> walk_field_f fd wt bs = walk_field fl o rec fd wt bs.
    Proof.
      intros Hlf. unfold walk_field_f, walk_field. destruct (fd_label fd).
      - reflexivity.
      - apply walk_list_f_eq; assumption.
      - apply walk_map_f_eq; assumption.
    Qed.

    Lemma walk_fields_f_eq : forall f md c bs, (length bs <= lf)%nat ->
      walk_fields_f f md c bs = P2JBytes.walk_fields fl o rec f md c bs.
    Proof.
      induction f as [|f IH]; intros md c bs Hlf; destruct bs as [|c0 p]; try reflexivity.
      cbn [walk_fields_f P2JBytes.walk_fields].
      destruct (rd_tag (c0 :: p)) as [[[num wt] r]|] eqn:Et; [|reflexivity]. apply rd_tag_shrinks in Et.
      destruct (ProtoMsg.find_field md num) as [fd|].
      - rewrite walk_field_f_eq by lia.
        destruct (walk_field fl o rec fd wt r) as [[x r']|] eqn:E; [|reflexivity]. apply walk_field_shrinks in E.
        rewrite IH by lia. reflexivity.
      - destruct (o_disallow_unknown o); [reflexivity|].
        destruct (skip_val wt r) as [r'|] eqn:E; [|reflexivity]. apply skip_val_le in E.
        apply IH. lia.
    Qed.
  End LevelF.

  Fixpoint walk_msg_f (df : nat) (name : list Z) (body : list Z) : option text :=
    match df with
    | O => None
    | S f => walk_body_f (walk_msg_f f) name body
    end.

  (* same nesting fuel, loop fuel >= |body|: the model's answer *)
  Lemma walk_msg_f_eq : forall df name body, (length body <= lf)%nat ->
    walk_msg_f df name body = walk_msg fl o Sc df name body.
  Proof.
    induction df as [|df IH]; intros name body Hlf; [reflexivity|].
    cbn [walk_msg_f walk_msg]. unfold walk_body_f, walk_body.
    destruct (find_msg Sc name) as [md|]; [|reflexivity].
    rewrite walk_fields_f_eq by assumption.
    rewrite (pwalk_fields_ext_fuel fl o (walk_msg_f df) (walk_msg fl o Sc df) lf (S (length body)) md false body);
      [reflexivity|lia|lia|].
    intros nm b Hb. apply IH. lia.
  Qed.

  (* loop fuel >= |bs| and nesting fuel > |bs| / 2: the model's p2j_walk_gen at ITS fuel |bs| + 1; hence every such
     pair of fuels gives the same answer and a None is never "out of fuel" *)
  Theorem p2j_walk_f_total df name bs : (length bs <= lf)%nat -> (length bs < 2 * df)%nat ->
    walk_msg_f df name bs = p2j_walk_gen fl (S (length bs)) o Sc name bs.
  Proof.
    intros Hlf Hdf. rewrite walk_msg_f_eq by assumption. unfold p2j_walk_gen.
    apply walk_msg_depth_stable_half; lia.
  Qed.
End P2JWalkExplicitFuel.
