(* C06 "decoders survive arbitrary bytes": TOTALITY of the list-based byte walkers on ARBITRARY byte lists.
   In the models a read past the end is None by construction and every loop runs on an internal fuel, so a None / error
   answer could in principle mean "fuel exhausted" rather than "rejected".  Here: no well-formedness hypothesis at all;
   every loop iteration consumes at least one byte or returns, hence the fuel the models give themselves is always enough:
   the answer is the same for every larger fuel.  Plus the progress lemmas (remainders are strictly shorter suffixes of
   the input) and "the span handed back lies inside the buffer". *)
From Coq Require Import ZArith List Bool Lia.
From DG Require Import ProtoWireRef ProtoWireRefProofs ThriftWire ThriftWireProofs ThriftGeneric ThriftGenericProofs.
Import ListNotations.
Local Open Scope Z_scope.

(* ====================================================================================================== *)
(* (1) ThriftWire.skip / ThriftGeneric.get_by_path                                                          *)
(* ====================================================================================================== *)

(* ---- elementary reads ---- *)
Lemma take_some n bs x r : take n bs = Some (x, r) -> x = firstn n bs /\ r = skipn n bs /\ (n <= length bs)%nat.
Proof.
  unfold take. destruct (n <=? length bs)%nat eqn:E; [|discriminate].
  intros H. inversion H. apply Nat.leb_le in E. auto.
Qed.

Lemma take_len n bs x r : take n bs = Some (x, r) -> (length bs = n + length r)%nat /\ length x = n.
Proof.
  intros H. apply take_some in H. destruct H as (-> & -> & Hn).
  rewrite skipn_length, firstn_length. lia.
Qed.

Lemma drop_some n bs r : drop n bs = Some r -> 0 <= n /\ n <= zlen bs /\ r = skipn (Z.to_nat n) bs.
Proof.
  unfold drop. destruct (n <? 0) eqn:E1; [discriminate|]. destruct (n >? zlen bs) eqn:E2; [discriminate|].
  intros H. inversion H. apply Z.ltb_ge in E1. rewrite Z.gtb_ltb in E2. apply Z.ltb_ge in E2. auto.
Qed.

Lemma drop_len n bs r : drop n bs = Some r -> 0 <= n /\ zlen bs = n + zlen r.
Proof.
  intros H. apply drop_some in H. destruct H as (H0 & H1 & ->). split; [assumption|].
  unfold zlen in *. rewrite skipn_length. lia.
Qed.

Lemma skipstr_len bs r : skipstr bs = Some r -> (4 + length r <= length bs)%nat.
Proof.
  unfold skipstr. destruct (take 4 bs) as [[x r1]|] eqn:E; [|discriminate].
  apply take_len in E. destruct (dec_int x <? 0); [discriminate|].
  intros H. apply drop_len in H. unfold zlen in H. lia.
Qed.

Lemma skip_count_len bs n r : skip_count bs = Some (n, r) -> (length bs = 4 + length r)%nat /\ 0 <= n /\ r = skipn 4 bs.
Proof.
  unfold skip_count. destruct (take 4 bs) as [[x r1]|] eqn:E; [|discriminate].
  destruct (dec_int x <? 0) eqn:E1; [discriminate|]. intros H. inversion H. subst.
  apply Z.ltb_ge in E1. pose proof (take_len _ _ _ _ E). apply take_some in E. intuition.
Qed.

(* ---- the loops of skip, for any one-level-down skipper whose remainders are no longer than its inputs ---- *)
Section SkipLoopsShrink.
  Variable skp : Z -> list Z -> option (list Z).
  Hypothesis skp_le : forall t b r, skp t b = Some r -> (length r <= length b)%nat.

  Lemma skip_one_le t bs r : skip_one skp t bs = Some r -> (length r <= length bs)%nat.
  Proof.
    unfold skip_one. destruct (fixed_size t >? 0).
    - intros H. apply drop_len in H. unfold zlen in H. lia.
    - destruct (t =? T_STRING).
      + intros H. apply skipstr_len in H. lia.
      + apply skp_le.
  Qed.

  (* one field = type byte + 2 id bytes + the value: the remainder after a field is >= 3 bytes shorter *)
  Lemma skip_fields_step t r r2 r3 :
    drop 2 r = Some r2 -> (if fixed_size t >? 0 then drop (fixed_size t) r2 else skp t r2) = Some r3 ->
    (3 + length r3 <= length (t :: r))%nat.
  Proof.
    intros H2 H3. apply drop_len in H2. cbn [length].
    assert (length r3 <= length r2)%nat.
    { destruct (fixed_size t >? 0).
      - apply drop_len in H3. unfold zlen in H3. lia.
      - eapply skp_le; eassumption. }
    unfold zlen in H2. lia.
  Qed.

  Lemma skip_fields_shrinks : forall f bs r, skip_fields skp f bs = Some r -> (length r < length bs)%nat.
  Proof.
    induction f as [|f IH]; intros bs r; cbn [skip_fields]; [discriminate|].
    destruct bs as [|t r0]; [discriminate|].
    destruct (t =? 0). { intros H; inversion H; subst. cbn [length]. lia. }
    destruct (drop 2 r0) as [r2|] eqn:E2; [|discriminate]. cbv zeta.
    destruct (if fixed_size t >? 0 then drop (fixed_size t) r2 else skp t r2) as [r3|] eqn:E3; [|discriminate].
    intros H. apply IH in H. pose proof (skip_fields_step _ _ _ _ E2 E3). lia.
  Qed.

  Lemma skip_elems_le : forall n t bs r, skip_elems skp n t bs = Some r -> (length r <= length bs)%nat.
  Proof.
    induction n as [|n IH]; intros t bs r; cbn [skip_elems].
    - intros H; inversion H; lia.
    - destruct (skip_one skp t bs) as [r1|] eqn:E; [|discriminate]. intros H. apply IH in H. apply skip_one_le in E. lia.
  Qed.

  Lemma skip_pairs_le : forall n kt vt bs r, skip_pairs skp n kt vt bs = Some r -> (length r <= length bs)%nat.
  Proof.
    induction n as [|n IH]; intros kt vt bs r; cbn [skip_pairs].
    - intros H; inversion H; lia.
    - destruct (skip_one skp kt bs) as [r1|] eqn:E; [|discriminate].
      destruct (skip_one skp vt r1) as [r2|] eqn:E2; [|discriminate].
      intros H. apply IH in H. apply skip_one_le in E. apply skip_one_le in E2. lia.
  Qed.

  (* fuel stability of the field loop: ANY two fuels above the number of bytes give the same answer *)
  Lemma skip_fields_fuel_stable_sec : forall f f' bs, (length bs < f)%nat -> (length bs < f')%nat ->
    skip_fields skp f bs = skip_fields skp f' bs.
  Proof.
    induction f as [|f IH]; intros f' bs Hf Hf'; [lia|]. destruct f' as [|f']; [lia|]. cbn [skip_fields].
    destruct bs as [|t r0]; [reflexivity|].
    destruct (t =? 0); [reflexivity|].
    destruct (drop 2 r0) as [r2|] eqn:E2; [|reflexivity]. cbv zeta.
    destruct (if fixed_size t >? 0 then drop (fixed_size t) r2 else skp t r2) as [r3|] eqn:E3; [|reflexivity].
    pose proof (skip_fields_step _ _ _ _ E2 E3). apply IH; lia.
  Qed.
End SkipLoopsShrink.

Theorem skip_fields_fuel_stable : forall skp f f' bs,
  (forall t b r, skp t b = Some r -> (length r <= length b)%nat) ->
  (length bs < f)%nat -> (length bs < f')%nat -> skip_fields skp f bs = skip_fields skp f' bs.
Proof. intros. apply skip_fields_fuel_stable_sec; assumption. Qed.

(* ---- skip: every skipped value takes at least one byte, at every depth budget, on arbitrary bytes ---- *)
Theorem skip_shrinks : forall d t bs r, skip d t bs = Some r -> (length r < length bs)%nat.
Proof.
  induction d as [|d IH]; intros t bs r; [discriminate|].
  assert (Hle : forall t b r, skip d t b = Some r -> (length r <= length b)%nat).
  { intros t0 b r0 H. apply IH in H. lia. }
  rewrite skip_S. cbv zeta.
  destruct (fixed_size t >? 0) eqn:Ef.
  { intros H. apply drop_len in H. rewrite Z.gtb_ltb in Ef. apply Z.ltb_lt in Ef. unfold zlen in H. lia. }
  destruct (t =? T_STRING). { intros H. apply skipstr_len in H. lia. }
  destruct (t =? T_STRUCT). { apply skip_fields_shrinks. assumption. }
  destruct (t =? T_MAP).
  { destruct bs as [|kt [|vt r0]]; try discriminate.
    destruct (skip_count r0) as [[sz r2]|] eqn:Ec; [|discriminate]. apply skip_count_len in Ec. cbn [length].
    destruct ((fixed_size kt >? 0) && (fixed_size vt >? 0)).
    - intros H. apply drop_len in H. unfold zlen in H. lia.
    - destruct (sz >? zlen r2); [discriminate|]. intros H. apply skip_pairs_le in H; [lia|assumption]. }
  destruct ((t =? T_SET) || (t =? T_LIST)); [|discriminate].
  destruct bs as [|et r0]; try discriminate.
  destruct (skip_count r0) as [[sz r2]|] eqn:Ec; [|discriminate]. apply skip_count_len in Ec. cbn [length].
  destruct (fixed_size et >? 0).
  - intros H. apply drop_len in H. unfold zlen in H. lia.
  - destruct (sz >? zlen r2); [discriminate|]. intros H. apply skip_elems_le in H; [lia|assumption].
Qed.

Corollary skip_go_shrinks t bs r : skip_go t bs = Some r -> (length r < length bs)%nat.
Proof. apply skip_shrinks. Qed.

Corollary skip_go_zlen t bs r : skip_go t bs = Some r -> zlen r < zlen bs.
Proof. intros H. apply skip_go_shrinks in H. unfold zlen. lia. Qed.

(* the struct loop inside skip: the fuel S (length bs) it gives itself is enough, any larger fuel gives the same answer *)
Corollary skip_struct_fuel_stable d f bs : (length bs < f)%nat ->
  skip_fields (skip d) f bs = skip (S d) T_STRUCT bs.
Proof.
  intros Hf. change (skip (S d) T_STRUCT bs) with (skip_fields (skip d) (S (length bs)) bs).
  apply skip_fields_fuel_stable; [|assumption|lia].
  intros t b r H. apply skip_shrinks in H. lia.
Qed.

(* ---- the remainder is a SUFFIX of the input ---- *)
Definition suffix_of (r bs : list Z) : Prop := exists n, r = skipn n bs.

Lemma suffix_refl bs : suffix_of bs bs.
Proof. exists 0%nat. reflexivity. Qed.

Lemma skipn_skipn_add {A} : forall m (l : list A) n, skipn n (skipn m l) = skipn (m + n) l.
Proof.
  induction m as [|m IH]; intros l n; [reflexivity|]. destruct l as [|x l]; cbn [skipn Nat.add].
  - destruct n; reflexivity.
  - apply IH.
Qed.

Lemma suffix_trans a b c : suffix_of a b -> suffix_of b c -> suffix_of a c.
Proof. intros [n ->] [m ->]. exists (m + n)%nat. apply skipn_skipn_add. Qed.

Lemma suffix_skipn n bs : suffix_of (skipn n bs) bs.
Proof. exists n. reflexivity. Qed.

Lemma suffix_cons x r bs : suffix_of r bs -> suffix_of r (x :: bs).
Proof. intros [n ->]. exists (S n). reflexivity. Qed.

Lemma suffix_length r bs : suffix_of r bs -> (length r <= length bs)%nat.
Proof. intros [n ->]. rewrite skipn_length. lia. Qed.

Lemma drop_suffix n bs r : drop n bs = Some r -> suffix_of r bs.
Proof. intros H. apply drop_some in H. destruct H as (_ & _ & ->). apply suffix_skipn. Qed.

Lemma take_suffix n bs x r : take n bs = Some (x, r) -> suffix_of r bs.
Proof. intros H. apply take_some in H. destruct H as (_ & -> & _). apply suffix_skipn. Qed.

Lemma skipstr_suffix bs r : skipstr bs = Some r -> suffix_of r bs.
Proof.
  unfold skipstr. destruct (take 4 bs) as [[x r1]|] eqn:E; [|discriminate].
  destruct (dec_int x <? 0); [discriminate|]. intros H.
  eapply suffix_trans; [eapply drop_suffix; eassumption|eapply take_suffix; eassumption].
Qed.

Lemma skip_count_suffix bs n r : skip_count bs = Some (n, r) -> suffix_of r bs.
Proof. intros H. apply skip_count_len in H. destruct H as (_ & _ & ->). apply suffix_skipn. Qed.

Section SkipLoopsSuffix.
  Variable skp : Z -> list Z -> option (list Z).
  Hypothesis skp_suf : forall t b r, skp t b = Some r -> suffix_of r b.

  Lemma skip_one_suffix t bs r : skip_one skp t bs = Some r -> suffix_of r bs.
  Proof.
    unfold skip_one. destruct (fixed_size t >? 0); [apply drop_suffix|].
    destruct (t =? T_STRING); [apply skipstr_suffix|apply skp_suf].
  Qed.

  Lemma skip_fields_suffix : forall f bs r, skip_fields skp f bs = Some r -> suffix_of r bs.
  Proof.
    induction f as [|f IH]; intros bs r; cbn [skip_fields]; [discriminate|].
    destruct bs as [|t r0]; [discriminate|].
    destruct (t =? 0). { intros H; inversion H; subst. apply suffix_cons, suffix_refl. }
    destruct (drop 2 r0) as [r2|] eqn:E2; [|discriminate]. cbv zeta.
    destruct (if fixed_size t >? 0 then drop (fixed_size t) r2 else skp t r2) as [r3|] eqn:E3; [|discriminate].
    intros H. apply IH in H. apply suffix_cons. apply drop_suffix in E2.
    assert (suffix_of r3 r2). { destruct (fixed_size t >? 0); [eapply drop_suffix|eapply skp_suf]; eassumption. }
    eapply suffix_trans; [eassumption|]. eapply suffix_trans; eassumption.
  Qed.

  Lemma skip_elems_suffix : forall n t bs r, skip_elems skp n t bs = Some r -> suffix_of r bs.
  Proof.
    induction n as [|n IH]; intros t bs r; cbn [skip_elems].
    - intros H; inversion H; apply suffix_refl.
    - destruct (skip_one skp t bs) as [r1|] eqn:E; [|discriminate]. intros H. apply IH in H. apply skip_one_suffix in E.
      eapply suffix_trans; eassumption.
  Qed.

  Lemma skip_pairs_suffix : forall n kt vt bs r, skip_pairs skp n kt vt bs = Some r -> suffix_of r bs.
  Proof.
    induction n as [|n IH]; intros kt vt bs r; cbn [skip_pairs].
    - intros H; inversion H; apply suffix_refl.
    - destruct (skip_one skp kt bs) as [r1|] eqn:E; [|discriminate].
      destruct (skip_one skp vt r1) as [r2|] eqn:E2; [|discriminate].
      intros H. apply IH in H. apply skip_one_suffix in E. apply skip_one_suffix in E2.
      eapply suffix_trans; [eassumption|]. eapply suffix_trans; eassumption.
  Qed.
End SkipLoopsSuffix.

Theorem skip_suffix : forall d t bs r, skip d t bs = Some r -> suffix_of r bs.
Proof.
  induction d as [|d IH]; intros t bs r; [discriminate|].
  rewrite skip_S. cbv zeta.
  destruct (fixed_size t >? 0); [apply drop_suffix|].
  destruct (t =? T_STRING); [apply skipstr_suffix|].
  destruct (t =? T_STRUCT); [apply skip_fields_suffix; assumption|].
  destruct (t =? T_MAP).
  { destruct bs as [|kt [|vt r0]]; try discriminate.
    destruct (skip_count r0) as [[sz r2]|] eqn:Ec; [|discriminate]. apply skip_count_suffix in Ec.
    assert (forall x, suffix_of x r2 -> suffix_of x (kt :: vt :: r0)).
    { intros x Hx. do 2 apply suffix_cons. eapply suffix_trans; eassumption. }
    destruct ((fixed_size kt >? 0) && (fixed_size vt >? 0)).
    - intros Hd. apply drop_suffix in Hd. auto.
    - destruct (sz >? zlen r2); [discriminate|]. intros Hd. apply skip_pairs_suffix in Hd; auto. }
  destruct ((t =? T_SET) || (t =? T_LIST)); [|discriminate].
  destruct bs as [|et r0]; try discriminate.
  destruct (skip_count r0) as [[sz r2]|] eqn:Ec; [|discriminate]. apply skip_count_suffix in Ec.
  assert (forall x, suffix_of x r2 -> suffix_of x (et :: r0)).
  { intros x Hx. apply suffix_cons. eapply suffix_trans; eassumption. }
  destruct (fixed_size et >? 0).
  - intros Hd. apply drop_suffix in Hd. auto.
  - destruct (sz >? zlen r2); [discriminate|]. intros Hd. apply skip_elems_suffix in Hd; auto.
Qed.

(* (stated on skip_go and proved by [apply] on the goal: converting a HYPOTHESIS about skip_go into one about
   skip max_skip_depth makes the kernel unfold the 1023-deep fixpoint) *)
Corollary skip_go_suffix_of t bs r : skip_go t bs = Some r -> suffix_of r bs.
Proof. apply skip_suffix. Qed.

(* skip returns a strictly shorter suffix: r = skipn n bs with 1 <= n <= |bs| *)
Corollary skip_go_suffix t bs r : skip_go t bs = Some r ->
  exists n, (1 <= n <= length bs)%nat /\ r = skipn n bs.
Proof.
  intros H. pose proof (skip_go_shrinks _ _ _ H) as Hl. apply skip_go_suffix_of in H. destruct H as [n ->].
  rewrite skipn_length in Hl. exists (Nat.min n (length bs)). split; [lia|].
  destruct (Nat.le_ge_cases n (length bs)).
  - rewrite Nat.min_l by assumption. reflexivity.
  - rewrite Nat.min_r by assumption. rewrite skipn_all. apply skipn_all2. assumption.
Qed.

(* ---- the byte-level searches ---- *)
Theorem search_field_fuel_stable : forall f f' id bs off, (length bs < f)%nat -> (length bs < f')%nat ->
  search_field f id bs off = search_field f' id bs off.
Proof.
  induction f as [|f IH]; intros f' id bs off Hf Hf'; [lia|]. destruct f' as [|f']; [lia|]. cbn [search_field].
  destruct bs as [|t r]; [reflexivity|].
  destruct (t =? 0); [reflexivity|].
  destruct (take 2 r) as [[idb r2]|] eqn:E2; [|reflexivity]. apply take_len in E2.
  destruct (dec_int idb =? id); [reflexivity|].
  destruct (skip_go t r2) as [r3|] eqn:E3; [|reflexivity]. apply skip_go_shrinks in E3.
  cbn [length] in *. apply IH; lia.
Qed.

(* search results: the found element starts at off + (bytes consumed), and the rest is no longer than the input *)
Definition sres_inside (sr : sres) (bs : list Z) (off : Z) : Prop :=
  match sr with
  | SFound _ o rest => o = off + (zlen bs - zlen rest) /\ zlen rest <= zlen bs /\ suffix_of rest bs
  | _ => True
  end.

Lemma search_field_inside : forall f id bs off, sres_inside (search_field f id bs off) bs off.
Proof.
  induction f as [|f IH]; intros id bs off; cbn [search_field]; [exact I|].
  destruct bs as [|t r]; [exact I|].
  destruct (t =? 0); [exact I|].
  destruct (take 2 r) as [[idb r2]|] eqn:E2; [|exact I]. pose proof (take_suffix _ _ _ _ E2) as S2. apply take_len in E2.
  destruct (dec_int idb =? id).
  { cbn [sres_inside]. unfold zlen. cbn [length]. split; [lia|]. split; [lia|]. apply suffix_cons; assumption. }
  destruct (skip_go t r2) as [r3|] eqn:E3; [|exact I].
  pose proof (skip_go_suffix_of _ _ _ E3) as S3. apply skip_go_shrinks in E3.
  specialize (IH id r3 (off + 3 + (zlen r2 - zlen r3))).
  destruct (search_field f id r3 _) as [t' o rest| |]; try exact I.
  cbn [sres_inside] in *. destruct IH as (Ho & Hl & Hs). unfold zlen in *. cbn [length].
  split; [lia|]. split; [lia|]. apply suffix_cons. eapply suffix_trans; [eassumption|]. eapply suffix_trans; eassumption.
Qed.

Lemma search_nth_inside : forall n et bs off, sres_inside (search_nth n et bs off) bs off.
Proof.
  induction n as [|n IH]; intros et bs off; cbn [search_nth].
  - cbn. split; [lia|]. split; [lia|apply suffix_refl].
  - destruct (skip_go et bs) as [r|] eqn:E; [|exact I].
    pose proof (skip_go_suffix_of _ _ _ E) as S1. apply skip_go_shrinks in E.
    specialize (IH et r (off + (zlen bs - zlen r))).
    destruct (search_nth n et r _) as [t' o rest| |]; try exact I.
    cbn [sres_inside] in *. destruct IH as (Ho & Hl & Hs). unfold zlen in *.
    split; [lia|]. split; [lia|]. eapply suffix_trans; eassumption.
Qed.

Lemma search_index_inside i bs : sres_inside (search_index i bs) bs 0.
Proof.
  unfold search_index. destruct bs as [|et r]; [exact I|].
  destruct (skip_count r) as [[sz r2]|] eqn:Ec; [|exact I].
  pose proof (skip_count_suffix _ _ _ Ec) as Sc. apply skip_count_len in Ec.
  destruct (i <? 0); [exact I|]. destruct (i >=? sz); [exact I|].
  pose proof (search_nth_inside (Z.to_nat i) et r2 5) as H.
  destruct (search_nth _ et r2 5) as [t' o rest| |]; try exact I.
  cbn [sres_inside] in *. destruct H as (Ho & Hl & Hs). unfold zlen in *. cbn [length].
  split; [lia|]. split; [lia|]. apply suffix_cons. eapply suffix_trans; eassumption.
Qed.

Lemma search_pairs_inside rdkey vt :
  (forall b hit r, rdkey b = Some (hit, r) -> suffix_of r b) ->
  forall n bs off, sres_inside (search_pairs n rdkey vt bs off) bs off.
Proof.
  intros Hk. induction n as [|n IH]; intros bs off; cbn [search_pairs]; [exact I|].
  destruct (rdkey bs) as [[hit r]|] eqn:E; [|exact I]. apply Hk in E. pose proof (suffix_length _ _ E) as L1.
  cbv zeta. destruct hit.
  { cbn. unfold zlen. split; [lia|]. split; [lia|assumption]. }
  destruct (skip_go vt r) as [r2|] eqn:E2; [|exact I].
  pose proof (skip_go_suffix_of _ _ _ E2) as S2. apply skip_go_shrinks in E2.
  specialize (IH r2 (off + (zlen bs - zlen r) + (zlen r - zlen r2))).
  destruct (search_pairs n rdkey vt r2 _) as [t' o rest| |]; try exact I.
  cbn [sres_inside] in *. destruct IH as (Ho & Hl & Hs). unfold zlen in *.
  split; [lia|]. split; [lia|]. eapply suffix_trans; [eassumption|]. eapply suffix_trans; eassumption.
Qed.

Lemma dec_scalar_suffix t bs v r : dec_scalar t bs = Some (v, r) -> suffix_of r bs.
Proof.
  unfold dec_scalar.
  destruct (t =? T_BOOL). { destruct bs; [discriminate|]. intros H; inversion H; subst. apply suffix_cons, suffix_refl. }
  destruct (t =? T_BYTE). { destruct (take 1 bs) as [[x r1]|] eqn:E; [|discriminate]. intros H; inversion H; subst. eapply take_suffix; eassumption. }
  destruct (t =? T_I16). { destruct (take 2 bs) as [[x r1]|] eqn:E; [|discriminate]. intros H; inversion H; subst. eapply take_suffix; eassumption. }
  destruct (t =? T_I32). { destruct (take 4 bs) as [[x r1]|] eqn:E; [|discriminate]. intros H; inversion H; subst. eapply take_suffix; eassumption. }
  destruct (t =? T_I64). { destruct (take 8 bs) as [[x r1]|] eqn:E; [|discriminate]. intros H; inversion H; subst. eapply take_suffix; eassumption. }
  destruct (t =? T_DOUBLE). { destruct (take 8 bs) as [[x r1]|] eqn:E; [|discriminate]. intros H; inversion H; subst. eapply take_suffix; eassumption. }
  destruct (t =? T_STRING); [|discriminate].
  destruct (take 4 bs) as [[x r1]|] eqn:E; [|discriminate]. cbv zeta.
  destruct (dec_int x <? 0); [discriminate|].
  destruct (take (Z.to_nat (dec_int x)) r1) as [[s r2]|] eqn:E2; [|discriminate].
  intros H; inversion H; subst. eapply suffix_trans; eapply take_suffix; eassumption.
Qed.

Lemma rd_str_key_suffix s b hit r : rd_str_key s b = Some (hit, r) -> suffix_of r b.
Proof.
  unfold rd_str_key. destruct (dec_scalar T_STRING b) as [[v r1]|] eqn:E; [|discriminate].
  apply dec_scalar_suffix in E. destruct v; try discriminate. intros H; inversion H; subst. assumption.
Qed.

Lemma rd_int_key_suffix kt n b hit r : rd_int_key kt n b = Some (hit, r) -> suffix_of r b.
Proof.
  unfold rd_int_key. destruct (dec_scalar kt b) as [[v r1]|] eqn:E; [|discriminate].
  apply dec_scalar_suffix in E. destruct (int_of_key v); [|discriminate]. intros H; inversion H; subst. assumption.
Qed.

Lemma rd_bin_key_suffix kt k b hit r : rd_bin_key kt k b = Some (hit, r) -> suffix_of r b.
Proof.
  unfold rd_bin_key. destruct (skip_go kt b) as [r1|] eqn:E; [|discriminate].
  apply skip_go_suffix_of in E. intros H; inversion H; subst. assumption.
Qed.

Lemma search_map_inside s bs : sres_inside (search_map s bs) bs 0.
Proof.
  unfold search_map. destruct bs as [|kt [|vt r]]; try exact I.
  destruct (skip_count r) as [[sz r2]|] eqn:Ec; [|exact I].
  pose proof (skip_count_suffix _ _ _ Ec) as Sc. apply skip_count_len in Ec. cbv zeta.
  assert (G : forall rdkey, (forall b hit r, rdkey b = Some (hit, r) -> suffix_of r b) ->
              sres_inside (search_pairs (Z.to_nat (Z.min sz (zlen r2 + 1))) rdkey vt r2 6) (kt :: vt :: r) 0).
  { intros rdkey Hk. pose proof (search_pairs_inside rdkey vt Hk (Z.to_nat (Z.min sz (zlen r2 + 1))) r2 6) as H.
    destruct (search_pairs _ rdkey vt r2 6) as [t' o rest| |]; try exact I.
    cbn [sres_inside] in *. destruct H as (Ho & Hl & Hs). unfold zlen in *. cbn [length].
    split; [lia|]. split; [lia|]. do 2 apply suffix_cons. eapply suffix_trans; eassumption. }
  destruct s; try exact I.
  - destruct (kt =? T_STRING); [|exact I]. apply G. apply rd_str_key_suffix.
  - destruct (is_int_type kt); [|exact I]. apply G. apply rd_int_key_suffix.
  - apply G. apply rd_bin_key_suffix.
Qed.

Theorem search1_inside t s bs : sres_inside (search1 t s bs) bs 0.
Proof.
  unfold search1. destruct s.
  - destruct (t =? T_STRUCT); [apply search_field_inside|exact I].
  - destruct ((t =? T_LIST) || (t =? T_SET)); [apply search_index_inside|exact I].
  - destruct (t =? T_MAP); [apply search_map_inside|exact I].
  - destruct (t =? T_MAP); [apply search_map_inside|exact I].
  - destruct (t =? T_MAP); [apply search_map_inside|exact I].
Qed.

(* the span handed back by get_by_path lies inside the buffer (and is not empty) — on arbitrary bytes *)
Theorem get_by_path_in_bounds : forall p t bs off t' s e,
  get_by_path t bs off p = GFound t' s e -> off <= s /\ s < e /\ e <= off + zlen bs.
Proof.
  induction p as [|st p IH]; intros t bs off t' s e; cbn [get_by_path].
  - destruct (skip_go t bs) as [r|] eqn:E; [|discriminate]. apply skip_go_shrinks in E.
    intros H; inversion H; subst. unfold zlen. lia.
  - pose proof (search1_inside t st bs) as Hs.
    destruct (search1 t st bs) as [t1 o rest| |]; try discriminate.
    cbn [sres_inside] in Hs. destruct Hs as (Ho & Hl & _).
    intros H. apply IH in H. pose proof (zlen_nonneg rest). lia.
Qed.

(* ---- fuel-explicit copies: the field search runs on the fuel f at EVERY step of the path ---- *)
Definition search1_f (f : nat) (t : Z) (s : pstep) (bs : list Z) : sres :=
  match s with
  | PField id => if t =? T_STRUCT then search_field f id bs 0 else SErr
  | PIndex i => if (t =? T_LIST) || (t =? T_SET) then search_index i bs else SErr
  | _ => if t =? T_MAP then search_map s bs else SErr
  end.

Fixpoint get_by_path_f (f : nat) (t : Z) (bs : list Z) (off : Z) (p : list pstep) : gres :=
  match p with
  | [] => match skip_go t bs with
          | Some r => GFound t off (off + (zlen bs - zlen r))
          | None => GErr
          end
  | s :: p' =>
    match search1_f f t s bs with
    | SFound t' o rest => get_by_path_f f t' rest (off + o) p'
    | SNotFound => GNotFound
    | SErr => GErr
    end
  end.

Lemma search1_f_total f t s bs : (length bs < f)%nat -> search1_f f t s bs = search1 t s bs.
Proof.
  intros Hf. unfold search1_f, search1. destruct s; try reflexivity.
  destruct (t =? T_STRUCT); [|reflexivity]. apply search_field_fuel_stable; lia.
Qed.

(* every fuel above the length of the ROOT buffer gives the model's answer: an SErr/GErr of get_by_path is never
   "the field loop ran out of fuel" *)
Theorem get_by_path_total : forall p f t bs off, (length bs < f)%nat ->
  get_by_path_f f t bs off p = get_by_path t bs off p.
Proof.
  induction p as [|st p IH]; intros f t bs off Hf; cbn [get_by_path_f get_by_path]; [reflexivity|].
  rewrite search1_f_total by assumption.
  pose proof (search1_inside t st bs) as Hs.
  destruct (search1 t st bs) as [t1 o rest| |]; try reflexivity.
  cbn [sres_inside] in Hs. destruct Hs as (_ & Hl & _). apply IH. unfold zlen in Hl. lia.
Qed.
