(* C01: the descriptor-carrying (typed) reads agree with the descriptor-free (untyped) reads. *)
From Coq Require Import ZArith List Bool Lia.
From DG Require Import ProtoWireRef ProtoWireRefProofs ThriftWire ThriftWireProofs CaseFormat ThriftGeneric ThriftGenericProofs ThriftTyped.
Import ListNotations.
Local Open Scope Z_scope.

Lemma conforms_type d v : conforms d v = true -> desc_type d = type_of v.
Proof.
  destruct v; destruct d; cbn [conforms desc_type type_of]; intros H; try discriminate H; try reflexivity;
    apply Z.eqb_eq in H; symmetry; exact H.
Qed.

Lemma tfits_false_search1 s t bs : tfits s t = false -> search1 t (plain s) bs = SErr.
Proof.
  destruct s; cbn [tfits plain search1]; intros H; rewrite ?H; reflexivity.
Qed.

(* ---- descriptor lookups ---- *)
Lemma fby_id_in id fs fd : fby_id id fs = Some fd -> exists nm, In (id, nm, fd) fs.
Proof.
  induction fs as [|[[i n] d] fs IH]; cbn [fby_id]; intros H; [discriminate H|].
  destruct (Z.eqb_spec i id) as [E|_].
  - inversion H; subst. exists n. left. reflexivity.
  - destruct (IH H) as [nm Hin]. exists nm. right. exact Hin.
Qed.

Lemma fby_name_in nm fs id fd : fby_name nm fs = Some (id, fd) -> exists n, In (id, n, fd) fs.
Proof.
  induction fs as [|[[i n] d] fs IH]; cbn [fby_name]; intros H; [discriminate H|].
  destruct (bytes_eqb n nm).
  - inversion H; subst. exists n. left. reflexivity.
  - destruct (IH H) as [n' Hin]. exists n'. right. exact Hin.
Qed.

Lemma id_in_false id fs n fd : id_in id fs = false -> In (id, n, fd) fs -> False.
Proof.
  induction fs as [|[[i m] d] fs IH]; cbn [id_in]; intros H Hin; [contradiction Hin|].
  apply orb_false_iff in H. destruct H as [H1 H2]. destruct Hin as [E|Hin].
  - inversion E; subst. rewrite Z.eqb_refl in H1. discriminate H1.
  - exact (IH H2 Hin).
Qed.

Lemma distinct_fby_id id n fd fs : ids_distinct fs = true -> In (id, n, fd) fs -> fby_id id fs = Some fd.
Proof.
  induction fs as [|[[i m] d] fs IH]; cbn [ids_distinct fby_id]; intros H Hin; [contradiction Hin|].
  apply andb_true_iff in H. destruct H as [H1 H2]. apply negb_true_iff in H1. destruct Hin as [E|Hin].
  - inversion E; subst. rewrite Z.eqb_refl. reflexivity.
  - destruct (Z.eqb_spec i id) as [Ei|_]; [subst; exfalso; eapply id_in_false; eassumption|]. exact (IH H2 Hin).
Qed.

Lemma name_then_id nm fs id fd : ids_distinct fs = true -> fby_name nm fs = Some (id, fd) -> fby_id id fs = Some fd.
Proof. intros Hd H. destruct (fby_name_in _ _ _ _ H) as [n Hin]. eapply distinct_fby_id; eassumption. Qed.

Lemma step_desc_ok d s us d' : desc_ok d = true -> step_desc d s = Some (us, d') -> desc_ok d' = true.
Proof.
  intros Hok H. destruct s; destruct d; cbn [step_desc] in H; try discriminate H; cbn [desc_ok] in Hok.
  - destruct (fby_id id fs) as [fd|] eqn:E; [|discriminate H]. inversion H; subst.
    apply andb_true_iff in Hok. destruct Hok as [_ Hall]. rewrite forallb_forall in Hall.
    destruct (fby_id_in _ _ _ E) as [nm Hin]. exact (Hall _ Hin).
  - destruct (fby_name nm fs) as [[id fd]|] eqn:E; [|discriminate H]. inversion H; subst.
    apply andb_true_iff in Hok. destruct Hok as [_ Hall]. rewrite forallb_forall in Hall.
    destruct (fby_name_in _ _ _ _ E) as [n Hin]. exact (Hall _ Hin).
  - inversion H; subst. exact Hok.
  - inversion H; subst. exact Hok.
  - inversion H; subst. apply andb_true_iff in Hok. tauto.
  - inversion H; subst. apply andb_true_iff in Hok. tauto.
  - inversion H; subst. apply andb_true_iff in Hok. tauto.
Qed.

(* ---- the element a step finds is an element of the container ---- *)
Lemma find_field_in id fs : forall off sub o, find_field id fs off = LFound sub o -> In (id, sub) fs.
Proof.
  induction fs as [|[i x] fs IH]; intros off sub o H; [discriminate H|]. cbn [find_field fst snd] in H.
  destruct (Z.eqb_spec i id) as [E|_].
  - inversion H; subst. left. reflexivity.
  - right. eapply IH. exact H.
Qed.

Lemma find_index_in es : forall n off sub o, find_index n es off = LFound sub o -> In sub es.
Proof.
  induction es as [|x es IH]; intros n off sub o H; [destruct n; discriminate H|].
  destruct n as [|n]; cbn [find_index] in H.
  - inversion H; subst. left. reflexivity.
  - right. eapply IH. exact H.
Qed.

Lemma find_key_in pr es : forall off sub o, find_key pr es off = LFound sub o -> exists k, In (k, sub) es.
Proof.
  induction es as [|[k x] es IH]; intros off sub o H; [discriminate H|]. cbn [find_key fst snd] in H.
  destruct (pr k).
  - inversion H; subst. exists k. left. reflexivity.
  - destruct (IH _ _ _ H) as [k' Hin]. exists k'. right. exact Hin.
Qed.

(* the child found by a step conforms to the child descriptor *)
Lemma lookup1_conforms d v s us d' sub o :
  desc_ok d = true -> conforms d v = true -> step_desc d s = Some (us, d') -> lookup1 v us = LFound sub o ->
  conforms d' sub = true.
Proof.
  intros Hok Hc Hs Hl.
  destruct s as [id|nm|i|k|k|b]; destruct d as [t|dfs|e|e|kd e]; cbn [step_desc] in Hs; try discriminate Hs.
  - (* field id *)
    destruct (fby_id id dfs) as [fd|] eqn:E; [|discriminate Hs]. inversion Hs; subst.
    destruct v; cbn [conforms] in Hc; try discriminate Hc. cbn [lookup1] in Hl.
    rewrite forallb_forall in Hc. specialize (Hc _ (find_field_in _ _ _ _ _ Hl)). cbn [fst snd] in Hc. rewrite E in Hc. exact Hc.
  - (* field name *)
    destruct (fby_name nm dfs) as [[id fd]|] eqn:E; [|discriminate Hs]. inversion Hs; subst.
    cbn [desc_ok] in Hok. apply andb_true_iff in Hok. destruct Hok as [Hd _].
    pose proof (name_then_id _ _ _ _ Hd E) as E'.
    destruct v; cbn [conforms] in Hc; try discriminate Hc. cbn [lookup1] in Hl.
    rewrite forallb_forall in Hc. specialize (Hc _ (find_field_in _ _ _ _ _ Hl)). cbn [fst snd] in Hc. rewrite E' in Hc. exact Hc.
  - (* index, list *)
    inversion Hs; subst. destruct v; cbn [conforms] in Hc; try discriminate Hc. cbn [lookup1] in Hl.
    destruct (i <? 0); [discriminate Hl|]. rewrite forallb_forall in Hc. exact (Hc _ (find_index_in _ _ _ _ _ Hl)).
  - (* index, set *)
    inversion Hs; subst. destruct v; cbn [conforms] in Hc; try discriminate Hc. cbn [lookup1] in Hl.
    destruct (i <? 0); [discriminate Hl|]. rewrite forallb_forall in Hc. exact (Hc _ (find_index_in _ _ _ _ _ Hl)).
  - (* string key *)
    inversion Hs; subst. destruct v; cbn [conforms] in Hc; try discriminate Hc. cbn [lookup1] in Hl.
    destruct (kt =? T_STRING); [|discriminate Hl]. rewrite forallb_forall in Hc.
    destruct (find_key_in _ _ _ _ _ Hl) as [k' Hin]. exact (Hc _ Hin).
  - (* int key *)
    inversion Hs; subst. destruct v; cbn [conforms] in Hc; try discriminate Hc. cbn [lookup1] in Hl.
    destruct (is_int_type kt); [|discriminate Hl]. rewrite forallb_forall in Hc.
    destruct (find_key_in _ _ _ _ _ Hl) as [k' Hin]. exact (Hc _ Hin).
  - (* raw key *)
    inversion Hs; subst. destruct v; cbn [conforms] in Hc; try discriminate Hc. cbn [lookup1] in Hl.
    rewrite forallb_forall in Hc. destruct (find_key_in _ _ _ _ _ Hl) as [k' Hin]. exact (Hc _ Hin).
Qed.

(* ================= typed = untyped on the resolved path ================= *)
Theorem typed_untyped_agree : forall p d v r off,
  wf v = true -> (depth v <= max_skip_depth)%nat -> desc_ok d = true -> conforms d v = true ->
  vget_by_path d (type_of v) (encode v ++ r) off p =
  typed_spec (resolve d p) (get_by_path (type_of v) (encode v ++ r) off).
Proof.
  induction p as [|s p IH]; intros d v r off Hw Hd Hok Hc; pose proof (conforms_type _ _ Hc) as Ht.
  - cbn [vget_by_path resolve typed_spec snd fst get_by_path]. rewrite Ht. reflexivity.
  - cbn [vget_by_path resolve]. rewrite Ht, andb_diag.
    destruct (tfits s (type_of v)) eqn:Ef; cbn [negb].
    + destruct (step_desc d s) as [[us d']|] eqn:Es.
      * cbv zeta. unfold typed_spec at 1. cbn [fst snd get_by_path].
        assert (Hg : good v) by (split; assumption).
        pose proof (search1_refines v us r Hg) as Hm.
        destruct (lookup1 v us) as [sub o| |] eqn:El; cbn [sres_matches] in Hm.
        -- destruct Hm as [r' Hm]. rewrite Hm.
           destruct (lookup1_good v us sub o Hg El) as [Hw' Hd'].
           rewrite (IH d' sub r' (off + o) Hw' Hd' (step_desc_ok _ _ _ _ Hok Es) (lookup1_conforms _ _ _ _ _ _ _ Hok Hc Es El)).
           unfold typed_spec. reflexivity.
        -- rewrite Hm. destruct (snd (resolve d' p)); reflexivity.
        -- rewrite Hm. destruct (snd (resolve d' p)); reflexivity.
      * (* unknown field: the untyped access of the empty resolved prefix finds the value itself *)
        cbn [typed_spec fst snd get_by_path]. rewrite skip_go_encode by (split; assumption). reflexivity.
    + cbn [typed_spec fst snd get_by_path]. rewrite (tfits_false_search1 _ _ _ Ef). reflexivity.
Qed.

(* a path the descriptor resolves completely: exactly the untyped result on the name-free path *)
Corollary typed_untyped_agree_resolved p d v r off q :
  wf v = true -> (depth v <= max_skip_depth)%nat -> desc_ok d = true -> conforms d v = true -> resolve d p = (q, true) ->
  vget_by_path d (type_of v) (encode v ++ r) off p = get_by_path (type_of v) (encode v ++ r) off q.
Proof. intros Hw Hd Hok Hc Hr. rewrite typed_untyped_agree by assumption. rewrite Hr. reflexivity. Qed.

(* ... and hence the image of the AST-level lookup *)
Corollary typed_refines_lookup p d v r off q :
  wf v = true -> (depth v <= max_skip_depth)%nat -> desc_ok d = true -> conforms d v = true -> resolve d p = (q, true) ->
  vget_by_path d (type_of v) (encode v ++ r) off p = gres_of_lres (lookup v off q).
Proof. intros. erewrite typed_untyped_agree_resolved by eassumption. apply get_by_path_refines_lookup; assumption. Qed.

(* lookup by NAME: found <-> declared; a declared name behaves as its id, an undeclared one is an error *)
Theorem name_lookup_iff_declared nm dfs v r off :
  wf v = true -> (depth v <= max_skip_depth)%nat -> desc_ok (DStruct dfs) = true -> conforms (DStruct dfs) v = true ->
  vget_by_path (DStruct dfs) (type_of v) (encode v ++ r) off [TName nm] =
  match fby_name nm dfs with
  | Some (id, _) => get_by_path (type_of v) (encode v ++ r) off [PField id]
  | None => GErr
  end.
Proof.
  intros Hw Hd Hok Hc. rewrite typed_untyped_agree by assumption.
  cbn [resolve desc_type tfits]. change (T_STRUCT =? T_STRUCT) with true. cbn [negb step_desc].
  destruct (fby_name nm dfs) as [[id fd]|]; cbn [typed_spec fst snd resolve].
  - reflexivity.
  - cbn [get_by_path]. rewrite skip_go_encode by (split; assumption). reflexivity.
Qed.

(* the descriptor attached to a typed result is the descriptor of the element found *)
Theorem vdesc_conforms : forall p d v off q sub o,
  desc_ok d = true -> conforms d v = true -> resolve d p = (q, true) -> lookup v off q = LFound sub o ->
  exists d', vdesc_by_path d p = Some d' /\ conforms d' sub = true /\ desc_type d' = type_of sub.
Proof.
  induction p as [|s p IH]; intros d v off q sub o Hok Hc Hr Hl.
  - cbn [resolve] in Hr. inversion Hr; subst. cbn [lookup] in Hl. inversion Hl; subst.
    exists d. split; [reflexivity|]. split; [exact Hc|apply conforms_type; exact Hc].
  - cbn [resolve] in Hr. cbn [vdesc_by_path].
    destruct (tfits s (desc_type d)); cbn [negb] in *; [|inversion Hr].
    destruct (step_desc d s) as [[us d']|] eqn:Es; [|inversion Hr].
    destruct (resolve d' p) as [q' ok] eqn:Er. cbn [fst snd] in Hr. inversion Hr; subst.
    cbn [lookup] in Hl. destruct (lookup1 v us) as [c oc| |] eqn:El; try discriminate Hl.
    eapply IH; [eapply step_desc_ok; eassumption|eapply lookup1_conforms; eassumption|exact Er|exact Hl].
Qed.

(* Value.FieldByName = Value.GetByPath(PathFieldName) *)
Theorem vfield_by_name_agree nm d v r off :
  wf v = true -> (depth v <= max_skip_depth)%nat -> desc_ok d = true -> conforms d v = true ->
  vfield_by_name d (type_of v) (encode v ++ r) off nm = vget_by_path d (type_of v) (encode v ++ r) off [TName nm].
Proof.
  intros Hw Hd Hok Hc. pose proof (conforms_type _ _ Hc) as Ht. assert (Hg : good v) by (split; assumption).
  unfold vfield_by_name. cbn [vget_by_path tfits]. rewrite Ht, andb_diag.
  destruct (type_of v =? T_STRUCT) eqn:Es; cbn [negb]; [|reflexivity].
  destruct d as [t|dfs|e|e|kd e]; cbn [step_desc]; try reflexivity.
  destruct (fby_name nm dfs) as [[id fd]|] eqn:En; [|reflexivity].
  apply Z.eqb_eq in Es.
  assert (Hs1 : search1 (type_of v) (PField id) (encode v ++ r) = search_field (S (length (encode v ++ r))) id (encode v ++ r) 0).
  { rewrite Es. reflexivity. }
  rewrite <- Hs1.
  pose proof (search1_refines v (PField id) r Hg) as Hm.
  destruct (lookup1 v (PField id)) as [sub o| |] eqn:El; cbn [sres_matches] in Hm.
  - destruct Hm as [r' Hm]. rewrite Hm.
    assert (Hcs : conforms fd sub = true).
    { eapply (lookup1_conforms (DStruct dfs) v (TName nm)); try eassumption. cbn [step_desc]. rewrite En. reflexivity. }
    cbn [vget_by_path]. rewrite (conforms_type _ _ Hcs), Z.eqb_refl. cbn [negb].
    destruct (skip_go (type_of sub) (encode sub ++ r')); reflexivity.
  - rewrite Hm. reflexivity.
  - rewrite Hm. reflexivity.
Qed.

(* typed single-step accessors (Field / Index / GetByStr / GetByInt) on a declared child = the one-step typed path *)
Lemma step_desc_plain d s us d' : (forall nm, s <> TName nm) -> step_desc d s = Some (us, d') -> us = plain s.
Proof.
  intros Hn H. destruct s; destruct d; cbn [step_desc] in H; try discriminate H; cbn [plain].
  - destruct (fby_id id fs); inversion H; reflexivity.
  - exfalso. eapply Hn. reflexivity.
  - inversion H; reflexivity.
  - inversion H; reflexivity.
  - inversion H; reflexivity.
  - inversion H; reflexivity.
  - inversion H; reflexivity.
Qed.

Lemma step_desc_fits d s x : step_desc d s = Some x -> tfits s (desc_type d) = true.
Proof. destruct s; destruct d; cbn [step_desc]; intros H; try discriminate H; reflexivity. Qed.

Theorem vsingle_agree s d v r off us d' :
  wf v = true -> (depth v <= max_skip_depth)%nat -> desc_ok d = true -> conforms d v = true ->
  (forall nm, s <> TName nm) -> step_desc d s = Some (us, d') ->
  vsingle d (type_of v) (encode v ++ r) off s = vget_by_path d (type_of v) (encode v ++ r) off [s].
Proof.
  intros Hw Hd Hok Hc Hn Hs. rewrite typed_untyped_agree by assumption.
  unfold vsingle. rewrite Hs. rewrite <- (step_desc_plain _ _ _ _ Hn Hs).
  cbn [resolve]. rewrite (step_desc_fits _ _ _ Hs). cbn [negb].
  rewrite Hs. cbn [resolve typed_spec fst snd]. destruct (get_by_path (type_of v) (encode v ++ r) off [us]); reflexivity.
Qed.
