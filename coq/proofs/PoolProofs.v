(* C12 — proofs about the pool discipline model (model/Pool.v). *)
From Coq Require Import ZArith List Bool Arith Lia Permutation.
From DG Require Import Pool.
Import ListNotations.

(* ------------------------------------------------------------------------------------------------ basics *)

Lemma key_eqb_true : forall c s c' s', key_eqb c s c' s' = true <-> c' = c /\ s' = s.
Proof.
  intros. unfold key_eqb. rewrite andb_true_iff, !Nat.eqb_eq. tauto.
Qed.

Lemma key_eqb_refl : forall c s, key_eqb c s c s = true.
Proof. intros. apply key_eqb_true. auto. Qed.

Lemma key_eqb_false : forall c s c' s', key_eqb c s c' s' = false <-> ~ (c' = c /\ s' = s).
Proof.
  intros. rewrite <- key_eqb_true.
  destruct (key_eqb c s c' s'); split; intro H; try reflexivity; try discriminate; exfalso; apply H; reflexivity.
Qed.

Lemma take_perm : forall i l y r, take i l = Some (y, r) -> Permutation l (y :: r).
Proof.
  induction i; destruct l as [|x l]; simpl; intros y r H; try discriminate.
  - inversion H; subst. apply Permutation_refl.
  - destruct (take i l) as [[y' r']|] eqn:E; try discriminate. inversion H; subst.
    apply IHi in E. eapply perm_trans; [apply perm_skip; exact E | apply perm_swap].
Qed.

Lemma take_in : forall i l y r, take i l = Some (y, r) -> In y l.
Proof. intros. apply take_perm in H. eapply Permutation_in; [apply Permutation_sym; exact H | left; reflexivity]. Qed.

Lemma take_rest_in : forall i l y r x, take i l = Some (y, r) -> In x r -> In x l.
Proof. intros. apply take_perm in H. eapply Permutation_in; [apply Permutation_sym; exact H | right; assumption]. Qed.

Lemma take_nodup : forall i l y r, take i l = Some (y, r) -> NoDup l -> NoDup r /\ ~ In y r.
Proof.
  intros. apply take_perm in H. eapply Permutation_NoDup in H0; [|exact H].
  inversion H0; subst. split; assumption.
Qed.

Lemma memb_in : forall b l, memb b l = true <-> In b l.
Proof.
  intros. unfold memb. rewrite existsb_exists. split.
  - intros [x [Hi He]]. apply Nat.eqb_eq in He. subst. assumption.
  - intros. exists b. split; [assumption | apply Nat.eqb_refl].
Qed.

(* ------------------------------------------------------------------------------------------------ invariant *)

Record Inv (st : state) : Prop := mkInv {
  inv_pool_nodup : NoDup (pool st);
  inv_pool_lt : forall b, In b (pool st) -> b < next st;
  inv_owned_lt : forall b, In b (owned st) -> b < next st;
  inv_work_lt : forall c s b, work st c s = Some b -> b < next st;
  inv_pool_owned : forall b, In b (pool st) -> ~ In b (owned st);
  inv_work_pool : forall c s b, work st c s = Some b -> ~ In b (pool st);
  inv_work_owned : forall c s b, work st c s = Some b -> ~ In b (owned st);
  inv_work_inj : forall c s c' s' b, work st c s = Some b -> work st c' s' = Some b -> c = c' /\ s = s';
  inv_pool_reset : forall b, In b (pool st) -> logical (mem st b) = []
}.

Lemma inv_init : Inv init.
Proof.
  constructor; simpl; intros; try contradiction; try discriminate. constructor.
Qed.

Ltac keys :=
  repeat match goal with
  | H : context [key_eqb ?c ?s ?c' ?s'] |- _ =>
      let E := fresh "E" in destruct (key_eqb c s c' s') eqn:E;
      [apply key_eqb_true in E; destruct E; subst | apply key_eqb_false in E]
  | |- context [key_eqb ?c ?s ?c' ?s'] =>
      let E := fresh "E" in destruct (key_eqb c s c' s') eqn:E;
      [apply key_eqb_true in E; destruct E; subst | apply key_eqb_false in E]
  end.

Ltac mems :=
  repeat match goal with
  | H : context [?a =? ?b] |- _ =>
      let E := fresh "E" in destruct (a =? b) eqn:E; [apply Nat.eqb_eq in E; subst | apply Nat.eqb_neq in E]
  | |- context [?a =? ?b] =>
      let E := fresh "E" in destruct (a =? b) eqn:E; [apply Nat.eqb_eq in E; subst | apply Nat.eqb_neq in E]
  end.

Section StepInv.
Variable st : state.
Hypothesis I : Inv st.

Let Hnd := inv_pool_nodup st I.
Let Hpl := inv_pool_lt st I.
Let Hol := inv_owned_lt st I.
Let Hwl := inv_work_lt st I.
Let Hpo := inv_pool_owned st I.
Let Hwp := inv_work_pool st I.
Let Hwo := inv_work_owned st I.
Let Hwi := inv_work_inj st I.
Let Hpr := inv_pool_reset st I.

Lemma fresh_not_pool : ~ In (next st) (pool st).
Proof. intro H. apply Hpl in H. lia. Qed.
Lemma fresh_not_owned : ~ In (next st) (owned st).
Proof. intro H. apply Hol in H. lia. Qed.
Lemma fresh_not_work : forall c s, work st c s <> Some (next st).
Proof. intros c s H. apply Hwl in H. lia. Qed.

Lemma step_get_inv : forall c s k d, Inv (step st (Get c s k d)).
Proof.
  intros c s k d. simpl.
  destruct (match k with Some i => take i (pool st) | None => None end) as [[b rest]|] eqn:T.
  - destruct k as [i|]; try discriminate.
    pose proof (take_in _ _ _ _ T) as Hb.
    destruct (take_nodup _ _ _ _ T Hnd) as [Hnr Hbr].
    assert (Hsub : forall x, In x rest -> In x (pool st)) by (intros; eapply take_rest_in; eauto).
    constructor; simpl; unfold upd_work, upd_mem; intros.
    + assumption.
    + apply Hpl. auto.
    + apply Hol. auto.
    + keys. * inversion H; subst. apply Hpl. assumption. * eapply Hwl; eauto.
    + apply Hpo. auto.
    + keys. * inversion H; subst. assumption. * intro Hin. eapply Hwp; eauto.
    + keys. * inversion H; subst. apply Hpo. assumption. * eapply Hwo; eauto.
    + keys; try (inversion H; subst); try (inversion H0; subst); auto.
      * exfalso. eapply Hwp; eauto.
      * exfalso. eapply Hwp; eauto.
      * eapply Hwi; eauto.
    + mems. * contradiction. * apply Hpr. auto.
  - constructor; simpl; unfold upd_work, upd_mem; intros.
    + assumption.
    + apply Hpl in H. lia.
    + apply Hol in H. lia.
    + keys. * inversion H; subst. lia. * apply Hwl in H. lia.
    + apply Hpo. auto.
    + keys. * inversion H; subst. apply fresh_not_pool. * eapply Hwp; eauto.
    + keys. * inversion H; subst. apply fresh_not_owned. * eapply Hwo; eauto.
    + keys; try (inversion H; subst); try (inversion H0; subst); auto.
      * exfalso. eapply fresh_not_work; eauto.
      * exfalso. eapply fresh_not_work; eauto.
      * eapply Hwi; eauto.
    + mems. * exfalso. apply fresh_not_pool. assumption. * apply Hpr. auto.
Qed.

(* a write into the buffer of a working slot keeps the invariant (the buffer is not pooled) *)
Lemma step_write_inv : forall c s b d, work st c s = Some b ->
  Inv (mkState (next st) (pool st) (owned st) (work st) (upd_mem (mem st) b d) (obs st)).
Proof.
  intros c s b d W. constructor; simpl; intros; eauto.
  unfold upd_mem. mems. - exfalso. eapply Hwp; eauto. - apply Hpr. assumption.
Qed.

Lemma step_append_inv : forall c s bs, Inv (step st (Append c s bs)).
Proof. intros. simpl. destruct (work st c s) eqn:W; [eapply step_write_inv; eauto | exact I]. Qed.

Lemma step_update_inv : forall c s i v, Inv (step st (Update c s i v)).
Proof. intros. simpl. destruct (work st c s) eqn:W; [eapply step_write_inv; eauto | exact I]. Qed.

Lemma step_overwrite_inv : forall c s bs, Inv (step st (Overwrite c s bs)).
Proof. intros. simpl. destruct (work st c s) eqn:W; [eapply step_write_inv; eauto | exact I]. Qed.

Lemma step_grow_inv : forall c s d, Inv (step st (Grow c s d)).
Proof.
  intros c s d. simpl. destruct (work st c s) as [b|] eqn:W; [|exact I].
  constructor; simpl; unfold upd_work, upd_mem; intros.
  - assumption.
  - apply Hpl in H. lia.
  - apply Hol in H. lia.
  - keys. + inversion H; subst. lia. + apply Hwl in H. lia.
  - apply Hpo. auto.
  - keys. + inversion H; subst. apply fresh_not_pool. + eapply Hwp; eauto.
  - keys. + inversion H; subst. apply fresh_not_owned. + eapply Hwo; eauto.
  - keys; try (inversion H; subst); try (inversion H0; subst); auto.
    + exfalso. eapply fresh_not_work; eauto.
    + exfalso. eapply fresh_not_work; eauto.
    + eapply Hwi; eauto.
  - mems. + exfalso. apply fresh_not_pool. assumption. + apply Hpr. auto.
Qed.

Lemma step_move_inv : forall c s s', Inv (step st (Move c s s')).
Proof.
  intros c s s'. simpl. destruct (work st c s') as [b|] eqn:W; [|exact I].
  constructor; simpl; unfold upd_work; eauto.
  - intros c1 s1 x H. destruct (key_eqb c s c1 s1); [inversion H; subst; eapply Hwl; eauto|].
    destruct (key_eqb c s' c1 s1); [discriminate | eapply Hwl; eauto].
  - intros c1 s1 x H. destruct (key_eqb c s c1 s1); [inversion H; subst; eapply Hwp; eauto|].
    destruct (key_eqb c s' c1 s1); [discriminate | eapply Hwp; eauto].
  - intros c1 s1 x H. destruct (key_eqb c s c1 s1); [inversion H; subst; eapply Hwo; eauto|].
    destruct (key_eqb c s' c1 s1); [discriminate | eapply Hwo; eauto].
  - intros c1 s1 c2 s2 x H1 H2.
    destruct (key_eqb c s c1 s1) eqn:K1; destruct (key_eqb c s c2 s2) eqn:K2.
    + apply key_eqb_true in K1, K2. destruct K1, K2. subst. auto.
    + inversion H1; subst x. destruct (key_eqb c s' c2 s2) eqn:K3; [discriminate|].
      apply key_eqb_false in K3. destruct (Hwi _ _ _ _ _ W H2) as [? ?]. subst. exfalso. apply K3. auto.
    + inversion H2; subst x. destruct (key_eqb c s' c1 s1) eqn:K3; [discriminate|].
      apply key_eqb_false in K3. destruct (Hwi _ _ _ _ _ W H1) as [? ?]. subst. exfalso. apply K3. auto.
    + destruct (key_eqb c s' c1 s1); [discriminate|]. destruct (key_eqb c s' c2 s2); [discriminate|]. eapply Hwi; eauto.
Qed.

Lemma step_read_inv : forall c s, Inv (step st (Read c s)).
Proof.
  intros. simpl. destruct (work st c s) eqn:W; [|exact I]. constructor; simpl; intros; eauto.
Qed.

Lemma step_copyout_inv : forall c s, Inv (step st (CopyOut c s)).
Proof.
  intros c s. simpl. destruct (work st c s) as [b|] eqn:W; [|exact I].
  constructor; simpl; unfold upd_mem; intros.
  - assumption.
  - apply Hpl in H. lia.
  - destruct H as [H|H]; [subst; lia | apply Hol in H; lia].
  - apply Hwl in H. lia.
  - intros [Hx|Hx]; [subst; apply fresh_not_pool; assumption | eapply Hpo; eauto].
  - eapply Hwp; eauto.
  - intros [Hx|Hx]; [subst; eapply fresh_not_work; eauto | eapply Hwo; eauto].
  - eapply Hwi; eauto.
  - mems. + exfalso. apply fresh_not_pool. assumption. + apply Hpr. auto.
Qed.

Lemma step_put_inv : forall c s, Inv (step st (Put c s)).
Proof.
  intros c s. simpl. destruct (work st c s) as [b|] eqn:W; [|exact I].
  constructor; simpl; unfold upd_work, upd_mem; intros.
  - constructor; [eapply Hwp; eauto | assumption].
  - destruct H as [H|H]; [subst; eapply Hwl; eauto | auto].
  - auto.
  - keys; try discriminate. eapply Hwl; eauto.
  - destruct H as [H|H]; [subst; eapply Hwo; eauto | auto].
  - keys; try discriminate. intros [Hx|Hx].
    + subst. destruct (Hwi _ _ _ _ _ W H) as [? ?]. subst. apply E. auto.
    + eapply Hwp; eauto.
  - keys; try discriminate. eapply Hwo; eauto.
  - keys; try discriminate. eapply Hwi; eauto.
  - mems. + reflexivity. + destruct H as [H|H]; [congruence | auto].
Qed.

Lemma step_drop_inv : forall c s, Inv (step st (Drop c s)).
Proof.
  intros c s. simpl. constructor; simpl; unfold upd_work; intros; eauto.
  - keys; try discriminate. eapply Hwl; eauto.
  - keys; try discriminate. eapply Hwp; eauto.
  - keys; try discriminate. eapply Hwo; eauto.
  - keys; try discriminate. eapply Hwi; eauto.
Qed.

Lemma step_handover_inv : forall c s, Inv (step st (HandOver c s)).
Proof.
  intros c s. simpl. destruct (work st c s) as [b|] eqn:W; [|exact I].
  constructor; simpl; unfold upd_work; eauto.
  - intros x [Hx|Hx]; [subst; eapply Hwl; eauto | auto].
  - intros c1 s1 x H. destruct (key_eqb c s c1 s1); [discriminate | eapply Hwl; eauto].
  - intros x Hp [Hx|Hx]; [subst; eapply Hwp; eauto | eapply Hpo; eauto].
  - intros c1 s1 x H. destruct (key_eqb c s c1 s1); [discriminate | eapply Hwp; eauto].
  - intros c1 s1 x H [Hx|Hx].
    + subst. destruct (key_eqb c s c1 s1) eqn:K; [discriminate|]. apply key_eqb_false in K.
      destruct (Hwi _ _ _ _ _ W H) as [? ?]. subst. apply K. auto.
    + destruct (key_eqb c s c1 s1); [discriminate | eapply Hwo; eauto].
  - intros c1 s1 c2 s2 x H1 H2. destruct (key_eqb c s c1 s1); [discriminate|]. destruct (key_eqb c s c2 s2); [discriminate|].
    eapply Hwi; eauto.
Qed.

End StepInv.

Lemma step_inv : forall st o, Inv st -> disciplined o -> Inv (step st o).
Proof.
  intros st o I D. destruct o; try discriminate D.
  - apply step_get_inv; assumption.
  - apply step_append_inv; assumption.
  - apply step_update_inv; assumption.
  - apply step_overwrite_inv; assumption.
  - apply step_grow_inv; assumption.
  - apply step_move_inv; assumption.
  - apply step_read_inv; assumption.
  - apply step_copyout_inv; assumption.
  - apply step_put_inv; assumption.
  - apply step_drop_inv; assumption.
  - apply step_handover_inv; assumption.
Qed.

Lemma run_inv : forall h st, Inv st -> Forall disciplined h -> Inv (run st h).
Proof.
  induction h as [|o h IH]; simpl; intros st I F; [assumption|].
  inversion F; subst. apply IH; [apply step_inv; assumption | assumption].
Qed.

Lemma run_app : forall h1 h2 st, run st (h1 ++ h2) = run (run st h1) h2.
Proof. intros. unfold run. apply fold_left_app. Qed.

(* ------------------------------------------------------------------------------------------------ (1) no aliasing *)

(* a buffer reachable from a result (or from the caller's input) is not in the free pool and is nobody's working buffer *)
Lemma inv_no_alias : forall st, Inv st -> forall b, In b (owned st) ->
  ~ In b (pool st) /\ (forall c s, work st c s <> Some b).
Proof.
  intros st I b Hb. split.
  - intro Hp. eapply inv_pool_owned; eauto.
  - intros c s W. eapply inv_work_owned; eauto.
Qed.

(* ... and is never written by a later operation *)
Lemma owned_not_written : forall st o, Inv st -> disciplined o -> forall b, In b (owned st) -> ~ In b (writes st o).
Proof.
  intros st o I D b Hb Hw. destruct o; try discriminate D; simpl in Hw.
  - destruct (match k with Some i => take i (pool st) | None => None end) as [[b' rest]|] eqn:T.
    + destruct k as [i|]; try discriminate. destruct Hw as [Hw|[]]. subst.
      eapply inv_pool_owned; eauto. eapply take_in; eauto.
    + destruct Hw as [Hw|[]]. subst. apply (inv_owned_lt st I) in Hb. lia.
  - destruct (work st c s) eqn:W; [|contradiction]. destruct Hw as [Hw|[]]. subst. eapply inv_work_owned; eauto.
  - destruct (work st c s) eqn:W; [|contradiction]. destruct Hw as [Hw|[]]. subst. eapply inv_work_owned; eauto.
  - destruct (work st c s) eqn:W; [|contradiction]. destruct Hw as [Hw|[]]. subst. eapply inv_work_owned; eauto.
  - destruct (work st c s) eqn:W; [|contradiction]. destruct Hw as [Hw|[]]. subst. apply (inv_owned_lt st I) in Hb. lia.
  - contradiction.
  - contradiction.
  - destruct (work st c s) eqn:W; [|contradiction]. destruct Hw as [Hw|[]]. subst. apply (inv_owned_lt st I) in Hb. lia.
  - destruct (work st c s) eqn:W; [|contradiction]. destruct Hw as [Hw|[]]. subst. eapply inv_work_owned; eauto.
  - contradiction.
  - contradiction.
Qed.

(* frame: an operation changes only the buffers it writes (for every operation, buggy ones included) *)
Lemma mem_frame : forall st o b, ~ In b (writes st o) -> mem (step st o) b = mem st b.
Proof.
  intros st o b Hw. destruct o; simpl in *.
  - destruct (match k with Some i => take i (pool st) | None => None end) as [[b' rest]|] eqn:T; simpl; unfold upd_mem;
      mems; try reflexivity; exfalso; apply Hw; left; reflexivity.
  - destruct (work st c s) eqn:W; simpl; [|reflexivity]. unfold upd_mem. mems; try reflexivity. exfalso; apply Hw; left; reflexivity.
  - destruct (work st c s) eqn:W; simpl; [|reflexivity]. unfold upd_mem. mems; try reflexivity. exfalso; apply Hw; left; reflexivity.
  - destruct (work st c s) eqn:W; simpl; [|reflexivity]. unfold upd_mem. mems; try reflexivity. exfalso; apply Hw; left; reflexivity.
  - destruct (work st c s) eqn:W; simpl; [|reflexivity]. unfold upd_mem. mems; try reflexivity. exfalso; apply Hw; left; reflexivity.
  - destruct (work st c s') eqn:W; reflexivity.
  - destruct (work st c s) eqn:W; reflexivity.
  - destruct (work st c s) eqn:W; simpl; [|reflexivity]. unfold upd_mem. mems; try reflexivity. exfalso; apply Hw; left; reflexivity.
  - destruct (work st c s) eqn:W; simpl; [|reflexivity]. unfold upd_mem. mems; try reflexivity. exfalso; apply Hw; left; reflexivity.
  - reflexivity.
  - destruct (work st c s) eqn:W; reflexivity.
  - destruct (work st c s) eqn:W; reflexivity.
  - destruct (work st c s) eqn:W; simpl; [|reflexivity]. unfold upd_mem. mems; try reflexivity. exfalso; apply Hw; left; reflexivity.
  - destruct (memb b0 (owned st)); reflexivity.
Qed.

Lemma owned_mono_step : forall st o b, In b (owned st) -> In b (owned (step st o)).
Proof.
  intros st o b H. destruct o; simpl.
  - destruct (match k with Some i => take i (pool st) | None => None end) as [[b' rest]|]; simpl; assumption.
  - destruct (work st c s); simpl; assumption.
  - destruct (work st c s); simpl; assumption.
  - destruct (work st c s); simpl; assumption.
  - destruct (work st c s); simpl; assumption.
  - destruct (work st c s'); simpl; assumption.
  - destruct (work st c s); simpl; assumption.
  - destruct (work st c s); simpl; [right|]; assumption.
  - destruct (work st c s); simpl; assumption.
  - assumption.
  - destruct (work st c s); simpl; [right|]; assumption.
  - destruct (work st c s); simpl; [right|]; assumption.
  - destruct (work st c s); simpl; assumption.
  - destruct (memb b0 (owned st)); simpl; assumption.
Qed.

Lemma owned_stable : forall h st, Inv st -> Forall disciplined h -> forall b, In b (owned st) ->
  In b (owned (run st h)) /\ mem (run st h) b = mem st b.
Proof.
  induction h as [|o h IH]; simpl; intros st I F b Hb; [split; [assumption | reflexivity]|].
  inversion F; subst.
  destruct (IH (step st o) (step_inv _ _ I H1) H2 b (owned_mono_step _ _ _ Hb)) as [Ho Hm].
  split; [assumption|]. rewrite Hm. apply mem_frame. apply owned_not_written; assumption.
Qed.

(* ------------------------------------------------------------------------------------------------ (2) reset, purity *)

Lemma get_from_pool_is_reset : forall st c s i d b rest, Inv st -> take i (pool st) = Some (b, rest) ->
  work (step st (Get c s (Some i) d)) c s = Some b /\ logical (mem (step st (Get c s (Some i) d)) b) = [].
Proof.
  intros st c s i d b rest I T. simpl. rewrite T. simpl. unfold upd_work, upd_mem.
  rewrite key_eqb_refl, Nat.eqb_refl. simpl. split; [reflexivity|].
  apply (inv_pool_reset st I). eapply take_in; eauto.
Qed.

Lemma get_any_is_reset : forall st c s k d, Inv st ->
  exists b, work (step st (Get c s k d)) c s = Some b /\ logical (mem (step st (Get c s k d)) b) = [].
Proof.
  intros st c s k d I. simpl.
  destruct (match k with Some i => take i (pool st) | None => None end) as [[b rest]|] eqn:T.
  - destruct k as [i|]; try discriminate. exists b. simpl. unfold upd_work, upd_mem. rewrite key_eqb_refl, Nat.eqb_refl. simpl.
    split; [reflexivity|]. apply (inv_pool_reset st I). eapply take_in; eauto.
  - exists (next st). simpl. unfold upd_work, upd_mem. rewrite key_eqb_refl, Nat.eqb_refl. simpl. split; reflexivity.
Qed.

(* the buffer-free semantics agrees with the buffer semantics on what every working slot holds and on all observations *)
Definition Link (st : state) (ps : pstate) : Prop :=
  (forall c s, pw ps c s = option_map (fun b => logical (mem st b)) (work st c s)) /\ pobs ps = obs st.

Lemma link_init : Link init pinit.
Proof. split; reflexivity. Qed.

Lemma link_step : forall st ps o, Inv st -> Link st ps -> disciplined o -> Link (step st o) (pstep ps o).
Proof.
  intros st ps o I [Lw Lo] D.
  pose proof (inv_work_inj st I) as Hwi. pose proof (inv_work_pool st I) as Hwp. pose proof (inv_work_lt st I) as Hwl.
  destruct o; try discriminate D; simpl.
  - (* Get *)
    destruct (match k with Some i => take i (pool st) | None => None end) as [[b rest]|] eqn:T.
    + destruct k as [i|]; try discriminate. pose proof (take_in _ _ _ _ T) as Hb.
      split; simpl; [|assumption]. intros c' s'. unfold upd_pw, upd_work, upd_mem. keys.
      * simpl. rewrite Nat.eqb_refl. simpl. f_equal. symmetry. apply (inv_pool_reset st I). assumption.
      * rewrite Lw. destruct (work st c' s') as [b'|] eqn:W; simpl; [|reflexivity].
        mems; [exfalso; eapply Hwp; eauto | reflexivity].
    + split; simpl; [|assumption]. intros c' s'. unfold upd_pw, upd_work, upd_mem. keys.
      * simpl. rewrite Nat.eqb_refl. reflexivity.
      * rewrite Lw. destruct (work st c' s') as [b'|] eqn:W; simpl; [|reflexivity].
        mems; [apply Hwl in W; lia | reflexivity].
  - (* Append *)
    rewrite Lw. destruct (work st c s) as [b|] eqn:W; simpl; [|split; assumption].
    split; simpl; [|assumption]. intros c' s'. unfold upd_pw, upd_mem. keys.
    + rewrite W. simpl. rewrite Nat.eqb_refl. reflexivity.
    + rewrite Lw. destruct (work st c' s') as [b'|] eqn:W'; simpl; [|reflexivity].
      mems; [|reflexivity]. destruct (Hwi _ _ _ _ _ W W') as [? ?]. subst. exfalso. apply E. auto.
  - (* Update *)
    rewrite Lw. destruct (work st c s) as [b|] eqn:W; simpl; [|split; assumption].
    split; simpl; [|assumption]. intros c' s'. unfold upd_pw, upd_mem. keys.
    + rewrite W. simpl. rewrite Nat.eqb_refl. reflexivity.
    + rewrite Lw. destruct (work st c' s') as [b'|] eqn:W'; simpl; [|reflexivity].
      mems; [|reflexivity]. destruct (Hwi _ _ _ _ _ W W') as [? ?]. subst. exfalso. apply E. auto.
  - (* Overwrite *)
    rewrite Lw. destruct (work st c s) as [b|] eqn:W; simpl; [|split; assumption].
    split; simpl; [|assumption]. intros c' s'. unfold upd_pw, upd_mem. keys.
    + rewrite W. simpl. rewrite Nat.eqb_refl. reflexivity.
    + rewrite Lw. destruct (work st c' s') as [b'|] eqn:W'; simpl; [|reflexivity].
      mems; [|reflexivity]. destruct (Hwi _ _ _ _ _ W W') as [? ?]. subst. exfalso. apply E. auto.
  - (* Grow *)
    destruct (work st c s) as [b|] eqn:W; simpl; [|split; assumption].
    split; simpl; [|assumption]. intros c' s'. unfold upd_work, upd_mem. keys.
    + simpl. rewrite Nat.eqb_refl. simpl. rewrite Lw, W. reflexivity.
    + rewrite Lw. destruct (work st c' s') as [b'|] eqn:W'; simpl; [|reflexivity].
      mems; [apply Hwl in W'; lia | reflexivity].
  - (* Move *)
    rewrite Lw. destruct (work st c s') as [b|] eqn:W; simpl; [|split; assumption].
    split; simpl; [|assumption]. intros c' s''. unfold upd_pw, upd_work. keys; try reflexivity. apply Lw.
  - (* Read *)
    rewrite Lw. destruct (work st c s) as [b|] eqn:W; simpl; [|split; assumption].
    split; simpl; [assumption | rewrite Lo; reflexivity].
  - (* CopyOut *)
    rewrite Lw. destruct (work st c s) as [b|] eqn:W; simpl; [|split; assumption].
    split; simpl; [|rewrite Lo; reflexivity]. intros c' s'. rewrite Lw. unfold upd_mem.
    destruct (work st c' s') as [b'|] eqn:W'; simpl; [|reflexivity]. mems; [apply Hwl in W'; lia | reflexivity].
  - (* Put *)
    rewrite Lw. destruct (work st c s) as [b|] eqn:W; simpl; [|split; assumption].
    split; simpl; [|assumption]. intros c' s'. unfold upd_pw, upd_work, upd_mem. keys; [reflexivity|].
    rewrite Lw. destruct (work st c' s') as [b'|] eqn:W'; simpl; [|reflexivity].
    mems; [|reflexivity]. destruct (Hwi _ _ _ _ _ W W') as [? ?]. subst. exfalso. apply E. auto.
  - (* Drop *)
    split; simpl; [|assumption]. intros c' s'. unfold upd_pw, upd_work. keys; [reflexivity | apply Lw].
  - (* HandOver *)
    rewrite Lw. destruct (work st c s) as [b|] eqn:W; simpl; [|split; assumption].
    split; simpl; [|rewrite Lo; reflexivity]. intros c' s'. unfold upd_pw, upd_work. keys; [reflexivity | apply Lw].
Qed.

Lemma link_run : forall h st ps, Inv st -> Link st ps -> Forall disciplined h -> Link (run st h) (prun ps h).
Proof.
  induction h as [|o h IH]; simpl; intros st ps I L F; [assumption|].
  inversion F; subst. apply IH; [apply step_inv | apply link_step |]; assumption.
Qed.

(* in the buffer-free semantics a call sees only its own operations *)
Definition agree (c : nat) (p q : pstate) : Prop :=
  (forall s, pw p c s = pw q c s) /\ pobs_of c p = pobs_of c q.

Lemma pobs_of_cons_other : forall c c' l w w' o, c' <> c -> pobs_of c (mkP w ((c', l) :: o)) = pobs_of c (mkP w' o).
Proof. intros. unfold pobs_of. simpl. destruct (c' =? c) eqn:E; [apply Nat.eqb_eq in E; congruence | reflexivity]. Qed.

Lemma pobs_of_cons_same : forall c l w o, pobs_of c (mkP w ((c, l) :: o)) = pobs_of c (mkP w o) ++ [l].
Proof. intros. unfold pobs_of. simpl. rewrite Nat.eqb_refl. reflexivity. Qed.

Lemma pobs_of_pw_irrelevant : forall c w w' o, pobs_of c (mkP w o) = pobs_of c (mkP w' o).
Proof. reflexivity. Qed.

Lemma pstep_other : forall c p o, call_of o <> c -> agree c (pstep p o) p.
Proof.
  intros c p o H. destruct p as [w ob]. destruct o; simpl in *; unfold agree; simpl;
    repeat match goal with |- context [match ?x with Some _ => _ | None => _ end] => destruct x eqn:? end; simpl;
    split; intros; try reflexivity; unfold upd_pw; keys; try congruence; try reflexivity;
    try (apply pobs_of_cons_other; assumption).
Qed.

Lemma pstep_same : forall c p q o, call_of o = c -> agree c p q -> agree c (pstep p o) (pstep q o).
Proof.
  intros c [w ob] [w' ob'] o H [Aw Ao]. simpl in Aw.
  destruct o; simpl in H; subst; simpl; try (split; assumption).
  - split; simpl; [|exact Ao]. intros s0. unfold upd_pw. keys; [reflexivity | apply Aw].
  - rewrite <- Aw. destruct (w c s) eqn:W; [|split; assumption]. split; simpl; [|exact Ao].
    intros s0. unfold upd_pw. keys; [reflexivity | apply Aw].
  - rewrite <- Aw. destruct (w c s) eqn:W; [|split; assumption]. split; simpl; [|exact Ao].
    intros s0. unfold upd_pw. keys; [reflexivity | apply Aw].
  - rewrite <- Aw. destruct (w c s) eqn:W; [|split; assumption]. split; simpl; [|exact Ao].
    intros s0. unfold upd_pw. keys; [reflexivity | apply Aw].
  - rewrite <- Aw. destruct (w c s') eqn:W; [|split; assumption]. split; simpl; [|exact Ao].
    intros s0. unfold upd_pw. keys; try reflexivity; apply Aw.
  - rewrite <- Aw. destruct (w c s) eqn:W; [|split; assumption]. split; simpl; [exact Aw|].
    rewrite !pobs_of_cons_same. f_equal. exact Ao.
  - rewrite <- Aw. destruct (w c s) eqn:W; [|split; assumption]. split; simpl; [exact Aw|].
    rewrite !pobs_of_cons_same. f_equal. exact Ao.
  - rewrite <- Aw. destruct (w c s) eqn:W; [|split; assumption]. split; simpl; [|exact Ao].
    intros s0. unfold upd_pw. keys; [reflexivity | apply Aw].
  - split; simpl; [|exact Ao]. intros s0. unfold upd_pw. keys; [reflexivity | apply Aw].
  - rewrite <- Aw. destruct (w c s) eqn:W; [|split; assumption]. split; simpl.
    + intros s0. unfold upd_pw. keys; [reflexivity | apply Aw].
    + rewrite !pobs_of_cons_same. f_equal. exact Ao.
Qed.

Lemma agree_trans : forall c p q r, agree c p q -> agree c q r -> agree c p r.
Proof. intros c p q r [A1 A2] [B1 B2]. split; intros; [rewrite A1; apply B1 | rewrite A2; apply B2]. Qed.

Lemma agree_refl : forall c p, agree c p p.
Proof. intros. split; reflexivity. Qed.

Lemma prun_proj : forall c h p q, agree c p q -> agree c (prun p h) (prun q (proj c h)).
Proof.
  induction h as [|o h IH]; simpl; intros p q A; [assumption|].
  destruct (call_of o =? c) eqn:E.
  - apply Nat.eqb_eq in E. simpl. apply IH. apply pstep_same; assumption.
  - apply Nat.eqb_neq in E. apply IH. eapply agree_trans; [apply pstep_other; assumption | assumption].
Qed.

Lemma pstep_erase : forall p o, pstep p (erase o) = pstep p o.
Proof. intros. destruct o; reflexivity. Qed.

Lemma prun_erase : forall h p, prun p (map erase h) = prun p h.
Proof. induction h; simpl; intros; [reflexivity | rewrite pstep_erase; apply IHh]. Qed.

Lemma proj_disciplined : forall c h, Forall disciplined h -> Forall disciplined (proj c h).
Proof.
  intros c h F. unfold proj. rewrite Forall_forall in *. intros x Hx. apply filter_In in Hx. apply F. tauto.
Qed.

Lemma proj_idem : forall c h, proj c (proj c h) = proj c h.
Proof.
  intros. unfold proj. induction h as [|o h IH]; simpl; [reflexivity|].
  destruct (call_of o =? c) eqn:E; simpl; [rewrite E; f_equal|]; assumption.
Qed.

Lemma obs_link : forall st ps c, Link st ps -> obs_of c st = pobs_of c ps.
Proof. intros st ps c [_ Lo]. unfold obs_of, pobs_of. rewrite Lo. reflexivity. Qed.

(* what a call observes and returns in ANY disciplined interleaving is the pure function of its own operations:
   independent of the other calls, of which pool element each Get received and of the junk in it *)
Lemma results_pure_lemma : forall h c, Forall disciplined h -> obs_of c (run init h) = pure_result c (proj c h).
Proof.
  intros h c F. unfold pure_result. rewrite prun_erase.
  rewrite (obs_link _ _ c (link_run h init pinit inv_init link_init F)).
  destruct (prun_proj c h pinit pinit (agree_refl c pinit)) as [_ A]. exact A.
Qed.

Lemma same_as_alone_lemma : forall h c, Forall disciplined h -> obs_of c (run init h) = obs_of c (run init (proj c h)).
Proof.
  intros h c F. rewrite results_pure_lemma by assumption.
  rewrite (results_pure_lemma (proj c h) c (proj_disciplined c h F)). rewrite proj_idem. reflexivity.
Qed.

(* ------------------------------------------------------------------------------------------------ scripts *)

Lemma shape_eqb_eq : forall a b, shape_eqb a b = true -> a = b.
Proof.
  destruct a, b; simpl; intros H; try discriminate;
    try (apply Nat.eqb_eq in H; subst; reflexivity).
  apply andb_true_iff in H. destruct H as [H1 H2]. apply Nat.eqb_eq in H1, H2. subst. reflexivity.
Qed.

Lemma is_prefix_in : forall a b x, is_prefix a b = true -> In x a -> In x b.
Proof.
  induction a as [|y a IH]; destruct b as [|z b]; simpl; intros x H Hx; try contradiction; try discriminate.
  apply andb_true_iff in H. destruct H as [H1 H2]. apply shape_eqb_eq in H1. subst.
  destruct Hx as [Hx|Hx]; [left; assumption | right; eapply IH; eauto].
Qed.

Lemma skeleton_in : forall ops o h, In o ops -> shape_of o = Some h -> In h (skeleton ops).
Proof.
  induction ops as [|x ops IH]; simpl; intros o h Hi Hs; [contradiction|].
  destruct Hi as [Hi|Hi].
  - subst. rewrite Hs. left. reflexivity.
  - destruct (shape_of x); [right|]; eapply IH; eauto.
Qed.

Lemma shape_disciplined : forall o, (forall h, shape_of o = Some h -> shape_ok h = true) -> disciplined o.
Proof.
  intros o H. destruct o; try reflexivity; exfalso; specialize (H _ eq_refl); discriminate H.
Qed.

Lemma follows_disciplined : forall scripts h, scripts_ok scripts = true -> follows scripts h -> Forall disciplined h.
Proof.
  intros scripts h Ok Fo. rewrite Forall_forall. intros o Ho.
  apply shape_disciplined. intros sh Hs.
  destruct (Fo (call_of o)) as [sc [Hsc Hp]].
  assert (Hin : In o (proj (call_of o) h)).
  { unfold proj. apply filter_In. split; [assumption | apply Nat.eqb_refl]. }
  pose proof (skeleton_in _ _ _ Hin Hs) as Hk.
  pose proof (is_prefix_in _ _ _ Hp Hk) as Hsh.
  unfold scripts_ok in Ok. rewrite forallb_forall in Ok. specialize (Ok _ Hsc).
  rewrite forallb_forall in Ok. apply Ok. assumption.
Qed.
