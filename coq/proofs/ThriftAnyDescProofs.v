(* WriteAnyWithDesc / ReadAnyWithDesc as coded (model/ThriftAnyDesc.v) against the Thrift binary encoding (model/ThriftWire.v):
     write_any_desc_refines_encode   the writer appends exactly [encode v] for the Go presentation of every conforming v
     read_any_desc_refines_decode    the reader answers exactly that Go presentation and the bytes after the value
     read_write_any_desc             reader after writer is the identity on Go values (up to the stated presentation)
   and the error side (kind mismatch, unknown members). *)
From Coq Require Import ZArith List Bool Lia.
From DG Require Import CaseFormat ProtoWireRef ProtoWireRefProofs ThriftWire ThriftWireProofs ThriftGeneric ThriftEnvelope ThriftAnyDesc.
Import ListNotations.
Local Open Scope Z_scope.

(* ------------------------------------------------------------------ small facts *)
Lemma enc_int1 z : enc_int 1 z = [z mod 256].
Proof.
  unfold enc_int. cbn [le_enc rev app]. change (256 ^ Z.of_nat 1) with 256. rewrite Z.mod_mod by lia. reflexivity.
Qed.

Lemma enc_int2_mod z : enc_int 2 (z mod 65536) = enc_int 2 z.
Proof. unfold enc_int. change (256 ^ Z.of_nat 2) with 65536. rewrite Z.mod_mod by lia. reflexivity. Qed.

Lemma wbind_ok x k : wbind (x, 0) k = k x.
Proof. reflexivity. Qed.

Lemma zlen_map {A B} (f : A -> B) l : zlen (map f l) = zlen l.
Proof. unfold zlen. rewrite map_length. reflexivity. Qed.

Lemma bytes_eqb_refl s : bytes_eqb s s = true.
Proof. induction s as [|x s IH]; [reflexivity|]. cbn. rewrite Z.eqb_refl. exact IH. Qed.

Lemma bytes_eqb_eq a : forall b, bytes_eqb a b = true -> a = b.
Proof.
  induction a as [|x a IH]; intros [|y b] H; try discriminate; [reflexivity|].
  cbn in H. apply andb_true_iff in H. destruct H as [E H]. apply Z.eqb_eq in E. subst y. f_equal. apply IH. exact H.
Qed.

Lemma conf_type s d v : conf s d v = true -> type_of v = dtype d.
Proof.
  destruct v, d; cbn [conf]; intros H; try discriminate; cbn [type_of dtype]; try reflexivity;
  apply Z.eqb_eq in H; symmetry; exact H.
Qed.

Lemma afby_id_in id fs : forall nm fd, afby_id id fs = Some (nm, fd) -> In (id, nm, fd) fs.
Proof.
  induction fs as [|[[i n] d] fs IH]; intros nm fd H; [discriminate|].
  cbn [afby_id] in H. destruct (i =? id) eqn:E.
  - apply Z.eqb_eq in E. inversion H; subst. left. reflexivity.
  - right. apply IH. exact H.
Qed.

Lemma name_in_of_id id fs : forall nm fd, afby_id id fs = Some (nm, fd) -> name_in nm fs = true.
Proof.
  induction fs as [|[[i n] d] fs IH]; intros nm fd H; [discriminate|].
  cbn [afby_id] in H. cbn [name_in]. destruct (i =? id).
  - inversion H; subst. rewrite bytes_eqb_refl. reflexivity.
  - rewrite (IH _ _ H). apply orb_true_r.
Qed.

(* FieldByKey(key of the field with this id) is that field *)
Lemma afby_name_of_id id fs : names_nodup fs = true ->
  forall nm fd, afby_id id fs = Some (nm, fd) -> afby_name nm fs = Some (id, fd).
Proof.
  induction fs as [|[[i n] d] fs IH]; intros Hn nm fd H; [discriminate|].
  cbn [names_nodup] in Hn. apply andb_true_iff in Hn. destruct Hn as [Hh Hn]. apply negb_true_iff in Hh.
  cbn [afby_id] in H. cbn [afby_name]. destruct (i =? id) eqn:E.
  - apply Z.eqb_eq in E. inversion H; subst. rewrite bytes_eqb_refl. reflexivity.
  - destruct (bytes_eqb n nm) eqn:En.
    + apply bytes_eqb_eq in En. subst n. rewrite (name_in_of_id _ _ _ _ H) in Hh. discriminate.
    + apply IH; assumption.
Qed.

Lemma names_ok_field fs id nm fd : names_ok (AStruct fs) = true -> afby_id id fs = Some (nm, fd) -> names_ok fd = true.
Proof.
  cbn [names_ok]. intros H E. apply andb_true_iff in H. destruct H as [_ H]. rewrite forallb_forall in H.
  apply (H (id, nm, fd)). apply afby_id_in. exact E.
Qed.

(* ------------------------------------------------------------------ T1: the writer appends the encoding *)
Lemma write_elems_ok rec e (gv : tval -> gval) es :
  Forall (fun x => forall b, rec e b (gv x) = (b ++ encode x, 0)) es ->
  forall b, write_elems rec e b (map gv es) = (b ++ flat_map encode es, 0).
Proof.
  induction 1 as [|x es Hx _ IH]; intros b; cbn [map write_elems flat_map]; [rewrite app_nil_r; reflexivity|].
  rewrite Hx, wbind_ok, IH, <- app_assoc. reflexivity.
Qed.

Lemma write_entries_ok {K} rec (wk : K -> list Z -> wst) e (gk : tval -> K) (gv : tval -> gval) es :
  Forall (fun en : tval * tval => (forall b, wk (gk (fst en)) b = (b ++ encode (fst en), 0)) /\
                                  (forall b, rec e b (gv (snd en)) = (b ++ encode (snd en), 0))) es ->
  forall b, write_entries rec wk e b (map (fun en => (gk (fst en), gv (snd en))) es)
            = (b ++ flat_map (fun en => encode (fst en) ++ encode (snd en)) es, 0).
Proof.
  induction 1 as [|en es [Hk Hv] _ IH]; intros b; cbn [map write_entries flat_map fst snd]; [rewrite app_nil_r; reflexivity|].
  rewrite Hk, wbind_ok, Hv, wbind_ok, IH, <- !app_assoc. reflexivity.
Qed.

Lemma write_fields_ok {K} dis rec (lookup : K -> option (Z * adesc)) (mk : Z -> list Z -> K) gv dfs fs :
  Forall (fun f : Z * tval => exists nm fd,
            afby_id (fst f mod 65536) dfs = Some (nm, fd) /\
            lookup (mk (fst f mod 65536) nm) = Some (fst f mod 65536, fd) /\
            type_of (snd f) = dtype fd /\
            forall b, rec fd b (gv fd (snd f)) = (b ++ encode (snd f), 0)) fs ->
  forall b, write_fields dis rec lookup b (members mk gv dfs fs)
            = (b ++ flat_map (fun f => type_of (snd f) :: enc_int 2 (fst f) ++ encode (snd f)) fs, 0).
Proof.
  unfold members.
  induction 1 as [|f fs (nm & fd & Ei & El & Et & Hr) _ IH]; intros b; cbn [flat_map]; [rewrite app_nil_r; reflexivity|].
  rewrite Ei. cbn [app write_fields fst snd]. rewrite El, Hr, wbind_ok, IH, enc_int2_mod, Et, <- !app_assoc. reflexivity.
Qed.

Lemma write_key_wrap rec kd g b : ptr_target_ok g = true \/ wrap_key g = g ->
  (forall g', g <> GPtr g') -> write_key rec kd (wrap_key g) b = rec kd b g.
Proof.
  intros H Hn. destruct g; cbn [wrap_key write_key ptr_target_ok]; try reflexivity.
  - destruct H as [H|H]; [cbn [ptr_target_ok] in H; rewrite H; reflexivity|discriminate].
  - exfalso. apply (Hn g). reflexivity.
Qed.

Lemma gval_of_wrap u8 bn d v b rec kd :
  write_key rec kd (wrap_key (gval_of u8 bn d v)) b = rec kd b (gval_of u8 bn d v).
Proof.
  apply write_key_wrap.
  - destruct v; cbn [gval_of]; try (right; reflexivity); try (left; reflexivity).
    + destruct u8; right; reflexivity.
    + destruct d as [| [|] | | | |]; right; reflexivity.
    + destruct bn; left; reflexivity.
    + destruct (kt =? T_STRING); [left; reflexivity|]. destruct (is_int_type kt); left; reflexivity.
  - intros g' E. destruct v; cbn [gval_of] in E; try discriminate.
    + destruct u8; discriminate.
    + destruct d as [| [|] | | | |]; discriminate.
    + destruct bn; discriminate.
    + destruct (kt =? T_STRING); [discriminate|]. destruct (is_int_type kt); discriminate.
Qed.

Lemma depth_pos v : (1 <= depth v)%nat.
Proof. destruct v; cbn [depth]; lia. Qed.

Theorem write_any_desc_refines_encode cast dis byname u8 : forall v d n b,
  wf v = true -> conf true d v = true -> bools01 v = true -> (byname = true -> names_ok d = true) -> (depth v <= n)%nat ->
  write_any_desc cast dis byname n d b (gval_of u8 byname d v) = (b ++ encode v, 0).
Proof.
  induction v as [raw|z|z|z|z|z|s|fs IH|kt vt es IH|et es IH|et es IH] using tval_ind'; intros d n b Hwf Hc Hb Hn Hd;
  (destruct n as [|n]; [pose proof (depth_pos (VBool 0)); cbn [depth] in Hd; lia|]).
  - destruct d; cbn [conf] in Hc; try discriminate. apply Z.eqb_eq in Hc. subst t.
    cbn [bools01] in Hb. apply orb_true_iff in Hb. destruct Hb as [E|E]; apply Z.eqb_eq in E; subst raw; reflexivity.
  - destruct d; cbn [conf] in Hc; try discriminate. apply Z.eqb_eq in Hc. subst t.
    cbn [write_any_desc gval_of encode]. rewrite enc_int1. destruct u8.
    + change (write_scalar cast T_BYTE b (GInt GT_U8 (z mod 256))) with (b ++ [(z mod 256) mod 256], 0).
      rewrite Z.mod_mod by lia. reflexivity.
    + reflexivity.
  - destruct d; cbn [conf] in Hc; try discriminate. apply Z.eqb_eq in Hc. subst t. reflexivity.
  - destruct d; cbn [conf] in Hc; try discriminate. apply Z.eqb_eq in Hc. subst t. reflexivity.
  - destruct d; cbn [conf] in Hc; try discriminate. apply Z.eqb_eq in Hc. subst t. reflexivity.
  - destruct d; cbn [conf] in Hc; try discriminate. apply Z.eqb_eq in Hc. subst t. reflexivity.
  - destruct d as [| [|] | | | |]; cbn [conf] in Hc; try discriminate; reflexivity.
  - (* struct *)
    destruct d as [| |dfs| | |]; cbn [conf] in Hc; try discriminate.
    cbn [depth] in Hd. apply le_S_n in Hd.
    pose proof (fold_max_le (fun f : Z * tval => depth (snd f)) fs n Hd) as Hdep.
    cbn [wf] in Hwf. cbn [bools01] in Hb. rewrite forallb_forall in Hwf, Hc, Hb. rewrite Forall_forall in IH, Hdep.
    assert (Hall : forall (K : Type) (mk : Z -> list Z -> K) (lookup : K -> option (Z * adesc)),
      (forall id nm fd, afby_id id dfs = Some (nm, fd) -> lookup (mk id nm) = Some (id, fd)) ->
      Forall (fun f : Z * tval => exists nm fd,
            afby_id (fst f mod 65536) dfs = Some (nm, fd) /\
            lookup (mk (fst f mod 65536) nm) = Some (fst f mod 65536, fd) /\
            type_of (snd f) = dtype fd /\
            forall b, write_any_desc cast dis byname n fd b (gval_of u8 byname fd (snd f)) = (b ++ encode (snd f), 0)) fs).
    { intros K mk lookup Hl. rewrite Forall_forall. intros f Hin.
      specialize (Hc f Hin). specialize (Hwf f Hin). apply andb_true_iff in Hwf. destruct Hwf as [_ Hw].
      destruct (afby_id (fst f mod 65536) dfs) as [[nm fd]|] eqn:E; [|discriminate].
      exists nm, fd. split; [reflexivity|]. split; [apply Hl; exact E|]. split; [apply (conf_type _ _ _ Hc)|].
      intros b'. apply IH; auto.
      intros Hbn. apply (names_ok_field dfs _ nm fd (Hn Hbn) E). }
    cbn [write_any_desc gval_of dfields encode]. destruct byname.
    + rewrite (write_fields_ok dis _ (fun nm => afby_name nm dfs) (fun _ nm => nm)).
      * rewrite wbind_ok. unfold wstop. rewrite <- app_assoc. reflexivity.
      * apply (Hall _ (fun _ nm => nm) (fun nm => afby_name nm dfs)). intros id nm fd E. apply afby_name_of_id; [|exact E].
        specialize (Hn eq_refl). cbn [names_ok] in Hn. apply andb_true_iff in Hn. apply Hn.
    + rewrite (write_fields_ok dis _ (by_id dfs) (fun id _ => id)).
      * rewrite wbind_ok. unfold wstop. rewrite <- app_assoc. reflexivity.
      * apply (Hall _ (fun id _ => id) (by_id dfs)). intros id nm fd E. unfold by_id. rewrite E. reflexivity.
  - (* map *)
    destruct d as [| | | | |k e]; cbn [conf] in Hc; try discriminate.
    apply andb_true_iff in Hc. destruct Hc as [Hc Hes]. apply andb_true_iff in Hc. destruct Hc as [Hc _].
    apply andb_true_iff in Hc. destruct Hc as [Hc _]. apply andb_true_iff in Hc. destruct Hc as [Ek Ee].
    apply Z.eqb_eq in Ek, Ee. subst kt vt. rewrite forallb_forall in Hes.
    cbn [depth] in Hd. apply le_S_n in Hd.
    pose proof (fold_max_le (fun en : tval * tval => Nat.max (depth (fst en)) (depth (snd en))) es n Hd) as Hdep.
    cbn [wf] in Hwf. repeat (apply andb_true_iff in Hwf; destruct Hwf as [Hwf ?]).
    match goal with H : forallb _ es = true |- _ => rename H into Hall end.
    cbn [bools01] in Hb. rewrite forallb_forall in Hall, Hb. rewrite Forall_forall in IH, Hdep.
    assert (Hn' : byname = true -> names_ok k = true /\ names_ok e = true).
    { intros Hbn. specialize (Hn Hbn). cbn [names_ok] in Hn. apply andb_true_iff in Hn. exact Hn. }
    assert (Hval : forall en, In en es -> forall b',
              write_any_desc cast dis byname n e b' (gval_of u8 byname e (snd en)) = (b' ++ encode (snd en), 0)).
    { intros en Hin b'. specialize (Hall en Hin). specialize (Hes en Hin). specialize (Hb en Hin). specialize (Hdep en Hin).
      repeat (apply andb_true_iff in Hall; destruct Hall as [Hall ?]).
      apply andb_true_iff in Hes. destruct Hes as [_ Hes]. apply andb_true_iff in Hb. destruct Hb as [_ Hb].
      apply (proj2 (IH en Hin)); auto; [intros Hbn; apply (Hn' Hbn)|lia]. }
    cbn [write_any_desc gval_of delem dkey encode]. unfold write_map.
    destruct (dtype k =? T_STRING) eqn:Es; [|destruct (is_int_type (dtype k)) eqn:Ei].
    + rewrite zlen_map, (write_entries_ok _ _ e gstr_key (gval_of u8 byname e)).
      * rewrite <- app_assoc. reflexivity.
      * rewrite Forall_forall. intros en Hin. split; [|apply Hval; exact Hin].
        intros b'. specialize (Hes en Hin). apply andb_true_iff in Hes. destruct Hes as [Hk _].
        apply conf_type in Hk. apply Z.eqb_eq in Es. rewrite Es in Hk.
        destruct (fst en); try discriminate. reflexivity.
    + change (intmap_ok GT_INT) with true. cbv iota.
      rewrite zlen_map, (write_entries_ok _ _ e gint_key (gval_of u8 byname e)).
      * rewrite <- app_assoc. reflexivity.
      * rewrite Forall_forall. intros en Hin. split; [|apply Hval; exact Hin].
        intros b'. specialize (Hes en Hin). apply andb_true_iff in Hes. destruct Hes as [Hk _].
        apply conf_type in Hk. rewrite <- Hk.
        destruct (fst en); cbn [type_of] in *; rewrite <- Hk in Ei; try discriminate; cbn [gint_key encode].
        -- rewrite enc_int1. unfold write_int_key. cbn. rewrite Z.mod_mod by lia. reflexivity.
        -- reflexivity.
        -- reflexivity.
        -- reflexivity.
    + rewrite zlen_map, (write_entries_ok _ _ e (fun x => wrap_key (gval_of u8 byname k x)) (gval_of u8 byname e)).
      * rewrite <- app_assoc. reflexivity.
      * rewrite Forall_forall. intros en Hin. split; [|apply Hval; exact Hin].
        intros b'. rewrite gval_of_wrap.
        specialize (Hall en Hin). specialize (Hes en Hin). specialize (Hb en Hin). specialize (Hdep en Hin).
        repeat (apply andb_true_iff in Hall; destruct Hall as [Hall ?]).
        apply andb_true_iff in Hes. destruct Hes as [Hes _]. apply andb_true_iff in Hb. destruct Hb as [Hb _].
        apply (proj1 (IH en Hin)); auto; [intros Hbn; apply (Hn' Hbn)|lia].
  - (* set *)
    destruct d as [| | | |e|]; cbn [conf] in Hc; try discriminate.
    apply andb_true_iff in Hc. destruct Hc as [Hc Hes]. apply andb_true_iff in Hc. destruct Hc as [Ee _].
    apply Z.eqb_eq in Ee. subst et. rewrite forallb_forall in Hes.
    cbn [depth] in Hd. apply le_S_n in Hd. pose proof (fold_max_le depth es n Hd) as Hdep.
    cbn [wf] in Hwf. repeat (apply andb_true_iff in Hwf; destruct Hwf as [Hwf ?]).
    match goal with H : forallb _ es = true |- _ => rename H into Hall end.
    cbn [bools01] in Hb. rewrite forallb_forall in Hall, Hb. rewrite Forall_forall in IH, Hdep.
    cbn [write_any_desc gval_of delem encode]. rewrite zlen_map, write_elems_ok.
    + rewrite <- app_assoc. reflexivity.
    + rewrite Forall_forall. intros x Hin b'. specialize (Hall x Hin). apply andb_true_iff in Hall. destruct Hall as [_ Hw].
      apply IH; auto; intros Hbn; apply (Hn Hbn).
  - (* list *)
    destruct d as [| | |e| |]; cbn [conf] in Hc; try discriminate.
    apply andb_true_iff in Hc. destruct Hc as [Hc Hes]. apply andb_true_iff in Hc. destruct Hc as [Ee _].
    apply Z.eqb_eq in Ee. subst et. rewrite forallb_forall in Hes.
    cbn [depth] in Hd. apply le_S_n in Hd. pose proof (fold_max_le depth es n Hd) as Hdep.
    cbn [wf] in Hwf. repeat (apply andb_true_iff in Hwf; destruct Hwf as [Hwf ?]).
    match goal with H : forallb _ es = true |- _ => rename H into Hall end.
    cbn [bools01] in Hb. rewrite forallb_forall in Hall, Hb. rewrite Forall_forall in IH, Hdep.
    cbn [write_any_desc gval_of delem encode]. rewrite zlen_map, write_elems_ok.
    + rewrite <- app_assoc. reflexivity.
    + rewrite Forall_forall. intros x Hin b'. specialize (Hall x Hin). apply andb_true_iff in Hall. destruct Hall as [_ Hw].
      apply IH; auto; intros Hbn; apply (Hn Hbn).
Qed.

(* ------------------------------------------------------------------ T2: the reader answers the Go presentation *)
Lemma to_s8_mod z : in_sb 8 z = true -> to_s 8 (z mod 256) = z.
Proof.
  intros H. apply in_sb_true in H. unfold to_s. change (2 ^ (8 - 1)) with 128 in *. change (2 ^ 8) with 256.
  rewrite Zplus_mod_idemp_l. rewrite Z.mod_small by lia. lia.
Qed.

Lemma type_of_type_valid x : type_valid (type_of x) = true.
Proof. destruct x; reflexivity. Qed.
Lemma type_of_nonzero x : (type_of x =? 0) = false.
Proof. destruct x; reflexivity. Qed.

Lemma valid_type_type_valid t : valid_type t = true -> type_valid t = true.
Proof.
  unfold valid_type, is_container. intros H.
  repeat match type of H with (_ || _) = true => apply orb_true_iff in H; destruct H as [H|H] end;
  apply Z.eqb_eq in H; subst t; reflexivity.
Qed.

Lemma read_strbytes_ok s r : zlen s < 2 ^ 31 -> read_strbytes (enc_int 4 (zlen s) ++ s ++ r) = Some (s, r).
Proof.
  intros Hl. unfold read_strbytes. rewrite take_enc_int.
  assert (0 <= zlen s) by (unfold zlen; lia).
  rewrite dec_int_count by lia.
  destruct (Z.ltb_spec (zlen s) 0); [lia|].
  destruct (Z.gtb_spec (zlen s) (zlen (s ++ r))); [unfold zlen in *; rewrite app_length in *; lia|].
  cbn [orb]. rewrite to_nat_zlen.
  rewrite firstn_app, Nat.sub_diag, firstn_all, firstn_O, app_nil_r.
  rewrite skipn_app, Nat.sub_diag, skipn_all, skipn_O. reflexivity.
Qed.

Lemma read_count_ok n r : 0 <= n < 2 ^ 31 -> read_count (enc_int 4 n ++ r) = Some (n, r).
Proof.
  intros Hn. unfold read_count. rewrite take_enc_int, dec_int_count by lia.
  destruct (Z.ltb_spec n 0); [lia|]. reflexivity.
Qed.

Lemma upsert_by_absent {A B} (eqb : A -> A -> bool) (k : A) (v : B) l :
  forallb (fun k' => negb (eqb k k')) (map fst l) = true -> upsert_by eqb k v l = l ++ [(k, v)].
Proof.
  induction l as [|[k' v'] l IH]; intros H; [reflexivity|].
  cbn [map fst forallb] in H. apply andb_true_iff in H. destruct H as [E H]. apply negb_true_iff in E.
  cbn [upsert_by]. rewrite E. cbn [app]. f_equal. apply IH. exact H.
Qed.

Lemma fold_upsert_fresh {A B} (eqb : A -> A -> bool) (l : list (A * B)) : forall acc,
  fresh_from eqb (map fst acc) l = true ->
  fold_left (fun a kv => upsert_by eqb (fst kv) (snd kv) a) l acc = acc ++ l.
Proof.
  induction l as [|[k v] l IH]; intros acc H; [rewrite app_nil_r; reflexivity|].
  cbn [fresh_from fst] in H. apply andb_true_iff in H. destruct H as [Hk Hr].
  cbn [fold_left fst snd]. rewrite upsert_by_absent by exact Hk.
  rewrite IH; [rewrite <- app_assoc; reflexivity|]. rewrite map_app. exact Hr.
Qed.

Lemma build_map_fresh {A B} (eqb : A -> A -> bool) (l : list (A * B)) : fresh_from eqb [] l = true -> build_map eqb l = l.
Proof. intros H. unfold build_map. rewrite (fold_upsert_fresh eqb l []) by exact H. reflexivity. Qed.

Lemma mk_map_fresh raw {A B} (eqb : A -> A -> bool) (l : list (A * B)) :
  (raw = false -> fresh_from eqb [] l = true) -> mk_map raw eqb l = l.
Proof. intros H. unfold mk_map. destruct raw; [reflexivity|]. apply build_map_fresh. apply H. reflexivity. Qed.

Lemma members_map {K K'} (h : K -> K') (mk : Z -> list Z -> K) gv dfs fs :
  map (fun m => (h (fst m), snd m)) (members mk gv dfs fs) = members (fun i n => h (mk i n)) gv dfs fs.
Proof.
  unfold members. induction fs as [|f fs IH]; [reflexivity|]. cbn [flat_map]. rewrite map_app, IH.
  destruct (afby_id (fst f mod 65536) dfs) as [[nm fd]|]; reflexivity.
Qed.

Lemma members_in {K} (mk : Z -> list Z -> K) gv dfs fs f nm fd :
  In f fs -> afby_id (fst f mod 65536) dfs = Some (nm, fd) -> In (mk (fst f mod 65536) nm, gv fd (snd f)) (members mk gv dfs fs).
Proof.
  intros Hin E. unfold members. apply in_flat_map. exists f. split; [exact Hin|]. rewrite E. left. reflexivity.
Qed.

Lemma gfresh_wrap g : gfresh (wrap_key g) = gfresh g.
Proof. destruct g; reflexivity. Qed.

Lemma read_elems_ok rec e (gv : tval -> gval) es r :
  Forall (fun x => forall r', rec e (encode x ++ r') = Some (gv x, r')) es ->
  read_elems rec (length es) e (flat_map encode es ++ r) = Some (map gv es, r).
Proof.
  induction 1 as [|x es Hx _ IH]; cbn [length read_elems flat_map map app]; [reflexivity|].
  rewrite <- app_assoc, Hx, IH. reflexivity.
Qed.

Lemma read_pairs_ok {K} rec (rk : list Z -> option (K * list Z)) e (gk : tval -> K) (gv : tval -> gval) es r :
  Forall (fun en : tval * tval => (forall r', rk (encode (fst en) ++ r') = Some (gk (fst en), r')) /\
                                  (forall r', rec e (encode (snd en) ++ r') = Some (gv (snd en), r'))) es ->
  read_pairs rec rk (length es) e (flat_map (fun en => encode (fst en) ++ encode (snd en)) es ++ r)
  = Some (map (fun en => (gk (fst en), gv (snd en))) es, r).
Proof.
  induction 1 as [|en es [Hk Hv] _ IH]; cbn [length read_pairs flat_map map app]; [reflexivity|].
  rewrite <- !app_assoc, Hk, Hv, IH. reflexivity.
Qed.

Lemma read_fields_ok skp dis rec dfs gv fs r : forall fuel,
  Forall (fun f : Z * tval => in_sb 16 (fst f) = true /\
            match afby_id (fst f mod 65536) dfs with
            | Some (nm, fd) => forall r', rec fd (encode (snd f) ++ r') = Some (gv fd (snd f), r')
            | None => dis = false /\ forall r', skp (type_of (snd f)) (encode (snd f) ++ r') = Some r'
            end) fs ->
  (length fs < fuel)%nat ->
  read_fields skp dis rec fuel dfs (flat_map (fun f => type_of (snd f) :: enc_int 2 (fst f) ++ encode (snd f)) fs ++ 0 :: r)
  = Some (members (fun id nm => (id, nm)) gv dfs fs, r).
Proof.
  intros fuel H. revert fuel. unfold members.
  induction H as [|f fs [Hid Hf] _ IH]; intros fuel Hfu; (destruct fuel as [|fuel]; [cbn [length] in Hfu; lia|]).
  - reflexivity.
  - cbn [length] in Hfu. cbn [flat_map]. rewrite <- !app_assoc. cbn [app read_fields].
    rewrite type_of_type_valid, type_of_nonzero. cbn [negb]. rewrite <- app_assoc, take_enc_int.
    rewrite dec_int_enc_int; [|lia|apply in_sb_true in Hid; exact Hid].
    destruct (afby_id (fst f mod 65536) dfs) as [[nm fd]|].
    + rewrite Hf, IH by lia. reflexivity.
    + destruct Hf as [-> Hs]. rewrite Hs, IH by lia. reflexivity.
Qed.

Lemma wrap_gval_of_key rec k gv x r :
  rec k (encode x ++ r) = Some (gv x, r) -> rd_key rec k (encode x ++ r) = Some (wrap_key (gv x), r).
Proof. intros H. unfold rd_key. rewrite H. reflexivity. Qed.

Section ReadRefines.
  Variable skp : Z -> list Z -> option (list Z).
  Variable m : nat.
  Hypothesis Hskp : forall x r, wf x = true -> (depth x <= m)%nat -> skp (type_of x) (encode x ++ r) = Some r.
  Variables u8 dis byname raw : bool.

  Theorem read_any_gen_refines : forall v d n r,
    wf v = true -> conf dis d v = true -> (raw = false -> gfresh (gval_of u8 byname d v) = true) ->
    (depth v <= n)%nat -> (depth v <= S m)%nat ->
    read_any_gen skp u8 dis byname raw n d (encode v ++ r) = Some (gval_of u8 byname d v, r).
  Proof.
    induction v as [rw|z|z|z|z|z|s|fs IH|kt vt es IH|et es IH|et es IH] using tval_ind'; intros d n r Hwf Hc Hg Hd Hm;
    (destruct n as [|n]; [pose proof (depth_pos (VBool 0)); cbn [depth] in Hd; lia|]).
    - destruct d; cbn [conf] in Hc; try discriminate. apply Z.eqb_eq in Hc. subst t. reflexivity.
    - destruct d; cbn [conf] in Hc; try discriminate. apply Z.eqb_eq in Hc. subst t.
      cbn [read_any_gen gval_of encode]. rewrite enc_int1. cbn [app]. unfold read_scalar. cbn [T_BYTE T_BOOL Z.eqb Pos.eqb].
      change (T_BYTE =? T_BOOL) with false. change (T_BYTE =? T_BYTE) with true. cbv iota.
      destruct u8; [reflexivity|]. cbn [wf] in Hwf. rewrite to_s8_mod by exact Hwf. reflexivity.
    - destruct d; cbn [conf] in Hc; try discriminate. apply Z.eqb_eq in Hc. subst t.
      cbn [read_any_gen gval_of encode wf] in *. unfold read_scalar.
      change (T_I16 =? T_BOOL) with false. change (T_I16 =? T_BYTE) with false. change (T_I16 =? T_I16) with true. cbv iota.
      rewrite take_enc_int, dec_int_enc_int; [reflexivity|lia|apply in_sb_true in Hwf; exact Hwf].
    - destruct d; cbn [conf] in Hc; try discriminate. apply Z.eqb_eq in Hc. subst t.
      cbn [read_any_gen gval_of encode wf] in *. unfold read_scalar.
      change (T_I32 =? T_BOOL) with false. change (T_I32 =? T_BYTE) with false. change (T_I32 =? T_I16) with false.
      change (T_I32 =? T_I32) with true. cbv iota.
      rewrite take_enc_int, dec_int_enc_int; [reflexivity|lia|apply in_sb_true in Hwf; exact Hwf].
    - destruct d; cbn [conf] in Hc; try discriminate. apply Z.eqb_eq in Hc. subst t.
      cbn [read_any_gen gval_of encode wf] in *. unfold read_scalar.
      change (T_I64 =? T_BOOL) with false. change (T_I64 =? T_BYTE) with false. change (T_I64 =? T_I16) with false.
      change (T_I64 =? T_I32) with false. change (T_I64 =? T_I64) with true. cbv iota.
      rewrite take_enc_int, dec_int_enc_int; [reflexivity|lia|apply in_sb_true in Hwf; exact Hwf].
    - destruct d; cbn [conf] in Hc; try discriminate. apply Z.eqb_eq in Hc. subst t.
      cbn [read_any_gen gval_of encode wf] in *. unfold read_scalar.
      change (T_DOUBLE =? T_BOOL) with false. change (T_DOUBLE =? T_BYTE) with false. change (T_DOUBLE =? T_I16) with false.
      change (T_DOUBLE =? T_I32) with false. change (T_DOUBLE =? T_I64) with false. change (T_DOUBLE =? T_DOUBLE) with true. cbv iota.
      rewrite take_enc_int, dec_uint_enc_int.
      apply andb_true_iff in Hwf. destruct Hwf as [H0 H1]. apply Z.leb_le in H0. apply Z.ltb_lt in H1.
      rewrite Z.mod_small; [reflexivity|]. change (256 ^ Z.of_nat 8) with (2 ^ 64). lia.
    - destruct d as [|bin| | | |]; cbn [conf] in Hc; try discriminate.
      cbn [wf] in Hwf. apply andb_true_iff in Hwf. destruct Hwf as [_ Hl]. apply Z.ltb_lt in Hl.
      cbn [read_any_gen gval_of encode]. rewrite <- app_assoc, read_strbytes_ok by exact Hl. destruct bin; reflexivity.
    - (* struct *)
      destruct d as [| |dfs| | |]; cbn [conf] in Hc; try discriminate.
      cbn [depth] in Hd, Hm. apply le_S_n in Hd. apply le_S_n in Hm.
      pose proof (fold_max_le (fun f : Z * tval => depth (snd f)) fs n Hd) as Hdep.
      pose proof (fold_max_le (fun f : Z * tval => depth (snd f)) fs m Hm) as Hdm.
      cbn [wf] in Hwf. rewrite forallb_forall in Hwf, Hc. rewrite Forall_forall in IH, Hdep, Hdm.
      cbn [read_any_gen gval_of dfields encode]. rewrite <- app_assoc. cbn [app].
      rewrite (read_fields_ok skp dis _ dfs (gval_of u8 byname)).
      + rewrite !members_map. cbn [fst snd]. destruct byname; rewrite mk_map_fresh; try reflexivity.
        * intros Hr. specialize (Hg Hr). cbn [gval_of gfresh dfields] in Hg. apply andb_true_iff in Hg. apply Hg.
        * intros Hr. specialize (Hg Hr). cbn [gval_of gfresh dfields] in Hg. apply andb_true_iff in Hg. apply Hg.
      + rewrite Forall_forall. intros f Hin. specialize (Hc f Hin). specialize (Hwf f Hin).
        apply andb_true_iff in Hwf. destruct Hwf as [Hid Hw]. split; [exact Hid|].
        destruct (afby_id (fst f mod 65536) dfs) as [[nm fd]|] eqn:E.
        * intros r'. apply IH; auto; try (specialize (Hdm f Hin); lia).
          intros Hr. specialize (Hg Hr). cbn [gval_of dfields] in Hg. destruct byname; cbn [gfresh] in Hg;
          apply andb_true_iff in Hg; destruct Hg as [_ Hg]; rewrite forallb_forall in Hg.
          -- apply (Hg (nm, gval_of u8 true fd (snd f))). apply (members_in (fun _ n0 => n0) _ dfs fs f nm fd Hin E).
          -- apply (Hg (fst f mod 65536, gval_of u8 false fd (snd f))). apply (members_in (fun i _ => i) _ dfs fs f nm fd Hin E).
        * apply negb_true_iff in Hc. split; [exact Hc|]. intros r'. apply Hskp; [exact Hw|apply Hdm; exact Hin].
      + rewrite app_length. cbn [length].
        pose proof (flat_map_length_ge (fun f : Z * tval => type_of (snd f) :: enc_int 2 (fst f) ++ encode (snd f)) fs
          ltac:(intros; cbn [length]; lia)). lia.
    - (* map *)
      destruct d as [| | | | |k e]; cbn [conf] in Hc; try discriminate.
      apply andb_true_iff in Hc. destruct Hc as [Hc Hes]. apply andb_true_iff in Hc. destruct Hc as [Hc Hvv].
      apply andb_true_iff in Hc. destruct Hc as [Hc Hvk]. apply andb_true_iff in Hc. destruct Hc as [Ek Ee].
      apply Z.eqb_eq in Ek, Ee. rewrite forallb_forall in Hes.
      cbn [depth] in Hd, Hm. apply le_S_n in Hd. apply le_S_n in Hm.
      pose proof (fold_max_le (fun en : tval * tval => Nat.max (depth (fst en)) (depth (snd en))) es n Hd) as Hdep.
      pose proof (fold_max_le (fun en : tval * tval => Nat.max (depth (fst en)) (depth (snd en))) es m Hm) as Hdm.
      cbn [wf] in Hwf. repeat (apply andb_true_iff in Hwf; destruct Hwf as [Hwf ?]).
      match goal with H : forallb _ es = true |- _ => rename H into Hall end.
      match goal with H : (zlen es <? 2 ^ 31) = true |- _ => apply Z.ltb_lt in H; rename H into Hlen end.
      rewrite forallb_forall in Hall. rewrite Forall_forall in IH, Hdep, Hdm.
      assert (Hcnt : (zlen es >? zlen (flat_map (fun en : tval * tval => encode (fst en) ++ encode (snd en)) es ++ r)) = false).
      { destruct (Z.gtb_spec (zlen es) (zlen (flat_map (fun en : tval * tval => encode (fst en) ++ encode (snd en)) es ++ r))); [|reflexivity].
        unfold zlen in *. rewrite app_length in *.
        pose proof (flat_map_length_ge (fun en : tval * tval => encode (fst en) ++ encode (snd en)) es
          ltac:(intros a; cbv beta; rewrite app_length; pose proof (encode_nonempty (fst a)); lia)). lia. }
      cbn [read_any_gen encode app]. rewrite (valid_type_type_valid _ Hvk), (valid_type_type_valid _ Hvv). cbn [negb].
      assert (0 <= zlen es) by (unfold zlen; lia).
      rewrite <- app_assoc. rewrite read_count_ok by lia. rewrite <- Ek, <- Ee, !Z.eqb_refl. cbn [negb orb]. rewrite Hcnt, to_nat_zlen.
      cbn [gval_of delem dkey].
      assert (Hval : forall en, In en es -> forall r',
                read_any_gen skp u8 dis byname raw n e (encode (snd en) ++ r') = Some (gval_of u8 byname e (snd en), r')).
      { intros en Hin r'. specialize (Hall en Hin). specialize (Hes en Hin). specialize (Hdep en Hin). specialize (Hdm en Hin).
        repeat (apply andb_true_iff in Hall; destruct Hall as [Hall ?]).
        apply andb_true_iff in Hes. destruct Hes as [_ Hes].
        apply (proj2 (IH en Hin)); auto; try lia.
        intros Hr. specialize (Hg Hr). cbn [gval_of delem dkey] in Hg.
        destruct (kt =? T_STRING); [|destruct (is_int_type kt)]; cbn [gfresh] in Hg;
        apply andb_true_iff in Hg; destruct Hg as [_ Hg]; rewrite forallb_forall in Hg.
        - apply (Hg (gstr_key (fst en), gval_of u8 byname e (snd en))).
          apply (in_map (fun e0 : tval * tval => (gstr_key (fst e0), gval_of u8 byname e (snd e0)))). exact Hin.
        - apply (Hg (gint_key (fst en), gval_of u8 byname e (snd en))).
          apply (in_map (fun e0 : tval * tval => (gint_key (fst e0), gval_of u8 byname e (snd e0)))). exact Hin.
        - assert (Hx : gfresh (wrap_key (gval_of u8 byname k (fst en))) && gfresh (gval_of u8 byname e (snd en)) = true).
          { apply (Hg (wrap_key (gval_of u8 byname k (fst en)), gval_of u8 byname e (snd en))).
            apply (in_map (fun e0 : tval * tval => (wrap_key (gval_of u8 byname k (fst e0)), gval_of u8 byname e (snd e0)))). exact Hin. }
          apply andb_true_iff in Hx. apply Hx. }
      destruct (kt =? T_STRING) eqn:Es; [|destruct (is_int_type kt) eqn:Ei].
      + rewrite (read_pairs_ok _ read_strbytes e gstr_key (gval_of u8 byname e)).
        * rewrite mk_map_fresh; [reflexivity|]. intros Hr. specialize (Hg Hr). cbn [gval_of delem dkey] in Hg.
          rewrite Es in Hg. cbn [gfresh] in Hg. apply andb_true_iff in Hg. apply Hg.
        * rewrite Forall_forall. intros en Hin. split; [|apply Hval; exact Hin].
          intros r'. specialize (Hall en Hin). repeat (apply andb_true_iff in Hall; destruct Hall as [Hall ?]).
          apply Z.eqb_eq in Hall. apply Z.eqb_eq in Es. rewrite Es in Hall.
          destruct (fst en); try discriminate. cbn [encode gstr_key].
          match goal with H : wf (VString _) = true |- _ => cbn [wf] in H; apply andb_true_iff in H; destruct H as [_ Hl]; apply Z.ltb_lt in Hl end.
          rewrite <- app_assoc. apply read_strbytes_ok. exact Hl.
      + rewrite (read_pairs_ok _ (read_int_key kt) e gint_key (gval_of u8 byname e)).
        * rewrite mk_map_fresh; [reflexivity|]. intros Hr. specialize (Hg Hr). cbn [gval_of delem dkey] in Hg.
          rewrite Es, Ei in Hg. cbn [gfresh] in Hg. apply andb_true_iff in Hg. apply Hg.
        * rewrite Forall_forall. intros en Hin. split; [|apply Hval; exact Hin].
          intros r'. specialize (Hall en Hin). repeat (apply andb_true_iff in Hall; destruct Hall as [Hall ?]).
          apply Z.eqb_eq in Hall. rewrite <- Hall in *.
          match goal with H : wf (fst en) = true |- _ => rename H into Hwk end.
          destruct (fst en); cbn [type_of] in *; try discriminate; cbn [encode gint_key wf] in *; unfold read_int_key.
          -- rewrite enc_int1. reflexivity.
          -- change (T_I16 =? T_BYTE) with false. change (T_I16 =? T_I16) with true. cbv iota.
             rewrite take_enc_int, dec_int_enc_int; [reflexivity|lia|apply in_sb_true in Hwk; exact Hwk].
          -- change (T_I32 =? T_BYTE) with false. change (T_I32 =? T_I16) with false. change (T_I32 =? T_I32) with true. cbv iota.
             rewrite take_enc_int, dec_int_enc_int; [reflexivity|lia|apply in_sb_true in Hwk; exact Hwk].
          -- change (T_I64 =? T_BYTE) with false. change (T_I64 =? T_I16) with false. change (T_I64 =? T_I32) with false.
             change (T_I64 =? T_I64) with true. cbv iota.
             rewrite take_enc_int, dec_int_enc_int; [reflexivity|lia|apply in_sb_true in Hwk; exact Hwk].
      + rewrite (read_pairs_ok _ (rd_key (read_any_gen skp u8 dis byname raw n) k) e
                   (fun x => wrap_key (gval_of u8 byname k x)) (gval_of u8 byname e)).
        * rewrite mk_map_fresh; [reflexivity|]. intros Hr. specialize (Hg Hr). cbn [gval_of delem dkey] in Hg.
          rewrite Es, Ei in Hg. cbn [gfresh] in Hg. apply andb_true_iff in Hg. apply Hg.
        * rewrite Forall_forall. intros en Hin. split; [|apply Hval; exact Hin].
          intros r'. apply (wrap_gval_of_key _ k (gval_of u8 byname k)).
          specialize (Hall en Hin). specialize (Hes en Hin). specialize (Hdep en Hin). specialize (Hdm en Hin).
          repeat (apply andb_true_iff in Hall; destruct Hall as [Hall ?]).
          apply andb_true_iff in Hes. destruct Hes as [Hes _].
          apply (proj1 (IH en Hin)); auto; try lia.
          intros Hr. specialize (Hg Hr). cbn [gval_of delem dkey] in Hg. rewrite Es, Ei in Hg. cbn [gfresh] in Hg.
          apply andb_true_iff in Hg; destruct Hg as [_ Hg]; rewrite forallb_forall in Hg.
          assert (Hx : gfresh (wrap_key (gval_of u8 byname k (fst en))) && gfresh (gval_of u8 byname e (snd en)) = true).
          { apply (Hg (wrap_key (gval_of u8 byname k (fst en)), gval_of u8 byname e (snd en))).
            apply (in_map (fun e0 : tval * tval => (wrap_key (gval_of u8 byname k (fst e0)), gval_of u8 byname e (snd e0)))). exact Hin. }
          apply andb_true_iff in Hx. destruct Hx as [Hx _]. rewrite gfresh_wrap in Hx. exact Hx.
    - (* set *)
      destruct d as [| | | |e|]; cbn [conf] in Hc; try discriminate.
      apply andb_true_iff in Hc. destruct Hc as [Hc Hes]. apply andb_true_iff in Hc. destruct Hc as [Ee Hve].
      apply Z.eqb_eq in Ee. rewrite forallb_forall in Hes.
      cbn [depth] in Hd, Hm. apply le_S_n in Hd. apply le_S_n in Hm.
      pose proof (fold_max_le depth es n Hd) as Hdep. pose proof (fold_max_le depth es m Hm) as Hdm.
      cbn [wf] in Hwf. repeat (apply andb_true_iff in Hwf; destruct Hwf as [Hwf ?]).
      match goal with H : forallb _ es = true |- _ => rename H into Hall end.
      match goal with H : (zlen es <? 2 ^ 31) = true |- _ => apply Z.ltb_lt in H; rename H into Hlen end.
      rewrite forallb_forall in Hall. rewrite Forall_forall in IH, Hdep, Hdm.
      assert (Hcnt : (zlen es >? zlen (flat_map encode es ++ r)) = false).
      { destruct (Z.gtb_spec (zlen es) (zlen (flat_map encode es ++ r))); [|reflexivity].
        unfold zlen in *. rewrite app_length in *. pose proof (flat_map_length_ge encode es encode_nonempty). lia. }
      cbn [read_any_gen encode app]. rewrite (valid_type_type_valid _ Hve). cbn [negb].
      assert (0 <= zlen es) by (unfold zlen; lia).
      rewrite <- app_assoc. rewrite read_count_ok by lia. rewrite <- Ee, Z.eqb_refl. cbn [negb]. rewrite Hcnt, to_nat_zlen.
      cbn [gval_of delem]. rewrite (read_elems_ok _ e (gval_of u8 byname e)); [reflexivity|].
      rewrite Forall_forall. intros x Hin r'. specialize (Hall x Hin). apply andb_true_iff in Hall. destruct Hall as [_ Hw].
      apply IH; auto; try (specialize (Hdm x Hin); lia).
      intros Hr. specialize (Hg Hr). cbn [gval_of delem gfresh] in Hg. rewrite forallb_forall in Hg.
      apply Hg. apply in_map. exact Hin.
    - (* list *)
      destruct d as [| | |e| |]; cbn [conf] in Hc; try discriminate.
      apply andb_true_iff in Hc. destruct Hc as [Hc Hes]. apply andb_true_iff in Hc. destruct Hc as [Ee Hve].
      apply Z.eqb_eq in Ee. rewrite forallb_forall in Hes.
      cbn [depth] in Hd, Hm. apply le_S_n in Hd. apply le_S_n in Hm.
      pose proof (fold_max_le depth es n Hd) as Hdep. pose proof (fold_max_le depth es m Hm) as Hdm.
      cbn [wf] in Hwf. repeat (apply andb_true_iff in Hwf; destruct Hwf as [Hwf ?]).
      match goal with H : forallb _ es = true |- _ => rename H into Hall end.
      match goal with H : (zlen es <? 2 ^ 31) = true |- _ => apply Z.ltb_lt in H; rename H into Hlen end.
      rewrite forallb_forall in Hall. rewrite Forall_forall in IH, Hdep, Hdm.
      assert (Hcnt : (zlen es >? zlen (flat_map encode es ++ r)) = false).
      { destruct (Z.gtb_spec (zlen es) (zlen (flat_map encode es ++ r))); [|reflexivity].
        unfold zlen in *. rewrite app_length in *. pose proof (flat_map_length_ge encode es encode_nonempty). lia. }
      cbn [read_any_gen encode app]. rewrite (valid_type_type_valid _ Hve). cbn [negb].
      assert (0 <= zlen es) by (unfold zlen; lia).
      rewrite <- app_assoc. rewrite read_count_ok by lia. rewrite <- Ee, Z.eqb_refl. cbn [negb]. rewrite Hcnt, to_nat_zlen.
      cbn [gval_of delem]. rewrite (read_elems_ok _ e (gval_of u8 byname e)); [reflexivity|].
      rewrite Forall_forall. intros x Hin r'. specialize (Hall x Hin). apply andb_true_iff in Hall. destruct Hall as [_ Hw].
      apply IH; auto; try (specialize (Hdm x Hin); lia).
      intros Hr. specialize (Hg Hr). cbn [gval_of delem gfresh] in Hg. rewrite forallb_forall in Hg.
      apply Hg. apply in_map. exact Hin.
  Qed.
End ReadRefines.

(* p.Skip is SkipGo with MaxSkipDepth levels: exact on every well-formed value nested at most that deep (skip_encode) *)
Lemma skip_go_exact x r : wf x = true -> (depth x <= max_skip_depth)%nat -> skip_go (type_of x) (encode x ++ r) = Some r.
Proof. intros Hw Hd. unfold skip_go. apply skip_encode; assumption. Qed.

Theorem read_any_desc_refines_decode u8 dis byname v d n r :
  wf v = true -> conf dis d v = true -> gfresh (gval_of u8 byname d v) = true ->
  (depth v <= n)%nat -> (depth v <= S max_skip_depth)%nat ->
  read_any_desc u8 dis byname n d (encode v ++ r) = Some (gval_of u8 byname d v, r).
Proof.
  intros Hw Hc Hg Hd Hm. unfold read_any_desc.
  exact (read_any_gen_refines skip_go max_skip_depth skip_go_exact u8 dis byname false v d n r Hw Hc (fun _ => Hg) Hd Hm).
Qed.

(* the raw variant used by the checks to recover an iteration order: no freshness needed *)
Theorem read_any_raw_refines_decode u8 dis byname v d n r :
  wf v = true -> conf dis d v = true -> (depth v <= n)%nat -> (depth v <= S max_skip_depth)%nat ->
  read_any_gen skip_go u8 dis byname true n d (encode v ++ r) = Some (gval_of u8 byname d v, r).
Proof.
  intros Hw Hc Hd Hm.
  exact (read_any_gen_refines skip_go max_skip_depth skip_go_exact u8 dis byname true v d n r Hw Hc
           (fun E : true = false => False_ind _ (Bool.diff_true_false E)) Hd Hm).
Qed.

(* ------------------------------------------------------------------ T3: reader after writer *)
Lemma conf_weaken v : forall d, conf true d v = true -> conf false d v = true.
Proof.
  induction v as [rw|z|z|z|z|z|s|fs IH|kt vt es IH|et es IH|et es IH] using tval_ind'; intros d H;
  destruct d; cbn [conf] in *; try discriminate; try exact H.
  - rewrite forallb_forall in *. rewrite Forall_forall in IH. intros f Hin. specialize (H f Hin).
    destruct (afby_id (fst f mod 65536) fs0) as [[nm fd]|]; [apply IH; assumption|discriminate].
  - apply andb_true_iff in H. destruct H as [H Hes]. rewrite H. cbn [andb].
    rewrite forallb_forall in *. rewrite Forall_forall in IH. intros en Hin. specialize (Hes en Hin).
    apply andb_true_iff in Hes. destruct Hes as [Hk Hv]. destruct (IH en Hin) as [IHk IHv].
    rewrite (IHk _ Hk), (IHv _ Hv). reflexivity.
  - apply andb_true_iff in H. destruct H as [H Hes]. rewrite H. cbn [andb].
    rewrite forallb_forall in *. rewrite Forall_forall in IH. intros x Hin. apply IH; auto.
  - apply andb_true_iff in H. destruct H as [H Hes]. rewrite H. cbn [andb].
    rewrite forallb_forall in *. rewrite Forall_forall in IH. intros x Hin. apply IH; auto.
Qed.

Lemma conf_any s v d : conf true d v = true -> conf s d v = true.
Proof. destruct s; [exact (fun H => H)|apply conf_weaken]. Qed.

(* every conforming Go value: written (any cast / disallowUnknown setting, BYTEs as int8 or uint8) and read back (any
   disallowUnknown setting), the same Go value comes back and the cursor stands right behind it. The only difference of
   presentation the options introduce: a BYTE comes back as uint8 iff byteAsUint8 (u8r), whatever it was written from;
   useFieldName must be the same on both sides (it selects map[string] vs map[FieldID] for structs). *)
Theorem read_write_any_desc cast dis_w dis_r byname u8w u8r v d n r :
  wf v = true -> conf true d v = true -> bools01 v = true -> (byname = true -> names_ok d = true) ->
  gfresh (gval_of u8r byname d v) = true -> (depth v <= n)%nat -> (depth v <= S max_skip_depth)%nat ->
  exists out, write_any_desc cast dis_w byname n d [] (gval_of u8w byname d v) = (out, 0) /\ out = encode v /\
              read_any_desc u8r dis_r byname n d (out ++ r) = Some (gval_of u8r byname d v, r).
Proof.
  intros Hw Hc Hb Hn Hg Hd Hm. exists (encode v). split; [|split; [reflexivity|]].
  - apply (write_any_desc_refines_encode cast dis_w byname u8w v d n [] Hw Hc Hb Hn Hd).
  - apply read_any_desc_refines_decode; auto. apply conf_any. exact Hc.
Qed.

(* ------------------------------------------------------------------ T4: the error side *)
(* cast off: a Go value whose dynamic type the case of the descriptor's type does not accept is an error, nothing written *)
Theorem write_kind_mismatch dis byname n d b g :
  gkind_ok byname d g = false -> write_any_desc false dis byname (S n) d b g = (b, 1).
Proof.
  intros H. destruct d as [t|bin|fs|e|e|k e]; cbn [write_any_desc gkind_ok] in *.
  - unfold write_scalar, get_int.
    destruct (t =? T_BOOL); [destruct g; try reflexivity; discriminate|].
    destruct (t =? T_BYTE); [destruct g; try reflexivity; rewrite H; reflexivity|].
    destruct (t =? T_I16); [destruct g; try reflexivity; rewrite H; reflexivity|].
    destruct (t =? T_I32); [destruct g; try reflexivity; rewrite H; reflexivity|].
    destruct (t =? T_I64); [destruct g; try reflexivity; rewrite H; reflexivity|].
    destruct (t =? T_DOUBLE); [destruct g; try reflexivity; discriminate|]. reflexivity.
  - destruct g; try reflexivity; discriminate.
  - destruct byname; destruct g; try reflexivity; discriminate.
  - destruct g; try reflexivity; discriminate.
  - destruct g; try reflexivity; discriminate.
  - unfold write_map. destruct (dtype k =? T_STRING); [destruct g; try reflexivity; discriminate|].
    destruct (is_int_type (dtype k)); [destruct g; try reflexivity; rewrite H; reflexivity|].
    destruct g; try reflexivity; discriminate.
Qed.

(* a member the descriptor does not declare: an error iff disallowUnknown, else it is left out *)
Theorem write_unknown_member_id cast dis n fs b id x ms :
  afby_id id fs = None ->
  write_any_desc cast dis false (S n) (AStruct fs) b (GStructN ((id, x) :: ms)) =
  if dis then (b, 1) else write_any_desc cast dis false (S n) (AStruct fs) b (GStructN ms).
Proof.
  intros H. cbn [write_any_desc write_fields fst]. unfold by_id at 1. rewrite H. destruct dis; reflexivity.
Qed.

Theorem write_unknown_member_name cast dis n fs b nm x ms :
  afby_name nm fs = None ->
  write_any_desc cast dis true (S n) (AStruct fs) b (GMapS ((nm, x) :: ms)) =
  if dis then (b, 1) else write_any_desc cast dis true (S n) (AStruct fs) b (GMapS ms).
Proof.
  intros H. cbn [write_any_desc write_fields fst]. rewrite H. destruct dis; reflexivity.
Qed.

(* a field the descriptor does not declare is an error of the reader under disallowUnknown (without it the field is
   skipped: read_any_desc_refines_decode with conf false) *)
Theorem read_unknown_field_disallowed u8 byname n dfs t id rest :
  type_valid t = true -> t <> 0 -> in_sb 16 id = true -> afby_id (id mod 65536) dfs = None ->
  read_any_desc u8 true byname (S n) (AStruct dfs) (t :: enc_int 2 id ++ rest) = None.
Proof.
  intros Hv Ht Hid E. unfold read_any_desc. cbn [read_any_gen length read_fields].
  rewrite Hv. cbn [negb]. destruct (t =? 0) eqn:E0; [apply Z.eqb_eq in E0; contradiction|].
  rewrite take_enc_int, dec_int_enc_int; [|lia|apply in_sb_true in Hid; exact Hid]. rewrite E. reflexivity.
Qed.
