(* WriteAnyWithDesc / ReadAnyWithDesc as coded (model/ThriftAnyDesc.v) against the Thrift binary encoding (model/ThriftWire.v):
     write_any_desc_refines_encode   the writer appends exactly [encode v] for the Go presentation of every conforming v
     read_any_desc_refines_decode    the reader answers exactly that Go presentation and the bytes after the value
     read_write_any_desc             reader after writer is the identity on Go values (up to the stated presentation)
   and the error side (kind mismatch, unknown members). *)
From Coq Require Import ZArith List Bool Lia.
From DG Require Import CaseFormat ProtoWireRef ProtoWireRefProofs ThriftWire ThriftWireProofs ThriftGeneric ThriftEnvelope ThriftAnyDesc.
Import ListNotations.
Local Open Scope Z_scope.

(* ------------------------------------------------------------------ small facts *)
Lemma enc_int1 z : enc_int 1 z = [z mod 256].
Proof.
  unfold enc_int. cbn [le_enc rev app]. change (256 ^ Z.of_nat 1) with 256. rewrite Z.mod_mod by lia. reflexivity.
Qed.

Lemma enc_int2_mod z : enc_int 2 (z mod 65536) = enc_int 2 z.
Proof. unfold enc_int. change (256 ^ Z.of_nat 2) with 65536. rewrite Z.mod_mod by lia. reflexivity. Qed.

Lemma wbind_ok x k : wbind (x, 0) k = k x.
Proof. reflexivity. Qed.

Lemma zlen_map {A B} (f : A -> B) l : zlen (map f l) = zlen l.
Proof. unfold zlen. rewrite map_length. reflexivity. Qed.

Lemma bytes_eqb_refl s : bytes_eqb s s = true.
Proof. induction s as [|x s IH]; [reflexivity|]. cbn. rewrite Z.eqb_refl. exact IH. Qed.

Lemma bytes_eqb_eq a : forall b, bytes_eqb a b = true -> a = b.
Proof.
  induction a as [|x a IH]; intros [|y b] H; try discriminate; [reflexivity|].
  cbn in H. apply andb_true_iff in H. destruct H as [E H]. apply Z.eqb_eq in E. subst y. f_equal. apply IH. exact H.
Qed.

Lemma conf_type s d v : conf s d v = true -> type_of v = dtype d.
Proof.
  destruct v, d; cbn [conf]; intros H; try discriminate; cbn [type_of dtype]; try reflexivity;
  apply Z.eqb_eq in H; symmetry; exact H.
Qed.

Lemma afby_id_in id fs : forall nm fd, afby_id id fs = Some (nm, fd) -> In (id, nm, fd) fs.
Proof.
  induction fs as [|[[i n] d] fs IH]; intros nm fd H; [discriminate|].
  cbn [afby_id] in H. destruct (i =? id) eqn:E.
  - apply Z.eqb_eq in E. inversion H; subst. left. reflexivity.
  - right. apply IH. exact H.
Qed.

Lemma name_in_of_id id fs : forall nm fd, afby_id id fs = Some (nm, fd) -> name_in nm fs = true.
Proof.
  induction fs as [|[[i n] d] fs IH]; intros nm fd H; [discriminate|].
  cbn [afby_id] in H. cbn [name_in]. destruct (i =? id).
  - inversion H; subst. rewrite bytes_eqb_refl. reflexivity.
  - rewrite (IH _ _ H). apply orb_true_r.
Qed.

(* FieldByKey(key of the field with this id) is that field *)
Lemma afby_name_of_id id fs : names_nodup fs = true ->
  forall nm fd, afby_id id fs = Some (nm, fd) -> afby_name nm fs = Some (id, fd).
Proof.
  induction fs as [|[[i n] d] fs IH]; intros Hn nm fd H; [discriminate|].
  cbn [names_nodup] in Hn. apply andb_true_iff in Hn. destruct Hn as [Hh Hn]. apply negb_true_iff in Hh.
  cbn [afby_id] in H. cbn [afby_name]. destruct (i =? id) eqn:E.
  - apply Z.eqb_eq in E. inversion H; subst. rewrite bytes_eqb_refl. reflexivity.
  - destruct (bytes_eqb n nm) eqn:En.
    + apply bytes_eqb_eq in En. subst n. rewrite (name_in_of_id _ _ _ _ H) in Hh. discriminate.
    + apply IH; assumption.
Qed.

Lemma names_ok_field fs id nm fd : names_ok (AStruct fs) = true -> afby_id id fs = Some (nm, fd) -> names_ok fd = true.
Proof.
  cbn [names_ok]. intros H E. apply andb_true_iff in H. destruct H as [_ H]. rewrite forallb_forall in H.
  apply (H (id, nm, fd)). apply afby_id_in. exact E.
Qed.

(* ------------------------------------------------------------------ T1: the writer appends the encoding *)
Lemma write_elems_ok rec e (gv : tval -> gval) es :
  Forall (fun x => forall b, rec e b (gv x) = (b ++ encode x, 0)) es ->
  forall b, write_elems rec e b (map gv es) = (b ++ flat_map encode es, 0).
Proof.
  induction 1 as [|x es Hx _ IH]; intros b; cbn [map write_elems flat_map]; [rewrite app_nil_r; reflexivity|].
  rewrite Hx, wbind_ok, IH, <- app_assoc. reflexivity.
Qed.

Lemma write_entries_ok {K} rec (wk : K -> list Z -> wst) e (gk : tval -> K) (gv : tval -> gval) es :
  Forall (fun en : tval * tval => (forall b, wk (gk (fst en)) b = (b ++ encode (fst en), 0)) /\
                                  (forall b, rec e b (gv (snd en)) = (b ++ encode (snd en), 0))) es ->
  forall b, write_entries rec wk e b (map (fun en => (gk (fst en), gv (snd en))) es)
            = (b ++ flat_map (fun en => encode (fst en) ++ encode (snd en)) es, 0).
Proof.
  induction 1 as [|en es [Hk Hv] _ IH]; intros b; cbn [map write_entries flat_map fst snd]; [rewrite app_nil_r; reflexivity|].
  rewrite Hk, wbind_ok, Hv, wbind_ok, IH, <- !app_assoc. reflexivity.
Qed.

Lemma write_fields_ok {K} dis rec (lookup : K -> option (Z * adesc)) (mk : Z -> list Z -> K) gv dfs fs :
  Forall (fun f : Z * tval => exists nm fd,
            afby_id (fst f mod 65536) dfs = Some (nm, fd) /\
            lookup (mk (fst f mod 65536) nm) = Some (fst f mod 65536, fd) /\
            type_of (snd f) = dtype fd /\
            forall b, rec fd b (gv fd (snd f)) = (b ++ encode (snd f), 0)) fs ->
  forall b, write_fields dis rec lookup b (members mk gv dfs fs)
            = (b ++ flat_map (fun f => type_of (snd f) :: enc_int 2 (fst f) ++ encode (snd f)) fs, 0).
Proof.
  unfold members.
  induction 1 as [|f fs (nm & fd & Ei & El & Et & Hr) _ IH]; intros b; cbn [flat_map]; [rewrite app_nil_r; reflexivity|].
  rewrite Ei. cbn [app write_fields fst snd]. rewrite El, Hr, wbind_ok, IH, enc_int2_mod, Et, <- !app_assoc. reflexivity.
Qed.

Lemma write_key_wrap rec kd g b : ptr_target_ok g = true \/ wrap_key g = g ->
  (forall g', g <> GPtr g') -> write_key rec kd (wrap_key g) b = rec kd b g.
Proof.
  intros H Hn. destruct g; cbn [wrap_key write_key ptr_target_ok]; try reflexivity.
  - destruct H as [H|H]; [cbn [ptr_target_ok] in H; rewrite H; reflexivity|discriminate].
  - exfalso. apply (Hn g). reflexivity.
Qed.

Lemma gval_of_wrap u8 bn d v b rec kd :
  write_key rec kd (wrap_key (gval_of u8 bn d v)) b = rec kd b (gval_of u8 bn d v).
Proof.
  apply write_key_wrap.
  - destruct v; cbn [gval_of]; try (right; reflexivity); try (left; reflexivity).
    + destruct u8; right; reflexivity.
    + destruct d as [| [|] | | | |]; right; reflexivity.
    + destruct bn; left; reflexivity.
    + destruct (kt =? T_STRING); [left; reflexivity|]. destruct (is_int_type kt); left; reflexivity.
  - intros g' E. destruct v; cbn [gval_of] in E; try discriminate.
    + destruct u8; discriminate.
    + destruct d as [| [|] | | | |]; discriminate.
    + destruct bn; discriminate.
    + destruct (kt =? T_STRING); [discriminate|]. destruct (is_int_type kt); discriminate.
Qed.

Lemma depth_pos v : (1 <= depth v)%nat.
Proof. destruct v; cbn [depth]; lia. Qed.

Theorem write_any_desc_refines_encode cast dis byname u8 : forall v d n b,
  wf v = true -> conf true d v = true -> bools01 v = true -> (byname = true -> names_ok d = true) -> (depth v <= n)%nat ->
  write_any_desc cast dis byname n d b (gval_of u8 byname d v) = (b ++ encode v, 0).
Proof.
  induction v as [raw|z|z|z|z|z|s|fs IH|kt vt es IH|et es IH|et es IH] using tval_ind'; intros d n b Hwf Hc Hb Hn Hd;
  (destruct n as [|n]; [pose proof (depth_pos (VBool 0)); cbn [depth] in Hd; lia|]).
  - destruct d; cbn [conf] in Hc; try discriminate. apply Z.eqb_eq in Hc. subst t.
    cbn [bools01] in Hb. apply orb_true_iff in Hb. destruct Hb as [E|E]; apply Z.eqb_eq in E; subst raw; reflexivity.
  - destruct d; cbn [conf] in Hc; try discriminate. apply Z.eqb_eq in Hc. subst t.
    cbn [write_any_desc gval_of encode]. rewrite enc_int1. destruct u8.
    + change (write_scalar cast T_BYTE b (GInt GT_U8 (z mod 256))) with (b ++ [(z mod 256) mod 256], 0).
      rewrite Z.mod_mod by lia. reflexivity.
    + reflexivity.
  - destruct d; cbn [conf] in Hc; try discriminate. apply Z.eqb_eq in Hc. subst t. reflexivity.
  - destruct d; cbn [conf] in Hc; try discriminate. apply Z.eqb_eq in Hc. subst t. reflexivity.
  - destruct d; cbn [conf] in Hc; try discriminate. apply Z.eqb_eq in Hc. subst t. reflexivity.
  - destruct d; cbn [conf] in Hc; try discriminate. apply Z.eqb_eq in Hc. subst t. reflexivity.
  - destruct d as [| [|] | | | |]; cbn [conf] in Hc; try discriminate; reflexivity.
  - (* struct *)
    destruct d as [| |dfs| | |]; cbn [conf] in Hc; try discriminate.
    cbn [depth] in Hd. apply le_S_n in Hd.
    pose proof (fold_max_le (fun f : Z * tval => depth (snd f)) fs n Hd) as Hdep.
    cbn [wf] in Hwf. cbn [bools01] in Hb. rewrite forallb_forall in Hwf, Hc, Hb. rewrite Forall_forall in IH, Hdep.
    assert (Hall : forall (K : Type) (mk : Z -> list Z -> K) (lookup : K -> option (Z * adesc)),
      (forall id nm fd, afby_id id dfs = Some (nm, fd) -> lookup (mk id nm) = Some (id, fd)) ->
      Forall (fun f : Z * tval => exists nm fd,
            afby_id (fst f mod 65536) dfs = Some (nm, fd) /\
            lookup (mk (fst f mod 65536) nm) = Some (fst f mod 65536, fd) /\
            type_of (snd f) = dtype fd /\
            forall b, write_any_desc cast dis byname n fd b (gval_of u8 byname fd (snd f)) = (b ++ encode (snd f), 0)) fs).
    { intros K mk lookup Hl. rewrite Forall_forall. intros f Hin.
      specialize (Hc f Hin). specialize (Hwf f Hin). apply andb_true_iff in Hwf. destruct Hwf as [_ Hw].
      destruct (afby_id (fst f mod 65536) dfs) as [[nm fd]|] eqn:E; [|discriminate].
      exists nm, fd. split; [reflexivity|]. split; [apply Hl; exact E|]. split; [apply (conf_type _ _ _ Hc)|].
      intros b'. apply IH; auto.
      intros Hbn. apply (names_ok_field dfs _ nm fd (Hn Hbn) E). }
    cbn [write_any_desc gval_of dfields encode]. destruct byname.
    + rewrite (write_fields_ok dis _ (fun nm => afby_name nm dfs) (fun _ nm => nm)).
      * rewrite wbind_ok. unfold wstop. rewrite <- app_assoc. reflexivity.
      * apply (Hall _ (fun _ nm => nm) (fun nm => afby_name nm dfs)). intros id nm fd E. apply afby_name_of_id; [|exact E].
        specialize (Hn eq_refl). cbn [names_ok] in Hn. apply andb_true_iff in Hn. apply Hn.
    + rewrite (write_fields_ok dis _ (by_id dfs) (fun id _ => id)).
      * rewrite wbind_ok. unfold wstop. rewrite <- app_assoc. reflexivity.
      * apply (Hall _ (fun id _ => id) (by_id dfs)). intros id nm fd E. unfold by_id. rewrite E. reflexivity.
  - (* map *)
    destruct d as [| | | | |k e]; cbn [conf] in Hc; try discriminate.
    apply andb_true_iff in Hc. destruct Hc as [Hc Hes]. apply andb_true_iff in Hc. destruct Hc as [Hc _].
    apply andb_true_iff in Hc. destruct Hc as [Hc _]. apply andb_true_iff in Hc. destruct Hc as [Ek Ee].
    apply Z.eqb_eq in Ek, Ee. subst kt vt. rewrite forallb_forall in Hes.
    cbn [depth] in Hd. apply le_S_n in Hd.
    pose proof (fold_max_le (fun en : tval * tval => Nat.max (depth (fst en)) (depth (snd en))) es n Hd) as Hdep.
    cbn [wf] in Hwf. repeat (apply andb_true_iff in Hwf; destruct Hwf as [Hwf ?]).
    match goal with H : forallb _ es = true |- _ => rename H into Hall end.
    cbn [bools01] in Hb. rewrite forallb_forall in Hall, Hb. rewrite Forall_forall in IH, Hdep.
    assert (Hn' : byname = true -> names_ok k = true /\ names_ok e = true).
    { intros Hbn. specialize (Hn Hbn). cbn [names_ok] in Hn. apply andb_true_iff in Hn. exact Hn. }
    assert (Hval : forall en, In en es -> forall b',
              write_any_desc cast dis byname n e b' (gval_of u8 byname e (snd en)) = (b' ++ encode (snd en), 0)).
    { intros en Hin b'. specialize (Hall en Hin). specialize (Hes en Hin). specialize (Hb en Hin). specialize (Hdep en Hin).
      repeat (apply andb_true_iff in Hall; destruct Hall as [Hall ?]).
      apply andb_true_iff in Hes. destruct Hes as [_ Hes]. apply andb_true_iff in Hb. destruct Hb as [_ Hb].
      apply (proj2 (IH en Hin)); auto; [intros Hbn; apply (Hn' Hbn)|lia]. }
    cbn [write_any_desc gval_of delem dkey encode]. unfold write_map.
    destruct (dtype k =? T_STRING) eqn:Es; [|destruct (is_int_type (dtype k)) eqn:Ei].
    + rewrite zlen_map, (write_entries_ok _ _ e gstr_key (gval_of u8 byname e)).
      * rewrite <- app_assoc. reflexivity.
      * rewrite Forall_forall. intros en Hin. split; [|apply Hval; exact Hin].
        intros b'. specialize (Hes en Hin). apply andb_true_iff in Hes. destruct Hes as [Hk _].
        apply conf_type in Hk. apply Z.eqb_eq in Es. rewrite Es in Hk.
        destruct (fst en); try discriminate. reflexivity.
    + change (intmap_ok GT_INT) with true. cbv iota.
      rewrite zlen_map, (write_entries_ok _ _ e gint_key (gval_of u8 byname e)).
      * rewrite <- app_assoc. reflexivity.
      * rewrite Forall_forall. intros en Hin. split; [|apply Hval; exact Hin].
        intros b'. specialize (Hes en Hin). apply andb_true_iff in Hes. destruct Hes as [Hk _].
        apply conf_type in Hk. rewrite <- Hk.
        destruct (fst en); cbn [type_of] in *; rewrite <- Hk in Ei; try discriminate; cbn [gint_key encode].
        -- rewrite enc_int1. unfold write_int_key. cbn. rewrite Z.mod_mod by lia. reflexivity.
        -- reflexivity.
        -- reflexivity.
        -- reflexivity.
    + rewrite zlen_map, (write_entries_ok _ _ e (fun x => wrap_key (gval_of u8 byname k x)) (gval_of u8 byname e)).
      * rewrite <- app_assoc. reflexivity.
      * rewrite Forall_forall. intros en Hin. split; [|apply Hval; exact Hin].
        intros b'. rewrite gval_of_wrap.
        specialize (Hall en Hin). specialize (Hes en Hin). specialize (Hb en Hin). specialize (Hdep en Hin).
        repeat (apply andb_true_iff in Hall; destruct Hall as [Hall ?]).
        apply andb_true_iff in Hes. destruct Hes as [Hes _]. apply andb_true_iff in Hb. destruct Hb as [Hb _].
        apply (proj1 (IH en Hin)); auto; [intros Hbn; apply (Hn' Hbn)|lia].
  - (* set *)
    destruct d as [| | | |e|]; cbn [conf] in Hc; try discriminate.
    apply andb_true_iff in Hc. destruct Hc as [Hc Hes]. apply andb_true_iff in Hc. destruct Hc as [Ee _].
    apply Z.eqb_eq in Ee. subst et. rewrite forallb_forall in Hes.
    cbn [depth] in Hd. apply le_S_n in Hd. pose proof (fold_max_le depth es n Hd) as Hdep.
    cbn [wf] in Hwf. repeat (apply andb_true_iff in Hwf; destruct Hwf as [Hwf ?]).
    match goal with H : forallb _ es = true |- _ => rename H into Hall end.
    cbn [bools01] in Hb. rewrite forallb_forall in Hall, Hb. rewrite Forall_forall in IH, Hdep.
    cbn [write_any_desc gval_of delem encode]. rewrite zlen_map, write_elems_ok.
    + rewrite <- app_assoc. reflexivity.
    + rewrite Forall_forall. intros x Hin b'. specialize (Hall x Hin). apply andb_true_iff in Hall. destruct Hall as [_ Hw].
      apply IH; auto; intros Hbn; apply (Hn Hbn).
  - (* list *)
    destruct d as [| | |e| |]; cbn [conf] in Hc; try discriminate.
    apply andb_true_iff in Hc. destruct Hc as [Hc Hes]. apply andb_true_iff in Hc. destruct Hc as [Ee _].
    apply Z.eqb_eq in Ee. subst et. rewrite forallb_forall in Hes.
    cbn [depth] in Hd. apply le_S_n in Hd. pose proof (fold_max_le depth es n Hd) as Hdep.
    cbn [wf] in Hwf. repeat (apply andb_true_iff in Hwf; destruct Hwf as [Hwf ?]).
    match goal with H : forallb _ es = true |- _ => rename H into Hall end.
    cbn [bools01] in Hb. rewrite forallb_forall in Hall, Hb. rewrite Forall_forall in IH, Hdep.
    cbn [write_any_desc gval_of delem encode]. rewrite zlen_map, write_elems_ok.
    + rewrite <- app_assoc. reflexivity.
    + rewrite Forall_forall. intros x Hin b'. specialize (Hall x Hin). apply andb_true_iff in Hall. destruct Hall as [_ Hw].
      apply IH; auto; intros Hbn; apply (Hn Hbn).
Qed.
