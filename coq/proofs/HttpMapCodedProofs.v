(* The transcription of the Go code (model/HttpMapCoded.v) refines the decision table (model/HttpMap.v). *)
From Coq Require Import ZArith List Bool Lia.
From DG Require Import ThriftWire Json Num HttpMap HttpMapProofs HttpMapCoded.
Import ListNotations.
Local Open Scope Z_scope.

Definition to_wres (id : Z) (r : fres) : wres :=
  match r with FValue v => WOk [(id, v)] | FAbsent => WOk [] | FError c => WErr c end.

Section Refine.
  Variable o : hopts.
  Variable rq : request.
  Variable conv_text : tdesc -> list Z -> option tval.
  Variable conv_json : tdesc -> json -> option tval.

  Notation hmR := (hm_Request rq conv_text).

  (* ------------------------------------------------------------------------------------------------ *)
  (* Request of one mapper = source_value of the table                                                 *)
  (* ------------------------------------------------------------------------------------------------ *)

  Lemma not_found_or_spec : forall v,
    not_found_or v = if nonempty v then ROk_ (SText_ v) else RErr_ E_NotFound.
  Proof. destruct v; reflexivity. Qed.

  (* what api.no_body_struct returns for a struct with fields gs, at nesting budget n *)
  Definition nbs_request (n : nat) (gs : list fdesc) : rres :=
    match n with
    | O => RErr_ E_Convert
    | S m => match nbs_fields_loop conv_text (hmR m) (HttpMappingFields gs) [] with
             | Some buf => ROk_ (SThrift (VStruct buf))
             | None => RErr_ E_Convert
             end
    end.

  Lemma hm_Request_spec : forall n a f,
    match source_value a (is_struct (f_ty f)) rq with
    | None => exists e, hmR n a f = RErr_ e /\ e <> E_Convert
    | Some (SText v) => hmR n a f = ROk_ (SText_ v) /\ a_kind a <> K_NO_BODY_STRUCT
    | Some SStruct => exists gs, f_ty f = TStruct gs /\ hmR n a f = nbs_request n gs /\ a_kind a = K_NO_BODY_STRUCT
    end.
  Proof.
    intros n [k key] f. unfold source_value, is_keyed, getter. cbn [a_kind a_key].
    assert (Hn : forall m, hm_Request rq conv_text m (Ann k key) f =
                 (let k0 := k in
                  if k0 =? K_QUERY then not_found_or (GetQuery rq key) else if k0 =? K_PATH then not_found_or (GetParam rq key)
                  else if k0 =? K_HEADER then not_found_or (GetHeader rq key) else if k0 =? K_COOKIE then not_found_or (GetCookie rq key)
                  else if k0 =? K_FORM then not_found_or (GetPostForm rq key) else if k0 =? K_BODY then not_found_or (GetMapBody rq key)
                  else if k0 =? K_RAW_BODY then ROk_ (SText_ (GetBody rq)) else if k0 =? K_RAW_URI then ROk_ (SText_ (GetUri rq))
                  else if k0 =? K_HTTP_CODE then RErr_ E_NotImplemented
                  else if k0 =? K_NO_BODY_STRUCT then
                    match f_ty f with TStruct gs => nbs_request m gs | _ => RErr_ E_Plain end
                  else RErr_ E_NotImplemented)).
    { intros m. destruct m; reflexivity. }
    rewrite Hn. cbv zeta. unfold GetQuery, GetParam, GetHeader, GetCookie, GetPostForm, GetMapBody, GetBody, GetUri.
    unfold K_QUERY, K_PATH, K_HEADER, K_COOKIE, K_FORM, K_BODY, K_RAW_BODY, K_RAW_URI, K_HTTP_CODE, K_NO_BODY_STRUCT.
    destruct (k =? 1) eqn:E1; [ apply Z.eqb_eq in E1; subst k; simpl; rewrite not_found_or_spec;
      destruct (nonempty (assoc key (rq_query rq))); [split; [reflexivity | discriminate] | eexists; split; [reflexivity | discriminate]] |].
    destruct (k =? 2) eqn:E2; [ apply Z.eqb_eq in E2; subst k; simpl; rewrite not_found_or_spec;
      destruct (nonempty (assoc key (rq_path rq))); [split; [reflexivity | discriminate] | eexists; split; [reflexivity | discriminate]] |].
    destruct (k =? 3) eqn:E3; [ apply Z.eqb_eq in E3; subst k; simpl; rewrite not_found_or_spec;
      destruct (nonempty (assoc key (rq_header rq))); [split; [reflexivity | discriminate] | eexists; split; [reflexivity | discriminate]] |].
    destruct (k =? 4) eqn:E4; [ apply Z.eqb_eq in E4; subst k; simpl; rewrite not_found_or_spec;
      destruct (nonempty (assoc key (rq_cookie rq))); [split; [reflexivity | discriminate] | eexists; split; [reflexivity | discriminate]] |].
    destruct (k =? 8) eqn:E8; [ apply Z.eqb_eq in E8; subst k; simpl; rewrite not_found_or_spec;
      destruct (nonempty (assoc key (rq_form rq))); [split; [reflexivity | discriminate] | eexists; split; [reflexivity | discriminate]] |].
    destruct (k =? 5) eqn:E5; [ apply Z.eqb_eq in E5; subst k; simpl; rewrite not_found_or_spec;
      destruct (nonempty (assoc key (rq_bodymap rq))); [split; [reflexivity | discriminate] | eexists; split; [reflexivity | discriminate]] |].
    simpl.
    destruct (k =? 7) eqn:E7; [ apply Z.eqb_eq in E7; subst k; split; [reflexivity | discriminate] |].
    destruct (k =? 9) eqn:E9; [ apply Z.eqb_eq in E9; subst k; split; [reflexivity | discriminate] |].
    destruct (k =? 6) eqn:E6; [ apply Z.eqb_eq in E6; subst k; simpl; eexists; split; [reflexivity | discriminate] |].
    destruct (k =? 10) eqn:E10.
    - apply Z.eqb_eq in E10; subst k. destruct (f_ty f) as [c b|e|e|kk v|gs]; simpl;
        try (eexists; split; [reflexivity | discriminate]).
      exists gs. repeat split.
    - eexists; split; [reflexivity | discriminate].
  Qed.

  (* ------------------------------------------------------------------------------------------------ *)
  (* the source loop = first_source                                                                    *)
  (* ------------------------------------------------------------------------------------------------ *)

  Definition loop_of_source (n : nat) (f : fdesc) (x : option (nat * srcval)) : loop_out :=
    match x with
    | None => LDone false (SText_ []) ENC_JSON
    | Some (_, SText v) => LDone true (SText_ v) ENC_JSON
    | Some (_, SStruct) =>
      match f_ty f with
      | TStruct gs => match nbs_request n gs with ROk_ v => LDone true v ENC_THRIFT | RErr_ _ => LAbort end
      | _ => LAbort
      end
    end.

  Lemma nbs_request_shape : forall n gs, (exists v, nbs_request n gs = ROk_ v) \/ nbs_request n gs = RErr_ E_Convert.
  Proof.
    intros n gs. destruct n; simpl; [right; reflexivity|].
    destruct (nbs_fields_loop _ _ _ _); [left; eexists; reflexivity | right; reflexivity].
  Qed.

  Lemma source_loop_spec : forall n f hms k,
    source_loop (hmR n) f hms false (SText_ []) ENC_JSON =
    loop_of_source n f (first_source_from k hms (is_struct (f_ty f)) rq).
  Proof.
    intros n f hms. induction hms as [|a r IH]; intros k; simpl.
    - reflexivity.
    - pose proof (hm_Request_spec n a f) as H.
      destruct (source_value a (is_struct (f_ty f)) rq) as [[v|]|].
      + destruct H as [H Hk]. rewrite H. simpl. unfold Encoding.
        destruct (a_kind a =? K_NO_BODY_STRUCT) eqn:E; [apply Z.eqb_eq in E; contradiction | reflexivity].
      + destruct H as (gs & Ht & H & Hk). rewrite H. simpl. rewrite Ht.
        destruct (nbs_request_shape n gs) as [[v Hv]|Hv]; rewrite Hv.
        * unfold Encoding. rewrite Hk. reflexivity.
        * reflexivity.
      + destruct H as (e & H & Hne). rewrite H. destruct e; try contradiction; apply IH.
  Qed.

  (* ------------------------------------------------------------------------------------------------ *)
  (* api.no_body_struct = nbs_fields / nbs_value of the table                                          *)
  (* ------------------------------------------------------------------------------------------------ *)

  Lemma nbs_fields_loop_spec : forall n gs buf,
    nbs_fields_loop conv_text (hmR n) (HttpMappingFields gs) buf =
    option_map (app buf) (nbs_fields rq conv_text gs).
  Proof.
    intros n gs. induction gs as [|g r IH]; intros buf; simpl.
    - rewrite app_nil_r. reflexivity.
    - unfold nbs_field. destruct (nonempty (f_anns g)) eqn:Eg; simpl.
      + unfold first_source. rewrite (source_loop_spec n g (f_anns g) O).
        destruct (first_source_from 0 (f_anns g) (is_struct (f_ty g)) rq) as [[i [v|]]|]; simpl.
        * destruct v as [|c v']; simpl.
          -- rewrite IH. destruct (nbs_fields rq conv_text r); simpl; [rewrite <- app_assoc; reflexivity | reflexivity].
          -- destruct (conv_text (f_ty g) (c :: v')); [|reflexivity].
             rewrite IH. destruct (nbs_fields rq conv_text r); simpl; [rewrite <- app_assoc; reflexivity | reflexivity].
        * destruct (f_ty g) as [c b|e|e|kk v|gs']; try reflexivity.
          destruct (nbs_request_shape n gs') as [[v Hv]|Hv]; rewrite Hv; [|reflexivity].
          assert (exists x, v = SThrift x) as [x ->].
          { destruct n; simpl in Hv; [discriminate|]. destruct (nbs_fields_loop _ _ _ _); inversion Hv. eexists; reflexivity. }
          reflexivity.
        * rewrite IH. destruct (nbs_fields rq conv_text r); simpl; [rewrite <- app_assoc; reflexivity | reflexivity].
      + rewrite IH. destruct (nbs_fields rq conv_text r); reflexivity.
  Qed.

  Lemma nbs_request_spec : forall n gs,
    nbs_request (S n) gs = match nbs_fields rq conv_text gs with Some l => ROk_ (SThrift (VStruct l)) | None => RErr_ E_Convert end.
  Proof.
    intros n gs. simpl. rewrite nbs_fields_loop_spec. destruct (nbs_fields rq conv_text gs); reflexivity.
  Qed.

  (* ------------------------------------------------------------------------------------------------ *)
  (* tryGetValueFromHttp = traceback_value                                                             *)
  (* ------------------------------------------------------------------------------------------------ *)
  Lemma tryGetValueFromHttp_spec : forall key, fst (tryGetValueFromHttp rq key) = traceback_value rq key.
  Proof.
    intros key. unfold tryGetValueFromHttp, traceback_value, getter, GetParam, GetQuery, GetHeader, GetCookie, GetMapBody. simpl.
    destruct (nonempty (assoc key (rq_path rq))); [reflexivity|].
    destruct (nonempty (assoc key (rq_query rq))); [reflexivity|].
    destruct (nonempty (assoc key (rq_header rq))); [reflexivity|].
    destruct (nonempty (assoc key (rq_cookie rq))); [reflexivity|].
    destruct (assoc key (rq_bodymap rq)); reflexivity.
  Qed.

  Lemma tryGetValueFromHttp_enc : forall key,
    snd (tryGetValueFromHttp rq key) = ENC_JSON \/ (fst (tryGetValueFromHttp rq key) = [] /\ snd (tryGetValueFromHttp rq key) = ENC_TEXT).
  Proof.
    intros key. unfold tryGetValueFromHttp.
    destruct (nonempty (GetParam rq key)); [left; reflexivity|].
    destruct (nonempty (GetQuery rq key)); [left; reflexivity|].
    destruct (nonempty (GetHeader rq key)); [left; reflexivity|].
    destruct (nonempty (GetCookie rq key)); [left; reflexivity|].
    destruct (nonempty (GetMapBody rq key)); [left; reflexivity | right; split; reflexivity].
  Qed.

  Section Level.
    Variable rec_member : list fdesc -> json -> fres.
    Variable rec_doc : list fdesc -> json -> fres.

    Notation wsv := (writeStringValue o conv_text conv_json rec_doc).

    Lemma conv_with_is_conv_value : forall rec t j, conv_with conv_json rec t j = conv_value conv_json rec t j.
    Proof. intros rec t j. destruct t; simpl; unfold of_opt; try destruct (conv_json _ j); reflexivity. Qed.

    (* ---------------------------------------------------------------------------------------------- *)
    (* writeStringValue = write_or_empty                                                               *)
    (* ---------------------------------------------------------------------------------------------- *)
    Lemma writeStringValue_empty : forall f enc,
      wsv f (SText_ []) enc = to_wres (f_id f) (of_empty_rule o (f_ty f) (f_req f)).
    Proof.
      intros f enc. unfold writeStringValue, of_empty_rule, empty_rule. simpl.
      rewrite (andb_comm (negb (o_wr o))), (andb_comm (negb (o_wo o))), (andb_comm (negb (o_wd o))).
      destruct ((f_req f =? R_REQUIRED) && negb (o_wr o)); [reflexivity|].
      destruct ((f_req f =? R_OPTIONAL) && negb (o_wo o)); [reflexivity|].
      destruct ((f_req f =? R_DEFAULT) && negb (o_wd o)); reflexivity.
    Qed.

    Lemma writeStringValue_text : forall f v, v <> [] ->
      wsv f (SText_ v) ENC_JSON = to_wres (f_id f) (write_text conv_text conv_json rec_doc (f_ty f) v).
    Proof.
      intros f v Hv. unfold writeStringValue, write_text.
      assert (gstr_empty (SText_ v) = false) as -> by (destruct v; [contradiction | reflexivity]).
      change (ENC_JSON =? ENC_THRIFT) with false. change (ENC_JSON =? ENC_TEXT) with false. simpl orb.
      destruct (negb (is_complex (f_ty f)) || negb (is_json_string v)).
      - unfold of_opt. destruct (conv_text (f_ty f) v); reflexivity.
      - destruct (json_parse v); [|reflexivity]. rewrite conv_with_is_conv_value.
        destruct (conv_value conv_json rec_doc (f_ty f) j); reflexivity.
    Qed.

    Lemma writeStringValue_seek : forall f,
      (let '(val, enc) := tryGetValueFromHttp rq (f_name f) in wsv f (SText_ val) enc) =
      to_wres (f_id f) (write_or_empty o conv_text conv_json rec_doc (f_ty f) (f_req f) (traceback_value rq (f_name f))).
    Proof.
      intros f. rewrite <- tryGetValueFromHttp_spec.
      pose proof (tryGetValueFromHttp_enc (f_name f)) as He.
      destruct (tryGetValueFromHttp rq (f_name f)) as [val enc]. simpl in *.
      unfold write_or_empty. destruct val as [|c r].
      - apply writeStringValue_empty.
      - destruct He as [He|[He _]]; [|discriminate]. subst enc. apply writeStringValue_text. discriminate.
    Qed.

    (* ---------------------------------------------------------------------------------------------- *)
    (* one iteration of handleHttpMappings = the decision of the table                                 *)
    (* ---------------------------------------------------------------------------------------------- *)

    (* what the table says the iteration does: the field's result if it is decided here, and the requires bit afterwards
       (None: the bit is left as it was) *)
    Definition hhm_step (nobody : bool) (f : fdesc) : option fres * option bool :=
      match map_field o nobody f rq with
      | DWrite _ v => (Some (write_text conv_text conv_json rec_doc (f_ty f) v), Some false)
      | DWriteStruct _ => (Some (nbs_value rq conv_text (f_ty f)), Some false)
      | DWriteDefaultOrEmpty => (Some (FValue (zero_of (f_ty f))), Some false)
      | DError c => (Some (FError c), Some false)
      | DFallbackToBody => (None, Some true)
      | DSkipOwed => (None, None)
      | DSkip => (None, if nobody && match first_source (f_anns f) (is_struct (f_ty f)) rq with None => true | _ => false end
                        then None else Some false)
      end.

    Definition apply_step (id : Z) (s : option fres * option bool) (bm : bitmap) (buf : list (Z * tval)) : hstate :=
      let bm' := match snd s with Some b => bm_set bm id b | None => bm end in
      match fst s with
      | None => HSt bm' buf
      | Some r => match to_wres id r with WOk w => HSt bm' (buf ++ w) | WErr c => HFail c end
      end.

    Lemma empty_rule_cases : forall r,
      empty_rule o r = DError E_MISS \/ empty_rule o r = DSkip \/ empty_rule o r = DWriteDefaultOrEmpty.
    Proof.
      intros r. unfold empty_rule.
      destruct ((r =? R_REQUIRED) && negb (o_wr o)); [left; reflexivity|].
      destruct ((r =? R_OPTIONAL) && negb (o_wo o)); [right; left; reflexivity|].
      destruct ((r =? R_DEFAULT) && negb (o_wd o)); [right; left; reflexivity | right; right; reflexivity].
    Qed.

    (* the write path of handleHttpMappings with val == "" *)
    Lemma write_empty_step : forall f enc bm buf,
      match wsv f (SText_ []) enc with
      | WOk w => HSt (bm_set bm (f_id f) false) (buf ++ w)
      | WErr c => HFail c
      end =
      apply_step (f_id f)
        (match empty_rule o (f_req f) with
         | DError c => (Some (FError c), Some false)
         | DWriteDefaultOrEmpty => (Some (FValue (zero_of (f_ty f))), Some false)
         | _ => (None, Some false)
         end) bm buf.
    Proof.
      intros f enc bm buf. rewrite writeStringValue_empty. unfold of_empty_rule, apply_step.
      destruct (empty_rule_cases (f_req f)) as [H|[H|H]]; rewrite H; simpl; try rewrite app_nil_r; reflexivity.
    Qed.

    Lemma hhm_field_spec : forall n nobody f bm buf,
      hhm_field o rq conv_text conv_json rec_doc (S n) nobody f bm buf = apply_step (f_id f) (hhm_step nobody f) bm buf.
    Proof.
      intros n nobody f bm buf. unfold hhm_field, hhm_step, map_field, first_source.
      rewrite (source_loop_spec (S n) f (f_anns f) O).
      destruct (first_source_from 0 (f_anns f) (is_struct (f_ty f)) rq) as [[i [v|]]|]; cbn [loop_of_source].
      - (* a text source *)
        cbn [negb]. destruct v as [|c v'].
        + cbn [nonempty]. rewrite write_empty_step. rewrite andb_false_r.
          destruct (empty_rule_cases (f_req f)) as [H|[H|H]]; rewrite H; reflexivity.
        + cbn [nonempty]. rewrite writeStringValue_text by discriminate.
          unfold apply_step; simpl. destruct (write_text conv_text conv_json rec_doc (f_ty f) (c :: v')); reflexivity.
      - (* api.no_body_struct *)
        destruct (f_ty f) as [c b|e|e|kk v|gs] eqn:Et; try reflexivity.
        rewrite nbs_request_spec. unfold apply_step, nbs_value. simpl.
        destruct (nbs_fields rq conv_text gs); simpl; reflexivity.
      - (* no source has a value *)
        cbn [negb]. unfold no_source_rule. destruct nobody.
        + rewrite write_empty_step. unfold empty_rule.
          rewrite (andb_comm (negb (o_wd o))), (andb_comm (negb (o_wo o))).
          destruct ((f_req f =? R_REQUIRED) && negb (o_wr o)) eqn:E1; [reflexivity|].
          destruct ((f_req f =? R_DEFAULT) && negb (o_wd o)) eqn:E2; [reflexivity|].
          destruct ((f_req f =? R_OPTIONAL) && negb (o_wo o)) eqn:E3; reflexivity.
        + destruct (o_rhf o); [reflexivity|]. rewrite write_empty_step.
          destruct (empty_rule_cases (f_req f)) as [H|[H|H]]; rewrite H; reflexivity.
    Qed.

    (* ---------------------------------------------------------------------------------------------- *)
    (* handleHttpMappings = the table's steps, in declaration order, with early exit                   *)
    (* ---------------------------------------------------------------------------------------------- *)
    Fixpoint fold_steps (nobody : bool) (l : list fdesc) (bm : bitmap) (buf : list (Z * tval)) : hstate :=
      match l with
      | [] => HSt bm buf
      | f :: rest => match apply_step (f_id f) (hhm_step nobody f) bm buf with
                     | HSt bm' buf' => fold_steps nobody rest bm' buf'
                     | HFail c => HFail c
                     end
      end.

    Lemma handleHttpMappings_spec : forall n nobody fs bm buf,
      handleHttpMappings o rq conv_text conv_json rec_doc (S n) nobody fs bm buf =
      fold_steps nobody (HttpMappingFields fs) bm buf.
    Proof.
      intros n nobody fs. unfold handleHttpMappings. induction (HttpMappingFields fs) as [|f r IH]; intros bm buf; simpl.
      - reflexivity.
      - rewrite hhm_field_spec. destruct (apply_step (f_id f) (hhm_step nobody f) bm buf); [apply IH | reflexivity].
    Qed.

    (* the requires bit a mapped field is left with, JSON body present: owed exactly when the decision is "fall back to the body" *)
    Lemma hhm_step_bit : forall f,
      snd (hhm_step false f) = Some (match map_field o false f rq with DFallbackToBody => true | _ => false end) \/
      map_field o false f rq = DSkipOwed.
    Proof.
      intros f. unfold hhm_step. destruct (map_field o false f rq); simpl; auto.
    Qed.

    Lemma map_field_body_not_skipowed : forall f, map_field o false f rq <> DSkipOwed.
    Proof.
      intros f. unfold map_field.
      destruct (first_source (f_anns f) (is_struct (f_ty f)) rq) as [[i [v|]]|].
      - destruct (nonempty v); [discriminate|]. destruct (empty_rule_cases (f_req f)) as [H|[H|H]]; rewrite H; discriminate.
      - discriminate.
      - unfold no_source_rule. destruct (o_rhf o); [discriminate|].
        destruct (empty_rule_cases (f_req f)) as [H|[H|H]]; rewrite H; discriminate.
    Qed.

    (* and the result the iteration writes is the table's field result (absent = nothing written) *)
    Lemma hhm_step_result : forall root ms f, f_anns f <> [] ->
      map_field o false f rq <> DFallbackToBody ->
      match fst (hhm_step false f) with Some r => r | None => FAbsent end =
      field_result o Spec rq conv_text conv_json rec_doc root false ms f.
    Proof.
      intros root ms f Hne Hnf. unfold field_result, hhm_step.
      assert (Hn : nonempty (f_anns f) = true) by (destruct (f_anns f); [contradiction | reflexivity]). rewrite Hn.
      destruct (map_field o false f rq) eqn:E; simpl; try reflexivity.
      - contradiction.
      - exfalso. eapply map_field_body_not_skipowed; exact E.
    Qed.

    (* ---------------------------------------------------------------------------------------------- *)
    (* the member loop: one member                                                                     *)
    (* ---------------------------------------------------------------------------------------------- *)
    Lemma members_step : forall fs k j rest bm buf ft,
      FieldByKey fs k = Some ft ->
      members_loop conv_json rec_member fs ((k, j) :: rest) bm buf =
      if nonempty (f_anns ft) && negb (bm (f_id ft)) then members_loop conv_json rec_member fs rest bm buf
      else match to_wres (f_id ft) (conv_value conv_json rec_member (f_ty ft) j) with
           | WOk w => members_loop conv_json rec_member fs rest (bm_set bm (f_id ft) false) (buf ++ w)
           | WErr c => HFail c
           end.
    Proof.
      intros fs k j rest bm buf ft H. simpl. rewrite H.
      destruct (nonempty (f_anns ft) && negb (bm (f_id ft))); [reflexivity|].
      rewrite conv_with_is_conv_value.
      destruct (conv_value conv_json rec_member (f_ty ft) j); simpl; try rewrite app_nil_r; reflexivity.
    Qed.

    (* ---------------------------------------------------------------------------------------------- *)
    (* owed fields at the end of the object                                                            *)
    (* ---------------------------------------------------------------------------------------------- *)
    Definition valid_req (f : fdesc) : Prop := f_req f = R_DEFAULT \/ f_req f = R_REQUIRED \/ f_req f = R_OPTIONAL.

    Lemma of_empty_rule_direct : forall f, valid_req f ->
      to_wres (f_id f) (of_empty_rule o (f_ty f) (f_req f)) =
      if negb (o_wr o) && (f_req f =? R_REQUIRED) then WErr E_MISS
      else if (o_wr o && (f_req f =? R_REQUIRED)) || (o_wd o && (f_req f =? R_DEFAULT)) || (o_wo o && (f_req f =? R_OPTIONAL))
           then WOk [(f_id f, zero_of (f_ty f))] else WOk [].
    Proof.
      intros f Hv. unfold of_empty_rule, empty_rule.
      destruct Hv as [H|[H|H]]; rewrite H; unfold R_DEFAULT, R_REQUIRED, R_OPTIONAL; simpl;
      destruct (o_wr o), (o_wd o), (o_wo o); reflexivity.
    Qed.

    (* portable: the HandleRequires callback of doRecurse (after 6ef907f) = the documented unset-field rule *)
    Lemma req_eqbs : forall f, valid_req f ->
      ((f_req f =? R_REQUIRED) = true /\ (f_req f =? R_DEFAULT) = false /\ (f_req f =? R_OPTIONAL) = false) \/
      ((f_req f =? R_REQUIRED) = false /\ (f_req f =? R_DEFAULT) = true /\ (f_req f =? R_OPTIONAL) = false) \/
      ((f_req f =? R_REQUIRED) = false /\ (f_req f =? R_DEFAULT) = false /\ (f_req f =? R_OPTIONAL) = true).
    Proof. intros f [H|[H|H]]; rewrite H; auto. Qed.

    Ltac unset_case E1 E2 E3 Ewr Ewd Ewo :=
      rewrite ?E1, ?E2, ?E3; simpl;
      first [ apply writeStringValue_seek
            | try rewrite writeStringValue_empty; cbv [of_empty_rule empty_rule]; rewrite ?E1, ?E2, ?E3, ?Ewr, ?Ewd, ?Ewo; simpl; reflexivity ].

    Lemma portable_unset_spec : forall root f, valid_req f ->
      HandleRequires_field (o_wr o || o_tb o) (o_wd o || (o_tb o && root)) (o_wo o || (o_tb o && root))
        (fun f => let '(val, enc) := if o_tb o && (root || (f_req f =? R_REQUIRED)) then tryGetValueFromHttp rq (f_name f) else ([], ENC_JSON) in
                  wsv f (SText_ val) enc) f =
      to_wres (f_id f) (unset_rule o Spec rq conv_text conv_json rec_doc root f).
    Proof.
      intros root f Hv. unfold HandleRequires_field, unset_rule.
      destruct (o_tb o) eqn:Etb, root, (o_wr o) eqn:Ewr, (o_wd o) eqn:Ewd, (o_wo o) eqn:Ewo;
      destruct (req_eqbs f Hv) as [(E1 & E2 & E3)|[(E1 & E2 & E3)|(E1 & E2 & E3)]]; unset_case E1 E2 E3 Ewr Ewd Ewo.
    Qed.

    (* empty body: the HandleRequires callback of do *)
    Lemma nobody_unset_spec : forall f, valid_req f -> f_req f <> R_OPTIONAL ->
      HandleRequires_field (o_rhf o) (o_rhf o) (o_rhf o)
        (fun f => let '(val, enc) := tryGetValueFromHttp rq (f_name f) in wsv f (SText_ val) enc) f =
      to_wres (f_id f) (nobody_unset_rule o rq conv_text conv_json rec_doc f).
    Proof.
      intros f Hv Hno. unfold HandleRequires_field, nobody_unset_rule.
      destruct (req_eqbs f Hv) as [(E1 & E2 & E3)|[(E1 & E2 & E3)|(E1 & E2 & E3)]];
      [ | | apply Z.eqb_eq in E3; contradiction ];
      destruct (o_rhf o); rewrite ?E1, ?E2, ?E3; simpl; first [apply writeStringValue_seek | reflexivity].
    Qed.

    (* native: j2t_write_unset_fields decides cache / direct, handleUnmatchedFields serves the cache: together the same rule,
       with root = (sp == 1 && top) *)
    Definition native_unset (docroot top : bool) (f : fdesc) : wres :=
      match write_unset_field o docroot f with
      | UDirect w => w
      | UCache => let '(val, enc) := if o_tb o && (top || (f_req f =? R_REQUIRED)) then tryGetValueFromHttp rq (f_name f) else ([], ENC_JSON) in
                  wsv f (SText_ val) enc
      end.

    Lemma native_unset_spec : forall docroot top f, valid_req f ->
      native_unset docroot top f = to_wres (f_id f) (unset_rule o Spec rq conv_text conv_json rec_doc (docroot && top) f).
    Proof.
      intros docroot top f Hv. unfold native_unset, write_unset_field, f_trace_back, unset_rule.
      destruct (o_tb o) eqn:Etb, (o_rhf o) eqn:Erhf, docroot, top, (o_wr o) eqn:Ewr, (o_wd o) eqn:Ewd, (o_wo o) eqn:Ewo;
      destruct (req_eqbs f Hv) as [(E1 & E2 & E3)|[(E1 & E2 & E3)|(E1 & E2 & E3)]]; unset_case E1 E2 E3 Ewr Ewd Ewo.
    Qed.

    (* every hand-back leaves fsm.FieldCache empty *)
    Lemma handleUnmatchedFields_resets_cache : forall top fs cache buf,
      snd (handleUnmatchedFields o rq conv_text conv_json rec_doc top fs cache buf) = [].
    Proof. reflexivity. Qed.

    (* the hand-back serves exactly the cached ids, in order, and nothing else *)
    Lemma unmatched_loop_spec : forall top fs cache buf,
      unmatched_loop o rq conv_text conv_json rec_doc top fs cache buf =
      wres_loop (fun f => let '(val, enc) := if o_tb o && (top || (f_req f =? R_REQUIRED)) then tryGetValueFromHttp rq (f_name f) else ([], ENC_JSON) in
                          wsv f (SText_ val) enc)
                (flat_map (fun id => match FieldById fs id with Some f => [f] | None => [] end) cache) buf.
    Proof.
      intros top fs cache. induction cache as [|id r IH]; intros buf; simpl.
      - reflexivity.
      - destruct (FieldById fs id) as [f|]; simpl; [|apply IH].
        destruct (if o_tb o && (top || (f_req f =? R_REQUIRED)) then tryGetValueFromHttp rq (f_name f) else ([], ENC_JSON)) as [val enc].
        destruct (wsv f (SText_ val) enc); [apply IH | reflexivity].
    Qed.
  End Level.
End Refine.

(* ================================================================================================== *)
(* response side                                                                                       *)
(* ================================================================================================== *)

(* what a successful Response does to the response object *)
Definition deliver (k : Z) (key v : list Z) (r : response) : response :=
  if k =? K_HEADER then SetHeader r key v
  else if k =? K_COOKIE then SetCookie r key v
  else if k =? K_HTTP_CODE then match atoi v with Some i => SetStatusCode r i | None => r end
  else if k =? K_RAW_BODY then SetRawBody r v
  else r.

Lemma hm_Response_spec : forall a r text,
  hm_Response a r text =
  match resp_ann a text with
  | RDeliver k key v => Some (deliver k key v r)
  | RNothing => Some r
  | RFail => None
  end.
Proof.
  intros a r text. unfold hm_Response, resp_ann, atoi_ok.
  destruct (a_kind a =? K_HEADER) eqn:E1; [reflexivity|].
  destruct (a_kind a =? K_COOKIE) eqn:E2; [reflexivity|].
  destruct (a_kind a =? K_HTTP_CODE) eqn:E3.
  - destruct (atoi text) eqn:Ea; [|reflexivity]. unfold deliver. simpl. rewrite Ea. reflexivity.
  - destruct (a_kind a =? K_RAW_BODY) eqn:E4; [reflexivity|].
    destruct (a_kind a =? K_RAW_URI); reflexivity.
Qed.

(* the mapping loop of writeHttpValue = resp_loop: first mapping whose Response succeeds wins; a failure is fatal unless
   OmitHttpMappingErrors *)
Lemma writeHttpValue_spec : forall o hms r text,
  writeHttpValue o hms r text =
  match resp_loop o hms text with
  | RODelivered k key v => WH true (deliver k key v r)
  | ROSwallowed => WH true r
  | ROError => WHErr
  | ROBody | RODropped => WH false r
  end.
Proof.
  intros o hms r text. induction hms as [|a rest IH]; simpl.
  - destruct (o_whf o); reflexivity.
  - rewrite hm_Response_spec. destruct (resp_ann a text); try reflexivity.
    destruct (o_omit o); [exact IH | reflexivity].
Qed.

(* a present field: omitted from the JSON body iff the table says so; delivered exactly where the table says *)
Lemma resp_loop_dropped : forall o hms text, resp_loop o hms text = RODropped -> o_whf o = false.
Proof.
  intros o hms text. induction hms as [|x xs IH]; simpl.
  - destruct (o_whf o); [discriminate | reflexivity].
  - destruct (resp_ann x text); try discriminate. destruct (o_omit o); [exact IH | discriminate].
Qed.

Lemma t2j_field_spec : forall o f r text,
  t2j_field o f r text =
  match resp_field o f text with
  | RODelivered k key v => TJ false (deliver k key v r)
  | ROSwallowed | RODropped => TJ false r
  | ROBody => TJ true r
  | ROError => TJErr
  end.
Proof.
  intros o f r text. unfold t2j_field, resp_field. destruct (f_anns f) as [|a rest]; [reflexivity|].
  cbn [nonempty]. rewrite writeHttpValue_spec.
  destruct (resp_loop o (a :: rest) text) eqn:El; try reflexivity.
  - rewrite orb_true_r. reflexivity.
  - rewrite orb_true_r. reflexivity.
  - apply resp_loop_body in El. destruct El as [Hw _]. rewrite Hw. reflexivity.
  - apply resp_loop_dropped in El. rewrite El. reflexivity.
Qed.

(* an absent owed field (handleUnsets): in the body unless a mapping took it *)
Lemma handleUnsets_field_spec : forall o f r text,
  handleUnsets_field o true f r text =
  match f_anns f with
  | [] => TJ true r
  | hms => match resp_loop o hms text with
           | RODelivered k key v => TJ false (deliver k key v r)
           | ROSwallowed => TJ false r
           | ROError => TJErr
           | ROBody | RODropped => TJ true r
           end
  end.
Proof.
  intros o f r text. unfold handleUnsets_field. destruct (f_anns f) as [|a rest]; [reflexivity|].
  rewrite writeHttpValue_spec. destruct (resp_loop o (a :: rest) text); reflexivity.
Qed.

(* cookie setter semantics: a delivery never removes or replaces a cookie that was set before; a cookie delivery adds exactly its
   own (name, value) line *)
Lemma deliver_cookies : forall k key v r,
  rs_cookies (deliver k key v r) = if k =? K_COOKIE then rs_cookies r ++ [(key, v)] else rs_cookies r.
Proof.
  intros k key v r. unfold deliver.
  destruct (k =? K_HEADER) eqn:E1; [apply Z.eqb_eq in E1; subst; reflexivity|].
  destruct (k =? K_COOKIE) eqn:E2; [reflexivity|].
  destruct (k =? K_HTTP_CODE); [destruct (atoi v); reflexivity|].
  destruct (k =? K_RAW_BODY); reflexivity.
Qed.

Lemma t2j_field_keeps_cookies : forall o f r text in_body r',
  t2j_field o f r text = TJ in_body r' -> exists l, rs_cookies r' = rs_cookies r ++ l.
Proof.
  intros o f r text ib r' H. rewrite t2j_field_spec in H.
  destruct (resp_field o f text); inversion H; subst; try (exists []; rewrite app_nil_r; reflexivity).
  rewrite deliver_cookies. destruct (kind =? K_COOKIE); [eexists; reflexivity | exists []; rewrite app_nil_r; reflexivity].
Qed.

(* the order of HTTPMappings(): today's mapAnnotations lists api.body last (finding 1714); repaired = the listed order *)
Lemma map_annotations_repaired : forall anns, map_annotations true anns = anns.
Proof. reflexivity. Qed.
