(* The transcription of the Go code (model/HttpMapCoded.v) refines the decision table (model/HttpMap.v). *)
From Coq Require Import ZArith List Bool Lia.
From DG Require Import ThriftWire Json Num HttpMap HttpMapProofs HttpMapCoded.
Import ListNotations.
Local Open Scope Z_scope.

Definition to_wres (id : Z) (r : fres) : wres :=
  match r with FValue v => WOk [(id, v)] | FAbsent => WOk [] | FError c => WErr c end.

Section Refine.
  Variable o : hopts.
  Variable rq : request.
  Variable conv_text : tdesc -> list Z -> option tval.
  Variable conv_json : tdesc -> json -> option tval.

  Notation hmR := (hm_Request rq conv_text).

  (* ------------------------------------------------------------------------------------------------ *)
  (* Request of one mapper = source_value of the table                                                 *)
  (* ------------------------------------------------------------------------------------------------ *)

  Lemma not_found_or_spec : forall v,
    not_found_or v = if nonempty v then ROk_ (SText_ v) else RErr_ E_NotFound.
  Proof. destruct v; reflexivity. Qed.

  (* what api.no_body_struct returns for a struct with fields gs, at nesting budget n *)
  Definition nbs_request (n : nat) (gs : list fdesc) : rres :=
    match n with
    | O => RErr_ E_Convert
    | S m => match nbs_fields_loop conv_text (hmR m) (HttpMappingFields gs) [] with
             | Some buf => ROk_ (SThrift (VStruct buf))
             | None => RErr_ E_Convert
             end
    end.

  Lemma hm_Request_spec : forall n a f,
    match source_value a (is_struct (f_ty f)) rq with
    | None => exists e, hmR n a f = RErr_ e /\ e <> E_Convert
    | Some (SText v) => hmR n a f = ROk_ (SText_ v) /\ a_kind a <> K_NO_BODY_STRUCT
    | Some SStruct => exists gs, f_ty f = TStruct gs /\ hmR n a f = nbs_request n gs /\ a_kind a = K_NO_BODY_STRUCT
    end.
  Proof.
    intros n [k key] f. unfold source_value, is_keyed, getter. cbn [a_kind a_key].
    assert (Hn : forall m, hm_Request rq conv_text m (Ann k key) f =
                 (let k0 := k in
                  if k0 =? K_QUERY then not_found_or (GetQuery rq key) else if k0 =? K_PATH then not_found_or (GetParam rq key)
                  else if k0 =? K_HEADER then not_found_or (GetHeader rq key) else if k0 =? K_COOKIE then not_found_or (GetCookie rq key)
                  else if k0 =? K_FORM then not_found_or (GetPostForm rq key) else if k0 =? K_BODY then not_found_or (GetMapBody rq key)
                  else if k0 =? K_RAW_BODY then ROk_ (SText_ (GetBody rq)) else if k0 =? K_RAW_URI then ROk_ (SText_ (GetUri rq))
                  else if k0 =? K_HTTP_CODE then RErr_ E_NotImplemented
                  else if k0 =? K_NO_BODY_STRUCT then
                    match f_ty f with TStruct gs => nbs_request m gs | _ => RErr_ E_Plain end
                  else RErr_ E_NotImplemented)).
    { intros m. destruct m; reflexivity. }
    rewrite Hn. cbv zeta. unfold GetQuery, GetParam, GetHeader, GetCookie, GetPostForm, GetMapBody, GetBody, GetUri.
    unfold K_QUERY, K_PATH, K_HEADER, K_COOKIE, K_FORM, K_BODY, K_RAW_BODY, K_RAW_URI, K_HTTP_CODE, K_NO_BODY_STRUCT.
    destruct (k =? 1) eqn:E1; [ apply Z.eqb_eq in E1; subst k; simpl; rewrite not_found_or_spec;
      destruct (nonempty (assoc key (rq_query rq))); [split; [reflexivity | discriminate] | eexists; split; [reflexivity | discriminate]] |].
    destruct (k =? 2) eqn:E2; [ apply Z.eqb_eq in E2; subst k; simpl; rewrite not_found_or_spec;
      destruct (nonempty (assoc key (rq_path rq))); [split; [reflexivity | discriminate] | eexists; split; [reflexivity | discriminate]] |].
    destruct (k =? 3) eqn:E3; [ apply Z.eqb_eq in E3; subst k; simpl; rewrite not_found_or_spec;
      destruct (nonempty (assoc key (rq_header rq))); [split; [reflexivity | discriminate] | eexists; split; [reflexivity | discriminate]] |].
    destruct (k =? 4) eqn:E4; [ apply Z.eqb_eq in E4; subst k; simpl; rewrite not_found_or_spec;
      destruct (nonempty (assoc key (rq_cookie rq))); [split; [reflexivity | discriminate] | eexists; split; [reflexivity | discriminate]] |].
    destruct (k =? 8) eqn:E8; [ apply Z.eqb_eq in E8; subst k; simpl; rewrite not_found_or_spec;
      destruct (nonempty (assoc key (rq_form rq))); [split; [reflexivity | discriminate] | eexists; split; [reflexivity | discriminate]] |].
    destruct (k =? 5) eqn:E5; [ apply Z.eqb_eq in E5; subst k; simpl; rewrite not_found_or_spec;
      destruct (nonempty (assoc key (rq_bodymap rq))); [split; [reflexivity | discriminate] | eexists; split; [reflexivity | discriminate]] |].
    simpl.
    destruct (k =? 7) eqn:E7; [ apply Z.eqb_eq in E7; subst k; split; [reflexivity | discriminate] |].
    destruct (k =? 9) eqn:E9; [ apply Z.eqb_eq in E9; subst k; split; [reflexivity | discriminate] |].
    destruct (k =? 6) eqn:E6; [ apply Z.eqb_eq in E6; subst k; simpl; eexists; split; [reflexivity | discriminate] |].
    destruct (k =? 10) eqn:E10.
    - apply Z.eqb_eq in E10; subst k. destruct (f_ty f) as [c b|e|e|kk v|gs]; simpl;
        try (eexists; split; [reflexivity | discriminate]).
      exists gs. repeat split.
    - eexists; split; [reflexivity | discriminate].
  Qed.

  (* ------------------------------------------------------------------------------------------------ *)
  (* the source loop = first_source                                                                    *)
  (* ------------------------------------------------------------------------------------------------ *)

  Definition loop_of_source (n : nat) (f : fdesc) (x : option (nat * srcval)) : loop_out :=
    match x with
    | None => LDone false (SText_ []) ENC_JSON
    | Some (_, SText v) => LDone true (SText_ v) ENC_JSON
    | Some (_, SStruct) =>
      match f_ty f with
      | TStruct gs => match nbs_request n gs with ROk_ v => LDone true v ENC_THRIFT | RErr_ _ => LAbort end
      | _ => LAbort
      end
    end.

  Lemma nbs_request_shape : forall n gs, (exists v, nbs_request n gs = ROk_ v) \/ nbs_request n gs = RErr_ E_Convert.
  Proof.
    intros n gs. destruct n; simpl; [right; reflexivity|].
    destruct (nbs_fields_loop _ _ _ _); [left; eexists; reflexivity | right; reflexivity].
  Qed.

  Lemma source_loop_spec : forall n f hms k,
    source_loop (hmR n) f hms false (SText_ []) ENC_JSON =
    loop_of_source n f (first_source_from k hms (is_struct (f_ty f)) rq).
  Proof.
    intros n f hms. induction hms as [|a r IH]; intros k; simpl.
    - reflexivity.
    - pose proof (hm_Request_spec n a f) as H.
      destruct (source_value a (is_struct (f_ty f)) rq) as [[v|]|].
      + destruct H as [H Hk]. rewrite H. simpl. unfold Encoding.
        destruct (a_kind a =? K_NO_BODY_STRUCT) eqn:E; [apply Z.eqb_eq in E; contradiction | reflexivity].
      + destruct H as (gs & Ht & H & Hk). rewrite H. simpl. rewrite Ht.
        destruct (nbs_request_shape n gs) as [[v Hv]|Hv]; rewrite Hv.
        * unfold Encoding. rewrite Hk. reflexivity.
        * reflexivity.
      + destruct H as (e & H & Hne). rewrite H. destruct e; try contradiction; apply IH.
  Qed.

  (* ------------------------------------------------------------------------------------------------ *)
  (* api.no_body_struct = nbs_fields / nbs_value of the table                                          *)
  (* ------------------------------------------------------------------------------------------------ *)

  Lemma nbs_fields_loop_spec : forall n gs buf,
    nbs_fields_loop conv_text (hmR n) (HttpMappingFields gs) buf =
    option_map (app buf) (nbs_fields rq conv_text gs).
  Proof.
    intros n gs. induction gs as [|g r IH]; intros buf; simpl.
    - rewrite app_nil_r. reflexivity.
    - unfold nbs_field. destruct (nonempty (f_anns g)) eqn:Eg; simpl.
      + unfold first_source. rewrite (source_loop_spec n g (f_anns g) O).
        destruct (first_source_from 0 (f_anns g) (is_struct (f_ty g)) rq) as [[i [v|]]|]; simpl.
        * destruct v as [|c v']; simpl.
          -- rewrite IH. destruct (nbs_fields rq conv_text r); simpl; [rewrite <- app_assoc; reflexivity | reflexivity].
          -- destruct (conv_text (f_ty g) (c :: v')); [|reflexivity].
             rewrite IH. destruct (nbs_fields rq conv_text r); simpl; [rewrite <- app_assoc; reflexivity | reflexivity].
        * destruct (f_ty g) as [c b|e|e|kk v|gs']; try reflexivity.
          destruct (nbs_request_shape n gs') as [[v Hv]|Hv]; rewrite Hv; [|reflexivity].
          assert (exists x, v = SThrift x) as [x ->].
          { destruct n; simpl in Hv; [discriminate|]. destruct (nbs_fields_loop _ _ _ _); inversion Hv. eexists; reflexivity. }
          reflexivity.
        * rewrite IH. destruct (nbs_fields rq conv_text r); simpl; [rewrite <- app_assoc; reflexivity | reflexivity].
      + rewrite IH. destruct (nbs_fields rq conv_text r); reflexivity.
  Qed.

  Lemma nbs_request_spec : forall n gs,
    nbs_request (S n) gs = match nbs_fields rq conv_text gs with Some l => ROk_ (SThrift (VStruct l)) | None => RErr_ E_Convert end.
  Proof.
    intros n gs. simpl. rewrite nbs_fields_loop_spec. destruct (nbs_fields rq conv_text gs); reflexivity.
  Qed.

  (* ------------------------------------------------------------------------------------------------ *)
  (* tryGetValueFromHttp = traceback_value                                                             *)
  (* ------------------------------------------------------------------------------------------------ *)
  Lemma tryGetValueFromHttp_spec : forall key, fst (tryGetValueFromHttp rq key) = traceback_value rq key.
  Proof.
    intros key. unfold tryGetValueFromHttp, traceback_value, getter, GetParam, GetQuery, GetHeader, GetCookie, GetMapBody. simpl.
    destruct (nonempty (assoc key (rq_path rq))); [reflexivity|].
    destruct (nonempty (assoc key (rq_query rq))); [reflexivity|].
    destruct (nonempty (assoc key (rq_header rq))); [reflexivity|].
    destruct (nonempty (assoc key (rq_cookie rq))); [reflexivity|].
    destruct (assoc key (rq_bodymap rq)); reflexivity.
  Qed.

  Lemma tryGetValueFromHttp_enc : forall key,
    snd (tryGetValueFromHttp rq key) = ENC_JSON \/ (fst (tryGetValueFromHttp rq key) = [] /\ snd (tryGetValueFromHttp rq key) = ENC_TEXT).
  Proof.
    intros key. unfold tryGetValueFromHttp.
    destruct (nonempty (GetParam rq key)); [left; reflexivity|].
    destruct (nonempty (GetQuery rq key)); [left; reflexivity|].
    destruct (nonempty (GetHeader rq key)); [left; reflexivity|].
    destruct (nonempty (GetCookie rq key)); [left; reflexivity|].
    destruct (nonempty (GetMapBody rq key)); [left; reflexivity | right; split; reflexivity].
  Qed.

  Section Level.
    Variable rec_member : list fdesc -> json -> fres.
    Variable rec_doc : list fdesc -> json -> fres.

    Notation wsv := (writeStringValue o conv_text conv_json rec_doc).

    Lemma conv_with_is_conv_value : forall rec t j, conv_with conv_json rec t j = conv_value conv_json rec t j.
    Proof. intros rec t j. destruct t; simpl; unfold of_opt; try destruct (conv_json _ j); reflexivity. Qed.

    (* ---------------------------------------------------------------------------------------------- *)
    (* writeStringValue = write_or_empty                                                               *)
    (* ---------------------------------------------------------------------------------------------- *)
    Lemma writeStringValue_empty : forall f enc,
      wsv f (SText_ []) enc = to_wres (f_id f) (of_empty_rule o (f_ty f) (f_req f)).
    Proof.
      intros f enc. unfold writeStringValue, of_empty_rule, empty_rule. simpl.
      rewrite (andb_comm (negb (o_wr o))), (andb_comm (negb (o_wo o))), (andb_comm (negb (o_wd o))).
      destruct ((f_req f =? R_REQUIRED) && negb (o_wr o)); [reflexivity|].
      destruct ((f_req f =? R_OPTIONAL) && negb (o_wo o)); [reflexivity|].
      destruct ((f_req f =? R_DEFAULT) && negb (o_wd o)); reflexivity.
    Qed.

    Lemma writeStringValue_text : forall f v, v <> [] ->
      wsv f (SText_ v) ENC_JSON = to_wres (f_id f) (write_text conv_text conv_json rec_doc (f_ty f) v).
    Proof.
      intros f v Hv. unfold writeStringValue, write_text.
      assert (gstr_empty (SText_ v) = false) as -> by (destruct v; [contradiction | reflexivity]).
      change (ENC_JSON =? ENC_THRIFT) with false. change (ENC_JSON =? ENC_TEXT) with false. simpl orb.
      destruct (negb (is_complex (f_ty f)) || negb (is_json_string v)).
      - unfold of_opt. destruct (conv_text (f_ty f) v); reflexivity.
      - destruct (json_parse v); [|reflexivity]. rewrite conv_with_is_conv_value.
        destruct (conv_value conv_json rec_doc (f_ty f) j); reflexivity.
    Qed.

    Lemma writeStringValue_seek : forall f,
      (let '(val, enc) := tryGetValueFromHttp rq (f_name f) in wsv f (SText_ val) enc) =
      to_wres (f_id f) (write_or_empty o conv_text conv_json rec_doc (f_ty f) (f_req f) (traceback_value rq (f_name f))).
    Proof.
      intros f. rewrite <- tryGetValueFromHttp_spec.
      pose proof (tryGetValueFromHttp_enc (f_name f)) as He.
      destruct (tryGetValueFromHttp rq (f_name f)) as [val enc]. simpl in *.
      unfold write_or_empty. destruct val as [|c r].
      - apply writeStringValue_empty.
      - destruct He as [He|[He _]]; [|discriminate]. subst enc. apply writeStringValue_text. discriminate.
    Qed.

    (* ---------------------------------------------------------------------------------------------- *)
    (* one iteration of handleHttpMappings = the decision of the table                                 *)
    (* ---------------------------------------------------------------------------------------------- *)

    (* what the table says the iteration does: the field's result if it is decided here, and the requires bit afterwards
       (None: the bit is left as it was) *)
    Definition hhm_step (nobody : bool) (f : fdesc) : option fres * option bool :=
      match map_field o nobody f rq with
      | DWrite _ v => (Some (write_text conv_text conv_json rec_doc (f_ty f) v), Some false)
      | DWriteStruct _ => (Some (nbs_value rq conv_text (f_ty f)), Some false)
      | DWriteDefaultOrEmpty => (Some (FValue (zero_of (f_ty f))), Some false)
      | DError c => (Some (FError c), Some false)
      | DFallbackToBody => (None, Some true)
      | DSkipOwed => (None, None)
      | DSkip => (None, if nobody && match first_source (f_anns f) (is_struct (f_ty f)) rq with None => true | _ => false end
                        then None else Some false)
      end.

    Definition apply_step (id : Z) (s : option fres * option bool) (bm : bitmap) (buf : list (Z * tval)) : hstate :=
      let bm' := match snd s with Some b => bm_set bm id b | None => bm end in
      match fst s with
      | None => HSt bm' buf
      | Some r => match to_wres id r with WOk w => HSt bm' (buf ++ w) | WErr c => HFail c end
      end.

    Lemma empty_rule_cases : forall r,
      empty_rule o r = DError E_MISS \/ empty_rule o r = DSkip \/ empty_rule o r = DWriteDefaultOrEmpty.
    Proof.
      intros r. unfold empty_rule.
      destruct ((r =? R_REQUIRED) && negb (o_wr o)); [left; reflexivity|].
      destruct ((r =? R_OPTIONAL) && negb (o_wo o)); [right; left; reflexivity|].
      destruct ((r =? R_DEFAULT) && negb (o_wd o)); [right; left; reflexivity | right; right; reflexivity].
    Qed.

    (* the write path of handleHttpMappings with val == "" *)
    Lemma write_empty_step : forall f enc bm buf,
      match wsv f (SText_ []) enc with
      | WOk w => HSt (bm_set bm (f_id f) false) (buf ++ w)
      | WErr c => HFail c
      end =
      apply_step (f_id f)
        (match empty_rule o (f_req f) with
         | DError c => (Some (FError c), Some false)
         | DWriteDefaultOrEmpty => (Some (FValue (zero_of (f_ty f))), Some false)
         | _ => (None, Some false)
         end) bm buf.
    Proof.
      intros f enc bm buf. rewrite writeStringValue_empty. unfold of_empty_rule, apply_step.
      destruct (empty_rule_cases (f_req f)) as [H|[H|H]]; rewrite H; simpl; try rewrite app_nil_r; reflexivity.
    Qed.

    Lemma hhm_field_spec : forall n nobody f bm buf,
      hhm_field o rq conv_text conv_json rec_doc (S n) nobody f bm buf = apply_step (f_id f) (hhm_step nobody f) bm buf.
    Proof.
      intros n nobody f bm buf. unfold hhm_field, hhm_step, map_field, first_source.
      rewrite (source_loop_spec (S n) f (f_anns f) O).
      destruct (first_source_from 0 (f_anns f) (is_struct (f_ty f)) rq) as [[i [v|]]|]; cbn [loop_of_source].
      - (* a text source *)
        cbn [negb]. destruct v as [|c v'].
        + cbn [nonempty]. rewrite write_empty_step. rewrite andb_false_r.
          destruct (empty_rule_cases (f_req f)) as [H|[H|H]]; rewrite H; reflexivity.
        + cbn [nonempty]. rewrite writeStringValue_text by discriminate.
          unfold apply_step; simpl. destruct (write_text conv_text conv_json rec_doc (f_ty f) (c :: v')); reflexivity.
      - (* api.no_body_struct *)
        destruct (f_ty f) as [c b|e|e|kk v|gs] eqn:Et; try reflexivity.
        rewrite nbs_request_spec. unfold apply_step, nbs_value. simpl.
        destruct (nbs_fields rq conv_text gs); simpl; reflexivity.
      - (* no source has a value *)
        cbn [negb]. unfold no_source_rule. destruct nobody.
        + rewrite write_empty_step. unfold empty_rule.
          rewrite (andb_comm (negb (o_wd o))), (andb_comm (negb (o_wo o))).
          destruct ((f_req f =? R_REQUIRED) && negb (o_wr o)) eqn:E1; [reflexivity|].
          destruct ((f_req f =? R_DEFAULT) && negb (o_wd o)) eqn:E2; [reflexivity|].
          destruct ((f_req f =? R_OPTIONAL) && negb (o_wo o)) eqn:E3; reflexivity.
        + destruct (o_rhf o); [reflexivity|]. rewrite write_empty_step.
          destruct (empty_rule_cases (f_req f)) as [H|[H|H]]; rewrite H; reflexivity.
    Qed.
  End Level.
End Refine.
