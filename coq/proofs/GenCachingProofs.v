(* (G) C14: the hash and the trie bucket function of the model are the ones in the Go source
   (coq/gen/Gen_caching.v is regenerated from internal/caching/{hashing,trie}.go on every run). *)
From Coq Require Import ZArith List Bool Lia.
From DG Require Import GoSem GoSemLemmas GenThriftProofs CaseFormat Lookup Gen_caching.
Import ListNotations.
Local Open Scope Z_scope.

Theorem ascii2Int_is_ascii2int c : 0 <= c < 256 -> Gen_caching.ascii2Int c = ascii2int c.
Proof. intros H. apply Z.eqb_eq. revert c H. apply byte_sweep. vm_compute. reflexivity. Qed.

Lemma fold_left_map {A B C} (g : A -> C -> A) (h : B -> C) l a :
  fold_left g (map h l) a = fold_left (fun a n => g a (h n)) l a.
Proof. revert a. induction l as [|x l IH]; intros a; simpl; [reflexivity|apply IH]. Qed.

Lemma fold_left_ext {A B} (f g : A -> B -> A) l a : (forall a b, f a b = g a b) -> fold_left f l a = fold_left g l a.
Proof. intros H. revert a. induction l as [|x l IH]; intros a; simpl; [reflexivity|]. rewrite H. apply IH. Qed.

Lemma fold_index_nat {A} (f : A -> Z -> A) k : forall pre a0,
  fold_left (fun a n => f a (nth n (pre ++ k) 0)) (seq (length pre) (length k)) a0 = fold_left f k a0.
Proof.
  induction k as [|x k IH]; intros pre a0; [reflexivity|]. cbn [length seq fold_left].
  rewrite nth_middle. specialize (IH (pre ++ [x]) (f a0 x)). rewrite <- app_assoc in IH. cbn [app] in IH.
  rewrite app_length in IH. cbn [length] in IH. rewrite Nat.add_1_r in IH. exact IH.
Qed.

Lemma fold_index {A} (f : A -> Z -> A) k a0 :
  fold_left (fun a i => f a (idx k i)) (seqZ 0 (blen k)) a0 = fold_left f k a0.
Proof.
  unfold seqZ, blen. rewrite Z.sub_0_r, Nat2Z.id, fold_left_map.
  rewrite <- (fold_index_nat f k [] a0). apply fold_left_ext. intros a n. unfold idx. cbn [app length].
  rewrite Z.add_0_l, Nat2Z.id. reflexivity.
Qed.

Lemma djb_step h c : wrapu 32 (wrapu 32 (wrapu 32 (Z.shiftl h 5) + h) + c) = (h * 33 + c) mod 4294967296.
Proof.
  unfold wrapu. rewrite Z.shiftl_mul_pow2 by lia. change (2 ^ 32) with 4294967296. change (2 ^ 5) with 32.
  rewrite Zplus_mod_idemp_l. rewrite <- Z.add_assoc. rewrite Zplus_mod_idemp_l. f_equal. lia.
Qed.

(* for every byte string (indeed every list of integers) *)
Theorem DJBHash32_is_djb k : Gen_caching.DJBHash32 k = djb k.
Proof.
  unfold DJBHash32, djb. rewrite <- (fold_index (fun h c => (h * 33 + c) mod 4294967296) k 5381).
  apply fold_left_ext. intros a b. apply djb_step.
Qed.
