(* C02 — token-level facts about the portable JSON -> Thrift walk (model/J2TWalk.v) on the canonical text of a JSON AST:
   string literals (skipString, unquoteBytes incl. UTF-8), plain integers (decodeInt64 / ParseInt), base64 filter, peek. *)
From Coq Require Import ZArith List Bool Lia.
From DG Require Import ProtoWireRef ThriftWire Json JsonProofs Num NumProofs F64Exact Base64 Base64Proofs J2T J2TWalk.
Import ListNotations.
Local Open Scope Z_scope.

(* ------------------------------------------------------------------ decode_value / peek dispatch *)

Lemma dv_str : forall t, decode_value (34 :: t) =
  match skip_string (34 :: t) with Some (l, e, t') => Some (TkStr l e, t') | None => None end.
Proof. reflexivity. Qed.
Lemma dv_obj : forall t, decode_value (123 :: t) = Some (TkObj, t).
Proof. reflexivity. Qed.
Lemma dv_arr : forall t, decode_value (91 :: t) = Some (TkArr, t).
Proof. reflexivity. Qed.
Lemma dv_null : forall t, decode_value (lit_null ++ t) = Some (TkNull, t).
Proof. reflexivity. Qed.
Lemma dv_true : forall t, decode_value (lit_true ++ t) = Some (TkTrue, t).
Proof. reflexivity. Qed.
Lemma dv_false : forall t, decode_value (lit_false ++ t) = Some (TkFalse, t).
Proof. reflexivity. Qed.

Lemma dv_num : forall c t, (c = 45 \/ 48 <= c <= 57) -> decode_value (c :: t) = decode_number (c :: t).
Proof.
  intros c t Hc. unfold decode_value, skip_blank. cbn [skip_ws]. unfold is_ws.
  destruct (Z.eqb_spec c 32); [lia|]. destruct (Z.eqb_spec c 9); [lia|].
  destruct (Z.eqb_spec c 10); [lia|]. destruct (Z.eqb_spec c 13); [lia|]. cbn [orb].
  destruct (Z.eqb_spec c 110); [lia|]. destruct (Z.eqb_spec c 34); [lia|]. destruct (Z.eqb_spec c 123); [lia|].
  destruct (Z.eqb_spec c 91); [lia|]. destruct (Z.eqb_spec c 116); [lia|]. destruct (Z.eqb_spec c 102); [lia|].
  assert (E : (c =? 45) || (c =? 43) || is_digit c = true).
  { destruct Hc as [->|Hc]; [reflexivity|]. apply is_digit_range in Hc. rewrite Hc. apply orb_true_r. }
  rewrite E. reflexivity.
Qed.

Lemma peek_comma : forall t, peek (44 :: t) = Some (PComma, 44 :: t).
Proof. reflexivity. Qed.
Lemma peek_colon : forall t, peek (58 :: t) = Some (PColon, 58 :: t).
Proof. reflexivity. Qed.
Lemma peek_endarr : forall t, peek (93 :: t) = Some (PEndArr, 93 :: t).
Proof. reflexivity. Qed.
Lemma peek_endobj : forall t, peek (125 :: t) = Some (PEndObj, 125 :: t).
Proof. reflexivity. Qed.
Lemma peek_quote : forall t, peek (34 :: t) = Some (PString, 34 :: t).
Proof. reflexivity. Qed.

(* the first byte of a printed value is not a closing bracket: the "empty container" test of the walk fails *)
Lemma peek_starts_not_end : forall bs X, starts_value bs ->
  forall (A : Type) (f g : list Z -> A) (d : A),
    match peek (bs ++ X) with Some (PEndArr, _ :: r') => f r' | _ => d end = d /\
    match peek (bs ++ X) with Some (PEndObj, _ :: r') => g r' | _ => d end = d.
Proof.
  intros bs X (c & t & -> & Hw & H93 & H125) A f g d. cbn [app]. unfold peek, skip_blank. cbn [skip_ws]. rewrite Hw, H93, H125.
  repeat match goal with |- context [if ?b then _ else _] => destruct b end; split; reflexivity.
Qed.

(* ------------------------------------------------------------------ strings: skipString *)

Definition needs_esc (c : Z) : bool := (c =? 34) || (c =? 92) || (c <? 32).

Lemma esc_byte_plain : forall c, needs_esc c = false -> esc_byte c = [c].
Proof.
  intros c H. unfold needs_esc in H. apply orb_false_iff in H. destruct H as [H H3]. apply orb_false_iff in H. destruct H as [H1 H2].
  unfold esc_byte. rewrite H1, H2, H3. apply Z.ltb_ge in H3.
  destruct (Z.eqb_spec c 10); [lia|]. destruct (Z.eqb_spec c 13); [lia|]. destruct (Z.eqb_spec c 9); [lia|]. reflexivity.
Qed.

Lemma needs_esc_hi : forall c, 35 <= c -> c <> 92 -> needs_esc c = false.
Proof.
  intros c H1 H2. unfold needs_esc. destruct (Z.eqb_spec c 34); [lia|]. destruct (Z.eqb_spec c 92); [lia|].
  destruct (Z.ltb_spec c 32); [lia|]. reflexivity.
Qed.

Lemma scan_str_plain : forall c r, (c =? 92) = false -> (c =? 34) = false ->
  scan_str (c :: r) = match scan_str r with Some (l, e, t) => Some (c :: l, e, t) | None => None end.
Proof. intros c r H1 H2. cbn [scan_str]. rewrite H1, H2. reflexivity. Qed.

Lemma scan_str_bs : forall x r,
  scan_str (92 :: x :: r) = match scan_str r with Some (l, _, t) => Some (92 :: x :: l, true, t) | None => None end.
Proof. reflexivity. Qed.

Definition scan_esc_stmt (c : Z) : Prop := forall rest,
  scan_str (esc_byte c ++ rest) =
  match scan_str rest with Some (l, e, t) => Some (esc_byte c ++ l, needs_esc c || e, t) | None => None end.

Lemma scan_esc_small : forall c, 0 <= c < Z.of_nat 35 -> scan_esc_stmt c.
Proof.
  apply (Z_range_Forall scan_esc_stmt).
  let l := eval vm_compute in (map Z.of_nat (seq 0 35)) in change (map Z.of_nat (seq 0 35)) with l.
  repeat (apply Forall_cons;
    [ match goal with |- scan_esc_stmt ?c =>
        let e := eval vm_compute in (esc_byte c) in
        let n := eval vm_compute in (needs_esc c) in
        unfold scan_esc_stmt; intros rest; change (esc_byte c) with e; change (needs_esc c) with n
      end;
      cbn [app]; rewrite ?scan_str_bs; repeat (rewrite scan_str_plain by reflexivity);
      destruct (scan_str rest) as [[[l e] t]|]; reflexivity |]).
  apply Forall_nil.
Qed.

Lemma scan_esc_byte : forall c, 0 <= c < 256 -> scan_esc_stmt c.
Proof.
  intros c Hc. destruct (Z.lt_ge_cases c 35) as [Hs|Hb]; [apply scan_esc_small; cbn; lia|].
  destruct (Z.eq_dec c 92) as [->|H92].
  - intros rest. change (esc_byte 92) with [92; 92]. cbn [app]. rewrite scan_str_bs.
    destruct (scan_str rest) as [[[l e] t]|]; reflexivity.
  - intros rest. rewrite (needs_esc_hi c Hb H92), (esc_byte_plain c (needs_esc_hi c Hb H92)). cbn [app orb].
    rewrite scan_str_plain; [reflexivity| |]; apply Z.eqb_neq; lia.
Qed.

Lemma scan_str_escape : forall s r, jbytes_okb s = true ->
  scan_str (escape s ++ 34 :: r) = Some (escape s ++ [34], existsb needs_esc s, r).
Proof.
  induction s as [|c t IH]; intros r Hok; [reflexivity|].
  cbn in Hok. apply andb_true_iff in Hok. destruct Hok as [Hc Ht]. apply jbyte_okb_range in Hc.
  unfold escape. cbn [flat_map existsb]. fold (escape t). rewrite <- !app_assoc.
  rewrite (scan_esc_byte c Hc). rewrite (IH r Ht). reflexivity.
Qed.

Lemma skip_string_quote : forall s r, jbytes_okb s = true ->
  skip_string (quote_ref s ++ r) = Some (quote_ref s, existsb needs_esc s, r).
Proof.
  intros s r Hok. unfold quote_ref. cbn [app]. rewrite <- app_assoc. cbn [app].
  pose proof (scan_str_escape s r Hok) as H.
  destruct (escape s ++ 34 :: r) as [|a q] eqn:E; [destruct (escape s); discriminate|].
  cbn [skip_string]. rewrite H. reflexivity.
Qed.

Lemma decode_value_quote : forall s r, jbytes_okb s = true ->
  decode_value (quote_ref s ++ r) = Some (TkStr (quote_ref s) (existsb needs_esc s), r).
Proof.
  intros s r Hok. pose proof (skip_string_quote s r Hok) as H. unfold quote_ref in *. cbn [app] in *.
  rewrite dv_str, H. reflexivity.
Qed.

(* ------------------------------------------------------------------ strings: unquoteBytes *)

Lemma escape_plain : forall s, existsb needs_esc s = false -> escape s = s.
Proof.
  induction s as [|c t IH]; intros H; [reflexivity|]. cbn [existsb] in H. apply orb_false_iff in H. destruct H as [Hc Ht].
  unfold escape. cbn [flat_map]. fold (escape t). rewrite (esc_byte_plain c Hc), (IH Ht). reflexivity.
Qed.

Definition unq_esc_stmt (c : Z) : Prop := forall f rest, unq_body (S f) (esc_byte c ++ rest) = app_opt [c] (unq_body f rest).

Lemma unq_esc_small : forall c, 0 <= c < Z.of_nat 35 -> unq_esc_stmt c.
Proof.
  apply (Z_range_Forall unq_esc_stmt).
  let l := eval vm_compute in (map Z.of_nat (seq 0 35)) in change (map Z.of_nat (seq 0 35)) with l.
  repeat (apply Forall_cons; [intros f rest; reflexivity|]). apply Forall_nil.
Qed.

Lemma unq_body_S : forall f c r, unq_body (S f) (c :: r) =
  if c =? 92 then
    match r with
    | [] => None
    | e :: r2 =>
      if e =? 117 then
        match getu4 (c :: r) with
        | None => None
        | Some (rr, r3) =>
          if (55296 <=? rr) && (rr <=? 57343) then
            match getu4 r3 with
            | Some (rr1, r4) =>
              if is_hi_sur rr && is_lo_sur rr1
              then app_opt (utf8_enc (65536 + (rr - 55296) * 1024 + (rr1 - 56320))) (unq_body f r4)
              else app_opt rune_error (unq_body f r3)
            | None => app_opt rune_error (unq_body f r3)
            end
          else app_opt (utf8_enc rr) (unq_body f r3)
        end
      else if (e =? 34) || (e =? 92) || (e =? 47) || (e =? 39) then app_opt [e] (unq_body f r2)
      else if e =? 98 then app_opt [8] (unq_body f r2) else if e =? 102 then app_opt [12] (unq_body f r2)
      else if e =? 110 then app_opt [10] (unq_body f r2) else if e =? 114 then app_opt [13] (unq_body f r2)
      else if e =? 116 then app_opt [9] (unq_body f r2)
      else None
    end
  else if (c =? 34) || (c <? 32) then None
  else if c <? 128 then app_opt [c] (unq_body f r)
  else match utf8_seq (c :: r) with
       | O => app_opt rune_error (unq_body f r)
       | n => app_opt (firstn n (c :: r)) (unq_body f (skipn n (c :: r)))
       end.
Proof. reflexivity. Qed.

Lemma unq_ascii : forall c, 0 <= c < 128 -> unq_esc_stmt c.
Proof.
  intros c Hc. destruct (Z.lt_ge_cases c 35) as [Hs|Hb]; [apply unq_esc_small; cbn; lia|].
  destruct (Z.eq_dec c 92) as [->|H92]; [intros f rest; reflexivity|].
  intros f rest. rewrite (esc_byte_plain c (needs_esc_hi c Hb H92)). cbn [app]. rewrite unq_body_S.
  destruct (Z.eqb_spec c 92); [lia|]. destruct (Z.eqb_spec c 34); [lia|]. destruct (Z.ltb_spec c 32); [lia|].
  destruct (Z.ltb_spec c 128); [|lia]. reflexivity.
Qed.

Lemma unq_hi : forall f c r, 128 <= c ->
  unq_body (S f) (c :: r) =
  match utf8_seq (c :: r) with
  | O => app_opt rune_error (unq_body f r)
  | n => app_opt (firstn n (c :: r)) (unq_body f (skipn n (c :: r)))
  end.
Proof.
  intros f c r Hc. rewrite unq_body_S.
  destruct (Z.eqb_spec c 92); [lia|]. destruct (Z.eqb_spec c 34); [lia|]. destruct (Z.ltb_spec c 32); [lia|].
  destruct (Z.ltb_spec c 128); [lia|]. reflexivity.
Qed.

Lemma esc_byte_hi : forall c, 128 <= c -> esc_byte c = [c].
Proof. intros c H. apply esc_byte_plain. apply needs_esc_hi; lia. Qed.

Lemma is_cont_hi : forall c, is_cont c = true -> 128 <= c.
Proof. intros c H. unfold is_cont in H. apply andb_true_iff in H. destruct H as [H _]. apply Z.leb_le in H. exact H. Qed.

Lemma escape_cons_hi : forall c t, 128 <= c -> escape (c :: t) = c :: escape t.
Proof. intros c t H. unfold escape. cbn [flat_map]. rewrite (esc_byte_hi c H). reflexivity. Qed.

Lemma unq_escape : forall n s, (length s <= n)%nat -> jbytes_okb s = true -> utf8_valid s = true ->
  forall fuel, (length s < fuel)%nat -> unq_body fuel (escape s) = Some s.
Proof.
  induction n as [|n IH]; intros s Hn Hok Hu fuel Hf.
  - destruct s; [|cbn in Hn; lia]. destruct fuel; [lia|]. reflexivity.
  - destruct s as [|c r]; [destruct fuel; [lia|]; reflexivity|].
    destruct fuel as [|f]; [lia|]. cbn [length] in Hn, Hf.
    pose proof Hok as Hok'. cbn [jbytes_okb forallb] in Hok'. apply andb_true_iff in Hok'. destruct Hok' as [Hc Hr].
    apply jbyte_okb_range in Hc. fold (jbytes_okb r) in Hr.
    cbn [utf8_valid] in Hu.
    destruct ((0 <=? c) && (c <? 128)) eqn:A.
    { apply andb_true_iff in A. destruct A as [A1 A2]. apply Z.leb_le in A1. apply Z.ltb_lt in A2.
      unfold escape. cbn [flat_map]. fold (escape r). rewrite (unq_ascii c (conj A1 A2)).
      rewrite (IH r); [reflexivity|lia|exact Hr|exact Hu|lia]. }
    assert (Hc128 : 128 <= c).
    { apply andb_false_iff in A. destruct A as [A|A]; [apply Z.leb_gt in A; lia|apply Z.ltb_ge in A; exact A]. }
    destruct r as [|c2 r2]; [discriminate|].
    cbn [jbytes_okb forallb] in Hr. apply andb_true_iff in Hr. destruct Hr as [Hc2 Hr2]. fold (jbytes_okb r2) in Hr2.
    cbn [length] in Hn, Hf.
    destruct ((194 <=? c) && (c <=? 223)) eqn:B.
    { apply andb_true_iff in Hu. destruct Hu as [Hk2 Hu2]. pose proof (is_cont_hi c2 Hk2) as H2.
      rewrite (escape_cons_hi c _ Hc128), (escape_cons_hi c2 _ H2). rewrite (unq_hi f c _ Hc128).
      cbn [utf8_seq]. rewrite B, Hk2. cbn [firstn skipn].
      rewrite (IH r2); [reflexivity|lia|exact Hr2|exact Hu2|lia]. }
    destruct r2 as [|c3 r3]; [discriminate|].
    cbn [jbytes_okb forallb] in Hr2. apply andb_true_iff in Hr2. destruct Hr2 as [Hc3 Hr3]. fold (jbytes_okb r3) in Hr3.
    cbn [length] in Hn, Hf.
    destruct ((224 <=? c) && (c <=? 239)) eqn:C.
    { apply andb_true_iff in Hu. destruct Hu as [Hu Hu3]. apply andb_true_iff in Hu. destruct Hu as [Hk2 Hk3].
      assert (H2 : 128 <= c2).
      { destruct (c =? 224); [|destruct (c =? 237)].
        - apply andb_true_iff in Hk2. destruct Hk2 as [Hk2 _]. apply Z.leb_le in Hk2. lia.
        - apply andb_true_iff in Hk2. destruct Hk2 as [Hk2 _]. apply Z.leb_le in Hk2. lia.
        - apply is_cont_hi. exact Hk2. }
      pose proof (is_cont_hi c3 Hk3) as H3.
      rewrite (escape_cons_hi c _ Hc128), (escape_cons_hi c2 _ H2), (escape_cons_hi c3 _ H3). rewrite (unq_hi f c _ Hc128).
      cbn [utf8_seq]. rewrite B, C, Hk2, Hk3. cbn [andb firstn skipn].
      rewrite (IH r3); [reflexivity|lia|exact Hr3|exact Hu3|lia]. }
    destruct r3 as [|c4 r4]; [discriminate|].
    cbn [jbytes_okb forallb] in Hr3. apply andb_true_iff in Hr3. destruct Hr3 as [Hc4 Hr4]. fold (jbytes_okb r4) in Hr4.
    cbn [length] in Hn, Hf.
    destruct ((240 <=? c) && (c <=? 244)) eqn:E; [|discriminate].
    apply andb_true_iff in Hu. destruct Hu as [Hu Hu4]. apply andb_true_iff in Hu. destruct Hu as [Hu Hk4].
    apply andb_true_iff in Hu. destruct Hu as [Hk2 Hk3].
    assert (H2 : 128 <= c2).
    { destruct (c =? 240); [|destruct (c =? 244)].
      - apply andb_true_iff in Hk2. destruct Hk2 as [Hk2 _]. apply Z.leb_le in Hk2. lia.
      - apply andb_true_iff in Hk2. destruct Hk2 as [Hk2 _]. apply Z.leb_le in Hk2. lia.
      - apply is_cont_hi. exact Hk2. }
    pose proof (is_cont_hi c3 Hk3) as H3. pose proof (is_cont_hi c4 Hk4) as H4.
    rewrite (escape_cons_hi c _ Hc128), (escape_cons_hi c2 _ H2), (escape_cons_hi c3 _ H3), (escape_cons_hi c4 _ H4).
    rewrite (unq_hi f c _ Hc128).
    cbn [utf8_seq]. rewrite B, C, E, Hk2, Hk3, Hk4. cbn [andb firstn skipn].
    rewrite (IH r4); [reflexivity|lia|exact Hr4|exact Hu4|lia].
Qed.

Lemma go_unquote_quote : forall s, jbytes_okb s = true -> utf8_valid s = true -> go_unquote (quote_ref s) = Some s.
Proof.
  intros s Hok Hu. unfold quote_ref, go_unquote.
  destruct (escape s ++ [34]) as [|a q] eqn:E; [destruct (escape s); discriminate|].
  rewrite <- E. rewrite last_last, removelast_last. cbn [Z.eqb Pos.eqb andb].
  apply (unq_escape (length s) s (le_n _) Hok Hu).
  rewrite app_length. pose proof (escape_length s). cbn [length]. lia.
Qed.

Lemma tok_string_quote : forall s, jbytes_okb s = true -> utf8_valid s = true ->
  tok_string (quote_ref s) (existsb needs_esc s) = Some s.
Proof.
  intros s Hok Hu. unfold tok_string. destruct (existsb needs_esc s) eqn:E.
  - apply go_unquote_quote; assumption.
  - unfold lit_middle, quote_ref. cbn [tl]. rewrite removelast_last, (escape_plain s E). reflexivity.
Qed.

(* ------------------------------------------------------------------ base64: CR / LF never occur in a decodable text *)

Lemma b64_val_not_crlf : forall c v, b64_val c = Some v -> negb ((c =? 13) || (c =? 10)) = true.
Proof.
  intros c v H. destruct (Z.eqb_spec c 13) as [->|]; [discriminate H|]. destruct (Z.eqb_spec c 10) as [->|]; [discriminate H|]. reflexivity.
Qed.

Lemma b64_filter_id : forall n x b, (length x <= n)%nat -> b64_decode x = Some b ->
  filter (fun c => negb ((c =? 13) || (c =? 10))) x = x.
Proof.
  induction n as [|n IH]; intros x b Hn H.
  - destruct x; [reflexivity|cbn in Hn; lia].
  - destruct x as [|c1 [|c2 [|c3 [|c4 r]]]]; try discriminate H; [reflexivity|].
    cbn [b64_decode] in H.
    destruct (b64_val c1) as [v1|] eqn:E1; [|discriminate]. destruct (b64_val c2) as [v2|] eqn:E2; [|discriminate].
    cbn [filter]. rewrite (b64_val_not_crlf _ _ E1), (b64_val_not_crlf _ _ E2).
    destruct (Z.eqb_spec c3 61) as [->|N3].
    + destruct (Z.eqb_spec c4 61) as [->|]; [|discriminate]. cbn [andb] in H. destruct r; [|discriminate]. reflexivity.
    + destruct (b64_val c3) as [v3|] eqn:E3; [|discriminate]. rewrite (b64_val_not_crlf _ _ E3).
      destruct (Z.eqb_spec c4 61) as [->|N4].
      * destruct r; [|discriminate]. reflexivity.
      * destruct (b64_val c4) as [v4|] eqn:E4; [|discriminate]. rewrite (b64_val_not_crlf _ _ E4).
        destruct (b64_decode r) as [t|] eqn:Er; [|discriminate].
        rewrite (IH r t); [reflexivity| |exact Er]. cbn [length] in Hn. lia.
Qed.

Lemma go_b64_decode : forall x b, b64_decode x = Some b -> go_b64 x = Some b.
Proof. intros x b H. unfold go_b64. rewrite (b64_filter_id (length x) x b (le_n _) H). exact H. Qed.

(* ------------------------------------------------------------------ plain integers *)

Lemma scan_digits_only : forall t st l', (st = NZero \/ st = NInt) -> scan_num st t = Some (l', []) ->
  forallb (fun c => is_digit c || (c =? 45)) t = true -> forallb is_digit t = true.
Proof.
  induction t as [|c t IH]; intros st l' Hst Hs Hd; [reflexivity|].
  cbn [forallb] in Hd |- *. apply andb_true_iff in Hd. destruct Hd as [Hc Ht].
  cbn [scan_num] in Hs.
  destruct (is_digit c) eqn:Dg.
  - cbn [andb]. destruct Hst as [-> | ->]; cbn [num_step] in Hs.
    + apply is_digit_range in Dg. destruct (Z.eqb_spec c 46); [lia|]. unfold is_e in Hs.
      destruct (Z.eqb_spec c 101); [lia|]. destruct (Z.eqb_spec c 69); [lia|]. cbn in Hs. discriminate.
    + rewrite Dg in Hs. destruct (scan_num NInt t) as [[l1 r1]|] eqn:E; [|discriminate]. injection Hs as _ ->.
      apply (IH NInt l1); auto.
  - cbn [orb] in Hc. apply Z.eqb_eq in Hc. subst c. destruct Hst as [-> | ->]; cbn in Hs; discriminate.
Qed.

Lemma plain_int_shape : forall l, lex_is_plain_int l = true ->
  exists (neg : bool) ds, l = (if neg then [45] else []) ++ ds /\ forallb is_digit ds = true /\ ds <> [].
Proof.
  intros l H. unfold lex_is_plain_int in H. apply andb_true_iff in H. destruct H as [Hok Hall].
  unfold num_okb in Hok. destruct (scan_num N0 l) as [[l' r']|] eqn:E; [|discriminate]. destruct r'; [|discriminate].
  destruct l as [|c t]; [discriminate|]. cbn [scan_num num_step] in E.
  cbn [forallb] in Hall. apply andb_true_iff in Hall. destruct Hall as [Hc Ht].
  destruct (Z.eqb_spec c 45) as [->|N45].
  - destruct (scan_num NMinus t) as [[l1 r1]|] eqn:E1; [|discriminate]. injection E as _ ->.
    destruct t as [|d t']; [discriminate|]. cbn [scan_num num_step] in E1.
    cbn [forallb] in Ht. apply andb_true_iff in Ht. destruct Ht as [Hd Ht'].
    exists true, (d :: t'). split; [reflexivity|]. split; [|discriminate].
    destruct (Z.eqb_spec d 48) as [->|N48].
    + destruct (scan_num NZero t') as [[l2 r2]|] eqn:E2; [|discriminate]. injection E1 as _ ->.
      cbn [forallb]. rewrite (scan_digits_only t' NZero l2 (or_introl eq_refl) E2 Ht'). reflexivity.
    + destruct (is_digit d) eqn:Dd; [|cbn in E1; discriminate].
      destruct (scan_num NInt t') as [[l2 r2]|] eqn:E2; [|discriminate]. injection E1 as _ ->.
      cbn [forallb]. rewrite Dd, (scan_digits_only t' NInt l2 (or_intror eq_refl) E2 Ht'). reflexivity.
  - exists false, (c :: t). split; [reflexivity|]. split; [|discriminate].
    destruct (Z.eqb_spec c 48) as [->|N48].
    + destruct (scan_num NZero t) as [[l2 r2]|] eqn:E2; [|discriminate]. injection E as _ ->.
      cbn [forallb]. rewrite (scan_digits_only t NZero l2 (or_introl eq_refl) E2 Ht). reflexivity.
    + destruct (is_digit c) eqn:Dd; [|cbn in E; discriminate].
      destruct (scan_num NInt t) as [[l2 r2]|] eqn:E2; [|discriminate]. injection E as _ ->.
      cbn [forallb]. rewrite Dd, (scan_digits_only t NInt l2 (or_intror eq_refl) E2 Ht). reflexivity.
Qed.

Lemma parse_int_shape : forall (neg : bool) ds, forallb is_digit ds = true -> ds <> [] ->
  parse_int ((if neg then [45] else []) ++ ds) = Some (if neg then - digits_val ds 0 else digits_val ds 0).
Proof.
  intros neg ds Hd Hne. destruct neg; cbn [app].
  - unfold parse_int. rewrite Z.eqb_refl. rewrite (span_digits_all ds Hd). destruct ds; [contradiction|reflexivity].
  - apply parse_int_digits; assumption.
Qed.

Lemma go_parse_int_shape : forall (neg : bool) ds, forallb is_digit ds = true -> ds <> [] ->
  in_i64 (if neg then - digits_val ds 0 else digits_val ds 0) = true ->
  go_parse_int ((if neg then [45] else []) ++ ds) = Some (if neg then - digits_val ds 0 else digits_val ds 0).
Proof.
  intros neg ds Hd Hne Hin. destruct neg; cbn [app]; unfold go_parse_int.
  - rewrite Z.eqb_refl. rewrite (span_digits_all ds Hd). destruct ds; [contradiction|]. rewrite Hin. reflexivity.
  - destruct ds as [|d t]; [contradiction|].
    assert (Hd0 : is_digit d = true) by (cbn in Hd; apply andb_true_iff in Hd; tauto).
    apply is_digit_range in Hd0.
    destruct (Z.eqb_spec d 45) as [E|_]; [lia|]. destruct (Z.eqb_spec d 43) as [E|_]; [lia|].
    rewrite (span_digits_all _ Hd). rewrite Hin. reflexivity.
Qed.

Lemma go_parse_int_plain : forall l z, lex_is_plain_int l = true -> parse_int l = Some z -> in_i64 z = true ->
  go_parse_int l = Some z.
Proof.
  intros l z Hp Hz Hin. destruct (plain_int_shape l Hp) as (neg & ds & -> & Hd & Hne).
  rewrite (parse_int_shape neg ds Hd Hne) in Hz. injection Hz as <-. apply go_parse_int_shape; assumption.
Qed.

Lemma stop_not_digit : forall r, stop r = true -> match r with [] => True | c :: _ => is_digit c = false end.
Proof.
  intros [|c r] H; [exact I|]. cbn [stop] in H. apply negb_true_iff in H. unfold is_numchar in H.
  destruct (is_digit c); [discriminate|reflexivity].
Qed.

Lemma stop_not_dot_e : forall r, stop r = true -> match r with c :: _ => (c =? 46) || is_e c | [] => false end = false.
Proof.
  intros [|c r] H; [reflexivity|]. cbn [stop] in H. apply negb_true_iff in H. unfold is_numchar in H.
  destruct (is_digit c); [discriminate|]. destruct (c =? 45); [discriminate|]. destruct (c =? 43); [discriminate|].
  destruct (c =? 46); [discriminate|]. cbn [orb] in H |- *. exact H.
Qed.

Lemma decode_number_shape : forall (neg : bool) ds r, forallb is_digit ds = true -> ds <> [] -> stop r = true ->
  in_i64 (if neg then - digits_val ds 0 else digits_val ds 0) = true ->
  decode_number (((if neg then [45] else []) ++ ds) ++ r) = Some (TkInt (if neg then - digits_val ds 0 else digits_val ds 0), r).
Proof.
  intros neg ds r Hd Hne Hr Hin.
  pose proof (span_digits_app_stop ds r Hd (stop_not_digit r Hr)) as Hsp.
  pose proof (stop_not_dot_e r Hr) as Hde.
  destruct neg; cbn [app]; unfold decode_number.
  - rewrite Z.eqb_refl. rewrite Hsp.
    destruct (ds ++ r) as [|a q] eqn:E; [destruct ds; [contradiction|discriminate]|].
    rewrite Hde. destruct ds as [|d t]; [contradiction|]. rewrite Hin. reflexivity.
  - destruct ds as [|d t]; [contradiction|]. cbn [app].
    assert (Hd0 : is_digit d = true) by (cbn in Hd; apply andb_true_iff in Hd; tauto).
    apply is_digit_range in Hd0. destruct (Z.eqb_spec d 45) as [E|_]; [lia|].
    change (d :: t ++ r) with ((d :: t) ++ r). rewrite Hsp. rewrite Hde. rewrite Hin. reflexivity.
Qed.

Lemma decode_number_plain : forall l r z, lex_is_plain_int l = true -> stop r = true -> parse_int l = Some z ->
  in_i64 z = true -> decode_number (l ++ r) = Some (TkInt z, r).
Proof.
  intros l r z Hp Hr Hz Hin. destruct (plain_int_shape l Hp) as (neg & ds & -> & Hd & Hne).
  rewrite (parse_int_shape neg ds Hd Hne) in Hz. injection Hz as <-. apply decode_number_shape; assumption.
Qed.

Lemma decode_value_plain : forall l r z, lex_is_plain_int l = true -> stop r = true -> parse_int l = Some z ->
  in_i64 z = true -> decode_value (l ++ r) = Some (TkInt z, r).
Proof.
  intros l r z Hp Hr Hz Hin. pose proof (decode_number_plain l r z Hp Hr Hz Hin) as H.
  assert (Hok : num_okb l = true) by (unfold lex_is_plain_int in Hp; apply andb_true_iff in Hp; tauto).
  destruct (num_ok_head l Hok) as (c & t & -> & Hc). cbn [app] in *. rewrite (dv_num c _ Hc). exact H.
Qed.

Lemma in_sb_i64 : forall k z, (k = 8 \/ k = 16 \/ k = 32 \/ k = 64) -> in_sb k z = true -> in_i64 z = true.
Proof.
  intros k z Hk H. unfold in_i64, in_sb in *. apply andb_true_iff in H. destruct H as [H1 H2].
  apply Z.leb_le in H1. apply Z.ltb_lt in H2. apply andb_true_iff. rewrite Z.leb_le, Z.ltb_lt.
  assert (E64 : 2 ^ (64 - 1) = 9223372036854775808) by reflexivity. rewrite E64.
  destruct Hk as [-> | [-> | [-> | ->]]].
  - assert (E : 2 ^ (8 - 1) = 128) by reflexivity. rewrite E in *. lia.
  - assert (E : 2 ^ (16 - 1) = 32768) by reflexivity. rewrite E in *. lia.
  - assert (E : 2 ^ (32 - 1) = 2147483648) by reflexivity. rewrite E in *. lia.
  - rewrite E64 in *. lia.
Qed.

Lemma int_width_k : forall t n k, int_width t = Some (n, k) -> k = 8 \/ k = 16 \/ k = 32 \/ k = 64.
Proof. intros t n k H. destruct t; cbn in H; try discriminate; inversion H; subst; auto. Qed.

Lemma num_strict_plain_inv : forall t l b, is_int_ty t = true -> lex_is_plain_int l = true -> num_strict t l = Ok b ->
  exists n k z, int_width t = Some (n, k) /\ parse_int l = Some z /\ in_sb k z = true /\ b = enc_int n z.
Proof.
  intros t l b Ht Hp H. unfold num_strict in H.
  assert (Hok : num_okb l = true) by (unfold lex_is_plain_int in Hp; apply andb_true_iff in Hp; tauto).
  rewrite Hok, Hp in H. cbn [negb] in H.
  destruct t; try discriminate Ht; cbn [int_width] in *;
    (destruct (parse_int l) as [z|]; [|discriminate]); (destruct (in_sb _ z) eqn:Hin; [|discriminate]);
    injection H as <-; do 3 eexists; repeat split; eassumption.
Qed.

Lemma write_int_width : forall t n k z, int_width t = Some (n, k) -> write_int t z = enc_int n z.
Proof. intros t n k z H. unfold write_int. rewrite H. reflexivity. Qed.

(* ================================================================== SkipValue on canonical text
   (skipString / skipPair / skipNumber accept every printed value and stop right after it) *)
Module WSkip.
(* ------------------------------------------------------------------ strings *)

Definition needs_esc (c : Z) : bool := (c <? 32) || (c =? 34) || (c =? 92).

Definition scan_after (c : Z) (x : option (list Z * bool * list Z)) : option (list Z * bool * list Z) :=
  match x with
  | Some (l, e, t) => Some (esc_byte c ++ l, (if needs_esc c then true else e), t)
  | None => None
  end.

Lemma esc_byte_big : forall c, 35 <= c -> c <> 92 -> esc_byte c = [c].
Proof.
  intros c H1 H2. unfold esc_byte.
  destruct (Z.eqb_spec c 34); [lia|]. destruct (Z.eqb_spec c 92); [lia|].
  destruct (Z.eqb_spec c 10); [lia|]. destruct (Z.eqb_spec c 13); [lia|]. destruct (Z.eqb_spec c 9); [lia|].
  destruct (Z.ltb_spec c 32); [lia|]. reflexivity.
Qed.

Lemma scan_str_esc_small : forall c, 0 <= c < Z.of_nat 35 ->
  forall rest, scan_str (esc_byte c ++ rest) = scan_after c (scan_str rest).
Proof.
  apply (Z_range_Forall (fun c => forall rest, scan_str (esc_byte c ++ rest) = scan_after c (scan_str rest))).
  let l := eval vm_compute in (map Z.of_nat (seq 0 35)) in change (map Z.of_nat (seq 0 35)) with l.
  repeat (apply Forall_cons;
    [intros rest; unfold scan_after;
     match goal with |- context [esc_byte ?c] => let v := eval vm_compute in (esc_byte c) in change (esc_byte c) with v end;
     simpl; destruct (scan_str rest) as [[[l e] t]|]; reflexivity|]).
  apply Forall_nil.
Qed.

Lemma scan_str_esc_byte : forall c, 0 <= c < 256 ->
  forall rest, scan_str (esc_byte c ++ rest) = scan_after c (scan_str rest).
Proof.
  intros c Hc rest.
  destruct (Z.lt_ge_cases c 35) as [Hs|Hb]; [apply scan_str_esc_small; cbn; lia|].
  destruct (Z.eq_dec c 92) as [->|H92].
  { unfold scan_after. simpl. destruct (scan_str rest) as [[[l e] t]|]; reflexivity. }
  assert (Hn : needs_esc c = false).
  { unfold needs_esc. destruct (Z.ltb_spec c 32); [lia|]. destruct (Z.eqb_spec c 34); [lia|].
    destruct (Z.eqb_spec c 92); [lia|]. reflexivity. }
  unfold scan_after. rewrite Hn, (esc_byte_big c Hb H92). cbn [app scan_str].
  destruct (Z.eqb_spec c 92); [lia|]. destruct (Z.eqb_spec c 34); [lia|].
  destruct (scan_str rest) as [[[l e] t]|]; reflexivity.
Qed.

Lemma scan_str_escape : forall s r, jbytes_okb s = true ->
  exists e, scan_str (escape s ++ 34 :: r) = Some (escape s ++ [34], e, r).
Proof.
  induction s as [|c t IH]; intros r Hok.
  - exists false. reflexivity.
  - cbn in Hok. apply andb_true_iff in Hok. destruct Hok as [Hc Ht]. apply jbyte_okb_range in Hc.
    destruct (IH r Ht) as [e He].
    exists (if needs_esc c then true else e).
    unfold escape. cbn [flat_map]. fold (escape t).
    rewrite <- !app_assoc. rewrite (scan_str_esc_byte c Hc), He. reflexivity.
Qed.

Lemma skip_string_quote : forall s r, jbytes_okb s = true ->
  exists e, skip_string (quote_ref s ++ r) = Some (quote_ref s, e, r).
Proof.
  intros s r Hok. destruct (scan_str_escape s r Hok) as [e He]. exists e.
  unfold quote_ref. cbn [app]. rewrite <- app_assoc. cbn [app].
  destruct (escape s ++ 34 :: r) as [|z w] eqn:E.
  { apply app_eq_nil in E. destruct E; discriminate. }
  cbn [skip_string]. rewrite He. reflexivity.
Qed.

(* ------------------------------------------------------------------ skipPair: bracket counting *)

Definition bpair (l rc : Z) : Prop := (l = 91 /\ rc = 93) \/ (l = 123 /\ rc = 125).

(* inside a string literal every byte except backslash and quote is passed over *)
Lemma sp_inq_plain : forall l rc n c rest, c <> 92 -> c <> 34 ->
  skip_pair l rc n true (c :: rest) = skip_pair l rc n true rest.
Proof.
  intros l rc n c rest H1 H2. cbn [skip_pair].
  destruct (Z.eqb_spec c 92); [lia|]. destruct (Z.eqb_spec c 34); [lia|].
  cbn [negb]. rewrite !andb_false_r. reflexivity.
Qed.

Lemma sp_bs : forall l rc n inq x rest, skip_pair l rc n inq (92 :: x :: rest) = skip_pair l rc n inq rest.
Proof. reflexivity. Qed.

Lemma sp_esc_small : forall c, 0 <= c < Z.of_nat 35 ->
  forall l rc n rest, skip_pair l rc n true (esc_byte c ++ rest) = skip_pair l rc n true rest.
Proof.
  apply (Z_range_Forall (fun c => forall l rc n rest, skip_pair l rc n true (esc_byte c ++ rest) = skip_pair l rc n true rest)).
  let l := eval vm_compute in (map Z.of_nat (seq 0 35)) in change (map Z.of_nat (seq 0 35)) with l.
  repeat (apply Forall_cons;
    [intros l rc n rest;
     match goal with |- context [esc_byte ?c] => let v := eval vm_compute in (esc_byte c) in change (esc_byte c) with v end;
     cbn [app]; rewrite ?sp_bs; rewrite ?sp_inq_plain by discriminate; reflexivity|]).
  apply Forall_nil.
Qed.

Lemma sp_esc_byte : forall c, 0 <= c < 256 ->
  forall l rc n rest, skip_pair l rc n true (esc_byte c ++ rest) = skip_pair l rc n true rest.
Proof.
  intros c Hc l rc n rest.
  destruct (Z.lt_ge_cases c 35) as [Hs|Hb]; [apply sp_esc_small; cbn; lia|].
  destruct (Z.eq_dec c 92) as [->|H92]; [reflexivity|].
  rewrite (esc_byte_big c Hb H92). cbn [app]. apply sp_inq_plain; lia.
Qed.

Lemma sp_escape : forall s l rc n rest, jbytes_okb s = true ->
  skip_pair l rc n true (escape s ++ rest) = skip_pair l rc n true rest.
Proof.
  induction s as [|c t IH]; intros l rc n rest Hok; [reflexivity|].
  cbn in Hok. apply andb_true_iff in Hok. destruct Hok as [Hc Ht]. apply jbyte_okb_range in Hc.
  unfold escape. cbn [flat_map]. fold (escape t). rewrite <- app_assoc.
  rewrite (sp_esc_byte c Hc). apply IH. exact Ht.
Qed.

(* a whole string literal, met outside a string, is passed over *)
Lemma sp_quote : forall s l rc n rest, jbytes_okb s = true ->
  skip_pair l rc n false (quote_ref s ++ rest) = skip_pair l rc n false rest.
Proof.
  intros s l rc n rest Hok. unfold quote_ref. cbn [app]. rewrite <- app_assoc. cbn [app].
  change (skip_pair l rc n false (34 :: escape s ++ 34 :: rest)) with (skip_pair l rc n true (escape s ++ 34 :: rest)).
  rewrite (sp_escape s l rc n _ Hok). reflexivity.
Qed.

(* outside a string: a byte that is no backslash, quote or counted bracket is passed over *)
Lemma sp_plain : forall l rc n inq c rest, c <> 92 -> c <> 34 -> c <> l -> c <> rc ->
  skip_pair l rc n inq (c :: rest) = skip_pair l rc n inq rest.
Proof.
  intros l rc n inq c rest H1 H2 H3 H4. cbn [skip_pair].
  destruct (Z.eqb_spec c 92); [lia|]. destruct (Z.eqb_spec c 34); [lia|].
  destruct (Z.eqb_spec c l); [lia|]. destruct (Z.eqb_spec c rc); [lia|]. reflexivity.
Qed.

Lemma numchar_cases : forall c, is_numchar c = true -> 48 <= c <= 57 \/ c = 45 \/ c = 43 \/ c = 46 \/ c = 101 \/ c = 69.
Proof.
  intros c H. unfold is_numchar, is_digit, is_e in H.
  rewrite !orb_true_iff, andb_true_iff, !Z.leb_le, !Z.eqb_eq in H. lia.
Qed.

Lemma sp_numchar : forall l rc, bpair l rc -> forall n inq c rest, is_numchar c = true ->
  skip_pair l rc n inq (c :: rest) = skip_pair l rc n inq rest.
Proof.
  intros l rc Hp n inq c rest H. apply numchar_cases in H.
  destruct Hp as [[-> ->]|[-> ->]]; apply sp_plain; lia.
Qed.

Lemma scan_num_numchars : forall l st l', scan_num st l = Some (l', []) -> Forall (fun c => is_numchar c = true) l.
Proof.
  induction l as [|c t IH]; intros st l' H; [constructor|].
  cbn [scan_num] in H. destruct (num_step st c) as [st'|] eqn:E.
  - destruct (scan_num st' t) as [[l1 r1]|] eqn:E2; [|discriminate].
    inversion H; subst. constructor; [exact (num_step_numchar _ _ _ E)|exact (IH _ _ E2)].
  - destruct (num_acc st); discriminate.
Qed.

Lemma sp_lex : forall l rc, bpair l rc -> forall lex n inq rest, num_okb lex = true ->
  skip_pair l rc n inq (lex ++ rest) = skip_pair l rc n inq rest.
Proof.
  intros l rc Hp lex n inq rest H. unfold num_okb in H.
  destruct (scan_num N0 lex) as [[l' r']|] eqn:E; [|discriminate]. destruct r'; [|discriminate].
  apply scan_num_numchars in E. clear H.
  induction E as [|c t Hc _ IH]; [reflexivity|].
  cbn [app]. rewrite (sp_numchar l rc Hp n inq c _ Hc). exact IH.
Qed.

(* the statement for one value *)
Definition SP (x : json) : Prop :=
  json_wf x = true -> forall l rc, bpair l rc -> forall n rest,
  skip_pair l rc (S n) false (json_print x ++ rest) = skip_pair l rc (S n) false rest.

Lemma sp_tail : forall ys, Forall SP ys -> forallb json_wf ys = true ->
  forall close l rc, bpair l rc -> forall n rest,
  skip_pair l rc (S n) false (print_tail json_print close ys ++ rest) = skip_pair l rc (S n) false (close :: rest).
Proof.
  induction ys as [|y ys IH]; intros Hall Hw close l rc Hp n rest; [reflexivity|].
  inversion Hall as [|? ? Hy Hys]; subst.
  cbn [forallb] in Hw. apply andb_true_iff in Hw. destruct Hw as [Wy Wys].
  cbn [print_tail app]. rewrite <- app_assoc.
  rewrite sp_plain by (destruct Hp as [[-> ->]|[-> ->]]; lia).
  rewrite (Hy Wy l rc Hp). apply IH; assumption.
Qed.

Lemma sp_mtail : forall ms, Forall (fun m => SP (snd m)) ms ->
  forallb (fun m => jbytes_okb (fst m) && json_wf (snd m)) ms = true ->
  forall l rc, bpair l rc -> forall n rest,
  skip_pair l rc (S n) false (print_mtail json_print ms ++ rest) = skip_pair l rc (S n) false (125 :: rest).
Proof.
  induction ms as [|[k y] ms IH]; intros Hall Hw l rc Hp n rest; [reflexivity|].
  inversion Hall as [|? ? Hy Hys]; subst.
  cbn [forallb fst snd] in Hw. apply andb_true_iff in Hw. destruct Hw as [Wm Wms].
  apply andb_true_iff in Wm. destruct Wm as [Wk Wy]. cbn [snd] in Hy.
  cbn [print_mtail app]. unfold print_member. cbn [fst snd]. rewrite <- !app_assoc. cbn [app].
  rewrite sp_plain by (destruct Hp as [[-> ->]|[-> ->]]; lia).
  rewrite (sp_quote k l rc (S n) _ Wk).
  rewrite sp_plain by (destruct Hp as [[-> ->]|[-> ->]]; lia).
  rewrite (Hy Wy l rc Hp). apply IH; assumption.
Qed.

Lemma skip_pair_print_SP : forall x, SP x.
Proof.
  induction x as [| b | lex | s | xs IHxs | ms IHms] using json_ind'; intros Hw l rc Hp n rest.
  - destruct Hp as [[-> ->]|[-> ->]]; reflexivity.
  - destruct Hp as [[-> ->]|[-> ->]]; destruct b; reflexivity.
  - cbn [json_print json_wf] in *. apply sp_lex; assumption.
  - cbn [json_print json_wf] in *. apply sp_quote; assumption.
  - cbn [json_print json_wf] in *.
    destruct xs as [|x xs].
    + destruct Hp as [[-> ->]|[-> ->]]; reflexivity.
    + inversion IHxs as [|? ? Hx Hxs]; subst.
      cbn [forallb] in Hw. apply andb_true_iff in Hw. destruct Hw as [Wx Wxs].
      cbn [app]. rewrite <- app_assoc.
      destruct Hp as [[-> ->]|[-> ->]].
      * change (skip_pair 91 93 (S n) false (91 :: json_print x ++ print_tail json_print 93 xs ++ rest))
          with (skip_pair 91 93 (S (S n)) false (json_print x ++ print_tail json_print 93 xs ++ rest)).
        rewrite (Hx Wx 91 93 (or_introl (conj eq_refl eq_refl))).
        rewrite (sp_tail xs Hxs Wxs 93 91 93 (or_introl (conj eq_refl eq_refl))). reflexivity.
      * change (skip_pair 123 125 (S n) false (91 :: json_print x ++ print_tail json_print 93 xs ++ rest))
          with (skip_pair 123 125 (S n) false (json_print x ++ print_tail json_print 93 xs ++ rest)).
        rewrite (Hx Wx 123 125 (or_intror (conj eq_refl eq_refl))).
        rewrite (sp_tail xs Hxs Wxs 93 123 125 (or_intror (conj eq_refl eq_refl))). reflexivity.
  - cbn [json_print json_wf] in *.
    destruct ms as [|[k x] ms].
    + destruct Hp as [[-> ->]|[-> ->]]; reflexivity.
    + inversion IHms as [|? ? Hx Hms]; subst. cbn [snd] in Hx.
      cbn [forallb fst snd] in Hw. apply andb_true_iff in Hw. destruct Hw as [Wm Wms].
      apply andb_true_iff in Wm. destruct Wm as [Wk Wx].
      unfold print_member. cbn [fst snd app]. rewrite <- !app_assoc. cbn [app].
      destruct Hp as [[-> ->]|[-> ->]].
      * change (skip_pair 91 93 (S n) false (123 :: quote_ref k ++ 58 :: json_print x ++ print_mtail json_print ms ++ rest))
          with (skip_pair 91 93 (S n) false (quote_ref k ++ 58 :: json_print x ++ print_mtail json_print ms ++ rest)).
        rewrite (sp_quote k 91 93 (S n) _ Wk).
        rewrite sp_plain by lia.
        rewrite (Hx Wx 91 93 (or_introl (conj eq_refl eq_refl))).
        rewrite (sp_mtail ms Hms Wms 91 93 (or_introl (conj eq_refl eq_refl))). reflexivity.
      * change (skip_pair 123 125 (S n) false (123 :: quote_ref k ++ 58 :: json_print x ++ print_mtail json_print ms ++ rest))
          with (skip_pair 123 125 (S (S n)) false (quote_ref k ++ 58 :: json_print x ++ print_mtail json_print ms ++ rest)).
        rewrite (sp_quote k 123 125 (S (S n)) _ Wk).
        rewrite sp_plain by lia.
        rewrite (Hx Wx 123 125 (or_intror (conj eq_refl eq_refl))).
        rewrite (sp_mtail ms Hms Wms 123 125 (or_intror (conj eq_refl eq_refl))). reflexivity.
Qed.

Lemma skip_pair_print : forall x, json_wf x = true ->
  forall l rc, (l = 91 /\ rc = 93) \/ (l = 123 /\ rc = 125) ->
  forall n rest, skip_pair l rc (S n) false (json_print x ++ rest) = skip_pair l rc (S n) false rest.
Proof. exact skip_pair_print_SP. Qed.

(* ------------------------------------------------------------------ numbers: skipNumber's flag machine follows the DFA *)

Definition cflags (c : Z) (d b46 be b45 b43 : bool) : Prop :=
  is_digit c = d /\ (c =? 46) = b46 /\ is_e c = be /\ (c =? 45) = b45 /\ (c =? 43) = b43.

Lemma cclass_of : forall c,
  cflags c true false false false false \/
  ((c =? 48) = false /\
   (cflags c false true false false false \/ cflags c false false true false false \/
    cflags c false false false true false \/ cflags c false false false false true \/
    cflags c false false false false false)).
Proof.
  intros c. unfold cflags, is_digit, is_e.
  destruct (Z.eqb_spec c 46); destruct (Z.eqb_spec c 101); destruct (Z.eqb_spec c 69);
  destruct (Z.eqb_spec c 45); destruct (Z.eqb_spec c 43); destruct (Z.eqb_spec c 48);
  destruct (Z.leb_spec 48 c); destruct (Z.leb_spec c 57); try lia; cbn [andb orb]; tauto.
Qed.

(* the flags skipNumber holds in each DFA state; p = a decimal point was seen, prev = the previous byte *)
Definition sk (st : nst) (p : bool) (prev : Z) : list Z -> option (list Z) :=
  match st with
  | N0 | NMinus => skip_num true false false false true prev
  | NZero | NInt => skip_num false false false true false prev
  | NDot => skip_num false true false false true prev
  | NFrac => skip_num false true false true false prev
  | NE => skip_num false p true false false prev
  | NESign => skip_num false p true false true prev
  | NExp => skip_num false p true true false prev
  end.

Lemma sk_end : forall st p prev r, num_acc st = true -> stop r = true -> sk st p prev r = Some r.
Proof.
  intros st p prev r Ha Hr. destruct r as [|c r].
  - destruct st; try discriminate Ha; reflexivity.
  - cbn [stop] in Hr. apply negb_true_iff in Hr. unfold is_numchar in Hr.
    destruct (cclass_of c) as [F|[_ [F|[F|[F|[F|F]]]]]]; destruct F as (D & E46 & Ee & E45 & E43);
      rewrite D, E46, Ee, E45, E43 in Hr; try discriminate Hr.
    destruct st; try discriminate Ha; cbn [sk skip_num]; rewrite D, E46, Ee, E45, E43; reflexivity.
Qed.

Lemma app_ne_match : forall (t r : list Z) (y : option (list Z)),
  t <> [] -> match t ++ r with [] => None | _ :: _ => y end = y.
Proof. intros t r y H. destruct t; [congruence|reflexivity]. Qed.

Lemma sk_sim : forall l st l' p prev r,
  scan_num st l = Some (l', []) -> stop r = true ->
  (st = NE -> is_e prev = true) -> st <> N0 ->
  sk st p prev (l ++ r) = Some r.
Proof.
  induction l as [|c t IH]; intros st l' p prev r Hs Hr Hprev Hn0.
  - cbn [scan_num] in Hs. destruct (num_acc st) eqn:Ha; [|discriminate]. cbn [app]. apply sk_end; assumption.
  - cbn [scan_num] in Hs. destruct (num_step st c) as [st'|] eqn:E; [|destruct (num_acc st); discriminate].
    destruct (scan_num st' t) as [[l1 r1]|] eqn:E2; [|discriminate].
    assert (r1 = []) by (inversion Hs; reflexivity). subst r1. clear Hs.
    change ((c :: t) ++ r) with (c :: (t ++ r)).
    destruct (cclass_of c) as [F|[E48 [F|[F|[F|[F|F]]]]]]; destruct F as (D & E46 & Ee & E45 & E43);
      destruct st; try congruence; cbn [num_step] in E;
      rewrite ?D, ?E46, ?Ee, ?E45, ?E43, ?E48 in E; cbn [orb] in E; try discriminate E.
    all: try match type of E with context [?x =? 48] => destruct (x =? 48) end.
    all: inversion E; subst st'; clear E.
    all: cbn [sk skip_num]; rewrite ?D, ?E46, ?Ee, ?E45, ?E43; try rewrite (Hprev eq_refl); cbn [negb orb andb].
    all: try (rewrite app_ne_match by (intros ->; discriminate E2)).
    all: first [ apply (IH _ _ p _ r E2 Hr); [intros; first [discriminate|assumption]|discriminate]
               | apply (IH _ _ true _ r E2 Hr); [intros; first [discriminate|assumption]|discriminate]
               | apply (IH _ _ false _ r E2 Hr); [intros; first [discriminate|assumption]|discriminate] ].
Qed.

Lemma skip_number_lex : forall l r, num_okb l = true -> stop r = true -> skip_number (l ++ r) = Some r.
Proof.
  intros l r H Hr. unfold num_okb in H.
  destruct (scan_num N0 l) as [[l' r']|] eqn:E; [|discriminate]. destruct r'; [|discriminate]. clear H.
  destruct l as [|c t]; [discriminate E|].
  cbn [scan_num] in E. destruct (num_step N0 c) as [st'|] eqn:E1; [|discriminate E].
  destruct (scan_num st' t) as [[l1 r1]|] eqn:E2; [|discriminate].
  assert (r1 = []) by (inversion E; reflexivity). subst r1. clear E.
  change ((c :: t) ++ r) with (c :: (t ++ r)). cbn [skip_number]. cbn [num_step] in E1.
  destruct (Z.eqb_spec c 45) as [->|H45].
  - inversion E1; subst st'.
    apply (sk_sim t NMinus l1 false 45 r E2 Hr); discriminate.
  - assert (D : is_digit c = true).
    { destruct (Z.eqb_spec c 48) as [->|]; [reflexivity|]. destruct (is_digit c); [reflexivity|discriminate E1]. }
    cbn [skip_num]. rewrite D.
    destruct (c =? 48); [|rewrite D in E1]; inversion E1; subst st';
      apply (sk_sim t _ l1 false c r E2 Hr); discriminate.
Qed.

(* ------------------------------------------------------------------ SkipValue *)

Theorem skip_value_print : forall x r, json_wf x = true -> stop r = true ->
  skip_value (json_print x ++ r) = Some r.
Proof.
  intros x r Hw Hr. destruct x as [| b | lex | s | xs | ms]; cbn [json_print json_wf] in *.
  - reflexivity.
  - destruct b; reflexivity.
  - destruct (num_ok_head lex Hw) as (c & t & E & Hc).
    pose proof (skip_number_lex lex r Hw Hr) as Hs. rewrite E in *. clear E.
    change ((c :: t) ++ r) with (c :: (t ++ r)) in *.
    unfold skip_value, skip_blank. cbn [skip_ws]. unfold is_ws.
    destruct (Z.eqb_spec c 32); [lia|]. destruct (Z.eqb_spec c 9); [lia|].
    destruct (Z.eqb_spec c 10); [lia|]. destruct (Z.eqb_spec c 13); [lia|]. cbn [orb].
    destruct (Z.eqb_spec c 110); [lia|]. destruct (Z.eqb_spec c 34); [lia|]. destruct (Z.eqb_spec c 123); [lia|].
    destruct (Z.eqb_spec c 91); [lia|]. destruct (Z.eqb_spec c 116); [lia|]. destruct (Z.eqb_spec c 102); [lia|].
    assert (Hd : (c =? 45) || (c =? 43) || is_digit c = true).
    { unfold is_digit. destruct Hc as [->|Hc]; [reflexivity|].
      destruct (Z.leb_spec 48 c); [|lia]. destruct (Z.leb_spec c 57); [|lia]. apply orb_true_r. }
    rewrite Hd. exact Hs.
  - destruct (skip_string_quote s r Hw) as [e He].
    change (skip_value (quote_ref s ++ r))
      with (match skip_string (quote_ref s ++ r) with Some (_, _, t) => Some t | None => None end).
    rewrite He. reflexivity.
  - destruct xs as [|x xs]; [reflexivity|].
    cbn [forallb] in Hw. apply andb_true_iff in Hw. destruct Hw as [Wx Wxs].
    cbn [app]. rewrite <- app_assoc.
    destruct (print_starts x Wx) as (c & t & E & _).
    assert (Hgo : skip_value (91 :: json_print x ++ print_tail json_print 93 xs ++ r)
                  = skip_pair 91 93 1 false (json_print x ++ print_tail json_print 93 xs ++ r)).
    { rewrite E. reflexivity. }
    rewrite Hgo.
    rewrite (skip_pair_print x Wx 91 93 (or_introl (conj eq_refl eq_refl))).
    rewrite (sp_tail xs) by
      first [ apply Forall_forall; intros y _; exact (skip_pair_print_SP y) | exact Wxs | left; split; reflexivity ].
    reflexivity.
  - destruct ms as [|[k x] ms]; [reflexivity|].
    cbn [forallb fst snd] in Hw. apply andb_true_iff in Hw. destruct Hw as [Wm Wms].
    apply andb_true_iff in Wm. destruct Wm as [Wk Wx].
    unfold print_member. cbn [fst snd app]. rewrite <- !app_assoc. cbn [app].
    assert (Hgo : skip_value (123 :: quote_ref k ++ 58 :: json_print x ++ print_mtail json_print ms ++ r)
                  = skip_pair 123 125 1 false (quote_ref k ++ 58 :: json_print x ++ print_mtail json_print ms ++ r)).
    { reflexivity. }
    rewrite Hgo.
    rewrite (sp_quote k 123 125 1 _ Wk).
    rewrite sp_plain by lia.
    rewrite (skip_pair_print x Wx 123 125 (or_intror (conj eq_refl eq_refl))).
    rewrite (sp_mtail ms) by
      first [ apply Forall_forall; intros y _; exact (skip_pair_print_SP (snd y)) | exact Wms | right; split; reflexivity ].
    reflexivity.
Qed.

End WSkip.

Theorem skip_value_print : forall x r, json_wf x = true -> stop r = true -> skip_value (json_print x ++ r) = Some r.
Proof. exact WSkip.skip_value_print. Qed.
Lemma skip_number_lex : forall l r, num_okb l = true -> stop r = true -> skip_number (l ++ r) = Some r.
Proof. exact WSkip.skip_number_lex. Qed.
Lemma skip_pair_print : forall x, json_wf x = true ->
  forall l rc, (l = 91 /\ rc = 93) \/ (l = 123 /\ rc = 125) ->
  forall n rest, skip_pair l rc (S n) false (json_print x ++ rest) = skip_pair l rc (S n) false rest.
Proof. exact WSkip.skip_pair_print. Qed.

(* ================================================================== number lexemes: shape from the DFA, ParseFloat's decimal
   syntax = lex_decimal, decodeFloat64 / DecodeValue on a lexeme followed by a stop *)
Module WNum.
(* ------------------------------------------------------------------ the DFA, "reads all of l" *)

Definition full (st : nst) (l : list Z) : bool :=
  match scan_num st l with Some (_, []) => true | _ => false end.

Lemma num_okb_full : forall l, num_okb l = full N0 l.
Proof. reflexivity. Qed.

Lemma full_nil : forall st, full st [] = num_acc st.
Proof. intros st. unfold full. cbn [scan_num]. destruct (num_acc st); reflexivity. Qed.

Lemma full_cons : forall st c t, full st (c :: t) = true ->
  exists st', num_step st c = Some st' /\ full st' t = true.
Proof.
  intros st c t. unfold full. cbn [scan_num]. destruct (num_step st c) as [st'|].
  - intros H. exists st'. split; [reflexivity|]. destruct (scan_num st' t) as [[l r]|]; [exact H|discriminate].
  - destruct (num_acc st); intros H; discriminate.
Qed.

(* ------------------------------------------------------------------ C: characters of a lexeme *)

Lemma numchar_dec_float_char : forall c, is_numchar c = true -> is_dec_float_char c = true.
Proof.
  intros c. unfold is_numchar, is_dec_float_char.
  destruct (is_digit c), (c =? 45), (c =? 43), (c =? 46), (is_e c); intros H; try reflexivity; discriminate.
Qed.

Lemma full_dec_float_chars : forall l st, full st l = true -> forallb is_dec_float_char l = true.
Proof.
  induction l as [|c t IH]; intros st H; [reflexivity|].
  destruct (full_cons st c t H) as (st' & Hs & Hf).
  cbn [forallb]. rewrite (numchar_dec_float_char c (num_step_numchar st c st' Hs)). exact (IH st' Hf).
Qed.

Lemma num_okb_dec_float_chars : forall l, num_okb l = true -> forallb is_dec_float_char l = true.
Proof. intros l H. exact (full_dec_float_chars l N0 H). Qed.

Lemma stop_not_dec_float_char : forall c r, stop (c :: r) = true -> is_dec_float_char c = false.
Proof.
  intros c r H. cbn [stop] in H. apply negb_true_iff in H. unfold is_numchar in H. unfold is_dec_float_char.
  destruct (is_digit c), (c =? 45), (c =? 43), (c =? 46), (is_e c); try discriminate; reflexivity.
Qed.

Lemma span_numchars_app : forall p r, forallb is_dec_float_char p = true -> stop r = true ->
  span_numchars (p ++ r) = (p, r).
Proof.
  induction p as [|c t IH]; intros r Hp Hr.
  - cbn [app]. destruct r as [|c r]; [reflexivity|]. cbn [span_numchars]. rewrite (stop_not_dec_float_char c r Hr). reflexivity.
  - cbn [forallb] in Hp. apply andb_true_iff in Hp. destruct Hp as [Hc Ht].
    cbn [app span_numchars]. rewrite Hc, (IH r Ht Hr). reflexivity.
Qed.

(* ------------------------------------------------------------------ A: shape of a lexeme, state by state *)

Definition exp_shape (ex : list Z) : Prop :=
  ex = [] \/ exists e sg es, ex = e :: sg ++ es /\ is_e e = true /\ (sg = [] \/ sg = [43] \/ sg = [45]) /\
                             forallb is_digit es = true /\ es <> [].
Definition frac_shape (fr : list Z) : Prop :=
  fr = [] \/ exists fp, fr = 46 :: fp /\ forallb is_digit fp = true /\ fp <> [].

Lemma sh_exp : forall l, full NExp l = true -> forallb is_digit l = true.
Proof.
  induction l as [|c t IH]; intros H; [reflexivity|].
  destruct (full_cons _ _ _ H) as (st' & Hs & Hf). cbn [num_step] in Hs.
  destruct (is_digit c) eqn:D; [|discriminate]. injection Hs as <-.
  cbn [forallb]. rewrite D. exact (IH Hf).
Qed.

Lemma sh_esign : forall l, full NESign l = true -> forallb is_digit l = true /\ l <> [].
Proof.
  intros [|c t] H; [discriminate|].
  destruct (full_cons _ _ _ H) as (st' & Hs & Hf). cbn [num_step] in Hs.
  destruct (is_digit c) eqn:D; [|discriminate]. injection Hs as <-.
  split; [|discriminate]. cbn [forallb]. rewrite D. exact (sh_exp t Hf).
Qed.

Lemma sh_e : forall l, full NE l = true ->
  exists sg es, l = sg ++ es /\ (sg = [] \/ sg = [43] \/ sg = [45]) /\ forallb is_digit es = true /\ es <> [].
Proof.
  intros [|c t] H; [discriminate|].
  destruct (full_cons _ _ _ H) as (st' & Hs & Hf). cbn [num_step] in Hs.
  destruct ((c =? 43) || (c =? 45)) eqn:S.
  - injection Hs as <-. destruct (sh_esign t Hf) as [Hd Hne].
    exists [c], t. split; [reflexivity|]. split; [|split; assumption].
    apply orb_true_iff in S. destruct S as [S|S]; apply Z.eqb_eq in S; subst c; auto.
  - destruct (is_digit c) eqn:D; [|discriminate]. injection Hs as <-.
    exists [], (c :: t). split; [reflexivity|]. split; [left; reflexivity|]. split; [|discriminate].
    cbn [forallb]. rewrite D. exact (sh_exp t Hf).
Qed.

Lemma exp_shape_e : forall c t, is_e c = true -> full NE t = true -> exp_shape (c :: t).
Proof.
  intros c t He Hf. destruct (sh_e t Hf) as (sg & es & -> & Hsg & Hes & Hne).
  right. exists c, sg, es. auto.
Qed.

Lemma sh_frac : forall l, full NFrac l = true ->
  exists fp ex, l = fp ++ ex /\ forallb is_digit fp = true /\ exp_shape ex.
Proof.
  induction l as [|c t IH]; intros H.
  - exists [], []. split; [reflexivity|]. split; [reflexivity|left; reflexivity].
  - destruct (full_cons _ _ _ H) as (st' & Hs & Hf). cbn [num_step] in Hs.
    destruct (is_digit c) eqn:D.
    + injection Hs as <-. destruct (IH Hf) as (fp & ex & -> & Hfp & Hex).
      exists (c :: fp), ex. split; [reflexivity|]. split; [|exact Hex]. cbn [forallb]. rewrite D. exact Hfp.
    + destruct (is_e c) eqn:E; [|discriminate]. injection Hs as <-.
      exists [], (c :: t). split; [reflexivity|]. split; [reflexivity|]. exact (exp_shape_e c t E Hf).
Qed.

Lemma sh_dot : forall l, full NDot l = true ->
  exists fp ex, l = fp ++ ex /\ forallb is_digit fp = true /\ fp <> [] /\ exp_shape ex.
Proof.
  intros [|c t] H; [discriminate|].
  destruct (full_cons _ _ _ H) as (st' & Hs & Hf). cbn [num_step] in Hs.
  destruct (is_digit c) eqn:D; [|discriminate]. injection Hs as <-.
  destruct (sh_frac t Hf) as (fp & ex & -> & Hfp & Hex).
  exists (c :: fp), ex. split; [reflexivity|]. split; [|split; [discriminate|exact Hex]].
  cbn [forallb]. rewrite D. exact Hfp.
Qed.

Lemma sh_zero : forall l, full NZero l = true ->
  exists fr ex, l = fr ++ ex /\ frac_shape fr /\ exp_shape ex.
Proof.
  intros [|c t] H.
  - exists [], []. split; [reflexivity|]. split; left; reflexivity.
  - destruct (full_cons _ _ _ H) as (st' & Hs & Hf). cbn [num_step] in Hs.
    destruct (Z.eqb_spec c 46) as [->|N].
    + injection Hs as <-. destruct (sh_dot t Hf) as (fp & ex & -> & Hfp & Hne & Hex).
      exists (46 :: fp), ex. split; [reflexivity|]. split; [|exact Hex]. right. exists fp. auto.
    + destruct (is_e c) eqn:E; [|discriminate]. injection Hs as <-.
      exists [], (c :: t). split; [reflexivity|]. split; [left; reflexivity|]. exact (exp_shape_e c t E Hf).
Qed.

Lemma sh_int : forall l, full NInt l = true ->
  exists ip fr ex, l = ip ++ fr ++ ex /\ forallb is_digit ip = true /\ frac_shape fr /\ exp_shape ex.
Proof.
  induction l as [|c t IH]; intros H.
  - exists [], [], []. split; [reflexivity|]. split; [reflexivity|]. split; left; reflexivity.
  - destruct (is_digit c) eqn:D.
    + destruct (full_cons _ _ _ H) as (st' & Hs & Hf). cbn [num_step] in Hs. rewrite D in Hs. injection Hs as <-.
      destruct (IH Hf) as (ip & fr & ex & -> & Hip & Hfr & Hex).
      exists (c :: ip), fr, ex. split; [reflexivity|]. split; [|split; assumption]. cbn [forallb]. rewrite D. exact Hip.
    + assert (H' : full NZero (c :: t) = true).
      { unfold full in *. cbn [scan_num num_step] in *. rewrite D in H. exact H. }
      destruct (sh_zero _ H') as (fr & ex & E & Hfr & Hex).
      exists [], fr, ex. split; [exact E|]. split; [reflexivity|]. split; assumption.
Qed.

Lemma sh_minus : forall l, full NMinus l = true ->
  exists ip fr ex, l = ip ++ fr ++ ex /\ forallb is_digit ip = true /\ ip <> [] /\ frac_shape fr /\ exp_shape ex.
Proof.
  intros [|c t] H; [discriminate|].
  destruct (full_cons _ _ _ H) as (st' & Hs & Hf). cbn [num_step] in Hs.
  destruct (Z.eqb_spec c 48) as [->|N].
  - injection Hs as <-. destruct (sh_zero t Hf) as (fr & ex & -> & Hfr & Hex).
    exists [48], fr, ex. split; [reflexivity|]. split; [reflexivity|]. split; [discriminate|]. split; assumption.
  - destruct (is_digit c) eqn:D; [|discriminate]. injection Hs as <-.
    destruct (sh_int t Hf) as (ip & fr & ex & -> & Hip & Hfr & Hex).
    exists (c :: ip), fr, ex. split; [reflexivity|]. split; [|split; [discriminate|split; assumption]].
    cbn [forallb]. rewrite D. exact Hip.
Qed.

Theorem num_shape : forall l, num_okb l = true ->
  exists (neg : bool) ip fr ex,
    l = (if neg then [45] else []) ++ ip ++ fr ++ ex /\
    forallb is_digit ip = true /\ ip <> [] /\
    (fr = [] \/ exists fp, fr = 46 :: fp /\ forallb is_digit fp = true /\ fp <> []) /\
    (ex = [] \/ exists e sg es, ex = e :: sg ++ es /\ is_e e = true /\ (sg = [] \/ sg = [43] \/ sg = [45]) /\
                                forallb is_digit es = true /\ es <> []).
Proof.
  intros [|c t] H; [discriminate|]. rewrite num_okb_full in H.
  destruct (Z.eqb_spec c 45) as [->|N].
  - destruct (full_cons _ _ _ H) as (st' & Hs & Hf). change (num_step N0 45) with (Some NMinus) in Hs. injection Hs as <-.
    destruct (sh_minus t Hf) as (ip & fr & ex & -> & Hip & Hne & Hfr & Hex).
    exists true, ip, fr, ex. split; [reflexivity|]. auto.
  - assert (H' : full NMinus (c :: t) = true).
    { unfold full in *. cbn [scan_num num_step] in *. destruct (c =? 45) eqn:E; [apply Z.eqb_eq in E; contradiction|]. exact H. }
    destruct (sh_minus _ H') as (ip & fr & ex & E & Hip & Hne & Hfr & Hex).
    exists false, ip, fr, ex. split; [exact E|]. auto.
Qed.

(* ------------------------------------------------------------------ B: ParseFloat's reader = lex_decimal on a lexeme *)

Lemma is_e_not_digit : forall c, is_e c = true -> is_digit c = false.
Proof. intros c H. unfold is_e in H. apply orb_true_iff in H. destruct H as [H|H]; apply Z.eqb_eq in H; subst c; reflexivity. Qed.
Lemma is_e_not_dot : forall c, is_e c = true -> (c =? 46) = false.
Proof. intros c H. unfold is_e in H. apply orb_true_iff in H. destruct H as [H|H]; apply Z.eqb_eq in H; subst c; reflexivity. Qed.

Definition nd_head (r : list Z) : Prop := match r with [] => True | c :: _ => is_digit c = false end.

Lemma exp_shape_nd : forall ex, exp_shape ex -> nd_head ex.
Proof. intros ex [->|(e & sg & es & -> & He & _)]; [exact I|]. exact (is_e_not_digit e He). Qed.

Lemma frac_exp_nd : forall fr ex, frac_shape fr -> exp_shape ex -> nd_head (fr ++ ex).
Proof. intros fr ex [->|(fp & -> & _)] Hex; [exact (exp_shape_nd ex Hex)|reflexivity]. Qed.

Lemma frac_exp_rest_nd : forall fr ex r, frac_shape fr -> exp_shape ex -> nd_head r -> nd_head (fr ++ ex ++ r).
Proof.
  intros fr ex r [->|(fp & -> & _)] Hex Hr; [|reflexivity]. cbn [app].
  destruct Hex as [->|(e & sg & es & -> & He & _)]; [exact Hr|]. exact (is_e_not_digit e He).
Qed.

Definition split_go (s : list Z) : bool * list Z :=
  match s with c :: r => if c =? 45 then (true, r) else if c =? 43 then (false, r) else (false, s) | [] => (false, s) end.
Definition split_lex (l : list Z) : bool * list Z :=
  match l with c :: r => if c =? 45 then (true, r) else (false, l) | [] => (false, l) end.
Definition frac_split (r1 : list Z) : list Z * list Z :=
  match r1 with c :: r => if c =? 46 then span_digits r else ([], r1) | [] => ([], r1) end.

Definition gfd_tail (neg : bool) (ip fp r2 : list Z) : option (bool * Z * Z) :=
  match ip ++ fp with
  | [] => None
  | _ =>
    match r2 with
    | [] => Some (neg, digits_val (ip ++ fp) 0, - Z.of_nat (length fp))
    | c :: r3 =>
      if is_e c then
        let '(eneg, r4) := split_go r3 in
        match span_digits r4 with
        | ([], _) => None
        | (es, []) => let ev := digits_val es 0 in Some (neg, digits_val (ip ++ fp) 0, (if eneg then - ev else ev) - Z.of_nat (length fp))
        | (_, _ :: _) => None
        end
      else None
    end
  end.

Definition lex_exp (r2 : list Z) : Z :=
  match r2 with
  | _ :: c :: r =>
    if c =? 45 then - digits_val (fst (span_digits r)) 0
    else if c =? 43 then digits_val (fst (span_digits r)) 0
    else digits_val (fst (span_digits (c :: r))) 0
  | _ => 0
  end.
Definition lex_tail (neg : bool) (ip fp r2 : list Z) : option (bool * Z * Z) :=
  Some (neg, digits_val (ip ++ fp) 0, lex_exp r2 - Z.of_nat (length fp)).

Lemma go_float_dec_eq : forall s, go_float_dec s =
  let '(neg, r0) := split_go s in let '(ip, r1) := span_digits r0 in let '(fp, r2) := frac_split r1 in gfd_tail neg ip fp r2.
Proof. reflexivity. Qed.

Lemma lex_decimal_eq : forall l, lex_decimal l =
  if negb (num_okb l) then None else
  let '(neg, r0) := split_lex l in let '(ip, r1) := span_digits r0 in let '(fp, r2) := frac_split r1 in lex_tail neg ip fp r2.
Proof. reflexivity. Qed.

Lemma digit_head : forall d t, forallb is_digit (d :: t) = true -> 48 <= d <= 57.
Proof. intros d t H. cbn [forallb] in H. apply andb_true_iff in H. apply is_digit_range. tauto. Qed.

Lemma split_go_shape : forall (neg : bool) ip rest, forallb is_digit ip = true -> ip <> [] ->
  split_go ((if neg then [45] else []) ++ ip ++ rest) = (neg, ip ++ rest).
Proof.
  intros neg ip rest Hd Hne. destruct neg; cbn [app]; [reflexivity|].
  destruct ip as [|d t]; [contradiction|]. pose proof (digit_head d t Hd) as Hr. cbn [app]. unfold split_go.
  destruct (Z.eqb_spec d 45); [lia|]. destruct (Z.eqb_spec d 43); [lia|]. reflexivity.
Qed.

Lemma split_lex_shape : forall (neg : bool) ip rest, forallb is_digit ip = true -> ip <> [] ->
  split_lex ((if neg then [45] else []) ++ ip ++ rest) = (neg, ip ++ rest).
Proof.
  intros neg ip rest Hd Hne. destruct neg; cbn [app]; [reflexivity|].
  destruct ip as [|d t]; [contradiction|]. pose proof (digit_head d t Hd) as Hr. cbn [app]. unfold split_lex.
  destruct (Z.eqb_spec d 45); [lia|]. reflexivity.
Qed.

Lemma frac_split_shape : forall fr ex, frac_shape fr -> exp_shape ex -> frac_split (fr ++ ex) = (tl fr, ex).
Proof.
  intros fr ex [->|(fp & -> & Hfp & _)] Hex.
  - cbn [app tl]. destruct Hex as [->|(e & sg & es & -> & He & _)]; [reflexivity|].
    unfold frac_split. rewrite (is_e_not_dot e He). reflexivity.
  - cbn [app tl]. unfold frac_split. change (46 =? 46) with true. cbv iota.
    exact (span_digits_app_stop fp ex Hfp (exp_shape_nd ex Hex)).
Qed.

Lemma tail_eq : forall neg ip fp ex, ip ++ fp <> [] -> exp_shape ex -> gfd_tail neg ip fp ex = lex_tail neg ip fp ex.
Proof.
  intros neg ip fp ex Hne Hex. unfold gfd_tail, lex_tail.
  destruct (ip ++ fp) as [|a q] eqn:E; [contradiction|]. clear Hne.
  destruct Hex as [->|(e & sg & es & -> & He & Hsg & Hes & Hnes)].
  - cbn [lex_exp]. repeat f_equal; try lia.
  - rewrite He. destruct es as [|d es']; [contradiction|]. pose proof (digit_head d es' Hes) as Hr.
    destruct Hsg as [->|[->| ->]]; cbn [app]; unfold split_go, lex_exp.
    + destruct (Z.eqb_spec d 45); [lia|]. destruct (Z.eqb_spec d 43); [lia|].
      rewrite (span_digits_all _ Hes). reflexivity.
    + change (43 =? 45) with false. change (43 =? 43) with true. cbv iota.
      rewrite (span_digits_all _ Hes). reflexivity.
    + change (45 =? 45) with true. cbv iota.
      rewrite (span_digits_all _ Hes). reflexivity.
Qed.

Lemma go_float_dec_lex : forall l, num_okb l = true -> go_float_dec l = lex_decimal l.
Proof.
  intros l H. destruct (num_shape l H) as (neg & ip & fr & ex & -> & Hip & Hne & Hfr & Hex).
  rewrite lex_decimal_eq, H. cbn [negb]. rewrite go_float_dec_eq.
  rewrite (split_go_shape neg ip _ Hip Hne), (split_lex_shape neg ip _ Hip Hne). cbv beta iota.
  rewrite (span_digits_app_stop ip (fr ++ ex) Hip (frac_exp_nd fr ex Hfr Hex)). cbv beta iota.
  rewrite (frac_split_shape fr ex Hfr Hex). cbv beta iota.
  apply tail_eq; [|exact Hex]. destruct ip; [contradiction|discriminate].
Qed.

(* ------------------------------------------------------------------ D: ParseFloat on a lexeme *)

Lemma go_parse_float_lex : forall l b, num_okb l = true -> lex2f64 l = Some b -> f64_is_finite b = true ->
  go_parse_float l = PFOk b.
Proof.
  intros l b Hok Hl Hf. unfold go_parse_float. rewrite (num_okb_dec_float_chars l Hok), (go_float_dec_lex l Hok).
  unfold lex2f64 in Hl. destruct (lex_decimal l) as [d|]; [|discriminate]. cbn [option_map] in Hl. injection Hl as Hl.
  cbv zeta. rewrite Hl, Hf. reflexivity.
Qed.

(* ------------------------------------------------------------------ F: doubles through decode_number / decode_value *)

Definition neg_zero_int (l : list Z) : bool :=
  lex_is_plain_int l && match l with c :: t => (c =? 45) && (digits_val t 0 =? 0) | [] => false end.

Lemma digits_val_nonneg : forall ds a, forallb is_digit ds = true -> 0 <= a -> 0 <= digits_val ds a.
Proof.
  induction ds as [|d t IH]; intros a Hd Ha; [exact Ha|].
  pose proof (digit_head d t Hd) as Hr. cbn [forallb] in Hd. apply andb_true_iff in Hd. destruct Hd as [_ Ht].
  unfold digits_val. cbn [fold_left]. apply (IH (a * 10 + (d - 48)) Ht). lia.
Qed.

Lemma i64_to_f64_dec : forall (neg : bool) v, 0 <= v -> (neg = true -> v <> 0) ->
  i64_to_f64 (if neg then - v else v) = dec2f64 (neg, v, 0).
Proof.
  intros neg v Hv Hnz. unfold i64_to_f64. destruct neg.
  - specialize (Hnz eq_refl). destruct (Z.eqb_spec (- v) 0); [lia|]. destruct (Z.ltb_spec (- v) 0); [|lia].
    rewrite Z.abs_opp, Z.abs_eq by lia. reflexivity.
  - destruct (Z.eqb_spec v 0) as [->|N]; [reflexivity|]. destruct (Z.ltb_spec v 0); [lia|].
    rewrite Z.abs_eq by lia. reflexivity.
Qed.

Lemma decode_float_ok : forall (neg : bool) body r d,
  forallb is_dec_float_char body = true -> stop r = true ->
  go_float_dec ((if neg then [45] else []) ++ body) = Some d -> f64_is_finite (dec2f64 d) = true ->
  decode_float (if neg then [45] else []) (body ++ r) = Some (TkDbl (dec2f64 d), r).
Proof.
  intros neg body r d Hb Hr Hgo Hf. unfold decode_float. rewrite (span_numchars_app body r Hb Hr). cbv beta iota.
  rewrite Hgo. cbv zeta. rewrite Hf. reflexivity.
Qed.

Definition split_dn (bs : list Z) : list Z * list Z :=
  match bs with c :: r => if c =? 45 then ([c], r) else ([], bs) | [] => ([], bs) end.

Lemma decode_number_eq : forall bs, decode_number bs =
  let '(sgn, p) := split_dn bs in
  match p with
  | [] => None
  | _ =>
    let '(ds, r) := span_digits p in
    if (match r with c :: _ => (c =? 46) || is_e c | [] => false end) then decode_float sgn p else
    match ds with
    | [] => None
    | _ => let v := digits_val ds 0 in
           let z := match sgn with [] => v | _ => - v end in
           if in_i64 z then Some (TkInt z, r) else decode_float sgn p
    end
  end.
Proof. reflexivity. Qed.

Lemma split_dn_shape : forall (neg : bool) ip rest, forallb is_digit ip = true -> ip <> [] ->
  split_dn ((if neg then [45] else []) ++ ip ++ rest) = ((if neg then [45] else []), ip ++ rest).
Proof.
  intros neg ip rest Hd Hne. destruct neg; cbn [app]; [reflexivity|].
  destruct ip as [|d t]; [contradiction|]. pose proof (digit_head d t Hd) as Hr. cbn [app]. unfold split_dn.
  destruct (Z.eqb_spec d 45); [lia|]. reflexivity.
Qed.

Lemma app_nil_cases : forall (a b : list Z), (a = [] /\ b = []) \/ a ++ b <> [].
Proof. intros [|x a] [|y b]; [left; auto| right; discriminate ..]. Qed.

Lemma frac_exp_head_dot_e : forall fr ex r, frac_shape fr -> exp_shape ex -> fr ++ ex <> [] ->
  match fr ++ ex ++ r with c :: _ => (c =? 46) || is_e c | [] => false end = true.
Proof.
  intros fr ex r [->|(fp & -> & _)] Hex Hne; [|reflexivity]. cbn [app] in *.
  destruct Hex as [->|(e & sg & es & -> & He & _)]; [contradiction|]. cbn [app]. rewrite He. apply orb_true_r.
Qed.

Lemma plain_digits : forall ds, forallb is_digit ds = true -> forallb (fun c => is_digit c || (c =? 45)) ds = true.
Proof.
  intros ds H. rewrite forallb_forall in *. intros c Hc. rewrite (H c Hc). reflexivity.
Qed.

Theorem decode_number_f64 : forall l r b, num_okb l = true -> stop r = true -> lex2f64 l = Some b ->
  f64_is_finite b = true -> neg_zero_int l = false ->
  exists tk, decode_number (l ++ r) = Some (tk, r) /\ (tk = TkDbl b \/ exists z, tk = TkInt z /\ i64_to_f64 z = b).
Proof.
  intros l r b Hok Hr Hl Hf Hnz.
  pose proof (go_float_dec_lex l Hok) as Hgo. pose proof (num_okb_dec_float_chars l Hok) as Hch.
  unfold lex2f64 in Hl. destruct (lex_decimal l) as [d|] eqn:Hld; [|discriminate]. cbn [option_map] in Hl. injection Hl as Hl.
  subst b.
  destruct (num_shape l Hok) as (neg & ip & fr & ex & -> & Hip & Hne & Hfr & Hex).
  rewrite forallb_app in Hch. apply andb_true_iff in Hch. destruct Hch as [_ Hch].
  rewrite decode_number_eq. rewrite <- !app_assoc. rewrite (split_dn_shape neg ip _ Hip Hne). cbv beta iota.
  pose proof (span_digits_app_stop ip (fr ++ ex ++ r) Hip (frac_exp_rest_nd fr ex r Hfr Hex (stop_not_digit r Hr))) as Hsp.
  assert (Hp : ip ++ fr ++ ex ++ r <> []) by (destruct ip; [contradiction|discriminate]).
  assert (Hfl : decode_float (if neg then [45] else []) (ip ++ fr ++ ex ++ r) = Some (TkDbl (dec2f64 d), r)).
  { replace (ip ++ fr ++ ex ++ r) with ((ip ++ fr ++ ex) ++ r) by (rewrite <- !app_assoc; reflexivity).
    exact (decode_float_ok neg (ip ++ fr ++ ex) r d Hch Hr Hgo Hf). }
  remember (ip ++ fr ++ ex ++ r) as p eqn:Ep. destruct p as [|a q]; [contradiction|]. rewrite Hsp. cbv beta iota.
  destruct (app_nil_cases fr ex) as [[-> ->]|Hfe].
  - cbn [app] in *. rewrite (stop_not_dot_e r Hr).
    set (v := digits_val ip 0).
    assert (Hv : 0 <= v) by (apply digits_val_nonneg; [exact Hip|lia]).
    assert (Hz : match (if neg then [45] else []) with [] => v | _ :: _ => - v end = if neg then - v else v) by (destruct neg; reflexivity).
    destruct ip as [|d0 t]; [contradiction|]. cbv zeta. fold v. rewrite Hz.
    destruct (in_i64 (if neg then - v else v)) eqn:Hin.
    + exists (TkInt (if neg then - v else v)). split; [reflexivity|]. right. eexists. split; [reflexivity|].
      rewrite (lexdec_shape neg (d0 :: t) [] 0 Hip Hne (or_introl (conj eq_refl eq_refl)) Hok) in Hld. injection Hld as <-.
      apply i64_to_f64_dec; [exact Hv|]. intros ->. rewrite app_nil_r in Hnz, Hok. cbn [app] in Hnz, Hok.
      unfold neg_zero_int, lex_is_plain_int in Hnz. rewrite Hok in Hnz.
      assert (Hpd : forallb (fun c => is_digit c || (c =? 45)) (45 :: d0 :: t) = true).
      { change (45 :: d0 :: t) with ([45] ++ d0 :: t). rewrite forallb_app, (plain_digits _ Hip). reflexivity. }
      rewrite Hpd in Hnz. change (45 =? 45) with true in Hnz. cbn [andb] in Hnz. fold v in Hnz.
      apply Z.eqb_neq in Hnz. exact Hnz.
    + exists (TkDbl (dec2f64 d)). split; [exact Hfl|left; reflexivity].
  - rewrite (frac_exp_head_dot_e fr ex r Hfr Hex Hfe).
    exists (TkDbl (dec2f64 d)). split; [exact Hfl|left; reflexivity].
Qed.

Theorem decode_value_f64 : forall l r b, num_okb l = true -> stop r = true -> lex2f64 l = Some b ->
  f64_is_finite b = true -> neg_zero_int l = false ->
  exists tk, decode_value (l ++ r) = Some (tk, r) /\ (tk = TkDbl b \/ exists z, tk = TkInt z /\ i64_to_f64 z = b).
Proof.
  intros l r b Hok Hr Hl Hf Hnz. pose proof (decode_number_f64 l r b Hok Hr Hl Hf Hnz) as H.
  destruct (num_ok_head l Hok) as (c & t & -> & Hc). cbn [app] in *. rewrite (dv_num c _ Hc). exact H.
Qed.

End WNum.

Definition neg_zero_int := WNum.neg_zero_int.
Lemma go_float_dec_lex : forall l, num_okb l = true -> go_float_dec l = lex_decimal l.
Proof. exact WNum.go_float_dec_lex. Qed.
Lemma go_parse_float_lex : forall l b, num_okb l = true -> lex2f64 l = Some b -> f64_is_finite b = true -> go_parse_float l = PFOk b.
Proof. exact WNum.go_parse_float_lex. Qed.
Theorem decode_value_f64 : forall l r b, num_okb l = true -> stop r = true -> lex2f64 l = Some b -> f64_is_finite b = true ->
  neg_zero_int l = false ->
  exists tk, decode_value (l ++ r) = Some (tk, r) /\ (tk = TkDbl b \/ exists z, tk = TkInt z /\ i64_to_f64 z = b).
Proof. exact WNum.decode_value_f64. Qed.

(* every number lexeme is read as a number token (TkInt / TkDbl), whatever its value (an overflowing float is read as 0) *)
Definition is_numtok (tk : tok) : Prop := match tk with TkInt _ | TkDbl _ => True | _ => False end.

Lemma lex_decimal_some : forall l, num_okb l = true -> exists d, lex_decimal l = Some d.
Proof.
  intros l Hok. rewrite WNum.lex_decimal_eq, Hok. cbn [negb].
  destruct (WNum.split_lex l) as [neg r0]. destruct (span_digits r0) as [ip r1]. destruct (WNum.frac_split r1) as [fp r2].
  eexists. reflexivity.
Qed.

Lemma decode_float_any : forall (neg : bool) body r d,
  forallb is_dec_float_char body = true -> stop r = true ->
  go_float_dec ((if neg then [45] else []) ++ body) = Some d ->
  decode_float (if neg then [45] else []) (body ++ r) = Some (TkDbl (if f64_is_finite (dec2f64 d) then dec2f64 d else 0), r).
Proof.
  intros neg body r d Hb Hr Hgo. unfold decode_float. rewrite (WNum.span_numchars_app body r Hb Hr). cbv beta iota.
  rewrite Hgo. reflexivity.
Qed.

Theorem decode_number_numtok : forall l r, num_okb l = true -> stop r = true ->
  exists tk, decode_number (l ++ r) = Some (tk, r) /\ is_numtok tk.
Proof.
  intros l r Hok Hr.
  pose proof (WNum.go_float_dec_lex l Hok) as Hgo. pose proof (WNum.num_okb_dec_float_chars l Hok) as Hch.
  destruct (lex_decimal_some l Hok) as [d Hld]. rewrite Hld in Hgo.
  destruct (WNum.num_shape l Hok) as (neg & ip & fr & ex & -> & Hip & Hne & Hfr & Hex).
  rewrite forallb_app in Hch. apply andb_true_iff in Hch. destruct Hch as [_ Hch].
  rewrite WNum.decode_number_eq. rewrite <- !app_assoc. rewrite (WNum.split_dn_shape neg ip _ Hip Hne). cbv beta iota.
  pose proof (span_digits_app_stop ip (fr ++ ex ++ r) Hip (WNum.frac_exp_rest_nd fr ex r Hfr Hex (stop_not_digit r Hr))) as Hsp.
  assert (Hp : ip ++ fr ++ ex ++ r <> []) by (destruct ip; [contradiction|discriminate]).
  assert (Hfl : decode_float (if neg then [45] else []) (ip ++ fr ++ ex ++ r) =
                Some (TkDbl (if f64_is_finite (dec2f64 d) then dec2f64 d else 0), r)).
  { replace (ip ++ fr ++ ex ++ r) with ((ip ++ fr ++ ex) ++ r) by (rewrite <- !app_assoc; reflexivity).
    exact (decode_float_any neg (ip ++ fr ++ ex) r d Hch Hr Hgo). }
  remember (ip ++ fr ++ ex ++ r) as p eqn:Ep. destruct p as [|a q]; [contradiction|]. rewrite Hsp. cbv beta iota.
  destruct (WNum.app_nil_cases fr ex) as [[-> ->]|Hfe].
  - cbn [app] in *. rewrite (stop_not_dot_e r Hr).
    destruct ip as [|d0 t]; [contradiction|]. cbv zeta.
    match goal with |- context [if in_i64 ?z then _ else _] => destruct (in_i64 z) end.
    + eexists. split; [reflexivity|exact I].
    + eexists. split; [exact Hfl|exact I].
  - rewrite (WNum.frac_exp_head_dot_e fr ex r Hfr Hex Hfe).
    eexists. split; [exact Hfl|exact I].
Qed.

Theorem decode_value_numtok : forall l r, num_okb l = true -> stop r = true ->
  exists tk, decode_value (l ++ r) = Some (tk, r) /\ is_numtok tk.
Proof.
  intros l r Hok Hr. pose proof (decode_number_numtok l r Hok Hr) as H.
  destruct (num_ok_head l Hok) as (c & t & -> & Hc). cbn [app] in *. rewrite (dv_num c _ Hc). exact H.
Qed.
