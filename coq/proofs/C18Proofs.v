(* C18: lemmas about the text-encoder specs (fmt_int canonical form, dec2f64 sanity) and soundness of the per-sample checkers of
   model/Check18.v (a VOk verdict implies the stated relation between the input and every native output). *)
From Coq Require Import ZArith List Bool Lia.
From DG Require Import CaseFormat ProtoWireRef ThriftWire Json Num Base64 JsonProofs NumProofs J2T Check18 Check18b.
Import ListNotations.
Local Open Scope Z_scope.

(* ------------------------------------------------------------------------------------------------ generic helpers *)
Lemma list_eqb_Z_eq : forall a b : list Z, bytes_eqb a b = true <-> a = b.
Proof.
  unfold bytes_eqb. induction a as [|x a IH]; destruct b as [|y b]; cbn; split; intros H; try reflexivity; try discriminate.
  - apply andb_true_iff in H. destruct H as [H1 H2]. apply Z.eqb_eq in H1. apply IH in H2. congruence.
  - injection H as -> ->. rewrite Z.eqb_refl. cbn. apply IH. reflexivity.
Qed.

Lemma sel_In : forall {A} mask (l : list A) x, In x (sel mask l) -> In x l.
Proof.
  intros A mask l. unfold sel. generalize 0 as i. induction l as [|y l IH]; intros i x H; [exact H|].
  destruct (Z.testbit mask i).
  - destruct H as [->|H]; [left; reflexivity | right; eapply IH; exact H].
  - right. eapply IH. exact H.
Qed.

(* ------------------------------------------------------------------------------------------------ fmt_int: canonical decimal *)
(* digits only, "0" alone for zero, no leading zero otherwise *)
Definition canonical_nat_text (n : Z) (ds : list Z) : Prop :=
  forallb is_digit ds = true /\ digits_val ds 0 = n /\
  match ds with d :: t => if n =? 0 then d = 48 /\ t = [] else d <> 48 | [] => False end.

Lemma fmt_nat_canonical : forall n, 0 <= n -> canonical_nat_text n (fmt_nat n).
Proof.
  intros n Hn. destruct (fmt_nat_spec n Hn) as (Hd & Hv & Hh). repeat split; try assumption.
  unfold head_ok in Hh. destruct (fmt_nat n) as [|d t]; [discriminate|].
  destruct (n =? 0).
  - apply andb_true_iff in Hh. destruct Hh as [H1 H2]. apply Z.eqb_eq in H1. destruct t; [auto|discriminate].
  - apply negb_true_iff in Hh. apply Z.eqb_neq in Hh. exact Hh.
Qed.

(* '-' exactly for negative numbers, followed by the canonical text of the magnitude; never "-0" *)
Lemma fmt_int_canonical : forall z,
  (z < 0 -> exists ds, fmt_int z = 45 :: ds /\ canonical_nat_text (- z) ds) /\
  (0 <= z -> canonical_nat_text z (fmt_int z)).
Proof.
  intros z. unfold fmt_int. split; intros H.
  - destruct (Z.ltb_spec z 0); [|lia]. eexists; split; [reflexivity|]. apply fmt_nat_canonical. lia.
  - destruct (Z.ltb_spec z 0); [lia|]. apply fmt_nat_canonical. exact H.
Qed.

(* ------------------------------------------------------------------------------------------------ dec2f64 sanity *)
Lemma dec2f64_sign : forall m e, dec2f64 (true, m, e) = 2 ^ 63 + dec2f64 (false, m, e).
Proof. intros. unfold dec2f64. lia. Qed.

Lemma dec2f64_zero : forall neg e, dec2f64 (neg, 0, e) = if neg then 2 ^ 63 else 0.
Proof. intros. unfold dec2f64, dec2f64_mag, fp_mag. cbn. destruct neg; lia. Qed.

(* integers below 2^53 are exact: with L = log2 m, the result is biased exponent L + 1023 and fraction m * 2^(52-L) - 2^52 *)
Lemma dec2f64_int_exact : forall m, 0 < m < 2 ^ 53 ->
  dec2f64 (false, m, 0) = (Z.log2 m + 1022) * 2 ^ 52 + m * 2 ^ (52 - Z.log2 m).
Proof.
  intros m Hm.
  pose proof (Z.log2_spec m (proj1 Hm)) as HL. pose proof (Z.log2_nonneg m) as HL0.
  set (L := Z.log2 m) in *.
  assert (HL52 : L <= 52).
  { destruct (Z_le_gt_dec L 52) as [|Hgt]; [assumption|].
    assert (2 ^ 53 <= 2 ^ L) by (apply Z.pow_le_mono_r; lia). lia. }
  assert (Hscale : forall k, 0 <= k -> 2 ^ (L + k) <= m * 2 ^ k < 2 ^ (L + 1 + k)).
  { intros k Hk. assert (0 < 2 ^ k) by (apply Z.pow_pos_nonneg; lia).
    replace (L + 1 + k) with (Z.succ L + k) by lia. rewrite !Z.pow_add_r by lia.
    split; [apply Z.mul_le_mono_nonneg_r; lia | apply Z.mul_lt_mono_pos_r; lia]. }
  unfold dec2f64, dec2f64_mag, fp_mag.
  set (inf := (2 * (2 - -1074 - 53) + 1) * 2 ^ (53 - 1)).
  assert (Hinf : inf = 2047 * 2 ^ 52) by reflexivity.
  set (c1 := (-1074 - 53) / 3 - 8). assert (Hc1 : c1 < 0) by reflexivity.
  set (c2 := (2 - -1074) / 3 + 8). assert (Hc2 : 0 < c2) by reflexivity.
  assert (Hdiv3 : 0 <= L / 3) by (apply Z.div_pos; lia).
  change (0 <=? 0) with true. cbv iota.
  rewrite Z.pow_0_r, Z.mul_1_r. change (Z.log2 1) with 0. fold L.
  replace (L - 0 - 53) with (L - 53) by lia.
  destruct (Z.leb_spec m 0) as [|_]; [lia|].
  destruct (Z.ltb_spec (0 + L / 3 + 1) c1) as [|_]; [lia|].
  destruct (Z.ltb_spec c2 0) as [|_]; [lia|].
  rewrite Z.max_l by lia.
  destruct (Z.leb_spec 0 (L - 53)) as [|_]; [lia|].
  replace (- (L - 53)) with (53 - L) by lia.
  rewrite Z.div_1_r.
  destruct (Hscale (53 - L)) as [Hlo Hhi]; [lia|].
  replace (L + (53 - L)) with 53 in Hlo by lia. replace (L + 1 + (53 - L)) with 54 in Hhi by lia.
  destruct (Z.leb_spec (2 ^ 53) (m * 2 ^ (53 - L))) as [_|]; [|lia].
  replace (L - 53 + 1) with (L - 52) by lia.
  destruct (Hscale (52 - L)) as [Hlo2 Hhi2]; [lia|].
  replace (L + (52 - L)) with 52 in Hlo2 by lia. replace (L + 1 + (52 - L)) with 53 in Hhi2 by lia.
  replace (53 - 1) with 52 by lia.
  destruct (Z.leb_spec 0 (L - 52)) as [Hk|Hk].
  - assert (HL' : L = 52) by lia.
    replace (52 - L) with 0 in Hlo2, Hhi2 by lia. rewrite Z.pow_0_r, Z.mul_1_r in Hlo2, Hhi2.
    rewrite HL'. replace (52 - 52) with 0 by lia. rewrite Z.pow_0_r, !Z.mul_1_r.
    rewrite Z.div_1_r, Z.mod_1_r. rewrite Z.mul_0_r.
    destruct (Z.ltb_spec 0 1) as [_|]; [|lia].
    destruct (Z.leb_spec inf ((0 - -1074) * 2 ^ 52 + m)) as [Hc|_]; [exfalso; lia|]. lia.
  - replace (- (L - 52)) with (52 - L) by lia.
    rewrite Z.div_1_r, Z.mod_1_r. rewrite Z.mul_0_r.
    destruct (Z.ltb_spec 0 1) as [_|]; [|lia].
    destruct (Z.leb_spec inf ((L - 52 - -1074) * 2 ^ 52 + m * 2 ^ (52 - L))) as [Hc|_]; [exfalso; nia|]. lia.
Qed.

(* the same fact, read through the IEEE-754 fields: biased exponent E in 1023..1075 and (2^52 + fraction) * 2^(E - 1075) = m *)
Lemma dec2f64_int_denotes : forall m, 0 < m < 2 ^ 53 ->
  let b := dec2f64 (false, m, 0) in
  let E := b / 2 ^ 52 in let F := b mod 2 ^ 52 in
  1023 <= E <= 1075 /\ 2 ^ 52 + F = m * 2 ^ (1075 - E) /\ 0 <= b < 2 ^ 63.
Proof.
  intros m Hm. cbv zeta. rewrite (dec2f64_int_exact m Hm).
  pose proof (Z.log2_spec m (proj1 Hm)) as HL. pose proof (Z.log2_nonneg m) as HL0.
  set (L := Z.log2 m) in *.
  assert (HL52 : L <= 52).
  { destruct (Z_le_gt_dec L 52) as [|Hgt]; [assumption|].
    assert (2 ^ 53 <= 2 ^ L) by (apply Z.pow_le_mono_r; lia). lia. }
  assert (Hs : 2 ^ 52 <= m * 2 ^ (52 - L) < 2 ^ 53).
  { assert (0 < 2 ^ (52 - L)) by (apply Z.pow_pos_nonneg; lia).
    replace (2 ^ 52) with (2 ^ L * 2 ^ (52 - L)) by (rewrite <- Z.pow_add_r by lia; f_equal; lia).
    replace (2 ^ 53) with (2 ^ Z.succ L * 2 ^ (52 - L)) by (rewrite <- Z.pow_add_r by lia; f_equal; lia).
    split; [apply Z.mul_le_mono_nonneg_r; lia | apply Z.mul_lt_mono_pos_r; lia]. }
  set (q := m * 2 ^ (52 - L)) in *.
  assert (H52 : 2 ^ 53 = 2 * 2 ^ 52) by reflexivity.
  assert (Hp : 0 < 2 ^ 52) by reflexivity.
  assert (Hd : ((L + 1022) * 2 ^ 52 + q) / 2 ^ 52 = L + 1023).
  { replace ((L + 1022) * 2 ^ 52 + q) with ((q - 2 ^ 52) + (L + 1023) * 2 ^ 52) by lia.
    rewrite Z.div_add by lia. rewrite Z.div_small by lia. lia. }
  assert (Hmod : ((L + 1022) * 2 ^ 52 + q) mod 2 ^ 52 = q - 2 ^ 52).
  { replace ((L + 1022) * 2 ^ 52 + q) with ((q - 2 ^ 52) + (L + 1023) * 2 ^ 52) by lia.
    rewrite Z.mod_add by lia. apply Z.mod_small. lia. }
  rewrite Hd, Hmod. split; [lia|]. split.
  - replace (1075 - (L + 1023)) with (52 - L) by lia. unfold q. lia.
  - assert (2 ^ 63 = 2048 * 2 ^ 52) by reflexivity. nia.
Qed.

(* ------------------------------------------------------------------------------------------------ agreement *)
(* if every flavour's output equals the model's output they are pairwise equal *)
Lemma agree_with_model_implies_pairwise : forall {A} (model : A) (outs : list A),
  Forall (fun o => o = model) outs -> forall a b, In a outs -> In b outs -> a = b.
Proof.
  intros A model outs H a b Ha Hb. rewrite Forall_forall in H. rewrite (H a Ha), (H b Hb). reflexivity.
Qed.

(* ------------------------------------------------------------------------------------------------ checker soundness *)
Lemma out_is_spec : forall exp r, out_is exp r = true -> fst r = 0 /\ snd r = exp.
Proof.
  intros exp [e o] H. unfold out_is in H. cbn in H. apply andb_true_iff in H. destruct H as [H1 H2].
  apply Z.eqb_eq in H1. apply list_eqb_Z_eq in H2. auto.
Qed.

Lemma expect_ok : forall c b d, expect c b d = VOk -> b = true.
Proof. intros c [|] d H; [reflexivity | discriminate H]. Qed.

Lemma vand_ok : forall a b, vand a b = VOk -> a = VOk /\ b = VOk.
Proof. intros [] b H; cbn in H; try discriminate H; auto. Qed.

(* 1803: a VOk verdict means every flavour that was run printed exactly fmt_int v (hence text that parse_int reads back as v) *)
Lemma check_1803_sound : forall v mask o0 e0 o1 e1 o2 e2 op ep ref,
  check_1803 [FZ v; FZ mask; FB o0; FZ e0; FB o1; FZ e1; FB o2; FZ e2; FB op; FZ ep; FB ref] = VOk ->
  forall e o, In (e, o) (sel mask [(e0, o0); (e1, o1); (e2, o2)]) -> e = 0 /\ o = fmt_int v /\ parse_int o = Some v.
Proof.
  intros v mask o0 e0 o1 e1 o2 e2 op ep ref H e o Hin. unfold check_1803 in H.
  destruct (bytes_eqb ref (fmt_int v)); cbn [negb] in H; [|discriminate H].
  apply vand_ok in H. destruct H as [H _]. apply expect_ok in H.
  rewrite forallb_forall in H. specialize (H _ Hin). apply out_is_spec in H. cbn in H. destruct H as [-> ->].
  repeat split. apply parse_int_fmt_int.
Qed.

(* 1805: a VOk verdict on a valid UTF-8 input means every flavour's output is a JSON string literal that unquotes to the input *)
Lemma check_1805_sound : forall s place mask o0 e0 o1 e1 o2 e2 op ep,
  check_1805 [FB s; FZ place; FZ mask; FB o0; FZ e0; FB o1; FZ e1; FB o2; FZ e2; FB op; FZ ep] = VOk ->
  utf8_valid s = true ->
  forall e o, In (e, o) ((ep, op) :: sel mask [(e0, o0); (e1, o1); (e2, o2)]) -> e = 0 /\ unquote o = Some s.
Proof.
  intros s place mask o0 e0 o1 e1 o2 e2 op ep H Hu e o Hin. unfold check_1805 in H. rewrite Hu in H. cbn [negb] in H.
  apply vand_ok in H. destruct H as [H1 H]. apply vand_ok in H. destruct H as [H2 _].
  apply expect_ok in H1. apply expect_ok in H2.
  assert (Hx : unquotes_to s (e, o) = true).
  { destruct Hin as [Heq|Hin]; [inversion Heq; subst; exact H2|]. rewrite forallb_forall in H1. exact (H1 _ Hin). }
  unfold unquotes_to in Hx. cbn in Hx. apply andb_true_iff in Hx. destruct Hx as [He Hq]. apply Z.eqb_eq in He.
  destruct (unquote o) as [s'|]; [|discriminate Hq]. apply list_eqb_Z_eq in Hq. subst. auto.
Qed.

(* 1804: a VOk verdict on finite bits means: every text is a JSON number lexeme whose exact decimal value d satisfies the SPECIFICATION of
   correct rounding to the input bits (f64_rounds_to d bits) and is mapped to them by the algorithm (dec2f64 d = bits) *)
Definition text_denotes (bits : Z) (o : list Z) : Prop :=
  exists d, lex_decimal o = Some d /\ dec2f64 d = bits /\ f64_rounds_to d bits = true.

Definition memo_ok (bits : Z) (memo : list Z * option (Z * bool)) : Prop :=
  forall b' ok, snd memo = Some (b', ok) ->
  exists d, lex_decimal (fst memo) = Some d /\ dec2f64 d = b' /\ f64_rounds_to d bits = ok.

Lemma read_text_sound : forall bits memo o, memo_ok bits memo -> memo_ok bits (o, read_text bits memo o).
Proof.
  intros bits [mo mr] o Hm b' ok H. unfold read_text in H. cbn [fst snd] in *.
  destruct (bytes_eqb o mo) eqn:E.
  - apply list_eqb_Z_eq in E. subst o. apply Hm. exact H.
  - destruct (lex_decimal o) as [d|]; [|discriminate H]. injection H as <- <-. exists d. auto.
Qed.

Lemma judge_texts_sound : forall bits l memo,
  (forall x, In x l -> fst x <> 0) -> memo_ok bits memo ->
  judge_texts bits memo l = 0 ->
  forall tag e o k b, In (tag, (e, o, k, b)) l -> e = 0 /\ text_denotes bits o.
Proof.
  intros bits l. induction l as [|[tag0 r] l IH]; intros memo Htag Hm H tag e o k b Hin; [destruct Hin|].
  cbn [judge_texts] in H.
  set (o0 := snd (fst (fst r))) in *. set (rd := read_text bits memo o0) in *.
  pose proof (read_text_sound bits memo o0 Hm) as Hrd. fold rd in Hrd.
  destruct (judge_text bits r rd =? 0) eqn:Ej.
  - apply Z.eqb_eq in Ej.
    destruct Hin as [Heq|Hin].
    + inversion Heq; subst tag0 r. cbn in o0. subst o0. unfold judge_text in Ej.
      destruct rd as [[b' ok]|] eqn:Erd; [|discriminate Ej].
      destruct ((k =? 1) && (b' =? b)); cbn [negb] in Ej; [|discriminate Ej].
      destruct (Bool.eqb ok (b' =? bits)); cbn [negb] in Ej; [|discriminate Ej].
      destruct ((e =? 0) && (b' =? bits) && ok) eqn:E2; [|discriminate Ej].
      apply andb_true_iff in E2. destruct E2 as [E2 Hok]. apply andb_true_iff in E2. destruct E2 as [He Hb].
      apply Z.eqb_eq in He. apply Z.eqb_eq in Hb. subst b' ok.
      destruct (Hrd bits true eq_refl) as (d & Hd & Hb & Hs). split; [exact He|]. exists d. auto.
    + apply (IH (o0, rd)) with (tag := tag) (k := k) (b := b); [|exact Hrd|exact H|exact Hin]. intros x Hx. apply Htag. right. exact Hx.
  - exfalso. destruct (judge_text bits r rd =? 2); [discriminate H|].
    apply (Htag (tag0, r)); [left; reflexivity | exact H].
Qed.

Lemma check_1804_sound : forall bits mask o0 e0 k0 b0 o1 e1 k1 b1 o2 e2 k2 b2 op ep kp bp,
  check_1804 [FZ bits; FZ mask; FB o0; FZ e0; FZ k0; FZ b0; FB o1; FZ e1; FZ k1; FZ b1; FB o2; FZ e2; FZ k2; FZ b2; FB op; FZ ep; FZ kp; FZ bp] = VOk ->
  f64_is_finite bits = true ->
  forall e o k b, In (e, o, k, b) ((ep, op, kp, bp) :: sel mask [(e0, o0, k0, b0); (e1, o1, k1, b1); (e2, o2, k2, b2)]) ->
  e = 0 /\ text_denotes bits o.
Proof.
  intros bits mask o0 e0 k0 b0 o1 e1 k1 b1 o2 e2 k2 b2 op ep kp bp H Hf e o k b Hin.
  unfold check_1804 in H. rewrite Hf in H. cbn [negb] in H.
  set (nats := sel mask [(e0, o0, k0, b0); (e1, o1, k1, b1); (e2, o2, k2, b2)]) in *.
  set (l := map (fun r => (1, r)) nats ++ [(3, (ep, op, kp, bp))]) in *.
  destruct (judge_texts bits ([], None) l =? 0) eqn:Ej.
  - apply Z.eqb_eq in Ej.
    assert (Hl : exists tag, In (tag, (e, o, k, b)) l).
    { destruct Hin as [Heq|Hin].
      - exists 3. subst l. apply in_or_app. right. left. rewrite Heq. reflexivity.
      - exists 1. subst l. apply in_or_app. left. apply in_map_iff. exists (e, o, k, b). auto. }
    destruct Hl as [tag Hl].
    eapply (judge_texts_sound bits l ([], None)); [| |exact Ej|exact Hl].
    + intros x Hx. subst l. apply in_app_or in Hx. destruct Hx as [Hx|[Hx|[]]].
      * apply in_map_iff in Hx. destruct Hx as (r & <- & _). cbn. lia.
      * subst x. cbn. lia.
    + intros b' ok Hb. discriminate Hb.
  - destruct (judge_texts bits ([], None) l =? 2); [discriminate H|].
    destruct (judge_texts bits ([], None) l =? 1); discriminate H.
Qed.

(* 1802: a VOk verdict with a model skip that succeeds means SkipGo and every flavour of SkipNative that was run consumed exactly
   the model's count — unless the bytes are not a strict well-formed value, in which case VOk still means they all agree *)
Lemma judge_1802_sound : forall r dec deep nq len eg ng nats,
  judge_1802 (Some r) dec deep nq len eg ng nats = VOk ->
  eg = 0 /\ ng = len - zlen r /\ forall e n, In (e, n) nats -> e = 0 /\ n = ng.
Proof.
  intros r dec deep nq len eg ng nats H. unfold judge_1802 in H.
  destruct (all_same pair_eqb nats); cbn [negb] in H; [|discriminate H].
  apply vand_ok in H. destruct H as [H1 H2].
  apply expect_ok in H1. apply andb_true_iff in H1. destruct H1 as [He Hn]. apply Z.eqb_eq in He. apply Z.eqb_eq in Hn.
  split; [exact He|]. split; [exact Hn|].
  assert (HP : forallb (fun x : Z * Z => (fst x =? 0) && (snd x =? len - zlen r)) nats = true).
  { destruct (dec tt) as [[v rest]|].
    - destruct (wf v && strict18 v); [apply expect_ok in H2; exact H2|].
      destruct (forallb _ nats); [reflexivity|discriminate H2].
    - destruct (forallb _ nats); [reflexivity|discriminate H2]. }
  intros e n Hin. rewrite forallb_forall in HP. specialize (HP _ Hin). cbn in HP.
  apply andb_true_iff in HP. destruct HP as [A B]. apply Z.eqb_eq in A. apply Z.eqb_eq in B. split; [exact A|lia].
Qed.

Lemma check_1802_sound : forall t bs mask eg ng e0 n0 e1 n1 e2 n2 r,
  check_1802 [FZ t; FB bs; FZ mask; FZ eg; FZ ng; FZ e0; FZ n0; FZ e1; FZ n1; FZ e2; FZ n2] = VOk ->
  skip_go t bs = Some r ->
  eg = 0 /\ ng = zlen bs - zlen r /\
  forall e n, In (e, n) (sel mask [(e0, n0); (e1, n1); (e2, n2)]) -> e = 0 /\ n = ng.
Proof.
  intros t bs mask eg ng e0 n0 e1 n1 e2 n2 r H Hs.
  change (judge_1802 (skip_go t bs) (fun _ => decode (S (length bs)) t bs) (fun _ => skip (S (length bs)) t bs) (fun _ => skip_nq (S (length bs)) t bs) (zlen bs) eg ng (sel mask [(e0, n0); (e1, n1); (e2, n2)]) = VOk) in H.
  rewrite Hs in H. exact (judge_1802_sound _ _ _ _ _ _ _ _ H).
Qed.

(* 1801: a VOk verdict means AGREEMENT: either every implementation that was run rejected the document, or all of them accepted it
   and produced byte-identical output *)
Lemma res_eqb_spec : forall a b, res_eqb a b = true ->
  (fst a <> 0 /\ fst b <> 0) \/ (fst a = 0 /\ fst b = 0 /\ snd a = snd b).
Proof.
  intros [ea oa] [eb ob] H. unfold res_eqb in H. cbn [fst snd] in *. apply andb_true_iff in H. destruct H as [H1 H2].
  destruct (Z.eqb_spec ea 0) as [->|Ha]; destruct (Z.eqb_spec eb 0) as [->|Hb]; cbn in H1; try discriminate H1.
  - right. cbn in H2. apply list_eqb_Z_eq in H2. auto.
  - left. auto.
Qed.

Lemma judge_1801_ok_agree : forall ds root ob doc nats p,
  judge_1801 ds root ob doc nats p = VOk ->
  (forall r, In r (p :: nats) -> fst r <> 0) \/
  (forall r, In r (p :: nats) -> fst r = 0 /\ snd r = snd p).
Proof.
  intros ds root ob doc nats [ep op] H. unfold judge_1801 in H. cbn [fst snd] in H.
  destruct (existsb (fun r => fst r =? 3) ((ep, op) :: nats)); [discriminate H|].
  destruct nats as [|[en on] nats']; [discriminate H|].
  destruct (all_same res_eqb ((en, on) :: nats')) eqn:Esame; cbn [negb] in H; [|discriminate H].
  unfold all_same in Esame. rewrite forallb_forall in Esame.
  destruct (negb (en =? 0) && negb (ep =? 0)) eqn:Eerr.
  - (* all reject *)
    left. apply andb_true_iff in Eerr. destruct Eerr as [En Ep]. apply negb_true_iff in En, Ep. apply Z.eqb_neq in En, Ep.
    intros r [<-|[<-|Hin]]; cbn [fst]; [exact Ep|exact En|].
    destruct (res_eqb_spec _ _ (Esame _ Hin)) as [[_ Hr]|[He _]]; [exact Hr | cbn in He; contradiction].
  - destruct (has K_CONTRA _); [discriminate H|].
    destruct (negb (negb (en =? 0)) && negb (negb (ep =? 0)) && bytes_eqb on op) eqn:Eacc.
    + right. apply andb_true_iff in Eacc. destruct Eacc as [Eacc Eb]. apply andb_true_iff in Eacc. destruct Eacc as [En Ep].
      rewrite negb_involutive in En, Ep. apply Z.eqb_eq in En, Ep. apply list_eqb_Z_eq in Eb. subst en ep on.
      intros r [<-|[<-|Hin]]; cbn [fst snd]; [auto|auto|].
      destruct (res_eqb_spec _ _ (Esame _ Hin)) as [[He _]|[_ [Hr Ho]]]; [cbn in He; contradiction | cbn in Ho; auto].
    + (* the remaining branches never return VOk *)
      exfalso. revert H. clear.
      repeat match goal with
             | |- context [if ?c then _ else _] => destruct c
             | |- context [match ?x with _ => _ end] => destruct x
             end; intros H; discriminate H.
Qed.

(* ------------------------------------------------------------------------------------------------ unquote is sound *)
(* more fuel never changes a successful string parse *)
Lemma app_res_mono : forall pre (a b : option (list Z * list Z)) x,
  (forall y, a = Some y -> b = Some y) -> app_res pre a = Some x -> app_res pre b = Some x.
Proof.
  intros pre a b x Hab H. destruct a as [[s r]|]; [|discriminate H]. rewrite (Hab _ eq_refl). exact H.
Qed.

Lemma parse_str_mono : forall f bs x, parse_str f bs = Some x -> parse_str (S f) bs = Some x.
Proof.
  induction f as [|f IH]; intros bs x H; [discriminate H|].
  rewrite parse_str_S in H. rewrite parse_str_S.
  destruct bs as [|c r]; [discriminate H|].
  destruct (c =? 34); [exact H|].
  destruct (c =? 92).
  - destruct r as [|e r2]; [discriminate H|].
    destruct (e =? 117).
    + destruct (hex4 r2) as [[u r3]|]; [|discriminate H].
      destruct (is_hi_sur u).
      * destruct r3 as [|b1 r3]; [discriminate H|]. destruct r3 as [|b2 r4]; [discriminate H|].
        destruct ((b1 =? 92) && (b2 =? 117)); [|discriminate H].
        destruct (hex4 r4) as [[lo r5]|]; [|discriminate H].
        destruct (is_lo_sur lo); [|discriminate H].
        revert H. apply app_res_mono. intros y. apply IH.
      * destruct (is_lo_sur u); [discriminate H|].
        revert H. apply app_res_mono. intros y. apply IH.
    + destruct (simple_escape e); [|discriminate H].
      revert H. apply app_res_mono. intros y. apply IH.
  - destruct ((c <? 32) || (255 <? c)); [discriminate H|].
    revert H. apply app_res_mono. intros y. apply IH.
Qed.

(* whatever [unquote] accepts is a complete JSON document, namely the string literal denoting the returned bytes *)
Lemma unquote_sound : forall lit s, unquote lit = Some s -> json_parse lit = Some (JStr s).
Proof.
  intros lit s H. unfold unquote in H. destruct lit as [|c r]; [discriminate H|].
  destruct (Z.eqb_spec c 34) as [->|]; [|discriminate H].
  destruct (parse_str (S (length r)) r) as [[s' rest]|] eqn:E; [|discriminate H].
  destruct rest; [|discriminate H]. injection H as ->.
  unfold json_parse. cbn [length]. rewrite pv_str.
  rewrite (parse_str_mono _ _ _ E). reflexivity.
Qed.

(* ------------------------------------------------------------------------------------------------ 1807: agreement with the model *)
(* a VOk verdict of the model comparison means: every implementation produced exactly the model's bytes — hence (by
   agree_with_model_implies_pairwise) the same bytes as every other — or the model rejects and everybody rejected *)
Lemma judge_1807_ok : forall m known nats p,
  judge_1807 m known nats p = VOk ->
  match m with
  | Ok bs => forall r, In r (p :: nats) -> fst r = 0 /\ snd r = bs
  | Err _ => forall r, In r (p :: nats) -> fst r <> 0
  end.
Proof.
  intros m known nats p H. unfold judge_1807 in H. destruct m as [bs|c].
  - destruct (forallb (out_is bs) (p :: nats)) eqn:E.
    + intros r Hin. rewrite forallb_forall in E. apply out_is_spec. apply E. exact Hin.
    + destruct (known && forallb (out_is bs) nats); discriminate H.
  - destruct (forallb (fun r => negb (fst r =? 0)) (p :: nats)) eqn:E; [|discriminate H].
    intros r Hin. rewrite forallb_forall in E. specialize (E _ Hin). apply negb_true_iff in E. apply Z.eqb_neq in E. exact E.
Qed.

Lemma judge_1807_ok_pairwise : forall bs known nats p,
  judge_1807 (Ok bs) known nats p = VOk ->
  forall a b, In a (p :: nats) -> In b (p :: nats) -> snd a = snd b.
Proof.
  intros bs known nats p H a b Ha Hb. pose proof (judge_1807_ok _ _ _ _ H) as Hm. cbn in Hm.
  apply (agree_with_model_implies_pairwise bs (map snd (p :: nats))).
  - rewrite Forall_forall. intros o Ho. apply in_map_iff in Ho. destruct Ho as (r & <- & Hr). apply (Hm r Hr).
  - apply in_map. exact Ha.
  - apply in_map. exact Hb.
Qed.

(* ------------------------------------------------------------------------------------------------ 1809: http-mapped requests *)
Lemma check_1809_ok_agree : forall bits bk body src mask o0 e0 o1 e1 o2 e2 op ep,
  check_1809 [FZ bits; FZ bk; FB body; FB src; FZ mask; FB o0; FZ e0; FB o1; FZ e1; FB o2; FZ e2; FB op; FZ ep] = VOk ->
  let all := (ep, op) :: sel mask [(e0, o0); (e1, o1); (e2, o2)] in
  (forall r, In r all -> fst r <> 0) \/ (forall r, In r all -> fst r = 0 /\ snd r = op).
Proof.
  intros bits bk body src mask o0 e0 o1 e1 o2 e2 op ep H. cbv zeta. unfold check_1809 in H.
  set (nats := sel mask [(e0, o0); (e1, o1); (e2, o2)]) in *.
  destruct (existsb (fun r => fst r =? 5) ((ep, op) :: nats)); [discriminate H|].
  destruct (existsb (fun r => fst r =? 3) ((ep, op) :: nats)); [discriminate H|].
  destruct nats as [|n0 nats']; [discriminate H|].
  destruct (all_same res_eqb (n0 :: nats')) eqn:Esame; cbn [negb] in H; [|discriminate H].
  destruct (res_eqb n0 (ep, op)) eqn:Hr.
  2:{ exfalso. revert H. clear.
      repeat match goal with
             | |- context [if ?c then _ else _] => destruct c
             | |- context [match ?x with _ => _ end] => destruct x
             end; intros H; discriminate H. }
  clear H. rename Hr into H. unfold all_same in Esame. rewrite forallb_forall in Esame.
  destruct (res_eqb_spec _ _ H) as [[Hn Hp]|[Hn [Hp Ho]]]; cbn [fst snd] in *.
  - left. intros r [<-|[<-|Hin]]; cbn [fst]; [exact Hp|exact Hn|].
    destruct (res_eqb_spec _ _ (Esame _ Hin)) as [[_ Hr]|[He _]]; [exact Hr|contradiction].
  - right. intros r [<-|[<-|Hin]]; cbn [fst snd]; [auto|auto|].
    destruct (res_eqb_spec _ _ (Esame _ Hin)) as [[He _]|[_ [Hr Ho']]]; [contradiction|]. split; [exact Hr|congruence].
Qed.
