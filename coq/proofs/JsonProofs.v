(* JSON: the parser inverts the printer (strings, numbers, nested values). *)
From Coq Require Import ZArith List Bool Lia.
From DG Require Import Json.
Import ListNotations.
Local Open Scope Z_scope.

(* a property checked on 0..k-1 one by one holds for every integer in that range *)
Lemma Z_range_Forall : forall (P : Z -> Prop) (k : nat),
  Forall P (map Z.of_nat (seq 0 k)) -> forall n, 0 <= n < Z.of_nat k -> P n.
Proof.
  intros P k Hall n Hn. rewrite Forall_forall in Hall. apply Hall.
  rewrite <- (Z2Nat.id n) by lia. apply in_map. apply in_seq. lia.
Qed.

Lemma jbyte_okb_range : forall c, jbyte_okb c = true <-> 0 <= c < 256.
Proof. intros c. unfold jbyte_okb. rewrite andb_true_iff, Z.leb_le, Z.ltb_lt. tauto. Qed.

(* ------------------------------------------------------------------ strings *)

Lemma parse_str_S : forall f bs, parse_str (S f) bs =
  match bs with
  | [] => None
  | c :: r =>
    if c =? 34 then Some ([], r)
    else if c =? 92 then
      match r with
      | [] => None
      | e :: r2 =>
        if e =? 117 then
          match hex4 r2 with
          | None => None
          | Some (u, r3) =>
            if is_hi_sur u then
              match r3 with
              | b1 :: b2 :: r4 =>
                if (b1 =? 92) && (b2 =? 117) then
                  match hex4 r4 with
                  | Some (lo, r5) =>
                    if is_lo_sur lo
                    then app_res (utf8_enc (65536 + (u - 55296) * 1024 + (lo - 56320))) (parse_str f r5)
                    else None
                  | None => None
                  end
                else None
              | _ => None
              end
            else if is_lo_sur u then None
            else app_res (utf8_enc u) (parse_str f r3)
          end
        else match simple_escape e with
             | Some x => app_res [x] (parse_str f r2)
             | None => None
             end
      end
    else if (c <? 32) || (255 <? c) then None
    else app_res [c] (parse_str f r)
  end.
Proof. reflexivity. Qed.

(* one source byte: its escape sequence is read back as that byte *)
Lemma parse_esc_small : forall c, 0 <= c < Z.of_nat 35 ->
  forall f rest, parse_str (S f) (esc_byte c ++ rest) = app_res [c] (parse_str f rest).
Proof.
  apply (Z_range_Forall (fun c => forall f rest, parse_str (S f) (esc_byte c ++ rest) = app_res [c] (parse_str f rest))).
  let l := eval vm_compute in (map Z.of_nat (seq 0 35)) in change (map Z.of_nat (seq 0 35)) with l.
  repeat (apply Forall_cons; [intros f rest; reflexivity|]). apply Forall_nil.
Qed.

Lemma parse_esc_byte : forall c, 0 <= c < 256 ->
  forall f rest, parse_str (S f) (esc_byte c ++ rest) = app_res [c] (parse_str f rest).
Proof.
  intros c Hc f rest.
  destruct (Z.lt_ge_cases c 35) as [Hs|Hb]; [apply parse_esc_small; cbn; lia|].
  destruct (Z.eq_dec c 92) as [->|H92]; [reflexivity|].
  assert (E : esc_byte c = [c]).
  { unfold esc_byte.
    destruct (Z.eqb_spec c 34); [lia|]. destruct (Z.eqb_spec c 92); [lia|].
    destruct (Z.eqb_spec c 10); [lia|]. destruct (Z.eqb_spec c 13); [lia|]. destruct (Z.eqb_spec c 9); [lia|].
    destruct (Z.ltb_spec c 32); [lia|]. reflexivity. }
  rewrite E. cbn [app]. rewrite parse_str_S.
  destruct (Z.eqb_spec c 34); [lia|]. destruct (Z.eqb_spec c 92); [lia|].
  destruct (Z.ltb_spec c 32); [lia|]. destruct (Z.ltb_spec 255 c); [lia|]. reflexivity.
Qed.

Lemma Forall_jbytes : forall s, jbytes_okb s = true -> Forall (fun c => 0 <= c < 256) s.
Proof.
  intros s H. unfold jbytes_okb in H. rewrite forallb_forall in H.
  apply Forall_forall. intros c Hc. apply jbyte_okb_range. auto.
Qed.

Lemma parse_str_escape : forall s fuel r,
  jbytes_okb s = true -> (length s < fuel)%nat -> parse_str fuel (escape s ++ 34 :: r) = Some (s, r).
Proof.
  induction s as [|c t IH]; intros fuel r Hok Hf.
  - destruct fuel as [|f]; [cbn in Hf; lia|]. reflexivity.
  - destruct fuel as [|f]; [cbn in Hf; lia|].
    cbn in Hok. apply andb_true_iff in Hok. destruct Hok as [Hc Ht].
    apply jbyte_okb_range in Hc.
    unfold escape. cbn [flat_map]. rewrite <- app_assoc.
    rewrite (parse_esc_byte c Hc). fold (escape t).
    rewrite (IH f r Ht) by (cbn in Hf; lia). reflexivity.
Qed.

Lemma esc_byte_nonempty : forall c, (1 <= length (esc_byte c))%nat.
Proof.
  intros c. unfold esc_byte.
  repeat match goal with |- context [if ?b then _ else _] => destruct b end; cbn; lia.
Qed.

Lemma escape_length : forall s, (length s <= length (escape s))%nat.
Proof.
  induction s as [|c t IH]; [cbn; lia|].
  unfold escape. cbn [flat_map length]. rewrite app_length. fold (escape t).
  pose proof (esc_byte_nonempty c). lia.
Qed.

Theorem unquote_quote_ref : forall s, jbytes_okb s = true -> unquote (quote_ref s) = Some s.
Proof.
  intros s Hok. unfold unquote, quote_ref. rewrite Z.eqb_refl.
  rewrite (parse_str_escape s _ [] Hok); [reflexivity|].
  rewrite app_length. pose proof (escape_length s). cbn. lia.
Qed.

(* the quoted form contains no raw control byte, and quote / backslash only as part of an escape:
   stated through the parser — the literal is accepted and nothing but the closing quote ends it. *)

(* ------------------------------------------------------------------ numbers *)

Lemma num_step_numchar : forall st c st', num_step st c = Some st' -> is_numchar c = true.
Proof.
  intros st c st' H. unfold is_numchar.
  destruct st; cbn [num_step] in H;
  repeat match type of H with
  | (if ?b then _ else _) = _ => let E := fresh "E" in destruct b eqn:E
  end; try discriminate;
  repeat match goal with
  | E : (_ =? _) = true |- _ => apply Z.eqb_eq in E; subst
  | E : (_ || _) = true |- _ => apply orb_true_iff in E; destruct E
  end; try reflexivity;
  repeat match goal with E : ?b = true |- context [?b] => rewrite E end;
  rewrite ?orb_true_r; reflexivity.
Qed.

Lemma scan_num_app : forall l st l' r,
  scan_num st l = Some (l', []) -> stop r = true -> l' = l /\ scan_num st (l ++ r) = Some (l, r).
Proof.
  induction l as [|c t IH]; intros st l' r Hs Hr.
  - cbn in Hs. destruct (num_acc st) eqn:Ha; [|discriminate]. inversion Hs; subst. split; [reflexivity|].
    cbn [app]. destruct r as [|c r]; [cbn; rewrite Ha; reflexivity|].
    cbn [scan_num]. destruct (num_step st c) as [st'|] eqn:E.
    + apply num_step_numchar in E. cbn in Hr. rewrite E in Hr. discriminate.
    + rewrite Ha. reflexivity.
  - cbn [scan_num] in Hs. destruct (num_step st c) as [st'|] eqn:E.
    + destruct (scan_num st' t) as [[l1 r1]|] eqn:E2; [|discriminate].
      inversion Hs; subst.
      destruct (IH st' l1 r E2 Hr) as [-> H2].
      split; [reflexivity|]. cbn [app scan_num]. rewrite E, H2. reflexivity.
    + destruct (num_acc st); discriminate.
Qed.

Lemma num_ok_scan : forall l r, num_okb l = true -> stop r = true -> scan_num N0 (l ++ r) = Some (l, r).
Proof.
  intros l r H Hr. unfold num_okb in H.
  destruct (scan_num N0 l) as [[l' r']|] eqn:E; [|discriminate].
  destruct r'; [|discriminate].
  exact (proj2 (scan_num_app l N0 l' r E Hr)).
Qed.

(* a number lexeme starts with '-' or a digit *)
Lemma num_ok_head : forall l, num_okb l = true -> exists c t, l = c :: t /\ (c = 45 \/ 48 <= c <= 57).
Proof.
  intros l H. unfold num_okb in H. destruct l as [|c t]; [discriminate|].
  exists c, t. split; [reflexivity|].
  cbn [scan_num] in H. destruct (num_step N0 c) eqn:E; [|discriminate].
  cbn [num_step] in E.
  destruct (Z.eqb_spec c 45); [left; assumption|].
  destruct (Z.eqb_spec c 48); [right; lia|].
  destruct (is_digit c) eqn:D; [|discriminate].
  unfold is_digit in D. apply andb_true_iff in D. rewrite !Z.leb_le in D. right; lia.
Qed.

(* ------------------------------------------------------------------ values *)

Section JsonInd.
  Variable P : json -> Prop.
  Hypothesis HNull : P JNull.
  Hypothesis HBool : forall b, P (JBool b).
  Hypothesis HNum : forall l, P (JNum l).
  Hypothesis HStr : forall s, P (JStr s).
  Hypothesis HArr : forall xs, Forall P xs -> P (JArr xs).
  Hypothesis HObj : forall ms, Forall (fun m => P (snd m)) ms -> P (JObj ms).
  Fixpoint json_ind' (j : json) : P j :=
    match j with
    | JNull => HNull
    | JBool b => HBool b
    | JNum l => HNum l
    | JStr s => HStr s
    | JArr xs => HArr xs ((fix go (l : list json) : Forall P l :=
                             match l with [] => Forall_nil _ | x :: l' => Forall_cons x (json_ind' x) (go l') end) xs)
    | JObj ms => HObj ms ((fix go (l : list (list Z * json)) : Forall (fun m => P (snd m)) l :=
                             match l with [] => Forall_nil _ | m :: l' => Forall_cons m (json_ind' (snd m)) (go l') end) ms)
    end.
End JsonInd.

Lemma parse_value_S : forall d' bs, parse_value (S d') bs =
  match skip_ws bs with
  | [] => None
  | c :: r =>
    if c =? 110 then match match_lit [117; 108; 108] r with Some r' => Some (JNull, r') | None => None end
    else if c =? 116 then match match_lit [114; 117; 101] r with Some r' => Some (JBool true, r') | None => None end
    else if c =? 102 then match match_lit [97; 108; 115; 101] r with Some r' => Some (JBool false, r') | None => None end
    else if c =? 34 then match parse_str d' r with Some (s, r') => Some (JStr s, r') | None => None end
    else if c =? 91 then
      match skip_ws r with
      | [] => None
      | c2 :: r2 =>
        if c2 =? 93 then Some (JArr [], r2)
        else match parse_elems (parse_value d') d' r with Some (xs, r') => Some (JArr xs, r') | None => None end
      end
    else if c =? 123 then
      match skip_ws r with
      | [] => None
      | c2 :: r2 =>
        if c2 =? 125 then Some (JObj [], r2)
        else match parse_members (parse_value d') d' r with Some (ms, r') => Some (JObj ms, r') | None => None end
      end
    else match scan_num N0 (c :: r) with Some (l, r') => Some (JNum l, r') | None => None end
  end.
Proof. reflexivity. Qed.

Lemma pv_str : forall d' t, parse_value (S d') (34 :: t) =
  match parse_str d' t with Some (s, r') => Some (JStr s, r') | None => None end.
Proof. reflexivity. Qed.

Lemma pv_arr : forall d' t, parse_value (S d') (91 :: t) =
  match skip_ws t with
  | [] => None
  | c2 :: r2 =>
    if c2 =? 93 then Some (JArr [], r2)
    else match parse_elems (parse_value d') d' t with Some (xs, r') => Some (JArr xs, r') | None => None end
  end.
Proof. reflexivity. Qed.

Lemma pv_obj : forall d' t, parse_value (S d') (123 :: t) =
  match skip_ws t with
  | [] => None
  | c2 :: r2 =>
    if c2 =? 125 then Some (JObj [], r2)
    else match parse_members (parse_value d') d' t with Some (ms, r') => Some (JObj ms, r') | None => None end
  end.
Proof. reflexivity. Qed.

Lemma pv_num : forall d' c t, (c = 45 \/ 48 <= c <= 57) ->
  parse_value (S d') (c :: t) = match scan_num N0 (c :: t) with Some (l, r') => Some (JNum l, r') | None => None end.
Proof.
  intros d' c t Hc. rewrite parse_value_S. cbn [skip_ws]. unfold is_ws.
  destruct (Z.eqb_spec c 32); [lia|]. destruct (Z.eqb_spec c 9); [lia|].
  destruct (Z.eqb_spec c 10); [lia|]. destruct (Z.eqb_spec c 13); [lia|]. cbn [orb].
  destruct (Z.eqb_spec c 110); [lia|]. destruct (Z.eqb_spec c 116); [lia|]. destruct (Z.eqb_spec c 102); [lia|].
  destruct (Z.eqb_spec c 34); [lia|]. destruct (Z.eqb_spec c 91); [lia|]. destruct (Z.eqb_spec c 123); [lia|].
  reflexivity.
Qed.

(* first character of a printed value: not white space, not a closing bracket *)
Definition starts_value (bs : list Z) : Prop :=
  exists c t, bs = c :: t /\ is_ws c = false /\ (c =? 93) = false /\ (c =? 125) = false.

Lemma print_starts : forall j, json_wf j = true -> starts_value (json_print j).
Proof.
  intros j Hw. unfold starts_value. destruct j as [| b | l | s | xs | ms]; cbn [json_print].
  - do 2 eexists. split; [reflexivity|]. repeat split; reflexivity.
  - destruct b; do 2 eexists; (split; [reflexivity|]); repeat split; reflexivity.
  - cbn in Hw. destruct (num_ok_head l Hw) as (c & t & -> & Hc). exists c, t. split; [reflexivity|].
    unfold is_ws.
    destruct (Z.eqb_spec c 32); [lia|]. destruct (Z.eqb_spec c 9); [lia|].
    destruct (Z.eqb_spec c 10); [lia|]. destruct (Z.eqb_spec c 13); [lia|].
    destruct (Z.eqb_spec c 93); [lia|]. destruct (Z.eqb_spec c 125); [lia|]. repeat split; reflexivity.
  - unfold quote_ref. do 2 eexists. split; [reflexivity|]. repeat split; reflexivity.
  - do 2 eexists. split; [reflexivity|]. repeat split; reflexivity.
  - do 2 eexists. split; [reflexivity|]. repeat split; reflexivity.
Qed.

Lemma skip_ws_starts : forall bs r, starts_value bs -> skip_ws (bs ++ r) = bs ++ r.
Proof.
  intros bs r (c & t & -> & Hw & _). cbn [app skip_ws]. rewrite Hw. reflexivity.
Qed.

(* the round-trip statement for one value, at every fuel above the remaining input length *)
Definition RT (j : json) : Prop :=
  json_wf j = true -> forall d r, (length (json_print j ++ r) < d)%nat -> stop r = true ->
  parse_value d (json_print j ++ r) = Some (j, r).

Lemma stop_tail : forall close l r, close = 93 \/ close = 125 -> stop (print_tail json_print close l ++ r) = true.
Proof. intros close l r [-> | ->]; destruct l; reflexivity. Qed.

Lemma stop_mtail : forall l r, stop (print_mtail json_print l ++ r) = true.
Proof. intros l r; destruct l; reflexivity. Qed.

Ltac lens := repeat first [ progress (unfold print_member, quote_ref in * ) | progress (cbn [fst snd] in * ) | progress (rewrite ?app_length in * ) | progress (rewrite <- ?app_assoc in * ) | progress (cbn [length print_tail print_mtail app] in * ) ].

Lemma elems_rt : forall d' l x fuel r,
  RT x -> Forall RT l -> json_wf x = true -> forallb json_wf l = true ->
  (length (json_print x ++ print_tail json_print 93 l ++ r) < fuel)%nat ->
  (length (json_print x ++ print_tail json_print 93 l ++ r) < d')%nat ->
  parse_elems (parse_value d') fuel (json_print x ++ print_tail json_print 93 l ++ r) = Some (x :: l, r).
Proof.
  intros d'. induction l as [|y l IH]; intros x fuel r Hx Hl Wx Wl Hf Hd.
  - destruct fuel as [|f]; [lia|]. cbn [parse_elems print_tail].
    rewrite (Hx Wx d' ([93] ++ r) Hd eq_refl). reflexivity.
  - destruct fuel as [|f]; [lia|]. cbn [parse_elems].
    rewrite (Hx Wx d' _ Hd (stop_tail 93 (y :: l) r (or_introl eq_refl))).
    cbn [print_tail app skip_ws]. change (is_ws 44) with false. cbn iota. change (44 =? 44) with true. cbn iota.
    inversion Hl as [|? ? Hy Hl']; subst.
    cbn [forallb] in Wl. apply andb_true_iff in Wl. destruct Wl as [Wy Wl].
    rewrite <- app_assoc.
    rewrite (IH y f r Hy Hl' Wy Wl).
    + reflexivity.
    + lens; lia.
    + lens; lia.
Qed.

Lemma members_rt : forall d' l m fuel r,
  RT (snd m) -> Forall (fun m => RT (snd m)) l ->
  jbytes_okb (fst m) && json_wf (snd m) = true ->
  forallb (fun m => jbytes_okb (fst m) && json_wf (snd m)) l = true ->
  (length (print_member json_print m ++ print_mtail json_print l ++ r) < fuel)%nat ->
  (length (print_member json_print m ++ print_mtail json_print l ++ r) < d')%nat ->
  parse_members (parse_value d') fuel (print_member json_print m ++ print_mtail json_print l ++ r) = Some (m :: l, r).
Proof.
  intros d'. induction l as [|y l IH]; intros [k x] fuel r Hx Hl Wm Wl Hf Hd;
    cbn [fst snd] in *; apply andb_true_iff in Wm; destruct Wm as [Wk Wx];
    (destruct fuel as [|f]; [lia|]);
    unfold print_member, quote_ref in Hf, Hd |- *; cbn [fst snd] in Hf, Hd |- *;
    cbn [parse_members app skip_ws]; change (is_ws 34) with false; cbn iota;
    change (negb (34 =? 34)) with false; cbn iota;
    repeat rewrite <- app_assoc; cbn [app].
  - rewrite (parse_str_escape k (S f) _ Wk).
    2:{ pose proof (escape_length k). lens; lia. }
    cbn [skip_ws]. change (is_ws 58) with false. cbn iota. change (negb (58 =? 58)) with false. cbn iota.
    rewrite (Hx Wx d' (print_mtail json_print [] ++ r)).
    + reflexivity.
    + lens; lia.
    + reflexivity.
  - rewrite (parse_str_escape k (S f) _ Wk).
    2:{ pose proof (escape_length k). lens; lia. }
    cbn [skip_ws]. change (is_ws 58) with false. cbn iota. change (negb (58 =? 58)) with false. cbn iota.
    rewrite (Hx Wx d' (print_mtail json_print (y :: l) ++ r)).
    + cbn [print_mtail app skip_ws]. change (is_ws 44) with false. cbn iota. change (44 =? 44) with true. cbn iota.
      inversion Hl as [|? ? Hy Hl']; subst.
      cbn [forallb] in Wl. apply andb_true_iff in Wl. destruct Wl as [Wy Wl].
      rewrite <- app_assoc.
      rewrite (IH y f r Hy Hl' Wy Wl).
      * reflexivity.
      * lens; lia.
      * lens; lia.
    + lens; lia.
    + apply stop_mtail.
Qed.

Lemma parse_print_value : forall j, RT j.
Proof.
  induction j as [| b | l | s | xs IHxs | ms IHms] using json_ind'; intros Hw d r Hd Hr.
  - destruct d as [|d']; [lia|]. reflexivity.
  - destruct d as [|d']; [lia|]. destruct b; reflexivity.
  - destruct d as [|d']; [lia|]. cbn [json_print json_wf] in *.
    destruct (num_ok_head l Hw) as (c & t & E & Hc).
    pose proof (num_ok_scan l r Hw Hr) as Hs. rewrite E in *. cbn [app] in *.
    rewrite (pv_num d' c (t ++ r) Hc), Hs. reflexivity.
  - destruct d as [|d']; [lia|]. cbn [json_print json_wf] in *. unfold quote_ref in *.
    cbn [app]. rewrite pv_str. rewrite <- app_assoc. cbn [app].
    rewrite (parse_str_escape s d' r Hw); [reflexivity|].
    cbn [app length] in Hd. rewrite !app_length in Hd. pose proof (escape_length s). lia.
  - destruct d as [|d']; [lia|]. cbn [json_print json_wf] in *.
    destruct xs as [|x l]; [reflexivity|].
    cbn [app]. rewrite pv_arr.
    cbn [forallb] in Hw. apply andb_true_iff in Hw. destruct Hw as [Wx Wl].
    inversion IHxs as [|? ? Hx Hl]; subst.
    rewrite <- app_assoc.
    rewrite (skip_ws_starts _ _ (print_starts x Wx)).
    destruct (print_starts x Wx) as (c & t & E & _ & H93 & _).
    set (T := json_print x ++ print_tail json_print 93 l ++ r).
    assert (HT : T = c :: (t ++ print_tail json_print 93 l ++ r)) by (unfold T; rewrite E; reflexivity).
    rewrite HT at 1. rewrite H93. unfold T.
    rewrite (elems_rt d' l x d' r Hx Hl Wx Wl).
    + reflexivity.
    + cbn [app length] in Hd. rewrite <- app_assoc in Hd. lia.
    + cbn [app length] in Hd. rewrite <- app_assoc in Hd. lia.
  - destruct d as [|d']; [lia|]. cbn [json_print json_wf] in *.
    destruct ms as [|m l]; [reflexivity|].
    cbn [app]. rewrite pv_obj.
    cbn [forallb] in Hw. apply andb_true_iff in Hw. destruct Hw as [Wm Wl].
    inversion IHms as [|? ? Hm Hl]; subst.
    rewrite <- app_assoc.
    assert (Hst : skip_ws (print_member json_print m ++ print_mtail json_print l ++ r) = 34 :: tl (print_member json_print m ++ print_mtail json_print l ++ r)) by reflexivity.
    rewrite Hst. change (34 =? 125) with false. cbn iota.
    rewrite (members_rt d' l m d' r Hm Hl Wm Wl).
    + reflexivity.
    + cbn [app length] in Hd. rewrite <- app_assoc in Hd. lia.
    + cbn [app length] in Hd. rewrite <- app_assoc in Hd. lia.
Qed.

Theorem json_parse_print : forall j, json_wf j = true -> json_parse (json_print j) = Some j.
Proof.
  intros j Hw. unfold json_parse.
  pose proof (parse_print_value j Hw (S (S (length (json_print j)))) []) as H.
  rewrite app_nil_r in H. rewrite H; [reflexivity | lia | reflexivity].
Qed.

(* the canonical text followed by anything that cannot continue a number is read back with the rest untouched *)
Theorem json_parse_prefix_print : forall j r, json_wf j = true -> stop r = true ->
  json_parse_prefix (json_print j ++ r) = Some (j, r).
Proof.
  intros j r Hw Hr. unfold json_parse_prefix. apply parse_print_value; [exact Hw | lia | exact Hr].
Qed.

(* printing is injective on well-formed documents *)
Corollary json_print_inj : forall a b, json_wf a = true -> json_wf b = true -> json_print a = json_print b -> a = b.
Proof.
  intros a b Ha Hb E. pose proof (json_parse_print a Ha) as H. rewrite E, (json_parse_print b Hb) in H. congruence.
Qed.

(* json_eqb decides equality *)
Lemma zlist_eqb_eq : forall a b, zlist_eqb a b = true <-> a = b.
Proof.
  unfold zlist_eqb. induction a as [|x a IH]; destruct b as [|y b]; split; intros H; try reflexivity; try discriminate.
  - apply andb_true_iff in H. destruct H as [H1 H2]. apply Z.eqb_eq in H1. apply IH in H2. congruence.
  - inversion H; subst. rewrite Z.eqb_refl. cbn. apply IH. reflexivity.
Qed.
