(* C08, algorithm level: the byte walk of model/P2JBytes.v refines the denotation of model/P2J.v on canonical encodings. *)
From Coq Require Import ZArith List Bool Lia.
From DG Require Import CaseFormat ProtoWireRef ProtoMsg Json Num Base64 P2J P2JBytes.
From DG Require Import JsonProofs NumProofs Base64Proofs ProtoWireRefProofs ProtoMsgProofs P2JProofs.
Import ListNotations.
Local Open Scope Z_scope.

(* ------------------------------------------------------------------ text: what needs no escaping *)
Definition plain_char (c : Z) : bool := (32 <=? c) && negb (c =? 34) && negb (c =? 92).

Lemma esc_plain : forall c, plain_char c = true -> esc_byte c = [c].
Proof.
  intros c H. unfold plain_char in H. apply andb_true_iff in H as [H H92]. apply andb_true_iff in H as [H32 H34].
  apply Z.leb_le in H32. apply negb_true_iff in H34, H92. unfold esc_byte. rewrite H34, H92.
  destruct (Z.eqb_spec c 10); [lia|]. destruct (Z.eqb_spec c 13); [lia|]. destruct (Z.eqb_spec c 9); [lia|].
  destruct (Z.ltb_spec c 32); [lia|]. reflexivity.
Qed.

Lemma escape_plain : forall s, forallb plain_char s = true -> escape s = s.
Proof.
  induction s as [|c t IH]; intros H; [reflexivity|].
  cbn [forallb] in H. apply andb_true_iff in H as [Hc Ht].
  unfold escape. cbn [flat_map]. fold (escape t). rewrite (esc_plain c Hc), (IH Ht). reflexivity.
Qed.

Lemma quote_plain : forall s, forallb plain_char s = true -> quote_ref s = 34 :: s ++ [34].
Proof. intros s H. unfold quote_ref. rewrite (escape_plain s H). reflexivity. Qed.

Lemma plain_fmt_int : forall z, forallb plain_char (fmt_int z) = true.
Proof.
  intros z. pose proof (fmt_int_plain z) as H. unfold lex_is_plain_int in H.
  apply andb_true_iff in H as [_ H]. rewrite forallb_forall in *. intros c Hc. specialize (H c Hc).
  unfold plain_char. apply orb_true_iff in H as [H|H].
  - apply is_digit_range in H. destruct (Z.leb_spec 32 c); [|lia].
    destruct (Z.eqb_spec c 34); [lia|]. destruct (Z.eqb_spec c 92); [lia|]. reflexivity.
  - apply Z.eqb_eq in H. subst. reflexivity.
Qed.

Lemma b64_char_plain : forall n, 0 <= n < 64 -> plain_char (b64_char n) = true.
Proof.
  intros n Hn. unfold b64_char, plain_char.
  destruct (Z.ltb_spec n 26).
  { destruct (Z.leb_spec 32 (65 + n)); [|lia]. destruct (Z.eqb_spec (65 + n) 34); [lia|]. destruct (Z.eqb_spec (65 + n) 92); [lia|]. reflexivity. }
  destruct (Z.ltb_spec n 52).
  { destruct (Z.leb_spec 32 (71 + n)); [|lia]. destruct (Z.eqb_spec (71 + n) 34); [lia|]. destruct (Z.eqb_spec (71 + n) 92); [lia|]. reflexivity. }
  destruct (Z.ltb_spec n 62).
  { destruct (Z.leb_spec 32 (n - 4)); [|lia]. destruct (Z.eqb_spec (n - 4) 34); [lia|]. destruct (Z.eqb_spec (n - 4) 92); [lia|]. reflexivity. }
  destruct (n =? 62); reflexivity.
Qed.

Lemma plain_b64 : forall bs, jbytes_okb bs = true -> forallb plain_char (b64_encode bs) = true.
Proof.
  intros bs H. apply Forall_jbytes in H. revert H.
  induction bs as [| a | a b | a b c r IH] using list_ind3; intros H.
  - reflexivity.
  - inversion H as [|? ? Ha _]; subst. cbn [b64_encode forallb].
    rewrite (b64_char_plain (a / 4)) by (apply idx0; exact Ha).
    rewrite (b64_char_plain (a mod 4 * 16)) by (apply idx1'; exact Ha). reflexivity.
  - inversion H as [|? ? Ha H2]; subst. inversion H2 as [|? ? Hb _]; subst. cbn [b64_encode forallb].
    rewrite (b64_char_plain (a / 4)) by (apply idx0; exact Ha).
    rewrite (b64_char_plain (a mod 4 * 16 + b / 16)) by (apply idx1; assumption).
    rewrite (b64_char_plain (b mod 16 * 4)) by (apply idx2'; exact Hb). reflexivity.
  - inversion H as [|? ? Ha H2]; subst. inversion H2 as [|? ? Hb H3]; subst. inversion H3 as [|? ? Hc Hr]; subst.
    cbn [b64_encode forallb].
    rewrite (b64_char_plain (a / 4)) by (apply idx0; exact Ha).
    rewrite (b64_char_plain (a mod 4 * 16 + b / 16)) by (apply idx1; assumption).
    rewrite (b64_char_plain (b mod 16 * 4 + c / 64)) by (apply idx2; assumption).
    rewrite (b64_char_plain (c mod 64)) by (apply idx3; exact Hc).
    cbn [andb]. apply IH. exact Hr.
Qed.

(* ------------------------------------------------------------------ text: arrays and objects as joined pieces *)
Fixpoint join (xs : list text) : text :=
  match xs with [] => [] | [x] => x | x :: r => x ++ 44 :: join r end.
(* every piece preceded by a comma *)
Definition cjoin (xs : list text) : text := flat_map (fun x => 44 :: x) xs.
(* the message loop: a comma before a piece iff something was written before *)
Fixpoint sep_join (c : bool) (xs : list text) : text :=
  match xs with [] => [] | x :: r => (if c then [44] else []) ++ x ++ sep_join true r end.

Lemma sep_join_true : forall xs, sep_join true xs = cjoin xs.
Proof. induction xs as [|x r IH]; [reflexivity|]. cbn [sep_join cjoin flat_map]. rewrite IH. reflexivity. Qed.

Lemma join_cons : forall x r, join (x :: r) = x ++ cjoin r.
Proof.
  intros x r. revert x. induction r as [|y r IH]; intros x.
  - cbn. rewrite app_nil_r. reflexivity.
  - change (join (x :: y :: r)) with (x ++ 44 :: join (y :: r)). rewrite IH. reflexivity.
Qed.

Lemma sep_join_false : forall xs, sep_join false xs = join xs.
Proof.
  intros [|x r]; [reflexivity|]. cbn [sep_join app]. rewrite sep_join_true, join_cons. reflexivity.
Qed.

Lemma print_tail_cjoin : forall l close, print_tail json_print close l = cjoin (map json_print l) ++ [close].
Proof.
  induction l as [|y l IH]; intros close; [reflexivity|].
  cbn [print_tail map cjoin flat_map]. rewrite IH. rewrite <- app_assoc. reflexivity.
Qed.

Lemma print_arr : forall js, json_print (JArr js) = 91 :: join (map json_print js) ++ [93].
Proof.
  intros [|x l]; [reflexivity|]. cbn [json_print map]. rewrite print_tail_cjoin, join_cons, <- app_assoc. reflexivity.
Qed.

Definition member_text (m : list Z * json) : text := quote_ref (fst m) ++ 58 :: json_print (snd m).

Lemma print_mtail_cjoin : forall l, print_mtail json_print l = cjoin (map member_text l) ++ [125].
Proof.
  induction l as [|y l IH]; [reflexivity|].
  cbn [print_mtail map cjoin flat_map]. rewrite IH. unfold print_member, member_text, cjoin. cbn [fst snd].
  repeat (rewrite <- ?app_assoc; cbn [app]). reflexivity.
Qed.

Lemma print_obj : forall ms, json_print (JObj ms) = 123 :: join (map member_text ms) ++ [125].
Proof.
  intros [|x l]; [reflexivity|]. cbn [json_print map]. rewrite print_mtail_cjoin, join_cons.
  unfold print_member, member_text. cbn [fst snd]. repeat (rewrite <- ?app_assoc; cbn [app]). reflexivity.
Qed.

(* ------------------------------------------------------------------ tags and lengths *)
Lemma rd_tag_enc : forall n wt r, 1 <= n <= MAX_FIELD_NUMBER -> 0 <= wt < 8 ->
  rd_tag (varint_enc (n * 8 + wt) ++ r) = Some (n, wt, r).
Proof.
  intros n wt r Hn Hwt. unfold MAX_FIELD_NUMBER in Hn. unfold rd_tag.
  rewrite varint_dec_enc' by (change (2 ^ 64) with 18446744073709551616; lia).
  pose proof (plen_nonneg (varint_enc (n * 8 + wt))).
  destruct (Z.ltb_spec (plen (varint_enc (n * 8 + wt))) 0); [lia|].
  assert (Hd : (n * 8 + wt) / 8 = n) by (Z.div_mod_to_equations; lia).
  assert (Hm : (n * 8 + wt) mod 8 = wt) by (Z.div_mod_to_equations; lia).
  rewrite Hd, Hm.
  destruct (Z.gtb_spec n 2147483647); [lia|]. destruct (Z.ltb_spec n 1); [lia|]. cbn [orb].
  unfold plen. rewrite Nat2Z.id, skipn_app_len. reflexivity.
Qed.

Lemma rd_tag_field : forall f r, wf_wfield f = true ->
  rd_tag (wenc_field f ++ r) = Some (fst f, wt_of_wval (snd f), wenc_val (snd f) ++ r).
Proof.
  intros [n w] r H. unfold wf_wfield in H. cbn [fst snd] in *.
  apply andb_true_iff in H as [H _]. apply andb_true_iff in H as [H1 H2]. apply Z.leb_le in H1, H2.
  unfold wenc_field. cbn [fst snd]. rewrite <- app_assoc. apply rd_tag_enc; [lia|].
  destruct (wt_of_wval_cases w) as [E|[E|[E|E]]]; rewrite E; lia.
Qed.

Lemma rd_len_enc : forall l r, 0 <= l < 2 ^ 64 -> rd_len (varint_enc l ++ r) = Some (l, r).
Proof.
  intros l r Hl. unfold rd_len. rewrite varint_dec_enc' by exact Hl.
  pose proof (plen_nonneg (varint_enc l)).
  destruct (Z.ltb_spec (plen (varint_enc l)) 0); [lia|].
  unfold plen. rewrite Nat2Z.id, skipn_app_len. reflexivity.
Qed.

(* ------------------------------------------------------------------ scalars *)
Lemma widen32_finite_iff : forall x, 0 <= x < 2 ^ 32 -> f64_is_finite (widen32 x) = f32_is_finite x.
Proof.
  intros x Hx. destruct (f32_is_finite x) eqn:Hf.
  - destruct (f32_decomp x) as [[a b] c] eqn:E32. destruct (f64_decomp (widen32 x)) as [[a' b'] c'] eqn:E64.
    exact (proj2 (proj2 (widen32_exact x Hx Hf _ _ _ _ _ _ E32 E64))).
  - unfold f32_is_finite in Hf. apply negb_false_iff in Hf. apply Z.eqb_eq in Hf.
    unfold widen32. rewrite Hf. cbn [Z.eqb Pos.eqb].
    assert (Hs : 0 <= x / 2 ^ 31 <= 1).
    { split; [apply Z.div_pos; lia|]. apply Z.lt_succ_r. apply Z.div_lt_upper_bound; [lia|].
      change (2 ^ 31 * Z.succ 1) with (2 ^ 32). lia. }
    assert (Hfr : 0 <= x mod 2 ^ 23 < 2 ^ 23) by (apply Z.mod_pos_bound; lia).
    assert (H29 : 2 ^ 52 = 2 ^ 23 * 2 ^ 29) by reflexivity.
    assert (HF : 0 <= x mod 2 ^ 23 * 2 ^ 29 < 2 ^ 52).
    { rewrite H29. assert (0 < 2 ^ 29) by (apply Z.pow_pos_nonneg; lia). nia. }
    unfold f64_is_finite.
    destruct (fields_compose (x / 2 ^ 31) 2047 (x mod 2 ^ 23 * 2 ^ 29) Hs ltac:(lia) HF) as (_ & H2 & _).
    rewrite H2. reflexivity.
Qed.

Lemma go_value_rt : forall k x, is_numeric k = true -> scalar_okb k x = true ->
  go_value k (wval_u (scalar_to_wire k x)) = x.
Proof.
  intros k x Hn Hok. unfold go_value.
  destruct (Z.eqb_spec k K_BOOL) as [->|Hk].
  - unfold scalar_okb in Hok. cbn [Z.eqb Pos.eqb orb] in Hok. unfold K_BOOL.
    apply orb_true_iff in Hok as [E|E]; apply Z.eqb_eq in E; subst x; reflexivity.
  - destruct (scalar_rt k x Hn Hok) as (Hrt & _ & Hwt).
    unfold scalar_of_wire in Hrt. rewrite Hn, Hwt, Z.eqb_refl in Hrt. cbn [andb] in Hrt.
    destruct (scalar_to_wire k x) as [u|u|u|b]; cbn [wval_u]; inversion Hrt; reflexivity.
Qed.

Lemma okb_u32 : forall k x, (k = 2) -> scalar_okb k x = true -> 0 <= x < 2 ^ 32.
Proof.
  intros k x -> H. unfold scalar_okb in H. cbn [Z.eqb Pos.eqb orb] in H. unfold in_ub in H.
  apply andb_true_iff in H as [H1 H2]. apply Z.leb_le in H1. apply Z.ltb_lt in H2. lia.
Qed.

Section Scalars.
  Variable o : p2j_opts.

  Lemma value_text_spec : forall k x p, is_numeric k = true -> scalar_okb k x = true ->
    pj_scalar o k x = Some p ->
    value_text f64_lex o k x = if pj_finite p then Some (json_print (pj_json p)) else None.
  Proof.
    intros k x p Hn Hok Hp. pose proof (is_numeric_cases k Hn) as Hc. cbn [In] in Hc.
    unfold value_text, pj_scalar, is_int_kind, K_BOOL, K_DOUBLE, K_FLOAT, K_INT64 in *.
    repeat (destruct Hc as [<-|Hc]); try contradiction; cbn [Z.eqb Pos.eqb orb andb negb] in *;
      try (inversion Hp; subst p; cbn [pj_finite pj_json json_print]; reflexivity).
    - (* double *) inversion Hp; subst p. cbn [pj_finite pj_json]. destruct (f64_is_finite x); reflexivity.
    - (* float *) inversion Hp; subst p. cbn [pj_finite pj_json].
      rewrite (widen32_finite_iff x (okb_u32 2 x eq_refl Hok)). destruct (f32_is_finite x); reflexivity.
    - (* int64 *) destruct (o_int64_string o); inversion Hp; subst p; cbn [pj_finite pj_json json_print]; [|reflexivity].
      rewrite (quote_plain _ (plain_fmt_int x)). reflexivity.
    - (* bool *) inversion Hp; subst p. cbn [pj_finite pj_json json_print]. destruct (x =? 0); reflexivity.
  Qed.

  Variable S : schema.
  Variable rec : list Z -> list Z -> option text.

  Lemma read_scalar_ok : forall k x p r, is_numeric k = true -> scalar_okb k x = true ->
    pj_scalar o k x = Some p ->
    read_single f64_lex o rec (TScalar k) (wenc_val (scalar_to_wire k x) ++ r) =
    if pj_finite p then Some (json_print (pj_json p), r) else None.
  Proof.
    intros k x p r Hn Hok Hp. unfold read_single.
    rewrite (numeric_not_bytes k Hn), Hn.
    destruct (scalar_rt k x Hn Hok) as (_ & Hwf & Hwt).
    rewrite <- Hwt, (wdec_val_enc _ r Hwf), (go_value_rt k x Hn Hok), (value_text_spec k x p Hn Hok Hp).
    destruct (pj_finite p); reflexivity.
  Qed.

  Lemma read_bytes_ok : forall k b r, is_byteskind k = true -> plen b <? 2 ^ 64 = true -> jbytes_okb b = true ->
    read_single f64_lex o rec (TScalar k) (wenc_val (WBytes b) ++ r) =
    Some (json_print (if k =? K_STRING then JStr b else JStr (b64_encode b)), r).
  Proof.
    intros k b r Hk Hlen Hb. unfold read_single. rewrite Hk.
    change 2 with (wt_of_wval (WBytes b)) at 1. rewrite (wdec_val_enc (WBytes b) r Hlen).
    unfold bytes_text. destruct (k =? K_STRING); [reflexivity|].
    cbn [json_print]. rewrite (quote_plain _ (plain_b64 b Hb)). reflexivity.
  Qed.
End Scalars.

(* ------------------------------------------------------------------ the loops *)
Section Refine.
  Variable o : p2j_opts.
  Variable S : schema.
  Notation wm := (walk_msg f64_lex o S).

  Definition walk_lbl (d : nat) (lbl : flabel) (t : ftype) (n wt : Z) (bs : list Z) : option (text * list Z) :=
    match lbl with
    | LSingular => read_single f64_lex o (wm d) t bs
    | LRepeated _ => walk_list f64_lex o (wm d) n t wt bs
    | LMap kk => walk_map f64_lex o (wm d) n kk t bs
    end.

  Lemma walk_field_lbl : forall d fd wt bs,
    walk_field f64_lex o (wm d) fd wt bs = walk_lbl d (fd_label fd) (fd_type fd) (fd_num fd) wt bs.
  Proof. intros. unfold walk_field, walk_lbl. destruct (fd_label fd); reflexivity. Qed.

  (* the bytes after a run of field n do not continue it: the message ends, or the next tag carries another number *)
  Definition stops (n : Z) (rest : list Z) : Prop :=
    rest = [] \/ exists n' wt r, rd_tag rest = Some (n', wt, r) /\ n' <> n.

  Definition res (p : pj) (rest : list Z) : option (text * list Z) :=
    if pj_finite p then Some (json_print (pj_json p), rest) else None.

  Definition ptext (p : pj) : text := json_print (pj_json p).

  Lemma nonempty_field_app : forall f X, exists b t, wenc_field f ++ X = b :: t.
  Proof. intros f X. destruct (wenc_field_cons f) as [b [t E]]. rewrite E. cbn. eauto. Qed.

  (* the rest of an unpacked run *)
  Lemma unpacked_loop_ok : forall d t n vs ps, 1 <= n <= MAX_FIELD_NUMBER ->
    Forall2 (fun v p => wf_wval (sval v) = true /\
                        forall r, read_single f64_lex o (wm d) t (wenc_val (sval v) ++ r) = res p r) vs ps ->
    forall fuel rest, stops n rest ->
    (length (wenc (map (pair n) (map sval vs)) ++ rest) < fuel)%nat ->
    unpacked_loop f64_lex o (wm d) fuel t n (wenc (map (pair n) (map sval vs)) ++ rest) =
    if forallb pj_finite ps then Some (cjoin (map ptext ps), rest) else None.
  Proof.
    intros d t n vs ps Hn HF. induction HF as [|v p vs ps [Hwf Hrd] _ IH]; intros fuel rest Hstop Hfuel.
    - cbn [map wenc flat_map app forallb cjoin] in *.
      destruct Hstop as [->|(n' & wt & r & Htag & Hne)]; [destruct fuel; reflexivity|].
      destruct rest as [|c rest']; [destruct fuel; reflexivity|].
      destruct fuel as [|f]; [cbn in Hfuel; lia|].
      cbn [unpacked_loop]. rewrite Htag. destruct (Z.eqb_spec n' n); [contradiction|]. reflexivity.
    - cbn [map] in Hfuel |- *. rewrite wenc_cons, <- app_assoc in Hfuel. rewrite wenc_cons, <- app_assoc.
      assert (Hf : wf_wfield (n, sval v) = true).
      { unfold wf_wfield. cbn [fst snd]. rewrite Hwf.
        destruct (Z.leb_spec 1 n); [|lia]. destruct (Z.leb_spec n MAX_FIELD_NUMBER); [|lia]. reflexivity. }
      destruct (nonempty_field_app (n, sval v) (wenc (map (pair n) (map sval vs)) ++ rest)) as [b [tl E]].
      destruct fuel as [|f]; [cbn in Hfuel; lia|].
      rewrite E. cbn [unpacked_loop]. rewrite <- E.
      rewrite (rd_tag_field _ _ Hf). cbn [fst snd]. rewrite Z.eqb_refl. cbn [negb].
      rewrite Hrd. unfold res. cbn [forallb]. destruct (pj_finite p); [|reflexivity]. cbn [andb].
      rewrite (IH f rest Hstop).
      + destruct (forallb pj_finite ps); reflexivity.
      + rewrite app_length in Hfuel. destruct (wenc_field_cons (n, sval v)) as [b' [t' E']].
        rewrite E' in Hfuel. cbn [length] in Hfuel. lia.
  Qed.

  (* a packed payload *)
  Lemma packed_loop_ok : forall d k xs ps, is_numeric k = true ->
    Forall2 (fun x p => scalar_okb k x = true /\ pj_scalar o k x = Some p) xs ps ->
    forall fuel, (length (flat_map (fun x => wenc_val (scalar_to_wire k x)) xs) < fuel)%nat ->
    packed_loop f64_lex o (wm d) fuel (TScalar k) (flat_map (fun x => wenc_val (scalar_to_wire k x)) xs) =
    if forallb pj_finite ps then Some (join (map ptext ps)) else None.
  Proof.
    intros d k xs ps Hn HF. induction HF as [|x p xs ps [Hok Hp] HF' IH]; intros fuel Hfuel.
    - destruct fuel; reflexivity.
    - cbn [flat_map] in Hfuel |- *.
      destruct (scalar_enc_cons k x) as [b [tl E]].
      destruct fuel as [|f]; [cbn in Hfuel; lia|].
      rewrite E. cbn [app packed_loop].
      change (b :: tl ++ flat_map (fun x0 => wenc_val (scalar_to_wire k x0)) xs)
        with ((b :: tl) ++ flat_map (fun x0 => wenc_val (scalar_to_wire k x0)) xs).
      rewrite <- E. rewrite (read_scalar_ok o (wm d) k x p _ Hn Hok Hp).
      cbn [forallb]. destruct (pj_finite p); [|reflexivity]. cbn [andb].
      inversion HF' as [|x2 p2 xs2 ps2 [Hok2 Hp2] HF2]; subst.
      + cbn [flat_map forallb map join]. reflexivity.
      + assert (Hlen : (length (flat_map (fun x0 => wenc_val (scalar_to_wire k x0)) (x2 :: xs2)) < f)%nat).
        { rewrite app_length, E in Hfuel. cbn [length] in Hfuel. lia. }
        specialize (IH f Hlen).
        destruct (flat_map (fun x0 => wenc_val (scalar_to_wire k x0)) (x2 :: xs2)) as [|c r] eqn:Er.
        { cbn [flat_map] in Er. destruct (scalar_enc_cons k x2) as [b2 [t2 E2]]. rewrite E2 in Er. discriminate Er. }
        rewrite IH. destruct (forallb pj_finite (p2 :: ps2)); reflexivity.
  Qed.

  (* a map key: what is read, quoted as the code quotes it, is the quoted stringified key *)
  Lemma key_text_ok : forall d kk k r, key_okb kk k = true -> key_kind_okb kk k = true -> key_bytes_okb k = true ->
    exists kt, read_single f64_lex o (wm d) (TScalar kk) (wenc_val (snd (key_field k)) ++ r) = Some (kt, r) /\
               (if negb (kk =? K_STRING) && negb ((kk =? K_INT64) && o_int64_string o) then 34 :: kt ++ [34] else kt)
               = quote_ref (key_str k).
  Proof.
    intros d kk k r Hok Hkind Hb. destruct k as [k' v|s].
    - cbn [key_okb key_kind_okb key_field snd key_str] in *.
      apply andb_true_iff in Hok as [Hok Hsc]. apply andb_true_iff in Hok as [Hk Hn]. apply Z.eqb_eq in Hk. subst k'.
      apply andb_true_iff in Hkind as [_ Hkind].
      unfold read_single. rewrite (numeric_not_bytes kk Hn), Hn.
      destruct (scalar_rt kk v Hn Hsc) as (_ & Hwf & Hwt).
      rewrite <- Hwt, (wdec_val_enc _ r Hwf), (go_value_rt kk v Hn Hsc).
      pose proof (is_numeric_cases kk Hn) as Hc. cbn [In] in Hc.
      unfold value_text, is_int_kind, K_BOOL, K_DOUBLE, K_FLOAT, K_INT64, K_STRING in *.
      repeat (destruct Hc as [<-|Hc]); try contradiction; cbn [Z.eqb Pos.eqb orb andb negb] in *; try discriminate Hkind;
        try (eexists; split; [reflexivity|]; cbn [andb negb]; rewrite (quote_plain _ (plain_fmt_int v)); reflexivity).
      + (* int64 *) destruct (o_int64_string o); eexists; (split; [reflexivity|]); cbn [andb negb];
          rewrite (quote_plain _ (plain_fmt_int v)); reflexivity.
      + (* bool *) eexists. split; [reflexivity|]. destruct (v =? 0); reflexivity.
    - cbn [key_okb key_kind_okb key_field snd key_str key_bytes_okb] in *.
      apply andb_true_iff in Hok as [Hk Hlen]. apply Z.eqb_eq in Hk. subst kk.
      exists (quote_ref s). split; [|reflexivity].
      rewrite (read_bytes_ok o (wm d) 9 s r eq_refl Hlen Hb). reflexivity.
  Qed.

  Definition entry_text (e : mkey * pj) : text := member_text (key_str (fst e), pj_json (snd e)).

  Lemma read_entry_ok : forall d kk t k x p r,
    key_okb kk k = true -> key_kind_okb kk k = true -> key_bytes_okb k = true ->
    wf_wval (sval x) = true -> wf_wval (entry_wval (k, x)) = true ->
    (forall r', read_single f64_lex o (wm d) t (wenc_val (sval x) ++ r') = res p r') ->
    read_entry f64_lex o (wm d) kk t (wenc_val (entry_wval (k, x)) ++ r) =
    if pj_finite p then Some (entry_text (k, p), r) else None.
  Proof.
    intros d kk t k x p r Hok Hkind Hb Hwf Hlen Hrd. unfold entry_wval in *. cbn [fst snd wenc_val wf_wval] in *.
    apply Z.ltb_lt in Hlen.
    unfold read_entry. rewrite <- app_assoc, rd_len_enc by (pose proof (plen_nonneg (wenc [key_field k; (2, sval x)])); lia).
    rewrite !wenc_cons. cbn [wenc flat_map]. rewrite app_nil_r, <- !app_assoc.
    assert (Hkf : wf_wfield (key_field k) = true).
    { unfold wf_wfield. rewrite key_field_fst, (key_field_wf kk k Hok). reflexivity. }
    rewrite (rd_tag_field _ _ Hkf).
    destruct (key_text_ok d kk k (wenc_field (2, sval x) ++ r) Hok Hkind Hb) as (kt & Hk1 & Hk2).
    rewrite Hk1.
    assert (Hvf : wf_wfield (2, sval x) = true) by (unfold wf_wfield; cbn [fst snd]; rewrite Hwf; reflexivity).
    rewrite (rd_tag_field _ _ Hvf). cbn [fst snd]. rewrite Hrd. unfold res.
    destruct (pj_finite p); [|reflexivity]. rewrite Hk2. reflexivity.
  Qed.

  Lemma map_loop_ok : forall d kk t n kvs ps, 1 <= n <= MAX_FIELD_NUMBER ->
    Forall2 (fun kx e => fst e = fst kx /\ key_okb kk (fst kx) = true /\ key_kind_okb kk (fst kx) = true /\
                         key_bytes_okb (fst kx) = true /\ wf_wval (sval (snd kx)) = true /\ wf_wval (entry_wval kx) = true /\
                         forall r, read_single f64_lex o (wm d) t (wenc_val (sval (snd kx)) ++ r) = res (snd e) r) kvs ps ->
    forall fuel rest, stops n rest ->
    (length (wenc (map (pair n) (map entry_wval kvs)) ++ rest) < fuel)%nat ->
    map_loop f64_lex o (wm d) fuel kk t n (wenc (map (pair n) (map entry_wval kvs)) ++ rest) =
    if forallb (fun e => pj_finite (snd e)) ps then Some (cjoin (map entry_text ps), rest) else None.
  Proof.
    intros d kk t n kvs ps Hn HF.
    induction HF as [|[k x] [k' p] kvs ps (Hk & Hok & Hkind & Hb & Hwf & Hlen & Hrd) _ IH]; intros fuel rest Hstop Hfuel.
    - cbn [map wenc flat_map app forallb cjoin] in *.
      destruct Hstop as [->|(n' & wt & r & Htag & Hne)]; [destruct fuel; reflexivity|].
      destruct rest as [|c rest']; [destruct fuel; reflexivity|].
      destruct fuel as [|f]; [cbn in Hfuel; lia|].
      cbn [map_loop]. rewrite Htag. destruct (Z.eqb_spec n' n); [contradiction|]. reflexivity.
    - cbn [fst snd] in *. subst k'.
      cbn [map] in Hfuel |- *. rewrite wenc_cons, <- app_assoc in Hfuel. rewrite wenc_cons, <- app_assoc.
      assert (Hf : wf_wfield (n, entry_wval (k, x)) = true).
      { unfold wf_wfield. cbn [fst snd]. rewrite Hlen.
        destruct (Z.leb_spec 1 n); [|lia]. destruct (Z.leb_spec n MAX_FIELD_NUMBER); [|lia]. reflexivity. }
      destruct (nonempty_field_app (n, entry_wval (k, x)) (wenc (map (pair n) (map entry_wval kvs)) ++ rest)) as [b [tl E]].
      destruct fuel as [|f]; [cbn in Hfuel; lia|].
      rewrite E. cbn [map_loop]. rewrite <- E.
      rewrite (rd_tag_field _ _ Hf). cbn [fst snd]. rewrite Z.eqb_refl. cbn [negb].
      rewrite (read_entry_ok d kk t k x p _ Hok Hkind Hb Hwf Hlen Hrd).
      cbn [forallb snd]. destruct (pj_finite p); [|reflexivity]. cbn [andb].
      rewrite (IH f rest Hstop).
      + destruct (forallb (fun e => pj_finite (snd e)) ps); reflexivity.
      + rewrite app_length in Hfuel. destruct (wenc_field_cons (n, entry_wval (k, x))) as [b' [t' E']].
        rewrite E' in Hfuel. cbn [length] in Hfuel. lia.
  Qed.

  (* ---------------------------------------------------------------- one field value of any shape *)
  Definition P (v : pval) : Prop := forall d lbl t n p rest,
    wf_fld S lbl t v = true -> pval_bytes_okb v = true -> pj_fld S o lbl t v = Some p ->
    (depth v <= d)%nat -> 1 <= n <= MAX_FIELD_NUMBER -> (lbl = LSingular \/ stops n rest) ->
    match fvals v with
    | w :: ws => walk_lbl d lbl t n (wt_of_wval w) (wenc_val w ++ wenc (map (pair n) ws) ++ rest) = res p rest
    | [] => True
    end.

  Lemma single_of_P : forall x d t p, P x -> wf_fld S LSingular t x = true -> pval_bytes_okb x = true ->
    pj_fld S o LSingular t x = Some p -> (depth x <= d)%nat ->
    forall r, read_single f64_lex o (wm d) t (wenc_val (sval x) ++ r) = res p r.
  Proof.
    intros x d t p HP Hwf Hb Hp Hd r.
    specialize (HP d LSingular t 1 p r Hwf Hb Hp Hd ltac:(unfold MAX_FIELD_NUMBER; lia) (or_introl eq_refl)).
    destruct x; cbn [wf_fld] in Hwf; try discriminate; cbn [fvals sval map wenc flat_map app] in HP |- *; exact HP.
  Qed.

  Lemma numeric_wt_not2 : forall k, is_numeric k = true -> (wt_of_kind k =? 2) = false.
  Proof.
    intros k H. unfold is_numeric in H.
    destruct (Z.eqb_spec (wt_of_kind k) 2) as [E|]; [|reflexivity].
    rewrite E in H. discriminate H.
  Qed.

  Lemma flat_map_packed_scalars : forall k xs,
    flat_map packed_elem (map (VScalar k) xs) = flat_map (fun x => wenc_val (scalar_to_wire k x)) xs.
  Proof. intros k xs. induction xs as [|x r IH]; [reflexivity|]. cbn [map flat_map packed_elem]. rewrite IH. reflexivity. Qed.

  Lemma ptext_arr : forall ps, json_print (pj_json (PJArr ps)) = 91 :: join (map ptext ps) ++ [93].
  Proof. intros ps. cbn [pj_json]. rewrite print_arr, map_map. reflexivity. Qed.

  Lemma elems_F2 : forall d t vs ps,
    (forall v, In v vs -> P v) -> (forall v, In v vs -> wf_fld S LSingular t v = true) ->
    (forall v, In v vs -> pval_bytes_okb v = true) -> (forall v, In v vs -> (depth v <= d)%nat) ->
    Forall2 (fun x y => pj_fld S o LSingular t x = Some y) vs ps ->
    Forall2 (fun v p => wf_wval (sval v) = true /\
                        forall r, read_single f64_lex o (wm d) t (wenc_val (sval v) ++ r) = res p r) vs ps.
  Proof.
    intros d t vs ps H1 H2 H3 H4 HF. induction HF as [|v p vs ps Hp _ IHF]; [constructor|].
    constructor.
    - split; [apply (sval_wf S t); apply H2; left; reflexivity|].
      apply single_of_P; [apply H1 | apply H2 | apply H3 | exact Hp | apply H4]; left; reflexivity.
    - apply IHF; intros v' Hv'; [apply H1 | apply H2 | apply H3 | apply H4]; right; exact Hv'.
  Qed.

  Lemma P_list : forall q vs, Forall P vs -> P (VList q vs).
  Proof.
    intros q vs IH d lbl t n p rest Hwf Hb Hp Hd Hn Hstop.
    destruct lbl as [|pk|kk]; cbn [wf_fld] in Hwf; try discriminate.
    destruct Hstop as [Hstop|Hstop]; [discriminate|].
    apply andb_true_iff in Hwf as [Hwf Hall]. apply andb_true_iff in Hwf as [Hwf Hplen].
    apply andb_true_iff in Hwf as [Hq Hne]. apply eqb_prop in Hq.
    cbn [pj_fld] in Hp.
    match type of Hp with option_map _ ?x = _ => destruct x as [ps|] eqn:E; [|discriminate] end.
    inversion Hp; subst p. clear Hp. apply seq_opt_Forall2 in E.
    cbn [pval_bytes_okb] in Hb. cbn [depth] in Hd.
    rewrite forallb_forall in Hall, Hb. rewrite Forall_forall in IH.
    assert (Hdep : forall x, In x vs -> (depth x <= d)%nat).
    { intros x Hx. pose proof (fold_max_ge depth vs x Hx). lia. }
    destruct q.
    - (* packed *)
      symmetry in Hq. apply andb_true_iff in Hq as [_ Htn].
      destruct t as [k|]; [|discriminate Htn]. cbn [type_numeric] in Htn.
      destruct (packed_elems_scalars S k vs) as [xs [Evs Hxs]]; [apply forallb_forall; exact Hall | exact Htn |].
      subst vs. cbn [fvals wt_of_wval map wenc flat_map app wenc_val].
      cbn [negb orb] in Hplen. apply Z.ltb_lt in Hplen.
      unfold walk_lbl, walk_list. cbn [Z.eqb Pos.eqb type_numeric]. rewrite Htn. cbn [andb].
      rewrite <- app_assoc, rd_len_enc by (pose proof (plen_nonneg (flat_map packed_elem (map (VScalar k) xs))); lia).
      rewrite take_app. rewrite flat_map_packed_scalars.
      assert (HF : Forall2 (fun x p => scalar_okb k x = true /\ pj_scalar o k x = Some p) xs ps).
      { clear - E Hxs. revert ps E. induction Hxs as [|x xs Hx _ IHx]; intros ps E.
        - inversion E. constructor.
        - inversion E as [|? p0 ? ps0 Hp0 E0]; subst. constructor; [|apply IHx; exact E0].
          split; [exact Hx|]. cbn [pj_fld] in Hp0. rewrite Z.eqb_refl in Hp0. exact Hp0. }
      rewrite (packed_loop_ok d k xs ps Htn HF) by lia.
      unfold res. cbn [pj_finite]. destruct (forallb pj_finite ps); [|reflexivity].
      rewrite ptext_arr. reflexivity.
    - (* one record per element *)
      destruct vs as [|x vs]; [discriminate Hne|].
      inversion E as [|? px ? ps' Hpx E']; subst.
      cbn [fvals map].
      assert (Hwt : (wt_of_wval (sval x) =? 2) && type_numeric t = false).
      { destruct (type_numeric t) eqn:Htn; [|apply andb_false_r].
        destruct t as [k|]; [|discriminate Htn]. cbn [type_numeric] in Htn.
        pose proof (Hall x (or_introl eq_refl)) as Hx.
        destruct x as [k' x'|k' b'| | |]; cbn [wf_fld] in Hx; try discriminate.
        - apply andb_true_iff in Hx as [Hx Hok]. apply andb_true_iff in Hx as [Hk Hn']. apply Z.eqb_eq in Hk. subst k'.
          cbn [sval]. rewrite (proj2 (proj2 (scalar_rt k x' Hn' Hok))), (numeric_wt_not2 k Hn'). reflexivity.
        - apply andb_true_iff in Hx as [Hx _]. apply andb_true_iff in Hx as [Hk Hby]. apply Z.eqb_eq in Hk. subst k'.
          rewrite (numeric_not_bytes k Htn) in Hby. discriminate Hby. }
      unfold walk_lbl, walk_list. rewrite Hwt.
      rewrite (single_of_P x d t px (IH x (or_introl eq_refl)) (Hall x (or_introl eq_refl)) (Hb x (or_introl eq_refl)) Hpx
                 (Hdep x (or_introl eq_refl))).
      unfold res. cbn [pj_finite forallb]. destruct (pj_finite px); [|reflexivity]. cbn [andb].
      assert (HF : Forall2 (fun v p => wf_wval (sval v) = true /\
                        forall r, read_single f64_lex o (wm d) t (wenc_val (sval v) ++ r) = res p r) vs ps').
      { apply elems_F2; [| | | |exact E']; intros v Hv; [apply IH | apply Hall | apply Hb | apply Hdep]; right; exact Hv. }
      rewrite (unpacked_loop_ok d t n vs ps' Hn HF _ rest Hstop) by lia.
      destruct (forallb pj_finite ps'); [|reflexivity].
      rewrite ptext_arr. cbn [map]. rewrite join_cons. unfold ptext.
      repeat (rewrite <- ?app_assoc; cbn [app]). reflexivity.
  Qed.

  (* ---------------------------------------------------------------- maps *)
  Lemma entries_F2 : forall d kk t kvs ps,
    (forall kx, In kx kvs -> P (snd kx)) ->
    (forall kx, In kx kvs -> key_okb kk (fst kx) = true /\ wf_fld S LSingular t (snd kx) = true /\
                             wf_wval (entry_wval kx) = true) ->
    (forall kx, In kx kvs -> key_bytes_okb (fst kx) = true /\ pval_bytes_okb (snd kx) = true) ->
    (forall kx, In kx kvs -> (depth (snd kx) <= d)%nat) ->
    Forall2 (fun kx e => (if key_kind_okb kk (fst kx)
                          then option_map (fun p => (fst kx, p)) (pj_fld S o LSingular t (snd kx)) else None) = Some e) kvs ps ->
    Forall2 (fun kx e => fst e = fst kx /\ key_okb kk (fst kx) = true /\ key_kind_okb kk (fst kx) = true /\
                         key_bytes_okb (fst kx) = true /\ wf_wval (sval (snd kx)) = true /\ wf_wval (entry_wval kx) = true /\
                         forall r, read_single f64_lex o (wm d) t (wenc_val (sval (snd kx)) ++ r) = res (snd e) r) kvs ps.
  Proof.
    intros d kk t kvs ps H1 H2 H3 H4 HF. induction HF as [|kx e kvs ps He _ IHF]; [constructor|].
    constructor.
    - destruct (H2 kx (or_introl eq_refl)) as (Hok & Hwf & Hlen). destruct (H3 kx (or_introl eq_refl)) as (Hkb & Hvb).
      destruct (key_kind_okb kk (fst kx)) eqn:Hkind; [|discriminate He].
      destruct (pj_fld S o LSingular t (snd kx)) as [p|] eqn:Hp; [|discriminate He].
      inversion He; subst e. cbn [fst snd].
      repeat split; try assumption; try reflexivity.
      + apply (sval_wf S t). exact Hwf.
      + apply single_of_P; [apply H1; left; reflexivity | exact Hwf | exact Hvb | exact Hp | apply H4; left; reflexivity].
    - apply IHF; intros kx' Hk'; [apply H1 | apply H2 | apply H3 | apply H4]; right; exact Hk'.
  Qed.

  Lemma ptext_map : forall kk ps, json_print (pj_json (PJMap kk ps)) = 123 :: join (map entry_text ps) ++ [125].
  Proof. intros kk ps. cbn [pj_json]. rewrite print_obj, map_map. reflexivity. Qed.

  Lemma P_map : forall kvs, Forall (fun kx => P (snd kx)) kvs -> P (VMap kvs).
  Proof.
    intros kvs IH d lbl t n p rest Hwf Hb Hp Hd Hn Hstop.
    destruct lbl as [|pk|kk]; cbn [wf_fld] in Hwf; try discriminate.
    destruct Hstop as [Hstop|Hstop]; [discriminate|].
    apply andb_true_iff in Hwf as [Hwf Hall]. apply andb_true_iff in Hwf as [Hne _].
    cbn [pj_fld] in Hp.
    match type of Hp with option_map _ ?x = _ => destruct x as [ps|] eqn:E; [|discriminate] end.
    inversion Hp; subst p. clear Hp. apply seq_opt_Forall2 in E.
    cbn [pval_bytes_okb] in Hb. cbn [depth] in Hd.
    rewrite forallb_forall in Hall, Hb. rewrite Forall_forall in IH.
    assert (Hdep : forall kx, In kx kvs -> (depth (snd kx) <= d)%nat).
    { intros kx Hx. pose proof (fold_max_ge (fun kx => depth (snd kx)) kvs kx Hx). cbn beta in H. lia. }
    assert (H2 : forall kx, In kx kvs -> key_okb kk (fst kx) = true /\ wf_fld S LSingular t (snd kx) = true /\
                                        wf_wval (entry_wval kx) = true).
    { intros kx Hx. specialize (Hall kx Hx). apply andb_true_iff in Hall as [Hall Hlen].
      apply andb_true_iff in Hall as [Hk Hw]. repeat split; try assumption.
      unfold entry_wval. cbn [wf_wval]. rewrite (wfld_single _ _ _ 2 Hw) in Hlen. exact Hlen. }
    assert (H3 : forall kx, In kx kvs -> key_bytes_okb (fst kx) = true /\ pval_bytes_okb (snd kx) = true).
    { intros kx Hx. specialize (Hb kx Hx). apply andb_true_iff in Hb. exact Hb. }
    pose proof (entries_F2 d kk t kvs ps IH H2 H3 Hdep E) as HF.
    destruct kvs as [|[k x] kvs]; [discriminate Hne|].
    inversion HF as [|? [k' p1] ? ps' (Hk & Hok & Hkind & Hkb & Hwv & Hlen & Hrd) HF']; subst. cbn [fst snd] in *. subst k'.
    cbn [fvals map]. unfold walk_lbl, walk_map.
    rewrite (read_entry_ok d kk t k x p1 _ Hok Hkind Hkb Hwv Hlen Hrd).
    unfold res. cbn [pj_finite forallb snd]. destruct (pj_finite p1); [|reflexivity]. cbn [andb].
    rewrite (map_loop_ok d kk t n kvs ps' Hn HF' _ rest Hstop) by lia.
    destruct (forallb (fun e => pj_finite (snd e)) ps'); [|reflexivity].
    rewrite ptext_map. cbn [map]. rewrite join_cons.
    repeat (rewrite <- ?app_assoc; cbn [app]). reflexivity.
  Qed.

  (* ---------------------------------------------------------------- the message loop *)
  Definition mtext (m : list Z * pj) : text := member_text (fst m, pj_json (snd m)).

  Lemma find_field_num : forall md n fd, find_field md n = Some fd -> fd_num fd = n.
  Proof. intros md n fd H. unfold find_field in H. apply find_some in H as [_ H]. apply Z.eqb_eq in H. exact H. Qed.

  Lemma nodupb_head : forall n n' l, nodupb Z.eqb (n :: n' :: l) = true -> n' <> n /\ nodupb Z.eqb (n' :: l) = true.
  Proof.
    intros n n' l H. cbn [nodupb existsb] in H. apply andb_true_iff in H as [H1 H2].
    apply negb_true_iff in H1. apply orb_false_iff in H1 as [H1 _]. apply Z.eqb_neq in H1.
    split; [congruence | exact H2].
  Qed.

  Definition fld_ok (md : mdesc) (nv : Z * pval) : Prop :=
    exists fd, find_field md (fst nv) = Some fd /\ 1 <= fst nv <= MAX_FIELD_NUMBER /\
               wf_fld S (fd_label fd) (fd_type fd) (snd nv) = true.

  (* the first record of a well-formed field *)
  Lemma fld_records : forall md nv, fld_ok md nv ->
    exists w ws, fvals (snd nv) = w :: ws /\ wfld (fst nv) (snd nv) = (fst nv, w) :: map (pair (fst nv)) ws /\
                 wf_wfield (fst nv, w) = true.
  Proof.
    intros md [n v] (fd & Hfind & Hn & Hwf). cbn [fst snd] in *.
    destruct (wfld_fvals S _ _ v n Hwf) as [E Hne]. pose proof (fvals_wf S _ _ v Hwf) as Hall.
    destruct (fvals v) as [|w ws]; [contradiction|]. exists w, ws. split; [reflexivity|]. split; [exact E|].
    cbn [forallb] in Hall. apply andb_true_iff in Hall as [Hw _].
    unfold wf_wfield. cbn [fst snd]. rewrite Hw.
    destruct (Z.leb_spec 1 n); [|lia]. destruct (Z.leb_spec n MAX_FIELD_NUMBER); [|lia]. reflexivity.
  Qed.

  Lemma stops_next : forall md n fs, nodupb Z.eqb (n :: map fst fs) = true -> (forall nv, In nv fs -> fld_ok md nv) ->
    stops n (wenc (msg_wire fs)).
  Proof.
    intros md n fs Hnd Hok. destruct fs as [|[n' v'] fs']; [left; reflexivity|]. right.
    cbn [map fst] in Hnd. destruct (nodupb_head _ _ _ Hnd) as [Hne _].
    destruct (fld_records md (n', v') (Hok _ (or_introl eq_refl))) as (w & ws & _ & Ew & Hwf). cbn [fst snd] in *.
    unfold msg_wire. cbn [flat_map fst snd]. rewrite Ew. cbn [app]. rewrite wenc_cons.
    exists n', (wt_of_wval w), (wenc_val w ++ wenc (map (pair n') ws ++ flat_map (fun nv => wfld (fst nv) (snd nv)) fs')).
    split; [|exact Hne]. rewrite (rd_tag_field _ _ Hwf). reflexivity.
  Qed.

  Lemma fields_ok : forall d md fs ms,
    Forall2 (fun nv m => match find_field md (fst nv) with
                         | Some fd => option_map (fun p => (fd_json fd, p)) (pj_fld S o (fd_label fd) (fd_type fd) (snd nv))
                         | None => None
                         end = Some m) fs ms ->
    (forall nv, In nv fs -> P (snd nv)) ->
    nodupb Z.eqb (map fst fs) = true ->
    (forall nv, In nv fs -> fld_ok md nv) ->
    (forall nv, In nv fs -> pval_bytes_okb (snd nv) = true) ->
    (forall nv, In nv fs -> (depth (snd nv) <= d)%nat) ->
    forall fuel comma, (length (wenc (msg_wire fs)) < fuel)%nat ->
    walk_fields f64_lex o (wm d) fuel md comma (wenc (msg_wire fs)) =
    if forallb (fun m => pj_finite (snd m)) ms then Some (sep_join comma (map mtext ms)) else None.
  Proof.
    intros d md fs ms HF. induction HF as [|[n v] m fs ms Hrel _ IH]; intros HP Hnd Hok Hb Hd fuel comma Hfuel.
    - destruct fuel; reflexivity.
    - destruct (Hok (n, v) (or_introl eq_refl)) as (fd & Hfind & Hn & Hwf). cbn [fst snd] in *.
      rewrite Hfind in Hrel.
      destruct (pj_fld S o (fd_label fd) (fd_type fd) v) as [p|] eqn:Hp; [|discriminate Hrel].
      inversion Hrel; subst m. clear Hrel.
      destruct (fld_records md (n, v) (Hok _ (or_introl eq_refl))) as (w & ws & Efv & Ew & Hwfw). cbn [fst snd] in *.
      assert (Ewire : wenc (msg_wire ((n, v) :: fs)) =
                      wenc_field (n, w) ++ wenc_val w ++ [] ++ [] -> True) by (intros; exact I). clear Ewire.
      assert (Ebody : wenc (msg_wire ((n, v) :: fs)) = wenc_field (n, w) ++ (wenc (map (pair n) ws) ++ wenc (msg_wire fs))).
      { unfold msg_wire. cbn [flat_map fst snd]. rewrite Ew. fold (msg_wire fs).
        change (((n, w) :: map (pair n) ws) ++ msg_wire fs) with ((n, w) :: (map (pair n) ws ++ msg_wire fs)).
        rewrite wenc_cons, wenc_app. reflexivity. }
      rewrite Ebody in Hfuel |- *.
      destruct (nonempty_field_app (n, w) (wenc (map (pair n) ws) ++ wenc (msg_wire fs))) as [b [tl E]].
      destruct fuel as [|f]; [rewrite E in Hfuel; cbn in Hfuel; lia|].
      rewrite E. cbn [walk_fields]. rewrite <- E.
      rewrite (rd_tag_field _ _ Hwfw). cbn [fst snd]. rewrite Hfind.
      rewrite walk_field_lbl, (find_field_num _ _ _ Hfind).
      assert (Hst : fd_label fd = LSingular \/ stops n (wenc (msg_wire fs))).
      { right. apply (stops_next md); [exact Hnd|]. intros nv Hnv. apply Hok. right. exact Hnv. }
      pose proof (HP (n, v) (or_introl eq_refl) d (fd_label fd) (fd_type fd) n p (wenc (msg_wire fs)) Hwf
                    (Hb _ (or_introl eq_refl)) Hp (Hd _ (or_introl eq_refl)) Hn Hst) as Hv.
      cbn [snd] in Hv. rewrite Efv in Hv. rewrite Hv. unfold res.
      cbn [forallb snd]. destruct (pj_finite p); [|reflexivity]. cbn [andb].
      assert (Hnd' : nodupb Z.eqb (map fst fs) = true).
      { cbn [map nodupb fst] in Hnd. apply andb_true_iff in Hnd as [_ Hnd]. exact Hnd. }
      rewrite (IH (fun nv H => HP nv (or_intror H)) Hnd' (fun nv H => Hok nv (or_intror H))
                  (fun nv H => Hb nv (or_intror H)) (fun nv H => Hd nv (or_intror H)) f true).
      + destruct (forallb (fun m => pj_finite (snd m)) ms); [|reflexivity].
        cbn [map sep_join].
        change (mtext (fd_json fd, p)) with (quote_ref (fd_json fd) ++ 58 :: json_print (pj_json p)).
        repeat (rewrite <- ?app_assoc; cbn [app]). reflexivity.
      + rewrite app_length in Hfuel. destruct (wenc_field_cons (n, w)) as [b' [t' E']].
        rewrite E' in Hfuel. cbn [length] in Hfuel. rewrite app_length in Hfuel. lia.
  Qed.

  (* a whole message body at nesting fuel d + 1 *)
  Lemma body_ok : forall d name md fs ms,
    find_msg S name = Some md ->
    nodupb Z.eqb (map fst fs) = true ->
    (forall nv, In nv fs -> fld_ok md nv) ->
    (forall nv, In nv fs -> P (snd nv)) ->
    (forall nv, In nv fs -> pval_bytes_okb (snd nv) = true) ->
    (forall nv, In nv fs -> (depth (snd nv) <= d)%nat) ->
    seq_opt (map (fun nv => match find_field md (fst nv) with
                            | Some fd => option_map (fun p => (fd_json fd, p)) (pj_fld S o (fd_label fd) (fd_type fd) (snd nv))
                            | None => None
                            end) fs) = Some ms ->
    wm (Datatypes.S d) name (encode_msg fs) =
    if pj_finite (PJObj ms) then Some (ptext (PJObj ms)) else None.
  Proof.
    intros d name md fs ms Hm Hnd Hok HP Hb Hd E. apply seq_opt_Forall2 in E.
    cbn [walk_msg]. unfold walk_body. rewrite Hm. unfold encode_msg.
    rewrite (fields_ok d md fs ms E HP Hnd Hok Hb Hd) by lia.
    cbn [pj_finite]. destruct (forallb (fun m => pj_finite (snd m)) ms); [|reflexivity].
    unfold ptext. cbn [pj_json]. rewrite print_obj, sep_join_false, map_map. reflexivity.
  Qed.

  Lemma msg_fld_ok : forall md fs,
    forallb (fun nv => match find_field md (fst nv) with
                       | Some fd => (1 <=? fst nv) && (fst nv <=? MAX_FIELD_NUMBER) && wf_fld S (fd_label fd) (fd_type fd) (snd nv)
                       | None => false
                       end) fs = true ->
    forall nv, In nv fs -> fld_ok md nv.
  Proof.
    intros md fs H nv Hin. rewrite forallb_forall in H. specialize (H nv Hin).
    destruct (find_field md (fst nv)) as [fd|] eqn:E; [|discriminate].
    apply andb_true_iff in H as [H Hwf]. apply andb_true_iff in H as [H1 H2]. apply Z.leb_le in H1, H2.
    exists fd. repeat split; try assumption.
  Qed.

  Lemma P_msg : forall fs, Forall (fun nv => P (snd nv)) fs -> P (VMsg fs).
  Proof.
    intros fs IH d lbl t n p rest Hwf Hb Hp Hd Hn _.
    destruct lbl; cbn [wf_fld] in Hwf; try discriminate.
    destruct t as [|name]; [discriminate|]. destruct (find_msg S name) as [md|] eqn:Hm; [|discriminate].
    apply andb_true_iff in Hwf as [Hwf Hall]. apply andb_true_iff in Hwf as [Hnd Hlen].
    cbn [pj_fld] in Hp. rewrite Hm in Hp.
    match type of Hp with option_map _ ?x = _ => destruct x as [ms|] eqn:E; [|discriminate] end.
    inversion Hp; subst p. clear Hp.
    cbn [pval_bytes_okb] in Hb. rewrite forallb_forall in Hb. rewrite Forall_forall in IH.
    cbn [depth] in Hd. destruct d as [|d']; [lia|].
    assert (Hdep : forall nv, In nv fs -> (depth (snd nv) <= d')%nat).
    { intros nv Hx. pose proof (fold_max_ge (fun nv => depth (snd nv)) fs nv Hx). cbn beta in H. lia. }
    cbn [fvals sval map wenc flat_map app wt_of_wval].
    unfold walk_lbl, read_single.
    change 2 with (wt_of_wval (WBytes (encode_msg fs))) at 1.
    rewrite (wdec_val_enc (WBytes (encode_msg fs)) rest Hlen).
    rewrite (body_ok d' name md fs ms Hm Hnd (msg_fld_ok md fs Hall) IH Hb Hdep E).
    unfold res. destruct (pj_finite (PJObj ms)); reflexivity.
  Qed.

  Lemma P_scalar : forall k x, P (VScalar k x).
  Proof.
    intros k x d lbl t n p rest Hwf Hb Hp Hd Hn _.
    destruct lbl; cbn [wf_fld] in Hwf; try discriminate.
    destruct t as [k'|]; [|discriminate].
    apply andb_true_iff in Hwf as [Hwf Hok]. apply andb_true_iff in Hwf as [Hk Hnum]. apply Z.eqb_eq in Hk. subst k'.
    cbn [pj_fld] in Hp. rewrite Z.eqb_refl in Hp.
    cbn [fvals sval map wenc flat_map app]. unfold walk_lbl.
    rewrite (read_scalar_ok o (wm d) k x p rest Hnum Hok Hp). reflexivity.
  Qed.

  Lemma P_bytes : forall k b, P (VBytes k b).
  Proof.
    intros k b d lbl t n p rest Hwf Hb Hp Hd Hn _.
    destruct lbl; cbn [wf_fld] in Hwf; try discriminate.
    destruct t as [k'|]; [|discriminate].
    apply andb_true_iff in Hwf as [Hwf Hlen]. apply andb_true_iff in Hwf as [Hk Hby]. apply Z.eqb_eq in Hk. subst k'.
    cbn [pj_fld] in Hp. rewrite Z.eqb_refl in Hp. cbn [negb] in Hp.
    cbn [fvals sval map wenc flat_map app]. unfold walk_lbl.
    cbn [pval_bytes_okb] in Hb.
    rewrite (read_bytes_ok o (wm d) k b rest Hby Hlen Hb). unfold res.
    destruct (k =? K_STRING); [inversion Hp; subst p; reflexivity|].
    destruct (k =? K_BYTES); [inversion Hp; subst p; reflexivity|discriminate].
  Qed.

  Theorem P_all : forall v, P v.
  Proof.
    induction v as [k x|k b|fs IH|q vs IH|kvs IH] using pval_ind'.
    - apply P_scalar. - apply P_bytes. - apply P_msg; exact IH. - apply P_list; exact IH. - apply P_map; exact IH.
  Qed.

  (* ---------------------------------------------------------------- the refinement theorem *)
  Theorem walk_refines_spec : forall name m fuel p,
    wf_msg S name m = true -> pval_bytes_okb (VMsg m) = true -> (depth (VMsg m) <= fuel)%nat ->
    pj_of S o name m = Some p ->
    p2j_walk fuel o S name (encode_msg m) = if pj_finite p then Some (json_print (pj_json p)) else None.
  Proof.
    intros name m fuel p Hwf Hb Hd Hp. unfold pj_of in Hp.
    pose proof (P_all (VMsg m) fuel LSingular (TMsg name) 1 p [] Hwf Hb Hp Hd
                      ltac:(unfold MAX_FIELD_NUMBER; lia) (or_introl eq_refl)) as H.
    cbn [fvals sval map wenc flat_map app wt_of_wval] in H. unfold walk_lbl, read_single in H.
    unfold wf_msg in Hwf. cbn [wf_fld] in Hwf. destruct (find_msg S name); [|discriminate].
    apply andb_true_iff in Hwf as [Hwf _]. apply andb_true_iff in Hwf as [_ Hlen].
    change 2 with (wt_of_wval (WBytes (encode_msg m))) in H at 1.
    rewrite (wdec_val_enc (WBytes (encode_msg m)) [] Hlen) in H.
    unfold p2j_walk, p2j_walk_gen. unfold res in H.
    destruct (wm fuel name (encode_msg m)) as [t|]; destruct (pj_finite p); try discriminate H;
      [inversion H; reflexivity | reflexivity].
  Qed.

  Corollary walk_is_print_of_spec : forall name m fuel p,
    wf_msg S name m = true -> pval_bytes_okb (VMsg m) = true -> (depth (VMsg m) <= fuel)%nat ->
    pj_of S o name m = Some p ->
    p2j_walk fuel o S name (encode_msg m) = option_map json_print (pjson_of S o name m).
  Proof.
    intros name m fuel p Hwf Hb Hd Hp. rewrite (walk_refines_spec name m fuel p Hwf Hb Hd Hp).
    unfold pjson_of. rewrite Hp. destruct (pj_finite p); reflexivity.
  Qed.

  (* whenever the walk over a canonical encoding succeeds, its text parses to exactly the denotation *)
  Corollary walk_output_valid : forall name m fuel p t,
    wf_msg S name m = true -> pval_bytes_okb (VMsg m) = true -> schema_bytes_okb S = true ->
    (depth (VMsg m) <= fuel)%nat -> pj_of S o name m = Some p ->
    p2j_walk fuel o S name (encode_msg m) = Some t ->
    pjson_of S o name m = Some (pj_json p) /\ json_parse t = Some (pj_json p).
  Proof.
    intros name m fuel p t Hwf Hb HS Hd Hp Hw. rewrite (walk_refines_spec name m fuel p Hwf Hb Hd Hp) in Hw.
    destruct (pj_finite p) eqn:Hf; [|discriminate Hw]. inversion Hw; subst t.
    assert (Hj : pjson_of S o name m = Some (pj_json p)) by (unfold pjson_of; rewrite Hp, Hf; reflexivity).
    split; [exact Hj|]. exact (pjson_prints_valid_pf S o name m (pj_json p) HS Hb Hj).
  Qed.

  (* ---------------------------------------------------------------- unknown records after the declared fields
     (where every encoder puts what it does not know): skipped, or the conversion fails under DisallowUnknownField *)
  Definition unknown_rec (md : mdesc) (f : wfield) : bool :=
    wf_wfield f && match find_field md (fst f) with None => true | Some _ => false end.

  Lemma unknown_tail_skipped : forall d md u, o_disallow_unknown o = false -> forallb (unknown_rec md) u = true ->
    forall fuel comma, (length (wenc u) < fuel)%nat -> walk_fields f64_lex o (wm d) fuel md comma (wenc u) = Some [].
  Proof.
    intros d md u Hdis. induction u as [|f u IH]; intros Hall fuel comma Hfuel.
    - destruct fuel; reflexivity.
    - cbn [forallb] in Hall. apply andb_true_iff in Hall as [Hf Hall]. unfold unknown_rec in Hf.
      apply andb_true_iff in Hf as [Hwf Hnone]. destruct (find_field md (fst f)) eqn:Efind; [discriminate|].
      rewrite wenc_cons in Hfuel |- *.
      destruct (nonempty_field_app f (wenc u)) as [b [tl E]].
      destruct fuel as [|fu]; [rewrite E in Hfuel; cbn in Hfuel; lia|].
      rewrite E. cbn [walk_fields]. rewrite <- E. rewrite (rd_tag_field _ _ Hwf), Efind, Hdis.
      unfold skip_val.
      assert (Hwt : (wt_of_wval (snd f) =? 0) || (wt_of_wval (snd f) =? 1) || (wt_of_wval (snd f) =? 2) || (wt_of_wval (snd f) =? 5) = true)
        by (destruct (snd f); reflexivity).
      rewrite Hwt. unfold wf_wfield in Hwf. apply andb_true_iff in Hwf as [_ Hwv].
      rewrite (wdec_val_enc _ _ Hwv). apply IH; [exact Hall|].
      rewrite app_length in Hfuel. destruct (wenc_field_cons f) as [b' [t' E']]. rewrite E' in Hfuel. cbn [length] in Hfuel. lia.
  Qed.

  Lemma unknown_head_refused : forall d md f u fuel comma, o_disallow_unknown o = true -> unknown_rec md f = true ->
    (length (wenc (f :: u)) < fuel)%nat -> walk_fields f64_lex o (wm d) fuel md comma (wenc (f :: u)) = None.
  Proof.
    intros d md f u fuel comma Hdis Hf Hfuel. unfold unknown_rec in Hf.
    apply andb_true_iff in Hf as [Hwf Hnone]. destruct (find_field md (fst f)) eqn:Efind; [discriminate|].
    rewrite wenc_cons in Hfuel |- *.
    destruct (nonempty_field_app f (wenc u)) as [b [tl E]].
    destruct fuel as [|fu]; [rewrite E in Hfuel; cbn in Hfuel; lia|].
    rewrite E. cbn [walk_fields]. rewrite <- E. rewrite (rd_tag_field _ _ Hwf), Efind, Hdis. reflexivity.
  Qed.

  Lemma unknown_stops : forall md n fd u, find_field md n = Some fd -> forallb (unknown_rec md) u = true -> stops n (wenc u).
  Proof.
    intros md n fd u Hfind Hall. destruct u as [|f u]; [left; reflexivity|]. right.
    cbn [forallb] in Hall. apply andb_true_iff in Hall as [Hf _]. unfold unknown_rec in Hf.
    apply andb_true_iff in Hf as [Hwf Hnone].
    exists (fst f), (wt_of_wval (snd f)), (wenc_val (snd f) ++ wenc u). rewrite wenc_cons.
    split; [apply rd_tag_field; exact Hwf|]. intros Heq. rewrite Heq, Hfind in Hnone. discriminate.
  Qed.

  (* the message loop over the declared fields followed by a tail X that the loop turns into [tailres] *)
  Lemma fields_tail_ok : forall d md X tailres,
    (forall n fd, find_field md n = Some fd -> stops n X) ->
    (forall fuel comma, (length X < fuel)%nat -> walk_fields f64_lex o (wm d) fuel md comma X = tailres) ->
    forall fs ms,
    Forall2 (fun nv m => match find_field md (fst nv) with
                         | Some fd => option_map (fun p => (fd_json fd, p)) (pj_fld S o (fd_label fd) (fd_type fd) (snd nv))
                         | None => None
                         end = Some m) fs ms ->
    (forall nv, In nv fs -> P (snd nv)) ->
    nodupb Z.eqb (map fst fs) = true ->
    (forall nv, In nv fs -> fld_ok md nv) ->
    (forall nv, In nv fs -> pval_bytes_okb (snd nv) = true) ->
    (forall nv, In nv fs -> (depth (snd nv) <= d)%nat) ->
    forall fuel comma, (length (wenc (msg_wire fs) ++ X) < fuel)%nat ->
    walk_fields f64_lex o (wm d) fuel md comma (wenc (msg_wire fs) ++ X) =
    if forallb (fun m => pj_finite (snd m)) ms
    then match tailres with Some tl => Some (sep_join comma (map mtext ms) ++ tl) | None => None end
    else None.
  Proof.
    intros d md X tailres HstopX HX fs ms HF.
    induction HF as [|[n v] m fs ms Hrel _ IH]; intros HP Hnd Hok Hb Hd fuel comma Hfuel.
    - cbn [msg_wire flat_map wenc app forallb map sep_join] in *. rewrite (HX fuel comma Hfuel).
      destruct tailres; reflexivity.
    - destruct (Hok (n, v) (or_introl eq_refl)) as (fd & Hfind & Hn & Hwf). cbn [fst snd] in *.
      rewrite Hfind in Hrel.
      destruct (pj_fld S o (fd_label fd) (fd_type fd) v) as [p|] eqn:Hp; [|discriminate Hrel].
      inversion Hrel; subst m. clear Hrel.
      destruct (fld_records md (n, v) (Hok _ (or_introl eq_refl))) as (w & ws & Efv & Ew & Hwfw). cbn [fst snd] in *.
      assert (Ebody : wenc (msg_wire ((n, v) :: fs)) ++ X =
                      wenc_field (n, w) ++ (wenc (map (pair n) ws) ++ (wenc (msg_wire fs) ++ X))).
      { unfold msg_wire. cbn [flat_map fst snd]. rewrite Ew. fold (msg_wire fs).
        change (((n, w) :: map (pair n) ws) ++ msg_wire fs) with ((n, w) :: (map (pair n) ws ++ msg_wire fs)).
        rewrite wenc_cons, wenc_app, <- !app_assoc. reflexivity. }
      rewrite Ebody in Hfuel |- *.
      destruct (nonempty_field_app (n, w) (wenc (map (pair n) ws) ++ (wenc (msg_wire fs) ++ X))) as [b [tl E]].
      destruct fuel as [|f]; [rewrite E in Hfuel; cbn in Hfuel; lia|].
      rewrite E. cbn [walk_fields]. rewrite <- E.
      rewrite (rd_tag_field _ _ Hwfw). cbn [fst snd]. rewrite Hfind.
      rewrite walk_field_lbl, (find_field_num _ _ _ Hfind).
      assert (Hst : fd_label fd = LSingular \/ stops n (wenc (msg_wire fs) ++ X)).
      { right. destruct fs as [|nv' fs'].
        - cbn [msg_wire flat_map wenc app]. exact (HstopX n fd Hfind).
        - right. destruct nv' as [n'' v''].
          destruct (fld_records md (n'', v'') (Hok _ (or_intror (or_introl eq_refl)))) as (w' & ws' & _ & Ew' & Hwf').
          cbn [fst snd] in Ew', Hwf'. exists n'', (wt_of_wval w'),
            (wenc_val w' ++ wenc (map (pair n'') ws' ++ msg_wire fs') ++ X).
          split.
          + unfold msg_wire. cbn [flat_map fst snd]. rewrite Ew'. fold (msg_wire fs'). cbn [app]. rewrite wenc_cons, <- app_assoc.
            rewrite (rd_tag_field _ _ Hwf'). reflexivity.
          + cbn [map fst] in Hnd. exact (proj1 (nodupb_head _ _ _ Hnd)). }
      pose proof (HP (n, v) (or_introl eq_refl) d (fd_label fd) (fd_type fd) n p (wenc (msg_wire fs) ++ X) Hwf
                    (Hb _ (or_introl eq_refl)) Hp (Hd _ (or_introl eq_refl)) Hn Hst) as Hv.
      cbn [snd] in Hv. rewrite Efv in Hv. rewrite Hv. unfold res.
      cbn [forallb snd]. destruct (pj_finite p); [|reflexivity]. cbn [andb].
      assert (Hnd' : nodupb Z.eqb (map fst fs) = true).
      { cbn [map nodupb fst] in Hnd. apply andb_true_iff in Hnd as [_ Hnd]. exact Hnd. }
      rewrite (IH (fun nv H => HP nv (or_intror H)) Hnd' (fun nv H => Hok nv (or_intror H))
                  (fun nv H => Hb nv (or_intror H)) (fun nv H => Hd nv (or_intror H)) f true).
      + destruct (forallb (fun m => pj_finite (snd m)) ms); [|reflexivity].
        destruct tailres as [tr|]; [|reflexivity].
        cbn [map sep_join].
        change (mtext (fd_json fd, p)) with (quote_ref (fd_json fd) ++ 58 :: json_print (pj_json p)).
        repeat (rewrite <- ?app_assoc; cbn [app]). reflexivity.
      + rewrite app_length in Hfuel. destruct (wenc_field_cons (n, w)) as [b' [t' E']].
        rewrite E' in Hfuel. cbn [length] in Hfuel. rewrite app_length in Hfuel. lia.
  Qed.

  Theorem walk_unknown_tail : forall name md m u fuel p,
    find_msg S name = Some md ->
    wf_msg S name m = true -> pval_bytes_okb (VMsg m) = true -> (depth (VMsg m) <= fuel)%nat ->
    pj_of S o name m = Some p -> forallb (unknown_rec md) u = true ->
    p2j_walk fuel o S name (encode_msg m ++ wenc u) =
    if o_disallow_unknown o && negb (match u with [] => true | _ => false end) then None
    else if pj_finite p then Some (json_print (pj_json p)) else None.
  Proof.
    intros name md m u fuel p Hm Hwf Hb Hd Hp Hu.
    unfold wf_msg in Hwf. cbn [wf_fld] in Hwf. rewrite Hm in Hwf.
    apply andb_true_iff in Hwf as [Hwf Hall]. apply andb_true_iff in Hwf as [Hnd Hlen].
    unfold pj_of in Hp. cbn [pj_fld] in Hp. rewrite Hm in Hp.
    match type of Hp with option_map _ ?x = _ => destruct x as [ms|] eqn:E; [|discriminate] end.
    inversion Hp; subst p. clear Hp. apply seq_opt_Forall2 in E.
    cbn [pval_bytes_okb] in Hb. rewrite forallb_forall in Hb.
    cbn [depth] in Hd. destruct fuel as [|d']; [lia|].
    assert (Hdep : forall nv, In nv m -> (depth (snd nv) <= d')%nat).
    { intros nv Hx. pose proof (fold_max_ge (fun nv => depth (snd nv)) m nv Hx). cbn beta in H. lia. }
    unfold p2j_walk, p2j_walk_gen. cbn [walk_msg]. unfold walk_body. rewrite Hm. unfold encode_msg.
    set (tailres := if o_disallow_unknown o && negb (match u with [] => true | _ => false end) then None else Some (@nil Z)).
    rewrite (fields_tail_ok d' md (wenc u) tailres) with (ms := ms).
    - cbn [pj_finite]. unfold tailres.
      destruct (o_disallow_unknown o) eqn:Hdis; destruct u as [|f u']; cbn [andb negb];
        destruct (forallb (fun m0 => pj_finite (snd m0)) ms); try reflexivity;
        unfold ptext; cbn [pj_json]; rewrite print_obj, sep_join_false, map_map, app_nil_r; reflexivity.
    - intros n fd Hfind. exact (unknown_stops md n fd u Hfind Hu).
    - intros fu comma Hfu. unfold tailres. destruct (o_disallow_unknown o) eqn:Hdis.
      + destruct u as [|f u']; cbn [andb negb].
        * destruct fu; reflexivity.
        * cbn [forallb] in Hu. apply andb_true_iff in Hu as [Hf _]. apply unknown_head_refused; assumption.
      + cbn [andb]. apply unknown_tail_skipped; assumption.
    - exact E.
    - intros nv Hnv. apply P_all.
    - exact Hnd.
    - exact (msg_fld_ok md m Hall).
    - exact Hb.
    - exact Hdep.
    - lia.
  Qed.
End Refine.
